/-
  Proof of C01: the executable CTL labelling algorithm (`CTL.check`, PMC/Model/CTL.lean) is exact w.r.t. the
  documented semantics (`sat`, PMC/Spec/Semantics.lean).

  Ingredients already available:
    * PMC.Core.ex_core / eu_core / euRel_iff_reach / eg_core' (PMC/Proofs/CTLCore.lean, Paths.lean): the abstract
      fixed-point facts over a total relation on a finite type;
    * PMC.Graph.reachFromFn_exact (PMC/Proofs/Reach.lean): the work-list computes reachability;
    * PMC.SCC.sccs_correct (PMC/Proofs/SCCVisit.lean): the SCC routine computes mutual-reachability classes;
    * the graph-operation lemmas of PMC/Properties/C13.lean (mk_nodes, mk_edges, subgraph_*, reversed_*,
      addEdgeIgnore_*, addNodeRaw_*, mem_next_iff_edge, *_wf);
    * sat_restrictCTL, restrictCTL_restricted, sat_state_indep (PMC/Proofs/RewriteCTL.lean).
-/
import PMC.Spec.Semantics
import PMC.Model.CTL
import PMC.Proofs.CTLCore
import PMC.Proofs.Reach
import PMC.Proofs.SCCVisit
import PMC.Proofs.RewriteCTL
import PMC.Properties.C13
import Mathlib.Tactic
namespace PMC.CTL
open PMC PMC.Graph
variable {σ : Type}

theorem kgraph_nodes (K : Kripke σ) : K.graph.nodes = K.states := by
  simp [Kripke.graph, Graph.nodes, Function.comp_def]

theorem kgraph_edges (K : Kripke σ) (a b : σ) :
    (a, b) ∈ K.graph.edges ↔ a ∈ K.states ∧ b ∈ K.succ a := by
  simp only [Kripke.graph, Graph.edges, List.mem_flatMap, List.mem_map, Prod.mk.injEq]
  constructor
  · rintro ⟨p, ⟨s, hs, rfl⟩, d, hd, rfl, rfl⟩; exact ⟨hs, hd⟩
  · rintro ⟨ha, hb⟩; exact ⟨(a, K.succ a), ⟨a, ha, rfl⟩, b, hb, rfl, rfl⟩

variable [DecidableEq σ]

/-- `_checkEX`: L is the exact satisfaction set of φ (inside the states) ⇒ the result is that of EX φ -/
theorem checkEX_exact (K : Kripke σ) (hK : K.WF) (L : List σ) (s : σ) :
    s ∈ checkEX K L ↔ (s ∈ K.states ∧ ∃ t ∈ K.succ s, t ∈ L) := by
  have _ := hK
  simp only [checkEX, List.mem_map, List.mem_filter, decide_eq_true_eq]
  constructor
  · rintro ⟨⟨a, b⟩, ⟨he, hb⟩, rfl⟩
    obtain ⟨ha, hab⟩ := (kgraph_edges K a b).mp he
    exact ⟨ha, b, hab, hb⟩
  · rintro ⟨hs, t, ht, htL⟩
    exact ⟨(s, t), ⟨(kgraph_edges K s t).mpr ⟨hs, ht⟩, htL⟩, rfl⟩

/-- nodes of the reversed `X`-subgraph of the Kripke graph -/
theorem revsub_nodes (K : Kripke σ) (hK : K.WF) (X : List σ) (v : σ) :
    v ∈ (K.graph.subgraph X).reversed.nodes ↔ v ∈ K.states ∧ v ∈ X := by
  rw [C13.reversed_nodes _ (C13.subgraph_wf _ _)]
  unfold Graph.subgraph
  rw [C13.mk_nodes, kgraph_nodes]
  simp only [List.mem_filter, decide_eq_true_eq, Bool.and_eq_true]
  constructor
  · rintro (h | ⟨⟨a, b⟩, ⟨he, ha, hb⟩, hv | hv⟩)
    · exact h
    · have hv' : v = a := hv
      rw [hv']; exact ⟨((kgraph_edges K a b).mp he).1, ha⟩
    · have hv' : v = b := hv
      rw [hv']
      obtain ⟨h1, h2⟩ := (kgraph_edges K a b).mp he
      exact ⟨hK.1 a h1 b h2, hb⟩
  · intro h; exact Or.inl h

theorem revsub_edges (K : Kripke σ) (X : List σ) (a b : σ) :
    (a, b) ∈ (K.graph.subgraph X).reversed.edges ↔ b ∈ K.states ∧ a ∈ K.succ b ∧ a ∈ X ∧ b ∈ X := by
  rw [C13.reversed_edges, C13.subgraph_edges, kgraph_edges]
  tauto


/-! ### folds of graph updates -/

theorem foldl_addEdgeIgnore (v : σ) (ws : List σ) (g : Graph σ) (h : WFG g) :
    WFG (ws.foldl (fun g w => g.addEdgeIgnore w v) g) ∧
    ∀ a b, (a, b) ∈ (ws.foldl (fun g w => g.addEdgeIgnore w v) g).edges ↔
      (a, b) ∈ g.edges ∨ (a ∈ ws ∧ b = v) := by
  induction ws generalizing g with
  | nil => simp [h]
  | cons w ws ih =>
    simp only [List.foldl_cons]
    obtain ⟨h1, h2⟩ := ih (g.addEdgeIgnore w v) (C13.addEdgeIgnore_wf g h w v)
    refine ⟨h1, fun a b => ?_⟩
    rw [h2, C13.addEdgeIgnore_edges g h]
    simp only [List.mem_cons]
    tauto

theorem foldl_foldl_addEdgeIgnore (F : σ → List σ) (L : List σ) (g : Graph σ) (h : WFG g) :
    WFG (L.foldl (fun g v => (F v).foldl (fun g w => g.addEdgeIgnore w v) g) g) ∧
    ∀ a b, (a, b) ∈ (L.foldl (fun g v => (F v).foldl (fun g w => g.addEdgeIgnore w v) g) g).edges ↔
      (a, b) ∈ g.edges ∨ (b ∈ L ∧ a ∈ F b) := by
  induction L generalizing g with
  | nil => simp [h]
  | cons v L ih =>
    simp only [List.foldl_cons]
    obtain ⟨w1, e1⟩ := foldl_addEdgeIgnore v (F v) g h
    obtain ⟨h1, h2⟩ := ih _ w1
    refine ⟨h1, fun a b => ?_⟩
    rw [h2, e1]
    simp only [List.mem_cons]
    constructor
    · rintro ((h | ⟨h, rfl⟩) | ⟨h, h'⟩)
      · exact Or.inl h
      · exact Or.inr ⟨Or.inl rfl, h⟩
      · exact Or.inr ⟨Or.inr h, h'⟩
    · rintro (h | ⟨rfl | h, h'⟩)
      · exact Or.inl (Or.inl h)
      · exact Or.inl (Or.inr ⟨h', rfl⟩)
      · exact Or.inr ⟨h, h'⟩

theorem foldl_addNodeRaw (vs : List σ) (g : Graph σ) (h : WFG g) :
    WFG (vs.foldl Graph.addNodeRaw g) ∧
    (∀ x, x ∈ (vs.foldl Graph.addNodeRaw g).nodes ↔ x ∈ g.nodes ∨ x ∈ vs) ∧
    ∀ a b, (a, b) ∈ (vs.foldl Graph.addNodeRaw g).edges ↔ (a, b) ∈ g.edges := by
  induction vs generalizing g with
  | nil => simp [h]
  | cons v vs ih =>
    simp only [List.foldl_cons]
    obtain ⟨h1, h2, h3⟩ := ih _ (C13.addNodeRaw_wf g h v)
    refine ⟨h1, fun x => ?_, fun a b => ?_⟩
    · rw [h2, C13.addNodeRaw_nodes]; simp only [List.mem_cons]; tauto
    · rw [h3, C13.addNodeRaw_edges]

/-- `_checkEU` computes backward reachability from `L1` through `L0`-predecessors -/
theorem checkEU_reach (K : Kripke σ) (L0 L1 : List σ) (h0 : ∀ x ∈ L0, x ∈ K.states) (s : σ) :
    s ∈ checkEU K L0 L1 ↔
      ∃ x ∈ L1, Relation.ReflTransGen (fun a b => b ∈ L0 ∧ a ∈ K.succ b ∧ (a ∈ L0 ∨ a ∈ L1)) x s := by
  unfold checkEU
  extract_lets sub0 sub1 sub2
  have w0 : WFG sub0 := C13.reversed_wf _
  have e0 : ∀ a b, (a, b) ∈ sub0.edges ↔ b ∈ K.states ∧ a ∈ K.succ b ∧ a ∈ L0 ∧ b ∈ L0 :=
    revsub_edges K L0
  obtain ⟨w1, e1⟩ : WFG sub1 ∧ ∀ a b, (a, b) ∈ sub1.edges ↔ (a, b) ∈ sub0.edges ∨
      (b ∈ L0 ∧ a ∈ (K.succ b).filter (fun w => decide (w ∈ L1))) :=
    foldl_foldl_addEdgeIgnore (fun v => (K.succ v).filter (fun w => decide (w ∈ L1))) L0 sub0 w0
  obtain ⟨w2, n2, e2⟩ : WFG sub2 ∧ (∀ x, x ∈ sub2.nodes ↔ x ∈ sub1.nodes ∨
      x ∈ L1.filter (fun v => !sub1.hasNode v)) ∧ ∀ a b, (a, b) ∈ sub2.edges ↔ (a, b) ∈ sub1.edges :=
    foldl_addNodeRaw _ sub1 w1
  have hX : ∀ x ∈ L1, x ∈ sub2.nodes := by
    intro x hx
    rw [n2]
    by_cases hn : x ∈ sub1.nodes
    · exact Or.inl hn
    · refine Or.inr (List.mem_filter.mpr ⟨hx, ?_⟩)
      rw [← C13.hasNode_iff] at hn
      simpa using hn
  have hedge : ∀ a b, Edge sub2.next a b ↔ (b ∈ L0 ∧ a ∈ K.succ b ∧ (a ∈ L0 ∨ a ∈ L1)) := by
    intro a b
    show b ∈ sub2.next a ↔ _
    rw [C13.mem_next_iff_edge sub2 w2, e2, e1, e0]
    simp only [List.mem_filter, decide_eq_true_eq]
    constructor
    · rintro (⟨_, h2, h3, h4⟩ | ⟨h1, h2, h3⟩)
      · exact ⟨h4, h2, Or.inl h3⟩
      · exact ⟨h1, h2, Or.inr h3⟩
    · rintro ⟨h1, h2, h3 | h3⟩
      · exact Or.inl ⟨h0 b h1, h2, h3, h1⟩
      · exact Or.inr ⟨h1, h2, h3⟩
  rw [reachFromFn_exact sub2.next sub2.nodes L1 w2.closed hX]
  have : Edge sub2.next = (fun a b => b ∈ L0 ∧ a ∈ K.succ b ∧ (a ∈ L0 ∨ a ∈ L1)) := by
    funext a b; exact propext (hedge a b)
  unfold Reach
  rw [this]


/-- `_checkEU`: with L0 ⊆ states, L1 ⊆ states, the result is the set of states with a finite L0-path to L1 -/
theorem checkEU_exact (K : Kripke σ) (hK : K.WF) (L0 L1 : List σ)
    (h0 : ∀ x ∈ L0, x ∈ K.states) (h1 : ∀ x ∈ L1, x ∈ K.states) (s : σ) :
    s ∈ checkEU K L0 L1 ↔
      ∃ (n : Nat) (p : Nat → σ), p 0 = s ∧ p n ∈ L1 ∧ (∀ k, k < n → p k ∈ L0 ∧ p (k+1) ∈ K.succ (p k)) := by
  have _ := hK; have _ := h1
  rw [checkEU_reach K L0 L1 h0]
  constructor
  · rintro ⟨x, hx, hr⟩
    induction hr with
    | refl => exact ⟨0, fun _ => x, rfl, hx, fun k hk => absurd hk (Nat.not_lt_zero k)⟩
    | @tail b c _ hbc ih =>
      obtain ⟨n, p, hp0, hpn, hstep⟩ := ih
      refine ⟨n+1, fun k => Nat.casesOn k c p, rfl, hpn, ?_⟩
      intro k hk
      cases k with
      | zero => exact ⟨hbc.1, by simpa [hp0] using hbc.2.1⟩
      | succ k => exact hstep k (by omega)
  · rintro ⟨n, p, hp0, hpn, hstep⟩
    induction n generalizing s p with
    | zero => exact ⟨p 0, hpn, by rw [hp0]⟩
    | succ n ih =>
      obtain ⟨x, hx, hr⟩ := ih (p 1) (fun k => p (k+1)) rfl hpn (fun k hk => hstep (k+1) (by omega))
      refine ⟨x, hx, hr.tail ?_⟩
      rw [← hp0]
      refine ⟨(hstep 0 (by omega)).1, (hstep 0 (by omega)).2, ?_⟩
      cases n with
      | zero => exact Or.inr hpn
      | succ n => exact Or.inl (hstep 1 (by omega)).1


/-! ### EG -/
open Relation in
/-- `eg_core` with finiteness only of the set `P` -/
theorem eg_core_list (R : σ → σ → Prop) (P : σ → Prop) (l : List σ) (hl : ∀ x, P x → x ∈ l) (s : σ) :
    (∃ π, Core.IsPath R π ∧ π 0 = s ∧ ∀ i, P (π i)) ↔
    (∃ c, ReflTransGen (Core.Restr R P) s c ∧ TransGen (Core.Restr R P) c c) := by
  constructor
  · rintro ⟨π, hπ, h0, hP⟩
    have hπ' : Core.IsPath (Core.Restr R P) π := fun i => ⟨hP i, hP (i+1), hπ i⟩
    obtain ⟨i, j, hij, heq⟩ :=
      Finite.exists_ne_map_eq_of_infinite (fun i => (⟨π i, hl _ (hP i)⟩ : {x // x ∈ l}))
    have heq : π i = π j := congrArg Subtype.val heq
    rcases Nat.lt_or_gt_of_ne hij with h | h
    · refine ⟨π i, ?_, ?_⟩
      · rw [← h0]; exact Core.path_reach hπ' 0 i (Nat.zero_le _)
      · have := Core.path_transgen hπ' i j h
        rwa [← heq] at this
    · refine ⟨π j, ?_, ?_⟩
      · rw [← h0]; exact Core.path_reach hπ' 0 j (Nat.zero_le _)
      · have := Core.path_transgen hπ' j i h
        rwa [heq] at this
  · rintro ⟨c, hsc, hcc⟩
    obtain ⟨ρ, hρ, hρ0⟩ := Core.exists_path_of_cycle hcc
    induction hsc using ReflTransGen.head_induction_on with
    | refl =>
      refine ⟨ρ, fun i => (hρ i).2.2, hρ0, fun i => (hρ i).1⟩
    | @head a c' hab _ ih =>
      obtain ⟨π, hπ, h0, hP⟩ := ih
      refine ⟨fun n => Nat.casesOn n a π, ?_, rfl, ?_⟩
      · intro i
        cases i with
        | zero => simpa [h0] using hab.2.2
        | succ k => exact hπ k
      · intro i
        cases i with
        | zero => exact hab.1
        | succ k => exact hP k

open Relation in
/-- the components kept by `_checkEG` are exactly those containing a cycle -/
theorem cyc_filter (nodes : List σ) (next : σ → List σ) (hcl : ∀ x ∈ nodes, ∀ w ∈ next x, w ∈ nodes)
    (hsrc : ∀ x y, y ∈ next x → x ∈ nodes) (c : σ) :
    c ∈ ((SCC.sccs nodes next).filter (fun scc =>
      match scc with
      | [] => false
      | v :: _ => decide (scc.length > 1) || decide (v ∈ next v))).flatten ↔
    TransGen (Edge next) c c := by
  obtain ⟨hnd, hmem, hmut⟩ := SCC.sccs_correct nodes (next := next) hcl
  constructor
  · intro hc
    obtain ⟨C, hCf, hcC⟩ := List.mem_flatten.mp hc
    obtain ⟨hC, hcond⟩ := List.mem_filter.mp hCf
    have hm := hmut C hC c hcC
    cases C with
    | nil => cases hcC
    | cons v rest =>
      simp only [Bool.or_eq_true, decide_eq_true_eq] at hcond
      rcases hcond with hlen | hself
      · have hCnd : (v :: rest).Nodup := (List.nodup_flatten.mp hnd).1 _ hC
        have : ∃ y ∈ v :: rest, y ≠ c := by
          by_contra hno
          push Not at hno
          have hsub : (v :: rest) ⊆ [c] := fun y hy => by simp [hno y hy]
          have := (hCnd.subperm hsub).length_le
          simp only [List.length_cons, List.length_nil] at this hlen
          omega
        obtain ⟨y, hy, hyc⟩ := this
        obtain ⟨hcy, hyc'⟩ := (hm y).mp hy
        rcases reflTransGen_iff_eq_or_transGen.mp hcy with heq | ht
        · exact absurd heq hyc
        · exact ht.trans_left hyc'
      · obtain ⟨hcv, hvc⟩ := (hm v).mp (List.mem_cons_self ..)
        exact (TransGen.trans_right hcv (TransGen.single hself)).trans_left hvc
  · intro hcc
    obtain ⟨d, hcd, hdc⟩ := TransGen.head'_iff.mp hcc
    have hcn : c ∈ nodes := hsrc c d hcd
    obtain ⟨C, hC, hcC⟩ := List.mem_flatten.mp ((hmem c).mpr hcn)
    refine List.mem_flatten.mpr ⟨C, List.mem_filter.mpr ⟨hC, ?_⟩, hcC⟩
    have hdC : d ∈ C := (hmut C hC c hcC d).mpr ⟨ReflTransGen.single hcd, hdc⟩
    cases C with
    | nil => cases hcC
    | cons v rest =>
      cases rest with
      | nil =>
        simp only [List.mem_singleton] at hcC hdC
        subst hcC; subst hdC
        have hcd' : d ∈ next d := hcd
        simpa using hcd'
      | cons w rest => simp


open Relation in
/-- `_checkEG` computes: backward-reachable, inside `L`, from a state on an `L`-cycle -/
theorem checkEG_reach (K : Kripke σ) (hK : K.WF) (L : List σ) (h : ∀ x ∈ L, x ∈ K.states) (s : σ) :
    s ∈ checkEG K L ↔
      ∃ c, TransGen (Function.swap (Core.Restr (fun a b => b ∈ K.succ a) (· ∈ L))) c c ∧
           ReflTransGen (Function.swap (Core.Restr (fun a b => b ∈ K.succ a) (· ∈ L))) c s := by
  unfold checkEG
  extract_lets sub T
  have w : WFG sub := C13.reversed_wf _
  have n0 : ∀ v, v ∈ sub.nodes ↔ v ∈ K.states ∧ v ∈ L := revsub_nodes K hK L
  have e0 : ∀ a b, (a, b) ∈ sub.edges ↔ b ∈ K.states ∧ a ∈ K.succ b ∧ a ∈ L ∧ b ∈ L := revsub_edges K L
  have hedge : Edge sub.next = Function.swap (Core.Restr (fun a b => b ∈ K.succ a) (· ∈ L)) := by
    funext a b
    apply propext
    show b ∈ sub.next a ↔ (b ∈ L ∧ a ∈ L ∧ a ∈ K.succ b)
    rw [C13.mem_next_iff_edge sub w, e0]
    constructor
    · rintro ⟨_, h2, h3, h4⟩; exact ⟨h4, h3, h2⟩
    · rintro ⟨h1, h2, h3⟩; exact ⟨h b h1, h3, h2, h1⟩
  have hsrc : ∀ x y, y ∈ sub.next x → x ∈ sub.nodes := by
    intro x y hy
    exact (C13.edge_nodes sub w x y ((C13.mem_next_iff_edge sub w x y).mp hy)).1
  have hT : ∀ c, c ∈ T ↔ TransGen (Edge sub.next) c c := cyc_filter sub.nodes sub.next w.closed hsrc
  have hTn : ∀ c ∈ T, c ∈ sub.nodes := by
    intro c hc
    obtain ⟨d, hcd, _⟩ := TransGen.head'_iff.mp ((hT c).mp hc)
    exact hsrc c d hcd
  rw [reachFromFn_exact sub.next sub.nodes T w.closed hTn]
  unfold Reach
  simp only [hT, hedge]

/-- `_checkEG`: with L ⊆ states, the result is the set of states from which an infinite path stays in L -/
theorem checkEG_exact (K : Kripke σ) (hK : K.WF) (L : List σ) (h : ∀ x ∈ L, x ∈ K.states) (s : σ) :
    s ∈ checkEG K L ↔ ∃ π : Nat → σ, IsPath K π ∧ π 0 = s ∧ ∀ i, π i ∈ L := by
  rw [checkEG_reach K hK L h]
  have := eg_core_list (fun a b => b ∈ K.succ a) (· ∈ L) L (fun _ hx => hx) s
  show _ ↔ ∃ π : Nat → σ, Core.IsPath (fun a b => b ∈ K.succ a) π ∧ π 0 = s ∧ ∀ i, π i ∈ L
  rw [this]
  constructor
  · rintro ⟨c, hcc, hcs⟩
    exact ⟨c, Relation.reflTransGen_swap.mp hcs, Relation.transGen_swap.mp hcc⟩
  · rintro ⟨c, hsc, hcc⟩
    exact ⟨c, Relation.transGen_swap.mpr hcc, Relation.reflTransGen_swap.mpr hsc⟩


/-! ### paths of a well-formed structure -/

omit [DecidableEq σ] in
theorem exists_kpath (K : Kripke σ) (hK : K.WF) (t : σ) (ht : t ∈ K.states) :
    ∃ π, IsPath K π ∧ π 0 = t := by
  have htot : ∀ a : {x // x ∈ K.states}, ∃ b : {x // x ∈ K.states}, b.1 ∈ K.succ a.1 := by
    rintro ⟨a, ha⟩
    obtain ⟨b, hb⟩ := List.exists_mem_of_ne_nil _ (hK.2.1 a ha)
    exact ⟨⟨b, hK.1 a ha b hb⟩, hb⟩
  obtain ⟨π, hπ, h0⟩ := Core.exists_path_of_total (R := fun (a b : {x // x ∈ K.states}) => b.1 ∈ K.succ a.1) htot ⟨t, ht⟩
  exact ⟨fun i => (π i).1, fun i => hπ i, by simp [h0]⟩

omit [DecidableEq σ] in
theorem path_states (K : Kripke σ) (hK : K.WF) (π : Nat → σ) (hπ : IsPath K π) (h0 : π 0 ∈ K.states) :
    ∀ i, π i ∈ K.states := by
  intro i
  induction i with
  | zero => exact h0
  | succ i ih => exact hK.1 _ ih _ (hπ i)

omit [DecidableEq σ] in
/-- a finite chain followed by an infinite path -/
theorem extend_path (K : Kripke σ) (p : Nat → σ) (n : Nat) (hstep : ∀ k, k < n → p (k+1) ∈ K.succ (p k))
    (ρ : Nat → σ) (hρ : IsPath K ρ) (h0 : ρ 0 = p n) :
    ∃ π, IsPath K π ∧ (∀ k, k ≤ n → π k = p k) ∧ ∀ k, π (n + k) = ρ k := by
  refine ⟨fun k => if k ≤ n then p k else ρ (k - n), ?_, ?_, ?_⟩
  · intro i
    show (if i + 1 ≤ n then p (i+1) else ρ (i + 1 - n)) ∈ K.succ (if i ≤ n then p i else ρ (i - n))
    by_cases h1 : i + 1 ≤ n
    · rw [if_pos h1, if_pos (by omega)]; exact hstep i (by omega)
    · rw [if_neg h1]
      by_cases h2 : i ≤ n
      · have : i = n := by omega
        subst this
        rw [if_pos h2, ← h0, show i + 1 - i = 0 + 1 by omega]
        exact hρ 0
      · rw [if_neg h2, show i + 1 - n = (i - n) + 1 by omega]
        exact hρ (i - n)
  · intro k hk; simp only [if_pos hk]
  · intro k
    by_cases hk : k = 0
    · subst hk; simp [h0]
    · simp only [show ¬ (n + k ≤ n) by omega, if_false, show n + k - n = k by omega]

/-! ### the labelling steps against the semantics -/

/-- `L` is the exact label set of `f` -/
def Exact (K : Kripke σ) (f : Fm) (L : List σ) : Prop := ∀ s, s ∈ L ↔ (s ∈ K.states ∧ satState K f s)

omit [DecidableEq σ] in
theorem sat_at (K : Kripke σ) (f : Fm) (hf : f.isCTLSState = true) (π : Nat → σ) (i : Nat) :
    sat K f π i ↔ satState K f (π i) :=
  sat_state_indep K f hf π (fun _ => π i) i 0 rfl

theorem step_not (K : Kripke σ) (f : Fm) (L : List σ) (hL : Exact K f L) : Exact K (.not f) (checkNot K L) := by
  intro s
  simp only [checkNot, List.mem_filter, decide_eq_true_eq, satState, sat]
  constructor
  · rintro ⟨hs, hn⟩; exact ⟨hs, fun h => hn ((hL s).mpr ⟨hs, h⟩)⟩
  · rintro ⟨hs, hn⟩; exact ⟨hs, fun h => hn ((hL s).mp h).2⟩

theorem step_EX (K : Kripke σ) (hK : K.WF) (f : Fm) (hf : f.isCTLSState = true) (L : List σ)
    (hL : Exact K f L) : Exact K (.E (.X f)) (checkEX K L) := by
  intro s
  rw [checkEX_exact K hK]
  simp only [satState, sat]
  constructor
  · rintro ⟨hs, t, ht, htL⟩
    obtain ⟨hts, hsat⟩ := (hL t).mp htL
    obtain ⟨ρ, hρ, hρ0⟩ := exists_kpath K hK t hts
    obtain ⟨π, hπ, hpre, hsuf⟩ := extend_path K (fun k => Nat.casesOn k s (fun _ => t)) 1
      (fun k hk => by have : k = 0 := by omega
                      subst this; exact ht) ρ hρ hρ0
    refine ⟨hs, π, hπ, hpre 0 (by omega), ?_⟩
    rw [sat_at K f hf, hpre 1 (by omega)]
    exact hsat
  · rintro ⟨hs, π, hπ, h0, hsat⟩
    refine ⟨hs, π 1, by rw [← h0]; exact hπ 0, ?_⟩
    rw [sat_at K f hf] at hsat
    exact (hL _).mpr ⟨path_states K hK π hπ (by rw [h0]; exact hs) 1, hsat⟩

theorem step_EU (K : Kripke σ) (hK : K.WF) (f g : Fm) (hf : f.isCTLSState = true) (hg : g.isCTLSState = true)
    (L0 L1 : List σ) (h0 : Exact K f L0) (h1 : Exact K g L1) : Exact K (.E (.U f g)) (checkEU K L0 L1) := by
  intro s
  rw [checkEU_exact K hK L0 L1 (fun x hx => ((h0 x).mp hx).1) (fun x hx => ((h1 x).mp hx).1)]
  simp only [satState, sat]
  constructor
  · rintro ⟨n, p, hp0, hpn, hstep⟩
    have hs : s ∈ K.states := by
      rw [← hp0]
      cases n with
      | zero => exact ((h1 _).mp hpn).1
      | succ n => exact ((h0 _).mp (hstep 0 (by omega)).1).1
    obtain ⟨ρ, hρ, hρ0⟩ := exists_kpath K hK (p n) ((h1 _).mp hpn).1
    obtain ⟨π, hπ, hpre, _⟩ := extend_path K p n (fun k hk => (hstep k hk).2) ρ hρ hρ0
    refine ⟨hs, π, hπ, by rw [hpre 0 (by omega), hp0], n, Nat.zero_le _, ?_, ?_⟩
    · rw [sat_at K g hg, hpre n le_rfl]; exact ((h1 _).mp hpn).2
    · intro k _ hk
      rw [sat_at K f hf, hpre k (by omega)]; exact ((h0 _).mp (hstep k hk).1).2
  · rintro ⟨hs, π, hπ, hπ0, j, _, hg', hf'⟩
    have hst := path_states K hK π hπ (by rw [hπ0]; exact hs)
    refine ⟨j, π, hπ0, (h1 _).mpr ⟨hst j, (sat_at K g hg π j).mp hg'⟩, ?_⟩
    intro k hk
    exact ⟨(h0 _).mpr ⟨hst k, (sat_at K f hf π k).mp (hf' k (Nat.zero_le _) hk)⟩, hπ k⟩

theorem step_EG (K : Kripke σ) (hK : K.WF) (f : Fm) (hf : f.isCTLSState = true) (L : List σ)
    (hL : Exact K f L) : Exact K (.E (.G f)) (checkEG K L) := by
  intro s
  rw [checkEG_exact K hK L (fun x hx => ((hL x).mp hx).1)]
  simp only [satState, sat]
  constructor
  · rintro ⟨π, hπ, h0, hin⟩
    refine ⟨by rw [← h0]; exact ((hL _).mp (hin 0)).1, π, hπ, h0, ?_⟩
    intro j _
    rw [sat_at K f hf]; exact ((hL _).mp (hin j)).2
  · rintro ⟨hs, π, hπ, h0, hsat⟩
    have hst := path_states K hK π hπ (by rw [h0]; exact hs)
    exact ⟨π, hπ, h0, fun i => (hL _).mpr ⟨hst i, (sat_at K f hf π i).mp (hsat i (Nat.zero_le _))⟩⟩


omit [DecidableEq σ] in
theorem exact_tt (K : Kripke σ) : Exact K .tt K.states := by
  intro s; simp [satState, sat]

omit [DecidableEq σ] in
theorem exact_ff (K : Kripke σ) : Exact K .ff [] := by
  intro s; simp [satState, sat]

omit [DecidableEq σ] in
theorem exact_ap (K : Kripke σ) (n : String) : Exact K (.ap n) (checkAP K n) := by
  intro s; simp [checkAP, satState, sat]

theorem restrictedCTL_state (f : Fm) (hf : f.isRestrictedCTL = true) : f.isCTLSState = true :=
  isCTLSState_of_isCTLState f (isCTLState_of_isRestrictedCTL f hf)

/-- the restricted-alphabet recursion is exact -/
theorem checkR_exact (K : Kripke σ) (hK : K.WF) (f : Fm) (hf : f.isRestrictedCTL = true) (s : σ) :
    s ∈ checkR K f ↔ (s ∈ K.states ∧ satState K f s) := by
  suffices h : f.isRestrictedCTL = true → Exact K f (checkR K f) from h hf s
  clear hf s
  apply checkR.induct
    (motive_1 := fun fs => Fm.isRestrictedCTL.isRestrictedCTLList fs = true →
      ∀ s, s ∈ checkR.checkRList K fs ↔ (s ∈ K.states ∧ sat.satAny K fs (fun _ => s) 0))
    (motive_2 := fun f => f.isRestrictedCTL = true → Exact K f (checkR K f))
  · intro _; rw [checkR]; exact exact_tt K
  · intro _; rw [checkR]; exact exact_ff K
  · intro n _; rw [checkR]; exact exact_ap K n
  · intro f ih hf
    rw [checkR]
    exact step_not K f _ (ih (by simpa [Fm.isRestrictedCTL] using hf))
  · intro fs ih hf s
    rw [checkR, ih (by simpa [Fm.isRestrictedCTL] using hf)]
    simp only [satState, sat]
  · intro f ih hf
    have hf' : f.isRestrictedCTL = true := by simpa [Fm.isRestrictedCTL] using hf
    rw [checkR]
    exact step_EG K hK f (restrictedCTL_state f hf') _ (ih hf')
  · intro f g ihf ihg hfg
    have hfg' : f.isRestrictedCTL = true ∧ g.isRestrictedCTL = true := by
      simpa [Fm.isRestrictedCTL] using hfg
    rw [checkR]
    exact step_EU K hK f g (restrictedCTL_state f hfg'.1) (restrictedCTL_state g hfg'.2) _ _
      (ihf hfg'.1) (ihg hfg'.2)
  · intro f ih hf
    have hf' : f.isRestrictedCTL = true := by simpa [Fm.isRestrictedCTL] using hf
    rw [checkR]
    exact step_EX K hK f (restrictedCTL_state f hf') _ (ih hf')
  · intro t h1 h2 h3 h4 h5 h6 h7 h8 hf
    exfalso
    cases t with
    | tt => exact h1 rfl
    | ff => exact h2 rfl
    | ap n => exact h3 n rfl
    | not f => exact h4 f rfl
    | or fs => exact h5 fs rfl
    | E f =>
      cases f with
      | G f => exact h6 f rfl
      | U f g => exact h7 f g rfl
      | X f => exact h8 f rfl
      | _ => simp [Fm.isRestrictedCTL] at hf
    | _ => simp [Fm.isRestrictedCTL] at hf
  · intro _ s; simp [checkR.checkRList, sat.satAny]
  · intro f fs ihf ihfs hf s
    have hf' : f.isRestrictedCTL = true ∧ Fm.isRestrictedCTL.isRestrictedCTLList fs = true := by
      simpa [Fm.isRestrictedCTL.isRestrictedCTLList] using hf
    rw [checkR.checkRList, List.mem_append, ihf hf'.1 s, ihfs hf'.2 s]
    simp only [sat.satAny, satState]
    tauto


/-- `_checkStateFormula` is exact on every CTL state formula -/
theorem check_exact (K : Kripke σ) (hK : K.WF) (f : Fm) (hf : f.isCTLState = true) (s : σ) :
    s ∈ check K f ↔ (s ∈ K.states ∧ satState K f s) := by
  suffices h : f.isCTLState = true → Exact K f (check K f) from h hf s
  clear hf s
  apply check.induct
    (motive_1 := fun fs => Fm.isCTLState.isCTLStateList fs = true →
      ∀ s, s ∈ check.checkList K fs ↔ (s ∈ K.states ∧ sat.satAny K fs (fun _ => s) 0))
    (motive_2 := fun f => f.isCTLState = true → Exact K f (check K f))
  · intro _; rw [check]; exact exact_tt K
  · intro _; rw [check]; exact exact_ff K
  · intro n _; rw [check]; exact exact_ap K n
  · intro f ih hf
    rw [check]
    exact step_not K f _ (ih (by simpa [Fm.isCTLState] using hf))
  · intro fs ih hf s
    rw [check, ih (by simpa [Fm.isCTLState] using hf)]
    simp only [satState, sat]
  · intro f ih hf
    have hf' : f.isCTLState = true := by simpa [Fm.isCTLState] using hf
    rw [check]
    exact step_EG K hK f (isCTLSState_of_isCTLState f hf') _ (ih hf')
  · intro f g ihf ihg hfg
    have hfg' : f.isCTLState = true ∧ g.isCTLState = true := by
      simpa [Fm.isCTLState] using hfg
    rw [check]
    exact step_EU K hK f g (isCTLSState_of_isCTLState f hfg'.1) (isCTLSState_of_isCTLState g hfg'.2) _ _
      (ihf hfg'.1) (ihg hfg'.2)
  · intro f ih hf
    have hf' : f.isCTLState = true := by simpa [Fm.isCTLState] using hf
    rw [check]
    exact step_EX K hK f (isCTLSState_of_isCTLState f hf') _ (ih hf')
  · intro t h1 h2 h3 h4 h5 h6 h7 h8 hf s
    have hc : check K t = checkR K t.restrictCTL := by
      rw [check] <;> assumption
    rw [hc, checkR_exact K hK _ (restrictCTL_restricted t hf)]
    simp only [satState, sat_restrictCTL K t hf]
  · intro _ s; simp [check.checkList, sat.satAny]
  · intro f fs ihf ihfs hf s
    have hf' : f.isCTLState = true ∧ Fm.isCTLState.isCTLStateList fs = true := by
      simpa [Fm.isCTLState.isCTLStateList] using hf
    rw [check.checkList, List.mem_append, ihf hf'.1 s, ihfs hf'.2 s]
    simp only [sat.satAny, satState]
    tauto

#print axioms check_exact
end PMC.CTL
