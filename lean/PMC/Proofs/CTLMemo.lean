/-
  The memo table of the CTL checker is transparent: `CTL.checkM` (PMC/Model/CTLMemo.lean), which threads the table
  `L` keyed by printed formulas exactly like `_checkStateFormula`, returns what the table-free `CTL.check` returns —
  on CTL state formulas with identifier-style non-reserved atoms and n-ary and/or of arity ≥ 2, where printing is
  injective (`printCTL_injective`).

  Invariant (`MemoOK`): whatever is stored under a key is the `check` value of every `Good` formula printing to that
  key.  It is established when an entry is written (by injectivity the formula being stored is the only Good formula
  with that print) and used when an entry is read.
-/
import PMC.Model.CTLMemo
import PMC.Proofs.CTLExact
import PMC.Proofs.PrintInj
import Mathlib.Tactic
namespace PMC.CTL
open PMC Fm

/-! ### the formulas the theorem is about, and their closure properties -/

def Good (f : Fm) : Prop := f.isCTLState = true ∧ f.wfAtoms = true ∧ f.arityOK = true

def GoodList (fs : List Fm) : Prop :=
  isCTLState.isCTLStateList fs = true ∧ (atoms.atomsList fs).all wfName = true ∧ arityOK.arityOKList fs = true

theorem isCTL_of_isCTLState (f : Fm) (h : f.isCTLState = true) : f.isCTL = true := by
  cases f <;> simp_all [isCTL, isCTLState]

theorem good_tt : Good .tt := by simp [Good, isCTLState, wfAtoms, atoms, arityOK]
theorem good_ff : Good .ff := by simp [Good, isCTLState, wfAtoms, atoms, arityOK]

theorem good_not {f : Fm} (h : Good (.not f)) : Good f := by
  simpa [Good, isCTLState, wfAtoms, atoms, arityOK] using h

theorem good_or {fs : List Fm} (h : Good (.or fs)) : GoodList fs := by
  simp only [Good, isCTLState, wfAtoms, atoms, arityOK, Bool.and_eq_true] at h
  exact ⟨h.1, h.2.1, h.2.2.2⟩

theorem goodList_cons {f : Fm} {fs : List Fm} (h : GoodList (f :: fs)) : Good f ∧ GoodList fs := by
  simp only [GoodList, isCTLState.isCTLStateList, atoms.atomsList, arityOK.arityOKList, Bool.and_eq_true,
    List.all_append] at h
  exact ⟨⟨h.1.1, h.2.1.1, h.2.2.1⟩, h.1.2, h.2.1.2, h.2.2.2⟩

theorem good_EG {f : Fm} (h : Good (.E (.G f))) : Good f := by
  simpa [Good, isCTLState, wfAtoms, atoms, arityOK] using h

theorem good_EX {f : Fm} (h : Good (.E (.X f))) : Good f := by
  simpa [Good, isCTLState, wfAtoms, atoms, arityOK] using h

theorem good_EU {f g : Fm} (h : Good (.E (.U f g))) : Good f ∧ Good g := by
  simp only [Good, isCTLState, wfAtoms, atoms, arityOK, Bool.and_eq_true, List.all_append] at h
  exact ⟨⟨h.1.1, h.2.1.1, h.2.2.1⟩, h.1.2, h.2.1.2, h.2.2.2⟩

/-! `LNot` and the CTL rewriting keep atoms and arities -/

theorem atoms_lnot (f : Fm) : f.lnot.atoms = f.atoms := by
  fun_induction lnot f <;> simp_all [atoms]

theorem arityOK_lnot (f : Fm) : f.lnot.arityOK = f.arityOK := by
  fun_induction lnot f <;> simp_all [arityOK]

/-- atoms of the rewriting ⊆ atoms of the original -/
theorem atoms_restrictCTL (f : Fm) : ∀ a ∈ f.restrictCTL.atoms, a ∈ f.atoms := by
  apply Fm.restrictCTL.induct
    (motive_1 := fun fs => ∀ a ∈ atoms.atomsList (restrictCTL.restrictCTLList fs), a ∈ atoms.atomsList fs)
    (motive_3 := fun fs => ∀ a ∈ atoms.atomsList (restrictCTL.restrictCTLNegList fs), a ∈ atoms.atomsList fs)
    (motive_2 := fun f => ∀ a ∈ f.restrictCTL.atoms, a ∈ f.atoms)
  all_goals
    intros
    simp_all only [restrictCTL, restrictCTL.restrictCTLList, restrictCTL.restrictCTLNegList, atoms,
      atoms.atomsList, atoms_lnot, List.mem_append, List.not_mem_nil, List.append_nil, List.mem_singleton]
    try tauto

theorem wfAtoms_restrictCTL (f : Fm) (h : f.wfAtoms = true) : f.restrictCTL.wfAtoms = true := by
  simp only [wfAtoms, List.all_eq_true] at h ⊢
  exact fun a ha => h a (atoms_restrictCTL f a ha)

theorem arityOK_restrictCTL (f : Fm) : f.arityOK = true → f.restrictCTL.arityOK = true := by
  apply Fm.restrictCTL.induct
    (motive_1 := fun fs => arityOK.arityOKList fs = true →
      arityOK.arityOKList (restrictCTL.restrictCTLList fs) = true ∧
        (restrictCTL.restrictCTLList fs).length = fs.length)
    (motive_3 := fun fs => arityOK.arityOKList fs = true →
      arityOK.arityOKList (restrictCTL.restrictCTLNegList fs) = true ∧
        (restrictCTL.restrictCTLNegList fs).length = fs.length)
    (motive_2 := fun f => f.arityOK = true → f.restrictCTL.arityOK = true)
  all_goals
    intros
    simp_all [restrictCTL, restrictCTL.restrictCTLList, restrictCTL.restrictCTLNegList, arityOK,
      arityOK.arityOKList, arityOK_lnot]

/-- the rewriting of a Good formula is Good (and restricted: `restrictCTL_restricted`) -/
theorem good_restrictCTL {f : Fm} (h : Good f) : Good f.restrictCTL :=
  ⟨isCTLState_of_isRestrictedCTL _ (restrictCTL_restricted f h.1), wfAtoms_restrictCTL f h.2.1,
    arityOK_restrictCTL f h.2.2⟩

variable {σ : Type} [DecidableEq σ]

/-! ### `check` and `checkR` agree on the restricted alphabet -/

theorem check_eq_checkR (K : Kripke σ) (f : Fm) : f.isRestrictedCTL = true → check K f = checkR K f := by
  apply Fm.isRestrictedCTL.induct
    (motive_1 := fun fs => isRestrictedCTL.isRestrictedCTLList fs = true →
      check.checkList K fs = checkR.checkRList K fs)
    (motive_2 := fun f => f.isRestrictedCTL = true → check K f = checkR K f)
  all_goals
    intros
    simp_all [isRestrictedCTL, isRestrictedCTL.isRestrictedCTLList, check, checkR, check.checkList,
      checkR.checkRList]

/-! ### the table invariant -/

/-- every entry is the `check` value of every Good formula that prints to its key -/
def MemoOK (K : Kripke σ) (L : Memo σ) : Prop :=
  ∀ k S, L.get? k = some S → ∀ g, Good g → g.printCTL = k → S = check K g

/-- a table transformer computes `check K f` and keeps the invariant -/
def Sound (K : Kripke σ) (f : Fm) (m : Memo σ → List σ × Memo σ) : Prop :=
  ∀ L, MemoOK K L → (m L).1 = check K f ∧ MemoOK K (m L).2

def SoundList (K : Kripke σ) (fs : List Fm) (m : Memo σ → List σ × Memo σ) : Prop :=
  ∀ L, MemoOK K L → (m L).1 = check.checkList K fs ∧ MemoOK K (m L).2

omit [DecidableEq σ] in
theorem get?_set (L : Memo σ) (k k' : String) (S : List σ) :
    (L.set k S).get? k' = if k = k' then some S else L.get? k' := rfl

theorem memoOK_nil (K : Kripke σ) : MemoOK K [] := by
  intro k S h; simp [Memo.get?] at h

/-- writing: the formula stored is the only Good formula with its printed form (`printCTL_injective`) -/
theorem memoOK_set {K : Kripke σ} {L : Memo σ} {f : Fm} (hL : MemoOK K L) (hf : Good f) :
    MemoOK K (L.set f.printCTL (check K f)) := by
  intro k S h g hg hk
  rw [get?_set] at h
  split at h
  · next heq =>
    have : g = f := printCTL_injective g f (isCTL_of_isCTLState g hg.1) (isCTL_of_isCTLState f hf.1)
      hg.2.1 hf.2.1 hg.2.2 hf.2.2 (hk.trans heq.symm)
    subst this; exact (Option.some.inj h).symm
  · exact hL k S h g hg hk

/-- the common shape of `_checkNot`, `_checkEX`, …: consult the table, otherwise compute and store -/
theorem sound_memo {K : Kripke σ} {f : Fm} (hf : Good f) {m : Memo σ → List σ × Memo σ} (hm : Sound K f m) :
    Sound K f (fun L => match L.get? f.printCTL with
      | some S => (S, L)
      | none => ((m L).1, (m L).2.set f.printCTL (m L).1)) := by
  intro L hL
  dsimp only
  split
  · next S hS => exact ⟨hL _ _ hS f hf rfl, hL⟩
  · obtain ⟨h1, h2⟩ := hm L hL
    refine ⟨h1, ?_⟩
    rw [h1]; exact memoOK_set h2 hf

theorem sound_bool_tt (K : Kripke σ) : Sound K .tt (checkBoolM K true) := by
  intro L hL
  have := memoOK_set hL (good_tt)
  rw [check] at this; simp only [printCTL] at this
  exact ⟨by simp [checkBoolM, check], by simpa [checkBoolM] using this⟩

theorem sound_bool_ff (K : Kripke σ) : Sound K .ff (checkBoolM K false) := by
  intro L hL
  have := memoOK_set hL (good_ff)
  rw [check] at this; simp only [printCTL] at this
  exact ⟨by simp [checkBoolM, check], by simpa [checkBoolM] using this⟩

theorem sound_ap (K : Kripke σ) {n : String} (hf : Good (.ap n)) : Sound K (.ap n) (checkAPM K n) := by
  have h := sound_memo hf (m := fun L => (checkAP K n, L)) (fun L hL => ⟨by rw [check], hL⟩)
  exact h

theorem sound_not (K : Kripke σ) {f : Fm} {sub} (hf : Good (.not f)) (hs : Sound K f sub) :
    Sound K (.not f) (checkNotM K (Fm.not f).printCTL sub) := by
  have h := sound_memo hf (m := fun L => (checkNot K (sub L).1, (sub L).2))
    (fun L hL => ⟨by simp only [check, (hs L hL).1], (hs L hL).2⟩)
  exact h

theorem sound_EX (K : Kripke σ) {f : Fm} {sub} (hf : Good (.E (.X f))) (hs : Sound K f sub) :
    Sound K (.E (.X f)) (checkEXM K (Fm.E (.X f)).printCTL sub) := by
  have h := sound_memo hf (m := fun L => (checkEX K (sub L).1, (sub L).2))
    (fun L hL => ⟨by simp only [check, (hs L hL).1], (hs L hL).2⟩)
  exact h

theorem sound_EG (K : Kripke σ) {f : Fm} {sub} (hf : Good (.E (.G f))) (hs : Sound K f sub) :
    Sound K (.E (.G f)) (checkEGM K (Fm.E (.G f)).printCTL sub) := by
  have h := sound_memo hf (m := fun L => (checkEG K (sub L).1, (sub L).2))
    (fun L hL => ⟨by simp only [check, (hs L hL).1], (hs L hL).2⟩)
  exact h

theorem sound_EU (K : Kripke σ) {f g : Fm} {sub0 sub1} (hf : Good (.E (.U f g))) (h0 : Sound K f sub0)
    (h1 : Sound K g sub1) : Sound K (.E (.U f g)) (checkEUM K (Fm.E (.U f g)).printCTL sub0 sub1) := by
  have h := sound_memo hf (m := fun L => (checkEU K (sub0 L).1 (sub1 (sub0 L).2).1, (sub1 (sub0 L).2).2))
    (fun L hL => ⟨by simp only [check, (h0 L hL).1, (h1 _ (h0 L hL).2).1], (h1 _ (h0 L hL).2).2⟩)
  exact h

theorem sound_or (K : Kripke σ) {fs : List Fm} {subs} (hf : Good (.or fs)) (hs : SoundList K fs subs) :
    Sound K (.or fs) (checkOrM (Fm.or fs).printCTL subs) := by
  have h := sound_memo hf (m := subs) (fun L hL => ⟨by rw [check, (hs L hL).1], (hs L hL).2⟩)
  exact h

theorem soundList_nil (K : Kripke σ) : SoundList K [] (fun L => ([], L)) :=
  fun L hL => ⟨by simp [check.checkList], hL⟩

theorem soundList_cons (K : Kripke σ) {f : Fm} {fs : List Fm} {m ms} (hf : Sound K f m)
    (hfs : SoundList K fs ms) :
    SoundList K (f :: fs) (fun L => ((m L).1 ++ (ms (m L).2).1, (ms (m L).2).2)) :=
  fun L hL => ⟨by simp only [check.checkList, (hf L hL).1, (hfs _ (hf L hL).2).1], (hfs _ (hf L hL).2).2⟩

/-! ### the two dispatchers -/

/-- `_checkStateFormula` on the restricted alphabet -/
theorem checkRM_sound (K : Kripke σ) (f : Fm) :
    f.isRestrictedCTL = true → Good f → Sound K f (checkRM K f) := by
  apply checkRM.induct
    (motive_1 := fun fs => isRestrictedCTL.isRestrictedCTLList fs = true → GoodList fs →
      SoundList K fs (checkRM.checkRMList K fs))
    (motive_2 := fun f => f.isRestrictedCTL = true → Good f → Sound K f (checkRM K f))
  · intro _ _; rw [checkRM]; exact sound_bool_tt K
  · intro _ _; rw [checkRM]; exact sound_bool_ff K
  · intro n _ hg; rw [checkRM]; exact sound_ap K hg
  · intro f ih hr hg
    rw [checkRM]
    exact sound_not K hg (ih (by simpa [isRestrictedCTL] using hr) (good_not hg))
  · intro fs ih hr hg
    rw [checkRM]
    exact sound_or K hg (ih (by simpa [isRestrictedCTL] using hr) (good_or hg))
  · intro f ih hr hg
    rw [checkRM]
    exact sound_EG K hg (ih (by simpa [isRestrictedCTL] using hr) (good_EG hg))
  · intro f g ihf ihg hr hg
    have hr' : f.isRestrictedCTL = true ∧ g.isRestrictedCTL = true := by simpa [isRestrictedCTL] using hr
    rw [checkRM]
    exact sound_EU K hg (ihf hr'.1 (good_EU hg).1) (ihg hr'.2 (good_EU hg).2)
  · intro f ih hr hg
    rw [checkRM]
    exact sound_EX K hg (ih (by simpa [isRestrictedCTL] using hr) (good_EX hg))
  · intro t h1 h2 h3 h4 h5 h6 h7 h8 hr
    exfalso
    cases t with
    | tt => exact h1 rfl
    | ff => exact h2 rfl
    | ap n => exact h3 n rfl
    | not f => exact h4 f rfl
    | or fs => exact h5 fs rfl
    | E f =>
      cases f with
      | G f => exact h6 f rfl
      | U f g => exact h7 f g rfl
      | X f => exact h8 f rfl
      | _ => simp [isRestrictedCTL] at hr
    | _ => simp [isRestrictedCTL] at hr
  · intro _ _; rw [checkRM.checkRMList]; exact soundList_nil K
  · intro f fs ihf ihfs hr hg
    have hr' : f.isRestrictedCTL = true ∧ isRestrictedCTL.isRestrictedCTLList fs = true := by
      simpa [isRestrictedCTL.isRestrictedCTLList] using hr
    rw [checkRM.checkRMList]
    exact soundList_cons K (ihf hr'.1 (goodList_cons hg).1) (ihfs hr'.2 (goodList_cons hg).2)

/-- `_checkStateFormula` -/
theorem checkM_sound (K : Kripke σ) (f : Fm) : Good f → Sound K f (checkM K f) := by
  apply checkM.induct
    (motive_1 := fun fs => GoodList fs → SoundList K fs (checkM.checkMList K fs))
    (motive_2 := fun f => Good f → Sound K f (checkM K f))
  · intro _; rw [checkM]; exact sound_bool_tt K
  · intro _; rw [checkM]; exact sound_bool_ff K
  · intro n hg; rw [checkM]; exact sound_ap K hg
  · intro f ih hg
    rw [checkM]
    exact sound_not K hg (ih (good_not hg))
  · intro fs ih hg
    rw [checkM]
    exact sound_or K hg (ih (good_or hg))
  · intro f ih hg
    rw [checkM]
    exact sound_EG K hg (ih (good_EG hg))
  · intro f g ihf ihg hg
    rw [checkM]
    exact sound_EU K hg (ihf (good_EU hg).1) (ihg (good_EU hg).2)
  · intro f ih hg
    rw [checkM]
    exact sound_EX K hg (ih (good_EX hg))
  · intro t h1 h2 h3 h4 h5 h6 h7 h8 hg L hL
    have hc : check K t = check K t.restrictCTL := by
      rw [check_eq_checkR K _ (restrictCTL_restricted t hg.1)]
      rw [check] <;> assumption
    have hm : checkM K t = fun L =>
        ((checkRM K t.restrictCTL L).1,
          (checkRM K t.restrictCTL L).2.set t.printCTL (checkRM K t.restrictCTL L).1) := by
      rw [checkM] <;> assumption
    obtain ⟨e1, e2⟩ := checkRM_sound K _ (restrictCTL_restricted t hg.1) (good_restrictCTL hg) L hL
    rw [hm]
    dsimp only
    rw [e1, ← hc]
    exact ⟨rfl, memoOK_set e2 hg⟩
  · intro _; rw [checkM.checkMList]; exact soundList_nil K
  · intro f fs ihf ihfs hg
    rw [checkM.checkMList]
    exact soundList_cons K (ihf (goodList_cons hg).1) (ihfs (goodList_cons hg).2)

theorem modelcheckM_eq_check (K : Kripke σ) (f : Fm) (hf : Good f) : modelcheckM K f = check K f :=
  (checkM_sound K f hf [] (memoOK_nil K)).1

#print axioms checkM_sound
end PMC.CTL
