/-
  Auxiliary lemmas for C03 (PMC/Proofs/CTLSExact.lean): relabelling facts (`addLabel`, `addTrace`), `sat` depends
  on the structure only through the frame and the labels of the atoms of the formula (`sat_congr`), and the
  purely syntactic facts about `removeStateT` (its structure is the input structure relabelled by its trace, its
  formula is quantifier-free, atoms, `isCTLState` of the result = `isCTLSState` of the input).
-/
import PMC.Model.CTLS
import PMC.Properties.C01
import PMC.Properties.C02
namespace PMC.CTLS
open PMC
variable {σ : Type} [DecidableEq σ]

/-! ### relabelling -/

/-- replay a trace of (name, set) pairs with `addLabel` -/
def addTrace (K : Kripke σ) (tr : List (String × List σ)) : Kripke σ :=
  tr.foldl (fun K p => K.addLabel p.1 p.2) K

@[simp] theorem addTrace_nil (K : Kripke σ) : addTrace K [] = K := rfl

@[simp] theorem addTrace_cons (K : Kripke σ) (p : String × List σ) (tr : List (String × List σ)) :
    addTrace K (p :: tr) = addTrace (K.addLabel p.1 p.2) tr := rfl

theorem addTrace_append (K : Kripke σ) (a b : List (String × List σ)) :
    addTrace K (a ++ b) = addTrace (addTrace K a) b := by
  simp [addTrace, List.foldl_append]

theorem addTrace_snoc (K : Kripke σ) (a : List (String × List σ)) (n : String) (S : List σ) :
    addTrace K (a ++ [(n, S)]) = (addTrace K a).addLabel n S := by
  rw [addTrace_append]; rfl

@[simp] theorem addLabel_states (K : Kripke σ) (a : String) (X : List σ) : (K.addLabel a X).states = K.states := rfl
@[simp] theorem addLabel_succ (K : Kripke σ) (a : String) (X : List σ) : (K.addLabel a X).succ = K.succ := rfl

theorem mem_lab_addLabel (K : Kripke σ) (a : String) (X : List σ) (n : String) (s : σ) :
    n ∈ (K.addLabel a X).lab s ↔ (n ∈ K.lab s ∨ (n = a ∧ s ∈ X)) := by
  simp only [Kripke.addLabel]
  split
  · simp_all; tauto
  · simp_all

@[simp] theorem addTrace_states (K : Kripke σ) (tr : List (String × List σ)) : (addTrace K tr).states = K.states := by
  induction tr generalizing K with
  | nil => rfl
  | cons p tr ih => rw [addTrace_cons, ih, addLabel_states]

@[simp] theorem addTrace_succ (K : Kripke σ) (tr : List (String × List σ)) : (addTrace K tr).succ = K.succ := by
  induction tr generalizing K with
  | nil => rfl
  | cons p tr ih => rw [addTrace_cons, ih, addLabel_succ]

theorem mem_lab_addTrace (K : Kripke σ) (tr : List (String × List σ)) (n : String) (s : σ) :
    n ∈ (addTrace K tr).lab s ↔ (n ∈ K.lab s ∨ ∃ p ∈ tr, p.1 = n ∧ s ∈ p.2) := by
  induction tr generalizing K with
  | nil => simp
  | cons p tr ih =>
    rw [addTrace_cons, ih, mem_lab_addLabel]
    simp only [List.mem_cons, exists_eq_or_imp]
    constructor
    · rintro ((h | ⟨rfl, h⟩) | h)
      · exact Or.inl h
      · exact Or.inr (Or.inl ⟨rfl, h⟩)
      · exact Or.inr (Or.inr h)
    · rintro (h | ⟨rfl, h⟩ | h)
      · exact Or.inl (Or.inl h)
      · exact Or.inl (Or.inr ⟨rfl, h⟩)
      · exact Or.inr h

omit [DecidableEq σ] in
theorem wf_of_frame (K K' : Kripke σ) (hst : K'.states = K.states) (hsu : K'.succ = K.succ) (hK : K.WF) : K'.WF := by
  unfold Kripke.WF at *
  rw [hst, hsu]; exact hK

theorem addTrace_wf (K : Kripke σ) (tr : List (String × List σ)) (hK : K.WF) : (addTrace K tr).WF :=
  wf_of_frame K _ (addTrace_states K tr) (addTrace_succ K tr) hK

omit [DecidableEq σ] in
theorem isPath_of_succ (K K' : Kripke σ) (hsu : K'.succ = K.succ) (π : Nat → σ) : IsPath K' π ↔ IsPath K π := by
  unfold IsPath; rw [hsu]

/-! ### `sat` only depends on the frame and on the labels of the atoms of the formula -/

omit [DecidableEq σ] in
theorem mem_atomsList {fs : List Fm} {n : String} : n ∈ Fm.atoms.atomsList fs ↔ ∃ f ∈ fs, n ∈ f.atoms := by
  induction fs with
  | nil => simp [Fm.atoms.atomsList]
  | cons f fs ih => simp [Fm.atoms.atomsList, ih]

omit [DecidableEq σ] in
theorem sat_congr (K K' : Kripke σ) (hsu : K'.succ = K.succ) (hK : K.WF) (f : Fm) :
    (∀ n ∈ f.atoms, ∀ s ∈ K.states, n ∈ K.lab s ↔ n ∈ K'.lab s) →
    ∀ (π : Nat → σ) (i : Nat), (∀ j, π j ∈ K.states) → (sat K f π i ↔ sat K' f π i) := by
  induction f using Fm.induct' with
  | tt => intros; simp [sat]
  | ff => intros; simp [sat]
  | ap n =>
    intro hl π i hπ
    simp only [sat]
    exact hl n (by simp [Fm.atoms]) _ (hπ i)
  | not f ih =>
    intro hl π i hπ
    simp only [sat, ih (by simpa [Fm.atoms] using hl) π i hπ]
  | or fs ih =>
    intro hl π i hπ
    simp only [sat, satAny_iff]
    refine exists_congr fun f => and_congr_right fun hf => ?_
    exact ih f hf (fun n hn => hl n (by simp only [Fm.atoms]; exact mem_atomsList.mpr ⟨f, hf, hn⟩)) π i hπ
  | and fs ih =>
    intro hl π i hπ
    simp only [sat, satAll_iff]
    refine forall_congr' fun f => forall_congr' fun hf => ?_
    exact ih f hf (fun n hn => hl n (by simp only [Fm.atoms]; exact mem_atomsList.mpr ⟨f, hf, hn⟩)) π i hπ
  | imp f g ihf ihg =>
    intro hl π i hπ
    simp only [Fm.atoms, List.mem_append] at hl
    simp only [sat, ihf (fun n hn => hl n (Or.inl hn)) π i hπ, ihg (fun n hn => hl n (Or.inr hn)) π i hπ]
  | X f ih =>
    intro hl π i hπ
    simp only [sat, ih (by simpa [Fm.atoms] using hl) π _ hπ]
  | F f ih =>
    intro hl π i hπ
    simp only [sat]
    exact exists_congr fun j => and_congr_right fun _ => ih (by simpa [Fm.atoms] using hl) π j hπ
  | G f ih =>
    intro hl π i hπ
    simp only [sat]
    exact forall_congr' fun j => forall_congr' fun _ => ih (by simpa [Fm.atoms] using hl) π j hπ
  | U f g ihf ihg =>
    intro hl π i hπ
    simp only [Fm.atoms, List.mem_append] at hl
    simp only [sat]
    refine exists_congr fun j => and_congr_right fun _ => and_congr ?_ ?_
    · exact ihg (fun n hn => hl n (Or.inr hn)) π j hπ
    · exact forall_congr' fun k => forall_congr' fun _ => forall_congr' fun _ =>
        ihf (fun n hn => hl n (Or.inl hn)) π k hπ
  | R f g ihf ihg =>
    intro hl π i hπ
    simp only [Fm.atoms, List.mem_append] at hl
    simp only [sat]
    refine forall_congr' fun j => forall_congr' fun _ => ?_
    have h1 : (∀ k, i ≤ k → k < j → ¬ sat K f π k) ↔ (∀ k, i ≤ k → k < j → ¬ sat K' f π k) :=
      forall_congr' fun k => forall_congr' fun _ => forall_congr' fun _ =>
        not_congr (ihf (fun n hn => hl n (Or.inl hn)) π k hπ)
    rw [h1, ihg (fun n hn => hl n (Or.inr hn)) π j hπ]
  | A f ih =>
    intro hl π i hπ
    simp only [sat]
    refine forall_congr' fun π' => ?_
    rw [isPath_of_succ K K' hsu]
    refine forall_congr' fun hp => forall_congr' fun h0 => ?_
    exact ih (by simpa [Fm.atoms] using hl) π' 0 (CTL.path_states K hK π' hp (h0 ▸ hπ i))
  | E f ih =>
    intro hl π i hπ
    simp only [sat]
    refine exists_congr fun π' => ?_
    rw [isPath_of_succ K K' hsu]
    refine and_congr_right fun hp => and_congr_right fun h0 => ?_
    exact ih (by simpa [Fm.atoms] using hl) π' 0 (CTL.path_states K hK π' hp (h0 ▸ hπ i))

/-! ### syntactic facts about the ghost run -/

theorem checkQT_eq (K : Kripke σ) (b : Bool) (g : Fm) :
    (checkQT K b g).1 = (checkQ K b g).1 ∧ (checkQT K b g).2.1 = (checkQ K b g).2 := by
  unfold checkQT checkQ
  split
  · simp
  · split <;> simp

theorem checkQT_struct (K : Kripke σ) (b : Bool) (g : Fm) :
    (checkQT K b g).1 = addTrace K (checkQT K b g).2.2 := by
  unfold checkQT
  split
  · simp
  · split <;> simp

/-- the structure returned by the ghost run is the input structure relabelled by the trace -/
theorem removeStateT_struct (K : Kripke σ) (f : Fm) :
    (removeStateT K f).1 = addTrace K (removeStateT K f).2.2 := by
  apply removeStateT.induct
    (motive_1 := fun K fs => (removeStateT.removeStateTList K fs).1 = addTrace K (removeStateT.removeStateTList K fs).2.2)
    (motive_2 := fun K f => (removeStateT K f).1 = addTrace K (removeStateT K f).2.2)
  case case4 =>
    intro K g ih
    simp only [removeStateT]
    rw [addTrace_snoc, addTrace_append, ← ih, ← checkQT_struct]
  case case5 =>
    intro K g ih
    simp only [removeStateT]
    rw [addTrace_snoc, addTrace_append, ← ih, ← checkQT_struct]
  case case12 => intro K f g r ih1 ih2; simp only [removeStateT]; rw [addTrace_append, ← ih1, ← ih2]
  case case13 => intro K f g r ih1 ih2; simp only [removeStateT]; rw [addTrace_append, ← ih1, ← ih2]
  case case14 => intro K f g r ih1 ih2; simp only [removeStateT]; rw [addTrace_append, ← ih1, ← ih2]
  case case16 =>
    intro K f fs r ih1 ih2; simp only [removeStateT.removeStateTList]; rw [addTrace_append, ← ih1, ← ih2]
  all_goals intros
  all_goals simp_all [removeStateT, removeStateT.removeStateTList]

theorem removeStateTList_struct (K : Kripke σ) (fs : List Fm) :
    (removeStateT.removeStateTList K fs).1 = addTrace K (removeStateT.removeStateTList K fs).2.2 := by
  induction fs generalizing K with
  | nil => simp [removeStateT.removeStateTList]
  | cons f fs ih =>
    simp only [removeStateT.removeStateTList]
    rw [addTrace_append, ← removeStateT_struct, ← ih]

/-- the rewritten formula is quantifier-free -/
theorem removeStateT_qfree (K : Kripke σ) (f : Fm) : (removeStateT K f).2.1.isLTLPath = true := by
  apply removeStateT.induct
    (motive_1 := fun K fs => Fm.isLTLPath.isLTLPathList (removeStateT.removeStateTList K fs).2.1 = true)
    (motive_2 := fun K f => (removeStateT K f).2.1.isLTLPath = true)
  all_goals intros
  all_goals try (rename_i r _ _; simp only [r] at *)
  all_goals simp_all [removeStateT, removeStateT.removeStateTList, Fm.isLTLPath, Fm.isLTLPath.isLTLPathList]

/-- the atoms of the rewritten formula are atoms of the input or generated names -/
theorem removeStateT_atoms (K : Kripke σ) (f : Fm) :
    ∀ n ∈ (removeStateT K f).2.1.atoms, n ∈ f.atoms ∨ ∃ p ∈ (removeStateT K f).2.2, p.1 = n := by
  apply removeStateT.induct
    (motive_1 := fun K fs => ∀ n ∈ Fm.atoms.atomsList (removeStateT.removeStateTList K fs).2.1,
      n ∈ Fm.atoms.atomsList fs ∨ ∃ p ∈ (removeStateT.removeStateTList K fs).2.2, p.1 = n)
    (motive_2 := fun K f => ∀ n ∈ (removeStateT K f).2.1.atoms,
      n ∈ f.atoms ∨ ∃ p ∈ (removeStateT K f).2.2, p.1 = n)
  case case4 =>
    intro K g ih n hn
    simp only [removeStateT, Fm.atoms, List.mem_singleton] at hn
    subst hn
    exact Or.inr ⟨_, by simp only [removeStateT]; exact List.mem_append_right _ (List.mem_singleton.mpr rfl), rfl⟩
  case case5 =>
    intro K g ih n hn
    simp only [removeStateT, Fm.atoms, List.mem_singleton] at hn
    subst hn
    exact Or.inr ⟨_, by simp only [removeStateT]; exact List.mem_append_right _ (List.mem_singleton.mpr rfl), rfl⟩
  case case12 =>
    intro K f g r ih1 ih2 n hn
    simp only [removeStateT, Fm.atoms, List.mem_append] at hn ⊢
    rcases hn with hn | hn
    · rcases ih1 n hn with h | ⟨p, hp, h⟩
      · exact Or.inl (Or.inl h)
      · exact Or.inr ⟨p, Or.inl hp, h⟩
    · rcases ih2 n hn with h | ⟨p, hp, h⟩
      · exact Or.inl (Or.inr h)
      · exact Or.inr ⟨p, Or.inr hp, h⟩
  case case13 =>
    intro K f g r ih1 ih2 n hn
    simp only [removeStateT, Fm.atoms, List.mem_append] at hn ⊢
    rcases hn with hn | hn
    · rcases ih1 n hn with h | ⟨p, hp, h⟩
      · exact Or.inl (Or.inl h)
      · exact Or.inr ⟨p, Or.inl hp, h⟩
    · rcases ih2 n hn with h | ⟨p, hp, h⟩
      · exact Or.inl (Or.inr h)
      · exact Or.inr ⟨p, Or.inr hp, h⟩
  case case14 =>
    intro K f g r ih1 ih2 n hn
    simp only [removeStateT, Fm.atoms, List.mem_append] at hn ⊢
    rcases hn with hn | hn
    · rcases ih1 n hn with h | ⟨p, hp, h⟩
      · exact Or.inl (Or.inl h)
      · exact Or.inr ⟨p, Or.inl hp, h⟩
    · rcases ih2 n hn with h | ⟨p, hp, h⟩
      · exact Or.inl (Or.inr h)
      · exact Or.inr ⟨p, Or.inr hp, h⟩
  case case16 =>
    intro K f fs r ih1 ih2 n hn
    simp only [removeStateT.removeStateTList, Fm.atoms.atomsList, List.mem_append] at hn ⊢
    rcases hn with hn | hn
    · rcases ih1 n hn with h | ⟨p, hp, h⟩
      · exact Or.inl (Or.inl h)
      · exact Or.inr ⟨p, Or.inl hp, h⟩
    · rcases ih2 n hn with h | ⟨p, hp, h⟩
      · exact Or.inl (Or.inr h)
      · exact Or.inr ⟨p, Or.inr hp, h⟩
  all_goals intros
  all_goals simp_all [removeStateT, removeStateT.removeStateTList, Fm.atoms, Fm.atoms.atomsList]

/-- the rewritten formula is a CTL state formula iff the input is a CTL* state formula -/
theorem removeStateT_isCTLState (K : Kripke σ) (f : Fm) :
    (removeStateT K f).2.1.isCTLState = f.isCTLSState := by
  apply removeStateT.induct
    (motive_1 := fun K fs => Fm.isCTLState.isCTLStateList (removeStateT.removeStateTList K fs).2.1 =
      Fm.isCTLSState.isCTLSStateList fs)
    (motive_2 := fun K f => (removeStateT K f).2.1.isCTLState = f.isCTLSState)
  all_goals intros
  all_goals try (rename_i r _ _; simp only [r] at *)
  all_goals simp_all [removeStateT, removeStateT.removeStateTList, Fm.isCTLState, Fm.isCTLState.isCTLStateList,
    Fm.isCTLSState, Fm.isCTLSState.isCTLSStateList]

end PMC.CTLS
