/-
  Proof of C03: `CTLS.modelcheck` (PMC/Model/CTLS.lean) is exact w.r.t. the documented CTL* semantics, *provided the
  naming discipline worked on the run* (`CTLS.namesOK K f = true`, a decidable predicate over the ghost trace of
  (name, set) pairs — evaluated at run time by the driver on every correspondence case).

  Available: `PMC.C01.ctl_exact` / `CTL.check_exact` (CTL exactness), `PMC.LTL.modelcheck_exact` (LTL exactness),
  `sat_state_indep`, `sat_lnot`, `Fm.induct'`.

  Architecture.  Fix the original structure `K0` and the full trace `T` of the top-level run.  Every intermediate
  structure of the run is `addTrace K0 tr₁` for a prefix `tr₁` of `T` (`removeStateT_struct`), the final one is
  `KF = addTrace K0 T`.  `namesOK` gives `Ctx K0 T`: no name of `T` labels a state of `K0`, and equal names in `T`
  carry equal sets.  Hence a generated name that has been recorded in `tr₁` labels, on the states of `K0`, exactly
  its recorded set both in `addTrace K0 tr₁` and in `KF` (`lab_of_mem`), and an atom that is never generated keeps
  its `K0` labelling (`agree`).  The main invariant (`main`) is: for the result `f'` of `removeStateT (addTrace K0
  tr₁) f`,  `sat KF f' π i ↔ sat K0 f π i`  on every sequence `π` of states of `K0`.
-/
import PMC.Model.CTLS
import PMC.Properties.C01
import PMC.Properties.C02
import PMC.Proofs.CTLSAux
namespace PMC.CTLS
open PMC
variable {σ : Type} [DecidableEq σ]

/-- the ghost-instrumented run computes the same structure and formula as the plain one -/
theorem removeStateT_eq (K : Kripke σ) (f : Fm) :
    (removeStateT K f).1 = (removeState K f).1 ∧ (removeStateT K f).2.1 = (removeState K f).2 := by
  apply removeStateT.induct
    (motive_1 := fun K fs => (removeStateT.removeStateTList K fs).1 = (removeState.removeStateList K fs).1 ∧
       (removeStateT.removeStateTList K fs).2.1 = (removeState.removeStateList K fs).2)
    (motive_2 := fun K f => (removeStateT K f).1 = (removeState K f).1 ∧ (removeStateT K f).2.1 = (removeState K f).2)
  case case12 =>
    intro K f g r ih1 ih2
    simp only [r] at ih2
    simp only [removeStateT, removeState, ← ih1.1, ih2.1, ← ih1.2, ih2.2, and_self]
  case case13 =>
    intro K f g r ih1 ih2
    simp only [r] at ih2
    simp only [removeStateT, removeState, ← ih1.1, ih2.1, ← ih1.2, ih2.2, and_self]
  case case14 =>
    intro K f g r ih1 ih2
    simp only [r] at ih2
    simp only [removeStateT, removeState, ← ih1.1, ih2.1, ← ih1.2, ih2.2, and_self]
  case case16 =>
    intro K f fs r ih1 ih2
    simp only [r] at ih2
    simp only [removeStateT.removeStateTList, removeState.removeStateList, ← ih1.1, ih2.1, ← ih1.2, ih2.2, and_self]
  all_goals intros
  all_goals simp_all [removeStateT, removeState, removeStateT.removeStateTList, removeState.removeStateList, checkQT_eq]

/-! ### what `namesOK` provides -/

/-- the two facts `namesOK` provides about the full trace `T` of a run on `K0` -/
structure Ctx (K0 : Kripke σ) (T : List (String × List σ)) : Prop where
  wf : K0.WF
  notLab : ∀ p ∈ T, ∀ s ∈ K0.states, p.1 ∉ K0.lab s
  same : ∀ p ∈ T, ∀ q ∈ T, p.1 = q.1 → ∀ s, s ∈ p.2 ↔ s ∈ q.2

variable {K0 : Kripke σ} {T : List (String × List σ)}

/-- a name of `T` labels, at any stage, at most its recorded set -/
theorem fresh_of_ctx (C : Ctx K0 T) (tr₁ : List (String × List σ)) (h : ∀ p ∈ tr₁, p ∈ T)
    (p : String × List σ) (hp : p ∈ T) (s : σ) (hs : s ∈ K0.states)
    (hl : p.1 ∈ (addTrace K0 tr₁).lab s) : s ∈ p.2 := by
  rw [mem_lab_addTrace] at hl
  rcases hl with h0 | ⟨q, hq, hqn, hqs⟩
  · exact absurd h0 (C.notLab p hp s hs)
  · exact (C.same q (h q hq) p hp hqn s).mp hqs

/-- once recorded, a name labels exactly its recorded set -/
theorem lab_of_mem (C : Ctx K0 T) (tr₁ : List (String × List σ)) (h : ∀ p ∈ tr₁, p ∈ T)
    (p : String × List σ) (hp : p ∈ tr₁) (s : σ) (hs : s ∈ K0.states) :
    p.1 ∈ (addTrace K0 tr₁).lab s ↔ s ∈ p.2 :=
  ⟨fresh_of_ctx C tr₁ h p (h p hp) s hs, fun hs' => (mem_lab_addTrace _ _ _ _).mpr (Or.inr ⟨p, hp, rfl, hs'⟩)⟩

/-- an atom that has already been generated, or is never generated, has its final meaning -/
theorem agree (C : Ctx K0 T) (tr₁ : List (String × List σ)) (h : ∀ p ∈ tr₁, p ∈ T) (n : String)
    (hn : (∃ p ∈ tr₁, p.1 = n) ∨ ∀ p ∈ T, p.1 ≠ n) (s : σ) (hs : s ∈ K0.states) :
    n ∈ (addTrace K0 tr₁).lab s ↔ n ∈ (addTrace K0 T).lab s := by
  rcases hn with ⟨p, hp, rfl⟩ | hn
  · rw [lab_of_mem C tr₁ h p hp s hs, lab_of_mem C T (fun _ h => h) p (h p hp) s hs]
  · rw [mem_lab_addTrace, mem_lab_addTrace]
    constructor
    · rintro (h0 | ⟨q, hq, hqn, _⟩)
      · exact Or.inl h0
      · exact absurd hqn (hn q (h q hq))
    · rintro (h0 | ⟨q, hq, hqn, _⟩)
      · exact Or.inl h0
      · exact absurd hqn (hn q hq)

/-! ### the quantifier step -/

theorem checkA_exact (K : Kripke σ) (hK : K.WF) (g : Fm) (hg : g.isLTLPath = true) (s : σ) :
    s ∈ checkA K g ↔ (s ∈ K.states ∧ ∀ π, IsPath K π → π 0 = s → sat K g π 0) := by
  unfold checkA
  split
  · rename_i h
    rw [CTL.check_exact K hK _ h s]
    simp only [satState, sat]
  · obtain ⟨R, hR, hex⟩ := LTL.modelcheck_exact K hK g hg
    simp only [ltlStates, hR]
    exact hex s

theorem checkQT_exact_A (K : Kripke σ) (hK : K.WF) (g : Fm) (hg : g.isLTLPath = true) (s : σ) :
    s ∈ (checkQT K true g).2.1 ↔ (s ∈ K.states ∧ ∀ π, IsPath K π → π 0 = s → sat K g π 0) := by
  simp only [checkQT, if_true]
  exact checkA_exact K hK g hg s

theorem checkQT_exact_E (K : Kripke σ) (hK : K.WF) (g : Fm) (hg : g.isLTLPath = true)
    (hfresh : ∀ p ∈ (checkQT K false g).2.2, ∀ s ∈ K.states, p.1 ∈ K.lab s → s ∈ p.2) (s : σ) :
    s ∈ (checkQT K false g).2.1 ↔ (s ∈ K.states ∧ ∃ π, IsPath K π ∧ π 0 = s ∧ sat K g π 0) := by
  simp only [checkQT, Bool.false_eq_true, if_false] at hfresh ⊢
  split
  · rename_i h
    rw [CTL.check_exact K hK _ h s]
    simp only [satState, sat]
  · rename_i h
    simp only [if_neg h, List.mem_singleton, forall_eq] at hfresh
    simp only
    rw [CTL.check_exact (K.addLabel (freshName K g.lnot.A) (checkA K g.lnot)) (wf_of_frame K _ rfl rfl hK) _
      (by simp [Fm.isCTLState]) s]
    simp only [satState, sat, addLabel_states, mem_lab_addLabel, true_and]
    refine and_congr_right fun hs => ?_
    have h1 : (freshName K g.lnot.A ∈ K.lab s ∨ s ∈ checkA K g.lnot) ↔ s ∈ checkA K g.lnot :=
      ⟨fun h => h.elim (hfresh s hs) id, Or.inr⟩
    rw [h1, checkA_exact K hK _ (LTL.isLTLPath_lnot g hg) s]
    simp only [sat_lnot]
    constructor
    · intro h
      by_contra hcon
      exact h ⟨hs, fun π hπ h0 hsat => hcon ⟨π, hπ, h0, hsat⟩⟩
    · rintro ⟨π, hπ, h0, hsat⟩ ⟨_, hall⟩
      exact hall π hπ h0 hsat

/-! ### the main invariant -/

theorem struct_of_eq (K : Kripke σ) (f : Fm) (tr₁ : List (String × List σ)) (hK : K = addTrace K0 tr₁) :
    (removeStateT K f).1 = addTrace K0 (tr₁ ++ (removeStateT K f).2.2) := by
  subst hK
  rw [removeStateT_struct, addTrace_append]

/-- the operand of a quantifier, evaluated on the structure reached after processing it, means what the
    original operand means on `K0` -/
theorem inner (C : Ctx K0 T) (K : Kripke σ) (g : Fm) (tr₁ : List (String × List σ)) (hK : K = addTrace K0 tr₁)
    (hT : ∀ p ∈ tr₁ ++ (removeStateT K g).2.2, p ∈ T) (hat : ∀ p ∈ T, p.1 ∉ g.atoms)
    (ih : ∀ (π : Nat → σ) (i : Nat), (∀ j, π j ∈ K0.states) →
      (sat (addTrace K0 T) (removeStateT K g).2.1 π i ↔ sat K0 g π i))
    (π : Nat → σ) (i : Nat) (hπ : ∀ j, π j ∈ K0.states) :
    sat (removeStateT K g).1 (removeStateT K g).2.1 π i ↔ sat K0 g π i := by
  rw [← ih π i hπ, struct_of_eq K g tr₁ hK]
  refine sat_congr _ _ (by simp) (addTrace_wf K0 _ C.wf) _ ?_ π i (by simpa using hπ)
  intro n hn s hs
  rw [addTrace_states] at hs
  refine agree C _ hT n ?_ s hs
  rcases removeStateT_atoms K g n hn with h | ⟨p, hp, h⟩
  · exact Or.inr fun p hp hpn => hat p hp (hpn ▸ h)
  · exact Or.inl ⟨p, List.mem_append_right _ hp, h⟩

theorem main (C : Ctx K0 T) (K : Kripke σ) (f : Fm) :
    ∀ tr₁, K = addTrace K0 tr₁ → (∀ p ∈ tr₁ ++ (removeStateT K f).2.2, p ∈ T) → (∀ p ∈ T, p.1 ∉ f.atoms) →
    ∀ (π : Nat → σ) (i : Nat), (∀ j, π j ∈ K0.states) →
      (sat (addTrace K0 T) (removeStateT K f).2.1 π i ↔ sat K0 f π i) := by
  apply removeStateT.induct
    (motive_1 := fun K fs => ∀ tr₁, K = addTrace K0 tr₁ →
      (∀ p ∈ tr₁ ++ (removeStateT.removeStateTList K fs).2.2, p ∈ T) →
      (∀ p ∈ T, p.1 ∉ Fm.atoms.atomsList fs) →
      ∀ (π : Nat → σ) (i : Nat), (∀ j, π j ∈ K0.states) →
        ((sat.satAny (addTrace K0 T) (removeStateT.removeStateTList K fs).2.1 π i ↔ sat.satAny K0 fs π i) ∧
         (sat.satAll (addTrace K0 T) (removeStateT.removeStateTList K fs).2.1 π i ↔ sat.satAll K0 fs π i)))
    (motive_2 := fun K f => ∀ tr₁, K = addTrace K0 tr₁ → (∀ p ∈ tr₁ ++ (removeStateT K f).2.2, p ∈ T) →
      (∀ p ∈ T, p.1 ∉ f.atoms) →
      ∀ (π : Nat → σ) (i : Nat), (∀ j, π j ∈ K0.states) →
        (sat (addTrace K0 T) (removeStateT K f).2.1 π i ↔ sat K0 f π i))
  case case1 => intros; simp [removeStateT, sat]
  case case2 => intros; simp [removeStateT, sat]
  case case3 =>
    intro K n tr₁ hK hT hat π i hπ
    simp only [removeStateT, sat]
    refine (agree C [] (by simp) n (Or.inr fun p hp hpn => hat p hp (by simp [Fm.atoms, hpn])) _ (hπ i)).symm
  case case4 =>
    intro K g ih tr₁ hK hT hat π i hπ
    simp only [removeStateT, ← List.append_assoc] at hT ⊢
    simp only [Fm.atoms] at hat
    have hT1 : ∀ p ∈ tr₁ ++ (removeStateT K g).2.2, p ∈ T := fun p hp =>
      hT p (List.mem_append_left _ (List.mem_append_left _ hp))
    have hmem := hT _ (List.mem_append_right _ (List.mem_singleton.mpr rfl))
    have hwf : (removeStateT K g).1.WF := by rw [struct_of_eq K g tr₁ hK]; exact addTrace_wf _ _ C.wf
    have hst : (removeStateT K g).1.states = K0.states := by rw [struct_of_eq K g tr₁ hK, addTrace_states]
    have hsu : (removeStateT K g).1.succ = K0.succ := by rw [struct_of_eq K g tr₁ hK, addTrace_succ]
    simp only [sat]
    rw [lab_of_mem C T (fun _ h => h) _ hmem (π i) (hπ i)]
    simp only
    rw [checkQT_exact_A _ hwf _ (removeStateT_qfree K g), hst]
    simp only [hπ i, true_and]
    refine forall_congr' fun π' => ?_
    rw [isPath_of_succ K0 _ hsu]
    refine forall_congr' fun hp => forall_congr' fun h0 => ?_
    exact inner C K g tr₁ hK hT1 hat (ih tr₁ hK hT1 hat) π' 0 (CTL.path_states K0 C.wf π' hp (h0 ▸ hπ i))
  case case5 =>
    intro K g ih tr₁ hK hT hat π i hπ
    simp only [removeStateT, ← List.append_assoc] at hT ⊢
    simp only [Fm.atoms] at hat
    have hT1 : ∀ p ∈ tr₁ ++ (removeStateT K g).2.2, p ∈ T := fun p hp =>
      hT p (List.mem_append_left _ (List.mem_append_left _ hp))
    have hmem := hT _ (List.mem_append_right _ (List.mem_singleton.mpr rfl))
    have hwf : (removeStateT K g).1.WF := by rw [struct_of_eq K g tr₁ hK]; exact addTrace_wf _ _ C.wf
    have hst : (removeStateT K g).1.states = K0.states := by rw [struct_of_eq K g tr₁ hK, addTrace_states]
    have hsu : (removeStateT K g).1.succ = K0.succ := by rw [struct_of_eq K g tr₁ hK, addTrace_succ]
    have hfresh : ∀ p ∈ (checkQT (removeStateT K g).1 false (removeStateT K g).2.1).2.2,
        ∀ s ∈ (removeStateT K g).1.states, p.1 ∈ (removeStateT K g).1.lab s → s ∈ p.2 := by
      intro p hp s hs hl
      rw [hst] at hs
      rw [struct_of_eq K g tr₁ hK] at hl
      exact fresh_of_ctx C _ hT1 p (hT p (List.mem_append_left _ (List.mem_append_right _ hp))) s hs hl
    simp only [sat]
    rw [lab_of_mem C T (fun _ h => h) _ hmem (π i) (hπ i)]
    simp only
    rw [checkQT_exact_E _ hwf _ (removeStateT_qfree K g) hfresh, hst]
    simp only [hπ i, true_and]
    refine exists_congr fun π' => ?_
    rw [isPath_of_succ K0 _ hsu]
    refine and_congr_right fun hp => and_congr_right fun h0 => ?_
    exact inner C K g tr₁ hK hT1 hat (ih tr₁ hK hT1 hat) π' 0 (CTL.path_states K0 C.wf π' hp (h0 ▸ hπ i))
  case case6 =>
    intro K f ih tr₁ hK hT hat π i hπ
    simp only [removeStateT, sat, ih tr₁ hK hT hat π i hπ]
  case case7 =>
    intro K f ih tr₁ hK hT hat π i hπ
    simp only [removeStateT, sat, ih tr₁ hK hT hat π _ hπ]
  case case8 =>
    intro K f ih tr₁ hK hT hat π i hπ
    simp only [removeStateT, sat]
    exact exists_congr fun j => and_congr_right fun _ => ih tr₁ hK hT hat π j hπ
  case case9 =>
    intro K f ih tr₁ hK hT hat π i hπ
    simp only [removeStateT, sat]
    exact forall_congr' fun j => forall_congr' fun _ => ih tr₁ hK hT hat π j hπ
  case case10 =>
    intro K fs ih tr₁ hK hT hat π i hπ
    simp only [removeStateT, sat]
    exact (ih tr₁ hK hT hat π i hπ).1
  case case11 =>
    intro K fs ih tr₁ hK hT hat π i hπ
    simp only [removeStateT, sat]
    exact (ih tr₁ hK hT hat π i hπ).2
  case case12 =>
    intro K f g r ih1 ih2 tr₁ hK hT hat π i hπ
    simp only [removeStateT, ← List.append_assoc] at hT ⊢
    simp only [Fm.atoms, List.mem_append, not_or] at hat
    have hT1 : ∀ p ∈ tr₁ ++ (removeStateT K f).2.2, p ∈ T := fun p hp => hT p (List.mem_append_left _ hp)
    have h1 := ih1 tr₁ hK hT1 (fun p hp => (hat p hp).1) π
    have h2 := ih2 (tr₁ ++ (removeStateT K f).2.2) (struct_of_eq K f tr₁ hK) hT (fun p hp => (hat p hp).2) π
    simp only [sat]
    rw [h1 i hπ, h2 i hπ]
  case case13 =>
    intro K f g r ih1 ih2 tr₁ hK hT hat π i hπ
    simp only [removeStateT, ← List.append_assoc] at hT ⊢
    simp only [Fm.atoms, List.mem_append, not_or] at hat
    have hT1 : ∀ p ∈ tr₁ ++ (removeStateT K f).2.2, p ∈ T := fun p hp => hT p (List.mem_append_left _ hp)
    have h1 := ih1 tr₁ hK hT1 (fun p hp => (hat p hp).1) π
    have h2 := ih2 (tr₁ ++ (removeStateT K f).2.2) (struct_of_eq K f tr₁ hK) hT (fun p hp => (hat p hp).2) π
    simp only [sat]
    refine exists_congr fun j => and_congr_right fun _ => and_congr (h2 j hπ) ?_
    exact forall_congr' fun k => forall_congr' fun _ => forall_congr' fun _ => h1 k hπ
  case case14 =>
    intro K f g r ih1 ih2 tr₁ hK hT hat π i hπ
    simp only [removeStateT, ← List.append_assoc] at hT ⊢
    simp only [Fm.atoms, List.mem_append, not_or] at hat
    have hT1 : ∀ p ∈ tr₁ ++ (removeStateT K f).2.2, p ∈ T := fun p hp => hT p (List.mem_append_left _ hp)
    have h1 := ih1 tr₁ hK hT1 (fun p hp => (hat p hp).1) π
    have h2 := ih2 (tr₁ ++ (removeStateT K f).2.2) (struct_of_eq K f tr₁ hK) hT (fun p hp => (hat p hp).2) π
    simp only [sat]
    refine forall_congr' fun j => forall_congr' fun _ => ?_
    have h3 : (∀ k, i ≤ k → k < j → ¬ sat (addTrace K0 T) (removeStateT K f).2.1 π k) ↔
        (∀ k, i ≤ k → k < j → ¬ sat K0 f π k) :=
      forall_congr' fun k => forall_congr' fun _ => forall_congr' fun _ => not_congr (h1 k hπ)
    rw [h3, h2 j hπ]
  case case15 =>
    intros
    simp [removeStateT.removeStateTList, sat.satAny, sat.satAll]
  case case16 =>
    intro K f fs r ih1 ih2 tr₁ hK hT hat π i hπ
    simp only [removeStateT.removeStateTList, ← List.append_assoc] at hT ⊢
    simp only [Fm.atoms.atomsList, List.mem_append, not_or] at hat
    have hT1 : ∀ p ∈ tr₁ ++ (removeStateT K f).2.2, p ∈ T := fun p hp => hT p (List.mem_append_left _ hp)
    have h1 := ih1 tr₁ hK hT1 (fun p hp => (hat p hp).1) π i hπ
    have h2 := ih2 (tr₁ ++ (removeStateT K f).2.2) (struct_of_eq K f tr₁ hK) hT (fun p hp => (hat p hp).2) π i hπ
    simp only [sat.satAny, sat.satAll]
    rw [h1, h2.1, h2.2]
    exact ⟨Iff.rfl, Iff.rfl⟩

/-! ### the top level -/

theorem ctx_of_namesOK (K : Kripke σ) (hK : K.WF) (f : Fm) (hn : namesOK K f = true) :
    Ctx K (removeStateT K f).2.2 ∧ ∀ p ∈ (removeStateT K f).2.2, p.1 ∉ f.atoms := by
  simp only [namesOK, Bool.and_eq_true, List.all_eq_true, Bool.not_eq_true', Bool.or_eq_true, bne_iff_ne, ne_eq,
    List.contains_eq_mem, decide_eq_false_iff_not, decide_eq_true_eq] at hn
  obtain ⟨ha, hb⟩ := hn
  refine ⟨⟨hK, ?_, ?_⟩, fun p hp => (ha p hp).1⟩
  · intro p hp s hs hl
    exact (ha p hp).2 (by simp only [Kripke.allLabels, List.mem_flatMap]; exact ⟨s, hs, hl⟩)
  · intro p hp q hq hpq s
    rcases hb p hp q hq with h | h
    · exact absurd hpq h
    · exact ⟨fun hs => h.1 s hs, fun hs => h.2 s hs⟩

/-- **exactness of CTL\* model checking**, for runs on which generated names did not clash -/
theorem modelcheck_exact_of_namesOK (K : Kripke σ) (hK : K.WF) (f : Fm) (hf : f.isCTLSState = true)
    (hn : namesOK K f = true) :
    ∃ R, modelcheck K f = .ok R ∧ ∀ s, s ∈ R ↔ (s ∈ K.states ∧ satState K f s) := by
  obtain ⟨C, hat⟩ := ctx_of_namesOK K hK f hn
  have hst := removeStateT_struct K f
  have hc : (removeStateT K f).2.1.isCTLState = true := by rw [removeStateT_isCTLState, hf]
  refine ⟨CTL.check (removeStateT K f).1 (removeStateT K f).2.1, ?_, ?_⟩
  · rw [modelcheck, ← (removeStateT_eq K f).1, ← (removeStateT_eq K f).2]
    exact C01.modelcheck_ok _ _ hc
  · intro s
    rw [CTL.check_exact _ (by rw [hst]; exact addTrace_wf _ _ hK) _ hc s, hst, addTrace_states]
    refine and_congr_right fun hs => ?_
    exact main C K f [] rfl (by simp) hat (fun _ => s) 0 (fun _ => hs)

/-- a formula that is not a CTL* state formula (a temporal operator outside every quantifier) is rejected -/
theorem modelcheck_reject (K : Kripke σ) (f : Fm) (hf : f.isCTLSState = false) :
    modelcheck K f = .error .typeError := by
  rw [modelcheck, ← (removeStateT_eq K f).1, ← (removeStateT_eq K f).2]
  exact C01.modelcheck_reject _ _ (by rw [removeStateT_isCTLState, hf])

#print axioms removeStateT_eq
#print axioms modelcheck_exact_of_namesOK
#print axioms modelcheck_reject
end PMC.CTLS
