/-
  Helper lemmas for the CTL*-checker corollaries of C04 / C06 (PMC/Properties/C04Ctls.lean, C06Ctls.lean):
  membership form of `C03.ctls_exact`, transport of the "labels are identifier-style" hypothesis along the
  presentation relations of PMC/Proofs/Laws.lean, and the syntactic classes under `mapAtoms`.
-/
import PMC.Proofs.Laws
import PMC.Properties.C03Full
namespace PMC
open Fm
variable {σ τ : Type}

theorem mem_allLabels {K : Kripke σ} {l : String} : l ∈ K.allLabels ↔ ∃ s ∈ K.states, l ∈ K.lab s := by
  simp [Kripke.allLabels, List.mem_flatMap]

/-- the labels hypothesis of `ctls_exact` only looks at the labels of the states, as a set -/
theorem labelsWf_sameK {K K' : Kripke σ} (h : SameK K K') (hl : ∀ l ∈ K.allLabels, Fm.wfName l = true) :
    ∀ l ∈ K'.allLabels, Fm.wfName l = true := by
  intro l hl'
  obtain ⟨s, hs, hls⟩ := mem_allLabels.mp hl'
  exact hl l (mem_allLabels.mpr ⟨s, (h.states s).mpr hs, (h.lab s l).mpr hls⟩)

theorem labelsWf_iso {ρ : σ → τ} {K : Kripke σ} {K' : Kripke τ} (h : Iso ρ K K')
    (hl : ∀ l ∈ K.allLabels, Fm.wfName l = true) : ∀ l ∈ K'.allLabels, Fm.wfName l = true := by
  intro l hl'
  obtain ⟨t, ht, hlt⟩ := mem_allLabels.mp hl'
  obtain ⟨s, hs, rfl⟩ := (h.states t).mp ht
  exact hl l (mem_allLabels.mpr ⟨s, hs, (h.lab s hs l).mp hlt⟩)

theorem labelsWf_generated {K K' : Kripke σ} (h : Generated K K')
    (hl : ∀ l ∈ K'.allLabels, Fm.wfName l = true) : ∀ l ∈ K.allLabels, Fm.wfName l = true := by
  intro l hl'
  obtain ⟨s, hs, hls⟩ := mem_allLabels.mp hl'
  exact hl l (mem_allLabels.mpr ⟨s, h.states s hs, (h.lab s hs l).mpr hls⟩)

/-- the syntactic classes do not look at atom names -/
theorem isCTLSState_mapAtoms (α : String → String) (f : Fm) :
    (mapAtoms α f).isCTLSState = f.isCTLSState := by
  apply Fm.isCTLSState.induct
    (motive_1 := fun fs =>
      isCTLSState.isCTLSStateList (mapAtoms.mapAtomsList α fs) = isCTLSState.isCTLSStateList fs)
    (motive_2 := fun f => (mapAtoms α f).isCTLSState = f.isCTLSState)
  case case10 =>
    intro t; intros
    cases t <;> simp_all [mapAtoms, isCTLSState]
  all_goals (intros; simp_all [mapAtoms, mapAtoms.mapAtomsList, isCTLSState, isCTLSState.isCTLSStateList])

theorem arityOKList_eq_all (fs : List Fm) : arityOK.arityOKList fs = fs.all arityOK := by
  induction fs with
  | nil => rfl
  | cons f fs ih => simp [arityOK.arityOKList, ih]

theorem arityOK_mapAtoms (α : String → String) (f : Fm) : (mapAtoms α f).arityOK = f.arityOK := by
  induction f using Fm.induct' with
  | or fs ih | and fs ih =>
    simp only [mapAtoms, arityOK, mapAtomsList_eq_map, arityOKList_eq_all, List.length_map, List.all_map]
    congr 1
    rw [Bool.eq_iff_iff]
    simp only [List.all_eq_true, Function.comp]
    exact ⟨fun h f hf => (ih f hf) ▸ h f hf, fun h f hf => (ih f hf).symm ▸ h f hf⟩
  | _ => simp_all [mapAtoms, arityOK]

end PMC
