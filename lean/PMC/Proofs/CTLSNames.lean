/-
  Discharging `CTLS.namesOK` from a static hypothesis: when the atoms of the formula and the labels of the structure
  are identifier-style names (`Fm.wfName`), the naming discipline of `CTLS.removeState` always works.

  Invariant (`Good K0 T`, for the trace `T` of (name, set) pairs generated so far on the original structure `K0`):
    * every generated name is a bracket name `[` balanced `]` (`PrintBracket.GenName`) — hence never an identifier;
    * equal names carry equal sets;
    * every pair `(n, S)` has a *witness*: a quantified formula `ψ` (`A h` / `E h`), with n-ary operators of arity
      ≥ 2, whose atoms are identifier-style or names already in `T`, such that `n` is `[ψ]` or `[[ψ](i)]`
      (`NameOf n ψ`) and `S` is exactly the set of states of `K0` satisfying `ψ` *on the structure relabelled by `T`*.
  Because the trace is functional, the meaning of a witness does not change when the trace grows (`sat_stable`), and
  by print injectivity over identifier-style and bracket names (PMC/Proofs/PrintBracket.lean) a name determines its
  witness; so a name generated again is generated for the same set (`Good.extend`).  Exactness of the inner checks
  (needed to know the set of a new pair) is taken from PMC/Proofs/CTLSExact.lean (`main`, `inner`), instantiated
  with the trace generated so far, which is functional by the invariant.
-/
import PMC.Proofs.CTLSExact
import PMC.Proofs.PrintBracket
namespace PMC.CTLS
open PMC PrintDecode PrintBracket
variable {σ : Type} [DecidableEq σ]

/-! ### the shape of generated names -/

def baseName (ψ : Fm) : String := "[" ++ ψ.print ++ "]"
def idxName (ψ : Fm) (i : Nat) : String := "[" ++ baseName ψ ++ "(" ++ toString i ++ ")]"

/-- quantified formulas -/
def IsQ : Fm → Prop
  | .A _ | .E _ => True
  | _ => False

/-- `n` is a name `freshName` may return for `ψ` -/
def NameOf (n : String) (ψ : Fm) : Prop := n = baseName ψ ∨ ∃ i, n = idxName ψ i

omit [DecidableEq σ] in
theorem freshName_nameOf (K : Kripke σ) (ψ : Fm) : NameOf (freshName K ψ) ψ := by
  unfold freshName
  simp only
  split
  · exact Or.inl rfl
  · split
    · exact Or.inr ⟨_, rfl⟩
    · exact Or.inl rfl

theorem lit_lbr : "[".toList = ['['] := rfl
theorem lit_rbr : "]".toList = [']'] := rfl
theorem lit_rparbr : ")]".toList = [')', ']'] := rfl

theorem toString_nat_toList (i : Nat) : (toString i).toList = Nat.toDigits 10 i := by
  show (Nat.repr i).toList = _
  exact Nat.toList_repr

theorem baseName_toList (ψ : Fm) : (baseName ψ).toList = '[' :: (printL false ψ ++ [']']) := by
  simp [baseName, String.toList_append, print_toList, lit_lbr, lit_rbr]

theorem idxName_toList (ψ : Fm) (i : Nat) :
    (idxName ψ i).toList =
      '[' :: '[' :: (printL false ψ ++ ']' :: '(' :: (Nat.toDigits 10 i ++ [')', ']'])) := by
  simp [idxName, String.toList_append, baseName_toList, lit_lbr, lit_lpar, lit_rparbr]

theorem idxName_toList' (ψ : Fm) (i : Nat) :
    (idxName ψ i).toList =
      '[' :: ((('[' :: (printL false ψ ++ [']'])) ++ ('(' :: (Nat.toDigits 10 i ++ [')']))) ++ [']']) := by
  rw [idxName_toList]; simp

theorem digits_noBr (i : Nat) : ∀ c ∈ Nat.toDigits 10 i, c ≠ '[' ∧ c ≠ ']' := by
  intro c hc
  have h := Nat.isDigit_of_mem_toDigits (by decide) (by decide) hc
  constructor
  · rintro rfl; exact absurd h (by decide)
  · rintro rfl; exact absurd h (by decide)

theorem nameOf_gen {n : String} {ψ : Fm} (hg : GoodAtoms ψ) (h : NameOf n ψ) : GenName n := by
  have hb := bal_printL ψ hg
  rcases h with rfl | ⟨i, rfl⟩
  · exact ⟨_, baseName_toList ψ, hb⟩
  · refine ⟨_, idxName_toList' ψ i, ?_⟩
    refine bal_append (bal_wrap hb) (bal_cons (by decide) (by decide) (bal_append (bal_of_noBr (digits_noBr i)) ?_))
    exact bal_lit (by decide)

theorem isQ_head {ψ : Fm} (h : IsQ ψ) : ∃ c r, printL false ψ = c :: r ∧ c ≠ '[' := by
  cases ψ <;> simp only [IsQ] at h
  · rename_i f
    exact ⟨'A', '(' :: (printL false f ++ [')']), by simp [printL, unL, Un.ch], by decide⟩
  · rename_i f
    exact ⟨'E', '(' :: (printL false f ++ [')']), by simp [printL, unL, Un.ch], by decide⟩

/-- a name determines the printed form of the formula it was generated for -/
theorem nameOf_inj {n : String} {ψ ψ' : Fm} (hq : IsQ ψ) (hq' : IsQ ψ') (hg : GoodAtoms ψ) (hg' : GoodAtoms ψ')
    (h : NameOf n ψ) (h' : NameOf n ψ') : ψ.print = ψ'.print := by
  have key : printL false ψ = printL false ψ' → ψ.print = ψ'.print := fun e => by
    apply String.toList_inj.mp
    rw [print_toList, print_toList, e]
  have hb := bal_printL ψ hg
  have hb' := bal_printL ψ' hg'
  rcases h with rfl | ⟨i, rfl⟩
  · rcases h' with h' | ⟨j, h'⟩
    · have e := congrArg String.toList h'
      rw [baseName_toList, baseName_toList] at e
      exact key (List.append_cancel_right (List.cons.inj e).2)
    · have e := congrArg String.toList h'
      rw [baseName_toList, idxName_toList] at e
      obtain ⟨c, r, hc, hne⟩ := isQ_head hq
      rw [hc] at e
      have := (List.cons.inj (List.cons.inj e).2).1
      exact absurd this hne
  · rcases h' with h' | ⟨j, h'⟩
    · have e := congrArg String.toList h'
      rw [baseName_toList, idxName_toList] at e
      obtain ⟨c, r, hc, hne⟩ := isQ_head hq'
      rw [hc] at e
      have := (List.cons.inj (List.cons.inj e).2).1
      exact absurd this.symm hne
    · have e := congrArg String.toList h'
      rw [idxName_toList, idxName_toList] at e
      have e2 := (List.cons.inj (List.cons.inj e).2).2
      have c1 := closeBr_bal hb ('(' :: (Nat.toDigits 10 i ++ [')', ']']))
      have c2 := closeBr_bal hb' ('(' :: (Nat.toDigits 10 j ++ [')', ']']))
      rw [e2, c2] at c1
      have := (Prod.mk.inj (Option.some.inj c1)).1
      exact key (List.append_cancel_right this).symm

/-! ### `lnot` and `removeStateT` preserve arity; atoms of `lnot` -/

theorem atoms_lnot (f : Fm) : ∀ n ∈ f.lnot.atoms, n ∈ f.atoms := by
  fun_induction Fm.lnot f <;> simp_all [Fm.atoms]

theorem arityOK_lnot (f : Fm) (h : f.arityOK = true) : f.lnot.arityOK = true := by
  fun_induction Fm.lnot f <;> simp_all [Fm.arityOK]

theorem removeStateT_arityOK (K : Kripke σ) (f : Fm) :
    f.arityOK = true → (removeStateT K f).2.1.arityOK = true := by
  apply removeStateT.induct
    (motive_1 := fun K fs => (removeStateT.removeStateTList K fs).2.1.length = fs.length ∧
      (Fm.arityOK.arityOKList fs = true → Fm.arityOK.arityOKList (removeStateT.removeStateTList K fs).2.1 = true))
    (motive_2 := fun K f => f.arityOK = true → (removeStateT K f).2.1.arityOK = true)
  case case12 => intro K f g r ih1 ih2 h; simp only [r] at ih2; simp_all [removeStateT, Fm.arityOK]
  case case13 => intro K f g r ih1 ih2 h; simp only [r] at ih2; simp_all [removeStateT, Fm.arityOK]
  case case14 => intro K f g r ih1 ih2 h; simp only [r] at ih2; simp_all [removeStateT, Fm.arityOK]
  case case16 =>
    intro K f fs r ih1 ih2; simp only [r] at ih2
    simp_all [removeStateT.removeStateTList, Fm.arityOK.arityOKList]
  all_goals intros
  all_goals simp_all [removeStateT, removeStateT.removeStateTList, Fm.arityOK, Fm.arityOK.arityOKList]

/-! ### the invariant -/

/-- the labels of the original structure are identifier-style -/
def LabWF (K0 : Kripke σ) : Prop := ∀ l ∈ K0.allLabels, Fm.wfName l = true

structure Good (K0 : Kripke σ) (T : List (String × List σ)) : Prop where
  gen : ∀ p ∈ T, GenName p.1
  same : ∀ p ∈ T, ∀ q ∈ T, p.1 = q.1 → ∀ s, s ∈ p.2 ↔ s ∈ q.2
  wit : ∀ p ∈ T, ∃ ψ, IsQ ψ ∧ ψ.arityOK = true ∧
    (∀ n ∈ ψ.atoms, Fm.wfName n = true ∨ ∃ q ∈ T, q.1 = n) ∧ NameOf p.1 ψ ∧
    ∀ s, s ∈ p.2 ↔ (s ∈ K0.states ∧ satState (addTrace K0 T) ψ s)

variable {K0 : Kripke σ} {T : List (String × List σ)}

theorem Good.nil (K0 : Kripke σ) : Good K0 [] where
  gen := fun _ h => by cases h
  same := fun _ h => by cases h
  wit := fun _ h => by cases h

omit [DecidableEq σ] in
theorem gen_notLab (hl : LabWF K0) {n : String} (h : GenName n) (s : σ) (hs : s ∈ K0.states) : n ∉ K0.lab s := by
  intro hn
  have := hl n (by simp only [Kripke.allLabels, List.mem_flatMap]; exact ⟨s, hs, hn⟩)
  rw [genName_not_wf h] at this
  cases this

omit [DecidableEq σ] in
theorem ctx_of (hK : K0.WF) (hl : LabWF K0) (hgen : ∀ p ∈ T, GenName p.1)
    (hsame : ∀ p ∈ T, ∀ q ∈ T, p.1 = q.1 → ∀ s, s ∈ p.2 ↔ s ∈ q.2) : Ctx K0 T :=
  ⟨hK, fun p hp s hs => gen_notLab hl (hgen p hp) s hs, hsame⟩

theorem Good.ctx (hK : K0.WF) (hl : LabWF K0) (G : Good K0 T) : Ctx K0 T := ctx_of hK hl G.gen G.same

/-- the meaning of a formula whose generated atoms are already in `T` does not change when the trace grows -/
theorem sat_stable {T' : List (String × List σ)} (C : Ctx K0 T') (hgen : ∀ p ∈ T', GenName p.1)
    (hsub : ∀ p ∈ T, p ∈ T') (ψ : Fm)
    (hat : ∀ n ∈ ψ.atoms, Fm.wfName n = true ∨ ∃ q ∈ T, q.1 = n)
    (π : Nat → σ) (i : Nat) (hπ : ∀ j, π j ∈ K0.states) :
    sat (addTrace K0 T) ψ π i ↔ sat (addTrace K0 T') ψ π i := by
  refine sat_congr _ _ (by simp) (addTrace_wf K0 _ C.wf) _ ?_ π i (by simpa using hπ)
  intro n hn s hs
  rw [addTrace_states] at hs
  refine agree C T hsub n ?_ s hs
  rcases hat n hn with h | h
  · refine Or.inr fun p hp hpn => ?_
    have := genName_not_wf (hgen p hp)
    rw [hpn, h] at this
    cases this
  · exact Or.inl h

theorem satState_stable {T' : List (String × List σ)} (C : Ctx K0 T') (hgen : ∀ p ∈ T', GenName p.1)
    (hsub : ∀ p ∈ T, p ∈ T') (ψ : Fm)
    (hat : ∀ n ∈ ψ.atoms, Fm.wfName n = true ∨ ∃ q ∈ T, q.1 = n) (s : σ) (hs : s ∈ K0.states) :
    satState (addTrace K0 T) ψ s ↔ satState (addTrace K0 T') ψ s :=
  sat_stable C hgen hsub ψ hat _ 0 (fun _ => hs)

/-- over identifier-style atoms the relabelled structure means the same as the original one -/
theorem satState_orig (C : Ctx K0 T) (hgen : ∀ p ∈ T, GenName p.1) (ψ : Fm)
    (hat : ∀ n ∈ ψ.atoms, Fm.wfName n = true) (s : σ) (hs : s ∈ K0.states) :
    satState K0 ψ s ↔ satState (addTrace K0 T) ψ s :=
  satState_stable (T := []) C hgen (fun _ h => by cases h) ψ (fun n hn => Or.inl (hat n hn)) s hs

theorem goodAtoms_of (G : Good K0 T) {ψ : Fm}
    (hat : ∀ n ∈ ψ.atoms, Fm.wfName n = true ∨ ∃ q ∈ T, q.1 = n) : GoodAtoms ψ := by
  intro n hn
  rcases hat n hn with h | ⟨q, hq, rfl⟩
  · exact Or.inl h
  · exact Or.inr (G.gen q hq)

/-- **the key step**: a new pair with a witness keeps the invariant -/
theorem Good.extend (hK : K0.WF) (hl : LabWF K0) (G : Good K0 T) (n : String) (S : List σ) (ψ : Fm)
    (hq : IsQ ψ) (har : ψ.arityOK = true)
    (hat : ∀ m ∈ ψ.atoms, Fm.wfName m = true ∨ ∃ q ∈ T, q.1 = m) (hn : NameOf n ψ)
    (hS : ∀ s, s ∈ S ↔ (s ∈ K0.states ∧ satState (addTrace K0 T) ψ s)) :
    Good K0 (T ++ [(n, S)]) := by
  have hgψ := goodAtoms_of G hat
  have hgen : ∀ p ∈ T ++ [(n, S)], GenName p.1 := by
    intro p hp
    rcases List.mem_append.mp hp with hp | hp
    · exact G.gen p hp
    · rw [List.mem_singleton.mp hp]; exact nameOf_gen hgψ hn
  -- an older pair with the same name has the same set
  have hnew : ∀ p ∈ T, p.1 = n → ∀ s, s ∈ p.2 ↔ s ∈ S := by
    intro p hp hpn s
    obtain ⟨ψp, hqp, harp, hatp, hnp, hSp⟩ := G.wit p hp
    rw [hpn] at hnp
    have hpr := nameOf_inj hqp hq (goodAtoms_of G hatp) hgψ hnp hn
    have heq := print_injective_good ψp ψ (goodAtoms_of G hatp) hgψ harp har hpr
    rw [hSp s, hS s, heq]
  have hsame : ∀ p ∈ T ++ [(n, S)], ∀ q ∈ T ++ [(n, S)], p.1 = q.1 → ∀ s, s ∈ p.2 ↔ s ∈ q.2 := by
    intro p hp q hq' hpq s
    rcases List.mem_append.mp hp with hp | hp <;> rcases List.mem_append.mp hq' with hq' | hq'
    · exact G.same p hp q hq' hpq s
    · rw [List.mem_singleton.mp hq'] at hpq ⊢
      exact hnew p hp hpq s
    · rw [List.mem_singleton.mp hp] at hpq ⊢
      exact (hnew q hq' hpq.symm s).symm
    · rw [List.mem_singleton.mp hp, List.mem_singleton.mp hq']
  have C' : Ctx K0 (T ++ [(n, S)]) := ctx_of hK hl hgen hsame
  have hsub : ∀ p ∈ T, p ∈ T ++ [(n, S)] := fun p hp => List.mem_append_left _ hp
  refine ⟨hgen, hsame, ?_⟩
  intro p hp
  rcases List.mem_append.mp hp with hp | hp
  · obtain ⟨ψp, hqp, harp, hatp, hnp, hSp⟩ := G.wit p hp
    refine ⟨ψp, hqp, harp, ?_, hnp, ?_⟩
    · intro m hm
      rcases hatp m hm with h | ⟨q, hq', h⟩
      · exact Or.inl h
      · exact Or.inr ⟨q, hsub q hq', h⟩
    · intro s
      rw [hSp s]
      exact and_congr_right fun hs => satState_stable C' hgen hsub ψp hatp s hs
  · rw [List.mem_singleton.mp hp]
    refine ⟨ψ, hq, har, ?_, hn, ?_⟩
    · intro m hm
      rcases hat m hm with h | ⟨q, hq', h⟩
      · exact Or.inl h
      · exact Or.inr ⟨q, hsub q hq', h⟩
    · intro s
      rw [hS s]
      exact and_congr_right fun hs => satState_stable C' hgen hsub ψ hat s hs

/-! ### the quantifier steps -/

/-- what the induction hypothesis provides for the operand of a quantifier -/
theorem inner_exact (C : Ctx K0 T) (hgen : ∀ p ∈ T, GenName p.1) (K : Kripke σ) (g : Fm)
    (tr₁ : List (String × List σ)) (hKe : K = addTrace K0 tr₁)
    (hT : ∀ p ∈ tr₁ ++ (removeStateT K g).2.2, p ∈ T) (hwa : ∀ n ∈ g.atoms, Fm.wfName n = true)
    (π : Nat → σ) (i : Nat) (hπ : ∀ j, π j ∈ K0.states) :
    sat (removeStateT K g).1 (removeStateT K g).2.1 π i ↔ sat K0 g π i := by
  have hat : ∀ p ∈ T, p.1 ∉ g.atoms := by
    intro p hp hpa
    have := genName_not_wf (hgen p hp)
    rw [hwa _ hpa] at this
    cases this
  exact inner C K g tr₁ hKe hT hat (main C K g tr₁ hKe hT hat) π i hπ

theorem good_A (hK : K0.WF) (hl : LabWF K0) (K : Kripke σ) (g : Fm) (tr₁ : List (String × List σ))
    (hKe : K = addTrace K0 tr₁) (hwa : ∀ n ∈ g.atoms, Fm.wfName n = true) (har : g.arityOK = true)
    (G1 : Good K0 (tr₁ ++ (removeStateT K g).2.2)) :
    Good K0 (tr₁ ++ (removeStateT K (.A g)).2.2) := by
  have C1 := G1.ctx hK hl
  have hwf : (removeStateT K g).1.WF := by rw [struct_of_eq K g tr₁ hKe]; exact addTrace_wf _ _ hK
  have hst : (removeStateT K g).1.states = K0.states := by rw [struct_of_eq K g tr₁ hKe, addTrace_states]
  have hsu : (removeStateT K g).1.succ = K0.succ := by rw [struct_of_eq K g tr₁ hKe, addTrace_succ]
  have hex : ∀ s, s ∈ (checkQT (removeStateT K g).1 true (removeStateT K g).2.1).2.1 ↔
      (s ∈ K0.states ∧ satState (addTrace K0 (tr₁ ++ (removeStateT K g).2.2)) (.A g) s) := by
    intro s
    rw [checkQT_exact_A _ hwf _ (removeStateT_qfree K g), hst]
    refine and_congr_right fun hs => ?_
    rw [← satState_orig C1 G1.gen (.A g) (by simpa [Fm.atoms] using hwa) s hs]
    simp only [satState, sat]
    refine forall_congr' fun π' => ?_
    rw [isPath_of_succ K0 _ hsu]
    refine forall_congr' fun hp => forall_congr' fun h0 => ?_
    exact inner_exact C1 G1.gen K g tr₁ hKe (fun _ h => h) hwa π' 0 (CTL.path_states K0 hK π' hp (h0 ▸ hs))
  have G2 := G1.extend hK hl (freshName K (.A g)) _ (.A g) trivial (by simpa [Fm.arityOK] using har)
    (fun m hm => Or.inl (hwa m (by simpa [Fm.atoms] using hm))) (freshName_nameOf K _) hex
  have e : tr₁ ++ (removeStateT K (.A g)).2.2 = tr₁ ++ (removeStateT K g).2.2 ++
      [(freshName K (.A g), (checkQT (removeStateT K g).1 true (removeStateT K g).2.1).2.1)] := by
    simp [removeStateT, checkQT]
  rw [e]; exact G2

theorem good_E (hK : K0.WF) (hl : LabWF K0) (K : Kripke σ) (g : Fm) (tr₁ : List (String × List σ))
    (hKe : K = addTrace K0 tr₁) (hwa : ∀ n ∈ g.atoms, Fm.wfName n = true) (har : g.arityOK = true)
    (G1 : Good K0 (tr₁ ++ (removeStateT K g).2.2)) :
    Good K0 (tr₁ ++ (removeStateT K (.E g)).2.2) := by
  have C1 := G1.ctx hK hl
  have hK1 := struct_of_eq K g tr₁ hKe
  have hwf : (removeStateT K g).1.WF := by rw [hK1]; exact addTrace_wf _ _ hK
  have hst : (removeStateT K g).1.states = K0.states := by rw [hK1, addTrace_states]
  have hsu : (removeStateT K g).1.succ = K0.succ := by rw [hK1, addTrace_succ]
  have hqf := removeStateT_qfree K g
  -- the trace after the fallback pair (if any) is good
  have G2 : Good K0 (tr₁ ++ (removeStateT K g).2.2 ++
      (checkQT (removeStateT K g).1 false (removeStateT K g).2.1).2.2) := by
    unfold checkQT
    simp only [Bool.false_eq_true, if_false]
    split
    · simpa using G1
    · refine G1.extend hK hl _ _ (.A (removeStateT K g).2.1.lnot) trivial ?_ ?_ (freshName_nameOf _ _) ?_
      · simp only [Fm.arityOK]
        exact arityOK_lnot _ (removeStateT_arityOK K g har)
      · intro m hm
        simp only [Fm.atoms] at hm
        rcases removeStateT_atoms K g m (atoms_lnot _ m hm) with h | ⟨p, hp, h⟩
        · exact Or.inl (hwa m h)
        · exact Or.inr ⟨p, List.mem_append_right _ hp, h⟩
      · intro s
        rw [checkA_exact _ hwf _ (LTL.isLTLPath_lnot _ hqf) s, hst, ← hK1]
        simp only [satState, sat]
  have C2 := G2.ctx hK hl
  have hfresh : ∀ p ∈ (checkQT (removeStateT K g).1 false (removeStateT K g).2.1).2.2,
      ∀ s ∈ (removeStateT K g).1.states, p.1 ∈ (removeStateT K g).1.lab s → s ∈ p.2 := by
    intro p hp s hs hlab
    rw [hst] at hs
    rw [hK1] at hlab
    exact fresh_of_ctx C2 _ (fun q hq => List.mem_append_left _ hq) p (List.mem_append_right _ hp) s hs hlab
  have hex : ∀ s, s ∈ (checkQT (removeStateT K g).1 false (removeStateT K g).2.1).2.1 ↔
      (s ∈ K0.states ∧ satState (addTrace K0 (tr₁ ++ (removeStateT K g).2.2 ++
        (checkQT (removeStateT K g).1 false (removeStateT K g).2.1).2.2)) (.E g) s) := by
    intro s
    rw [checkQT_exact_E _ hwf _ hqf hfresh, hst]
    refine and_congr_right fun hs => ?_
    rw [← satState_orig C2 G2.gen (.E g) (by simpa [Fm.atoms] using hwa) s hs]
    simp only [satState, sat]
    refine exists_congr fun π' => ?_
    rw [isPath_of_succ K0 _ hsu]
    refine and_congr_right fun hp => and_congr_right fun h0 => ?_
    exact inner_exact C2 G2.gen K g tr₁ hKe (fun _ h => List.mem_append_left _ h) hwa π' 0
      (CTL.path_states K0 hK π' hp (h0 ▸ hs))
  have G3 := G2.extend hK hl (freshName K (.E g)) _ (.E g) trivial (by simpa [Fm.arityOK] using har)
    (fun m hm => Or.inl (hwa m (by simpa [Fm.atoms] using hm))) (freshName_nameOf K _) hex
  have e : tr₁ ++ (removeStateT K (.E g)).2.2 = tr₁ ++ (removeStateT K g).2.2 ++
      (checkQT (removeStateT K g).1 false (removeStateT K g).2.1).2.2 ++
      [(freshName K (.E g), (checkQT (removeStateT K g).1 false (removeStateT K g).2.1).2.1)] := by
    simp [removeStateT]
  rw [e]; exact G3

/-! ### the induction along the run -/

theorem good_main (hK : K0.WF) (hl : LabWF K0) (K : Kripke σ) (f : Fm) :
    ∀ tr₁, K = addTrace K0 tr₁ → Good K0 tr₁ → (∀ n ∈ f.atoms, Fm.wfName n = true) → f.arityOK = true →
      Good K0 (tr₁ ++ (removeStateT K f).2.2) := by
  apply removeStateT.induct
    (motive_1 := fun K fs => ∀ tr₁, K = addTrace K0 tr₁ → Good K0 tr₁ →
      (∀ n ∈ Fm.atoms.atomsList fs, Fm.wfName n = true) → Fm.arityOK.arityOKList fs = true →
      Good K0 (tr₁ ++ (removeStateT.removeStateTList K fs).2.2))
    (motive_2 := fun K f => ∀ tr₁, K = addTrace K0 tr₁ → Good K0 tr₁ →
      (∀ n ∈ f.atoms, Fm.wfName n = true) → f.arityOK = true →
      Good K0 (tr₁ ++ (removeStateT K f).2.2))
  case case1 => intro K tr₁ _ G _ _; simpa [removeStateT] using G
  case case2 => intro K tr₁ _ G _ _; simpa [removeStateT] using G
  case case3 => intro K n tr₁ _ G _ _; simpa [removeStateT] using G
  case case4 =>
    intro K g ih tr₁ hKe G hwa har
    simp only [Fm.atoms] at hwa
    simp only [Fm.arityOK] at har
    exact good_A hK hl K g tr₁ hKe hwa har (ih tr₁ hKe G hwa har)
  case case5 =>
    intro K g ih tr₁ hKe G hwa har
    simp only [Fm.atoms] at hwa
    simp only [Fm.arityOK] at har
    exact good_E hK hl K g tr₁ hKe hwa har (ih tr₁ hKe G hwa har)
  case case6 =>
    intro K f ih tr₁ hKe G hwa har
    simpa [removeStateT] using ih tr₁ hKe G (by simpa [Fm.atoms] using hwa) (by simpa [Fm.arityOK] using har)
  case case7 =>
    intro K f ih tr₁ hKe G hwa har
    simpa [removeStateT] using ih tr₁ hKe G (by simpa [Fm.atoms] using hwa) (by simpa [Fm.arityOK] using har)
  case case8 =>
    intro K f ih tr₁ hKe G hwa har
    simpa [removeStateT] using ih tr₁ hKe G (by simpa [Fm.atoms] using hwa) (by simpa [Fm.arityOK] using har)
  case case9 =>
    intro K f ih tr₁ hKe G hwa har
    simpa [removeStateT] using ih tr₁ hKe G (by simpa [Fm.atoms] using hwa) (by simpa [Fm.arityOK] using har)
  case case10 =>
    intro K fs ih tr₁ hKe G hwa har
    simp only [Fm.arityOK, Bool.and_eq_true] at har
    simpa [removeStateT] using ih tr₁ hKe G (by simpa [Fm.atoms] using hwa) har.2
  case case11 =>
    intro K fs ih tr₁ hKe G hwa har
    simp only [Fm.arityOK, Bool.and_eq_true] at har
    simpa [removeStateT] using ih tr₁ hKe G (by simpa [Fm.atoms] using hwa) har.2
  case case12 =>
    intro K f g r ih1 ih2 tr₁ hKe G hwa har
    simp only [Fm.atoms, List.mem_append] at hwa
    simp only [Fm.arityOK, Bool.and_eq_true] at har
    have G1 := ih1 tr₁ hKe G (fun n hn => hwa n (Or.inl hn)) har.1
    have G2 := ih2 (tr₁ ++ (removeStateT K f).2.2) (struct_of_eq K f tr₁ hKe) G1 (fun n hn => hwa n (Or.inr hn)) har.2
    simpa [removeStateT, r] using G2
  case case13 =>
    intro K f g r ih1 ih2 tr₁ hKe G hwa har
    simp only [Fm.atoms, List.mem_append] at hwa
    simp only [Fm.arityOK, Bool.and_eq_true] at har
    have G1 := ih1 tr₁ hKe G (fun n hn => hwa n (Or.inl hn)) har.1
    have G2 := ih2 (tr₁ ++ (removeStateT K f).2.2) (struct_of_eq K f tr₁ hKe) G1 (fun n hn => hwa n (Or.inr hn)) har.2
    simpa [removeStateT, r] using G2
  case case14 =>
    intro K f g r ih1 ih2 tr₁ hKe G hwa har
    simp only [Fm.atoms, List.mem_append] at hwa
    simp only [Fm.arityOK, Bool.and_eq_true] at har
    have G1 := ih1 tr₁ hKe G (fun n hn => hwa n (Or.inl hn)) har.1
    have G2 := ih2 (tr₁ ++ (removeStateT K f).2.2) (struct_of_eq K f tr₁ hKe) G1 (fun n hn => hwa n (Or.inr hn)) har.2
    simpa [removeStateT, r] using G2
  case case15 => intro K tr₁ _ G _ _; simpa [removeStateT.removeStateTList] using G
  case case16 =>
    intro K f fs r ih1 ih2 tr₁ hKe G hwa har
    simp only [Fm.atoms.atomsList, List.mem_append] at hwa
    simp only [Fm.arityOK.arityOKList, Bool.and_eq_true] at har
    have G1 := ih1 tr₁ hKe G (fun n hn => hwa n (Or.inl hn)) har.1
    have G2 := ih2 (tr₁ ++ (removeStateT K f).2.2) (struct_of_eq K f tr₁ hKe) G1 (fun n hn => hwa n (Or.inr hn)) har.2
    simpa [removeStateT.removeStateTList, r] using G2

/-! ### the top level -/

/-- **the naming discipline always works when atoms and labels are identifier-style** -/
theorem namesOK_of_wf (K : Kripke σ) (hK : K.WF) (f : Fm) (ha : f.wfAtoms = true) (hr : f.arityOK = true)
    (hl : ∀ l ∈ K.allLabels, Fm.wfName l = true) : namesOK K f = true := by
  have hwa : ∀ n ∈ f.atoms, Fm.wfName n = true := by
    simpa [Fm.wfAtoms, List.all_eq_true] using ha
  have G : Good K (removeStateT K f).2.2 := by
    simpa using good_main (K0 := K) hK hl K f [] rfl (Good.nil K) hwa hr
  simp only [namesOK, Bool.and_eq_true, List.all_eq_true, Bool.not_eq_true', Bool.or_eq_true, bne_iff_ne, ne_eq,
    List.contains_eq_mem, decide_eq_false_iff_not, decide_eq_true_eq]
  refine ⟨fun p hp => ⟨?_, ?_⟩, fun p hp q hq => ?_⟩
  · intro hpa
    have := genName_not_wf (G.gen p hp)
    rw [hwa _ hpa] at this
    cases this
  · intro hpl
    have := genName_not_wf (G.gen p hp)
    rw [hl _ hpl] at this
    cases this
  · by_cases hpq : p.1 = q.1
    · exact Or.inr ⟨fun s hs => (G.same p hp q hq hpq s).mp hs, fun s hs => (G.same p hp q hq hpq s).mpr hs⟩
    · exact Or.inl hpq

#print axioms namesOK_of_wf
end PMC.CTLS
