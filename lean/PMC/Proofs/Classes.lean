/-
  Helper lemmas for C08: what the reference class table (`Classes.refTable`) makes of `build` (construction / cast)
  and of the three `modelcheck` guards, in terms of the syntactic classes of PMC/Model/Syntax.lean.

  Structure: (1) the look-ups in `refTable`, evaluated once and for all on `className g` (`cases … <;> rfl`);
  (2) one step of `build` as a statement about the root and the children (`build_step`, `inner_ref`);
  (3) the same step for `inLogic` (`inLogic_step`, pure syntax); (4) the inductions.
-/
import PMC.Model.Classes
import PMC.Proofs.RewriteCTL
import PMC.Proofs.LTLFront
namespace PMC.Classes
open PMC Fm

/-! ### vocabulary -/

def isLeaf : Fm → Bool
  | .tt | .ff | .ap _ => true
  | _ => false

def temporalRoot : Fm → Bool
  | .X _ | .F _ | .G _ | .U _ _ | .R _ _ => true
  | _ => false

def quantRoot : Fm → Bool
  | .A _ | .E _ => true
  | _ => false

def plRoot : Fm → Bool
  | .tt | .ff | .ap _ | .not _ | .or _ | .and _ | .imp _ _ => true
  | _ => false

/-- the operands of the root -/
def children : Fm → List Fm
  | .tt | .ff | .ap _ => []
  | .not f | .X f | .F f | .G f | .A f | .E f => [f]
  | .or fs | .and fs => fs
  | .imp f g | .U f g | .R f g => [f, g]

/-- the root operator of `f` is a class of module `M` (PL: Boolean operators and atoms; LTL: everything but `E`) -/
def opIn : Logic → Fm → Bool
  | .PL, f => plRoot f
  | .LTL, f => match f with
    | .E _ => false
    | _ => true
  | _, _ => true

/-- every operator of `f` is a class of module `M` -/
def opsIn (M : Logic) : Fm → Bool
  | .tt | .ff | .ap _ => true
  | .not f => opIn M (.not f) && opsIn M f
  | .or fs => opIn M (.or fs) && opsInList fs
  | .and fs => opIn M (.and fs) && opsInList fs
  | .imp f g => opIn M (.imp f g) && (opsIn M f && opsIn M g)
  | .X f => opIn M (.X f) && opsIn M f
  | .F f => opIn M (.F f) && opsIn M f
  | .G f => opIn M (.G f) && opsIn M f
  | .U f g => opIn M (.U f g) && (opsIn M f && opsIn M g)
  | .R f g => opIn M (.R f g) && (opsIn M f && opsIn M g)
  | .A f => opIn M (.A f) && opsIn M f
  | .E f => opIn M (.E f) && opsIn M f
where
  opsInList : List Fm → Bool
    | [] => true
    | f :: fs => opsIn M f && opsInList fs

/-- the `isinstance` test the constructor of the root of `g` (module `M`) applies to an operand `f` of module `M` -/
def childOK : Logic → Fm → Fm → Bool
  | .PL, _, f => plRoot f
  | .CTL, g, f => if quantRoot g then temporalRoot f else !temporalRoot f
  | .LTL, _, f => !quantRoot f
  | .CTLS, _, _ => true

/-! ### (1) look-ups in the reference table -/

theorem inAlphabet_ref (M : Logic) (g : Fm) : refTable.inAlphabet M (className g) = opIn M g := by
  cases M <;> cases g <;> rfl

theorem operandKind_ref (M : Logic) (g : Fm) (hg : isLeaf g = false) :
    refTable.operandKind M (className g) = if opIn M g then some (refOperand M (className g)) else none := by
  cases M <;> cases g <;> first | rfl | (simp [isLeaf] at hg)

theorem refOperand_className (M : Logic) (g : Fm) :
    refOperand M (className g) =
      match M with
      | .PL => (.PL, "Formula")
      | .CTL => if quantRoot g then (.CTL, "PathFormula") else (.CTL, "StateFormula")
      | .LTL => (.LTL, "PathFormula")
      | .CTLS => (.CTLS, "Formula") := by
  cases M <;> cases g <;> rfl

theorem isSub_PL_Formula (f : Fm) : refTable.isSub (.PL, className f) (.PL, "Formula") = plRoot f := by
  cases f <;> rfl

theorem isSub_CTL_State (f : Fm) :
    refTable.isSub (.CTL, className f) (.CTL, "StateFormula") = !temporalRoot f := by
  cases f <;> rfl

theorem isSub_CTL_Path (f : Fm) : refTable.isSub (.CTL, className f) (.CTL, "PathFormula") = temporalRoot f := by
  cases f <;> rfl

theorem isSub_LTL_Path (f : Fm) : refTable.isSub (.LTL, className f) (.LTL, "PathFormula") = !quantRoot f := by
  cases f <;> rfl

theorem isSub_CTLS_Formula' (f : Fm) : refTable.isSub (.CTLS, className f) (.CTLS, "Formula") = true := by
  cases f <;> rfl

theorem isSub_ref (M : Logic) (g f : Fm) :
    refTable.isSub (M, className f) (refOperand M (className g)) = childOK M g f := by
  rw [refOperand_className]
  cases M
  · exact isSub_PL_Formula f
  · simp only [childOK]
    cases quantRoot g
    · exact isSub_CTL_State f
    · exact isSub_CTL_Path f
  · exact isSub_LTL_Path f
  · exact isSub_CTLS_Formula' f

theorem leaf_ref (M : Logic) (g : Fm) (hg : isLeaf g = true) : leaf refTable M (className g) = .ok () := by
  cases M <;> cases g <;> first | rfl | (simp [isLeaf] at hg)

/-! ### (2) one step of `build` -/

theorem seq_ok_right (a : Except Err Unit) : build.seq a (.ok ()) = a := by
  cases a <;> rfl

theorem seq_ok_iff (a b : Except Err Unit) : build.seq a b = .ok () ↔ a = .ok () ∧ b = .ok () := by
  cases a <;> simp [build.seq]

theorem seq_error (a b : Except Err Unit) (x : Err) (h : build.seq a b = .error x) : a = .error x ∨ b = .error x := by
  cases a with
  | error e => left; simpa [build.seq] using h
  | ok u => right; simpa [build.seq] using h

theorem build_leaf (T : ClassTable) (M : Logic) (e : Err) (g : Fm) (hg : isLeaf g = true) :
    build T M e g = leaf T M (className g) := by
  cases g <;> first | (rw [build]; rfl) | (simp [isLeaf] at hg)

theorem build_step (T : ClassTable) (M : Logic) (e : Err) (g : Fm) (hg : isLeaf g = false) :
    build T M e g =
      inner T M e (className g) (build.buildList T M e (children g)) (classNames (children g)) := by
  cases g with
  | tt | ff | ap n => simp [isLeaf] at hg
  | _ => rw [build]; simp only [children, build.buildList, seq_ok_right, className, classNames, List.map]

theorem buildList_ok_iff (T : ClassTable) (M : Logic) (e : Err) (fs : List Fm) :
    build.buildList T M e fs = .ok () ↔ ∀ f ∈ fs, build T M e f = .ok () := by
  induction fs with
  | nil => simp [build.buildList]
  | cons f fs ih => simp [build.buildList, seq_ok_iff, ih]

theorem buildList_error (T : ClassTable) (M : Logic) (e : Err) (fs : List Fm) (x : Err)
    (h : build.buildList T M e fs = .error x) : ∃ f ∈ fs, build T M e f = .error x := by
  induction fs with
  | nil => simp [build.buildList] at h
  | cons f fs ih =>
    simp only [build.buildList] at h
    rcases seq_error _ _ _ h with h | h
    · exact ⟨f, List.mem_cons_self, h⟩
    · obtain ⟨f', hf', h'⟩ := ih h
      exact ⟨f', List.mem_cons_of_mem _ hf', h'⟩

/-- one constructor call with the reference table -/
theorem inner_ref (M : Logic) (e : Err) (g : Fm) (hg : isLeaf g = false) (kids : Except Err Unit) (fs : List Fm) :
    inner refTable M e (className g) kids (classNames fs) =
      if opIn M g then
        match kids with
        | .ok () => if fs.all (childOK M g) then .ok () else .error .typeError
        | .error x => .error x
      else .error e := by
  unfold inner node
  rw [inAlphabet_ref, operandKind_ref M g hg]
  cases h : opIn M g
  · simp
  · simp only [if_true, classNames, List.all_map, Function.comp_def, isSub_ref]
    rfl

theorem build_ref (M : Logic) (e : Err) (g : Fm) (hg : isLeaf g = false) :
    build refTable M e g =
      if opIn M g then
        match build.buildList refTable M e (children g) with
        | .ok () => if (children g).all (childOK M g) then .ok () else .error .typeError
        | .error x => .error x
      else .error e := by
  rw [build_step _ _ _ _ hg, inner_ref _ _ _ hg]

theorem build_ref_ok_iff (M : Logic) (e : Err) (g : Fm) (hg : isLeaf g = false) :
    build refTable M e g = .ok () ↔
      opIn M g = true ∧ (∀ f ∈ children g, build refTable M e f = .ok ()) ∧
        ∀ f ∈ children g, childOK M g f = true := by
  rw [build_ref _ _ _ hg, ← buildList_ok_iff]
  cases opIn M g
  · simp
  · cases h : build.buildList refTable M e (children g) with
    | error x => simp
    | ok u => cases u; simp

theorem build_ref_error (M : Logic) (e : Err) (g : Fm) (hg : isLeaf g = false) (x : Err)
    (h : build refTable M e g = .error x) :
    (opIn M g = false ∧ x = e) ∨ (opIn M g = true ∧ ∃ f ∈ children g, build refTable M e f = .error x) ∨
      (opIn M g = true ∧ x = .typeError) := by
  rw [build_ref _ _ _ hg] at h
  cases ho : opIn M g
  · left; simp [ho] at h; exact ⟨rfl, h.symm⟩
  · right
    rw [ho] at h
    cases hk : build.buildList refTable M e (children g) with
    | error y =>
      rw [hk] at h
      simp only [if_true] at h
      injection h with h
      subst h
      exact Or.inl ⟨rfl, buildList_error _ _ _ _ _ hk⟩
    | ok u =>
      cases u
      rw [hk] at h
      simp only [if_true] at h
      split at h
      · cases h
      · injection h with h
        exact Or.inr ⟨rfl, h.symm⟩

/-! ### (3) one step of the syntactic classes -/

theorem isPLList_eq_all (fs : List Fm) : isPL.isPLList fs = fs.all isPL := by
  induction fs with
  | nil => rfl
  | cons f fs ih => simp [isPL.isPLList, ih]

theorem isLTLPathList_eq_all (fs : List Fm) : isLTLPath.isLTLPathList fs = fs.all isLTLPath := by
  induction fs with
  | nil => rfl
  | cons f fs ih => simp [isLTLPath.isLTLPathList, ih]

theorem isCTLStateList_eq_all (fs : List Fm) : isCTLState.isCTLStateList fs = fs.all isCTLState := by
  induction fs with
  | nil => rfl
  | cons f fs ih => simp [isCTLState.isCTLStateList, ih]

theorem isCTLSStateList_eq_all (fs : List Fm) : isCTLSState.isCTLSStateList fs = fs.all isCTLSState := by
  induction fs with
  | nil => rfl
  | cons f fs ih => simp [isCTLSState.isCTLSStateList, ih]

theorem opsInList_eq_all (M : Logic) (fs : List Fm) : opsIn.opsInList M fs = fs.all (opsIn M) := by
  induction fs with
  | nil => rfl
  | cons f fs ih => simp [opsIn.opsInList, ih]

theorem isPL_plRoot (f : Fm) (h : isPL f = true) : plRoot f = true := by
  cases f <;> first | rfl | simp [isPL] at h

/-- a PL formula is a formula all of whose operands are PL formulas with a Boolean root -/
theorem isPL_eq (f : Fm) : isPL f = (isPL f && plRoot f) := by
  cases h : isPL f
  · rfl
  · simp [isPL_plRoot f h]

/-- LTL: the path formulas are the formulas that do not start with a quantifier -/
theorem isLTLPath_eq (f : Fm) : isLTLPath f = (isLTL f && !quantRoot f) := by
  cases f <;> simp [isLTL, isLTLPath, quantRoot]

/-- CTL: the state formulas are the formulas that do not start with a temporal operator -/
theorem isCTLState_eq (f : Fm) : isCTLState f = (isCTL f && !temporalRoot f) := by
  cases f <;> simp [isCTL, isCTLState, temporalRoot]

/-- CTL: a quantifier applies to a formula that starts with a temporal operator -/
theorem isCTLState_A (f : Fm) : isCTLState (.A f) = (isCTL f && temporalRoot f) := by
  cases f <;> simp [isCTL, isCTLState, temporalRoot]

theorem isCTLState_E (f : Fm) : isCTLState (.E f) = (isCTL f && temporalRoot f) := by
  cases f <;> simp [isCTL, isCTLState, temporalRoot]

theorem all_congr_mem {α : Type} (l : List α) (p q : α → Bool) (h : ∀ a ∈ l, p a = q a) : l.all p = l.all q := by
  induction l with
  | nil => rfl
  | cons a l ih =>
    simp only [List.all_cons, h a List.mem_cons_self, ih (fun b hb => h b (List.mem_cons_of_mem _ hb))]

theorem inLogic_step (M : Logic) (g : Fm) (hg : isLeaf g = false) :
    inLogic M g = (opIn M g && (children g).all (fun f => inLogic M f && childOK M g f)) := by
  cases M
  · -- PL
    have P : ∀ g f : Fm, (inLogic .PL f && childOK .PL g f) = isPL f := fun g f => (isPL_eq f).symm
    cases g with
    | tt | ff | ap n => simp [isLeaf] at hg
    | not f | imp f g =>
      simp only [opIn, plRoot, children, List.all_cons, List.all_nil, Bool.and_true, Bool.true_and, P]
      rfl
    | or fs | and fs =>
      simp only [opIn, plRoot, children, Bool.true_and, P]
      exact isPLList_eq_all fs
    | X f | F f | G f | A f | E f | U f g | R f g =>
      simp only [opIn, plRoot, Bool.false_and]
      rfl
  · -- CTL
    have P : ∀ g f : Fm, (inLogic .CTL f && childOK .CTL g f) =
        if quantRoot g then (isCTL f && temporalRoot f) else isCTLState f := fun g f => by
      simp only [childOK, inLogic]
      cases quantRoot g
      · simpa using (isCTLState_eq f).symm
      · simp
    cases g with
    | tt | ff | ap n => simp [isLeaf] at hg
    | not f | X f | F f | G f | imp f g | U f g | R f g =>
      simp only [opIn, children, List.all_cons, List.all_nil, Bool.and_true, Bool.true_and, P, quantRoot,
        Bool.false_eq_true, if_false]
      rfl
    | or fs | and fs =>
      simp only [opIn, children, Bool.true_and, P, quantRoot, Bool.false_eq_true, if_false]
      exact isCTLStateList_eq_all fs
    | A f =>
      simp only [opIn, children, List.all_cons, List.all_nil, Bool.and_true, Bool.true_and, P, quantRoot, if_true]
      exact isCTLState_A f
    | E f =>
      simp only [opIn, children, List.all_cons, List.all_nil, Bool.and_true, Bool.true_and, P, quantRoot, if_true]
      exact isCTLState_E f
  · -- LTL
    have P : ∀ g f : Fm, (inLogic .LTL f && childOK .LTL g f) = isLTLPath f := fun g f => (isLTLPath_eq f).symm
    cases g with
    | tt | ff | ap n => simp [isLeaf] at hg
    | not f | X f | F f | G f | A f | imp f g | U f g | R f g =>
      simp only [opIn, children, List.all_cons, List.all_nil, Bool.and_true, Bool.true_and, P]
      rfl
    | or fs | and fs =>
      simp only [opIn, children, Bool.true_and, P]
      exact isLTLPathList_eq_all fs
    | E f =>
      simp only [opIn, Bool.false_and]
      rfl
  · -- CTLS
    cases g with
    | tt | ff | ap n => simp [isLeaf] at hg
    | _ => simp [inLogic, opIn, childOK]

theorem inLogic_leaf (M : Logic) (g : Fm) (hg : isLeaf g = true) : inLogic M g = true := by
  cases M <;> cases g <;> first | rfl | (simp [isLeaf] at hg)

theorem opsIn_step (M : Logic) (g : Fm) (hg : isLeaf g = false) :
    opsIn M g = (opIn M g && (children g).all (opsIn M)) := by
  cases g with
  | tt | ff | ap n => simp [isLeaf] at hg
  | _ => simp [opsIn, children, opsInList_eq_all]

/-! ### (4) the inductions -/

/-- induction over a formula through `children` -/
theorem Fm.induct_children {P : Fm → Prop} (h : ∀ g, (∀ f ∈ children g, P f) → P g) : ∀ f, P f := by
  intro f
  induction f using Fm.induct' with
  | tt => exact h _ (by simp [children])
  | ff => exact h _ (by simp [children])
  | ap n => exact h _ (by simp [children])
  | not f ih => exact h _ (by simpa [children] using ih)
  | or fs ih => exact h _ (by simpa [children] using ih)
  | and fs ih => exact h _ (by simpa [children] using ih)
  | imp f g ihf ihg => exact h _ (by simpa [children] using ⟨ihf, ihg⟩)
  | X f ih => exact h _ (by simpa [children] using ih)
  | F f ih => exact h _ (by simpa [children] using ih)
  | G f ih => exact h _ (by simpa [children] using ih)
  | U f g ihf ihg => exact h _ (by simpa [children] using ⟨ihf, ihg⟩)
  | R f g ihf ihg => exact h _ (by simpa [children] using ⟨ihf, ihg⟩)
  | A f ih => exact h _ (by simpa [children] using ih)
  | E f ih => exact h _ (by simpa [children] using ih)

/-- the constructors of module `M` accept exactly the trees that are formulas of `M` -/
theorem build_ok_iff (M : Logic) (e : Err) (f : Fm) : build refTable M e f = .ok () ↔ inLogic M f = true := by
  induction f using Fm.induct_children with
  | h g ih =>
    cases hg : isLeaf g
    · rw [build_ref_ok_iff _ _ _ hg, inLogic_step _ _ hg]
      simp only [Bool.and_eq_true, List.all_eq_true]
      constructor
      · rintro ⟨h1, h2, h3⟩
        exact ⟨h1, fun f hf => ⟨(ih f hf).mp (h2 f hf), h3 f hf⟩⟩
      · rintro ⟨h1, h2⟩
        exact ⟨h1, fun f hf => (ih f hf).mpr (h2 f hf).1, fun f hf => (h2 f hf).2⟩
    · rw [build_leaf _ _ _ _ hg, leaf_ref _ _ hg, inLogic_leaf _ _ hg]
      simp

/-- the only exceptions are `TypeError` and the one for a missing class -/
theorem build_error (M : Logic) (e : Err) (f : Fm) (x : Err) :
    build refTable M e f = .error x → x = .typeError ∨ x = e := by
  induction f using Fm.induct_children with
  | h g ih =>
    intro h
    cases hg : isLeaf g
    · rcases build_ref_error _ _ _ hg _ h with ⟨_, h⟩ | ⟨_, f, hf, h⟩ | ⟨_, h⟩
      · exact Or.inr h
      · exact ih f hf h
      · exact Or.inl h
    · rw [build_leaf _ _ _ _ hg, leaf_ref _ _ hg] at h
      cases h

/-- when no class is missing the exception is `TypeError` -/
theorem build_error_opsIn (M : Logic) (e : Err) (f : Fm) (x : Err) :
    opsIn M f = true → build refTable M e f = .error x → x = .typeError := by
  induction f using Fm.induct_children with
  | h g ih =>
    intro ho h
    cases hg : isLeaf g
    · rw [opsIn_step _ _ hg, Bool.and_eq_true, List.all_eq_true] at ho
      rcases build_ref_error _ _ _ hg _ h with ⟨h', _⟩ | ⟨_, f, hf, h⟩ | ⟨_, h⟩
      · rw [ho.1] at h'; cases h'
      · exact ih f hf (ho.2 f hf) h
      · exact h
    · rw [build_leaf _ _ _ _ hg, leaf_ref _ _ hg] at h
      cases h

/-- a formula of `M` uses only operators of `M` -/
theorem opsIn_of_inLogic (M : Logic) (f : Fm) : inLogic M f = true → opsIn M f = true := by
  induction f using Fm.induct_children with
  | h g ih =>
    intro h
    cases hg : isLeaf g
    · rw [inLogic_step _ _ hg, Bool.and_eq_true, List.all_eq_true] at h
      rw [opsIn_step _ _ hg, Bool.and_eq_true, List.all_eq_true]
      exact ⟨h.1, fun f hf => ih f hf (by have := h.2 f hf; simp only [Bool.and_eq_true] at this; exact this.1)⟩
    · cases g <;> first | rfl | (simp [isLeaf] at hg)

theorem build_not_ok (M : Logic) (e : Err) (f : Fm) (h : inLogic M f = false) :
    ∃ x, build refTable M e f = .error x := by
  cases hb : build refTable M e f with
  | error x => exact ⟨x, rfl⟩
  | ok u =>
    cases u
    rw [(build_ok_iff M e f).mp hb] at h
    cases h

/-! ### guards: look-ups -/

theorem isSub_CTL_Formula (M : Logic) (f : Fm) :
    refTable.isSub (M, className f) (.CTL, "Formula") = (M == .CTL) := by
  cases M <;> cases f <;> rfl

theorem isSub_LTL_Formula (M : Logic) (f : Fm) (h : opIn M f = true) :
    refTable.isSub (M, className f) (.LTL, "Formula") = (M == .LTL) := by
  cases M <;> cases f <;> first | rfl | simp [opIn] at h

theorem isSub_CTLS_A (M : Logic) (f : Fm) (h : opIn M f = true) :
    refTable.isSub (M, className f) (.CTLS, "A") = (match f with | .A _ => true | _ => false) := by
  cases M <;> cases f <;> first | rfl | simp [opIn, plRoot] at h

theorem isSub_CTLS_Formula (M : Logic) (f : Fm) (h : opIn M f = true) :
    refTable.isSub (M, className f) (.CTLS, "Formula") = (M != .PL) := by
  cases M <;> cases f <;> first | rfl | simp [opIn] at h

theorem opIn_of_inLogic (M : Logic) (f : Fm) (h : inLogic M f = true) : opIn M f = true := by
  cases hg : isLeaf f
  · rw [inLogic_step _ _ hg, Bool.and_eq_true] at h
    exact h.1
  · cases M <;> cases f <;> first | rfl | (simp [isLeaf] at hg)

/-! ### guards: syntax -/

theorem isCTL_of_isCTLState (f : Fm) (h : isCTLState f = true) : isCTL f = true := by
  rw [isCTLState_eq, Bool.and_eq_true] at h
  exact h.1

theorem isCTLSState_of_isCTLState (f : Fm) : isCTLState f = true → isCTLSState f = true := by
  induction f using Fm.induct' with
  | tt | ff | ap n => intro _; rfl
  | not f ih => simpa [isCTLState, isCTLSState] using ih
  | or fs ih =>
    simp only [isCTLState, isCTLSState, isCTLStateList_eq_all, isCTLSStateList_eq_all, List.all_eq_true]
    exact fun h f hf => ih f hf (h f hf)
  | and fs ih =>
    simp only [isCTLState, isCTLSState, isCTLStateList_eq_all, isCTLSStateList_eq_all, List.all_eq_true]
    exact fun h f hf => ih f hf (h f hf)
  | imp f g ihf ihg =>
    simp only [isCTLState, isCTLSState, Bool.and_eq_true]
    exact fun h => ⟨ihf h.1, ihg h.2⟩
  | X f _ | F f _ | G f _ => intro h; simp [isCTLState] at h
  | U f g _ _ | R f g _ _ => intro h; simp [isCTLState] at h
  | A f _ | E f _ => intro _; rfl

theorem stripQList_eq_map (fs : List Fm) : stripQ.stripQList fs = fs.map stripQ := by
  induction fs with
  | nil => rfl
  | cons f fs ih => simp [stripQ.stripQList, ih]

/-- after `_remove_state_subformulas`: a CTL state formula iff the input was a CTL* state formula -/
theorem isCTLState_stripQ (f : Fm) : isCTLState (stripQ f) = isCTLSState f := by
  induction f using Fm.induct' with
  | tt | ff | ap n => rfl
  | not f ih => simpa [stripQ, isCTLState, isCTLSState] using ih
  | or fs ih =>
    simp only [stripQ, isCTLState, isCTLSState, isCTLStateList_eq_all, isCTLSStateList_eq_all, stripQList_eq_map,
      List.all_map]
    exact all_congr_mem _ _ _ (fun f hf => ih f hf)
  | and fs ih =>
    simp only [stripQ, isCTLState, isCTLSState, isCTLStateList_eq_all, isCTLSStateList_eq_all, stripQList_eq_map,
      List.all_map]
    exact all_congr_mem _ _ _ (fun f hf => ih f hf)
  | imp f g ihf ihg => simp [stripQ, isCTLState, isCTLSState, ihf, ihg]
  | X f _ | F f _ | G f _ => simp [stripQ, isCTLState, isCTLSState]
  | U f g _ _ | R f g _ _ => simp [stripQ, isCTLState, isCTLSState]
  | A f _ | E f _ => simp [stripQ, isCTLState, isCTLSState]

theorem className_stripQ_temporal (f : Fm) : temporalRoot (stripQ f) = temporalRoot f := by
  cases f <;> rfl

/-- `_remove_state_subformulas` keeps CTL-module objects inside CTL -/
theorem isCTL_stripQ (f : Fm) (h : isCTL f = true) : isCTL (stripQ f) = true := by
  have key : ∀ g, isCTLState g = true → isCTLState (stripQ g) = true := fun g hg => by
    rw [isCTLState_stripQ]; exact isCTLSState_of_isCTLState g hg
  cases f with
  | X g | F g | G g => simp only [isCTL] at h; simpa [stripQ, isCTL] using key g h
  | U g1 g2 | R g1 g2 =>
    simp only [isCTL, Bool.and_eq_true] at h
    simpa [stripQ, isCTL] using ⟨key g1 h.1, key g2 h.2⟩
  | tt | ff | ap n => rfl
  | A g | E g => rfl
  | not g | or gs | and gs | imp g1 g2 =>
    exact isCTL_of_isCTLState _ (key _ (by simpa [isCTL] using h))

/-! ### guards: the LTL front end rejects exactly the non-path formulas -/

theorem toR_isSome_of_lnot (f : Fm) : (LTL.toR f.lnot).isSome = true → (LTL.toR f).isSome = true := by
  fun_induction lnot f
  · rename_i f ih
    intro h
    simpa [LTL.toR] using ih h
  · intro h; simpa [LTL.toR] using h
  · intro h; simpa [LTL.toR] using h

theorem isLTLPath_of_lnot (f : Fm) : f.lnot.isLTLPath = true → f.isLTLPath = true := by
  fun_induction lnot f
  · rename_i f ih
    intro h
    simpa [isLTLPath] using ih h
  · intro h; simpa [isLTLPath] using h
  · intro h; simpa [isLTLPath] using h

theorem toRList_isSome_iff (fs : List Fm) :
    (LTL.toR.toRList fs).isSome = true ↔ ∀ f ∈ fs, (LTL.toR f).isSome = true := by
  induction fs with
  | nil => simp [LTL.toR.toRList]
  | cons f fs ih => rw [LTL.toRList_isSome_cons, ih]; simp

theorem restrictList_eq_map (fs : List Fm) : restrict.restrictList fs = fs.map restrict := by
  induction fs with
  | nil => rfl
  | cons f fs ih => simp [restrict.restrictList, ih]

theorem restrictNegList_eq_map (fs : List Fm) :
    restrict.restrictNegList fs = fs.map (fun f => lnot (restrict f)) := by
  induction fs with
  | nil => rfl
  | cons f fs ih => simp [restrict.restrictNegList, ih]

/-- `_get_closure` accepts the rewritten formula only if the formula had no quantifier -/
theorem isLTLPath_of_toR_restrict (g : Fm) : (LTL.toR g.restrict).isSome = true → g.isLTLPath = true := by
  induction g using Fm.induct' with
  | tt | ff | ap n => intro _; rfl
  | not f ih =>
    intro h
    simp only [restrict] at h
    simpa [isLTLPath] using ih (toR_isSome_of_lnot _ h)
  | or fs ih =>
    intro h
    simp only [restrict, LTL.toR, Option.isSome_map, toRList_isSome_iff, restrictList_eq_map, List.mem_map,
      forall_exists_index, and_imp, forall_apply_eq_imp_iff₂] at h
    simp only [isLTLPath, isLTLPathList_eq_all, List.all_eq_true]
    exact fun f hf => ih f hf (h f hf)
  | and fs ih =>
    intro h
    simp only [restrict, LTL.toR, Option.isSome_map, toRList_isSome_iff, restrictNegList_eq_map, List.mem_map,
      forall_exists_index, and_imp, forall_apply_eq_imp_iff₂] at h
    simp only [isLTLPath, isLTLPathList_eq_all, List.all_eq_true]
    exact fun f hf => ih f hf (toR_isSome_of_lnot _ (h f hf))
  | imp f g ihf ihg =>
    intro h
    simp only [restrict, LTL.toR, Option.isSome_map, toRList_isSome_iff, List.mem_cons, List.not_mem_nil, or_false,
      forall_eq_or_imp, forall_eq] at h
    simp only [isLTLPath, Bool.and_eq_true]
    exact ⟨ihf (toR_isSome_of_lnot _ h.1), ihg h.2⟩
  | X f ih =>
    intro h
    simp only [restrict, LTL.toR, Option.isSome_map] at h
    simpa [isLTLPath] using ih h
  | F f ih =>
    intro h
    simp only [restrict, LTL.toR_U_isSome] at h
    simpa [isLTLPath] using ih h.2
  | G f ih =>
    intro h
    simp only [restrict, LTL.toR_not_isSome, LTL.toR_U_isSome] at h
    simpa [isLTLPath] using ih (toR_isSome_of_lnot _ h.2)
  | U f g ihf ihg =>
    intro h
    simp only [restrict, LTL.toR_U_isSome] at h
    simp only [isLTLPath, Bool.and_eq_true]
    exact ⟨ihf h.1, ihg h.2⟩
  | R f g ihf ihg =>
    intro h
    simp only [restrict, LTL.toR_not_isSome, LTL.toR_U_isSome] at h
    simp only [isLTLPath, Bool.and_eq_true]
    exact ⟨ihf (toR_isSome_of_lnot _ h.1), ihg (toR_isSome_of_lnot _ h.2)⟩
  | A f _ => intro h; simp [restrict, LTL.toR] at h
  | E f _ => intro h; simp [restrict, LTL.toR] at h

/-- the front end of `LTL.modelcheck` succeeds on `A g` exactly when `g` is an LTL path formula -/
theorem toR_front_iff (g : Fm) : (LTL.toR g.lnot.restrict).isSome = true ↔ g.isLTLPath = true :=
  ⟨fun h => isLTLPath_of_lnot _ (isLTLPath_of_toR_restrict _ h),
   fun h => LTL.toR_restrict_isSome _ (LTL.isLTLPath_lnot' g h)⟩

/-! ### the three guards with the reference table -/

theorem isLTL_of_isLTLPath (f : Fm) (h : isLTLPath f = true) : isLTL f = true := by
  rw [isLTLPath_eq, Bool.and_eq_true] at h
  exact h.1

theorem lnot_of_temporalRoot (g : Fm) (h : temporalRoot g = true) : g.lnot = .not g := by
  cases g <;> first | rfl | simp [temporalRoot] at h

/-- `CTL.modelcheck`: passes iff a Kripke structure and a CTL state formula -/
theorem guardCTL_eq (Mobj : Logic) (f : Fm) (k : Bool) (hb : Mobj = .CTL → isCTL f = true) :
    guardCTL refTable Mobj f k = if k && f.isCTLState then .ok () else .error .typeError := by
  unfold guardCTL
  rw [isSub_CTL_Formula, isSub_CTL_State, isCTLState_eq]
  have fin :
      (if (!temporalRoot f) = true then (if k = true then Except.ok () else Except.error Err.typeError)
        else (Except.error Err.typeError : Except Err Unit)) =
      if (k && (true && !temporalRoot f)) = true then .ok () else .error .typeError := by
    cases k <;> cases temporalRoot f <;> rfl
  cases hM : (Mobj == Logic.CTL)
  · simp only [Bool.false_eq_true, if_false, castTo]
    cases hc : isCTL f
    · obtain ⟨x, hx⟩ := build_not_ok .CTL .typeError f hc
      rw [hx]; simp
    · rw [(build_ok_iff .CTL .typeError f).mpr hc]
      exact fin
  · simp only [if_true]
    rw [hb (by simpa using hM)]
    exact fin

/-- `LTL.modelcheck` after the cast step, for an object of module `M` -/
def guardLTLBody (T : ClassTable) (M : Logic) (f : Fm) (kripke : Bool) : Except Err Unit :=
  if T.isSub (M, className f) (.CTLS, "A") then
    if kripke then
      match f with
      | .A g =>
        match construct T M g.lnot with
        | .error e => .error e
        | .ok () => if (LTL.toR g.lnot.restrict).isSome then .ok () else .error .typeError
      | _ => .error .typeError
    else .error .typeError
  else .error .typeError

theorem guardLTL_unfold (T : ClassTable) (Mobj : Logic) (f : Fm) (k : Bool) :
    guardLTL T Mobj f k =
      match (if (T.isSub (Mobj, className f) (.CTLS, "Formula") && !T.isSub (Mobj, className f) (.LTL, "Formula")) = true
              then castTo T Mobj .LTL f else Except.ok ()) with
      | .error _ => .error .typeError
      | .ok () =>
        guardLTLBody T
          (if (T.isSub (Mobj, className f) (.CTLS, "Formula") && !T.isSub (Mobj, className f) (.LTL, "Formula")) = true
            then .LTL else Mobj) f k := rfl

/-- `A` applied to an LTL path formula -/
def aLTLPath : Fm → Bool
  | .A g => g.isLTLPath
  | _ => false

/-- an LTL-module object passes iff a Kripke structure and `A g` (`g` is then an LTL path formula) -/
theorem guardLTLBody_LTL (f : Fm) (k : Bool) (hb : isLTL f = true) :
    guardLTLBody refTable .LTL f k = if k && aLTLPath f then .ok () else .error .typeError := by
  unfold guardLTLBody
  rw [isSub_CTLS_A _ _ (opIn_of_inLogic .LTL _ hb)]
  cases f with
  | A g =>
    cases k
    · simp
    · simp only [if_true, Bool.true_and, aLTLPath]
      have hg : isLTLPath g = true := by simpa [isLTL] using hb
      have h1 : construct refTable .LTL g.lnot = .ok () :=
        (build_ok_iff .LTL _ _).mpr (isLTL_of_isLTLPath _ (LTL.isLTLPath_lnot' g hg))
      rw [h1]
      simp [(toR_front_iff g).mpr hg, hg]
  | _ => simp [aLTLPath]

/-- a PL-module object is not a `CTLS.A` -/
theorem guardLTLBody_PL (f : Fm) (k : Bool) (hb : isPL f = true) :
    guardLTLBody refTable .PL f k = .error .typeError := by
  unfold guardLTLBody
  rw [isSub_CTLS_A _ _ (opIn_of_inLogic .PL _ hb)]
  cases f <;> first | rfl | simp [isPL] at hb

theorem aLTLPath_false_of_not_isLTL (f : Fm) (h : isLTL f = false) : aLTLPath f = false := by
  cases f <;> first | rfl | simpa [isLTL, aLTLPath] using h

/-- the cast step of `LTL.modelcheck` followed by the rest: passes iff a Kripke structure and `A g`, `g` an LTL path
    formula -/
theorem guardLTL_cast (M : Logic) (f : Fm) (k : Bool) :
    (match castTo refTable M .LTL f with
      | .error _ => (.error .typeError : Except Err Unit)
      | .ok () => guardLTLBody refTable .LTL f k) =
    if k && aLTLPath f then .ok () else .error .typeError := by
  cases hc : isLTL f
  · obtain ⟨x, hx⟩ := build_not_ok .LTL .typeError f hc
    rw [show castTo refTable M .LTL f = build refTable .LTL .typeError f from rfl, hx,
      aLTLPath_false_of_not_isLTL f hc]
    simp
  · rw [show castTo refTable M .LTL f = build refTable .LTL .typeError f from rfl,
      (build_ok_iff .LTL .typeError f).mpr hc]
    exact guardLTLBody_LTL f k hc

theorem guardLTL_eq' (Mobj : Logic) (f : Fm) (k : Bool) (hb : inLogic Mobj f = true) :
    guardLTL refTable Mobj f k = if k && (Mobj != .PL) && aLTLPath f then .ok () else .error .typeError := by
  have ho := opIn_of_inLogic _ _ hb
  rw [guardLTL_unfold, isSub_CTLS_Formula _ _ ho, isSub_LTL_Formula _ _ ho]
  cases Mobj with
  | PL => simpa using guardLTLBody_PL f k hb
  | CTL => simpa using guardLTL_cast .CTL f k
  | LTL => simpa using guardLTLBody_LTL f k hb
  | CTLS => simpa using guardLTL_cast .CTLS f k

/-- `LTL.modelcheck`: passes iff a Kripke structure and `A g`, `g` an LTL path formula, and the object is not a
    PL-module object (CTL- and CTLS-module objects are cast to LTL first; a PL-module object is not a `CTLS.A`) -/
theorem guardLTL_eq (Mobj : Logic) (f : Fm) (k : Bool) (hb : inLogic Mobj f = true) :
    guardLTL refTable Mobj f k =
      if k && (Mobj != .PL) && (match f with | .A g => g.isLTLPath | _ => false) then .ok () else .error .typeError := by
  rw [guardLTL_eq' Mobj f k hb]
  cases f <;> rfl

/-- `CTLS.modelcheck`: passes iff a Kripke structure and a CTL* state formula (PL-module objects are cast to CTL*) -/
theorem guardCTLS_eq (Mobj : Logic) (f : Fm) (k : Bool) (hb : inLogic Mobj f = true) :
    guardCTLS refTable Mobj f k = if k && f.isCTLSState then .ok () else .error .typeError := by
  unfold guardCTLS
  rw [isSub_CTLS_Formula _ _ (opIn_of_inLogic _ _ hb)]
  cases k
  · simp
  · cases Mobj with
    | PL =>
      have hc : castTo refTable .PL .CTLS f = .ok () := (build_ok_iff .CTLS _ f).mpr rfl
      simp only [bne_self_eq_false, Bool.not_false, if_true, hc, isSub_CTLS_Formula']
      rw [guardCTL_eq .CTLS (stripQ f) true (fun h => by cases h), isCTLState_stripQ]
    | CTL =>
      simp only [show (Logic.CTL != Logic.PL) = true from rfl, Bool.not_true, Bool.false_eq_true, if_false,
        isSub_CTLS_Formula _ _ (opIn_of_inLogic _ _ hb), if_true]
      rw [guardCTL_eq .CTL (stripQ f) true (fun _ => isCTL_stripQ f hb), isCTLState_stripQ]
    | LTL =>
      simp only [show (Logic.LTL != Logic.PL) = true from rfl, Bool.not_true, Bool.false_eq_true, if_false,
        isSub_CTLS_Formula _ _ (opIn_of_inLogic _ _ hb), if_true]
      rw [guardCTL_eq .LTL (stripQ f) true (fun h => by cases h), isCTLState_stripQ]
    | CTLS =>
      simp only [show (Logic.CTLS != Logic.PL) = true from rfl, Bool.not_true, Bool.false_eq_true, if_false,
        isSub_CTLS_Formula _ _ (opIn_of_inLogic _ _ hb), if_true]
      rw [guardCTL_eq .CTLS (stripQ f) true (fun h => by cases h), isCTLState_stripQ]

end PMC.Classes
