/-
  Helper lemmas for C08 (mixed-module constructor calls): `Classes.mixedOperands` / `Classes.constructMixed`.
  First for an arbitrary class table, then the look-ups of the reference table on an arbitrary operator *name*.
-/
import PMC.Proofs.Classes
namespace PMC.Classes
open PMC Fm

/-! ### any class table -/

/-- the operand loop succeeds iff every operand of a foreign module casts and every operand has the operand class -/
theorem mixedOperands_ok_iff (T : ClassTable) (M : Logic) (k : Cls) (cs : List (Logic × Fm)) :
    mixedOperands T M k cs = .ok () ↔
      ∀ c ∈ cs, (c.1 ≠ M → castTo T c.1 M c.2 = .ok ()) ∧ T.isSub (M, className c.2) k = true := by
  induction cs with
  | nil => simp [mixedOperands]
  | cons c cs ih =>
    obtain ⟨Mi, f⟩ := c
    simp only [mixedOperands, List.mem_cons, forall_eq_or_imp, ← ih]
    by_cases hM : Mi = M
    · subst hM
      simp only [beq_self_eq_true, if_true, ne_eq, not_true_eq_false, false_implies, true_and]
      cases T.isSub (Mi, className f) k <;> simp
    · have hb : (Mi == M) = false := by simpa using hM
      simp only [hb, Bool.false_eq_true, if_false, ne_eq, hM, not_false_eq_true, true_implies]
      cases hc : castTo T Mi M f with
      | error e => simp
      | ok u =>
        cases u
        cases T.isSub (M, className f) k <;> simp

/-- an exception of the operand loop is the exception of some cast, or the `TypeError` of the `isinstance` test -/
theorem mixedOperands_error (T : ClassTable) (M : Logic) (k : Cls) (cs : List (Logic × Fm)) (x : Err)
    (h : mixedOperands T M k cs = .error x) :
    x = .typeError ∨ ∃ c ∈ cs, c.1 ≠ M ∧ castTo T c.1 M c.2 = .error x := by
  induction cs with
  | nil => simp [mixedOperands] at h
  | cons c cs ih =>
    obtain ⟨Mi, f⟩ := c
    simp only [mixedOperands] at h
    by_cases hM : Mi = M
    · subst hM
      simp only [beq_self_eq_true, if_true] at h
      split at h
      · rcases ih h with h | ⟨c, hc, h⟩
        · exact Or.inl h
        · exact Or.inr ⟨c, List.mem_cons_of_mem _ hc, h⟩
      · injection h with h; exact Or.inl h.symm
    · have hb : (Mi == M) = false := by simpa using hM
      simp only [hb, Bool.false_eq_true, if_false] at h
      cases hc : castTo T Mi M f with
      | error e =>
        rw [hc] at h
        injection h with h
        subst h
        exact Or.inr ⟨(Mi, f), List.mem_cons_self, hM, hc⟩
      | ok u =>
        cases u
        rw [hc] at h
        simp only at h
        split at h
        · rcases ih h with h | ⟨c, hc, h⟩
          · exact Or.inl h
          · exact Or.inr ⟨c, List.mem_cons_of_mem _ hc, h⟩
        · injection h with h; exact Or.inl h.symm

theorem constructMixed_ok_iff_gen (T : ClassTable) (M : Logic) (op : String) (cs : List (Logic × Fm)) :
    constructMixed T M op cs = .ok () ↔
      T.inAlphabet M op = true ∧ ∃ k, T.operandKind M op = some k ∧
        ∀ c ∈ cs, (c.1 ≠ M → castTo T c.1 M c.2 = .ok ()) ∧ T.isSub (M, className c.2) k = true := by
  unfold constructMixed
  cases T.inAlphabet M op
  · simp
  · cases T.operandKind M op with
    | none => simp
    | some k => simp [mixedOperands_ok_iff]

/-- operands that are all objects of module `M` itself: the loop is the `isinstance` test of `node` -/
theorem mixedOperands_same (T : ClassTable) (M : Logic) (k : Cls) (cs : List (Logic × Fm))
    (hcs : ∀ c ∈ cs, c.1 = M) :
    mixedOperands T M k cs =
      if (cs.map (fun c => className c.2)).all (fun c => T.isSub (M, c) k) then .ok () else .error .typeError := by
  induction cs with
  | nil => rfl
  | cons c cs ih =>
    obtain ⟨Mi, f⟩ := c
    have hM : Mi = M := hcs (Mi, f) List.mem_cons_self
    subst hM
    simp only [mixedOperands, beq_self_eq_true, if_true, List.map_cons, List.all_cons,
      ih (fun c hc => hcs c (List.mem_cons_of_mem _ hc))]
    cases T.isSub (Mi, className f) k
    · simp
    · rfl

theorem constructMixed_same (T : ClassTable) (M : Logic) (op : String) (cs : List (Logic × Fm))
    (hcs : ∀ c ∈ cs, c.1 = M) :
    constructMixed T M op cs =
      if T.inAlphabet M op then node T M op (cs.map (fun c => className c.2)) else .error .attributeError := by
  unfold constructMixed node
  cases T.inAlphabet M op
  · rfl
  · cases T.operandKind M op with
    | none => rfl
    | some k => simp only [if_true]; exact mixedOperands_same T M k cs hcs

/-- `M.op(children)` on objects of `M` that were built without error is what `construct` does at the root -/
theorem constructMixed_eq_construct (T : ClassTable) (M : Logic) (g : Fm) (hg : isLeaf g = false)
    (hk : ∀ f ∈ children g, construct T M f = .ok ()) :
    constructMixed T M (className g) ((children g).map (fun f => (M, f))) = construct T M g := by
  rw [constructMixed_same T M _ _ (by simp), construct, build_step _ _ _ _ hg, inner.eq_def,
    (buildList_ok_iff T M _ _).mpr hk]
  simp [classNames, Function.comp_def]

/-! ### the reference table, on an arbitrary operator name -/

theorem find_alphabet (M : Logic) :
    refTable.alphabet.find? (fun e => e.1 == M) = some (M, refAlphabet M) := by
  cases M <;> rfl

theorem inAlphabet_ref_name (M : Logic) (op : String) :
    refTable.inAlphabet M op = (refAlphabet M).contains op := by
  unfold ClassTable.inAlphabet
  rw [find_alphabet]

/-- look-up in one module's block of `operand` -/
theorem find_block (M M' : Logic) (op : String) (g : String → Cls) (l : List String) :
    (l.map (fun c => ((M', c), g c))).find? (fun e => e.1 == (M, op)) =
      if M' = M ∧ l.contains op then some ((M, op), g op) else none := by
  induction l with
  | nil => simp
  | cons c l ih =>
    simp only [List.map_cons, List.find?_cons, ih, List.contains_cons]
    by_cases h : M' = M ∧ c = op
    · obtain ⟨rfl, rfl⟩ := h
      simp
    · have : ((M', c) == (M, op)) = false := by
        simp only [beq_eq_false_iff_ne, ne_eq, Prod.mk.injEq]; exact h
      rw [this]
      by_cases hM : M' = M
      · have hc : ¬ c = op := fun hc => h ⟨hM, hc⟩
        have hc' : (op == c) = false := by simpa using fun h' => hc h'.symm
        simp [hM, hc']
      · simp [hM]

theorem operandKind_ref_name (M : Logic) (op : String) :
    refTable.operandKind M op =
      if (refAlphabet M).contains op && !isLeafName op then some (refOperand M op) else none := by
  unfold ClassTable.operandKind
  have key : refTable.operand.find? (fun e => e.1 == (M, op)) =
      if (refAlphabet M).contains op && !isLeafName op then some ((M, op), refOperand M op) else none := by
    simp only [refTable, logics, List.find?_flatMap, List.findSome?_cons, List.findSome?_nil, find_block]
    have hf : ∀ M', ((refAlphabet M').filter (fun c => !isLeafName c)).contains op =
        ((refAlphabet M').contains op && !isLeafName op) := fun M' => by
      rw [Bool.eq_iff_iff]
      simp only [List.contains_iff_mem, List.mem_filter, Bool.and_eq_true]
    simp only [hf]
    cases M <;> simp <;> split <;> simp_all
  rw [key]
  cases ((refAlphabet M).contains op && !isLeafName op) <;> rfl

end PMC.Classes
