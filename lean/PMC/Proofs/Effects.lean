/-
  Helpers for C07 (PMC/Properties/C07.lean): algebra of the object store (`get?`/`set`/`alloc`), the store-passing
  `removeStateS` is the functional `removeState` on one object, and the frame / result lemmas of the three entry
  points.
-/
import PMC.Model.Effects
import Mathlib.Tactic
namespace PMC
namespace Store
variable {σ : Type}

/-! ### `lookup` / `update` -/

theorem lookup_isSome (l : List (Nat × Kripke σ)) (i : Nat) : (lookup l i).isSome ↔ i ∈ l.map Prod.fst := by
  induction l with
  | nil => simp [lookup]
  | cons p l ih =>
    simp only [lookup, List.map_cons, List.mem_cons]
    by_cases hp : p.1 = i
    · simp [hp]
    · simp only [hp, if_false, ih]
      constructor
      · exact Or.inr
      · rintro (h | h)
        · exact absurd h.symm hp
        · exact h

theorem map_fst_update (l : List (Nat × Kripke σ)) (i : Nat) (K : Kripke σ) :
    (update l i K).map Prod.fst = l.map Prod.fst := by
  induction l with
  | nil => rfl
  | cons p l ih =>
    simp only [update]
    split
    · rfl
    · simp [ih]

theorem lookup_update_self (l : List (Nat × Kripke σ)) (i : Nat) (K : Kripke σ) (hi : i ∈ l.map Prod.fst) :
    lookup (update l i K) i = some K := by
  induction l with
  | nil => simp at hi
  | cons p l ih =>
    simp only [update]
    by_cases hp : p.1 = i
    · simp [hp, lookup]
    · simp only [hp, if_false, lookup]
      apply ih
      simp only [List.map_cons, List.mem_cons] at hi
      rcases hi with h | h
      · exact absurd h.symm hp
      · exact h

theorem lookup_update_ne (l : List (Nat × Kripke σ)) (i j : Nat) (K : Kripke σ) (hj : j ≠ i) :
    lookup (update l i K) j = lookup l j := by
  induction l with
  | nil => rfl
  | cons p l ih =>
    simp only [update]
    by_cases hp : p.1 = i
    · have hij : ¬ i = j := fun h => hj h.symm
      simp [hp, lookup, hij]
    · simp only [hp, if_false, lookup, ih]

theorem update_update (l : List (Nat × Kripke σ)) (i : Nat) (K K' : Kripke σ) :
    update (update l i K) i K' = update l i K' := by
  induction l with
  | nil => rfl
  | cons p l ih =>
    simp only [update]
    by_cases hp : p.1 = i
    · simp [hp, update]
    · simp [hp, update, ih]

theorem update_lookup (l : List (Nat × Kripke σ)) (i : Nat) (K : Kripke σ) (h : lookup l i = some K) :
    update l i K = l := by
  induction l with
  | nil => rfl
  | cons p l ih =>
    simp only [update]
    by_cases hp : p.1 = i
    · simp only [lookup, hp, if_true, Option.some.injEq] at h
      rw [if_pos hp, ← h]
    · simp only [lookup, hp, if_false] at h
      simp [hp, ih h]

theorem update_not_mem (l : List (Nat × Kripke σ)) (i : Nat) (K : Kripke σ) (h : i ∉ l.map Prod.fst) :
    update l i K = l := by
  induction l with
  | nil => rfl
  | cons p l ih =>
    simp only [List.map_cons, List.mem_cons, not_or] at h
    simp only [update]
    rw [if_neg (fun hp => h.1 hp.symm), ih h.2]

theorem lookup_append_left (l l' : List (Nat × Kripke σ)) (i : Nat) (hi : i ∈ l.map Prod.fst) :
    lookup (l ++ l') i = lookup l i := by
  induction l with
  | nil => simp at hi
  | cons p l ih =>
    simp only [List.cons_append, lookup]
    by_cases hp : p.1 = i
    · simp [hp]
    · simp only [hp, if_false]
      apply ih
      simp only [List.map_cons, List.mem_cons] at hi
      rcases hi with h | h
      · exact absurd h.symm hp
      · exact h

theorem lookup_append_right (l l' : List (Nat × Kripke σ)) (i : Nat) (hi : i ∉ l.map Prod.fst) :
    lookup (l ++ l') i = lookup l' i := by
  induction l with
  | nil => rfl
  | cons p l ih =>
    simp only [List.map_cons, List.mem_cons, not_or] at hi
    simp only [List.cons_append, lookup]
    rw [if_neg (fun hp => hi.1 hp.symm), ih hi.2]

/-! ### the store operations -/

theorem mem_ids_iff (h : Store σ) (i : Nat) : i ∈ h.ids ↔ (h.get? i).isSome := (lookup_isSome h.objs i).symm

@[simp] theorem ids_set (h : Store σ) (i : Nat) (K : Kripke σ) : (h.set i K).ids = h.ids :=
  map_fst_update h.objs i K

@[simp] theorem next_set (h : Store σ) (i : Nat) (K : Kripke σ) : (h.set i K).next = h.next := rfl

theorem wf_set {h : Store σ} (hw : h.WF) (i : Nat) (K : Kripke σ) : (h.set i K).WF := by
  intro j hj; rw [ids_set] at hj; exact hw j hj

theorem get?_set_self (h : Store σ) (i : Nat) (K : Kripke σ) (hi : i ∈ h.ids) : (h.set i K).get? i = some K :=
  lookup_update_self h.objs i K hi

theorem get_set_self (h : Store σ) (i : Nat) (K : Kripke σ) (hi : i ∈ h.ids) : (h.set i K).get i = K := by
  simp [get, get?_set_self h i K hi]

theorem get?_set_ne (h : Store σ) (i j : Nat) (K : Kripke σ) (hj : j ≠ i) : (h.set i K).get? j = h.get? j :=
  lookup_update_ne h.objs i j K hj

theorem get_set_ne (h : Store σ) (i j : Nat) (K : Kripke σ) (hj : j ≠ i) : (h.set i K).get j = h.get j := by
  simp [get, get?_set_ne h i j K hj]

@[simp] theorem set_set (h : Store σ) (i : Nat) (K K' : Kripke σ) : (h.set i K).set i K' = h.set i K' := by
  simp [set, update_update]

/-- writing back the value that is already there changes nothing -/
@[simp] theorem set_get (h : Store σ) (i : Nat) : h.set i (h.get i) = h := by
  cases h with
  | mk objs next =>
    simp only [set, Store.mk.injEq, and_true]
    by_cases hi : i ∈ objs.map Prod.fst
    · obtain ⟨K, hK⟩ := Option.isSome_iff_exists.mp ((lookup_isSome objs i).mpr hi)
      have : (Store.mk objs next).get i = K := by simp [get, get?, hK]
      rw [this]; exact update_lookup objs i K hK
    · exact update_not_mem objs i _ hi

theorem get_eq_of_get? {h h' : Store σ} {i : Nat} (e : h'.get? i = h.get? i) : h'.get i = h.get i := by
  simp [get, e]

/-! ### allocation -/

@[simp] theorem ids_alloc (h : Store σ) (K : Kripke σ) : (h.alloc K).1.ids = h.ids ++ [h.next] := by
  simp [alloc, ids]

@[simp] theorem alloc_snd (h : Store σ) (K : Kripke σ) : (h.alloc K).2 = h.next := rfl

@[simp] theorem next_alloc (h : Store σ) (K : Kripke σ) : (h.alloc K).1.next = h.next + 1 := rfl

theorem wf_alloc {h : Store σ} (hw : h.WF) (K : Kripke σ) : (h.alloc K).1.WF := by
  intro j hj
  rw [ids_alloc, List.mem_append, List.mem_singleton] at hj
  rw [next_alloc]
  rcases hj with hj | rfl
  · exact Nat.lt_succ_of_lt (hw j hj)
  · exact Nat.lt_succ_self _

theorem next_not_mem {h : Store σ} (hw : h.WF) : h.next ∉ h.ids := fun hm => Nat.lt_irrefl _ (hw _ hm)

/-- allocation does not touch the existing objects -/
theorem get?_alloc_old (h : Store σ) (K : Kripke σ) (i : Nat) (hi : i ∈ h.ids) : (h.alloc K).1.get? i = h.get? i :=
  lookup_append_left h.objs _ i hi

/-- the fresh identity names the new object -/
theorem get?_alloc_new {h : Store σ} (hw : h.WF) (K : Kripke σ) : (h.alloc K).1.get? h.next = some K := by
  show lookup (h.objs ++ [(h.next, K)]) h.next = some K
  rw [lookup_append_right _ _ _ (next_not_mem hw)]
  simp [lookup]

theorem get_alloc_new {h : Store σ} (hw : h.WF) (K : Kripke σ) : (h.alloc K).1.get h.next = K := by
  simp [get, get?_alloc_new hw K]

theorem wf_empty : (empty : Store σ).WF := by intro i hi; simp [empty, ids] at hi

theorem wf_iff (h : Store σ) : h.wf = true ↔ h.WF := by
  simp [wf, WF]

variable [DecidableEq σ]

@[simp] theorem ids_addLabel (h : Store σ) (i : Nat) (a : String) (X : List σ) : (h.addLabel i a X).ids = h.ids :=
  ids_set _ _ _

end Store

/-! ### the store-passing recursion is the functional one on object `k` -/
namespace CTLS
open Store
variable {σ : Type} [DecidableEq σ]

theorem checkQS_spec (h : Store σ) (k : Nat) (hk : k ∈ h.ids) (b : Bool) (g : Fm) :
    checkQS h k b g = (h.set k (checkQ (h.get k) b g).1, (checkQ (h.get k) b g).2) := by
  unfold checkQS checkQ
  split
  · simp
  · split
    · simp
    · simp only [Store.addLabel, get_set_self h k _ hk]

/-- `removeStateS` on object `k` = `removeState` on the value of `k`, written back to `k`; nothing else changes -/
theorem removeStateS_spec (h : Store σ) (k : Nat) (f : Fm) (hk : k ∈ h.ids) :
    removeStateS h k f = (h.set k (removeState (h.get k) f).1, (removeState (h.get k) f).2) := by
  revert hk
  apply removeStateS.induct (k := k)
    (motive_1 := fun h fs => k ∈ h.ids → removeStateS.removeStateSList h k fs =
      (h.set k (removeState.removeStateList (h.get k) fs).1, (removeState.removeStateList (h.get k) fs).2))
    (motive_2 := fun h f => k ∈ h.ids →
      removeStateS h k f = (h.set k (removeState (h.get k) f).1, (removeState (h.get k) f).2))
  case case4 =>
    intro h g ih hk
    have hk' : k ∈ (h.set k (removeState (h.get k) g).1).ids := by rw [ids_set]; exact hk
    simp only [removeStateS, removeState, ih hk, checkQS_spec _ k hk', Store.addLabel, set_set,
      get_set_self h k _ hk]
  case case5 =>
    intro h g ih hk
    have hk' : k ∈ (h.set k (removeState (h.get k) g).1).ids := by rw [ids_set]; exact hk
    simp only [removeStateS, removeState, ih hk, checkQS_spec _ k hk', Store.addLabel, set_set,
      get_set_self h k _ hk]
  case case12 =>
    intro h f g r ih1 ih2 hk
    have hk' : k ∈ (h.set k (removeState (h.get k) f).1).ids := by rw [ids_set]; exact hk
    simp only [r, ih1 hk] at ih2
    simp only [removeStateS, removeState, ih1 hk, ih2 hk', set_set, get_set_self h k _ hk]
  case case13 =>
    intro h f g r ih1 ih2 hk
    have hk' : k ∈ (h.set k (removeState (h.get k) f).1).ids := by rw [ids_set]; exact hk
    simp only [r, ih1 hk] at ih2
    simp only [removeStateS, removeState, ih1 hk, ih2 hk', set_set, get_set_self h k _ hk]
  case case14 =>
    intro h f g r ih1 ih2 hk
    have hk' : k ∈ (h.set k (removeState (h.get k) f).1).ids := by rw [ids_set]; exact hk
    simp only [r, ih1 hk] at ih2
    simp only [removeStateS, removeState, ih1 hk, ih2 hk', set_set, get_set_self h k _ hk]
  case case16 =>
    intro h f fs r ih1 ih2 hk
    have hk' : k ∈ (h.set k (removeState (h.get k) f).1).ids := by rw [ids_set]; exact hk
    simp only [r, ih1 hk] at ih2
    simp only [removeStateS.removeStateSList, removeState.removeStateList, ih1 hk, ih2 hk', set_set,
      get_set_self h k _ hk]
  all_goals intros
  all_goals simp_all [removeStateS, removeState, removeStateS.removeStateSList, removeState.removeStateList]

end CTLS
end PMC
