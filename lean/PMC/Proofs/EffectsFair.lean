/-
  The store-passing fairness pipeline (PMC/Model/EffectsFair.lean) simulates the functional one (PMC/Model/Fair.lean)
  on the object it is run on, and writes nowhere else.

  `Sim h k x y`: the store-passing computation `x`, started in store `h` on object `k`, ends in `h` with object `k`
  overwritten by some value `K'` (all other objects as in `h` — also when `x` raises), its outcome is that of the
  functional computation `y`, and when `y` succeeds `K'` is the structure `y` returns.
-/
import PMC.Model.EffectsFair
import PMC.Proofs.Effects
import PMC.Proofs.RewriteCTL
namespace PMC
open Store
set_option linter.unusedSectionVars false
set_option linter.unusedTactic false
set_option linter.unnecessarySeqFocus false
set_option linter.unreachableTactic false
variable {σ : Type} [DecidableEq σ]

def Sim {α : Type} (h : Store σ) (k : Nat) (x : Store σ × Except Err α) (y : Except Err (Kripke σ × α)) : Prop :=
  ∃ K', x.1 = h.set k K' ∧ x.2 = y.map Prod.snd ∧ ∀ r, y = .ok r → K' = r.1

theorem Sim.pure {α : Type} (h : Store σ) (k : Nat) (a : α) : Sim h k (h, .ok a) (.ok (h.get k, a)) :=
  ⟨h.get k, (set_get h k).symm, rfl, fun r e => by cases e; rfl⟩

/-- sequencing: if `x` simulates `y` and the continuations simulate each other from every intermediate state, then
    `bindS x f` simulates any `z` that is `g r` when `y = .ok r` and the same exception when `y` raises -/
theorem Sim.bind {α β : Type} {h : Store σ} {k : Nat} {x : Store σ × Except Err α}
    {y : Except Err (Kripke σ × α)} {f : Store σ → α → Store σ × Except Err β}
    {z : Except Err (Kripke σ × β)} (g : Kripke σ × α → Except Err (Kripke σ × β)) (hxy : Sim h k x y)
    (hfg : ∀ r, y = .ok r → Sim (h.set k r.1) k (f (h.set k r.1) r.2) (g r))
    (hok : ∀ r, y = .ok r → z = g r) (herr : ∀ e, y = .error e → z = .error e) :
    Sim h k (bindS x f) z := by
  obtain ⟨K', e1, e2, e3⟩ := hxy
  cases y with
  | error e =>
    rw [herr e rfl]
    refine ⟨K', ?_, ?_, fun r hr => by cases hr⟩
    · simp only [bindS]; rw [e2]; exact e1
    · simp only [bindS]; rw [e2]; rfl
  | ok r =>
    rw [hok r rfl]
    obtain rfl := e3 r rfl
    obtain ⟨K'', f1, f2, f3⟩ := hfg r rfl
    have hx2 : x.2 = .ok r.2 := e2
    refine ⟨K'', ?_, ?_, f3⟩
    · simp only [bindS, hx2, e1]; rw [f1, set_set]
    · simp only [bindS, hx2, e1]; exact f2

namespace CTLS

theorem checkQFS_sim (fair : String) (h : Store σ) (k : Nat) (hk : k ∈ h.ids) (b : Bool) (g : Fm) :
    Sim h k (checkQFS fair h k b g) (checkQF fair (h.get k) b g) := by
  unfold checkQFS checkQF
  cases b
  · -- E
    simp only [Bool.false_eq_true, if_false]
    by_cases hc : (Fm.E g).isCTLState = true
    · simp only [hc, if_true]
      cases hn : Fair.nonFairCTL fair (.E g) with
      | ok f' => exact Sim.pure h k _
      | error e => exact ⟨h.get k, (set_get h k).symm, rfl, fun r e => by cases e⟩
    · simp only [hc]
      rw [removeStateS_spec h k _ hk]
      simp only [get_set_self h k _ hk]
      cases hC : CTL.modelcheck
          (removeState (h.get k) (Fm.lnot (.A (Fm.lnot (.and [.ap fair, Fair.nonFairCTLS fair g]))))).1
          (removeState (h.get k) (Fm.lnot (.A (Fm.lnot (.and [.ap fair, Fair.nonFairCTLS fair g]))))).2 with
      | ok S => exact ⟨_, rfl, rfl, fun r e => by cases e; rfl⟩
      | error e => exact ⟨_, rfl, rfl, fun r e => by cases e⟩
  · -- A
    simp only [↓reduceIte]
    by_cases hc : (Fm.A g).isCTLState = true
    · simp only [hc, if_true]
      cases hn : Fair.nonFairCTL fair (.A g) with
      | ok f' => exact Sim.pure h k _
      | error e => exact ⟨h.get k, (set_get h k).symm, rfl, fun r e => by cases e⟩
    · simp only [hc, Bool.false_eq_true, if_false]
      generalize LTL.modelcheck (h.get k) _ = e
      cases e with
      | ok S => exact Sim.pure h k S
      | error e => exact ⟨h.get k, (set_get h k).symm, rfl, fun r e => by cases e⟩

/-- quantifier case of the recursion, shared by `A` and `E` -/
theorem quant_sim (fair : String) (h : Store σ) (k : Nat) (hk : k ∈ h.ids) (b : Bool) (name : String)
    (x : Store σ × Except Err Fm) (y : Except Err (Kripke σ × Fm)) (hxy : Sim h k x y)
    (z : Except Err (Kripke σ × Fm))
    (hok : ∀ r, y = .ok r → z = match checkQF fair r.1 b r.2 with
         | .error e => .error e
         | .ok q => .ok (q.1.addLabel name q.2, Fm.ap name))
    (herr : ∀ e, y = .error e → z = .error e) :
    Sim h k
      (bindS x fun h1 g1 => bindS (checkQFS fair h1 k b g1) fun h2 S =>
        (h2.addLabel k name S, .ok (Fm.ap name))) z := by
  refine Sim.bind (fun r => match checkQF fair r.1 b r.2 with
         | .error e => .error e
         | .ok q => .ok (q.1.addLabel name q.2, Fm.ap name)) hxy (fun r _ => ?_) hok herr
  have hk' : k ∈ (h.set k r.1).ids := by rw [ids_set]; exact hk
  have hq := checkQFS_sim fair (h.set k r.1) k hk' b r.2
  rw [get_set_self h k _ hk] at hq
  refine Sim.bind (fun q => .ok (q.1.addLabel name q.2, Fm.ap name)) hq (fun q _ => ?_)
    (fun q hq => by rw [hq]) (fun e he => by rw [he] <;> rfl)
  refine ⟨q.1.addLabel name q.2, ?_, rfl, fun r' e => by cases e; rfl⟩
  simp only [Store.addLabel]
  rw [get_set_self _ k _ hk', set_set]

/-- a pure continuation after a simulated computation -/
theorem Sim.map {α β : Type} {h : Store σ} {k : Nat} (hk : k ∈ h.ids) {x : Store σ × Except Err α}
    {y : Except Err (Kripke σ × α)} (c : α → β) (hxy : Sim h k x y) (z : Except Err (Kripke σ × β))
    (hok : ∀ r, y = .ok r → z = .ok (r.1, c r.2)) (herr : ∀ e, y = .error e → z = .error e) :
    Sim h k (bindS x fun h1 a => (h1, .ok (c a))) z := by
  refine Sim.bind (fun r => .ok (r.1, c r.2)) hxy (fun r _ => ?_) hok herr
  have := Sim.pure (h.set k r.1) k (c r.2)
  rwa [get_set_self h k _ hk] at this

/-- two simulated computations in sequence, then a pure combination -/
theorem Sim.map2 {α β γ : Type} {h : Store σ} {k : Nat} (hk : k ∈ h.ids) {x : Store σ × Except Err α}
    {y : Except Err (Kripke σ × α)} (x' : Store σ → Store σ × Except Err β)
    (y' : Kripke σ → Except Err (Kripke σ × β)) (c : α → β → γ) (hxy : Sim h k x y)
    (hxy' : ∀ h', k ∈ h'.ids → Sim h' k (x' h') (y' (h'.get k)))
    (z : Except Err (Kripke σ × γ))
    (hok : ∀ r, y = .ok r → z = match y' r.1 with
      | .error e => .error e
      | .ok r' => .ok (r'.1, c r.2 r'.2))
    (herr : ∀ e, y = .error e → z = .error e) :
    Sim h k (bindS x fun h1 a => bindS (x' h1) fun h2 b => (h2, .ok (c a b))) z := by
  refine Sim.bind (fun r => match y' r.1 with
      | .error e => .error e
      | .ok r' => .ok (r'.1, c r.2 r'.2)) hxy (fun r _ => ?_) hok herr
  have hk' : k ∈ (h.set k r.1).ids := by rw [ids_set]; exact hk
  have h2 := hxy' (h.set k r.1) hk'
  rw [get_set_self h k _ hk] at h2
  exact Sim.map hk' (c r.2) h2 _ (fun r' hr' => by rw [hr']) (fun e he => by rw [he] <;> rfl)

/-- **the store-passing `_remove_state_subformulas(kripke, formula, fair_label)` on object `k` simulates the
    functional one on the value of `k` and writes to no other object** -/
theorem removeStateFS_sim (fair : String) (k : Nat) (f : Fm) :
    ∀ (h : Store σ), k ∈ h.ids → Sim h k (removeStateFS fair h k f) (removeStateF fair (h.get k) f) := by
  have hlist : ∀ fs : List Fm,
      (∀ f ∈ fs, ∀ (h : Store σ), k ∈ h.ids → Sim h k (removeStateFS fair h k f) (removeStateF fair (h.get k) f)) →
      ∀ (h : Store σ), k ∈ h.ids →
        Sim h k (removeStateFS.removeStateFSList fair h k fs) (removeStateF.removeStateFList fair (h.get k) fs) := by
    intro fs
    induction fs with
    | nil => intro _ h hk; exact Sim.pure h k _
    | cons f fs ihfs =>
      intro ih h hk
      simp only [removeStateFS.removeStateFSList, removeStateF.removeStateFList]
      exact Sim.map2 hk (fun h' => removeStateFS.removeStateFSList fair h' k fs)
        (fun K' => removeStateF.removeStateFList fair K' fs) (fun a b => a :: b)
        (ih f List.mem_cons_self h hk) (ihfs fun f' hf' => ih f' (List.mem_cons_of_mem _ hf')) _
        (fun r hr => by rw [hr] <;> (dsimp only; try (split <;> simp_all))) (fun e he => by rw [he] <;> rfl)
  induction f using Fm.induct' with
  | tt | ff | ap n => intro h hk; exact Sim.pure h k _
  | not f ih | X f ih | F f ih | G f ih =>
    intro h hk
    simp only [removeStateFS, removeStateF]
    exact Sim.map hk _ (ih h hk) _ (fun r hr => by rw [hr] <;> (dsimp only; try (split <;> simp_all))) (fun e he => by rw [he] <;> rfl)
  | or fs ih | and fs ih =>
    intro h hk
    simp only [removeStateFS, removeStateF]
    exact Sim.map hk _ (hlist fs ih h hk) _ (fun r hr => by rw [hr] <;> (dsimp only; try (split <;> simp_all))) (fun e he => by rw [he] <;> rfl)
  | imp f g ihf ihg | U f g ihf ihg | R f g ihf ihg =>
    intro h hk
    simp only [removeStateFS, removeStateF]
    exact Sim.map2 hk (fun h' => removeStateFS fair h' k g) (fun K' => removeStateF fair K' g) _
      (ihf h hk) ihg _ (fun r hr => by rw [hr] <;> (dsimp only; try (split <;> simp_all))) (fun e he => by rw [he] <;> rfl)
  | A g ih =>
    intro h hk
    simp only [removeStateFS, removeStateF]
    exact quant_sim fair h k hk true _ _ _ (ih h hk) _ (fun r hr => by rw [hr] <;> (dsimp only; try (split <;> simp_all))) (fun e he => by rw [he] <;> rfl)
  | E g ih =>
    intro h hk
    simp only [removeStateFS, removeStateF]
    exact quant_sim fair h k hk false _ _ _ (ih h hk) _ (fun r hr => by rw [hr] <;> (dsimp only; try (split <;> simp_all))) (fun e he => by rw [he] <;> rfl)

end CTLS

/-! ### the entry points -/

/-- what a call may do to the store: keep the allocator invariant, leave every pre-existing object as it was, and
    allocate at most the one identity `h.next` -/
def FrameOK (h h' : Store σ) : Prop :=
  h'.WF ∧ (∀ i ∈ h.ids, h'.get? i = h.get? i) ∧ (∀ i ∈ h'.ids, i ∈ h.ids ∨ i = h.next)

theorem FrameOK.refl {h : Store σ} (hw : h.WF) : FrameOK h h := ⟨hw, fun _ _ => rfl, fun _ hi => Or.inl hi⟩

/-- clone, then any number of writes to the clone -/
theorem FrameOK.clone_set {h : Store σ} (hw : h.WF) (K K' : Kripke σ) :
    FrameOK h ((h.alloc K).1.set h.next K') := by
  refine ⟨wf_set (wf_alloc hw _) _ _, fun i hi => ?_, fun i hi => ?_⟩
  · rw [get?_set_ne _ _ _ _ (fun e => next_not_mem hw (by rw [← e]; exact hi)), get?_alloc_old h _ i hi]
  · simpa using hi

/-- `label_fair_states` on a fresh clone: the clone becomes `labelFair` of the original value -/
theorem labelFairS_clone {h : Store σ} (hw : h.WF) (k : Nat) (F : List (List σ)) :
    ((h.alloc (h.get k)).1.labelFairS h.next F) =
      ((h.alloc (h.get k)).1.set h.next (Fair.labelFair (h.get k) F), Fair.fairLabel (h.get k)) := by
  simp only [labelFairS, Store.addLabel, get_alloc_new hw, Fair.labelFair]

theorem ctlFS_spec (h : Store σ) (hw : h.WF) (k : Nat) (F : Option (List (List σ))) (f : Fm) :
    FrameOK h (CTL.modelcheckFS h k F f).1 ∧ (CTL.modelcheckFS h k F f).2 = CTL.modelcheckF (h.get k) F f := by
  cases F with
  | none => exact ⟨FrameOK.refl hw, rfl⟩
  | some F =>
    have hc : h.next ∈ (h.alloc (h.get k)).1.ids := by simp
    simp only [CTL.modelcheckFS, CTL.modelcheckF, Store.clone, alloc_snd]
    by_cases hf : f.isCTLState = true
    · simp only [hf, if_true, labelFairS_clone hw]
      cases hn : Fair.nonFairCTL (Fair.fairLabel (h.get k)) f with
      | ok f' => exact ⟨FrameOK.clone_set hw _ _, by simp only [get_set_self _ _ _ hc]⟩
      | error e => exact ⟨FrameOK.clone_set hw _ _, rfl⟩
    · simp only [hf, Bool.false_eq_true, if_false, and_true]
      exact FrameOK.refl hw

theorem ltlFS_spec (h : Store σ) (hw : h.WF) (k : Nat) (F : Option (List (List σ))) (f : Fm) :
    FrameOK h (LTL.modelcheckFS h k F f).1 ∧ (LTL.modelcheckFS h k F f).2 = LTL.modelcheckF (h.get k) F f := by
  cases F with
  | none => exact ⟨FrameOK.refl hw, rfl⟩
  | some F =>
    have hc : h.next ∈ (h.alloc (h.get k)).1.ids := by simp
    cases f with
    | A g =>
      simp only [LTL.modelcheckFS, LTL.modelcheckF, Store.clone, alloc_snd, labelFairS_clone hw]
      cases hn : LTL.toR (Fm.and [.ap (Fair.fairLabel (h.get k)),
          Fair.nonFairCTLS (Fair.fairLabel (h.get k)) (g.lnot).restrict]) with
      | some r => exact ⟨FrameOK.clone_set hw _ _, by simp only [get_set_self _ _ _ hc]⟩
      | none => exact ⟨FrameOK.clone_set hw _ _, rfl⟩
    | _ => exact ⟨FrameOK.refl hw, rfl⟩

theorem ctlsFS_spec (h : Store σ) (hw : h.WF) (k : Nat) (F : Option (List (List σ))) (f : Fm) :
    FrameOK h (CTLS.modelcheckFS h k F f).1 ∧ (CTLS.modelcheckFS h k F f).2 = CTLS.modelcheckF (h.get k) F f := by
  cases F with
  | none =>
    have hc : h.next ∈ (h.alloc (h.get k)).1.ids := by simp
    refine ⟨?_, ?_⟩
    · show FrameOK h (CTLS.modelcheckS h k f).1
      simp only [CTLS.modelcheckS, Store.clone, alloc_snd]
      rw [CTLS.removeStateS_spec _ _ f hc]
      exact FrameOK.clone_set hw _ _
    · show (CTLS.modelcheckS h k f).2 = CTLS.modelcheck (h.get k) f
      simp only [CTLS.modelcheckS, Store.clone, alloc_snd, CTLS.modelcheck]
      rw [CTLS.removeStateS_spec _ _ f hc, get_alloc_new hw, get_set_self _ _ _ hc]
  | some F =>
    have hc : h.next ∈ (h.alloc (h.get k)).1.ids := by simp
    have hc' : h.next ∈ ((h.alloc (h.get k)).1.set h.next (Fair.labelFair (h.get k) F)).ids := by
      rw [ids_set]; exact hc
    simp only [CTLS.modelcheckFS, CTLS.modelcheckF, Store.clone, alloc_snd, labelFairS_clone hw]
    obtain ⟨K', e1, e2, e3⟩ := CTLS.removeStateFS_sim (Fair.fairLabel (h.get k)) h.next f _ hc'
    rw [set_set] at e1
    rw [get_set_self _ _ _ hc] at e2 e3
    cases hr : CTLS.removeStateF (Fair.fairLabel (h.get k)) (Fair.labelFair (h.get k) F) f with
    | error e =>
      rw [hr] at e2
      refine ⟨?_, ?_⟩
      · simp only [bindS]; rw [e2]; simp only [Except.map]; rw [e1]; exact FrameOK.clone_set hw _ _
      · simp only [bindS]; rw [e2]; rfl
    | ok r =>
      rw [hr] at e2
      obtain rfl := e3 r hr
      refine ⟨?_, ?_⟩
      · simp only [bindS]; rw [e2]; simp only [Except.map]; rw [e1]; exact FrameOK.clone_set hw _ _
      · simp only [bindS]; rw [e2]; simp only [Except.map]; rw [e1, get_set_self _ _ _ hc]

#print axioms CTLS.removeStateFS_sim
#print axioms ctlFS_spec
#print axioms ltlFS_spec
#print axioms ctlsFS_spec
end PMC
