/-
  Helper lemmas for C15 (PMC/Properties/C15.lean).

    * `fair_core`: over a relation whose targets lie in a finite list, a fair path from `s` exists iff `s` reaches a
      state `c` on a cycle whose mutual-reachability class meets every constraint;
    * `fair_filter`: the components kept by the corrected `is_a_fair_SCC` are those classes;
    * `fairStatesSpec_exact'`: the corrected `get_fair_states` computes the fair states;
    * `nonFairCTL_error`: the only exception the CTL rewriting can raise is TypeError.
-/
import PMC.Spec.Fair
import PMC.Model.Fair
import PMC.Proofs.CTLExact
import PMC.Proofs.LTLSound
import Mathlib.Tactic
namespace PMC.Fair
open PMC PMC.Graph Relation
variable {σ : Type}

/-! ### fair paths -/

/-- every suffix of a fair path is fair: along a fair path every state is a fair state -/
theorem FairPath.suffix {K : Kripke σ} {F : List (List σ)} {π : Nat → σ} (h : FairPath K F π) (k : Nat) :
    FairPath K F (fun i => π (k + i)) := by
  refine ⟨fun i => h.1 (k + i), fun P hP n => ?_⟩
  obtain ⟨m, hm, hmP⟩ := h.2 P hP (k + n)
  refine ⟨m - k, by omega, ?_⟩
  show π (k + (m - k)) ∈ P
  rw [show k + (m - k) = m by omega]; exact hmP

theorem FairPath.fairState {K : Kripke σ} {F : List (List σ)} {π : Nat → σ} (h : FairPath K F π) (k : Nat) :
    FairState K F (π k) :=
  ⟨_, FairPath.suffix h k, rfl⟩

/-! ### the abstract core -/

/-- representatives: one target per constraint, all on the cycle class of `c` -/
theorem exists_targets {R : σ → σ → Prop} {c : σ} (hcc : TransGen R c c) (F : List (List σ))
    (h : ∀ P ∈ F, ∃ y ∈ P, ReflTransGen R c y ∧ ReflTransGen R y c) :
    ∃ ts : List σ, (∀ t ∈ ts, TransGen R c t ∧ TransGen R t c) ∧ ∀ P ∈ F, ∃ y ∈ P, y ∈ ts := by
  induction F with
  | nil => exact ⟨[], by simp, by simp⟩
  | cons P F ih =>
    obtain ⟨ts, h1, h2⟩ := ih (fun Q hQ => h Q (List.mem_cons_of_mem _ hQ))
    obtain ⟨y, hyP, hcy, hyc⟩ := h P (by simp)
    refine ⟨y :: ts, ?_, ?_⟩
    · intro t ht
      rcases List.mem_cons.mp ht with rfl | ht
      · constructor
        · rcases reflTransGen_iff_eq_or_transGen.mp hcy with e | e
          · rw [e]; exact hcc
          · exact e
        · rcases reflTransGen_iff_eq_or_transGen.mp hyc with e | e
          · rw [← e]; exact hcc
          · exact e
      · exact h1 t ht
    · intro Q hQ
      rcases List.mem_cons.mp hQ with rfl | hQ
      · exact ⟨y, hyP, by simp⟩
      · obtain ⟨z, hz, hzt⟩ := h2 Q hQ
        exact ⟨z, hz, List.mem_cons_of_mem _ hzt⟩

/-- **fair-path core**: `l` is a finite list containing every target of `R` -/
theorem fair_core (R : σ → σ → Prop) (F : List (List σ)) (l : List σ) (hl : ∀ a b, R a b → b ∈ l) (s : σ) :
    (∃ π, Core.IsPath R π ∧ π 0 = s ∧ ∀ P ∈ F, ∀ n, ∃ m, n ≤ m ∧ π m ∈ P) ↔
    (∃ c, ReflTransGen R s c ∧ TransGen R c c ∧ ∀ P ∈ F, ∃ y ∈ P, ReflTransGen R c y ∧ ReflTransGen R y c) := by
  classical
  constructor
  · rintro ⟨π, hπ, h0, hfair⟩
    -- some state recurs infinitely often among π 1, π 2, …
    obtain ⟨⟨c, hcl⟩, hinf⟩ :=
      Finite.exists_infinite_fiber (fun i => (⟨π (i+1), hl _ _ (hπ i)⟩ : {x // x ∈ l}))
    have hrec : ∀ n, ∃ k, n < k ∧ π (k+1) = c := by
      intro n
      have hinf' := Set.infinite_coe_iff.mp hinf
      obtain ⟨k, hk, hnk⟩ := hinf'.exists_gt n
      exact ⟨k, hnk, by simpa using congrArg Subtype.val hk⟩
    obtain ⟨k0, _, hk0⟩ := hrec 0
    obtain ⟨k1, hk01, hk1⟩ := hrec k0
    refine ⟨c, ?_, ?_, ?_⟩
    · rw [← h0, ← hk0]; exact Core.path_reach hπ 0 (k0+1) (Nat.zero_le _)
    · have := Core.path_transgen hπ (k0+1) (k1+1) (by omega)
      rwa [hk0, hk1] at this
    · intro P hP
      obtain ⟨m, hm, hmP⟩ := hfair P hP (k0+1)
      obtain ⟨k2, hk2, hk2c⟩ := hrec m
      refine ⟨π m, hmP, ?_, ?_⟩
      · rw [← hk0]; exact Core.path_reach hπ (k0+1) m hm
      · rw [← hk2c]; exact Core.path_reach hπ m (k2+1) (by omega)
  · rintro ⟨c, hsc, hcc, hF⟩
    obtain ⟨ts, hts, hcov⟩ := exists_targets hcc F hF
    obtain ⟨l', hl', hmem⟩ := LTL.FinWalk.cover hcc ts hts
    obtain ⟨w, hw0, hwe, _, hwv, _⟩ := hl'.unroll
    have hwfair : ∀ P ∈ F, ∀ n, ∃ m, n ≤ m ∧ w m ∈ P := by
      intro P hP n
      obtain ⟨y, hyP, hyt⟩ := hcov P hP
      obtain ⟨j, hj, hwj⟩ := hwv y (hmem y hyt) n
      exact ⟨j, hj, by rw [hwj]; exact hyP⟩
    clear hF hcov hmem hts
    induction hsc using ReflTransGen.head_induction_on with
    | refl => exact ⟨w, hwe, hw0, hwfair⟩
    | @head a b hab _ ih =>
      obtain ⟨π, hπ, h0, hfair⟩ := ih
      refine ⟨fun n => Nat.casesOn n a π, ?_, rfl, ?_⟩
      · intro i
        cases i with
        | zero => simpa [Core.IsPath, h0] using hab
        | succ k => exact hπ k
      · intro P hP n
        obtain ⟨m, hm, hmP⟩ := hfair P hP n
        exact ⟨m+1, by omega, hmP⟩

variable [DecidableEq σ]

/-! ### the components kept by the corrected test -/

/-- the non-triviality test of `_checkEG` / of the corrected `is_a_fair_SCC`, over a successor function -/
def cycB (next : σ → List σ) (scc : List σ) : Bool :=
  match scc with
  | [] => false
  | v :: _ => decide (scc.length > 1) || decide (v ∈ next v)

theorem meetsAll_iff (F : List (List σ)) (C : List σ) :
    meetsAll F C = true ↔ ∀ P ∈ F, ∃ y ∈ P, y ∈ C := by
  simp only [meetsAll, List.all_eq_true, List.any_eq_true, decide_eq_true_eq]
  constructor
  · intro h P hP; obtain ⟨x, hx, hxP⟩ := h P hP; exact ⟨x, hxP, hx⟩
  · intro h P hP; obtain ⟨y, hy, hyC⟩ := h P hP; exact ⟨y, hyC, hy⟩

theorem fair_filter (nodes : List σ) (next : σ → List σ) (hcl : ∀ x ∈ nodes, ∀ w ∈ next x, w ∈ nodes)
    (hsrc : ∀ x y, y ∈ next x → x ∈ nodes) (F : List (List σ)) (c : σ) :
    c ∈ ((SCC.sccs nodes next).filter (fun scc => cycB next scc && meetsAll F scc)).flatten ↔
    (TransGen (Edge next) c c ∧ ∀ P ∈ F, ∃ y ∈ P, Reach next c y ∧ Reach next y c) := by
  obtain ⟨_, _, hmut⟩ := SCC.sccs_correct nodes (next := next) hcl
  have hcyc := CTL.cyc_filter nodes next hcl hsrc c
  have hmeet : ∀ C ∈ SCC.sccs nodes next, c ∈ C →
      (meetsAll F C = true ↔ ∀ P ∈ F, ∃ y ∈ P, Reach next c y ∧ Reach next y c) := by
    intro C hC hcC
    rw [meetsAll_iff]
    constructor
    · intro h P hP; obtain ⟨y, hyP, hyC⟩ := h P hP; exact ⟨y, hyP, (hmut C hC c hcC y).mp hyC⟩
    · intro h P hP; obtain ⟨y, hyP, hr⟩ := h P hP; exact ⟨y, hyP, (hmut C hC c hcC y).mpr hr⟩
  constructor
  · intro hc
    obtain ⟨C, hCf, hcC⟩ := List.mem_flatten.mp hc
    obtain ⟨hC, hcond⟩ := List.mem_filter.mp hCf
    rw [Bool.and_eq_true] at hcond
    refine ⟨hcyc.mp (List.mem_flatten.mpr ⟨C, List.mem_filter.mpr ⟨hC, hcond.1⟩, hcC⟩), ?_⟩
    exact (hmeet C hC hcC).mp hcond.2
  · rintro ⟨hcc, hF⟩
    obtain ⟨C, hCf, hcC⟩ := List.mem_flatten.mp (hcyc.mpr hcc)
    obtain ⟨hC, hcond⟩ := List.mem_filter.mp hCf
    refine List.mem_flatten.mpr ⟨C, List.mem_filter.mpr ⟨hC, ?_⟩, hcC⟩
    rw [Bool.and_eq_true]
    exact ⟨hcond, (hmeet C hC hcC).mpr hF⟩

/-! ### the Kripke graph -/

theorem kgraph_edge (K : Kripke σ) (hnd : K.states.Nodup) (a b : σ) :
    Edge K.graph.next a b ↔ (a ∈ K.states ∧ b ∈ K.succ a) := by
  show b ∈ K.graph.next a ↔ _
  rw [Graph.mem_next_iff_edge' K.graph (by rw [CTL.kgraph_nodes]; exact hnd), CTL.kgraph_edges]

theorem kgraph_closed (K : Kripke σ) (hK : K.WF) : Graph.Closed K.graph := by
  intro x hx w hw
  rw [CTL.kgraph_nodes] at hx ⊢
  exact hK.1 x hx w ((kgraph_edge K hK.2.2 x w).mp hw).2

/-- `reversed_nodes` without the (irrelevant) hypothesis that successor lists are duplicate-free -/
theorem reversed_nodes' (g : Graph σ) (hnd : g.nodes.Nodup) (hcl : Graph.Closed g) (v : σ) :
    v ∈ g.reversed.nodes ↔ v ∈ g.nodes := by
  unfold Graph.reversed
  rw [Graph.mk_nodes]
  constructor
  · rintro (hv | ⟨e, he, hv⟩)
    · exact hv
    · obtain ⟨⟨e1, e2⟩, he', rfl⟩ := List.mem_map.mp he
      rcases hv with rfl | rfl
      · exact Graph.eclosed_of_closed hnd hcl _ _ he'
      · exact Graph.edge_src he'
  · exact Or.inl

/-- on the components of the Kripke graph the corrected test is `cycB && meetsAll` -/
theorem isFairSCCSpec_eq (K : Kripke σ) (hK : K.WF) (F : List (List σ)) :
    K.graph.sccs.filter (isFairSCCSpec K F) =
    K.graph.sccs.filter (fun scc => cycB K.graph.next scc && meetsAll F scc) := by
  apply List.filter_congr
  intro C hC
  cases C with
  | nil => simp [isFairSCCSpec, cycB]
  | cons v rest =>
    have hv : v ∈ K.states := by
      have h1 := ((SCC.sccs_correct K.graph.nodes (next := K.graph.next) (kgraph_closed K hK)).2.1 v).mp
        (List.mem_flatten.mpr ⟨_, hC, List.mem_cons_self ..⟩)
      rwa [CTL.kgraph_nodes] at h1
    have : (v ∈ K.graph.next v) ↔ v ∈ K.succ v := by
      have := kgraph_edge K hK.2.2 v v
      unfold Edge at this
      rw [this]; exact ⟨fun h => h.2, fun h => ⟨hv, h⟩⟩
    simp only [isFairSCCSpec, cycB, this]

/-- **the corrected `get_fair_states` is exact** -/
theorem fairStatesSpec_exact' (K : Kripke σ) (hK : K.WF) (F : List (List σ)) (s : σ) :
    s ∈ fairStatesSpec K F ↔ s ∈ K.states ∧ FairState K F s := by
  unfold fairStatesSpec fairStatesWith
  extract_lets fset rg
  have hnd : K.graph.nodes.Nodup := by rw [CTL.kgraph_nodes]; exact hK.2.2
  have hcl := kgraph_closed K hK
  have wr : WFG rg := C13.reversed_wf _
  have nr : ∀ v, v ∈ rg.nodes ↔ v ∈ K.states := fun v => by
    rw [reversed_nodes' K.graph hnd hcl, CTL.kgraph_nodes]
  have hedge : Edge rg.next = Function.swap (Edge K.graph.next) := by
    funext a b
    apply propext
    show b ∈ rg.next a ↔ a ∈ K.graph.next b
    rw [C13.mem_next_iff_edge rg wr, C13.reversed_edges, Graph.mem_next_iff_edge' K.graph hnd]
  have hsrc : ∀ x y, y ∈ K.graph.next x → x ∈ K.graph.nodes := by
    intro x y hy
    rw [CTL.kgraph_nodes]
    exact ((kgraph_edge K hK.2.2 x y).mp hy).1
  have hT : ∀ c, c ∈ fset ↔ (TransGen (Edge K.graph.next) c c ∧
      ∀ P ∈ F, ∃ y ∈ P, Reach K.graph.next c y ∧ Reach K.graph.next y c) := by
    intro c
    show c ∈ (K.graph.sccs.filter (isFairSCCSpec K F)).flatten ↔ _
    rw [isFairSCCSpec_eq K hK F]
    exact fair_filter K.graph.nodes K.graph.next hcl hsrc F c
  have hTn : ∀ c ∈ fset, c ∈ rg.nodes := by
    intro c hc
    obtain ⟨d, hcd, _⟩ := TransGen.head'_iff.mp ((hT c).mp hc).1
    rw [nr]
    exact ((kgraph_edge K hK.2.2 c d).mp hcd).1
  rw [reachFromFn_exact rg.next rg.nodes fset wr.closed hTn]
  unfold Reach
  rw [hedge]
  simp only [reflTransGen_swap, hT]
  -- now: ∃ x, (cycle ∧ meets) ∧ s →* x   ↔   s ∈ states ∧ FairState
  have hcore := fair_core (Edge K.graph.next) F K.states
    (fun a b hab => by
      obtain ⟨ha, hb⟩ := (kgraph_edge K hK.2.2 a b).mp hab
      exact hK.1 a ha b hb) s
  constructor
  · rintro ⟨c, ⟨hcc, hF⟩, hsc⟩
    obtain ⟨π, hπ, h0, hfair⟩ := hcore.mpr ⟨c, hsc, hcc, hF⟩
    have hs : s ∈ K.states := by
      rw [← h0]; exact ((kgraph_edge K hK.2.2 _ _).mp (hπ 0)).1
    exact ⟨hs, π, ⟨fun i => ((kgraph_edge K hK.2.2 _ _).mp (hπ i)).2, hfair⟩, h0⟩
  · rintro ⟨hs, π, ⟨hπ, hfair⟩, h0⟩
    have hst := CTL.path_states K hK π hπ (by rw [h0]; exact hs)
    obtain ⟨c, hsc, hcc, hF⟩ := hcore.mp
      ⟨π, fun i => (kgraph_edge K hK.2.2 _ _).mpr ⟨hst i, hπ i⟩, h0, hfair⟩
    exact ⟨c, ⟨hcc, hF⟩, hsc⟩

/-! ### sanity of the specification: with no constraint the fair semantics is the ordinary one -/

omit [DecidableEq σ] in
theorem satFAny_iff (K : Kripke σ) (F : List (List σ)) (fs : List Fm) (π : Nat → σ) (i : Nat) :
    satF.satFAny K F fs π i ↔ ∃ f ∈ fs, satF K F f π i := by
  induction fs with
  | nil => simp [satF.satFAny]
  | cons f fs ih => simp [satF.satFAny, ih]

omit [DecidableEq σ] in
theorem satFAll_iff (K : Kripke σ) (F : List (List σ)) (fs : List Fm) (π : Nat → σ) (i : Nat) :
    satF.satFAll K F fs π i ↔ ∀ f ∈ fs, satF K F f π i := by
  induction fs with
  | nil => simp [satF.satFAll]
  | cons f fs ih => simp [satF.satFAll, ih]

omit [DecidableEq σ] in
theorem fairPath_nil (K : Kripke σ) (π : Nat → σ) : FairPath K [] π ↔ IsPath K π := by
  simp [FairPath]

omit [DecidableEq σ] in
/-- on a well-formed structure, along sequences of states of `K`, `⊨_[]` is `⊨` -/
theorem satF_nil (K : Kripke σ) (hK : K.WF) (f : Fm) :
    ∀ (π : Nat → σ) (i : Nat), (∀ j, π j ∈ K.states) → (satF K [] f π i ↔ sat K f π i) := by
  have hfs : ∀ s ∈ K.states, FairState K [] s := fun s hs => by
    obtain ⟨π, hπ, h0⟩ := CTL.exists_kpath K hK s hs
    exact ⟨π, (fairPath_nil K π).mpr hπ, h0⟩
  induction f using Fm.induct' with
  | tt => intro π i hπ; simp [satF, sat, hfs _ (hπ i)]
  | ff => intro π i _; simp [satF, sat]
  | ap n => intro π i hπ; simp [satF, sat, hfs _ (hπ i)]
  | not f ih => intro π i hπ; simp only [satF, sat, ih π i hπ]
  | or fs ih =>
    intro π i hπ
    simp only [satF, sat, satFAny_iff, satAny_iff]
    exact ⟨fun ⟨f, hf, h⟩ => ⟨f, hf, (ih f hf π i hπ).mp h⟩, fun ⟨f, hf, h⟩ => ⟨f, hf, (ih f hf π i hπ).mpr h⟩⟩
  | and fs ih =>
    intro π i hπ
    simp only [satF, sat, satFAll_iff, satAll_iff]
    exact ⟨fun h f hf => (ih f hf π i hπ).mp (h f hf), fun h f hf => (ih f hf π i hπ).mpr (h f hf)⟩
  | imp f g ihf ihg => intro π i hπ; simp only [satF, sat, ihf π i hπ, ihg π i hπ]
  | X f ih => intro π i hπ; simp only [satF, sat, ih π (i+1) hπ]
  | F f ih => intro π i hπ; simp only [satF, sat, fun j => ih π j hπ]
  | G f ih => intro π i hπ; simp only [satF, sat, fun j => ih π j hπ]
  | U f g ihf ihg => intro π i hπ; simp only [satF, sat, fun j => ihf π j hπ, fun j => ihg π j hπ]
  | R f g ihf ihg => intro π i hπ; simp only [satF, sat, fun j => ihf π j hπ, fun j => ihg π j hπ]
  | A f ih =>
    intro π i hπ
    simp only [satF, sat, fairPath_nil]
    constructor
    · intro h π' hp h0
      exact (ih π' 0 (CTL.path_states K hK π' hp (h0 ▸ hπ i))).mp (h π' hp h0)
    · intro h π' hp h0
      exact (ih π' 0 (CTL.path_states K hK π' hp (h0 ▸ hπ i))).mpr (h π' hp h0)
  | E f ih =>
    intro π i hπ
    simp only [satF, sat, fairPath_nil]
    constructor
    · rintro ⟨π', hp, h0, h⟩
      exact ⟨π', hp, h0, (ih π' 0 (CTL.path_states K hK π' hp (h0 ▸ hπ i))).mp h⟩
    · rintro ⟨π', hp, h0, h⟩
      exact ⟨π', hp, h0, (ih π' 0 (CTL.path_states K hK π' hp (h0 ▸ hπ i))).mpr h⟩

/-! ### the CTL rewriting raises nothing but TypeError -/

theorem nonFairCTL_error (fair : String) (f : Fm) (e : Err) (h : nonFairCTL fair f = .error e) :
    e = .typeError := by
  revert e
  apply nonFairCTL.induct fair
    (motive_1 := fun fs => ∀ e, nonFairCTL.nonFairCTLList fair fs = .error e → e = .typeError)
    (motive_2 := fun f => ∀ e, nonFairCTL fair f = .error e → e = .typeError)
  all_goals (intros; simp_all [nonFairCTL, nonFairCTL.nonFairCTLList]; try grind)

/-- `E(f1 R f2)` occurs somewhere in the formula -/
def hasER : Fm → Bool
  | .tt | .ff | .ap _ => false
  | .E (.R _ _) => true
  | .not f | .X f | .F f | .G f | .A f | .E f => hasER f
  | .or fs | .and fs => hasERList fs
  | .imp f g | .U f g | .R f g => hasER f || hasER g
where
  hasERList : List Fm → Bool
    | [] => false
    | f :: fs => hasER f || hasERList fs

theorem nonFairCTL_hasER_ne_ok (fair : String) (f : Fm) :
    hasER f = true → ∀ f', nonFairCTL fair f ≠ .ok f' := by
  apply nonFairCTL.induct fair
    (motive_1 := fun fs => hasER.hasERList fs = true → ∀ fs', nonFairCTL.nonFairCTLList fair fs ≠ .ok fs')
    (motive_2 := fun f => hasER f = true → ∀ f', nonFairCTL fair f ≠ .ok f')
  all_goals (intros; simp_all [nonFairCTL, nonFairCTL.nonFairCTLList, hasER, hasER.hasERList]; try grind)

theorem nonFairCTL_hasER (fair : String) (f : Fm) (h : hasER f = true) :
    nonFairCTL fair f = .error .typeError := by
  cases hr : nonFairCTL fair f with
  | error e => rw [nonFairCTL_error fair f e hr]
  | ok f' => exact absurd hr (nonFairCTL_hasER_ne_ok fair f h f')

end PMC.Fair
