/-
  Helper for C15General (PMC/Properties/C15General.lean): when every path (from a region `S` closed along paths) is
  fair for `F`, the fair semantics `satF K F` is the ordinary semantics `sat K` along the sequences that stay in `S`
  and from each position of which a path starts.  Generalises `satF_nil` (PMC/Proofs/Fair.lean), `F = []`.
-/
import PMC.Proofs.Fair
namespace PMC.Fair
open PMC
variable {σ : Type}

theorem satF_of_all_fair (K : Kripke σ) (F : List (List σ)) (S : σ → Prop)
    (hS : ∀ π, IsPath K π → S (π 0) → ∀ j, S (π j))
    (hF : ∀ π, IsPath K π → S (π 0) → FairPath K F π) (f : Fm) :
    ∀ (π : Nat → σ) (i : Nat), (∀ j, S (π j) ∧ ∃ ρ, IsPath K ρ ∧ ρ 0 = π j) →
      (satF K F f π i ↔ sat K f π i) := by
  have hfs : ∀ (π : Nat → σ), (∀ j, S (π j) ∧ ∃ ρ, IsPath K ρ ∧ ρ 0 = π j) → ∀ j, FairState K F (π j) := by
    intro π hπ j
    obtain ⟨hSj, ρ, hρ, h0⟩ := hπ j
    exact ⟨ρ, hF ρ hρ (h0 ▸ hSj), h0⟩
  have hpath : ∀ (π : Nat → σ) (i : Nat) (π' : Nat → σ), S (π i) → IsPath K π' → π' 0 = π i →
      ∀ j, S (π' j) ∧ ∃ ρ, IsPath K ρ ∧ ρ 0 = π' j := by
    intro π i π' hSi hp h0 j
    refine ⟨hS π' hp (h0 ▸ hSi) j, fun k => π' (j + k), fun k => ?_, rfl⟩
    show π' (j + (k + 1)) ∈ K.succ (π' (j + k))
    exact hp (j + k)
  have hfp : ∀ (π : Nat → σ) (i : Nat) (π' : Nat → σ), S (π i) → π' 0 = π i → (FairPath K F π' ↔ IsPath K π') :=
    fun π i π' hSi h0 => ⟨fun h => h.1, fun h => hF π' h (h0 ▸ hSi)⟩
  induction f using Fm.induct' with
  | tt => intro π i hπ; simp [satF, sat, hfs π hπ i]
  | ff => intro π i _; simp [satF, sat]
  | ap n => intro π i hπ; simp [satF, sat, hfs π hπ i]
  | not f ih => intro π i hπ; simp only [satF, sat, ih π i hπ]
  | or fs ih =>
    intro π i hπ
    simp only [satF, sat, satFAny_iff, satAny_iff]
    exact ⟨fun ⟨f, hf, h⟩ => ⟨f, hf, (ih f hf π i hπ).mp h⟩, fun ⟨f, hf, h⟩ => ⟨f, hf, (ih f hf π i hπ).mpr h⟩⟩
  | and fs ih =>
    intro π i hπ
    simp only [satF, sat, satFAll_iff, satAll_iff]
    exact ⟨fun h f hf => (ih f hf π i hπ).mp (h f hf), fun h f hf => (ih f hf π i hπ).mpr (h f hf)⟩
  | imp f g ihf ihg => intro π i hπ; simp only [satF, sat, ihf π i hπ, ihg π i hπ]
  | X f ih => intro π i hπ; simp only [satF, sat, ih π (i+1) hπ]
  | F f ih => intro π i hπ; simp only [satF, sat, fun j => ih π j hπ]
  | G f ih => intro π i hπ; simp only [satF, sat, fun j => ih π j hπ]
  | U f g ihf ihg => intro π i hπ; simp only [satF, sat, fun j => ihf π j hπ, fun j => ihg π j hπ]
  | R f g ihf ihg => intro π i hπ; simp only [satF, sat, fun j => ihf π j hπ, fun j => ihg π j hπ]
  | A f ih =>
    intro π i hπ
    simp only [satF, sat]
    constructor
    · intro h π' hp h0
      exact (ih π' 0 (hpath π i π' (hπ i).1 hp h0)).mp (h π' ((hfp π i π' (hπ i).1 h0).mpr hp) h0)
    · intro h π' hp h0
      have hp' := (hfp π i π' (hπ i).1 h0).mp hp
      exact (ih π' 0 (hpath π i π' (hπ i).1 hp' h0)).mpr (h π' hp' h0)
  | E f ih =>
    intro π i hπ
    simp only [satF, sat]
    constructor
    · rintro ⟨π', hp, h0, h⟩
      have hp' := (hfp π i π' (hπ i).1 h0).mp hp
      exact ⟨π', hp', h0, (ih π' 0 (hpath π i π' (hπ i).1 hp' h0)).mp h⟩
    · rintro ⟨π', hp, h0, h⟩
      exact ⟨π', (hfp π i π' (hπ i).1 h0).mpr hp, h0, (ih π' 0 (hpath π i π' (hπ i).1 hp h0)).mpr h⟩

#print axioms satF_of_all_fair
end PMC.Fair
