/-
  Helper lemmas for the formula API (PMC/Model/FormulaApi.lean) over the reference class table: one round of the
  operand loop (`wrap1`), the look-up of the constructor (`header`), one- and two-operand constructor calls.
-/
import PMC.Model.FormulaApi
import PMC.Proofs.ClassesMixed
namespace PMC.FormulaApi
open PMC Fm Classes

/-- the operand is a genuine object: its tree is a formula of the module it was built in -/
def Operand.wellBuilt : Operand → Prop
  | .obj M f => inLogic M f = true
  | _ => True

/-- a `str` / `bool` shorthand -/
def Operand.isShorthand : Operand → Bool
  | .str _ | .bool _ => true
  | _ => false

/-- the tests the constructor of the root of `g` (module `M`) applies to the operand: the cast of a foreign object, the
    `isinstance` test of an object or of the leaf a shorthand stands for -/
def accepts (M : Logic) (g : Fm) : Operand → Bool
  | .obj Mi f => (Mi == M || inLogic M f) && childOK M g f
  | .str n => childOK M g (.ap n)
  | .bool b => childOK M g (boolFm b)
  | .base | .other => false

theorem isLeaf_eq (f : Fm) : FormulaApi.isLeaf f = Classes.isLeaf f := by cases f <;> rfl

theorem kids_eq_children (f : Fm) : kids f = Classes.children f := by cases f <;> rfl

theorem boolFm_leaf (b : Bool) : Classes.isLeaf (boolFm b) = true := by cases b <;> rfl

theorem tree_leaf_of_shorthand (a : Operand) (x : Fm) (ha : a.isShorthand = true) (hx : a.tree? = some x) :
    Classes.isLeaf x = true := by
  cases a with
  | str n => injection hx with hx; subst hx; rfl
  | bool b => injection hx with hx; subst hx; exact boolFm_leaf b
  | _ => simp [Operand.isShorthand] at ha

/-! ### `header` -/

theorem header_ref (M : Logic) (g : Fm) (hg : Classes.isLeaf g = false) :
    header refTable M (className g) =
      if opIn M g then .ok (refOperand M (className g)) else .error .attributeError := by
  unfold header
  rw [inAlphabet_ref, operandKind_ref M g hg]
  cases opIn M g <;> rfl

/-! ### `wrap1` -/

theorem leaf_bool (M : Logic) : leaf refTable M "Bool" = .ok () := by cases M <;> rfl
theorem leaf_ap (M : Logic) : leaf refTable M "AtomicProposition" = .ok () := by cases M <;> rfl

theorem wrap1_obj (T : ClassTable) (M : Logic) (k : Cls) (Mi : Logic) (f : Fm) :
    wrap1 T M k (.obj Mi f) =
      match mixedOperands T M k [(Mi, f)] with
      | .ok () => .ok f
      | .error e => .error e := rfl

theorem wrap1_obj_ok_iff (M : Logic) (g : Fm) (Mi : Logic) (f t : Fm) :
    wrap1 refTable M (refOperand M (className g)) (.obj Mi f) = .ok t ↔
      t = f ∧ accepts M g (.obj Mi f) = true := by
  have key : mixedOperands refTable M (refOperand M (className g)) [(Mi, f)] = .ok () ↔
      accepts M g (.obj Mi f) = true := by
    rw [mixedOperands_ok_iff]
    simp only [List.mem_singleton, forall_eq, accepts, Bool.and_eq_true, Bool.or_eq_true, beq_iff_eq, isSub_ref]
    have hc : castTo refTable Mi M f = .ok () ↔ inLogic M f = true := build_ok_iff M _ f
    rw [hc]
    constructor
    · rintro ⟨h1, h2⟩
      exact ⟨(by by_cases h : Mi = M; exact Or.inl h; exact Or.inr (h1 h)), h2⟩
    · rintro ⟨h1 | h1, h2⟩
      · exact ⟨fun h => absurd h1 h, h2⟩
      · exact ⟨fun _ => h1, h2⟩
  rw [wrap1_obj]
  cases hm : mixedOperands refTable M (refOperand M (className g)) [(Mi, f)] with
  | ok u =>
    cases u
    have := key.mp hm
    simp only [Except.ok.injEq, this, and_true]
    exact eq_comm
  | error e =>
    have : ¬ accepts M g (.obj Mi f) = true := fun h => by rw [key.mpr h] at hm; cases hm
    simp [this]

/-- one round of the loop succeeds iff the operand stands for a tree and passes the tests -/
theorem wrap1_ref (M : Logic) (g : Fm) (a : Operand) (t : Fm) :
    wrap1 refTable M (refOperand M (className g)) a = .ok t ↔ a.tree? = some t ∧ accepts M g a = true := by
  cases a with
  | obj Mi f =>
    rw [wrap1_obj_ok_iff]
    simp only [Operand.tree?, Option.some.injEq]
    exact and_congr_left' eq_comm
  | str n =>
    have h := isSub_ref M g (.ap n)
    rw [show className (.ap n) = "AtomicProposition" from rfl] at h
    simp only [wrap1, leaf_ap, h, Operand.tree?, accepts, Option.some.injEq]
    cases childOK M g (.ap n) <;> simp
  | bool b =>
    have h := isSub_ref M g (boolFm b)
    rw [show className (boolFm b) = "Bool" by cases b <;> rfl] at h
    simp only [wrap1, leaf_bool, h, Operand.tree?, accepts, Option.some.injEq]
    cases childOK M g (boolFm b) <;> simp
  | base => simp [wrap1, Operand.tree?]
  | other => simp [wrap1, Operand.tree?]

/-- the exceptions of one round: `TypeError`, or `AttributeError` for an object without `__desc__` -/
theorem wrap1_error (M : Logic) (k : Cls) (a : Operand) (e : Err) (h : wrap1 refTable M k a = .error e) :
    e = .typeError ∨ (e = .attributeError ∧ a = .other) := by
  cases a with
  | obj Mi f =>
    rw [wrap1_obj] at h
    cases hm : mixedOperands refTable M k [(Mi, f)] with
    | ok u => cases u; rw [hm] at h; cases h
    | error x =>
      rw [hm] at h
      injection h with h
      subst h
      rcases mixedOperands_error _ _ _ _ _ hm with h | ⟨c, _, _, hc⟩
      · exact Or.inl h
      · rcases build_error M .typeError c.2 x hc with h | h <;> exact Or.inl h
  | str n =>
    simp only [wrap1, leaf_ap] at h
    split at h
    · cases h
    · injection h with h; exact Or.inl h.symm
  | bool b =>
    simp only [wrap1, leaf_bool] at h
    split at h
    · cases h
    · injection h with h; exact Or.inl h.symm
  | base => simp only [wrap1, Except.error.injEq] at h; exact Or.inl h.symm
  | other => simp only [wrap1, Except.error.injEq] at h; exact Or.inr ⟨h.symm, rfl⟩

/-! ### constructor calls; `g` is any tree with the root the call builds (only its root class matters) -/

theorem accepts_congr (M : Logic) (g g' : Fm) (h : quantRoot g = quantRoot g') (a : Operand) :
    accepts M g a = accepts M g' a := by
  cases a with
  | obj Mi f => cases M <;> simp [accepts, childOK, h]
  | str n => cases M <;> simp [accepts, childOK, h]
  | bool b => cases M <;> simp [accepts, childOK, h]
  | _ => rfl

theorem build1_ref (M : Logic) (g : Fm) (hg : Classes.isLeaf g = false) (mk : Fm → Fm) (a : Operand) (t : Fm) :
    build1 refTable M (className g) mk a = .ok t ↔
      opIn M g = true ∧ ∃ x, a.tree? = some x ∧ accepts M g a = true ∧ t = mk x := by
  unfold build1
  rw [header_ref M g hg]
  cases opIn M g
  · simp
  · simp only [if_true, true_and]
    cases hw : wrap1 refTable M (refOperand M (className g)) a with
    | error e =>
      have : ∀ x, ¬ (a.tree? = some x ∧ accepts M g a = true) := fun x hx => by
        rw [(wrap1_ref M g a x).mpr hx] at hw; cases hw
      simp only [reduceCtorEq, false_iff, not_exists, not_and]
      exact fun x h1 h2 _ => this x ⟨h1, h2⟩
    | ok x =>
      obtain ⟨h1, h2⟩ := (wrap1_ref M g a x).mp hw
      simp only [Except.ok.injEq, h1, Option.some.injEq, h2, true_and, exists_eq_left']
      exact eq_comm

theorem build2_ref (M : Logic) (g : Fm) (hg : Classes.isLeaf g = false) (mk : Fm → Fm → Fm) (a b : Operand) (t : Fm) :
    build2 refTable M (className g) mk a b = .ok t ↔
      opIn M g = true ∧ ∃ x y, a.tree? = some x ∧ b.tree? = some y ∧ accepts M g a = true ∧ accepts M g b = true ∧
        t = mk x y := by
  unfold build2
  rw [header_ref M g hg]
  cases opIn M g
  · simp
  · simp only [if_true, true_and]
    cases hw : wrap1 refTable M (refOperand M (className g)) a with
    | error e =>
      have : ∀ x, ¬ (a.tree? = some x ∧ accepts M g a = true) := fun x hx => by
        rw [(wrap1_ref M g a x).mpr hx] at hw; cases hw
      simp only [reduceCtorEq, false_iff, not_exists, not_and]
      exact fun x y h1 _ h2 _ _ => this x ⟨h1, h2⟩
    | ok x =>
      obtain ⟨h1, h2⟩ := (wrap1_ref M g a x).mp hw
      simp only
      cases hw' : wrap1 refTable M (refOperand M (className g)) b with
      | error e =>
        have : ∀ y, ¬ (b.tree? = some y ∧ accepts M g b = true) := fun y hy => by
          rw [(wrap1_ref M g b y).mpr hy] at hw'; cases hw'
        simp only [reduceCtorEq, false_iff, not_exists, not_and]
        exact fun x y _ h3 _ h4 _ => this y ⟨h3, h4⟩
      | ok y =>
        obtain ⟨h3, h4⟩ := (wrap1_ref M g b y).mp hw'
        simp only [Except.ok.injEq, h1, Option.some.injEq, h3, h2, h4, true_and, exists_eq_left', exists_and_left]
        exact eq_comm

theorem header_error (M : Logic) (g : Fm) (hg : Classes.isLeaf g = false) (e : Err)
    (h : header refTable M (className g) = .error e) : opIn M g = false ∧ e = .attributeError := by
  rw [header_ref M g hg] at h
  cases ho : opIn M g
  · rw [ho] at h; simp only [Bool.false_eq_true, if_false, Except.error.injEq] at h; exact ⟨rfl, h.symm⟩
  · rw [ho] at h; cases h

/-- exceptions of a one-operand call: the class is missing (`AttributeError`), or the operand's round fails -/
theorem build1_error (M : Logic) (g : Fm) (hg : Classes.isLeaf g = false) (mk : Fm → Fm) (a : Operand) (e : Err)
    (h : build1 refTable M (className g) mk a = .error e) :
    (opIn M g = false ∧ e = .attributeError) ∨ e = .typeError ∨ (e = .attributeError ∧ a = .other) := by
  unfold build1 at h
  cases hh : header refTable M (className g) with
  | error x =>
    rw [hh] at h
    injection h with h
    subst h
    exact Or.inl (header_error M g hg _ hh)
  | ok k =>
    rw [hh] at h
    simp only at h
    cases hw : wrap1 refTable M k a with
    | error x =>
      rw [hw] at h
      injection h with h
      subst h
      exact Or.inr (wrap1_error M k a _ hw)
    | ok x => rw [hw] at h; cases h

theorem build2_error (M : Logic) (g : Fm) (hg : Classes.isLeaf g = false) (mk : Fm → Fm → Fm) (a b : Operand) (e : Err)
    (h : build2 refTable M (className g) mk a b = .error e) :
    (opIn M g = false ∧ e = .attributeError) ∨ e = .typeError ∨
      (e = .attributeError ∧ (a = .other ∨ b = .other)) := by
  unfold build2 at h
  cases hh : header refTable M (className g) with
  | error x =>
    rw [hh] at h
    injection h with h
    subst h
    exact Or.inl (header_error M g hg _ hh)
  | ok k =>
    rw [hh] at h
    simp only at h
    cases hw : wrap1 refTable M k a with
    | error x =>
      rw [hw] at h
      injection h with h
      subst h
      rcases wrap1_error M k a _ hw with h | ⟨h1, h2⟩
      · exact Or.inr (Or.inl h)
      · exact Or.inr (Or.inr ⟨h1, Or.inl h2⟩)
    | ok x =>
      rw [hw] at h
      simp only at h
      cases hw' : wrap1 refTable M k b with
      | error y =>
        rw [hw'] at h
        injection h with h
        subst h
        rcases wrap1_error M k b _ hw' with h | ⟨h1, h2⟩
        · exact Or.inr (Or.inl h)
        · exact Or.inr (Or.inr ⟨h1, Or.inr h2⟩)
      | ok y => rw [hw'] at h; cases h

/-! ### acceptance in terms of the syntactic classes -/

/-- for a genuine object or a shorthand: "passes the tests" is "is a formula of `M` with the operand class" -/
theorem accepts_wellBuilt (M : Logic) (g : Fm) (a : Operand) (x : Fm) (hw : a.wellBuilt) (hx : a.tree? = some x) :
    accepts M g a = (inLogic M x && childOK M g x) := by
  cases a with
  | obj Mi f =>
    injection hx with hx
    subst hx
    simp only [accepts]
    by_cases h : Mi = M
    · subst h
      have : inLogic Mi f = true := hw
      simp [this]
    · have : (Mi == M) = false := by simpa using h
      simp [this]
  | str n =>
    injection hx with hx
    subst hx
    rw [inLogic_leaf M _ rfl]
    rfl
  | bool b =>
    injection hx with hx
    subst hx
    rw [inLogic_leaf M _ (boolFm_leaf b)]
    rfl
  | base => cases hx
  | other => cases hx

/-- a shorthand is treated like the leaf object of the constructor's own module -/
theorem wrap1_str_as_object (M : Logic) (k : Cls) (n : String) :
    wrap1 refTable M k (.str n) = wrap1 refTable M k (.obj M (.ap n)) := by
  simp only [wrap1, leaf_ap, mixedOperands, beq_self_eq_true, if_true, className]
  by_cases h : refTable.isSub (M, "AtomicProposition") k = true <;> simp [h]

theorem wrap1_bool_as_object (M : Logic) (k : Cls) (b : Bool) :
    wrap1 refTable M k (.bool b) = wrap1 refTable M k (.obj M (boolFm b)) := by
  have hc : className (boolFm b) = "Bool" := by cases b <;> rfl
  simp only [wrap1, leaf_bool, mixedOperands, beq_self_eq_true, if_true, hc]
  by_cases h : refTable.isSub (M, "Bool") k = true <;> simp [h]

/-! ### the ranked constructors -/

theorem Un.isLeaf_mk (u : Un) (x : Fm) : Classes.isLeaf (u.mk x) = false := by cases u <;> rfl
theorem Un.className_mk (u : Un) (x : Fm) : className (u.mk x) = u.name := by cases u <;> rfl
theorem Un.children_mk (u : Un) (x : Fm) : children (u.mk x) = [x] := by cases u <;> rfl
theorem Un.opIn_mk (M : Logic) (u : Un) (x y : Fm) : opIn M (u.mk x) = opIn M (u.mk y) := by cases u <;> cases M <;> rfl
theorem Un.childOK_mk (M : Logic) (u : Un) (x y z : Fm) : childOK M (u.mk x) z = childOK M (u.mk y) z := by
  cases u <;> cases M <;> rfl

theorem Bin.isLeaf_mk (c : Bin) (x y : Fm) : Classes.isLeaf (c.mk x y) = false := by cases c <;> rfl
theorem Bin.className_mk (c : Bin) (x y : Fm) : className (c.mk x y) = c.name := by cases c <;> rfl
theorem Bin.children_mk (c : Bin) (x y : Fm) : children (c.mk x y) = [x, y] := by cases c <;> rfl
theorem Bin.opIn_mk (M : Logic) (c : Bin) (x y x' y' : Fm) : opIn M (c.mk x y) = opIn M (c.mk x' y') := by
  cases c <;> cases M <;> rfl
theorem Bin.childOK_mk (M : Logic) (c : Bin) (x y x' y' z : Fm) :
    childOK M (c.mk x y) z = childOK M (c.mk x' y') z := by
  cases c <;> cases M <;> rfl

/-! ### Python list indexing -/

theorem pyIndex_nat {α : Type} (l : List α) (n : Nat) (h : n < l.length) : pyIndex l (n : Int) = .ok l[n] := by
  unfold pyIndex
  have h1 : ¬ ((n : Int) < 0) := by omega
  simp only [h1, if_false, Int.toNat_natCast, List.getElem?_eq_getElem h]

theorem pyIndex_neg {α : Type} (l : List α) (k : Nat) (h : k < l.length) :
    pyIndex l (-((k + 1 : Nat) : Int)) = .ok (l[l.length - 1 - k]'(by omega)) := by
  unfold pyIndex
  have h0 : (-((k + 1 : Nat) : Int)) < 0 := by omega
  have h1 : ¬ ((-((k + 1 : Nat) : Int)) + (l.length : Int) < 0) := by omega
  have h2 : ((-((k + 1 : Nat) : Int)) + (l.length : Int)).toNat = l.length - 1 - k := by omega
  simp only [h0, if_true, h1, if_false, h2, List.getElem?_eq_getElem (show l.length - 1 - k < l.length by omega)]

theorem pyIndex_out {α : Type} (l : List α) (i : Int) (h : i < -(l.length : Int) ∨ (l.length : Int) ≤ i) :
    pyIndex l i = .error .indexError := by
  unfold pyIndex
  by_cases h0 : i < 0
  · have h1 : i + (l.length : Int) < 0 := by omega
    simp only [h0, if_true, h1]
  · have h2 : ¬ (i.toNat < l.length) := by omega
    simp only [h0, if_false, List.getElem?_eq_none (Nat.le_of_not_lt h2)]

/-- every index is in exactly one of the three ranges -/
theorem index_cases (len : Nat) (i : Int) :
    (∃ n : Nat, n < len ∧ i = (n : Int)) ∨ (∃ k : Nat, k < len ∧ i = -((k + 1 : Nat) : Int)) ∨
      (i < -(len : Int) ∨ (len : Int) ≤ i) := by
  by_cases h0 : i < 0
  · by_cases h1 : i < -(len : Int)
    · exact Or.inr (Or.inr (Or.inl h1))
    · exact Or.inr (Or.inl ⟨(-i - 1).toNat, by omega, by omega⟩)
  · by_cases h1 : (len : Int) ≤ i
    · exact Or.inr (Or.inr (Or.inr h1))
    · exact Or.inl ⟨i.toNat, by omega, by omega⟩

end PMC.FormulaApi
