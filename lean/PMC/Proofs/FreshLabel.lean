/-
  "The first candidate that is not among the labels": the pattern shared by `Fair.fairLabel` and `CTLS.freshName`.
  The `none` branch of the search is unreachable (pigeonhole), hence the chosen name is never a label of the structure.
  Core + Std only (`Nat.repr_injective` lives in Std.Data.String.ToNat).
-/
import Std.Data.String.ToNat
namespace PMC.FreshLabel

/-- `i ↦ toString i` is injective on `Nat` -/
theorem toString_nat_injective : ∀ a b : Nat, toString a = toString b → a = b :=
  fun _ _ h => Nat.repr_injective h

/-- pigeonhole: a duplicate-free list all of whose members are in `labs` is not longer than `labs` -/
theorem length_le_of_nodup_subset {α : Type} [DecidableEq α] (l labs : List α) (hnd : l.Nodup)
    (hsub : ∀ a ∈ l, a ∈ labs) : l.length ≤ labs.length := by
  induction l generalizing labs with
  | nil => simp
  | cons a l ih =>
    rw [List.nodup_cons] at hnd
    have ha : a ∈ labs := hsub a List.mem_cons_self
    have h1 : l.length ≤ (labs.erase a).length := by
      refine ih _ hnd.2 (fun b hb => ?_)
      have hne : b ≠ a := fun h => hnd.1 (h ▸ hb)
      exact (List.mem_erase_of_ne hne).mpr (hsub b (List.mem_cons_of_mem _ hb))
    rw [List.length_erase_of_mem ha] at h1
    have : 0 < labs.length := List.length_pos_of_mem ha
    simp only [List.length_cons]
    omega

/-- `labs.length + 1` distinct candidates cannot all be among `labs` -/
theorem exists_candidate {α : Type} [DecidableEq α] (labs : List α) (g : Nat → α)
    (hg : ∀ a b, g a = g b → a = b) : ∃ i, i < labs.length + 1 ∧ g i ∉ labs := by
  apply Classical.byContradiction
  intro hno
  have hall : ∀ i, i < labs.length + 1 → g i ∈ labs := fun i hi =>
    Classical.byContradiction (fun h => hno ⟨i, hi, h⟩)
  have hnd : ((List.range (labs.length + 1)).map g).Nodup := by
    have h0 : (List.range (labs.length + 1)).Nodup := List.nodup_range
    unfold List.Nodup at h0 ⊢
    rw [List.pairwise_map]
    exact h0.imp (fun hab h => hab (hg _ _ h))
  have := length_le_of_nodup_subset _ labs hnd (by
    intro a ha
    obtain ⟨i, hi, rfl⟩ := List.mem_map.mp ha
    exact hall i (List.mem_range.mp hi))
  simp only [List.length_map, List.length_range] at this
  omega

/-- the search of `fairLabel` / `freshName` never falls through -/
theorem find_isSome {α : Type} [DecidableEq α] (labs : List α) (g : Nat → α)
    (hg : ∀ a b, g a = g b → a = b) :
    ∃ i, (List.range (labs.length + 1)).find? (fun i => decide (g i ∉ labs)) = some i := by
  cases h : (List.range (labs.length + 1)).find? (fun i => decide (g i ∉ labs)) with
  | some i => exact ⟨i, rfl⟩
  | none =>
    rw [List.find?_range_eq_none] at h
    obtain ⟨i, hi, hni⟩ := exists_candidate labs g hg
    have := h i hi
    simp [hni] at this

/-- what a successful search returns: the least free index -/
theorem find_spec {α : Type} [DecidableEq α] (labs : List α) (g : Nat → α) (n i : Nat)
    (h : (List.range n).find? (fun i => decide (g i ∉ labs)) = some i) :
    g i ∉ labs ∧ i < n ∧ ∀ j, j < i → g j ∈ labs := by
  rw [List.find?_range_eq_some] at h
  refine ⟨by simpa using h.1, List.mem_range.mp h.2.1, fun j hj => ?_⟩
  have := h.2.2 j hj
  simpa using this

/-- the shared pattern: `base` if it is free, otherwise the first free `g i`; the result is free -/
theorem pick_fresh {α : Type} [DecidableEq α] (labs : List α) (base : α) (g : Nat → α)
    (hg : ∀ a b, g a = g b → a = b) :
    (if base ∉ labs then base
      else match (List.range (labs.length + 1)).find? (fun i => decide (g i ∉ labs)) with
        | some i => g i
        | none => base) ∉ labs := by
  split
  · assumption
  · obtain ⟨i, hi⟩ := find_isSome labs g hg
    rw [hi]
    exact (find_spec labs g _ i hi).1

/-- the shared pattern, second branch: the least free index -/
theorem pick_minimal {α : Type} [DecidableEq α] (labs : List α) (base : α) (g : Nat → α)
    (hg : ∀ a b, g a = g b → a = b) (hb : base ∈ labs) :
    ∃ i, (if base ∉ labs then base
      else match (List.range (labs.length + 1)).find? (fun i => decide (g i ∉ labs)) with
        | some i => g i
        | none => base) = g i ∧ i ≤ labs.length ∧ g i ∉ labs ∧ ∀ j, j < i → g j ∈ labs := by
  obtain ⟨i, hi⟩ := find_isSome labs g hg
  have hs := find_spec labs g _ i hi
  refine ⟨i, ?_, by omega, hs.1, hs.2.2⟩
  rw [if_neg (by simpa using hb), hi]

/-! ### the two families of candidates are injective in the index -/

theorem fair_candidates_injective (a b : Nat) (h : "fair" ++ toString a = "fair" ++ toString b) : a = b :=
  toString_nat_injective a b ((String.append_right_inj _).mp h)

theorem bracket_candidates_injective (s : String) (a b : Nat)
    (h : "[" ++ s ++ "(" ++ toString a ++ ")]" = "[" ++ s ++ "(" ++ toString b ++ ")]") : a = b :=
  toString_nat_injective a b ((String.append_right_inj _).mp ((String.append_left_inj _).mp h))

end PMC.FreshLabel
