/-
  Helper lemmas about the executable digraph model (PMC/Model/Graph.lean): one-step characterisations of
  `nodes` / `edges` / `next` for `addNodeRaw`, `addSucc`, `insEdge`, lifted through the two folds of `Graph.mk`.
-/
import PMC.Spec.GraphSpec
import PMC.Proofs.Reach
import Mathlib.Tactic

namespace PMC.Graph
set_option linter.unusedSectionVars false
variable {σ : Type} [DecidableEq σ]

/-! ### basic facts about `nodes`, `edges`, `hasNode`, `next` -/

theorem hasNode_iff (g : Graph σ) (v : σ) : g.hasNode v = true ↔ v ∈ g.nodes := by
  simp only [hasNode, nodes, List.any_eq_true, decide_eq_true_eq, List.mem_map]

theorem hasNode_eq_false_iff (g : Graph σ) (v : σ) : g.hasNode v = false ↔ v ∉ g.nodes := by
  rw [← hasNode_iff]; simp

theorem nodes_nil : nodes ([] : Graph σ) = [] := rfl

theorem nodes_cons (p : σ × List σ) (g : Graph σ) : nodes (p :: g : Graph σ) = p.1 :: nodes g := rfl

theorem nodes_append (g h : Graph σ) : nodes (g ++ h : Graph σ) = nodes g ++ nodes h := by
  simp only [nodes, List.map_append]

theorem edges_nil : edges ([] : Graph σ) = [] := rfl

theorem edges_cons (p : σ × List σ) (g : Graph σ) :
    edges (p :: g : Graph σ) = p.2.map (fun d => (p.1, d)) ++ edges g := by
  simp only [edges, List.flatMap_cons]

theorem edges_append (g h : Graph σ) : edges (g ++ h : Graph σ) = edges g ++ edges h := by
  simp only [edges, List.flatMap_append]

theorem mem_edges (g : Graph σ) (a b : σ) : (a, b) ∈ g.edges ↔ ∃ l, (a, l) ∈ g ∧ b ∈ l := by
  simp only [edges, List.mem_flatMap, List.mem_map, Prod.mk.injEq]
  constructor
  · rintro ⟨⟨a', l⟩, hp, d, hd, rfl, rfl⟩; exact ⟨l, hp, hd⟩
  · rintro ⟨l, hp, hb⟩; exact ⟨(a, l), hp, b, hb, rfl, rfl⟩

theorem mem_nodes_of_mem {g : Graph σ} {a : σ} {l : List σ} (h : (a, l) ∈ g) : a ∈ g.nodes :=
  List.mem_map.mpr ⟨(a, l), h, rfl⟩

theorem edge_src {g : Graph σ} {a b : σ} (h : (a, b) ∈ g.edges) : a ∈ g.nodes := by
  obtain ⟨l, hl, _⟩ := (mem_edges g a b).mp h
  exact mem_nodes_of_mem hl

theorem next_nil (a : σ) : next ([] : Graph σ) a = [] := rfl

theorem next_cons (p : σ × List σ) (g : Graph σ) (a : σ) :
    next (p :: g : Graph σ) a = if p.1 = a then p.2 else next g a := by
  by_cases h : p.1 = a
  · simp [next, h]
  · simp [next, h]

/-- a successor reported by `next` is always an edge (no invariant needed) -/
theorem edge_of_mem_next (g : Graph σ) (a b : σ) (h : b ∈ g.next a) : (a, b) ∈ g.edges := by
  induction g with
  | nil => simp [next_nil] at h
  | cons p g ih =>
    rw [next_cons] at h
    rw [edges_cons, List.mem_append]
    by_cases hp : p.1 = a
    · rw [if_pos hp] at h
      exact Or.inl (List.mem_map.mpr ⟨b, h, by rw [hp]⟩)
    · rw [if_neg hp] at h
      exact Or.inr (ih h)

/-- with unique keys, `next` and `edges` say the same thing -/
theorem mem_next_iff_edge' (g : Graph σ) (hnd : g.nodes.Nodup) (a b : σ) :
    b ∈ g.next a ↔ (a, b) ∈ g.edges := by
  refine ⟨edge_of_mem_next g a b, ?_⟩
  induction g with
  | nil => intro h; simp [edges_nil] at h
  | cons p g ih =>
    rw [nodes_cons, List.nodup_cons] at hnd
    rw [next_cons, edges_cons, List.mem_append]
    rintro (h | h)
    · obtain ⟨d, hd, he⟩ := List.mem_map.mp h
      simp only [Prod.mk.injEq] at he
      rw [if_pos he.1, ← he.2]; exact hd
    · have ha : a ∈ nodes g := edge_src h
      have hne : p.1 ≠ a := fun e => hnd.1 (e ▸ ha)
      rw [if_neg hne]; exact ih hnd.2 h

/-! ### the invariant in "edge" form -/

/-- every edge target is a node -/
def EClosed (g : Graph σ) : Prop := ∀ a b, (a, b) ∈ g.edges → b ∈ g.nodes

theorem closed_of_eclosed {g : Graph σ} (h : EClosed g) : Closed g :=
  fun x _ w hw => h x w (edge_of_mem_next g x w hw)

theorem eclosed_of_closed {g : Graph σ} (hnd : g.nodes.Nodup) (h : Closed g) : EClosed g :=
  fun a b he => h a (edge_src he) b ((mem_next_iff_edge' g hnd a b).mpr he)

def SuccNodup (g : Graph σ) : Prop := ∀ p ∈ g, p.2.Nodup

theorem wfg_iff (g : Graph σ) : WFG g ↔ g.nodes.Nodup ∧ SuccNodup g ∧ EClosed g :=
  ⟨fun h => ⟨h.nodup, h.succNodup, eclosed_of_closed h.nodup h.closed⟩,
   fun h => ⟨h.1, h.2.1, closed_of_eclosed h.2.2⟩⟩

/-! ### appending a fresh key -/

theorem nodes_snoc (g : Graph σ) (v : σ) (l : List σ) : nodes (g ++ [(v, l)] : Graph σ) = nodes g ++ [v] := by
  rw [nodes_append]; rfl

theorem mem_nodes_snoc (g : Graph σ) (v : σ) (l : List σ) (w : σ) :
    w ∈ nodes (g ++ [(v, l)] : Graph σ) ↔ w ∈ g.nodes ∨ w = v := by
  rw [nodes_snoc, List.mem_append, List.mem_singleton]

theorem mem_edges_snoc (g : Graph σ) (v : σ) (l : List σ) (a b : σ) :
    (a, b) ∈ edges (g ++ [(v, l)] : Graph σ) ↔ (a, b) ∈ g.edges ∨ (a = v ∧ b ∈ l) := by
  rw [edges_append, List.mem_append, edges_cons, edges_nil, List.append_nil, List.mem_map]
  simp only [Prod.mk.injEq]
  constructor
  · rintro (h | ⟨d, hd, rfl, rfl⟩)
    · exact Or.inl h
    · exact Or.inr ⟨rfl, hd⟩
  · rintro (h | ⟨rfl, hb⟩)
    · exact Or.inl h
    · exact Or.inr ⟨b, hb, rfl, rfl⟩

theorem nodup_snoc {g : Graph σ} (hnd : g.nodes.Nodup) {v : σ} (hv : v ∉ g.nodes) (l : List σ) :
    (nodes (g ++ [(v, l)] : Graph σ)).Nodup := by
  rw [nodes_snoc]
  exact List.Nodup.append hnd (List.nodup_singleton v) (by
    intro a ha hb; rw [List.mem_singleton] at hb; exact hv (hb ▸ ha))

theorem succNodup_snoc {g : Graph σ} (h : SuccNodup g) (v : σ) {l : List σ} (hl : l.Nodup) :
    SuccNodup (g ++ [(v, l)] : Graph σ) := by
  intro p hp
  rcases List.mem_append.mp hp with hp | hp
  · exact h p hp
  · rw [List.mem_singleton] at hp; rw [hp]; exact hl

/-! ### `addNodeRaw` -/

theorem addNodeRaw_nodes (g : Graph σ) (v w : σ) : w ∈ (g.addNodeRaw v).nodes ↔ w ∈ g.nodes ∨ w = v := by
  unfold addNodeRaw
  split
  · rename_i h
    rw [hasNode_iff] at h
    constructor
    · exact Or.inl
    · rintro (h' | rfl); exacts [h', h]
  · exact mem_nodes_snoc g v [] w

theorem addNodeRaw_edges (g : Graph σ) (v : σ) (a b : σ) :
    (a, b) ∈ (g.addNodeRaw v).edges ↔ (a, b) ∈ g.edges := by
  unfold addNodeRaw
  split
  · rfl
  · rw [mem_edges_snoc]; simp

theorem addNodeRaw_nodup {g : Graph σ} (hnd : g.nodes.Nodup) (v : σ) : (g.addNodeRaw v).nodes.Nodup := by
  unfold addNodeRaw
  split
  · exact hnd
  · rename_i h
    exact nodup_snoc hnd (by rwa [← hasNode_iff]) []

theorem addNodeRaw_succNodup {g : Graph σ} (h : SuccNodup g) (v : σ) : SuccNodup (g.addNodeRaw v) := by
  unfold addNodeRaw
  split
  · exact h
  · exact succNodup_snoc h v List.nodup_nil

theorem addNodeRaw_eclosed {g : Graph σ} (h : EClosed g) (v : σ) : EClosed (g.addNodeRaw v) := by
  intro a b he
  rw [addNodeRaw_edges] at he
  exact (addNodeRaw_nodes g v b).mpr (Or.inl (h a b he))

theorem addNodeRaw_wf {g : Graph σ} (h : WFG g) (v : σ) : WFG (g.addNodeRaw v) := by
  rw [wfg_iff] at h ⊢
  exact ⟨addNodeRaw_nodup h.1 v, addNodeRaw_succNodup h.2.1 v, addNodeRaw_eclosed h.2.2 v⟩

/-! ### `addSucc` -/

theorem addSucc_nil (s d : σ) : addSucc ([] : Graph σ) s d = [] := rfl

theorem addSucc_cons (p : σ × List σ) (g : Graph σ) (s d : σ) :
    addSucc (p :: g : Graph σ) s d =
      (if p.1 = s then (p.1, if d ∈ p.2 then p.2 else p.2 ++ [d]) else p) :: addSucc g s d := rfl

theorem addSucc_nodes (g : Graph σ) (s d : σ) : (g.addSucc s d).nodes = g.nodes := by
  induction g with
  | nil => rfl
  | cons p g ih =>
    rw [addSucc_cons, nodes_cons, nodes_cons, ih]
    split <;> rfl

theorem addSucc_edges (g : Graph σ) (s d : σ) (a b : σ) :
    (a, b) ∈ (g.addSucc s d).edges ↔ (a, b) ∈ g.edges ∨ (a = s ∧ b = d ∧ s ∈ g.nodes) := by
  induction g with
  | nil => simp [addSucc_nil, edges_nil, nodes_nil]
  | cons p g ih =>
    rw [addSucc_cons, edges_cons, edges_cons, List.mem_append, List.mem_append, ih, nodes_cons,
      List.mem_cons]
    by_cases hp : p.1 = s
    · rw [if_pos hp]
      by_cases hd : d ∈ p.2
      · rw [if_pos hd]
        constructor
        · rintro (h | h | h)
          · exact Or.inl (Or.inl h)
          · exact Or.inl (Or.inr h)
          · exact Or.inr ⟨h.1, h.2.1, Or.inr h.2.2⟩
        · rintro ((h | h) | ⟨rfl, rfl, _⟩)
          · exact Or.inl h
          · exact Or.inr (Or.inl h)
          · exact Or.inl (List.mem_map.mpr ⟨b, hd, by rw [hp]⟩)
      · rw [if_neg hd]
        simp only [List.map_append, List.mem_append, List.map_cons, List.map_nil, List.mem_singleton,
          Prod.mk.injEq]
        constructor
        · rintro ((h | ⟨rfl, rfl⟩) | h | h)
          · exact Or.inl (Or.inl h)
          · exact Or.inr ⟨hp, rfl, Or.inl hp.symm⟩
          · exact Or.inl (Or.inr h)
          · exact Or.inr ⟨h.1, h.2.1, Or.inr h.2.2⟩
        · rintro ((h | h) | ⟨rfl, rfl, _⟩)
          · exact Or.inl (Or.inl h)
          · exact Or.inr (Or.inl h)
          · exact Or.inl (Or.inr ⟨hp.symm, rfl⟩)
    · rw [if_neg hp]
      constructor
      · rintro (h | h | h)
        · exact Or.inl (Or.inl h)
        · exact Or.inl (Or.inr h)
        · exact Or.inr ⟨h.1, h.2.1, Or.inr h.2.2⟩
      · rintro ((h | h) | ⟨rfl, rfl, h | h⟩)
        · exact Or.inl h
        · exact Or.inr (Or.inl h)
        · exact absurd h.symm hp
        · exact Or.inr (Or.inr ⟨rfl, rfl, h⟩)

theorem addSucc_succNodup {g : Graph σ} (h : SuccNodup g) (s d : σ) : SuccNodup (g.addSucc s d) := by
  intro p hp
  unfold addSucc at hp
  obtain ⟨q, hq, rfl⟩ := List.mem_map.mp hp
  have hq' := h q hq
  split
  · split
    · exact hq'
    · rename_i hd
      exact List.Nodup.append hq' (List.nodup_singleton d) (by
        intro a ha hb; rw [List.mem_singleton] at hb; exact hd (hb ▸ ha))
  · exact hq'

/-! ### `insEdge` -/

theorem insEdge_eq (g : Graph σ) (s d : σ) :
    g.insEdge s d = addNodeRaw (if g.hasNode s then g.addSucc s d else g ++ [(s, [d])]) d := rfl

theorem insEdge_nodes (g : Graph σ) (s d w : σ) :
    w ∈ (g.insEdge s d).nodes ↔ w ∈ g.nodes ∨ w = s ∨ w = d := by
  rw [insEdge_eq, addNodeRaw_nodes]
  split
  · rename_i h
    rw [hasNode_iff] at h
    rw [addSucc_nodes]
    constructor
    · rintro (h' | h'); exacts [Or.inl h', Or.inr (Or.inr h')]
    · rintro (h' | rfl | h'); exacts [Or.inl h', Or.inl h, Or.inr h']
  · rw [mem_nodes_snoc]; tauto

theorem insEdge_edges (g : Graph σ) (s d a b : σ) :
    (a, b) ∈ (g.insEdge s d).edges ↔ (a, b) ∈ g.edges ∨ (a = s ∧ b = d) := by
  rw [insEdge_eq, addNodeRaw_edges]
  split
  · rename_i h
    rw [hasNode_iff] at h
    rw [addSucc_edges]; tauto
  · rw [mem_edges_snoc, List.mem_singleton]

theorem insEdge_nodup {g : Graph σ} (hnd : g.nodes.Nodup) (s d : σ) : (g.insEdge s d).nodes.Nodup := by
  rw [insEdge_eq]
  apply addNodeRaw_nodup
  split
  · rw [addSucc_nodes]; exact hnd
  · rename_i h
    exact nodup_snoc hnd (by rwa [← hasNode_iff]) [d]

theorem insEdge_succNodup {g : Graph σ} (h : SuccNodup g) (s d : σ) : SuccNodup (g.insEdge s d) := by
  rw [insEdge_eq]
  apply addNodeRaw_succNodup
  split
  · exact addSucc_succNodup h s d
  · exact succNodup_snoc h s (List.nodup_singleton d)

theorem insEdge_eclosed {g : Graph σ} (h : EClosed g) (s d : σ) : EClosed (g.insEdge s d) := by
  intro a b he
  rw [insEdge_edges] at he
  rw [insEdge_nodes]
  rcases he with he | ⟨_, rfl⟩
  · exact Or.inl (h a b he)
  · exact Or.inr (Or.inr rfl)

theorem insEdge_wf {g : Graph σ} (h : WFG g) (s d : σ) : WFG (g.insEdge s d) := by
  rw [wfg_iff] at h ⊢
  exact ⟨insEdge_nodup h.1 s d, insEdge_succNodup h.2.1 s d, insEdge_eclosed h.2.2 s d⟩

/-! ### the two folds of `Graph.mk` -/

theorem wfg_nil : WFG ([] : Graph σ) := by
  rw [wfg_iff]
  refine ⟨List.nodup_nil, ?_, ?_⟩
  · intro p hp; cases hp
  · intro a b he; rw [edges_nil] at he; cases he

theorem foldNodes_wf (V : List σ) (g : Graph σ) (h : WFG g) : WFG (V.foldl addNodeRaw g) := by
  induction V generalizing g with
  | nil => exact h
  | cons v V ih => exact ih _ (addNodeRaw_wf h v)

theorem foldNodes_nodes (V : List σ) (g : Graph σ) (w : σ) :
    w ∈ (V.foldl addNodeRaw g).nodes ↔ w ∈ g.nodes ∨ w ∈ V := by
  induction V generalizing g with
  | nil => simp
  | cons v V ih =>
    rw [List.foldl_cons, ih, addNodeRaw_nodes, List.mem_cons]; tauto

theorem foldNodes_edges (V : List σ) (g : Graph σ) (a b : σ) :
    (a, b) ∈ (V.foldl addNodeRaw g).edges ↔ (a, b) ∈ g.edges := by
  induction V generalizing g with
  | nil => rfl
  | cons v V ih => rw [List.foldl_cons, ih, addNodeRaw_edges]

theorem foldEdges_wf (E : List (σ × σ)) (g : Graph σ) (h : WFG g) :
    WFG (E.foldl (fun g e => insEdge g e.1 e.2) g) := by
  induction E generalizing g with
  | nil => exact h
  | cons e E ih => exact ih _ (insEdge_wf h e.1 e.2)

theorem foldEdges_nodes (E : List (σ × σ)) (g : Graph σ) (w : σ) :
    w ∈ (E.foldl (fun g e => insEdge g e.1 e.2) g).nodes ↔ w ∈ g.nodes ∨ ∃ e ∈ E, w = e.1 ∨ w = e.2 := by
  induction E generalizing g with
  | nil => simp
  | cons e E ih =>
    rw [List.foldl_cons, ih, insEdge_nodes]
    simp only [List.mem_cons, exists_eq_or_imp]
    rw [or_assoc]

theorem foldEdges_edges (E : List (σ × σ)) (g : Graph σ) (a b : σ) :
    (a, b) ∈ (E.foldl (fun g e => insEdge g e.1 e.2) g).edges ↔ (a, b) ∈ g.edges ∨ (a, b) ∈ E := by
  induction E generalizing g with
  | nil => simp
  | cons e E ih =>
    rw [List.foldl_cons, ih, insEdge_edges, List.mem_cons]
    have : (a, b) = e ↔ (a = e.1 ∧ b = e.2) := by
      rcases e with ⟨e1, e2⟩; simp only [Prod.mk.injEq]
    rw [this]; tauto

theorem mk_wf (V : List σ) (E : List (σ × σ)) : WFG (Graph.mk V E) :=
  foldEdges_wf E _ (foldNodes_wf V _ wfg_nil)

theorem mk_nodes (V : List σ) (E : List (σ × σ)) (v : σ) :
    v ∈ (Graph.mk V E).nodes ↔ v ∈ V ∨ ∃ e ∈ E, v = e.1 ∨ v = e.2 := by
  unfold Graph.mk
  rw [foldEdges_nodes, foldNodes_nodes, nodes_nil]
  simp only [List.not_mem_nil, false_or]

theorem mk_edges (V : List σ) (E : List (σ × σ)) (a b : σ) :
    (a, b) ∈ (Graph.mk V E).edges ↔ (a, b) ∈ E := by
  unfold Graph.mk
  rw [foldEdges_edges, foldNodes_edges, edges_nil]
  simp only [List.not_mem_nil, false_or]

/-! ### `addEdge`, `addEdgeIgnore` -/

theorem addEdge_eq (g : Graph σ) (s d : σ) :
    g.addEdge s d = if g.hasNode s && decide (d ∈ g.next s) then .error .runtimeError
      else .ok (((g.addNodeRaw s).addNodeRaw d).addSucc s d) := rfl

theorem addEdge_error_iff' (g : Graph σ) (hnd : g.nodes.Nodup) (s d : σ) :
    g.addEdge s d = .error .runtimeError ↔ (s, d) ∈ g.edges := by
  rw [addEdge_eq]
  split
  · rename_i h
    simp only [Bool.and_eq_true, decide_eq_true_eq] at h
    simp only [true_iff]
    exact edge_of_mem_next g s d h.2
  · rename_i h
    simp only [Bool.and_eq_true, decide_eq_true_eq, hasNode_iff] at h
    simp only [reduceCtorEq, false_iff]
    intro he
    exact h ⟨edge_src he, (mem_next_iff_edge' g hnd s d).mpr he⟩

/-- the graph `addEdgeIgnore` returns when the edge is new -/
def addEdgeOk (g : Graph σ) (s d : σ) : Graph σ := ((g.addNodeRaw s).addNodeRaw d).addSucc s d

theorem addEdgeIgnore_cases (g : Graph σ) (s d : σ) :
    (s ∈ g.nodes ∧ d ∈ g.next s ∧ g.addEdgeIgnore s d = g) ∨
    (¬ (s ∈ g.nodes ∧ d ∈ g.next s) ∧ g.addEdgeIgnore s d = addEdgeOk g s d) := by
  unfold addEdgeIgnore
  rw [addEdge_eq]
  split_ifs with h
  · simp only [Bool.and_eq_true, decide_eq_true_eq, hasNode_iff] at h
    exact Or.inl ⟨h.1, h.2, rfl⟩
  · simp only [Bool.and_eq_true, decide_eq_true_eq, hasNode_iff] at h
    exact Or.inr ⟨h, rfl⟩

theorem addEdgeOk_nodes (g : Graph σ) (s d w : σ) :
    w ∈ (addEdgeOk g s d).nodes ↔ w ∈ g.nodes ∨ w = s ∨ w = d := by
  unfold addEdgeOk
  rw [addSucc_nodes, addNodeRaw_nodes, addNodeRaw_nodes, or_assoc]

theorem addEdgeOk_edges (g : Graph σ) (s d a b : σ) :
    (a, b) ∈ (addEdgeOk g s d).edges ↔ (a, b) ∈ g.edges ∨ (a = s ∧ b = d) := by
  unfold addEdgeOk
  rw [addSucc_edges, addNodeRaw_edges, addNodeRaw_edges, addNodeRaw_nodes, addNodeRaw_nodes]
  tauto

theorem addEdgeOk_wf {g : Graph σ} (h : WFG g) (s d : σ) : WFG (addEdgeOk g s d) := by
  have h2 : WFG ((g.addNodeRaw s).addNodeRaw d) := addNodeRaw_wf (addNodeRaw_wf h s) d
  rw [wfg_iff] at h2 ⊢
  refine ⟨?_, ?_, ?_⟩
  · unfold addEdgeOk; rw [addSucc_nodes]; exact h2.1
  · exact addSucc_succNodup h2.2.1 s d
  · intro a b he
    have he' := he
    unfold addEdgeOk at he' ⊢
    rw [addSucc_edges] at he'
    rw [addSucc_nodes]
    rcases he' with he' | ⟨_, rfl, _⟩
    · exact h2.2.2 a b he'
    · exact (addNodeRaw_nodes _ _ _).mpr (Or.inr rfl)

theorem addEdgeIgnore_wf {g : Graph σ} (h : WFG g) (s d : σ) : WFG (g.addEdgeIgnore s d) := by
  rcases addEdgeIgnore_cases g s d with ⟨_, _, e⟩ | ⟨_, e⟩
  · rw [e]; exact h
  · rw [e]; exact addEdgeOk_wf h s d

/-- needs `Closed g`: in the error case `d ∈ g.next s` must make `d` a node -/
theorem addEdgeIgnore_nodes (g : Graph σ) (hc : Closed g) (s d w : σ) :
    w ∈ (g.addEdgeIgnore s d).nodes ↔ w ∈ g.nodes ∨ w = s ∨ w = d := by
  rcases addEdgeIgnore_cases g s d with ⟨hs, hd, e⟩ | ⟨_, e⟩
  · rw [e]
    constructor
    · exact Or.inl
    · rintro (h | rfl | rfl)
      · exact h
      · exact hs
      · exact hc s hs _ hd
  · rw [e]; exact addEdgeOk_nodes g s d w

theorem addEdgeIgnore_edges (g : Graph σ) (s d a b : σ) :
    (a, b) ∈ (g.addEdgeIgnore s d).edges ↔ (a, b) ∈ g.edges ∨ (a = s ∧ b = d) := by
  rcases addEdgeIgnore_cases g s d with ⟨hs, hd, e⟩ | ⟨_, e⟩
  · rw [e]
    constructor
    · exact Or.inl
    · rintro (h | ⟨rfl, rfl⟩)
      · exact h
      · exact edge_of_mem_next g _ _ hd
  · rw [e]; exact addEdgeOk_edges g s d a b

theorem addNode_error_iff (g : Graph σ) (v : σ) : g.addNode v = .error .runtimeError ↔ v ∈ g.nodes := by
  unfold addNode
  split
  · rename_i h; rw [hasNode_iff] at h; simp [h]
  · rename_i h; rw [hasNode_iff] at h; simp [h]

/-! ### `clone` -/

theorem clone_eq (g : Graph σ) : g.clone = g := by
  unfold clone
  exact List.map_id g

/-! ### `reachFrom` -/

theorem all_hasNode_iff (g : Graph σ) (X : List σ) : X.all g.hasNode = true ↔ ∀ x ∈ X, x ∈ g.nodes := by
  simp only [List.all_eq_true, hasNode_iff]

theorem edge_dst {g : Graph σ} (h : WFG g) {a b : σ} (he : (a, b) ∈ g.edges) : b ∈ g.nodes :=
  eclosed_of_closed h.nodup h.closed a b he

/-! ### `subgraph`, `reversed` -/

theorem subgraph_nodes (g : Graph σ) (h : WFG g) (X : List σ) (v : σ) :
    v ∈ (g.subgraph X).nodes ↔ v ∈ g.nodes ∧ v ∈ X := by
  unfold subgraph
  rw [mk_nodes]
  simp only [List.mem_filter, decide_eq_true_eq, Bool.and_eq_true]
  constructor
  · rintro (hv | ⟨⟨e1, e2⟩, ⟨he, h1, h2⟩, rfl | rfl⟩)
    · exact hv
    · exact ⟨edge_src he, h1⟩
    · exact ⟨edge_dst h he, h2⟩
  · exact Or.inl

theorem subgraph_edges (g : Graph σ) (X : List σ) (a b : σ) :
    (a, b) ∈ (g.subgraph X).edges ↔ (a, b) ∈ g.edges ∧ a ∈ X ∧ b ∈ X := by
  unfold subgraph
  rw [mk_edges]
  simp only [List.mem_filter, decide_eq_true_eq, Bool.and_eq_true]

theorem reversed_edges (g : Graph σ) (a b : σ) : (a, b) ∈ g.reversed.edges ↔ (b, a) ∈ g.edges := by
  unfold reversed
  rw [mk_edges, List.mem_map]
  constructor
  · rintro ⟨⟨e1, e2⟩, he, heq⟩
    simp only [Prod.mk.injEq] at heq
    obtain ⟨rfl, rfl⟩ := heq
    exact he
  · intro he; exact ⟨(b, a), he, rfl⟩

theorem reversed_nodes (g : Graph σ) (h : WFG g) (v : σ) : v ∈ g.reversed.nodes ↔ v ∈ g.nodes := by
  unfold reversed
  rw [mk_nodes]
  constructor
  · rintro (hv | ⟨e, he, hv⟩)
    · exact hv
    · obtain ⟨⟨e1, e2⟩, he', rfl⟩ := List.mem_map.mp he
      rcases hv with rfl | rfl
      · exact edge_dst h he'
      · exact edge_src he'
  · exact Or.inl

/-! ### `reachFrom` -/

theorem reach_exact (g : Graph σ) (h : WFG g) (X : List σ) (hX : ∀ x ∈ X, x ∈ g.nodes) :
    ∃ R, g.reachFrom X = .ok R ∧ ∀ v, v ∈ R ↔ ∃ x ∈ X, Reach g.next x v := by
  refine ⟨reachFromFn g.next g.nodes X, ?_, fun v => reachFromFn_exact g.next g.nodes X h.closed hX v⟩
  unfold reachFrom
  rw [if_pos ((all_hasNode_iff g X).mpr hX)]

theorem reach_error (g : Graph σ) (X : List σ) (hX : ∃ x ∈ X, x ∉ g.nodes) :
    g.reachFrom X = .error .runtimeError := by
  unfold reachFrom
  rw [if_neg]
  rw [all_hasNode_iff]
  obtain ⟨x, hx, hn⟩ := hX
  exact fun hall => hn (hall x hx)

end PMC.Graph
