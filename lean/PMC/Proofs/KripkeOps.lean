/-
  Helper lemmas about the executable Kripke-structure constructor (PMC/Model/Kripke.lean):
  `sources` versus `next`, the label dictionary `labelOf`, and a normal form of `KripkeD.make`.
-/
import PMC.Proofs.GraphOps
import PMC.Model.Kripke

namespace PMC.Graph
set_option linter.unusedSectionVars false
variable {σ : Type} [DecidableEq σ]

/-! ### `sources` -/

theorem sources_nil : sources ([] : Graph σ) = [] := rfl

theorem sources_cons (p : σ × List σ) (g : Graph σ) :
    sources (p :: g : Graph σ) = if p.2 = [] then sources g else p.1 :: sources g := by
  unfold sources
  rw [List.filter_cons]
  by_cases h : p.2 = []
  · simp [h]
  · simp [h]

theorem sources_subset_nodes (g : Graph σ) (v : σ) (h : v ∈ g.sources) : v ∈ g.nodes := by
  unfold sources at h
  obtain ⟨p, hp, rfl⟩ := List.mem_map.mp h
  exact List.mem_map.mpr ⟨p, (List.mem_filter.mp hp).1, rfl⟩

/-- with unique keys, the sources are the nodes with a non-empty successor list -/
theorem mem_sources_iff (g : Graph σ) (hnd : g.nodes.Nodup) (v : σ) : v ∈ g.sources ↔ g.next v ≠ [] := by
  induction g with
  | nil => simp [sources_nil, next_nil]
  | cons p g ih =>
    rw [nodes_cons, List.nodup_cons] at hnd
    rw [sources_cons, next_cons]
    by_cases hp : p.1 = v
    · rw [if_pos hp]
      have hv : v ∉ sources g := fun h => hnd.1 (hp ▸ sources_subset_nodes g v h)
      by_cases h2 : p.2 = []
      · rw [if_pos h2]; simp [hv, h2]
      · rw [if_neg h2]; simp [hp, h2]
    · rw [if_neg hp]
      by_cases h2 : p.2 = []
      · rw [if_pos h2]; exact ih hnd.2
      · rw [if_neg h2, List.mem_cons, ih hnd.2]
        constructor
        · rintro (h | h)
          · exact absurd h.symm hp
          · exact h
        · exact Or.inr

/-- a non-empty `next` has a witness edge -/
theorem next_ne_nil_iff (g : Graph σ) (v : σ) : g.next v ≠ [] ↔ ∃ w, w ∈ g.next v := by
  cases h : g.next v with
  | nil => simp
  | cons a l => simp

end PMC.Graph

namespace PMC.KripkeD
set_option linter.unusedSectionVars false
variable {σ : Type} [DecidableEq σ]
open PMC.Graph

/-! ### `labelOf` -/

theorem labelOf_nil (s : σ) : labelOf ([] : List (σ × List String)) s = [] := rfl

theorem labelOf_cons (p : σ × List String) (L : List (σ × List String)) (s : σ) :
    labelOf (p :: L) s = if p.1 = s then p.2 else labelOf L s := by
  by_cases h : p.1 = s
  · simp [labelOf, h]
  · simp [labelOf, h]

theorem labelOf_map (N : List σ) (f : σ → List String) (s : σ) :
    labelOf (N.map (fun v => (v, f v))) s = if s ∈ N then f s else [] := by
  induction N with
  | nil => simp [labelOf_nil]
  | cons a N ih =>
    rw [List.map_cons, labelOf_cons, ih]
    by_cases h : a = s
    · subst h; simp
    · have h' : ¬ s = a := fun e => h e.symm
      simp [h, h']

theorem labelOf_filter (L : List (σ × List String)) (V : List σ) (s : σ) (hs : s ∈ V) :
    labelOf (L.filter (fun p => decide (p.1 ∈ V))) s = labelOf L s := by
  induction L with
  | nil => rfl
  | cons p L ih =>
    rw [List.filter_cons]
    by_cases hp : p.1 ∈ V
    · simp only [hp, decide_true, if_true]
      rw [labelOf_cons, labelOf_cons, ih]
    · simp only [hp, decide_false, Bool.false_eq_true, if_false]
      rw [labelOf_cons, ih]
      have : ¬ p.1 = s := fun e => hp (e ▸ hs)
      rw [if_neg this]

/-! ### the constructor -/

/-- the value `make` returns when it succeeds -/
def made (S S0 : List σ) (R : List (σ × σ)) (L : List (σ × List String)) : KripkeD σ :=
  { g := Graph.mk S R,
    s0 := (Graph.mk S R).nodes.filter (fun v => decide (v ∈ S0)),
    labels := (Graph.mk S R).nodes.map (fun s => (s, (labelOf L s).eraseDups)) }

/-- every state of `DiGraph(S, R)` has a successor -/
def Total (S : List σ) (R : List (σ × σ)) : Prop :=
  ∀ v ∈ (Graph.mk S R).nodes, (Graph.mk S R).next v ≠ []

theorem pots_isEmpty_iff (g : Graph σ) (hnd : g.nodes.Nodup) :
    (g.nodes.filter (fun v => !(g.sources.contains v))).isEmpty = true ↔ ∀ v ∈ g.nodes, g.next v ≠ [] := by
  rw [List.isEmpty_iff, List.filter_eq_nil_iff]
  constructor
  · intro h v hv
    have := h v hv
    simp only [Bool.not_eq_true', Bool.not_eq_false, List.contains_iff_mem] at this
    exact (mem_sources_iff g hnd v).mp this
  · intro h v hv
    simp only [Bool.not_eq_true', Bool.not_eq_false, List.contains_iff_mem]
    exact (mem_sources_iff g hnd v).mpr (h v hv)

theorem make_not_total (S S0 : List σ) (R : List (σ × σ)) (L : List (σ × List String)) (d : Bool)
    (bad : σ → Bool) (h : ¬ Total S R) : make S S0 R L d bad = .error .runtimeError := by
  have hp : ¬ ((Graph.mk S R).nodes.filter (fun v => !((Graph.mk S R).sources.contains v))).isEmpty = true :=
    fun e => h ((pots_isEmpty_iff _ (Graph.mk_wf S R).nodup).mp e)
  unfold make
  simp only [hp, Bool.not_eq_eq_eq_not, Bool.not_true, if_true, Bool.not_false]

theorem make_total (S S0 : List σ) (R : List (σ × σ)) (L : List (σ × List String)) (h : Total S R) :
    make S S0 R L = .ok (made S S0 R L) := by
  have hp : ((Graph.mk S R).nodes.filter (fun v => !((Graph.mk S R).sources.contains v))).isEmpty = true :=
    (pots_isEmpty_iff _ (Graph.mk_wf S R).nodup).mpr h
  unfold make made
  simp only [hp, Bool.not_true, Bool.false_eq_true, if_false, Bool.and_false, List.any_eq_true]
  simp

theorem make_error_eq (S S0 : List σ) (R : List (σ × σ)) (L : List (σ × List String)) (d : Bool)
    (bad : σ → Bool) (e : Err) (h : make S S0 R L d bad = .error e) : e = .runtimeError := by
  unfold make at h
  simp only at h
  split_ifs at h <;> (injection h with h; exact h.symm)

theorem make_not_dict (S S0 : List σ) (R : List (σ × σ)) (L : List (σ × List String)) (bad : σ → Bool) :
    make S S0 R L false bad = .error .runtimeError := by
  unfold make
  simp only
  split_ifs with h1 h2 h3
  · rfl
  · rfl
  · exact absurd rfl h2
  · exact absurd rfl h2

end PMC.KripkeD
