/-
  Basic facts for the correspondence between the code's tableau atoms (`PMC/Model/LTLAtoms.lean`) and the
  declarative ones (`PMC/Model/LTL.lean`): `lnotR`, double negations, heights and sort keys, the closure as an
  inductive predicate (`InCl`), admissible processing orders (`Adm`), membership in `mapTail`.
-/
import PMC.Model.LTLAtoms
import PMC.Proofs.LTLTableau

namespace PMC.LTL
open Relation

/-! ### `lnotR` and double negations -/

theorem lnotR_notnot (f : RFm) : lnotR (.not (.not f)) = lnotR f := by
  rw [lnotR]

theorem lnotR_not_of_ne {f : RFm} (h : ∀ k, f ≠ .not k) : lnotR (.not f) = f := by
  cases f <;> first | rfl | exact absurd rfl (h _)

theorem lnotR_of_ne {f : RFm} (h : ∀ k, f ≠ .not k) : lnotR f = .not f := by
  cases f <;> first | rfl | exact absurd rfl (h _)

theorem noNN_not {f : RFm} (h : (RFm.not f).noNN = true) : (∀ k, f ≠ .not k) ∧ f.noNN = true := by
  cases f <;> simp_all [RFm.noNN]

theorem noNN_not_intro {f : RFm} (h1 : ∀ k, f ≠ .not k) (h2 : f.noNN = true) : (RFm.not f).noNN = true := by
  cases f <;> simp_all [RFm.noNN]

theorem lnotR_not {f : RFm} (h : (RFm.not f).noNN = true) : lnotR (.not f) = f :=
  lnotR_not_of_ne (noNN_not h).1

/-- on formulas without double negation `LNot` strips one negation or adds one -/
theorem lnotR_cases {φ : RFm} (h : φ.noNN = true) :
    (∃ ψ, φ = .not ψ ∧ lnotR φ = ψ ∧ (∀ k, ψ ≠ .not k) ∧ ψ.noNN = true) ∨ ((∀ k, φ ≠ .not k) ∧ lnotR φ = .not φ) := by
  by_cases hn : ∃ ψ, φ = .not ψ
  · obtain ⟨ψ, rfl⟩ := hn
    exact Or.inl ⟨ψ, rfl, lnotR_not h, (noNN_not h).1, (noNN_not h).2⟩
  · have hn' : ∀ k, φ ≠ .not k := fun k hk => hn ⟨k, hk⟩
    exact Or.inr ⟨hn', lnotR_of_ne hn'⟩

theorem noNN_lnotR {φ : RFm} (h : φ.noNN = true) : (lnotR φ).noNN = true := by
  rcases lnotR_cases h with ⟨ψ, rfl, h1, _, h3⟩ | ⟨h1, h2⟩
  · rw [h1]; exact h3
  · rw [h2]; exact noNN_not_intro h1 h

theorem lnotR_invol {φ : RFm} (h : φ.noNN = true) : lnotR (lnotR φ) = φ := by
  rcases lnotR_cases h with ⟨ψ, rfl, h1, h2, _⟩ | ⟨h1, h2⟩
  · rw [h1]; exact lnotR_of_ne h2
  · rw [h2]; exact lnotR_not_of_ne h1

theorem lnotR_inj {φ ψ : RFm} (h1 : φ.noNN = true) (h2 : ψ.noNN = true) (h : lnotR φ = lnotR ψ) : φ = ψ := by
  rw [← lnotR_invol h1, h, lnotR_invol h2]

theorem lnotR_ne_self {φ : RFm} (h : φ.noNN = true) : lnotR φ ≠ φ := by
  rcases lnotR_cases h with ⟨ψ, rfl, h1, h2, _⟩ | ⟨h1, h2⟩
  · rw [h1]; intro h; exact h2 _ h
  · rw [h2]; intro h; exact h1 _ h.symm

/-- `LNot` negates the truth value (any formula) -/
theorem val_lnotR (lab : List String) (xs : List RFm) (φ : RFm) : val lab xs (lnotR φ) = !val lab xs φ := by
  fun_induction lnotR φ with
  | case1 f ih => simp [val, ih]
  | case2 f _ => simp [val]
  | case3 f _ => simp [val]

theorem noNN_X {f : RFm} : (RFm.X f).noNN = f.noNN := by simp [RFm.noNN]
theorem noNN_U {f h : RFm} : (RFm.U f h).noNN = (f.noNN && h.noNN) := by simp [RFm.noNN]

theorem noNNList_iff {fs : List RFm} : RFm.noNN.noNNList fs = true ↔ ∀ f ∈ fs, f.noNN = true := by
  induction fs with
  | nil => simp [RFm.noNN.noNNList]
  | cons f fs ih => simp [RFm.noNN.noNNList, ih]

theorem noNN_or {fs : List RFm} : (RFm.or fs).noNN = true ↔ ∀ f ∈ fs, f.noNN = true := by
  simp [RFm.noNN, noNNList_iff]

/-- subformulas of a formula without double negation have none -/
theorem noNN_subs {g φ : RFm} (hg : g.noNN = true) (h : φ ∈ g.subs) : φ.noNN = true := by
  induction g using RFm.induct' with
  | tt => simp [RFm.subs] at h; subst h; exact hg
  | ff => simp [RFm.subs] at h; subst h; exact hg
  | ap n => simp [RFm.subs] at h; subst h; exact hg
  | not f ih =>
    simp only [RFm.subs, List.mem_cons] at h
    rcases h with rfl | h
    · exact hg
    · exact ih (noNN_not hg).2 h
  | or fs ih =>
    simp only [RFm.subs, List.mem_cons, subsList_mem] at h
    rcases h with rfl | ⟨f, hf, h⟩
    · exact hg
    · exact ih f hf (noNN_or.mp hg f hf) h
  | X f ih =>
    simp only [RFm.subs, List.mem_cons] at h
    rcases h with rfl | h
    · exact hg
    · exact ih (by simpa [noNN_X] using hg) h
  | U f k ihf ihk =>
    simp only [RFm.subs, List.mem_cons, List.mem_append] at h
    have hg' : f.noNN = true ∧ k.noNN = true := by simpa [noNN_U] using hg
    rcases h with rfl | h | h
    · exact hg
    · exact ihf hg'.1 h
    · exact ihk hg'.2 h

/-! ### heights and sort keys -/

theorem heightList_lt {fs : List RFm} {f : RFm} (h : f ∈ fs) : f.height < RFm.height.heightList fs := by
  induction fs with
  | nil => cases h
  | cons a fs ih =>
    simp only [RFm.height.heightList]
    rcases List.mem_cons.mp h with rfl | h
    · omega
    · have := ih h; omega

theorem sortKey_le_height (φ : RFm) : sortKey φ ≤ φ.height := by
  unfold sortKey
  split <;> simp [RFm.height]

theorem sortKey_of_not_notX {φ : RFm} (h : ∀ f, φ ≠ .not (.X f)) : sortKey φ = φ.height := by
  unfold sortKey
  split
  · exact absurd rfl (h _)
  · rfl

theorem sortKey_notX (f : RFm) : sortKey (.not (.X f)) = f.height + 1 := rfl
theorem sortKey_X (f : RFm) : sortKey (.X f) = f.height + 1 := rfl

/-! ### the closure as the least set closed under the rules of `_get_closure` -/

inductive InCl (g : RFm) : RFm → Prop
  | base : InCl g g
  | lnot {φ} : InCl g φ → InCl g (lnotR φ)
  | X {f} : InCl g (.X f) → InCl g f
  | notX {sf} : InCl g (.not (.X sf)) → InCl g (.X (lnotR sf))
  | or {fs f} : InCl g (.or fs) → f ∈ fs → InCl g f
  | U1 {f h} : InCl g (.U f h) → InCl g f
  | U2 {f h} : InCl g (.U f h) → InCl g h
  | UX {f h} : InCl g (.U f h) → InCl g (.X (.U f h))

theorem InCl.noNN {g φ : RFm} (hg : g.noNN = true) (h : InCl g φ) : φ.noNN = true := by
  induction h with
  | base => exact hg
  | lnot _ ih => exact noNN_lnotR ih
  | X _ ih => simpa [noNN_X] using ih
  | notX _ ih =>
    have := (noNN_not ih).2
    rw [noNN_X] at this ⊢
    exact noNN_lnotR this
  | or _ hf ih => exact noNN_or.mp ih _ hf
  | U1 _ ih => exact (by simpa [noNN_U] using ih : _ ∧ _).1
  | U2 _ ih => exact (by simpa [noNN_U] using ih : _ ∧ _).2
  | UX _ ih => simpa [noNN_X] using ih

/-- every subformula of a formula without double negation is in its closure -/
theorem InCl.of_subs {g φ : RFm} (hg : g.noNN = true) (h : φ ∈ g.subs) : InCl g φ := by
  suffices H : ∀ ψ, InCl g ψ → ∀ φ ∈ ψ.subs, InCl g φ from H g .base φ h
  intro ψ
  induction ψ using RFm.induct' with
  | tt => intro hψ φ h; simp [RFm.subs] at h; subst h; exact hψ
  | ff => intro hψ φ h; simp [RFm.subs] at h; subst h; exact hψ
  | ap n => intro hψ φ h; simp [RFm.subs] at h; subst h; exact hψ
  | not f ih =>
    intro hψ φ h
    simp only [RFm.subs, List.mem_cons] at h
    rcases h with rfl | h
    · exact hψ
    · have := hψ.lnot
      rw [lnotR_not (hψ.noNN hg)] at this
      exact ih this φ h
  | or fs ih =>
    intro hψ φ h
    simp only [RFm.subs, List.mem_cons, subsList_mem] at h
    rcases h with rfl | ⟨f, hf, h⟩
    · exact hψ
    · exact ih f hf (hψ.or hf) φ h
  | X f ih =>
    intro hψ φ h
    simp only [RFm.subs, List.mem_cons] at h
    rcases h with rfl | h
    · exact hψ
    · exact ih hψ.X φ h
  | U f k ihf ihk =>
    intro hψ φ h
    simp only [RFm.subs, List.mem_cons, List.mem_append] at h
    rcases h with rfl | h | h
    · exact hψ
    · exact ihf hψ.U1 φ h
    · exact ihk hψ.U2 φ h

/-- where closure formulas come from: `φ` or `LNot φ` is a subformula, an elementary formula, or the dual `X (LNot c)`
    of an elementary formula `X c` -/
def InE (g φ : RFm) : Prop := φ ∈ g.subs ∨ φ ∈ elemX g ∨ ∃ c, RFm.X c ∈ elemX g ∧ φ = .X (lnotR c)

theorem elemX_cases {g x : RFm} (h : x ∈ elemX g) :
    (∃ f, x = .X f ∧ RFm.X f ∈ g.subs) ∨ (∃ f k, x = .X (.U f k) ∧ RFm.U f k ∈ g.subs) := by
  simp only [elemX, mem_dedup, List.mem_filterMap] at h
  obtain ⟨k, hk, hk'⟩ := h
  cases k <;> simp at hk'
  · exact Or.inl ⟨_, hk'.symm, hk⟩
  · exact Or.inr ⟨_, _, hk'.symm, hk⟩

theorem sub_of_X_elemX {g c : RFm} (h : RFm.X c ∈ elemX g) : c ∈ g.subs := by
  rcases elemX_cases h with ⟨f, hx, hm⟩ | ⟨f, k, hx, hm⟩
  · cases hx; exact subs_trans (by simp [RFm.subs, self_mem_subs]) hm
  · cases hx; exact hm

theorem InE.X_inv {g c : RFm} (hg : g.noNN = true) (h : InE g (.X c)) :
    RFm.X c ∈ elemX g ∨ (RFm.X (lnotR c) ∈ elemX g) := by
  rcases h with h | h | ⟨c', hc', heq⟩
  · exact Or.inl (X_mem_elemX h)
  · exact Or.inl h
  · cases heq
    right
    rw [lnotR_invol (noNN_subs hg (sub_of_X_elemX hc'))]
    exact hc'

/-- an `or` / `U` formula of the closure is a subformula -/
theorem sub_of_inE {g φ : RFm} (hn : ∀ k, φ ≠ .not k) (hx : ∀ k, φ ≠ .X k)
    (h : InE g φ ∨ InE g (lnotR φ)) : φ ∈ g.subs := by
  rcases h with ih | ih
  · rcases ih with ih | ih | ⟨c, _, heq⟩
    · exact ih
    · obtain ⟨f', hf'⟩ := elemX_form ih; exact absurd hf' (hx _)
    · exact absurd heq (hx _)
  · rw [lnotR_of_ne hn] at ih
    rcases ih with ih | ih | ⟨c, _, heq⟩
    · exact subs_trans (by simp [RFm.subs, self_mem_subs]) ih
    · obtain ⟨f', hf'⟩ := elemX_form ih; cases hf'
    · cases heq

theorem InCl.inE {g φ : RFm} (hg : g.noNN = true) (h : InCl g φ) : InE g φ ∨ InE g (lnotR φ) := by
  induction h with
  | base => exact Or.inl (Or.inl (self_mem_subs g))
  | @lnot φ h ih =>
    rw [lnotR_invol (h.noNN hg)]
    exact ih.symm
  | @X f h ih =>
    have hX : InE g (.X f) := by
      rcases ih with ih | ih
      · exact ih
      · rw [lnotR_of_ne (by intro k hk; cases hk)] at ih
        rcases ih with ih | ih | ⟨c, _, heq⟩
        · exact Or.inl (subs_trans (by simp [RFm.subs]) ih)
        · obtain ⟨f', hf'⟩ := elemX_form ih; cases hf'
        · cases heq
    rcases InE.X_inv hg hX with h1 | h1
    · exact Or.inl (Or.inl (sub_of_X_elemX h1))
    · exact Or.inr (Or.inl (sub_of_X_elemX h1))
  | @notX sf h ih =>
    have hX : InE g (.X sf) := by
      rcases ih with ih | ih
      · rcases ih with ih | ih | ⟨c, _, heq⟩
        · exact Or.inl (subs_trans (by simp [RFm.subs]) ih)
        · obtain ⟨f', hf'⟩ := elemX_form ih; cases hf'
        · cases heq
      · rwa [lnotR_not (h.noNN hg)] at ih
    left
    rcases InE.X_inv hg hX with h1 | h1
    · exact Or.inr (Or.inr ⟨sf, h1, rfl⟩)
    · exact Or.inr (Or.inl h1)
  | @or fs f h hf ih =>
    have hs : RFm.or fs ∈ g.subs := sub_of_inE (by intro k hk; cases hk) (by intro k hk; cases hk) ih
    exact Or.inl (Or.inl (subs_trans (by simp [RFm.subs, subsList_mem]; exact Or.inr ⟨f, hf, self_mem_subs f⟩) hs))
  | @U1 f k h ih =>
    have hs : RFm.U f k ∈ g.subs := sub_of_inE (by intro k hk; cases hk) (by intro k hk; cases hk) ih
    exact Or.inl (Or.inl (subs_trans (by simp [RFm.subs, self_mem_subs]) hs))
  | @U2 f k h ih =>
    have hs : RFm.U f k ∈ g.subs := sub_of_inE (by intro k hk; cases hk) (by intro k hk; cases hk) ih
    exact Or.inl (Or.inl (subs_trans (by simp [RFm.subs, self_mem_subs]) hs))
  | @UX f k h ih =>
    have hs : RFm.U f k ∈ g.subs := sub_of_inE (by intro k hk; cases hk) (by intro k hk; cases hk) ih
    exact Or.inl (Or.inr (Or.inl (XU_mem_elemX hs)))

/-- the X-formulas of the closure are the elementary formulas and their duals -/
theorem InCl.X_cases {g c : RFm} (hg : g.noNN = true) (h : InCl g (.X c)) :
    RFm.X c ∈ elemX g ∨ RFm.X (lnotR c) ∈ elemX g := by
  have hX : InE g (.X c) := by
    rcases h.inE hg with ih | ih
    · exact ih
    · rw [lnotR_of_ne (by intro k hk; cases hk)] at ih
      rcases ih with ih | ih | ⟨c, _, heq⟩
      · exact Or.inl (subs_trans (by simp [RFm.subs]) ih)
      · obtain ⟨f', hf'⟩ := elemX_form ih; cases hf'
      · cases heq
  exact InE.X_inv hg hX

/-- the U-formulas of the closure are subformulas -/
theorem InCl.U_sub {g f k : RFm} (hg : g.noNN = true) (h : InCl g (.U f k)) : RFm.U f k ∈ g.subs :=
  sub_of_inE (by intro k hk; cases hk) (by intro k hk; cases hk) (h.inE hg)

theorem InCl.of_elemX {g x : RFm} (hg : g.noNN = true) (h : x ∈ elemX g) : InCl g x := by
  rcases elemX_cases h with ⟨f, rfl, hm⟩ | ⟨f, k, rfl, hm⟩
  · exact InCl.of_subs hg hm
  · exact (InCl.of_subs hg hm).UX

/-- the closure contains the dual `X (LNot c)` of every `X c` -/
theorem InCl.dual {g c : RFm} (h : InCl g (.X c)) : InCl g (.X (lnotR c)) := by
  have := h.lnot
  rw [lnotR_of_ne (by intro k hk; cases hk)] at this
  exact this.notX

end PMC.LTL
