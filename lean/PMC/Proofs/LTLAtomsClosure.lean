/-
  `_get_closure` (the work-list `closure`, PMC/Model/LTLAtoms.lean) computes exactly the inductively defined closure
  `InCl`, without repetitions (`closure_spec`, `closure_nodup`); hence the Boolean `admissibleB` the harness evaluates
  on the implementation's own `cl_list` is the hypothesis `Adm` of the correspondence theorem (`adm_of_admissibleB`),
  and the default order is admissible (`adm_default`).
-/
import PMC.Proofs.LTLAtomsInv

namespace PMC.LTL
set_option linter.unusedSectionVars false

/-! ### a finite universe for the closure -/

def dualX : RFm → RFm
  | .X c => .X (lnotR c)
  | f => f

/-- subformulas, elementary formulas and their duals -/
def univE (g : RFm) : List RFm := g.subs ++ (elemX g ++ (elemX g).map dualX)

/-- … and their `LNot`s -/
def univ (g : RFm) : List RFm := univE g ++ (univE g).map lnotR

theorem InE.mem_univE {g φ : RFm} (h : InE g φ) : φ ∈ univE g := by
  simp only [univE, List.mem_append, List.mem_map]
  rcases h with h | h | ⟨c, hc, rfl⟩
  · exact Or.inl h
  · exact Or.inr (Or.inl h)
  · exact Or.inr (Or.inr ⟨_, hc, rfl⟩)

theorem InCl.mem_univ {g φ : RFm} (hg : g.noNN = true) (h : InCl g φ) : φ ∈ univ g := by
  simp only [univ, List.mem_append, List.mem_map]
  rcases h.inE hg with h1 | h1
  · exact Or.inl h1.mem_univE
  · exact Or.inr ⟨_, h1.mem_univE, lnotR_invol (h.noNN hg)⟩

theorem subsList_length_sizeList (fs : List RFm) (ih : ∀ f ∈ fs, f.subs.length = f.size) :
    (RFm.subs.subsList fs).length = RFm.size.sizeList fs := by
  induction fs with
  | nil => rfl
  | cons f fs ihl =>
    simp only [RFm.subs.subsList, RFm.size.sizeList, List.length_append]
    rw [ih f (by simp), ihl (fun f' hf' => ih f' (by simp [hf']))]

theorem subs_length (g : RFm) : g.subs.length = g.size := by
  induction g using RFm.induct' with
  | tt => rfl
  | ff => rfl
  | ap n => rfl
  | not f ih => simp [RFm.subs, RFm.size, ih]
  | or fs ih => simp [RFm.subs, RFm.size, subsList_length_sizeList fs ih]
  | X f ih => simp [RFm.subs, RFm.size, ih]
  | U f k ihf ihk => simp only [RFm.subs, RFm.size, List.length_cons, List.length_append, ihf, ihk]

theorem dedup_length_le {α : Type} [DecidableEq α] (l : List α) : (dedup l).length ≤ l.length := by
  induction l with
  | nil => simp [dedup]
  | cons a l ih =>
    simp only [dedup, List.length_cons]
    have := List.length_filter_le (fun b => decide (b ≠ a)) (dedup l)
    omega

theorem elemX_length_le (g : RFm) : (elemX g).length ≤ g.size := by
  rw [← subs_length]
  exact (dedup_length_le _).trans (List.length_filterMap_le _ _)

theorem univ_length_le (g : RFm) : (univ g).length ≤ 6 * g.size := by
  have h1 := elemX_length_le g
  have h2 := subs_length g
  simp only [univ, univE, List.length_append, List.length_map]
  omega

theorem size_pos (g : RFm) : 0 < g.size := by
  cases g <;> simp [RFm.size]

theorem sizeList_ge_length (fs : List RFm) : fs.length ≤ RFm.size.sizeList fs := by
  induction fs with
  | nil => simp [RFm.size.sizeList]
  | cons f fs ih => simp only [RFm.size.sizeList, List.length_cons]; have := size_pos f; omega

theorem size_le_of_sub {g φ : RFm} (h : φ ∈ g.subs) : φ.size ≤ g.size := by
  induction g using RFm.induct' with
  | tt => simp [RFm.subs] at h; subst h; exact le_rfl
  | ff => simp [RFm.subs] at h; subst h; exact le_rfl
  | ap n => simp [RFm.subs] at h; subst h; exact le_rfl
  | not f ih =>
    simp only [RFm.subs, List.mem_cons] at h
    rcases h with rfl | h
    · exact le_rfl
    · have := ih h; simp only [RFm.size]; omega
  | or fs ih =>
    simp only [RFm.subs, List.mem_cons, subsList_mem] at h
    rcases h with rfl | ⟨f, hf, h⟩
    · exact le_rfl
    · have h1 := ih f hf h
      have h2 : f.size ≤ RFm.size.sizeList fs := by
        clear ih h h1
        induction fs with
        | nil => cases hf
        | cons a fs ihl =>
          simp only [RFm.size.sizeList]
          rcases List.mem_cons.mp hf with rfl | hf
          · omega
          · have := ihl hf; omega
      simp only [RFm.size]; omega
  | X f ih =>
    simp only [RFm.subs, List.mem_cons] at h
    rcases h with rfl | h
    · exact le_rfl
    · have := ih h; simp only [RFm.size]; omega
  | U f k ihf ihk =>
    simp only [RFm.subs, List.mem_cons, List.mem_append] at h
    rcases h with rfl | h | h
    · exact le_rfl
    · have := ihf h; simp only [RFm.size]; omega
    · have := ihk h; simp only [RFm.size]; omega

/-- a closure formula pushes at most `size g + 3` formulas -/
theorem closurePush_length_le {g φ : RFm} (hg : g.noNN = true) (h : InCl g φ) :
    (closurePush φ).length ≤ g.size + 3 := by
  have hpos := size_pos g
  unfold closurePush
  split
  · simp
  · simp
  · rename_i fs
    have hs : RFm.or fs ∈ g.subs := sub_of_inE (by intro k e; cases e) (by intro k e; cases e) (h.inE hg)
    have h1 := size_le_of_sub hs
    have h2 := sizeList_ge_length fs
    simp only [RFm.size] at h1
    simp only [List.length_cons]
    omega
  · simp; omega
  · simp

/-! ### the work-list loop -/

/-- the rules of `InCl` are the pushes -/
theorem InCl.push {g φ ψ : RFm} (h : InCl g φ) (hψ : ψ ∈ closurePush φ) : InCl g ψ := by
  unfold closurePush at hψ
  simp only [List.mem_cons] at hψ
  rcases hψ with rfl | hψ
  · exact h.lnot
  · split at hψ
    · simp only [List.mem_cons, List.not_mem_nil, or_false] at hψ; subst hψ; exact h.X
    · simp only [List.mem_cons, List.not_mem_nil, or_false] at hψ; subst hψ; exact h.notX
    · exact h.or hψ
    · simp only [List.mem_cons, List.not_mem_nil, or_false] at hψ
      rcases hψ with rfl | rfl | rfl
      · exact h.U1
      · exact h.U2
      · exact h.UX
    · simp at hψ

/-- a set containing `g` and closed under the pushes contains the closure -/
theorem InCl.sub_of_closed {g : RFm} {cl : List RFm} (hgm : g ∈ cl)
    (hc : ∀ φ ∈ cl, ∀ ψ ∈ closurePush φ, ψ ∈ cl) {φ : RFm} (h : InCl g φ) : φ ∈ cl := by
  induction h with
  | base => exact hgm
  | lnot _ ih => exact hc _ ih _ (by simp [closurePush])
  | X _ ih => exact hc _ ih _ (by simp [closurePush])
  | notX _ ih => exact hc _ ih _ (by simp [closurePush])
  | or _ hf ih => exact hc _ ih _ (by simp [closurePush, hf])
  | U1 _ ih => exact hc _ ih _ (by simp [closurePush])
  | U2 _ ih => exact hc _ ih _ (by simp [closurePush])
  | UX _ ih => exact hc _ ih _ (by simp [closurePush])

structure ClInv (g : RFm) (T cl : List RFm) : Prop where
  sound : ∀ φ, (φ ∈ T ∨ φ ∈ cl) → InCl g φ
  closed : ∀ φ ∈ cl, ∀ ψ ∈ closurePush φ, ψ ∈ cl ∨ ψ ∈ T
  root : g ∈ cl ∨ g ∈ T
  nodup : cl.Nodup

/-- the termination measure: the unvisited part of the universe weighs more than anything one visit can push -/
def clMeasure (g : RFm) (T cl : List RFm) : Nat :=
  (g.size + 4) * (univ g).countP (fun φ => decide (φ ∉ cl)) + T.length

theorem count_notin_lt {U cl : List RFm} {φ : RFm} (hU : φ ∈ U) (hn : φ ∉ cl) :
    U.countP (fun ψ => decide (ψ ∉ cl ++ [φ])) < U.countP (fun ψ => decide (ψ ∉ cl)) := by
  apply PMC.Graph.countP_lt _ _ U _ φ hU
  · simpa using hn
  · simp
  · intro x _ hx
    simp only [decide_eq_true_eq, List.mem_append, List.mem_singleton, not_or] at hx ⊢
    exact hx.1

theorem closureLoop_spec {g : RFm} (hg : g.noNN = true) :
    ∀ (fuel : Nat) (T cl : List RFm), ClInv g T cl → clMeasure g T cl < fuel →
      (∀ φ, φ ∈ closureLoop fuel T cl ↔ InCl g φ) ∧ (closureLoop fuel T cl).Nodup := by
  intro fuel
  induction fuel with
  | zero => intro T cl _ h; omega
  | succ fuel ih =>
    intro T cl hI hm
    cases T with
    | nil =>
      simp only [closureLoop]
      have hroot : g ∈ cl := by rcases hI.root with h | h; exact h; cases h
      refine ⟨fun φ => ⟨fun h => hI.sound φ (Or.inr h), fun h => ?_⟩, hI.nodup⟩
      exact h.sub_of_closed hroot (fun φ hφ ψ hψ => by
        rcases hI.closed φ hφ ψ hψ with h | h
        · exact h
        · cases h)
    | cons φ T =>
      simp only [closureLoop]
      by_cases hφ : φ ∈ cl
      · rw [if_pos hφ]
        apply ih
        · refine ⟨fun ψ h => hI.sound ψ (by rcases h with h | h; exact Or.inl (by simp [h]); exact Or.inr h),
            fun χ hχ ψ hψ => ?_, ?_, hI.nodup⟩
          · rcases hI.closed χ hχ ψ hψ with h | h
            · exact Or.inl h
            · rcases List.mem_cons.mp h with rfl | h
              · exact Or.inl hφ
              · exact Or.inr h
          · rcases hI.root with h | h
            · exact Or.inl h
            · rcases List.mem_cons.mp h with rfl | h
              · exact Or.inl hφ
              · exact Or.inr h
        · simp only [clMeasure, List.length_cons] at hm ⊢
          omega
      · rw [if_neg hφ]
        have hφin : InCl g φ := hI.sound φ (Or.inl (by simp))
        apply ih
        · refine ⟨fun ψ h => ?_, fun χ hχ ψ hψ => ?_, ?_, ?_⟩
          · simp only [List.mem_append, List.mem_reverse, List.mem_singleton] at h
            rcases h with (h | h) | h | rfl
            · exact hφin.push h
            · exact hI.sound ψ (Or.inl (by simp [h]))
            · exact hI.sound ψ (Or.inr h)
            · exact hφin
          · simp only [List.mem_append, List.mem_singleton] at hχ
            simp only [List.mem_append, List.mem_reverse, List.mem_singleton]
            rcases hχ with hχ | rfl
            · rcases hI.closed χ hχ ψ hψ with h | h
              · exact Or.inl (Or.inl h)
              · rcases List.mem_cons.mp h with rfl | h
                · exact Or.inl (Or.inr rfl)
                · exact Or.inr (Or.inr h)
            · exact Or.inr (Or.inl hψ)
          · simp only [List.mem_append, List.mem_reverse, List.mem_singleton]
            rcases hI.root with h | h
            · exact Or.inl (Or.inl h)
            · rcases List.mem_cons.mp h with rfl | h
              · exact Or.inl (Or.inr rfl)
              · exact Or.inr (Or.inr h)
          · exact List.nodup_append.mpr ⟨hI.nodup, by simp, fun a ha b hb => by
              simp only [List.mem_singleton] at hb; subst hb; intro e; exact hφ (e ▸ ha)⟩
        · have h1 := count_notin_lt (hφin.mem_univ hg) hφ
          have h2 := closurePush_length_le hg hφin
          simp only [clMeasure, List.length_cons, List.length_append, List.length_reverse] at hm ⊢
          have h3 : (g.size + 4) * (univ g).countP (fun ψ => decide (ψ ∉ cl ++ [φ])) + (g.size + 4)
              ≤ (g.size + 4) * (univ g).countP (fun ψ => decide (ψ ∉ cl)) := by
            rw [← Nat.mul_succ]
            exact Nat.mul_le_mul_left _ h1
          omega

/-- **`_get_closure` computes the closure** -/
theorem closure_spec {g : RFm} (hg : g.noNN = true) : ∀ φ, φ ∈ closure g ↔ InCl g φ := by
  refine (closureLoop_spec hg (closureFuel g) [g] [] ⟨?_, by simp, by simp, by simp⟩ ?_).1
  · intro φ h
    simp only [List.mem_singleton, List.not_mem_nil, or_false] at h
    subst h; exact .base
  · have h1 := univ_length_le g
    have h2 : (univ g).countP (fun φ => decide (φ ∉ ([] : List RFm))) ≤ (univ g).length :=
      List.countP_le_length
    simp only [clMeasure, closureFuel, List.length_singleton]
    have h3 : (g.size + 4) * (univ g).countP (fun φ => decide (φ ∉ ([] : List RFm)))
        ≤ (g.size + 4) * (6 * g.size) := Nat.mul_le_mul_left _ (h2.trans h1)
    have h4 : (g.size + 4) * (6 * g.size) ≤ 12 * g.size * (g.size + 4) := by
      have : (g.size + 4) * (6 * g.size) = 6 * g.size * (g.size + 4) := by ring
      rw [this]
      exact Nat.mul_le_mul_right _ (by omega)
    omega

theorem closure_nodup {g : RFm} (hg : g.noNN = true) : (closure g).Nodup := by
  refine (closureLoop_spec hg (closureFuel g) [g] [] ⟨?_, by simp, by simp, by simp⟩ ?_).2
  · intro φ h
    simp only [List.mem_singleton, List.not_mem_nil, or_false] at h
    subst h; exact .base
  · have h1 := univ_length_le g
    have h2 : (univ g).countP (fun φ => decide (φ ∉ ([] : List RFm))) ≤ (univ g).length :=
      List.countP_le_length
    simp only [clMeasure, closureFuel, List.length_singleton]
    have h3 : (g.size + 4) * (univ g).countP (fun φ => decide (φ ∉ ([] : List RFm)))
        ≤ (g.size + 4) * (6 * g.size) := Nat.mul_le_mul_left _ (h2.trans h1)
    have h4 : (g.size + 4) * (6 * g.size) ≤ 12 * g.size * (g.size + 4) := by
      have : (g.size + 4) * (6 * g.size) = 6 * g.size * (g.size + 4) := by ring
      rw [this]
      exact Nat.mul_le_mul_right _ (by omega)
    omega

/-! ### admissible orders -/

theorem nodupB_iff (l : List RFm) : nodupB l = true ↔ l.Nodup := by
  induction l with
  | nil => simp [nodupB]
  | cons a l ih => simp [nodupB, ih]

theorem sortedByKeyB_iff (l : List RFm) :
    sortedByKeyB l = true ↔ l.Pairwise (fun a b => sortKey a ≤ sortKey b) := by
  induction l with
  | nil => simp [sortedByKeyB]
  | cons a l ih =>
    cases l with
    | nil => simp [sortedByKeyB]
    | cons b l =>
      simp only [sortedByKeyB, Bool.and_eq_true, decide_eq_true_eq, ih, List.pairwise_cons]
      constructor
      · rintro ⟨h1, h2, h3⟩
        refine ⟨fun c hc => ?_, h2, h3⟩
        rcases List.mem_cons.mp hc with rfl | hc
        · exact h1
        · exact h1.trans (h2 c hc)
      · rintro ⟨h1, h2, h3⟩
        exact ⟨h1 b (by simp), h2, h3⟩

/-- what the harness checks on the implementation's `cl_list` is the hypothesis of the correspondence theorem -/
theorem adm_of_admissibleB {g : RFm} {cl : List RFm} (hg : g.noNN = true) (h : admissibleB g cl = true) :
    Adm g cl := by
  simp only [admissibleB, Bool.and_eq_true, List.all_eq_true, List.contains_iff_mem] at h
  obtain ⟨⟨⟨h1, h2⟩, h3⟩, h4⟩ := h
  refine ⟨fun φ => ?_, (sortedByKeyB_iff cl).mp h2, (nodupB_iff cl).mp h1⟩
  rw [← closure_spec hg]
  exact ⟨fun hm => h3 φ hm, fun hm => h4 φ hm⟩

theorem mem_insertByKey (φ ψ : RFm) (l : List RFm) : ψ ∈ insertByKey φ l ↔ ψ = φ ∨ ψ ∈ l := by
  induction l with
  | nil => simp [insertByKey]
  | cons a l ih =>
    simp only [insertByKey]
    split
    · simp only [List.mem_cons, ih]; tauto
    · simp only [List.mem_cons]

theorem insertByKey_sorted (φ : RFm) (l : List RFm) (h : l.Pairwise (fun a b => sortKey a ≤ sortKey b)) :
    (insertByKey φ l).Pairwise (fun a b => sortKey a ≤ sortKey b) := by
  induction l with
  | nil => simp [insertByKey]
  | cons a l ih =>
    obtain ⟨h1, h2⟩ := List.pairwise_cons.mp h
    simp only [insertByKey]
    split
    · rename_i hle
      refine List.pairwise_cons.mpr ⟨fun b hb => ?_, ih h2⟩
      rcases (mem_insertByKey φ b l).mp hb with rfl | hb
      · exact hle
      · exact h1 b hb
    · rename_i hle
      refine List.pairwise_cons.mpr ⟨fun b hb => ?_, h⟩
      rcases List.mem_cons.mp hb with rfl | hb
      · omega
      · have := h1 b hb; omega

theorem insertByKey_nodup (φ : RFm) (l : List RFm) (h : l.Nodup) (hφ : φ ∉ l) : (insertByKey φ l).Nodup := by
  induction l with
  | nil => simp [insertByKey]
  | cons a l ih =>
    obtain ⟨h1, h2⟩ := List.nodup_cons.mp h
    simp only [insertByKey]
    split
    · refine List.nodup_cons.mpr ⟨fun hm => ?_, ih h2 (fun hm => hφ (List.mem_cons_of_mem _ hm))⟩
      rcases (mem_insertByKey φ a l).mp hm with rfl | hm
      · exact hφ (by simp)
      · exact h1 hm
    · exact List.nodup_cons.mpr ⟨hφ, h⟩

theorem sortByKey_spec (l : List RFm) (hnd : l.Nodup) :
    (∀ φ, φ ∈ sortByKey l ↔ φ ∈ l) ∧ (sortByKey l).Pairwise (fun a b => sortKey a ≤ sortKey b) ∧ (sortByKey l).Nodup := by
  unfold sortByKey
  suffices H : ∀ (l acc : List RFm), (acc ++ l).Nodup → acc.Pairwise (fun a b => sortKey a ≤ sortKey b) →
      (∀ φ, φ ∈ l.foldl (fun acc φ => insertByKey φ acc) acc ↔ φ ∈ acc ∨ φ ∈ l) ∧
      (l.foldl (fun acc φ => insertByKey φ acc) acc).Pairwise (fun a b => sortKey a ≤ sortKey b) ∧
      (l.foldl (fun acc φ => insertByKey φ acc) acc).Nodup by
    have := H l [] (by simpa using hnd) (by simp)
    simpa using this
  intro l
  induction l with
  | nil => intro acc h1 h2; simp only [List.append_nil] at h1; simpa using ⟨h2, h1⟩
  | cons a l ih =>
    intro acc h1 h2
    simp only [List.foldl_cons]
    have hnd := List.nodup_append.mp h1
    have ha : a ∉ acc := fun hm => hnd.2.2 a hm a (by simp) rfl
    have hl := List.nodup_cons.mp hnd.2.1
    have := ih (insertByKey a acc) (by
      refine List.nodup_append.mpr ⟨insertByKey_nodup a acc hnd.1 ha, hl.2, fun x hx y hy e => ?_⟩
      subst e
      rcases (mem_insertByKey a x acc).mp hx with rfl | hx
      · exact hl.1 hy
      · exact hnd.2.2 x hx x (List.mem_cons_of_mem _ hy) rfl) (insertByKey_sorted a acc h2)
    refine ⟨fun φ => ?_, this.2⟩
    rw [this.1 φ, mem_insertByKey, List.mem_cons]
    tauto

/-- the default processing order is admissible -/
theorem adm_default {g : RFm} (hg : g.noNN = true) : Adm g (defaultOrder g) := by
  obtain ⟨h1, h2, h3⟩ := sortByKey_spec (closure g) (closure_nodup hg)
  exact ⟨fun φ => (h1 φ).trans (closure_spec hg φ), h2, h3⟩

end PMC.LTL
