/-
  What reaches the tableau: `get_equivalent_restricted_formula` never produces a double negation
  (`restrict_noNN`), which is the hypothesis `_build_atoms` needs (PMC/Proofs/LTLAtomsInv.lean).
-/
import PMC.Proofs.LTLAtomsBasic
import PMC.Proofs.Rewrite

namespace PMC.LTL
open PMC Fm

/-- no subformula of the form `not not f` (shared syntax) -/
def noNNF : Fm → Bool
  | .tt | .ff | .ap _ => true
  | .not (.not _) => false
  | .not f => noNNF f
  | .or fs => noNNFList fs
  | .and fs => noNNFList fs
  | .imp f g => noNNF f && noNNF g
  | .X f | .F f | .G f | .A f | .E f => noNNF f
  | .U f g | .R f g => noNNF f && noNNF g
where noNNFList : List Fm → Bool
  | [] => true
  | f :: fs => noNNF f && noNNFList fs

theorem noNNF_not_of_ne {f : Fm} (h : ∀ k, f ≠ .not k) : noNNF (.not f) = noNNF f := by
  cases f <;> first | rfl | exact absurd rfl (h _)

theorem noNNF_lnot (f : Fm) (h : noNNF f = true) : noNNF (lnot f) = true := by
  fun_induction lnot f with
  | case1 f _ => simp [noNNF] at h
  | case2 f hne => rwa [noNNF_not_of_ne (fun k e => hne k e)] at h
  | case3 f _ hne => rwa [noNNF_not_of_ne (fun k e => hne k e)]

theorem noNNF_restrict (f : Fm) : noNNF (restrict f) = true := by
  apply Fm.restrict.induct
    (motive_1 := fun fs => noNNF.noNNFList (restrict.restrictList fs) = true)
    (motive_3 := fun fs => noNNF.noNNFList (restrict.restrictNegList fs) = true)
    (motive_2 := fun f => noNNF (restrict f) = true)
  all_goals (intros; simp_all [restrict, restrict.restrictList, restrict.restrictNegList, noNNF, noNNF.noNNFList,
    noNNF_lnot])

theorem toR_eq_not {f : Fm} {k : RFm} (h : toR f = some (.not k)) : ∃ f', f = .not f' := by
  cases f with
  | not f' => exact ⟨f', rfl⟩
  | U a b =>
    simp only [toR] at h
    split at h <;> cases h
  | _ => simp [toR] at h

theorem toR_noNN (f : Fm) : ∀ r, toR f = some r → noNNF f = true → r.noNN = true := by
  apply toR.induct
    (motive_1 := fun fs => ∀ rs, toR.toRList fs = some rs → noNNF.noNNFList fs = true → RFm.noNN.noNNList rs = true)
    (motive_2 := fun f => ∀ r, toR f = some r → noNNF f = true → r.noNN = true)
  · intro r h _; simp [toR] at h; subst h; rfl
  · intro r h _; simp [toR] at h; subst h; rfl
  · intro n r h _; simp [toR] at h; subst h; rfl
  · intro f ih r h hn
    simp only [toR, Option.map_eq_some_iff] at h
    obtain ⟨r', hr', rfl⟩ := h
    have hne : ∀ k, f ≠ .not k := by
      intro k e; subst e; simp [noNNF] at hn
    rw [noNNF_not_of_ne hne] at hn
    refine noNN_not_intro (fun k e => ?_) (ih r' hr' hn)
    subst e
    obtain ⟨f', rfl⟩ := toR_eq_not hr'
    exact hne _ rfl
  · intro fs ih r h hn
    simp only [toR, Option.map_eq_some_iff] at h
    obtain ⟨rs, hrs, rfl⟩ := h
    simpa [RFm.noNN] using ih rs hrs (by simpa [noNNF] using hn)
  · intro f ih r h hn
    simp only [toR, Option.map_eq_some_iff] at h
    obtain ⟨r', hr', rfl⟩ := h
    simpa [RFm.noNN] using ih r' hr' (by simpa [noNNF] using hn)
  · intro f g f' g' hg hf ihf ihg r h hn
    simp only [toR, hf, hg, Option.some.injEq] at h
    subst h
    simp only [noNNF, Bool.and_eq_true] at hn
    simp [RFm.noNN, ihf f' hf hn.1, ihg g' hg hn.2]
  · intro f g hno _ _ r h _
    exfalso
    simp only [toR] at h
    cases h
  · intro t h1 h2 h3 h4 h5 h6 h7 r h _
    exfalso
    cases t <;> simp [toR] at h <;> first | exact h1 rfl | exact h2 rfl | exact h3 _ rfl | exact h4 _ rfl | exact h5 _ rfl | exact h6 _ rfl | exact h7 _ _ rfl
  · intro rs h _; simp [toR.toRList] at h; subst h; rfl
  · intro f fs f' fs' hfs hf ihf ihfs rs h hn
    simp only [toR.toRList, hf, hfs, Option.some.injEq] at h
    subst h
    simp only [noNNF.noNNFList, Bool.and_eq_true] at hn
    simp [RFm.noNN.noNNList, ihf f' hf hn.1, ihfs fs' hfs hn.2]
  · intro f fs hno _ _ rs h _
    exfalso
    simp only [toR.toRList] at h
    cases h

/-- the formula `modelcheck` hands to `_checkE_path_formula` has no double negation -/
theorem restrict_noNN (f : Fm) (r : RFm) (h : toR f.restrict = some r) : r.noNN = true :=
  toR_noNN _ r h (noNNF_restrict f)

end PMC.LTL
