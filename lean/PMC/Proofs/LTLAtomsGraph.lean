/-
  The tableau over the atoms `_build_atoms` builds versus the tableau over the declarative atoms.

  `delta` maps a built node to the declarative atom (its state, the elementary formulas it contains).  Every built
  atom satisfies the truth lemma `built_truth` (membership of a subformula = its value in `delta`); a built node with
  an outgoing edge is dual-consistent (`edge_dualOK`: it contains exactly one of `X c`, `X (LNot c)`); edges project
  (`edge_proj`) and, from dual-consistent nodes, lift (`edge_lift`); every declarative atom with an outgoing edge is
  the image of a dual-consistent built node (`lift_atom`).  Hence non-trivial self-fulfilling components and backward
  reachability correspond, and `checkEBuilt` and `checkE` return the same states (`checkEBuilt_iff_checkE`).
-/
import PMC.Proofs.LTLAtomsInv
import PMC.Proofs.LTLExact

namespace PMC.LTL
open Relation
variable {σ : Type} [DecidableEq σ]
set_option linter.unusedSectionVars false

/-! ### generic facts about components -/

theorem cycle_of_nontrivial {α : Type} [DecidableEq α] {next : α → List α} {C : List α} {x c : α} {rest : List α}
    (hnd : C.Nodup) (_hx : x ∈ C) (hclass : ∀ y, y ∈ C ↔ (Reach next x y ∧ Reach next y x))
    (hC : C = c :: rest) (hnt : C.length > 1 ∨ c ∈ next c) : TransGen (Edge next) x x := by
  rcases hnt with hlen | hself
  · have : ∃ y ∈ C, y ≠ x := by
      by_contra hcon
      push Not at hcon
      have := length_le_one_of_all_eq hnd hcon
      omega
    obtain ⟨y, hy, hne⟩ := this
    obtain ⟨h1, h2⟩ := (hclass y).mp hy
    rcases reflTransGen_iff_eq_or_transGen.mp h1 with heq | h1'
    · exact absurd heq hne
    · exact h1'.trans_left h2
  · have hcC : c ∈ C := by rw [hC]; simp
    obtain ⟨h1, h2⟩ := (hclass c).mp hcC
    exact (TransGen.trans_right h1 (TransGen.single hself)).trans_left h2

theorem nontrivial_of_cycle {α : Type} [DecidableEq α] {next : α → List α} {C : List α} {x : α}
    (hx : x ∈ C) (hclass : ∀ y, y ∈ C ↔ (Reach next x y ∧ Reach next y x)) (hcyc : TransGen (Edge next) x x) :
    ∃ c rest, C = c :: rest ∧ (C.length > 1 ∨ c ∈ next c) := by
  cases C with
  | nil => simp at hx
  | cons c0 rest =>
    refine ⟨c0, rest, rfl, ?_⟩
    by_cases hlen : (c0 :: rest).length > 1
    · exact Or.inl hlen
    · right
      have hrest : rest = [] := by
        cases rest with
        | nil => rfl
        | cons _ _ => simp at hlen
      subst hrest
      have hc0 : x = c0 := by simpa using hx
      subst hc0
      obtain ⟨y, hcy, hyc⟩ := TransGen.head'_iff.mp hcyc
      have hy : y ∈ [x] := (hclass y).mpr ⟨.single hcy, hyc⟩
      have hy' : y = x := by simpa using hy
      subst hy'
      exact hcy

/-! ### nodes -/

theorem mem_indexFrom {α : Type} {l : List α} {k : Nat} {p : Nat × α} (h : p ∈ indexFrom k l) : p.2 ∈ l := by
  induction l generalizing k with
  | nil => simp [indexFrom] at h
  | cons a l ih =>
    simp only [indexFrom, List.mem_cons] at h
    rcases h with rfl | h
    · simp
    · exact List.mem_cons_of_mem _ (ih h)

theorem exists_indexFrom {α : Type} {l : List α} {a : α} (k : Nat) (h : a ∈ l) : ∃ i, (i, a) ∈ indexFrom k l := by
  induction l generalizing k with
  | nil => cases h
  | cons b l ih =>
    rcases List.mem_cons.mp h with rfl | h
    · exact ⟨k, by simp [indexFrom]⟩
    · obtain ⟨i, hi⟩ := ih (k+1) h
      exact ⟨i, by simp [indexFrom, hi]⟩

section
variable {K : Kripke σ} {g : RFm} {cl : List RFm}

theorem atom_of_node {n : BNode σ} (h : n ∈ bnodes K cl) : n.2 ∈ buildAtoms K cl := mem_indexFrom h

theorem edgeBuilt_iff (n m : BNode σ) :
    edgeBuilt K cl n m = true ↔
      (m.2.1 ∈ K.succ n.2.1 ∧ ∀ c, RFm.X c ∈ cl → (c ∈ m.2.2 ↔ RFm.X c ∈ n.2.2)) := by
  simp only [edgeBuilt, respectsXs, Bool.and_eq_true, decide_eq_true_eq, List.all_eq_true, List.mem_filter]
  constructor
  · rintro ⟨h1, h2⟩
    refine ⟨h1, fun c hc => ?_⟩
    have := h2 (.X c) ⟨hc, rfl⟩
    simpa using this
  · rintro ⟨h1, h2⟩
    refine ⟨h1, fun x hx => ?_⟩
    obtain ⟨hx1, hx2⟩ := hx
    cases x <;> simp [isXB] at hx2
    simpa using h2 _ hx1

theorem mem_bnext (n m : BNode σ) : m ∈ bnext K cl n ↔ (m ∈ bnodes K cl ∧ edgeBuilt K cl n m = true) := by
  simp [bnext, List.mem_filter]

theorem mem_bprev (n m : BNode σ) : m ∈ bprev K cl n ↔ (m ∈ bnodes K cl ∧ edgeBuilt K cl m n = true) := by
  simp [bprev, List.mem_filter]

theorem bnext_closed : ∀ x ∈ bnodes K cl, ∀ w ∈ bnext K cl x, w ∈ bnodes K cl :=
  fun x _ w hw => ((mem_bnext x w).mp hw).1

theorem bprev_closed : ∀ x ∈ bnodes K cl, ∀ w ∈ bprev K cl x, w ∈ bnodes K cl :=
  fun x _ w hw => ((mem_bprev x w).mp hw).1

theorem reach_bnext_of_bprev {x n : BNode σ} (hx : x ∈ bnodes K cl) (h : Reach (bprev K cl) x n) :
    Reach (bnext K cl) n x ∧ n ∈ bnodes K cl := by
  induction h with
  | refl => exact ⟨.refl, hx⟩
  | @tail b c _ hbc ih =>
    have hbc' := (mem_bprev b c).mp hbc
    exact ⟨ReflTransGen.head ((mem_bnext c b).mpr ⟨ih.2, hbc'.2⟩) ih.1, hbc'.1⟩

theorem reach_bprev_of_bnext {x n : BNode σ} (hn : n ∈ bnodes K cl) (h : Reach (bnext K cl) n x) :
    Reach (bprev K cl) x n := by
  induction h using ReflTransGen.head_induction_on with
  | refl => exact .refl
  | @head b c hbc _ ih =>
    have hbc' := (mem_bnext b c).mp hbc
    exact (ih hbc'.1).tail ((mem_bprev c b).mpr ⟨hn, hbc'.2⟩)

/-! ### unfolding `checkEBuilt` -/

theorem mem_checkEBuilt (K : Kripke σ) (g : RFm) (cl : List RFm) (s : σ) :
    s ∈ checkEBuilt K g cl ↔ ∃ n : BNode σ, n.2.1 = s ∧ g ∈ n.2.2 ∧
      ∃ C ∈ SCC.sccs (bnodes K cl) (bnext K cl), ntsfBuilt K cl C = true ∧ ∃ x ∈ C, Reach (bprev K cl) x n := by
  have hs := SCC.sccs_correct (bnodes K cl) (bnext_closed (K := K) (cl := cl))
  have hX : ∀ x ∈ ((SCC.sccs (bnodes K cl) (bnext K cl)).filter (ntsfBuilt K cl)).flatten, x ∈ bnodes K cl := by
    intro x hx
    rw [List.mem_flatten] at hx
    obtain ⟨C, hC, hxC⟩ := hx
    exact (hs.2.1 x).mp (List.mem_flatten.mpr ⟨C, (List.mem_filter.mp hC).1, hxC⟩)
  simp only [checkEBuilt, List.mem_map, List.mem_filter, Graph.reachFromFn_exact _ _ _ bprev_closed hX,
    List.mem_flatten, decide_eq_true_eq]
  constructor
  · rintro ⟨a, ⟨⟨x, ⟨C, ⟨hC, hn⟩, hxC⟩, hr⟩, hg⟩, rfl⟩
    exact ⟨a, rfl, hg, C, hC, hn, x, hxC, hr⟩
  · rintro ⟨a, rfl, hg, C, hC, hn, x, hxC, hr⟩
    exact ⟨a, ⟨⟨x, ⟨C, ⟨hC, hn⟩, hxC⟩, hr⟩, hg⟩, rfl⟩

theorem ntsfBuilt_iff (C : List (BNode σ)) :
    ntsfBuilt K cl C = true ↔ ∃ c rest, C = c :: rest ∧ (C.length > 1 ∨ c ∈ bnext K cl c) ∧
      ∀ f h, RFm.U f h ∈ cl → ((∃ b ∈ C, RFm.U f h ∈ b.2.2) ↔ (∃ b ∈ C, h ∈ b.2.2)) := by
  cases C with
  | nil => simp [ntsfBuilt]
  | cons c rest =>
    simp only [ntsfBuilt, Bool.and_eq_true, Bool.or_eq_true, decide_eq_true_eq, List.all_eq_true, List.cons.injEq]
    constructor
    · rintro ⟨h1, h2⟩
      refine ⟨c, rest, ⟨rfl, rfl⟩, h1, fun f h hm => ?_⟩
      have := h2 _ hm
      simp only [beq_iff_eq] at this
      have h3 := Bool.eq_iff_iff.mp this
      simpa using h3
    · rintro ⟨c', rest', ⟨rfl, rfl⟩, h1, h2⟩
      refine ⟨h1, fun u hu => ?_⟩
      cases u <;> try rfl
      rename_i f h
      simp only [beq_iff_eq]
      apply Bool.eq_iff_iff.mpr
      simpa using h2 f h hu

/-! ### from built nodes to declarative atoms -/

/-- the declarative atom a built node stands for -/
def delta (g : RFm) (n : BNode σ) : Atom σ := (n.2.1, (elemX g).filter (fun x => decide (x ∈ n.2.2)))

/-- the node contains exactly one of `X c`, `X (LNot c)` for every X-formula of the closure -/
def DualOK (g : RFm) (a : BAtom σ) : Prop :=
  ∀ c, InCl g (.X c) → (RFm.X (lnotR c) ∈ a.2 ↔ RFm.X c ∉ a.2)

theorem delta_contains {n : BNode σ} {x : RFm} (hx : x ∈ elemX g) :
    (delta g n).2.contains x = true ↔ x ∈ n.2.2 := by
  simp [delta, hx]

/-- **truth lemma for built atoms**: a subformula belongs to a built atom iff it is true in the declarative atom -/
theorem built_truth (hg : g.noNN = true) (hadm : Adm g cl) {a : BAtom σ} (ha : a ∈ buildAtoms K cl) :
    ∀ φ, φ ∈ g.subs → (φ ∈ a.2 ↔ val (K.lab a.1) ((elemX g).filter (fun x => decide (x ∈ a.2))) φ = true) := by
  have h := built_ok hg hadm ha
  have hcl : ∀ φ, φ ∈ g.subs → φ ∈ cl := fun φ hφ => (hadm.mem φ).mpr (InCl.of_subs hg hφ)
  intro φ
  induction φ using RFm.induct' with
  | tt =>
    intro hm
    simp only [val, iff_true]
    rcases h.compl _ (hcl _ hm) (by simp) (by simp) with h1 | h1
    · exact h1
    · exact absurd h1 h.nf.2
  | ff => intro _; simp [val, h.nf.1]
  | ap n => intro hm; simp [val, h.ap n (hcl _ hm)]
  | not f ih =>
    intro hm
    have hf : f ∈ g.subs := subs_trans (by simp [RFm.subs, self_mem_subs]) hm
    rw [built_not hg hadm ha (InCl.of_subs hg hm), ih hf]
    simp [val]
  | or fs ih =>
    intro hm
    rw [h.or fs (hcl _ hm)]
    simp only [val, valAny_iff]
    constructor
    · rintro ⟨f, hf, hv⟩
      exact ⟨f, hf, (ih f hf (subs_trans (by simp [RFm.subs, subsList_mem]; exact Or.inr ⟨f, hf, self_mem_subs f⟩) hm)).mp hv⟩
    · rintro ⟨f, hf, hv⟩
      exact ⟨f, hf, (ih f hf (subs_trans (by simp [RFm.subs, subsList_mem]; exact Or.inr ⟨f, hf, self_mem_subs f⟩) hm)).mpr hv⟩
  | X f _ =>
    intro hm
    simp [val, X_mem_elemX hm]
  | U f k ihf ihk =>
    intro hm
    have hf : f ∈ g.subs := subs_trans (by simp [RFm.subs, self_mem_subs]) hm
    have hk : k ∈ g.subs := subs_trans (by simp [RFm.subs, self_mem_subs]) hm
    have hU : RFm.U f k ∈ a.2 ↔ (k ∈ a.2 ∨ (f ∈ a.2 ∧ RFm.X (.U f k) ∈ a.2)) := by
      constructor
      · exact h.U1 f k (hcl _ hm)
      · intro hc
        by_contra hn
        obtain ⟨h1, h2⟩ := h.U2 f k (hcl _ hm) hn
        rcases hc with hc | ⟨hc1, hc2⟩
        · exact h1 hc
        · exact h.cons _ hc2 (h2 hc1)
    rw [hU, ihf hf, ihk hk]
    simp [val, XU_mem_elemX hm]

theorem node_truth (hg : g.noNN = true) (hadm : Adm g cl) {n : BNode σ} (hn : n ∈ bnodes K cl) {φ : RFm}
    (hφ : φ ∈ g.subs) : φ ∈ n.2.2 ↔ holds K.lab (delta g n) φ :=
  built_truth hg hadm (atom_of_node hn) φ hφ

theorem delta_At (hg : g.noNN = true) (hadm : Adm g cl) {n : BNode σ} (hn : n ∈ bnodes K cl) : At K g (delta g n) :=
  ⟨(built_ok hg hadm (atom_of_node hn)).st, filter_mem_sublists _ _⟩

/-- a node with an outgoing edge is dual-consistent -/
theorem edge_dualOK (hg : g.noNN = true) (hadm : Adm g cl) {n m : BNode σ} (h : m ∈ bnext K cl n) :
    DualOK g n.2 := by
  obtain ⟨hm, he⟩ := (mem_bnext n m).mp h
  obtain ⟨_, he⟩ := (edgeBuilt_iff n m).mp he
  intro c hc
  rw [← he c ((hadm.mem _).mpr hc), ← he (lnotR c) ((hadm.mem _).mpr hc.dual)]
  exact built_lnot hg hadm (atom_of_node hm) hc.X

/-- built edges project to declarative edges -/
theorem edge_proj (hg : g.noNN = true) (hadm : Adm g cl) {n m : BNode σ} (h : m ∈ bnext K cl n) :
    delta g m ∈ tnext K g (delta g n) := by
  obtain ⟨hm, he⟩ := (mem_bnext n m).mp h
  obtain ⟨he1, he2⟩ := (edgeBuilt_iff n m).mp he
  refine (mem_tnext K g _ _).mpr ⟨delta_At hg hadm hm, he1, fun f hf => ?_⟩
  rw [delta_contains hf, ← he2 f ((hadm.mem _).mpr (InCl.of_elemX hg hf))]
  exact node_truth hg hadm hm (sub_of_X_elemX hf)

/-- declarative edges lift to built edges out of dual-consistent nodes -/
theorem edge_lift (hg : g.noNN = true) (hadm : Adm g cl) {n m : BNode σ} (hd : DualOK g n.2)
    (hm : m ∈ bnodes K cl) (h : delta g m ∈ tnext K g (delta g n)) : m ∈ bnext K cl n := by
  obtain ⟨_, he1, he2⟩ := (mem_tnext K g _ _).mp h
  refine (mem_bnext n m).mpr ⟨hm, (edgeBuilt_iff n m).mpr ⟨he1, fun c hc => ?_⟩⟩
  have hc' : InCl g (.X c) := (hadm.mem _).mp hc
  have hcn : c.noNN = true := hc'.X.noNN hg
  rcases hc'.X_cases hg with h1 | h1
  · rw [node_truth hg hadm hm (sub_of_X_elemX h1), ← he2 c h1, delta_contains h1]
  · have hl := sub_of_X_elemX h1
    have e1 := he2 _ h1
    rw [delta_contains h1, ← node_truth hg hadm hm hl] at e1
    have e2 := built_lnot (K := K) hg hadm (atom_of_node hm) hc'.X
    have e3 := hd c hc'
    tauto

/-! ### from declarative atoms to built nodes -/

theorem mem_of_mem_sublists {α : Type} {l xs : List α} (h : xs ∈ sublists l) : ∀ x ∈ xs, x ∈ l := by
  induction l generalizing xs with
  | nil => simp [sublists] at h; subst h; simp
  | cons a l ih =>
    simp only [sublists, List.mem_append, List.mem_map] at h
    rcases h with h | ⟨ys, hys, rfl⟩
    · intro x hx; exact List.mem_cons_of_mem _ (ih h x hx)
    · intro x hx
      rcases List.mem_cons.mp hx with rfl | hx
      · simp
      · exact List.mem_cons_of_mem _ (ih hys x hx)

theorem filter_of_mem_sublists {α : Type} [DecidableEq α] {l xs : List α} (hnd : l.Nodup) (h : xs ∈ sublists l) :
    l.filter (fun x => decide (x ∈ xs)) = xs := by
  induction l generalizing xs with
  | nil => simp [sublists] at h; subst h; simp
  | cons a l ih =>
    obtain ⟨ha, hnd'⟩ := List.nodup_cons.mp hnd
    simp only [sublists, List.mem_append, List.mem_map] at h
    rcases h with h | ⟨ys, hys, rfl⟩
    · have : a ∉ xs := fun hx => ha (mem_of_mem_sublists h a hx)
      simp only [List.filter_cons, this, decide_false, Bool.false_eq_true, if_false]
      exact ih hnd' h
    · have hc : l.filter (fun x => decide (x ∈ a :: ys)) = l.filter (fun x => decide (x ∈ ys)) := by
        apply List.filter_congr
        intro x hx
        have : x ≠ a := fun e => ha (e ▸ hx)
        simp [this]
      rw [List.filter_cons, if_pos (by simp), hc, ih hnd' hys]

theorem nodup_dedup {α : Type} [DecidableEq α] (l : List α) : (dedup l).Nodup := by
  induction l with
  | nil => simp [dedup]
  | cons a l ih =>
    simp only [dedup, List.nodup_cons, List.mem_filter, decide_eq_true_eq, ne_eq, not_and, not_not]
    exact ⟨fun _ => trivial, ih.filter _⟩

/-- the valuation of all X-formulas of the closure induced by a choice `xs` of elementary formulas: the duals get
    the opposite value -/
def extXs (g : RFm) (cl xs : List RFm) : List RFm :=
  cl.filter (fun x => match x with
    | .X d => if RFm.X d ∈ elemX g then xs.contains (.X d) else !xs.contains (.X (lnotR d))
    | _ => false)

theorem extXs_contains {xs : List RFm} {d : RFm} (hd : RFm.X d ∈ cl) :
    (extXs g cl xs).contains (.X d) =
      if RFm.X d ∈ elemX g then xs.contains (.X d) else !xs.contains (.X (lnotR d)) := by
  by_cases h : (if RFm.X d ∈ elemX g then xs.contains (.X d) else !xs.contains (.X (lnotR d))) = true
  · rw [h]
    simp only [extXs, List.contains_iff_mem, List.mem_filter, hd, true_and]
    exact h
  · simp only [Bool.not_eq_true] at h
    rw [h]
    apply Bool.eq_false_iff.mpr
    simp only [extXs, List.contains_iff_mem, List.mem_filter, hd, true_and, ne_eq]
    rw [h]; simp

/-- **every declarative atom with a successor is the image of a dual-consistent built node** -/
theorem lift_atom (hg : g.noNN = true) (hadm : Adm g cl) {a b : Atom σ} (ha : At K g a)
    (hab : b ∈ tnext K g a) : ∃ n ∈ bnodes K cl, DualOK g n.2 ∧ delta g n = a := by
  obtain ⟨s, xs⟩ := a
  obtain ⟨_, _, hedge⟩ := (mem_tnext K g _ _).mp hab
  have hcl : ∀ {d}, InCl g (.X d) → RFm.X d ∈ cl := fun h => (hadm.mem _).mpr h
  -- the extension is dual-consistent
  have hdual : DualCons g (extXs g cl xs) := by
    intro c hc
    have hcn : c.noNN = true := hc.X.noNN hg
    rw [extXs_contains (hcl hc), extXs_contains (hcl hc.dual), lnotR_invol hcn]
    by_cases h1 : RFm.X c ∈ elemX g <;> by_cases h2 : RFm.X (lnotR c) ∈ elemX g
    · simp only [h1, h2, if_true]
      have e1 := hedge c h1
      have e2 := hedge (lnotR c) h2
      simp only [holds, val_lnotR] at e1 e2
      cases hv : val (K.lab b.1) b.2 c <;> simp_all
    · simp [h1, h2]
    · simp [h1, h2]
    · rcases hc.X_cases hg with h | h
      · exact absurd h h1
      · exact absurd h h2
  obtain ⟨a', ha', has, hmem⟩ := built_exists (K := K) hg hadm ha.1 hdual
  obtain ⟨i, hi⟩ := exists_indexFrom 0 ha'
  refine ⟨(i, a'), hi, ?_, ?_⟩
  · intro c hc
    show RFm.X (lnotR c) ∈ a'.2 ↔ RFm.X c ∉ a'.2
    rw [hmem _ hc, hmem _ hc.dual]
    simp only [val]
    rw [hdual c hc]
    simp
  · show (a'.1, (elemX g).filter (fun x => decide (x ∈ a'.2))) = (s, xs)
    rw [has]
    congr 1
    have hnd : (elemX g).Nodup := nodup_dedup _
    have h2 : xs ∈ sublists (elemX g) := ha.2
    conv_rhs => rw [← filter_of_mem_sublists hnd h2]
    apply List.filter_congr
    intro x hx
    obtain ⟨f, rfl⟩ := elemX_form hx
    have hin := InCl.of_elemX hg hx
    have : (RFm.X f ∈ a'.2) ↔ (RFm.X f ∈ xs) := by
      rw [hmem _ hin]
      simp only [val]
      rw [extXs_contains (hcl hin), if_pos hx]
      simp
    simp [this]

/-! ### paths -/

theorem reach_proj (hg : g.noNN = true) (hadm : Adm g cl) {n m : BNode σ} (h : Reach (bnext K cl) n m) :
    Reach (tnext K g) (delta g n) (delta g m) := by
  induction h with
  | refl => exact .refl
  | tail _ hbc ih => exact ih.tail (edge_proj hg hadm hbc)

theorem trans_proj (hg : g.noNN = true) (hadm : Adm g cl) {n m : BNode σ} (h : TransGen (Edge (bnext K cl)) n m) :
    TransGen (Edge (tnext K g)) (delta g n) (delta g m) := by
  induction h with
  | single hab => exact .single (edge_proj hg hadm hab)
  | tail _ hbc ih => exact ih.tail (edge_proj hg hadm hbc)

/-- a non-empty declarative path lifts to a built path between any dual-consistent lift of its source and any lift
    of its target -/
theorem trans_lift (hg : g.noNN = true) (hadm : Adm g cl) {a b : Atom σ} (h : TransGen (Edge (tnext K g)) a b)
    {m : BNode σ} (hm : m ∈ bnodes K cl) (hmb : delta g m = b) :
    ∀ n : BNode σ, DualOK g n.2 → delta g n = a → TransGen (Edge (bnext K cl)) n m := by
  induction h using TransGen.head_induction_on with
  | single hab =>
    intro n hd hna
    exact .single (edge_lift hg hadm hd hm (by rw [hna, hmb]; exact hab))
  | @head a c hac hcb ih =>
    intro n hd hna
    have hcAt : At K g c := ((mem_tnext K g a c).mp hac).1
    obtain ⟨c', hcc'⟩ : ∃ c', c' ∈ tnext K g c := by
      rcases TransGen.head'_iff.mp hcb with ⟨c', h1, _⟩
      exact ⟨c', h1⟩
    obtain ⟨k, hk, hkd, hkc⟩ := lift_atom hg hadm hcAt hcc'
    exact TransGen.head (edge_lift hg hadm hd hk (by rw [hna, hkc]; exact hac)) (ih k hkd hkc)

/-- a declarative atom in the component of `delta x`, `x` on a cycle, has a lift in the component of `x` -/
theorem lift_into_class (hg : g.noNN = true) (hadm : Adm g cl) {x : BNode σ} (hx : x ∈ bnodes K cl)
    (hxd : DualOK g x.2) (hcyc : TransGen (Edge (tnext K g)) (delta g x) (delta g x)) {b : Atom σ}
    (h1 : Reach (tnext K g) (delta g x) b) (h2 : Reach (tnext K g) b (delta g x)) :
    ∃ nb ∈ bnodes K cl, delta g nb = b ∧ Reach (bnext K cl) x nb ∧ Reach (bnext K cl) nb x := by
  have t1 : TransGen (Edge (tnext K g)) (delta g x) b := hcyc.trans_left h1
  have t2 : TransGen (Edge (tnext K g)) b (delta g x) := TransGen.trans_right h2 hcyc
  have hbAt : At K g b := by
    rcases TransGen.tail'_iff.mp t1 with ⟨c, _, hcb⟩
    exact ((mem_tnext K g c b).mp hcb).1
  obtain ⟨c', hbc'⟩ : ∃ c', c' ∈ tnext K g b := by
    rcases TransGen.head'_iff.mp t2 with ⟨c', h, _⟩
    exact ⟨c', h⟩
  obtain ⟨nb, hnb, hnbd, hnbb⟩ := lift_atom hg hadm hbAt hbc'
  exact ⟨nb, hnb, hnbb, (trans_lift hg hadm t1 hnb hnbb x hxd rfl).to_reflTransGen,
    (trans_lift hg hadm t2 hx rfl nb hnbd hnbb).to_reflTransGen⟩

/-! ### the two directions -/

theorem checkEBuilt_sub_checkE (hg : g.noNN = true) (hadm : Adm g cl) {s : σ} (h : s ∈ checkEBuilt K g cl) :
    s ∈ checkE K g := by
  obtain ⟨n, hns, hgn, C, hC, hnt, x, hxC, hr⟩ := (mem_checkEBuilt K g cl s).mp h
  obtain ⟨hnd, hmem, hcls⟩ := SCC.sccs_correct (bnodes K cl) (bnext_closed (K := K) (cl := cl))
  have hxN : x ∈ bnodes K cl := (hmem x).mp (List.mem_flatten.mpr ⟨C, hC, hxC⟩)
  obtain ⟨hnx, hnN⟩ := reach_bnext_of_bprev hxN hr
  have hclass := hcls C hC x hxC
  have hCnd : C.Nodup := (List.nodup_flatten.mp hnd).1 C hC
  obtain ⟨c, rest, hCeq, hnontriv, hU⟩ := (ntsfBuilt_iff C).mp hnt
  have hcyc : TransGen (Edge (bnext K cl)) x x := cycle_of_nontrivial hCnd hxC hclass hCeq hnontriv
  have hxd : DualOK g x.2 := by
    rcases TransGen.head'_iff.mp hcyc with ⟨y, hxy, _⟩
    exact edge_dualOK hg hadm hxy
  have hcyc' := trans_proj hg hadm hcyc
  -- the declarative component of `delta x`
  obtain ⟨hnd', hmem', hcls'⟩ := SCC.sccs_correct (atoms K g) (tnext_closed K g)
  have hx'At : At K g (delta g x) := delta_At hg hadm hxN
  obtain ⟨C', hC', hx'C'⟩ := List.mem_flatten.mp ((hmem' _).mpr ((mem_atoms K g _).mpr hx'At))
  have hclass' := hcls' C' hC' _ hx'C'
  have hntsf : ntsf K g C' = true := by
    rw [ntsf_iff]
    obtain ⟨c', rest', hC'eq, hnt'⟩ := nontrivial_of_cycle hx'C' hclass' hcyc'
    refine ⟨c', rest', hC'eq, hnt', ?_⟩
    rintro f k hfk ⟨b, hb, hbU⟩
    obtain ⟨h1, h2⟩ := (hclass' b).mp hb
    obtain ⟨nb, hnbN, hnbb, r1, r2⟩ := lift_into_class hg hadm hxN hxd hcyc' h1 h2
    have hnbC : nb ∈ C := (hclass nb).mpr ⟨r1, r2⟩
    have hUin : RFm.U f k ∈ nb.2.2 := (node_truth hg hadm hnbN hfk).mpr (hnbb ▸ hbU)
    obtain ⟨y, hyC, hky⟩ := (hU f k ((hadm.mem _).mpr (InCl.of_subs hg hfk))).mp ⟨nb, hnbC, hUin⟩
    have hyN : y ∈ bnodes K cl := (hmem y).mp (List.mem_flatten.mpr ⟨C, hC, hyC⟩)
    obtain ⟨q1, q2⟩ := (hclass y).mp hyC
    refine ⟨delta g y, (hclass' _).mpr ⟨reach_proj hg hadm q1, reach_proj hg hadm q2⟩, ?_⟩
    exact (node_truth hg hadm hyN (subs_trans (by simp [RFm.subs, self_mem_subs]) hfk)).mp hky
  refine (mem_checkE K g s).mpr ⟨delta g n, hns, (node_truth hg hadm hnN (self_mem_subs g)).mp hgn,
    C', hC', hntsf, delta g x, hx'C', ?_⟩
  exact reach_prev_of_TE (TE_of_reach (delta_At hg hadm hnN) (reach_proj hg hadm hnx)).1

theorem checkE_sub_checkEBuilt (hg : g.noNN = true) (hadm : Adm g cl) {s : σ} (h : s ∈ checkE K g) :
    s ∈ checkEBuilt K g cl := by
  obtain ⟨a, has, hga, C', hC', hnt', x', hx'C', hr'⟩ := (mem_checkE K g s).mp h
  obtain ⟨hnd', hmem', hcls'⟩ := SCC.sccs_correct (atoms K g) (tnext_closed K g)
  have hx'At : At K g x' := (mem_atoms K g x').mp ((hmem' x').mp (List.mem_flatten.mpr ⟨C', hC', hx'C'⟩))
  have hclass' := hcls' C' hC' x' hx'C'
  have hC'nd : C'.Nodup := (List.nodup_flatten.mp hnd').1 C' hC'
  obtain ⟨c', rest', hC'eq, hnontriv', hU'⟩ := (ntsf_iff K g C').mp hnt'
  have hcyc' : TransGen (Edge (tnext K g)) x' x' := cycle_of_nontrivial hC'nd hx'C' hclass' hC'eq hnontriv'
  obtain ⟨har, haAt⟩ := TE_of_reach_prev hx'At hr'
  have har' : Reach (tnext K g) a x' := reach_of_TE har
  -- lift the component's representative
  obtain ⟨y', hx'y'⟩ : ∃ y', y' ∈ tnext K g x' := by
    rcases TransGen.head'_iff.mp hcyc' with ⟨y', h1, _⟩
    exact ⟨y', h1⟩
  obtain ⟨x, hxN, hxd, hxx'⟩ := lift_atom hg hadm hx'At hx'y'
  subst hxx'
  have hcyc : TransGen (Edge (bnext K cl)) x x := trans_lift hg hadm hcyc' hxN rfl x hxd rfl
  -- lift the start atom
  obtain ⟨n, hnN, hna, hnx⟩ : ∃ n ∈ bnodes K cl, delta g n = a ∧ Reach (bnext K cl) n x := by
    rcases reflTransGen_iff_eq_or_transGen.mp har' with heq | ht
    · exact ⟨x, hxN, heq, .refl⟩
    · obtain ⟨b', hab'⟩ : ∃ b', b' ∈ tnext K g a := by
        rcases TransGen.head'_iff.mp ht with ⟨b', h1, _⟩
        exact ⟨b', h1⟩
      obtain ⟨n, hnN, hnd, hna⟩ := lift_atom hg hadm haAt hab'
      exact ⟨n, hnN, hna, (trans_lift hg hadm ht hxN rfl n hnd hna).to_reflTransGen⟩
  -- the built component of `x`
  obtain ⟨hnd, hmem, hcls⟩ := SCC.sccs_correct (bnodes K cl) (bnext_closed (K := K) (cl := cl))
  obtain ⟨C, hC, hxC⟩ := List.mem_flatten.mp ((hmem x).mpr hxN)
  have hclass := hcls C hC x hxC
  have hntsf : ntsfBuilt K cl C = true := by
    rw [ntsfBuilt_iff]
    obtain ⟨c, rest, hCeq, hnt⟩ := nontrivial_of_cycle hxC hclass hcyc
    refine ⟨c, rest, hCeq, hnt, fun f k hfk => ?_⟩
    have hfk' : RFm.U f k ∈ g.subs := InCl.U_sub hg ((hadm.mem _).mp hfk)
    constructor
    · rintro ⟨y, hyC, hyU⟩
      have hyN : y ∈ bnodes K cl := (hmem y).mp (List.mem_flatten.mpr ⟨C, hC, hyC⟩)
      obtain ⟨q1, q2⟩ := (hclass y).mp hyC
      have hy' : delta g y ∈ C' := (hclass' _).mpr ⟨reach_proj hg hadm q1, reach_proj hg hadm q2⟩
      obtain ⟨b', hb'C', hb'k⟩ := hU' f k hfk' ⟨delta g y, hy', (node_truth hg hadm hyN hfk').mp hyU⟩
      obtain ⟨h1, h2⟩ := (hclass' b').mp hb'C'
      obtain ⟨nb, hnbN, hnbb, r1, r2⟩ := lift_into_class hg hadm hxN hxd hcyc' h1 h2
      exact ⟨nb, (hclass nb).mpr ⟨r1, r2⟩,
        (node_truth hg hadm hnbN (subs_trans (by simp [RFm.subs, self_mem_subs]) hfk')).mpr (hnbb ▸ hb'k)⟩
    · rintro ⟨y, hyC, hyk⟩
      have hyN : y ∈ bnodes K cl := (hmem y).mp (List.mem_flatten.mpr ⟨C, hC, hyC⟩)
      refine ⟨y, hyC, ?_⟩
      by_contra hn
      exact ((built_ok hg hadm (atom_of_node hyN)).U2 f k hfk hn).1 hyk
  refine (mem_checkEBuilt K g cl s).mpr ⟨n, ?_, ?_, C, hC, hntsf, x, hxC, reach_bprev_of_bnext hnN hnx⟩
  · rw [← has, ← hna]; rfl
  · exact (node_truth hg hadm hnN (self_mem_subs g)).mpr (hna ▸ hga)

/-- **the code's tableau and the declarative tableau return the same states** -/
theorem checkEBuilt_iff_checkE (K : Kripke σ) (g : RFm) (cl : List RFm) (hg : g.noNN = true) (hadm : Adm g cl)
    (s : σ) : s ∈ checkEBuilt K g cl ↔ s ∈ checkE K g :=
  ⟨checkEBuilt_sub_checkE hg hadm, checkE_sub_checkEBuilt hg hadm⟩

#print axioms checkEBuilt_iff_checkE

end
end PMC.LTL
