/-
  The invariant of `_build_atoms` (`buildAtoms`, PMC/Model/LTLAtoms.lean), by induction over the processed prefix of
  an admissible processing order of the closure of a formula without double negation.

  * `AtomOK K done a` — what every atom satisfies once the formulas `done` have been processed: it is complete and
    consistent on them, contains only formulas introduced by them, and obeys the local truth conditions
    (atoms, `or`, `U`, `not X`).
  * `Agrees` — for every state and every dual-consistent choice `xs` of X-formulas there is an atom all of whose
    formulas are true under `val (K.lab s) xs`.
  Final form: `buildAtoms_facts`.
-/
import PMC.Proofs.LTLAtomsBasic

namespace PMC.LTL
variable {σ : Type} [DecidableEq σ]
set_option linter.unusedSectionVars false

/-! ### membership in atoms and in the lists the loops produce -/

@[simp] theorem BAtom.add_fst (a : BAtom σ) (φ : RFm) : (a.add φ).1 = a.1 := by
  unfold BAtom.add; split <;> rfl

@[simp] theorem BAtom.mem_add (a : BAtom σ) (φ ψ : RFm) : ψ ∈ (a.add φ).2 ↔ ψ ∈ a.2 ∨ ψ = φ := by
  unfold BAtom.add
  split
  · rename_i h
    constructor
    · exact Or.inl
    · rintro (h1 | rfl)
      · exact h1
      · exact h
  · simp

@[simp] theorem BAtom.union_fst (a : BAtom σ) (l : List RFm) : (a.union l).1 = a.1 := by
  unfold BAtom.union
  induction l generalizing a with
  | nil => rfl
  | cons φ l ih => simp [List.foldl_cons, ih]

@[simp] theorem BAtom.mem_union (a : BAtom σ) (l : List RFm) (ψ : RFm) : ψ ∈ (a.union l).2 ↔ ψ ∈ a.2 ∨ ψ ∈ l := by
  unfold BAtom.union
  induction l generalizing a with
  | nil => simp
  | cons φ l ih =>
    simp only [List.foldl_cons, ih, BAtom.mem_add, List.mem_cons]
    tauto

/-- the atoms one loop body makes out of one atom -/
def outs (body : BAtom σ → BAtom σ × List (BAtom σ)) (a : BAtom σ) : List (BAtom σ) := (body a).1 :: (body a).2

theorem mem_mapTail (body : BAtom σ → BAtom σ × List (BAtom σ)) (A : List (BAtom σ)) (x : BAtom σ) :
    x ∈ (mapTail body A).1 ++ (mapTail body A).2 ↔ ∃ a ∈ A, x ∈ outs body a := by
  simp only [mapTail, List.mem_append, List.mem_map, List.mem_flatMap, outs, List.mem_cons]
  constructor
  · rintro (⟨a, ha, rfl⟩ | ⟨a, ha, hx⟩)
    · exact ⟨a, ha, Or.inl rfl⟩
    · exact ⟨a, ha, Or.inr hx⟩
  · rintro ⟨a, ha, rfl | hx⟩
    · exact Or.inl ⟨a, ha, rfl⟩
    · exact Or.inr ⟨a, ha, hx⟩

/-- the type-directed loop body for `φ` -/
def specialBody (K : Kripke σ) (φ : RFm) : BAtom σ → BAtom σ × List (BAtom σ) :=
  match φ with
  | .tt => bodyConst φ
  | .not .ff => bodyConst φ
  | .ap n => bodyAP K n φ (lnotR φ)
  | .or fs => bodyOr fs φ (lnotR φ)
  | .not (.X sf) => bodyNotX sf φ
  | .U f h => bodyU f h φ (lnotR φ)
  | _ => fun a => (a, [])

theorem mapTail_id (A : List (BAtom σ)) : mapTail (fun a => (a, [])) A = (A, []) := by
  simp [mapTail]

theorem stepSpecial_eq (K : Kripke σ) (A : List (BAtom σ)) (φ : RFm) :
    stepSpecial K A φ = mapTail (specialBody K φ) A := by
  unfold stepSpecial specialBody
  split <;> simp [mapTail_id]

/-- what one iteration of `for phi in cl_list` makes out of one atom -/
def stepOuts (K : Kripke σ) (φ : RFm) (a : BAtom σ) : List (BAtom σ) :=
  if φ = .not .tt ∨ φ = .ff then [a]
  else (outs (specialBody K φ) a).flatMap (outs (bodyGen φ (lnotR φ)))

theorem mem_stepAtoms (K : Kripke σ) (A : List (BAtom σ)) (φ : RFm) (x : BAtom σ) :
    x ∈ stepAtoms K A φ ↔ ∃ a ∈ A, x ∈ stepOuts K φ a := by
  unfold stepAtoms stepOuts
  split
  · simp
  · simp only [stepSpecial_eq, mem_mapTail, List.mem_flatMap]
    constructor
    · rintro ⟨y, ⟨a, ha, hy⟩, hx⟩; exact ⟨a, ha, y, hy, hx⟩
    · rintro ⟨a, ha, y, hy, hx⟩; exact ⟨y, ⟨a, ha, hy⟩, hx⟩

/-- the atoms the final loop appends contain `phi`, so the loop does nothing when it reaches them -/
theorem bodyGen_tail_noop (φ neg : RFm) (a x : BAtom σ) (hx : x ∈ (bodyGen φ neg a).2) :
    bodyGen φ neg x = (x, []) := by
  unfold bodyGen at hx
  split at hx
  · simp only [List.mem_singleton] at hx
    subst hx
    unfold bodyGen
    simp
  · simp at hx

theorem bodyGen_noop {φ neg : RFm} {x : BAtom σ} (h : φ ∈ x.2 ∨ neg ∈ x.2) : bodyGen φ neg x = (x, []) := by
  unfold bodyGen
  rw [if_neg]
  tauto

/-! ### admissible orders and processed prefixes -/

/-- `cl` is a possible value of `cl_list`: an enumeration without repetition of the closure, sorted by the key -/
structure Adm (g : RFm) (cl : List RFm) : Prop where
  mem : ∀ φ, φ ∈ cl ↔ InCl g φ
  sorted : cl.Pairwise (fun a b => sortKey a ≤ sortKey b)
  nodup : cl.Nodup

/-- `φ` is the next formula to process after `done` -/
structure Step (g : RFm) (done : List RFm) (φ : RFm) : Prop where
  hg : g.noNN = true
  inDone : ∀ χ ∈ done, InCl g χ
  inφ : InCl g φ
  fresh : φ ∉ done
  below : ∀ ψ, InCl g ψ → sortKey ψ < sortKey φ → ψ ∈ done
  above : ∀ χ ∈ done, sortKey χ ≤ sortKey φ
  closedDown : ∀ χ ∈ done, ∀ ψ, InCl g ψ → sortKey ψ < sortKey χ → ψ ∈ done

theorem Adm.step {g : RFm} {cl done rest : List RFm} {φ : RFm} (hg : g.noNN = true) (h : Adm g cl)
    (hcl : cl = done ++ φ :: rest) : Step g done φ := by
  have hs := h.sorted
  have hn := h.nodup
  rw [hcl] at hs hn
  rw [List.pairwise_append] at hs
  obtain ⟨hs1, hs2, hs3⟩ := hs
  rw [List.pairwise_cons] at hs2
  have hmem : ∀ ψ, InCl g ψ → ψ ∈ done ∨ ψ = φ ∨ ψ ∈ rest := by
    intro ψ hψ
    have := (h.mem ψ).mpr hψ
    rw [hcl] at this
    simpa using this
  refine ⟨hg, fun χ hχ => (h.mem χ).mp (by rw [hcl]; simp [hχ]), (h.mem φ).mp (by rw [hcl]; simp), ?_, ?_, ?_, ?_⟩
  · intro hφ
    rw [List.nodup_append] at hn
    exact hn.2.2 φ hφ φ (by simp) rfl
  · intro ψ hψ hlt
    rcases hmem ψ hψ with h1 | rfl | h1
    · exact h1
    · omega
    · have := hs2.1 ψ h1; omega
  · intro χ hχ
    exact hs3 χ hχ φ (by simp)
  · intro χ hχ ψ hψ hlt
    rcases hmem ψ hψ with h1 | rfl | h1
    · exact h1
    · have := hs3 χ hχ ψ (by simp); omega
    · have := hs3 χ hχ ψ (by simp [h1]); omega

/-! ### the per-atom invariant -/

/-- `ψ` can have been put into an atom while processing `done` -/
def Intro (done : List RFm) (ψ : RFm) : Prop :=
  ∃ φ ∈ done, ψ = φ ∨ ψ = lnotR φ ∨ (∃ sf, φ = .not (.X sf) ∧ ψ = .X (lnotR sf)) ∨
    (∃ f h, φ = .U f h ∧ (ψ = .X φ ∨ ψ = .not (.X φ)))

structure AtomOK (K : Kripke σ) (done : List RFm) (a : BAtom σ) : Prop where
  st : a.1 ∈ K.states
  compl : ∀ φ ∈ done, φ ≠ .ff → φ ≠ .not .tt → (φ ∈ a.2 ∨ lnotR φ ∈ a.2)
  cons : ∀ ψ, ψ ∈ a.2 → RFm.not ψ ∉ a.2
  nf : RFm.ff ∉ a.2 ∧ RFm.not .tt ∉ a.2
  prov : ∀ ψ ∈ a.2, Intro done ψ
  ap : ∀ n, .ap n ∈ done → (.ap n ∈ a.2 ↔ n ∈ K.lab a.1)
  or : ∀ fs, .or fs ∈ done → (.or fs ∈ a.2 ↔ ∃ f ∈ fs, f ∈ a.2)
  U1 : ∀ f h, .U f h ∈ done → .U f h ∈ a.2 → (h ∈ a.2 ∨ (f ∈ a.2 ∧ .X (.U f h) ∈ a.2))
  U2 : ∀ f h, .U f h ∈ done → .U f h ∉ a.2 → (h ∉ a.2 ∧ (f ∈ a.2 → .not (.X (.U f h)) ∈ a.2))
  notX : ∀ sf, .not (.X sf) ∈ done → .not (.X sf) ∈ a.2 → .X (lnotR sf) ∈ a.2

theorem Intro.mono {done : List RFm} {φ ψ : RFm} (h : Intro done ψ) : Intro (done ++ [φ]) ψ := by
  obtain ⟨χ, hχ, h⟩ := h
  exact ⟨χ, by simp [hχ], h⟩

/-- a formula and its `LNot` are never together in a consistent atom -/
theorem cons_lnot {F : List RFm} (hc : ∀ ψ, ψ ∈ F → RFm.not ψ ∉ F) {χ : RFm} (hχ : χ.noNN = true)
    (h1 : χ ∈ F) (h2 : lnotR χ ∈ F) : False := by
  rcases lnotR_cases hχ with ⟨ψ, rfl, e, _, _⟩ | ⟨_, e⟩
  · rw [e] at h2; exact hc ψ h2 h1
  · rw [e] at h2; exact hc χ h1 h2

/-- heights of children -/
theorem key_lt_or {fs : List RFm} {f : RFm} (h : f ∈ fs) : sortKey f < sortKey (.or fs) := by
  have h1 := sortKey_le_height f
  have h2 := heightList_lt h
  have : sortKey (.or fs) = RFm.height.heightList fs := rfl
  omega

theorem key_lt_U1 (f h : RFm) : sortKey f < sortKey (.U f h) := by
  have h1 := sortKey_le_height f
  have : sortKey (.U f h) = max (f.height + 1) (h.height + 1) := rfl
  omega

theorem key_lt_U2 (f h : RFm) : sortKey h < sortKey (.U f h) := by
  have h1 := sortKey_le_height h
  have : sortKey (.U f h) = max (f.height + 1) (h.height + 1) := rfl
  omega

section
variable {K : Kripke σ} {g : RFm} {done : List RFm} {φ : RFm}

theorem Step.noNN_done (S : Step g done φ) {χ : RFm} (h : χ ∈ done) : χ.noNN = true := (S.inDone χ h).noNN S.hg
theorem Step.noNN_φ (S : Step g done φ) : φ.noNN = true := S.inφ.noNN S.hg

/-- children of processed formulas are processed -/
theorem Step.or_child (S : Step g done φ) {fs : List RFm} {f : RFm} (h : RFm.or fs ∈ done) (hf : f ∈ fs) : f ∈ done :=
  S.closedDown _ h f ((S.inDone _ h).or hf) (key_lt_or hf)
theorem Step.U_child1 (S : Step g done φ) {f k : RFm} (h : RFm.U f k ∈ done) : f ∈ done :=
  S.closedDown _ h f (S.inDone _ h).U1 (key_lt_U1 f k)
theorem Step.U_child2 (S : Step g done φ) {f k : RFm} (h : RFm.U f k ∈ done) : k ∈ done :=
  S.closedDown _ h k (S.inDone _ h).U2 (key_lt_U2 f k)

theorem Step.or_child' (S : Step g done (.or fs)) {f : RFm} (hf : f ∈ fs) : f ∈ done :=
  S.below f (S.inφ.or hf) (key_lt_or hf)
theorem Step.U_child1' {f k : RFm} (S : Step g done (.U f k)) : f ∈ done := S.below f S.inφ.U1 (key_lt_U1 f k)
theorem Step.U_child2' {f k : RFm} (S : Step g done (.U f k)) : k ∈ done := S.below k S.inφ.U2 (key_lt_U2 f k)

/-- a processed formula that is absent from an atom is false in it: its `LNot` is present (or it is a constant) -/
theorem AtomOK.absent {a : BAtom σ} (h : AtomOK K done a) {χ : RFm} (hχ : χ ∈ done) (hn : χ ∉ a.2) :
    χ = .ff ∨ χ = .not .tt ∨ lnotR χ ∈ a.2 := by
  by_cases h1 : χ = .ff
  · exact Or.inl h1
  by_cases h2 : χ = .not .tt
  · exact Or.inr (Or.inl h2)
  rcases h.compl χ hχ h1 h2 with h3 | h3
  · exact absurd h3 hn
  · exact Or.inr (Or.inr h3)

/-- **decided formulas stay decided**: a consistent extension of an atom contains no new processed formula -/
theorem AtomOK.decided (S : Step g done φ) {a : BAtom σ} (h : AtomOK K done a) {F' : List RFm}
    (hsub : ∀ ψ, ψ ∈ a.2 → ψ ∈ F') (hc : ∀ ψ, ψ ∈ F' → RFm.not ψ ∉ F') (hnf : RFm.ff ∉ F' ∧ RFm.not .tt ∉ F')
    {χ : RFm} (hχ : χ ∈ done) : χ ∈ F' ↔ χ ∈ a.2 := by
  constructor
  · intro h1
    by_contra hn
    rcases h.absent hχ hn with rfl | rfl | h2
    · exact hnf.1 h1
    · exact hnf.2 h1
    · exact cons_lnot hc (S.noNN_done hχ) h1 (hsub _ h2)
  · exact hsub χ

/-- the formulas `φ` and `not φ` are not yet in any atom when a formula `φ` that is neither a negation nor an
    X-formula is processed -/
theorem AtomOK.fresh (S : Step g done φ) {a : BAtom σ} (h : AtomOK K done a)
    (hn : ∀ k, φ ≠ .not k) (hx : ∀ k, φ ≠ .X k) : φ ∉ a.2 ∧ RFm.not φ ∉ a.2 := by
  have hkey : sortKey φ = φ.height := sortKey_of_not_notX (fun f e => hn _ e)
  have hkey' : sortKey (.not φ) = φ.height + 1 := by
    rw [sortKey_of_not_notX]
    · rfl
    · intro f e; cases e; exact hx _ rfl
  have hnotin : RFm.not φ ∉ done := fun hd => by
    have := S.above _ hd; omega
  have hl : lnotR φ = .not φ := lnotR_of_ne hn
  have key : ∀ ψ, (ψ = φ ∨ ψ = .not φ) → ψ ∈ a.2 → False := by
    intro ψ hψ hm
    obtain ⟨χ, hχ, hi⟩ := h.prov ψ hm
    have hχn := S.noNN_done hχ
    rcases hi with rfl | rfl | ⟨sf, rfl, rfl⟩ | ⟨f, k, rfl, rfl | rfl⟩
    · rcases hψ with rfl | rfl
      · exact S.fresh hχ
      · exact hnotin hχ
    · rcases hψ with e | e
      · have : χ = .not φ := by
          rw [← hl]; exact lnotR_inj hχn (noNN_lnotR S.noNN_φ) (by rw [e, lnotR_invol S.noNN_φ])
        exact hnotin (this ▸ hχ)
      · have : χ = φ := lnotR_inj hχn S.noNN_φ (by rw [e, hl])
        exact S.fresh (this ▸ hχ)
    · rcases hψ with e | e
      · exact hx _ e.symm
      · cases e
    · rcases hψ with e | e
      · exact hx _ e.symm
      · cases e
    · rcases hψ with e | e
      · exact hn _ e.symm
      · cases e; exact hx _ rfl
  exact ⟨key φ (Or.inl rfl), key (.not φ) (Or.inr rfl)⟩

/-! ### extending an atom -/

/-- the local truth conditions of the formula being processed -/
structure LocNew (K : Kripke σ) (φ : RFm) (a : BAtom σ) : Prop where
  ap : ∀ n, φ = .ap n → (.ap n ∈ a.2 ↔ n ∈ K.lab a.1)
  or : ∀ fs, φ = .or fs → (.or fs ∈ a.2 ↔ ∃ f ∈ fs, f ∈ a.2)
  U1 : ∀ f h, φ = .U f h → .U f h ∈ a.2 → (h ∈ a.2 ∨ (f ∈ a.2 ∧ .X (.U f h) ∈ a.2))
  U2 : ∀ f h, φ = .U f h → .U f h ∉ a.2 → (h ∉ a.2 ∧ (f ∈ a.2 → .not (.X (.U f h)) ∈ a.2))
  notX : ∀ sf, φ = .not (.X sf) → .not (.X sf) ∈ a.2 → .X (lnotR sf) ∈ a.2

theorem cons_extend {F added F' : List RFm} (hmem : ∀ ψ, ψ ∈ F' ↔ ψ ∈ F ∨ ψ ∈ added)
    (hc : ∀ ψ, ψ ∈ F → RFm.not ψ ∉ F) (h1 : ∀ ψ ∈ added, RFm.not ψ ∉ F) (h2 : ∀ ψ ∈ added, RFm.not ψ ∉ added)
    (h3 : ∀ χ, RFm.not χ ∈ added → χ ∉ F) : ∀ ψ, ψ ∈ F' → RFm.not ψ ∉ F' := by
  intro ψ hψ hn
  rcases (hmem _).mp hψ with a | a <;> rcases (hmem _).mp hn with b | b
  · exact hc ψ a b
  · exact h3 ψ b a
  · exact h1 ψ a b
  · exact h2 ψ a b

theorem AtomOK.extend (S : Step g done φ) {a a' : BAtom σ} (h : AtomOK K done a) (added : List RFm)
    (hst : a'.1 = a.1) (hmem : ∀ ψ, ψ ∈ a'.2 ↔ ψ ∈ a.2 ∨ ψ ∈ added)
    (hintro : ∀ ψ ∈ added, Intro [φ] ψ)
    (hcons : ∀ ψ, ψ ∈ a'.2 → RFm.not ψ ∉ a'.2)
    (hnf : RFm.ff ∉ added ∧ RFm.not .tt ∉ added)
    (hcompl : φ = .ff ∨ φ = .not .tt ∨ φ ∈ a'.2 ∨ lnotR φ ∈ a'.2)
    (hloc : (∀ χ ∈ done, (χ ∈ a'.2 ↔ χ ∈ a.2)) → LocNew K φ a') : AtomOK K (done ++ [φ]) a' := by
  have hsub : ∀ ψ, ψ ∈ a.2 → ψ ∈ a'.2 := fun ψ hψ => (hmem ψ).mpr (Or.inl hψ)
  have hnf' : RFm.ff ∉ a'.2 ∧ RFm.not .tt ∉ a'.2 := by
    constructor
    · intro hm; rcases (hmem _).mp hm with h1 | h1
      · exact h.nf.1 h1
      · exact hnf.1 h1
    · intro hm; rcases (hmem _).mp hm with h1 | h1
      · exact h.nf.2 h1
      · exact hnf.2 h1
  have dec : ∀ {χ}, χ ∈ done → (χ ∈ a'.2 ↔ χ ∈ a.2) := fun hχ => h.decided S hsub hcons hnf' hχ
  have hloc := hloc (fun χ hχ => dec hχ)
  refine ⟨hst ▸ h.st, ?_, hcons, hnf', ?_, ?_, ?_, ?_, ?_, ?_⟩
  · intro χ hχ h1 h2
    rcases List.mem_append.mp hχ with hχ | hχ
    · rcases h.compl χ hχ h1 h2 with h3 | h3
      · exact Or.inl (hsub _ h3)
      · exact Or.inr (hsub _ h3)
    · simp only [List.mem_singleton] at hχ
      subst hχ
      rcases hcompl with h3 | h3 | h3 | h3
      · exact absurd h3 h1
      · exact absurd h3 h2
      · exact Or.inl h3
      · exact Or.inr h3
  · intro ψ hψ
    rcases (hmem ψ).mp hψ with h1 | h1
    · exact (h.prov ψ h1).mono
    · obtain ⟨χ, hχ, hi⟩ := hintro ψ h1
      simp only [List.mem_singleton] at hχ
      subst hχ
      exact ⟨χ, by simp, hi⟩
  · intro n hn
    rcases List.mem_append.mp hn with hn | hn
    · rw [dec hn, hst]; exact h.ap n hn
    · simp only [List.mem_singleton] at hn
      exact hloc.ap n hn.symm
  · intro fs hfs
    rcases List.mem_append.mp hfs with hd | hd
    · rw [dec hd, h.or fs hd]
      constructor
      · rintro ⟨f, hf, hm⟩; exact ⟨f, hf, hsub _ hm⟩
      · rintro ⟨f, hf, hm⟩; exact ⟨f, hf, (dec (S.or_child hd hf)).mp hm⟩
    · simp only [List.mem_singleton] at hd
      exact hloc.or fs hd.symm
  · intro f k hU hm
    rcases List.mem_append.mp hU with hd | hd
    · rcases h.U1 f k hd ((dec hd).mp hm) with h1 | ⟨h1, h2⟩
      · exact Or.inl (hsub _ h1)
      · exact Or.inr ⟨hsub _ h1, hsub _ h2⟩
    · simp only [List.mem_singleton] at hd
      exact hloc.U1 f k hd.symm hm
  · intro f k hU hm
    rcases List.mem_append.mp hU with hd | hd
    · obtain ⟨h1, h2⟩ := h.U2 f k hd (fun hc => hm (hsub _ hc))
      exact ⟨fun hc => h1 ((dec (S.U_child2 hd)).mp hc), fun hf => hsub _ (h2 ((dec (S.U_child1 hd)).mp hf))⟩
    · simp only [List.mem_singleton] at hd
      exact hloc.U2 f k hd.symm hm
  · intro sf hd hm
    rcases List.mem_append.mp hd with hd | hd
    · exact hsub _ (h.notX sf hd ((dec hd).mp hm))
    · simp only [List.mem_singleton] at hd
      exact hloc.notX sf hd.symm hm

/-- nothing is added -/
theorem AtomOK.keep (S : Step g done φ) {a : BAtom σ} (h : AtomOK K done a)
    (hcompl : φ = .ff ∨ φ = .not .tt ∨ φ ∈ a.2 ∨ lnotR φ ∈ a.2) (hloc : LocNew K φ a) :
    AtomOK K (done ++ [φ]) a :=
  h.extend S [] rfl (by simp) (by simp) h.cons (by simp) hcompl (fun _ => hloc)

theorem LocNew.trivial {a : BAtom σ} (h1 : ∀ n, φ ≠ .ap n) (h2 : ∀ fs, φ ≠ .or fs) (h3 : ∀ f h, φ ≠ .U f h)
    (h4 : ∀ sf, φ ≠ .not (.X sf)) : LocNew K φ a :=
  ⟨fun n e => absurd e (h1 n), fun fs e => absurd e (h2 fs), fun f h e => absurd e (h3 f h),
   fun f h e => absurd e (h3 f h), fun sf e => absurd e (h4 sf)⟩

/-- atoms contain no double negation -/
theorem AtomOK.noNN_mem (S : Step g done φ) {a : BAtom σ} (h : AtomOK K done a) {ψ : RFm} (hψ : ψ ∈ a.2) :
    ψ.noNN = true := by
  obtain ⟨χ, hχ, hi⟩ := h.prov ψ hψ
  have hχn := S.noNN_done hχ
  rcases hi with rfl | rfl | ⟨sf, rfl, rfl⟩ | ⟨f, k, rfl, rfl | rfl⟩
  · exact hχn
  · exact noNN_lnotR hχn
  · have := (noNN_not hχn).2
    rw [noNN_X] at this ⊢
    exact noNN_lnotR this
  · simpa [noNN_X] using hχn
  · exact noNN_not_intro (by intro k e; cases e) (by simpa [noNN_X] using hχn)

theorem AtomOK.notnot_absent (S : Step g done φ) {a : BAtom σ} (h : AtomOK K done a) (ψ : RFm) :
    RFm.not (.not ψ) ∉ a.2 := by
  intro hm
  have := h.noNN_mem S hm
  simp [RFm.noNN] at this

/-- adding one formula -/
theorem AtomOK.add_one (S : Step g done φ) {a : BAtom σ} (h : AtomOK K done a) (ψ : RFm)
    (hi : ψ = φ ∨ ψ = lnotR φ ∨ (∃ sf, φ = .not (.X sf) ∧ ψ = .X (lnotR sf)))
    (h1 : RFm.not ψ ∉ a.2) (h3 : ∀ χ, ψ = .not χ → χ ∉ a.2) (hψ : ψ ≠ .ff ∧ ψ ≠ .not .tt)
    (hcompl : φ ∈ (a.add ψ).2 ∨ lnotR φ ∈ (a.add ψ).2)
    (hloc : (∀ χ ∈ done, (χ ∈ (a.add ψ).2 ↔ χ ∈ a.2)) → LocNew K φ (a.add ψ)) :
    AtomOK K (done ++ [φ]) (a.add ψ) := by
  refine h.extend S [ψ] (by simp) (by simp) ?_ ?_ ?_ (Or.inr (Or.inr hcompl)) hloc
  · intro χ hχ
    simp only [List.mem_singleton] at hχ
    subst hχ
    refine ⟨φ, by simp, ?_⟩
    rcases hi with e | e | e
    · exact Or.inl e
    · exact Or.inr (Or.inl e)
    · exact Or.inr (Or.inr (Or.inl e))
  · refine cons_extend (F := a.2) (added := [ψ]) (by simp) h.cons ?_ ?_ ?_
    · intro χ hχ; simp only [List.mem_singleton] at hχ; subst hχ; exact h1
    · intro χ hχ; simp only [List.mem_singleton] at hχ; subst hχ
      simp only [List.mem_singleton]
      intro e
      have := congrArg RFm.size e
      simp [RFm.size] at this
    · intro χ hχ; simp only [List.mem_singleton] at hχ; exact h3 χ hχ.symm
  · simp only [List.mem_singleton]
    exact ⟨fun e => hψ.1 e.symm, fun e => hψ.2 e.symm⟩

/-! ### the cases of one iteration, atom by atom -/

theorem ok_skip (S : Step g done φ) {a : BAtom σ} (h : AtomOK K done a) (hφ : φ = .not .tt ∨ φ = .ff) :
    ∀ x ∈ stepOuts K φ a, AtomOK K (done ++ [φ]) x := by
  intro x hx
  simp only [stepOuts, hφ, if_true, List.mem_singleton] at hx
  subst hx
  refine h.keep S (by tauto) (LocNew.trivial ?_ ?_ ?_ ?_) <;> · intros; rcases hφ with rfl | rfl <;> simp

theorem stepOuts_eq {a : BAtom σ} (h : ¬(φ = .not .tt ∨ φ = .ff)) :
    stepOuts K φ a = (outs (specialBody K φ) a).flatMap (outs (bodyGen φ (lnotR φ))) := by
  rw [stepOuts, if_neg h]

theorem outs_bodyGen_noop {ψ neg : RFm} {x : BAtom σ} (h : ψ ∈ x.2 ∨ neg ∈ x.2) : outs (bodyGen ψ neg) x = [x] := by
  simp [outs, bodyGen_noop h]

theorem stepOuts_const {a : BAtom σ} (hφ : φ = .tt ∨ φ = .not .ff) : stepOuts K φ a = [a.add φ] := by
  rcases hφ with rfl | rfl
  · rw [stepOuts_eq (by simp)]
    simp [specialBody, outs, bodyConst, bodyGen_noop]
  · rw [stepOuts_eq (by simp)]
    simp [specialBody, outs, bodyConst, bodyGen_noop]

theorem ok_const (S : Step g done φ) {a : BAtom σ} (h : AtomOK K done a) (hφ : φ = .tt ∨ φ = .not .ff) :
    ∀ x ∈ stepOuts K φ a, AtomOK K (done ++ [φ]) x := by
  intro x hx
  rw [stepOuts_const hφ, List.mem_singleton] at hx
  subst hx
  refine h.add_one S φ (Or.inl rfl) ?_ ?_ ?_ (Or.inl (by simp)) (fun _ => LocNew.trivial ?_ ?_ ?_ ?_)
  · rcases hφ with rfl | rfl
    · exact h.nf.2
    · exact h.notnot_absent S _
  · intro χ e
    rcases hφ with rfl | rfl
    · cases e
    · cases e; exact h.nf.1
  · rcases hφ with rfl | rfl <;> simp
  all_goals intros; rcases hφ with rfl | rfl <;> simp

theorem stepOuts_ap {a : BAtom σ} (n : String) :
    stepOuts K (.ap n) a = [if (K.lab a.1).contains n then a.add (.ap n) else a.add (.not (.ap n))] := by
  have : lnotR (.ap n) = .not (.ap n) := rfl
  rw [stepOuts_eq (by simp)]
  simp only [specialBody, outs, bodyAP, this, List.flatMap_cons, List.flatMap_nil, List.append_nil]
  split <;> simp [bodyGen_noop]

theorem ok_ap {n : String} (S : Step g done (.ap n)) {a : BAtom σ} (h : AtomOK K done a) :
    ∀ x ∈ stepOuts K (.ap n) a, AtomOK K (done ++ [.ap n]) x := by
  intro x hx
  rw [stepOuts_ap, List.mem_singleton] at hx
  obtain ⟨hf1, hf2⟩ := h.fresh S (by intro k e; cases e) (by intro k e; cases e)
  have hl : lnotR (.ap n) = .not (.ap n) := rfl
  by_cases hlab : (K.lab a.1).contains n = true
  · rw [if_pos hlab] at hx
    subst hx
    refine h.add_one S _ (Or.inl rfl) hf2 (by intro χ e; cases e) (by simp) (Or.inl (by simp)) (fun _ => ?_)
    refine ⟨fun m e => ?_, (by intro _ e; cases e), (by intro _ _ e; cases e), (by intro _ _ e; cases e), (by intro _ e; cases e)⟩
    cases e
    simp only [BAtom.mem_add, BAtom.add_fst, or_true, true_iff]
    simpa using hlab
  · rw [if_neg hlab] at hx
    subst hx
    refine h.add_one S _ (Or.inr (Or.inl hl.symm)) (h.notnot_absent S _) (by intro χ e; cases e; exact hf1) (by simp)
      (Or.inr (by rw [hl]; simp)) (fun _ => ?_)
    refine ⟨fun m e => ?_, (by intro _ e; cases e), (by intro _ _ e; cases e), (by intro _ _ e; cases e), (by intro _ e; cases e)⟩
    cases e
    simp only [BAtom.mem_add, BAtom.add_fst, hf1, false_or]
    constructor
    · intro e; cases e
    · intro hm; exact absurd (by simpa using hm) hlab

theorem stepOuts_or {a : BAtom σ} (fs : List RFm) :
    stepOuts K (.or fs) a =
      [if fs.any (fun f => decide (f ∈ a.2)) then a.add (.or fs) else a.add (.not (.or fs))] := by
  have : lnotR (.or fs) = .not (.or fs) := rfl
  rw [stepOuts_eq (by simp)]
  simp only [specialBody, outs, bodyOr, this, List.flatMap_cons, List.flatMap_nil, List.append_nil]
  split <;> simp [bodyGen_noop]

theorem ok_or {fs : List RFm} (S : Step g done (.or fs)) {a : BAtom σ} (h : AtomOK K done a) :
    ∀ x ∈ stepOuts K (.or fs) a, AtomOK K (done ++ [.or fs]) x := by
  intro x hx
  rw [stepOuts_or, List.mem_singleton] at hx
  obtain ⟨hf1, hf2⟩ := h.fresh S (by intro k e; cases e) (by intro k e; cases e)
  have hl : lnotR (.or fs) = .not (.or fs) := rfl
  by_cases hany : fs.any (fun f => decide (f ∈ a.2)) = true
  · rw [if_pos hany] at hx
    subst hx
    refine h.add_one S _ (Or.inl rfl) hf2 (by intro χ e; cases e) (by simp) (Or.inl (by simp)) (fun dec => ?_)
    refine ⟨(by intro _ e; cases e), fun fs' e => ?_, (by intro _ _ e; cases e), (by intro _ _ e; cases e), (by intro _ e; cases e)⟩
    cases e
    simp only [BAtom.mem_add, or_true, true_iff]
    simp only [List.any_eq_true, decide_eq_true_eq] at hany
    obtain ⟨f, hf, hm⟩ := hany
    exact ⟨f, hf, Or.inl hm⟩
  · rw [if_neg hany] at hx
    subst hx
    refine h.add_one S _ (Or.inr (Or.inl hl.symm)) (h.notnot_absent S _) (by intro χ e; cases e; exact hf1) (by simp)
      (Or.inr (by rw [hl]; simp)) (fun dec => ?_)
    refine ⟨(by intro _ e; cases e), fun fs' e => ?_, (by intro _ _ e; cases e), (by intro _ _ e; cases e), (by intro _ e; cases e)⟩
    cases e
    simp only [List.any_eq_true, decide_eq_true_eq, not_exists, not_and] at hany
    constructor
    · intro hm
      simp only [BAtom.mem_add, hf1, false_or] at hm
      cases hm
    · rintro ⟨f, hf, hm⟩
      exact absurd ((dec f (S.or_child' hf)).mp hm) (hany f hf)

theorem stepOuts_X {a : BAtom σ} (f : RFm) :
    stepOuts K (.X f) a =
      if RFm.X f ∉ a.2 ∧ RFm.not (.X f) ∉ a.2 then [a.add (.not (.X f)), a.union [.X f]] else [a] := by
  have : lnotR (.X f) = .not (.X f) := rfl
  rw [stepOuts_eq (by simp)]
  simp only [specialBody, outs, this, List.flatMap_cons, List.flatMap_nil, List.append_nil, bodyGen]
  split <;> rfl

theorem ok_X {f : RFm} (S : Step g done (.X f)) {a : BAtom σ} (h : AtomOK K done a) :
    ∀ x ∈ stepOuts K (.X f) a, AtomOK K (done ++ [.X f]) x := by
  intro x hx
  rw [stepOuts_X] at hx
  have hl : lnotR (.X f) = .not (.X f) := rfl
  have htriv : ∀ b : BAtom σ, LocNew K (.X f) b :=
    fun b => LocNew.trivial (by intro _ e; cases e) (by intro _ e; cases e) (by intro _ _ e; cases e) (by intro _ e; cases e)
  by_cases hc : RFm.X f ∉ a.2 ∧ RFm.not (.X f) ∉ a.2
  · rw [if_pos hc] at hx
    simp only [List.mem_cons, List.not_mem_nil, or_false] at hx
    rcases hx with rfl | rfl
    · exact h.add_one S _ (Or.inr (Or.inl hl.symm)) (h.notnot_absent S _) (by intro χ e; cases e; exact hc.1) (by simp)
        (Or.inr (by rw [hl]; simp)) (fun _ => htriv _)
    · have : a.union [.X f] = a.add (.X f) := rfl
      rw [this]
      exact h.add_one S _ (Or.inl rfl) hc.2 (by intro χ e; cases e) (by simp) (Or.inl (by simp)) (fun _ => htriv _)
  · rw [if_neg hc, List.mem_singleton] at hx
    subst hx
    refine h.keep S (Or.inr (Or.inr ?_)) (htriv _)
    rw [hl]
    by_contra hcon
    exact hc ⟨fun h1 => hcon (Or.inl h1), fun h1 => hcon (Or.inr h1)⟩

/-- `not ψ` for `ψ` an atom, a disjunction or an until: `ψ` has been processed, nothing happens -/
theorem stepOuts_not {ψ : RFm} (S : Step g done (.not ψ)) {a : BAtom σ} (h : AtomOK K done a)
    (h1 : ψ ≠ .tt) (h2 : ψ ≠ .ff) (h3 : ∀ k, ψ ≠ .X k) :
    stepOuts K (.not ψ) a = [a] ∧ (ψ ∈ a.2 ∨ RFm.not ψ ∈ a.2) := by
  have hnn := noNN_not S.noNN_φ
  have hl : lnotR (.not ψ) = ψ := lnotR_not S.noNN_φ
  have hψd : ψ ∈ done := by
    refine S.below ψ (hl ▸ S.inφ.lnot) ?_
    have := sortKey_le_height ψ
    rw [sortKey_of_not_notX (φ := .not ψ) (by intro f e; cases e; exact h3 _ rfl)]
    simp only [RFm.height]; omega
  have hmem : ψ ∈ a.2 ∨ RFm.not ψ ∈ a.2 := by
    have := h.compl ψ hψd h2 (by intro e; exact hnn.1 _ e)
    rwa [lnotR_of_ne hnn.1] at this
  refine ⟨?_, hmem⟩
  rw [stepOuts_eq (by simp [h1])]
  have hs : specialBody K (.not ψ) = fun a => (a, []) := by
    unfold specialBody
    split <;> first | rfl | (rename_i e; cases e <;> first | exact absurd rfl h2 | exact absurd rfl (h3 _))
  rw [hs, hl]
  simp only [outs, List.flatMap_cons, List.flatMap_nil, List.append_nil]
  rw [bodyGen_noop hmem.symm]

theorem ok_not {ψ : RFm} (S : Step g done (.not ψ)) {a : BAtom σ} (h : AtomOK K done a)
    (h1 : ψ ≠ .tt) (h2 : ψ ≠ .ff) (h3 : ∀ k, ψ ≠ .X k) :
    ∀ x ∈ stepOuts K (.not ψ) a, AtomOK K (done ++ [.not ψ]) x := by
  obtain ⟨hout, hmem⟩ := stepOuts_not S h h1 h2 h3
  have hl : lnotR (.not ψ) = ψ := lnotR_not S.noNN_φ
  intro x hx
  rw [hout, List.mem_singleton] at hx
  subst hx
  refine h.keep S (Or.inr (Or.inr ?_)) (LocNew.trivial (by intro _ e; cases e) (by intro _ e; cases e)
    (by intro _ _ e; cases e) (by intro _ e; cases e; exact h3 _ rfl))
  rw [hl]; exact hmem.symm

/-- while `not X sf` is processed, an atom without `X sf` cannot contain `not X (LNot sf)` -/
theorem notX_dual_absent {sf : RFm} (S : Step g done (.not (.X sf))) {a : BAtom σ} (h : AtomOK K done a)
    (hx : RFm.X sf ∉ a.2) : RFm.not (.X (lnotR sf)) ∉ a.2 := by
  intro hm
  have hsf : sf.noNN = true := by
    have := (noNN_not S.noNN_φ).2
    rwa [noNN_X] at this
  have hin : InCl g (.not (.X (lnotR sf))) := S.inφ.notX.lnot
  have hkφ : sortKey (.not (.X sf)) = sf.height + 1 := rfl
  have hkd : sortKey (.not (.X (lnotR sf))) = (lnotR sf).height + 1 := rfl
  have hdone : RFm.not (.X (lnotR sf)) ∈ done := by
    rcases lnotR_cases hsf with ⟨c, rfl, e, _, _⟩ | ⟨hne, e⟩
    · refine S.below _ hin ?_
      rw [hkφ, hkd, e]; simp only [RFm.height]; omega
    · exfalso
      obtain ⟨χ, hχ, hi⟩ := h.prov _ hm
      have hab := S.above χ hχ
      rw [hkφ] at hab
      rcases hi with e1 | e1 | ⟨sf', _, e1⟩ | ⟨f, k, rfl, e1 | e1⟩
      · subst e1
        rw [hkd, e] at hab; simp only [RFm.height] at hab; omega
      · have : χ = .X (lnotR sf) := by
          apply lnotR_inj (S.noNN_done hχ) (by rw [noNN_X]; exact noNN_lnotR hsf)
          rw [← e1]; rfl
        subst this
        rw [sortKey_X, e] at hab; simp only [RFm.height] at hab; omega
      · cases e1
      · cases e1
      · simp only [RFm.not.injEq, RFm.X.injEq] at e1
        rw [e] at e1; cases e1
  have := h.notX _ hdone hm
  rw [lnotR_invol hsf] at this
  exact hx this

theorem stepOuts_notX {a : BAtom σ} (sf : RFm) :
    stepOuts K (.not (.X sf)) a =
      if RFm.X sf ∉ a.2 then
        if RFm.not (.X sf) ∉ a.2 then [a.add (.X sf), a.union [.not (.X sf), .X (lnotR sf)]]
        else [a.add (.X (lnotR sf))]
      else [a] := by
  have hl : lnotR (.not (.X sf)) = .X sf := rfl
  rw [stepOuts_eq (by simp)]
  simp only [specialBody, outs, hl, bodyNotX]
  split
  · split
    · simp only [List.flatMap_cons, List.flatMap_nil, List.append_nil]
      rw [outs_bodyGen_noop (Or.inr (by simp)), outs_bodyGen_noop (Or.inl (by simp))]
      rfl
    · rename_i h2
      simp only [List.flatMap_cons, List.flatMap_nil, List.append_nil]
      rw [outs_bodyGen_noop (Or.inl (by simp; tauto))]
  · rename_i h1
    simp only [List.flatMap_cons, List.flatMap_nil, List.append_nil]
    rw [outs_bodyGen_noop (Or.inr (by tauto))]

theorem ok_notX {sf : RFm} (S : Step g done (.not (.X sf))) {a : BAtom σ} (h : AtomOK K done a) :
    ∀ x ∈ stepOuts K (.not (.X sf)) a, AtomOK K (done ++ [.not (.X sf)]) x := by
  intro x hx
  rw [stepOuts_notX] at hx
  have hl : lnotR (.not (.X sf)) = .X sf := rfl
  have hsf : sf.noNN = true := by
    have := (noNN_not S.noNN_φ).2
    rwa [noNN_X] at this
  by_cases h1 : RFm.X sf ∉ a.2
  · rw [if_pos h1] at hx
    have hdual := notX_dual_absent S h h1
    by_cases h2 : RFm.not (.X sf) ∉ a.2
    · rw [if_pos h2] at hx
      simp only [List.mem_cons, List.not_mem_nil, or_false] at hx
      rcases hx with rfl | rfl
      · refine h.add_one S _ (Or.inr (Or.inl hl.symm)) h2 (by intro χ e; cases e) (by simp) (Or.inr (by rw [hl]; simp))
          (fun _ => ⟨(by intro _ e; cases e), (by intro _ e; cases e), (by intro _ _ e; cases e),
            (by intro _ _ e; cases e), fun sf' e hm => ?_⟩)
        cases e
        simp only [BAtom.mem_add] at hm
        rcases hm with hm | hm
        · exact absurd hm h2
        · cases hm
      · refine h.extend S [.not (.X sf), .X (lnotR sf)] (by simp) (by simp) ?_ ?_ (by simp) (Or.inr (Or.inr (Or.inl (by simp))))
          (fun _ => ⟨(by intro _ e; cases e), (by intro _ e; cases e), (by intro _ _ e; cases e),
            (by intro _ _ e; cases e), fun sf' e hm => by cases e; simp⟩)
        · intro ψ hψ
          simp only [List.mem_cons, List.not_mem_nil, or_false] at hψ
          rcases hψ with rfl | rfl
          · exact ⟨_, by simp, Or.inl rfl⟩
          · exact ⟨_, by simp, Or.inr (Or.inr (Or.inl ⟨sf, rfl, rfl⟩))⟩
        · refine cons_extend (F := a.2) (added := [.not (.X sf), .X (lnotR sf)]) (by simp) h.cons ?_ ?_ ?_
          · intro ψ hψ
            simp only [List.mem_cons, List.not_mem_nil, or_false] at hψ
            rcases hψ with rfl | rfl
            · exact h.notnot_absent S _
            · exact hdual
          · intro ψ hψ
            simp only [List.mem_cons, List.not_mem_nil, or_false] at hψ
            rcases hψ with rfl | rfl
            · simp
            · simp only [List.mem_cons, List.not_mem_nil, or_false, RFm.not.injEq, RFm.X.injEq, reduceCtorEq, or_false]
              exact lnotR_ne_self hsf
          · intro χ hχ
            simp only [List.mem_cons, List.not_mem_nil, or_false, RFm.not.injEq, reduceCtorEq] at hχ
            subst hχ
            exact h1
    · rw [if_neg h2, List.mem_singleton] at hx
      subst hx
      refine h.add_one S _ (Or.inr (Or.inr ⟨sf, rfl, rfl⟩)) hdual (by intro χ e; cases e) (by simp)
        (Or.inl (by simp; tauto))
        (fun _ => ⟨(by intro _ e; cases e), (by intro _ e; cases e), (by intro _ _ e; cases e),
          (by intro _ _ e; cases e), fun sf' e hm => by cases e; simp⟩)
  · rw [if_neg h1, List.mem_singleton] at hx
    subst hx
    have h1' : RFm.X sf ∈ x.2 := by tauto
    refine h.keep S (Or.inr (Or.inr (Or.inr (hl ▸ h1'))))
      ⟨(by intro _ e; cases e), (by intro _ e; cases e), (by intro _ _ e; cases e),
          (by intro _ _ e; cases e), fun sf' e hm => ?_⟩
    cases e
    exact absurd hm (h.cons _ h1')

theorem stepOuts_U {a : BAtom σ} (f k : RFm) :
    stepOuts K (.U f k) a =
      if k ∈ a.2 then [a.add (.U f k)]
      else if f ∈ a.2 then
        if RFm.X (.U f k) ∈ a.2 then [a.add (.U f k)]
        else if RFm.not (.X (.U f k)) ∉ a.2 then
          [(a.add (.U f k)).add (.X (.U f k)), a.union [.not (.X (.U f k)), .not (.U f k)]]
        else [a.add (.not (.U f k))]
      else [a.add (.not (.U f k))] := by
  have hl : lnotR (.U f k) = .not (.U f k) := rfl
  rw [stepOuts_eq (by simp)]
  simp only [specialBody, outs, hl, bodyU]
  split
  · simp only [List.flatMap_cons, List.flatMap_nil, List.append_nil]
    rw [outs_bodyGen_noop (Or.inl (by simp))]
  · split
    · split
      · simp only [List.flatMap_cons, List.flatMap_nil, List.append_nil]
        rw [outs_bodyGen_noop (Or.inl (by simp))]
      · split
        · simp only [List.flatMap_cons, List.flatMap_nil, List.append_nil]
          rw [outs_bodyGen_noop (Or.inl (by simp)), outs_bodyGen_noop (Or.inr (by simp))]
          rfl
        · simp only [List.flatMap_cons, List.flatMap_nil, List.append_nil]
          rw [outs_bodyGen_noop (Or.inr (by simp))]
    · simp only [List.flatMap_cons, List.flatMap_nil, List.append_nil]
      rw [outs_bodyGen_noop (Or.inr (by simp))]

theorem ok_U {f k : RFm} (S : Step g done (.U f k)) {a : BAtom σ} (h : AtomOK K done a) :
    ∀ x ∈ stepOuts K (.U f k) a, AtomOK K (done ++ [.U f k]) x := by
  intro x hx
  rw [stepOuts_U] at hx
  have hl : lnotR (.U f k) = .not (.U f k) := rfl
  obtain ⟨hf1, hf2⟩ := h.fresh S (by intro k e; cases e) (by intro k e; cases e)
  have hfd := S.U_child1'
  have hkd := S.U_child2'
  -- the two shapes of a one-formula extension
  have addPos : ∀ (_ : k ∈ a.2 ∨ (f ∈ a.2 ∧ RFm.X (.U f k) ∈ a.2)), AtomOK K (done ++ [.U f k]) (a.add (.U f k)) := by
    intro hc
    refine h.add_one S _ (Or.inl rfl) hf2 (by intro χ e; cases e) (by simp) (Or.inl (by simp)) (fun _ => ?_)
    refine ⟨(by intro _ e; cases e), (by intro _ e; cases e), fun f' k' e _ => ?_, fun f' k' e hn => ?_, (by intro _ e; cases e)⟩
    · cases e
      rcases hc with hc | ⟨hc1, hc2⟩
      · exact Or.inl (by simp [hc])
      · exact Or.inr ⟨by simp [hc1], by simp [hc2]⟩
    · cases e; exact absurd (by simp) hn
  have addNeg : ∀ (_ : k ∉ a.2) (_ : f ∈ a.2 → RFm.not (.X (.U f k)) ∈ a.2),
      AtomOK K (done ++ [.U f k]) (a.add (.not (.U f k))) := by
    intro hk hc
    refine h.add_one S _ (Or.inr (Or.inl hl.symm)) (h.notnot_absent S _) (by intro χ e; cases e; exact hf1) (by simp)
      (Or.inr (by rw [hl]; simp)) (fun dec => ?_)
    refine ⟨(by intro _ e; cases e), (by intro _ e; cases e), fun f' k' e hm => ?_, fun f' k' e _ => ?_, (by intro _ e; cases e)⟩
    · cases e
      simp only [BAtom.mem_add, hf1, false_or] at hm
      cases hm
    · cases e
      refine ⟨fun hm => hk ((dec k hkd).mp hm), fun hm => ?_⟩
      have := hc ((dec f hfd).mp hm)
      simp [this]
  by_cases hk : k ∈ a.2
  · rw [if_pos hk, List.mem_singleton] at hx
    subst hx
    exact addPos (Or.inl hk)
  rw [if_neg hk] at hx
  by_cases hf : f ∈ a.2
  · rw [if_pos hf] at hx
    by_cases hX : RFm.X (.U f k) ∈ a.2
    · rw [if_pos hX, List.mem_singleton] at hx
      subst hx
      exact addPos (Or.inr ⟨hf, hX⟩)
    rw [if_neg hX] at hx
    by_cases hnX : RFm.not (.X (.U f k)) ∉ a.2
    · rw [if_pos hnX] at hx
      simp only [List.mem_cons, List.not_mem_nil, or_false] at hx
      rcases hx with rfl | rfl
      · refine h.extend S [.U f k, .X (.U f k)] (by simp) (by intro ψ; simp; tauto) ?_ ?_ (by simp)
          (Or.inr (Or.inr (Or.inl (by simp)))) (fun _ => ?_)
        · intro ψ hψ
          simp only [List.mem_cons, List.not_mem_nil, or_false] at hψ
          rcases hψ with rfl | rfl
          · exact ⟨_, by simp, Or.inl rfl⟩
          · exact ⟨_, by simp, Or.inr (Or.inr (Or.inr ⟨f, k, rfl, Or.inl rfl⟩))⟩
        · refine cons_extend (F := a.2) (added := [.U f k, .X (.U f k)]) (by intro ψ; simp; tauto) h.cons ?_ ?_ ?_
          · intro ψ hψ
            simp only [List.mem_cons, List.not_mem_nil, or_false] at hψ
            rcases hψ with rfl | rfl
            · exact hf2
            · exact hnX
          · intro ψ hψ
            simp only [List.mem_cons, List.not_mem_nil, or_false] at hψ
            rcases hψ with rfl | rfl <;> simp
          · intro χ hχ
            simp at hχ
        · refine ⟨(by intro _ e; cases e), (by intro _ e; cases e), fun f' k' e _ => ?_, fun f' k' e hn => ?_, (by intro _ e; cases e)⟩
          · cases e; exact Or.inr ⟨by simp [hf], by simp⟩
          · cases e; exact absurd (by simp) hn
      · refine h.extend S [.not (.X (.U f k)), .not (.U f k)] (by simp) (by simp) ?_ ?_ (by simp)
          (Or.inr (Or.inr (Or.inr (by rw [hl]; simp)))) (fun dec => ?_)
        · intro ψ hψ
          simp only [List.mem_cons, List.not_mem_nil, or_false] at hψ
          rcases hψ with rfl | rfl
          · exact ⟨_, by simp, Or.inr (Or.inr (Or.inr ⟨f, k, rfl, Or.inr rfl⟩))⟩
          · exact ⟨.U f k, by simp, Or.inr (Or.inl rfl)⟩
        · refine cons_extend (F := a.2) (added := [.not (.X (.U f k)), .not (.U f k)]) (by simp) h.cons ?_ ?_ ?_
          · intro ψ hψ
            simp only [List.mem_cons, List.not_mem_nil, or_false] at hψ
            rcases hψ with rfl | rfl <;> exact h.notnot_absent S _
          · intro ψ hψ
            simp only [List.mem_cons, List.not_mem_nil, or_false] at hψ
            rcases hψ with rfl | rfl <;> simp
          · intro χ hχ
            simp only [List.mem_cons, List.not_mem_nil, or_false, RFm.not.injEq] at hχ
            rcases hχ with rfl | rfl
            · exact hX
            · exact hf1
        · refine ⟨(by intro _ e; cases e), (by intro _ e; cases e), fun f' k' e hm => ?_, fun f' k' e _ => ?_, (by intro _ e; cases e)⟩
          · cases e
            simp only [BAtom.mem_union, hf1, List.mem_cons, List.not_mem_nil, or_false, reduceCtorEq] at hm
          · cases e
            exact ⟨fun hm => hk ((dec k hkd).mp hm), fun _ => by simp⟩
    · rw [if_neg hnX, List.mem_singleton] at hx
      subst hx
      exact addNeg hk (fun _ => by tauto)
  · rw [if_neg hf, List.mem_singleton] at hx
    subst hx
    exact addNeg hk (fun h' => absurd h' hf)

/-- **one iteration preserves the per-atom invariant** -/
theorem ok_step (S : Step g done φ) {a : BAtom σ} (h : AtomOK K done a) :
    ∀ x ∈ stepOuts K φ a, AtomOK K (done ++ [φ]) x := by
  have hnn := S.noNN_φ
  match φ, S, hnn with
  | .tt, S, _ => exact ok_const S h (Or.inl rfl)
  | .ff, S, _ => exact ok_skip S h (Or.inr rfl)
  | .ap n, S, _ => exact ok_ap S h
  | .or fs, S, _ => exact ok_or S h
  | .X f, S, _ => exact ok_X S h
  | .U f k, S, _ => exact ok_U S h
  | .not .tt, S, _ => exact ok_skip S h (Or.inl rfl)
  | .not .ff, S, _ => exact ok_const S h (Or.inr rfl)
  | .not (.X sf), S, _ => exact ok_notX S h
  | .not (.ap n), S, _ => exact ok_not S h (by simp) (by simp) (by simp)
  | .not (.or fs), S, _ => exact ok_not S h (by simp) (by simp) (by simp)
  | .not (.U f k), S, _ => exact ok_not S h (by simp) (by simp) (by simp)
  | .not (.not ψ), _, hnn => simp [RFm.noNN] at hnn

/-! ### every dual-consistent valuation of the X-formulas keeps an atom -/

theorem val_U_eq (lab : List String) (xs : List RFm) (f k : RFm) {b1 b2 b3 : Bool}
    (h1 : val lab xs k = b1) (h2 : val lab xs f = b2) (h3 : xs.contains (.X (.U f k)) = b3) :
    val lab xs (.U f k) = (b1 || (b2 && b3)) := by
  subst h1 h2 h3; rfl

theorem val_notU_eq (lab : List String) (xs : List RFm) (f k : RFm) {b1 b2 b3 : Bool}
    (h1 : val lab xs k = b1) (h2 : val lab xs f = b2) (h3 : xs.contains (.X (.U f k)) = b3) :
    val lab xs (.not (.U f k)) = !(b1 || (b2 && b3)) := by
  subst h1 h2 h3; rfl

/-- all formulas of the atom are true under the valuation `xs` of the X-formulas -/
def Agrees (K : Kripke σ) (xs : List RFm) (a : BAtom σ) : Prop := ∀ ψ ∈ a.2, val (K.lab a.1) xs ψ = true

/-- `xs` contains exactly one of `X c`, `X (LNot c)` for every X-formula of the closure -/
def DualCons (g : RFm) (xs : List RFm) : Prop :=
  ∀ c, InCl g (.X c) → (xs.contains (.X (lnotR c)) = !xs.contains (.X c))

theorem AtomOK.false_of_absent {a : BAtom σ} {xs : List RFm} (h : AtomOK K done a) (hag : Agrees K xs a)
    {χ : RFm} (hχ : χ ∈ done) (hn : χ ∉ a.2) : val (K.lab a.1) xs χ = false := by
  rcases h.absent hχ hn with rfl | rfl | h1
  · rfl
  · rfl
  · have := hag _ h1
    rw [val_lnotR] at this
    simpa using this

theorem Agrees.add {a : BAtom σ} {xs : List RFm} (hag : Agrees K xs a) {ψ : RFm}
    (h : val (K.lab a.1) xs ψ = true) : Agrees K xs (a.add ψ) := by
  intro χ hχ
  simp only [BAtom.mem_add] at hχ
  rw [BAtom.add_fst]
  rcases hχ with hχ | rfl
  · exact hag χ hχ
  · exact h

theorem agree_step (S : Step g done φ) {a : BAtom σ} {xs : List RFm} (h : AtomOK K done a)
    (hd : DualCons g xs) (hag : Agrees K xs a) : ∃ x ∈ stepOuts K φ a, x.1 = a.1 ∧ Agrees K xs x := by
  have hnn := S.noNN_φ
  match φ, S, hnn with
  | .tt, S, _ =>
    rw [stepOuts_const (Or.inl rfl)]
    exact ⟨a.add .tt, by simp, by simp, hag.add rfl⟩
  | .ff, S, _ => exact ⟨a, by simp [stepOuts], rfl, hag⟩
  | .not .tt, S, _ => exact ⟨a, by simp [stepOuts], rfl, hag⟩
  | .not .ff, S, _ =>
    rw [stepOuts_const (Or.inr rfl)]
    exact ⟨a.add (.not .ff), by simp, by simp, hag.add rfl⟩
  | .ap n, S, _ =>
    rw [stepOuts_ap]
    by_cases hl : (K.lab a.1).contains n = true
    · rw [if_pos hl]
      exact ⟨a.add (.ap n), by simp, by simp, hag.add (by simpa [val] using hl)⟩
    · rw [if_neg hl]
      exact ⟨a.add (.not (.ap n)), by simp, by simp, hag.add (by simpa [val] using hl)⟩
  | .or fs, S, _ =>
    rw [stepOuts_or]
    by_cases hl : fs.any (fun f => decide (f ∈ a.2)) = true
    · rw [if_pos hl]
      simp only [List.any_eq_true, decide_eq_true_eq] at hl
      obtain ⟨f, hf, hm⟩ := hl
      exact ⟨a.add (.or fs), by simp, by simp,
        hag.add (by simp only [val]; exact (valAny_iff _ _ _).mpr ⟨f, hf, hag f hm⟩)⟩
    · rw [if_neg hl]
      simp only [List.any_eq_true, decide_eq_true_eq, not_exists, not_and] at hl
      refine ⟨a.add (.not (.or fs)), by simp, by simp, hag.add ?_⟩
      simp only [val, Bool.not_eq_true', ← Bool.not_eq_true, valAny_iff]
      rintro ⟨f, hf, hv⟩
      have := h.false_of_absent hag (S.or_child' hf) (hl f hf)
      rw [this] at hv; cases hv
  | .X f, S, _ =>
    rw [stepOuts_X]
    by_cases hc : RFm.X f ∉ a.2 ∧ RFm.not (.X f) ∉ a.2
    · rw [if_pos hc]
      by_cases hv : xs.contains (.X f) = true
      · refine ⟨a.union [.X f], by simp, by simp, ?_⟩
        have : a.union [.X f] = a.add (.X f) := rfl
        rw [this]
        exact hag.add (by simpa [val] using hv)
      · exact ⟨a.add (.not (.X f)), by simp, by simp, hag.add (by simpa [val] using hv)⟩
    · rw [if_neg hc]
      exact ⟨a, by simp, rfl, hag⟩
  | .U f k, S, _ =>
    rw [stepOuts_U]
    have hfd := S.U_child1'
    have hkd := S.U_child2'
    by_cases hk : k ∈ a.2
    · rw [if_pos hk]
      exact ⟨a.add (.U f k), by simp, by simp, hag.add (by simp [val, hag k hk])⟩
    rw [if_neg hk]
    have hkv := h.false_of_absent hag hkd hk
    by_cases hf : f ∈ a.2
    · rw [if_pos hf]
      have hfv := hag f hf
      by_cases hX : RFm.X (.U f k) ∈ a.2
      · rw [if_pos hX]
        have := hag _ hX
        simp only [val] at this
        exact ⟨a.add (.U f k), by simp, by simp, hag.add (by rw [val_U_eq _ _ _ _ hkv hfv this]; rfl)⟩
      rw [if_neg hX]
      by_cases hnX : RFm.not (.X (.U f k)) ∉ a.2
      · rw [if_pos hnX]
        by_cases hv : xs.contains (.X (.U f k)) = true
        · refine ⟨(a.add (.U f k)).add (.X (.U f k)), by simp, by simp, ?_⟩
          refine Agrees.add (hag.add (by rw [val_U_eq _ _ _ _ hkv hfv hv]; rfl)) ?_
          simpa [val] using hv
        · refine ⟨a.union [.not (.X (.U f k)), .not (.U f k)], by simp, by simp, ?_⟩
          have : a.union [.not (.X (.U f k)), .not (.U f k)] = (a.add (.not (.X (.U f k)))).add (.not (.U f k)) := rfl
          rw [this]
          refine Agrees.add (hag.add (by simpa [val] using hv)) ?_
          simp only [BAtom.add_fst]
          simp only [Bool.not_eq_true] at hv
          rw [val_notU_eq _ _ _ _ hkv hfv hv]; rfl
      · rw [if_neg hnX]
        have hnX' : RFm.not (.X (.U f k)) ∈ a.2 := by tauto
        have := hag _ hnX'
        simp only [val, Bool.not_eq_true', ] at this
        exact ⟨a.add (.not (.U f k)), by simp, by simp, hag.add (by rw [val_notU_eq _ _ _ _ hkv hfv this]; rfl)⟩
    · rw [if_neg hf]
      have hfv := h.false_of_absent hag hfd hf
      exact ⟨a.add (.not (.U f k)), by simp, by simp, hag.add (by rw [val_notU_eq _ _ _ _ hkv hfv rfl]; rfl)⟩
  | .not (.X sf), S, _ =>
    rw [stepOuts_notX]
    have hin : InCl g (.X sf) := S.inφ.lnot
    have hdual := hd sf hin
    by_cases h1 : RFm.X sf ∉ a.2
    · rw [if_pos h1]
      by_cases h2 : RFm.not (.X sf) ∉ a.2
      · rw [if_pos h2]
        by_cases hv : xs.contains (.X sf) = true
        · exact ⟨a.add (.X sf), by simp, by simp, hag.add (by simpa [val] using hv)⟩
        · refine ⟨a.union [.not (.X sf), .X (lnotR sf)], by simp, by simp, ?_⟩
          have : a.union [.not (.X sf), .X (lnotR sf)] = (a.add (.not (.X sf))).add (.X (lnotR sf)) := rfl
          rw [this]
          refine Agrees.add (hag.add (by simpa [val] using hv)) ?_
          simp only [val]
          rw [hdual]; simpa using hv
      · rw [if_neg h2]
        have h2' : RFm.not (.X sf) ∈ a.2 := by tauto
        have := hag _ h2'
        simp only [val, Bool.not_eq_true'] at this
        refine ⟨a.add (.X (lnotR sf)), by simp, by simp, hag.add ?_⟩
        simp only [val]
        rw [hdual, this]; rfl
    · rw [if_neg h1]
      exact ⟨a, by simp, rfl, hag⟩
  | .not (.ap n), S, _ =>
    exact ⟨a, by rw [(stepOuts_not S h (by simp) (by simp) (by simp)).1]; simp, rfl, hag⟩
  | .not (.or fs), S, _ =>
    exact ⟨a, by rw [(stepOuts_not S h (by simp) (by simp) (by simp)).1]; simp, rfl, hag⟩
  | .not (.U f k), S, _ =>
    exact ⟨a, by rw [(stepOuts_not S h (by simp) (by simp) (by simp)).1]; simp, rfl, hag⟩
  | .not (.not ψ), _, hnn => simp [RFm.noNN] at hnn

end

/-! ### the loop -/

/-- the state of `for phi in cl_list` after the prefix `done` -/
structure LoopInv (K : Kripke σ) (g : RFm) (done : List RFm) (A : List (BAtom σ)) : Prop where
  ok : ∀ a ∈ A, AtomOK K done a
  ex : ∀ s ∈ K.states, ∀ xs, DualCons g xs → ∃ a ∈ A, a.1 = s ∧ Agrees K xs a

theorem loopInv_init (K : Kripke σ) (g : RFm) : LoopInv K g [] (K.states.map (fun s => (s, []))) := by
  constructor
  · intro a ha
    simp only [List.mem_map] at ha
    obtain ⟨s, hs, rfl⟩ := ha
    exact ⟨hs, by simp, by simp, by simp, by simp, by simp, by simp, by simp, by simp, by simp⟩
  · intro s hs xs _
    exact ⟨(s, []), by simp [hs], rfl, by intro ψ hψ; simp at hψ⟩

theorem loopInv_step {K : Kripke σ} {g : RFm} {done : List RFm} {φ : RFm} {A : List (BAtom σ)}
    (S : Step g done φ) (h : LoopInv K g done A) : LoopInv K g (done ++ [φ]) (stepAtoms K A φ) := by
  constructor
  · intro x hx
    obtain ⟨a, ha, hxa⟩ := (mem_stepAtoms K A φ x).mp hx
    exact ok_step S (h.ok a ha) x hxa
  · intro s hs xs hd
    obtain ⟨a, ha, has, hag⟩ := h.ex s hs xs hd
    obtain ⟨x, hx, hxs, hxag⟩ := agree_step S (h.ok a ha) hd hag
    exact ⟨x, (mem_stepAtoms K A φ x).mpr ⟨a, ha, hx⟩, hxs.trans has, hxag⟩

theorem loopInv_fold {K : Kripke σ} {g : RFm} {cl : List RFm} (hg : g.noNN = true) (hadm : Adm g cl) :
    ∀ (rest done : List RFm) (A : List (BAtom σ)), cl = done ++ rest → LoopInv K g done A →
      LoopInv K g cl (rest.foldl (stepAtoms K) A) := by
  intro rest
  induction rest with
  | nil => intro done A hcl h; simp only [List.append_nil] at hcl; subst hcl; exact h
  | cons φ rest ih =>
    intro done A hcl h
    simp only [List.foldl_cons]
    exact ih (done ++ [φ]) _ (by simp [hcl]) (loopInv_step (hadm.step hg hcl) h)

/-- **the invariant of `_build_atoms`** -/
theorem buildAtoms_inv {K : Kripke σ} {g : RFm} {cl : List RFm} (hg : g.noNN = true) (hadm : Adm g cl) :
    LoopInv K g cl (buildAtoms K cl) :=
  loopInv_fold hg hadm cl [] _ (by simp) (loopInv_init K g)

/-! ### what the correspondence proof uses -/

section
variable {K : Kripke σ} {g : RFm} {cl : List RFm} {a : BAtom σ}

theorem built_ok (hg : g.noNN = true) (hadm : Adm g cl) (ha : a ∈ buildAtoms K cl) : AtomOK K cl a :=
  (buildAtoms_inv hg hadm).ok a ha

/-- every atom contains exactly one of `φ`, `LNot φ`, for every formula of the closure -/
theorem built_lnot (hg : g.noNN = true) (hadm : Adm g cl) (ha : a ∈ buildAtoms K cl) {φ : RFm} (hφ : InCl g φ) :
    lnotR φ ∈ a.2 ↔ φ ∉ a.2 := by
  have h := built_ok hg hadm ha
  have hn := hφ.noNN hg
  constructor
  · intro h1 h2; exact cons_lnot h.cons hn h2 h1
  · intro h1
    rcases h.absent ((hadm.mem φ).mpr hφ) h1 with rfl | rfl | h2
    · have : InCl g (.not .ff) := hφ.lnot
      rcases h.compl _ ((hadm.mem _).mpr this) (by simp) (by simp) with h3 | h3
      · exact h3
      · exact absurd h3 h.nf.1
    · have : InCl g .tt := hφ.lnot
      rcases h.compl _ ((hadm.mem _).mpr this) (by simp) (by simp) with h3 | h3
      · exact h3
      · exact absurd h3 h.nf.2
    · exact h2

theorem built_not (hg : g.noNN = true) (hadm : Adm g cl) (ha : a ∈ buildAtoms K cl) {ψ : RFm}
    (hφ : InCl g (.not ψ)) : RFm.not ψ ∈ a.2 ↔ ψ ∉ a.2 := by
  have hn := hφ.noNN hg
  have h1 : InCl g ψ := by have := hφ.lnot; rwa [lnotR_not hn] at this
  have := built_lnot hg hadm ha h1
  rwa [lnotR_of_ne (noNN_not hn).1] at this

/-- for every state and every dual-consistent choice of X-formulas there is an atom whose closure formulas are
    exactly those true under that choice -/
theorem built_exists (hg : g.noNN = true) (hadm : Adm g cl) {s : σ} (hs : s ∈ K.states) {xs : List RFm}
    (hd : DualCons g xs) :
    ∃ a ∈ buildAtoms K cl, a.1 = s ∧ ∀ φ, InCl g φ → (φ ∈ a.2 ↔ val (K.lab s) xs φ = true) := by
  obtain ⟨a, ha, has, hag⟩ := (buildAtoms_inv hg hadm).ex s hs xs hd
  refine ⟨a, ha, has, fun φ hφ => ⟨fun hm => has ▸ hag φ hm, fun hv => ?_⟩⟩
  by_contra hn
  have := hag _ ((built_lnot hg hadm ha hφ).mpr hn)
  rw [val_lnotR, has, hv] at this
  cases this

end
end PMC.LTL
