import PMC.Proofs.LTLSound
import Mathlib.Data.List.Sublists
import Mathlib.Data.Set.Finite.Basic
import Mathlib.Data.Set.Finite.List

namespace PMC.LTL
open Relation Classical

variable {σ : Type}

theorem filter_mem_sublists {α : Type} (p : α → Bool) (l : List α) : l.filter p ∈ sublists l := by
  induction l with
  | nil => simp [sublists]
  | cons a l ih =>
    simp only [sublists, List.mem_append, List.mem_map]
    by_cases h : p a = true
    · right; exact ⟨l.filter p, ih, by simp [List.filter_cons, h]⟩
    · left; simpa [List.filter_cons, h] using ih


theorem satAt_U_unfold (L : σ → List String) (π : ℕ → σ) (f h : RFm) (i : ℕ) :
    satAt L π (.U f h) i ↔ (satAt L π h i ∨ (satAt L π f i ∧ satAt L π (.U f h) (i+1))) := by
  simp only [satAt]
  constructor
  · rintro ⟨j, hij, hj, hb⟩
    rcases Nat.eq_or_lt_of_le hij with rfl | hlt
    · exact Or.inl hj
    · exact Or.inr ⟨hb i le_rfl hlt, j, hlt, hj, fun k hk hkj => hb k (by omega) hkj⟩
  · rintro (h0 | ⟨hf, j, hij, hj, hb⟩)
    · exact ⟨i, le_rfl, h0, fun k hk hki => by omega⟩
    · refine ⟨j, by omega, hj, fun k hk hkj => ?_⟩
      rcases Nat.eq_or_lt_of_le hk with rfl | hlt
      · exact hf
      · exact hb k hlt hkj

/-- the atom a path induces at position `i` -/
noncomputable def indAtom (L : σ → List String) (π : ℕ → σ) (g : RFm) (i : ℕ) : Atom σ :=
  (π i, (elemX g).filter fun x => decide (satAt L π x i))

theorem indAtom_truth (L : σ → List String) (π : ℕ → σ) (g : RFm) :
    ∀ φ, φ ∈ g.subs → ∀ i, holds L (indAtom L π g i) φ ↔ satAt L π φ i := by
  intro φ
  induction φ using RFm.induct' with
  | tt => intro _ i; simp [holds, val, satAt]
  | ff => intro _ i; simp [holds, val, satAt]
  | ap n => intro _ i; simp [holds, val, satAt, indAtom]
  | not f ih =>
    intro hm i
    have := ih (subs_trans (by simp [RFm.subs, self_mem_subs]) hm) i
    simp only [holds] at this ⊢
    simp [val, satAt, ← this]
  | or fs ih =>
    intro hm i
    simp only [holds, val, satAt, valAny_iff, satAny_iff]
    have hsub : ∀ f ∈ fs, f ∈ g.subs := fun f hf =>
      subs_trans (by simp [RFm.subs, subsList_mem]; exact Or.inr ⟨f, hf, self_mem_subs f⟩) hm
    constructor
    · rintro ⟨f, hf, hv⟩; exact ⟨f, hf, (ih f hf (hsub f hf) i).mp hv⟩
    · rintro ⟨f, hf, hv⟩; exact ⟨f, hf, (ih f hf (hsub f hf) i).mpr hv⟩
  | X f _ =>
    intro hm i
    simp only [holds, val, indAtom, List.contains_iff_mem, List.mem_filter, decide_eq_true_eq]
    exact ⟨fun h => h.2, fun h => ⟨X_mem_elemX hm, h⟩⟩
  | U f h ihf ihh =>
    intro hm i
    have hf : f ∈ g.subs := subs_trans (by simp [RFm.subs, self_mem_subs]) hm
    have hh : h ∈ g.subs := subs_trans (by simp [RFm.subs, self_mem_subs]) hm
    have e1 := ihf hf i
    have e2 := ihh hh i
    simp only [holds, indAtom] at e1 e2 ⊢
    rw [satAt_U_unfold]
    simp only [val, Bool.or_eq_true, Bool.and_eq_true, e1, e2, List.contains_iff_mem,
      List.mem_filter, decide_eq_true_eq]
    constructor
    · rintro (h1 | ⟨h1, _, h3⟩)
      · exact Or.inl h1
      · exact Or.inr ⟨h1, by simpa [satAt] using h3⟩
    · rintro (h1 | ⟨h1, h3⟩)
      · exact Or.inl h1
      · exact Or.inr ⟨h1, XU_mem_elemX hm, by simpa [satAt] using h3⟩

theorem indAtom_edge {R : σ → σ → Prop} (L : σ → List String) (π : ℕ → σ) (g : RFm)
    (hπ : ∀ i, R (π i) (π (i+1))) (i : ℕ) :
    AEdge R L g (indAtom L π g i) (indAtom L π g (i+1)) := by
  refine ⟨hπ i, fun f hf => ?_⟩
  have hfs : f ∈ g.subs := by
    -- X f ∈ elemX g comes from X f ∈ subs or from a U in subs
    simp only [elemX, mem_dedup, List.mem_filterMap] at hf
    obtain ⟨k, hk, hk'⟩ := hf
    cases k <;> simp at hk'
    · subst hk'; exact subs_trans (by simp [RFm.subs, self_mem_subs]) hk
    · subst hk'; exact hk
  rw [indAtom_truth L π g f hfs (i+1)]
  simp only [indAtom, List.contains_iff_mem, List.mem_filter, decide_eq_true_eq]
  simp only [satAt]
  exact ⟨fun h => h.2, fun h => ⟨hf, h⟩⟩

/-- an unfulfilled U persists along tableau edges -/
theorem U_propagate {R : σ → σ → Prop} {L : σ → List String} {g f h : RFm}
    (hm : RFm.U f h ∈ g.subs) {E : Atom σ → Atom σ → Prop}
    (hE : ∀ a b, E a b → AEdge R L g a b) {b c : Atom σ} (hbc : ReflTransGen E b c)
    (hU : holds L b (.U f h)) :
    (∃ x, ReflTransGen E b x ∧ ReflTransGen E x c ∧ holds L x h) ∨ holds L c (.U f h) := by
  induction hbc using ReflTransGen.head_induction_on with
  | refl => exact Or.inr hU
  | @head a b' hab hbc ih =>
    rcases (holds_U_step hm (hE _ _ hab)).mp hU with h1 | ⟨_, h2⟩
    · exact Or.inl ⟨a, .refl, ReflTransGen.head hab hbc, h1⟩
    · rcases ih h2 with ⟨x, hx1, hx2, hx3⟩ | h3
      · exact Or.inl ⟨x, ReflTransGen.head hab hx1, hx2, hx3⟩
      · exact Or.inr h3

/-- **Completeness of the tableau** (abstract). `At` is the set of atoms the model enumerates. -/
theorem tableau_complete {R : σ → σ → Prop} {L : σ → List String} {g : RFm}
    (S : List σ) (π : ℕ → σ) (hπ : ∀ i, R (π i) (π (i+1))) (hS : ∀ i, π i ∈ S)
    (hsat : satAt L π g 0) :
    let At : Atom σ → Prop := fun a => a.1 ∈ S ∧ a.2 ∈ sublists (elemX g)
    let E : Atom σ → Atom σ → Prop := fun a b => AEdge R L g a b ∧ At a ∧ At b
    ∃ a0 c : Atom σ, a0.1 = π 0 ∧ At a0 ∧ holds L a0 g ∧ ReflTransGen E a0 c ∧ TransGen E c c ∧
      ∀ f h, RFm.U f h ∈ g.subs → ∀ b, ReflTransGen E c b → ReflTransGen E b c →
        holds L b (.U f h) → ∃ b', ReflTransGen E c b' ∧ ReflTransGen E b' c ∧ holds L b' h := by
  intro At E
  let a : ℕ → Atom σ := indAtom L π g
  have hAt : ∀ i, At (a i) := fun i =>
    ⟨hS i, filter_mem_sublists _ _⟩
  have hE : ∀ i, E (a i) (a (i+1)) := fun i => ⟨indAtom_edge L π g hπ i, hAt i, hAt (i+1)⟩
  have hpath : ∀ i j, i ≤ j → ReflTransGen E (a i) (a j) := by
    intro i j hij
    induction j, hij using Nat.le_induction with
    | base => exact .refl
    | succ k _ ih => exact ih.tail (hE k)
  -- the atoms live in a finite set, so one of them recurs infinitely often
  have hfin : Set.Finite {x : Atom σ | At x} := by
    have : {x : Atom σ | At x} ⊆ (S.toFinset ×ˢ (sublists (elemX g)).toFinset : Finset (Atom σ)) := by
      intro x hx; simp only [Finset.coe_product, Set.mem_prod, Finset.mem_coe, List.mem_toFinset]
      exact hx
    exact Set.Finite.subset (Finset.finite_toSet _) this
  have : Finite {x : Atom σ // At x} := hfin.to_subtype
  obtain ⟨⟨c, hcAt⟩, hinf⟩ := Finite.exists_infinite_fiber (fun i => (⟨a i, hAt i⟩ : {x : Atom σ // At x}))
  have hrec : ∀ n, ∃ k, n < k ∧ a k = c := by
    intro n
    have hinf' : (((fun i => (⟨a i, hAt i⟩ : {x : Atom σ // At x})) ⁻¹' {⟨c, hcAt⟩})).Infinite :=
      Set.infinite_coe_iff.mp hinf
    obtain ⟨k, hk, hnk⟩ := hinf'.exists_gt n
    exact ⟨k, hnk, by simpa using congrArg Subtype.val hk⟩
  obtain ⟨i0, _, hi0⟩ := hrec 0
  obtain ⟨i1, hi01, hi1⟩ := hrec i0
  refine ⟨a 0, c, rfl, hAt 0, (indAtom_truth L π g g (self_mem_subs g) 0).mpr hsat, ?_, ?_, ?_⟩
  · rw [← hi0]; exact hpath 0 i0 (Nat.zero_le _)
  · have : TransGen E (a i0) (a i1) := by
      have h1 := hpath (i0+1) i1 hi01
      exact TransGen.head' (hE i0) h1
    rwa [hi0, hi1] at this
  · intro f h hm b hcb hbc hU
    rcases U_propagate hm (fun _ _ e => e.1) hbc hU with ⟨x, hbx, hxc, hx⟩ | hcU
    · exact ⟨x, hcb.trans hbx, hxc, hx⟩
    · -- U holds at c = a i0: the path fulfils it later, at an atom that still returns to c
      rw [← hi0] at hcU
      have hs := (indAtom_truth L π g _ hm i0).mp hcU
      obtain ⟨j, hij, hj, _⟩ := hs
      have hh : h ∈ g.subs := subs_trans (by simp [RFm.subs, self_mem_subs]) hm
      obtain ⟨k, hjk, hk⟩ := hrec j
      refine ⟨a j, ?_, ?_, (indAtom_truth L π g h hh j).mpr hj⟩
      · rw [← hi0]; exact hpath i0 j hij
      · rw [← hk]; exact hpath j k (le_of_lt hjk)

#print axioms tableau_sound
#print axioms tableau_complete
end PMC.LTL
