/-
  Proof of C02: the executable LTL tableau (`LTL.checkE`, `LTL.modelcheck`, PMC/Model/LTL.lean) is exact w.r.t. the
  documented semantics (`sat`, PMC/Spec/Semantics.lean).

  Available: the abstract tableau theory — `truth`, `tableau_sound`, `tableau_complete`, `AEdge`, `holds`, `satAt`
  (PMC/Proofs/LTLProof.lean, LTLSound.lean, LTLComplete.lean); `PMC.SCC.sccs_correct` (SCCVisit.lean);
  `PMC.Graph.reachFromFn_exact` (Reach.lean); `sat_restrict`, `sat_lnot`, `restrict_restricted` (Rewrite.lean).
-/
import PMC.Spec.Semantics
import PMC.Model.LTL
import PMC.Proofs.LTLComplete
import PMC.Proofs.Reach
import PMC.Proofs.SCCVisit
import PMC.Proofs.Rewrite
import PMC.Proofs.LTLFront
import PMC.Proofs.LTLTableau
namespace PMC.LTL
open PMC Relation
variable {σ : Type} [DecidableEq σ]
set_option linter.unusedSectionVars false

/-- the rewriting of a quantifier-free formula can always be translated to the tableau's syntax
    (`_get_closure` never raises `TypeError` on it) -/
theorem toR_restrict (g : Fm) (hg : g.isLTLPath = true) : ∃ r, toR g.restrict = some r :=
  Option.isSome_iff_exists.mp (toR_restrict_isSome g hg)

theorem isLTLPath_lnot (g : Fm) (hg : g.isLTLPath = true) : g.lnot.isLTLPath = true :=
  isLTLPath_lnot' g hg

/-- the translation preserves meaning -/
theorem sat_toR (K : Kripke σ) (f : Fm) (r : RFm) (h : toR f = some r) (π : Nat → σ) (i : Nat) :
    sat K f π i ↔ satAt K.lab π r i :=
  sat_toR' K f r h π i

/-! ### unfolding `checkE` -/

theorem mem_checkE (K : Kripke σ) (g : RFm) (s : σ) :
    s ∈ checkE K g ↔ ∃ a : Atom σ, a.1 = s ∧ holds K.lab a g ∧
      ∃ C ∈ SCC.sccs (atoms K g) (tnext K g), ntsf K g C = true ∧ ∃ x ∈ C, Reach (tprev K g) x a := by
  have hs := SCC.sccs_correct (atoms K g) (tnext_closed K g)
  have hX : ∀ x ∈ ((SCC.sccs (atoms K g) (tnext K g)).filter (ntsf K g)).flatten, x ∈ atoms K g := by
    intro x hx
    rw [List.mem_flatten] at hx
    obtain ⟨C, hC, hxC⟩ := hx
    exact (hs.2.1 x).mp (List.mem_flatten.mpr ⟨C, (List.mem_filter.mp hC).1, hxC⟩)
  simp only [checkE, List.mem_map, List.mem_filter, Graph.reachFromFn_exact _ _ _ (tprev_closed K g) hX,
    List.mem_flatten, holdsB_iff]
  constructor
  · rintro ⟨a, ⟨⟨x, ⟨C, ⟨hC, hn⟩, hxC⟩, hr⟩, hg⟩, rfl⟩
    exact ⟨a, rfl, hg, C, hC, hn, x, hxC, hr⟩
  · rintro ⟨a, rfl, hg, C, hC, hn, x, hxC, hr⟩
    exact ⟨a, ⟨⟨x, ⟨C, ⟨hC, hn⟩, hxC⟩, hr⟩, hg⟩, rfl⟩

/-- a component computed by `sccs` on the tableau graph is a mutual-reachability class of enumerated atoms -/
theorem scc_class (K : Kripke σ) (g : RFm) {C : List (Atom σ)} (hC : C ∈ SCC.sccs (atoms K g) (tnext K g))
    {x : Atom σ} (hx : x ∈ C) :
    At K g x ∧ C.Nodup ∧ ∀ y, y ∈ C ↔ (ReflTransGen (TE K g) x y ∧ ReflTransGen (TE K g) y x) := by
  obtain ⟨hnd, hmem, hcls⟩ := SCC.sccs_correct (atoms K g) (tnext_closed K g)
  have hxAt : At K g x := (mem_atoms K g x).mp ((hmem x).mp (List.mem_flatten.mpr ⟨C, hC, hx⟩))
  refine ⟨hxAt, (List.nodup_flatten.mp hnd).1 C hC, fun y => ?_⟩
  rw [hcls C hC x hx y]
  constructor
  · rintro ⟨h1, h2⟩
    have h1' := TE_of_reach hxAt h1
    exact ⟨h1'.1, (TE_of_reach h1'.2 h2).1⟩
  · rintro ⟨h1, h2⟩; exact ⟨reach_of_TE h1, reach_of_TE h2⟩

theorem length_le_one_of_all_eq {α : Type} {C : List α} {x : α} (hnd : C.Nodup) (h : ∀ y ∈ C, y = x) :
    C.length ≤ 1 := by
  match C, hnd, h with
  | [], _, _ => simp
  | [_], _, _ => simp
  | y :: z :: _, hnd, h =>
    have h1 := h y (by simp)
    have h2 := h z (by simp)
    simp [h1, h2] at hnd

/-! ### soundness: every state returned has an (ultimately periodic) witness path -/

theorem checkE_sound (K : Kripke σ) (g : RFm) (s : σ) (h : s ∈ checkE K g) :
    s ∈ K.states ∧ ∃ π, IsPath K π ∧ π 0 = s ∧ UltPeriodic π ∧ satAt K.lab π g 0 := by
  obtain ⟨a, rfl, hg, C, hC, hn, x, hxC, hr⟩ := (mem_checkE K g s).mp h
  obtain ⟨hxAt, hCnd, hclass⟩ := scc_class K g hC hxC
  obtain ⟨hax, haAt⟩ := TE_of_reach_prev hxAt hr
  obtain ⟨c, rest, hCeq, hnt, hsf⟩ := (ntsf_iff K g C).mp hn
  have hcyc : TransGen (TE K g) x x := by
    rcases hnt with hlen | hself
    · have : ∃ y ∈ C, y ≠ x := by
        by_contra hcon
        push Not at hcon
        have := length_le_one_of_all_eq hCnd hcon
        omega
      obtain ⟨y, hy, hne⟩ := this
      obtain ⟨h1, h2⟩ := (hclass y).mp hy
      rcases reflTransGen_iff_eq_or_transGen.mp h1 with heq | h1'
      · exact absurd heq hne
      · exact h1'.trans_left h2
    · have hcC : c ∈ C := by rw [hCeq]; simp
      obtain ⟨h1, h2⟩ := (hclass c).mp hcC
      have hc := (mem_tnext K g c c).mp hself
      have hcc : TE K g c c := ⟨hc.2, hc.1, hc.1⟩
      exact (TransGen.trans_right h1 (TransGen.single hcc)).trans_left h2
  obtain ⟨π, hπ, hπ0, hsat, N, p, hp, hper⟩ :=
    tableau_sound (R := KR K) (L := K.lab) (g := g) (E := TE K g) TE.to_aedge a x C hg hax hcyc
      (fun b hb => by
        obtain ⟨h1, h2⟩ := (hclass b).mp hb
        exact ⟨hcyc.trans_left h1, TransGen.trans_right h2 hcyc⟩)
      (fun b h1 h2 => (hclass b).mpr ⟨h1, h2⟩)
      (fun f h hm b hb hU => hsf f h hm ⟨b, hb, hU⟩)
  exact ⟨haAt.1, π, hπ, hπ0, ⟨N, p, hp, hper⟩, hsat⟩

/-! ### completeness: every state with a witness path is returned -/

theorem checkE_complete (K : Kripke σ) (hK : K.WF) (g : RFm) (π : Nat → σ) (hπ : IsPath K π)
    (h0 : π 0 ∈ K.states) (hsat : satAt K.lab π g 0) : π 0 ∈ checkE K g := by
  have key : ∃ a0 c : Atom σ, a0.1 = π 0 ∧ At K g a0 ∧ holds K.lab a0 g ∧ ReflTransGen (TE K g) a0 c ∧
      TransGen (TE K g) c c ∧
      ∀ f h, RFm.U f h ∈ g.subs → ∀ b, ReflTransGen (TE K g) c b → ReflTransGen (TE K g) b c →
        holds K.lab b (.U f h) → ∃ b', ReflTransGen (TE K g) c b' ∧ ReflTransGen (TE K g) b' c ∧
          holds K.lab b' h :=
    tableau_complete (R := KR K) (L := K.lab) (g := g) K.states π hπ (path_states hK hπ h0) hsat
  obtain ⟨a0, c, ha0, _, hg, hreach, hcyc, hU⟩ := key
  obtain ⟨_, hmem, _⟩ := SCC.sccs_correct (atoms K g) (tnext_closed K g)
  have hcAt : At K g c := (TE_transGen_At hcyc).1
  obtain ⟨C, hC, hcC⟩ := List.mem_flatten.mp ((hmem c).mpr ((mem_atoms K g c).mpr hcAt))
  obtain ⟨_, _, hclass⟩ := scc_class K g hC hcC
  have hntsf : ntsf K g C = true := by
    rw [ntsf_iff]
    cases C with
    | nil => simp at hcC
    | cons c0 rest =>
      refine ⟨c0, rest, rfl, ?_, ?_⟩
      · by_cases hlen : (c0 :: rest).length > 1
        · exact Or.inl hlen
        · right
          have hrest : rest = [] := by
            cases rest with
            | nil => rfl
            | cons _ _ => simp at hlen
          subst hrest
          have hc0 : c = c0 := by simpa using hcC
          subst hc0
          obtain ⟨y, hcy, hyc⟩ := TransGen.head'_iff.mp hcyc
          have hy : y ∈ [c] := (hclass y).mpr ⟨.single hcy, hyc⟩
          have hy' : y = c := by simpa using hy
          subst hy'
          exact (mem_tnext K g y y).mpr ⟨hcAt, hcy.1⟩
      · rintro f h hm ⟨b, hb, hbU⟩
        obtain ⟨h1, h2⟩ := (hclass b).mp hb
        obtain ⟨b', hb1, hb2, hb'⟩ := hU f h hm b h1 h2 hbU
        exact ⟨b', (hclass b').mpr ⟨hb1, hb2⟩, hb'⟩
  exact (mem_checkE K g (π 0)).mpr ⟨a0, ha0, hg, C, hC, hntsf, c, hcC, reach_prev_of_TE hreach⟩

/-- `_checkE_path_formula` is exact: the states from which some path satisfies `r` -/
theorem checkE_exact (K : Kripke σ) (hK : K.WF) (r : RFm) (s : σ) :
    s ∈ checkE K r ↔ (s ∈ K.states ∧ ∃ π, IsPath K π ∧ π 0 = s ∧ satAt K.lab π r 0) := by
  constructor
  · intro h
    obtain ⟨hs, π, hπ, h0, _, hsat⟩ := checkE_sound K r s h
    exact ⟨hs, π, hπ, h0, hsat⟩
  · rintro ⟨hs, π, hπ, rfl, hsat⟩
    exact checkE_complete K hK r π hπ hs hsat

set_option linter.unusedVariables false in
/-- … and the witness can be taken ultimately periodic (the lasso the tableau finds; `hK` is not needed for this
    direction) -/
theorem checkE_lasso (K : Kripke σ) (hK : K.WF) (r : RFm) (s : σ) (h : s ∈ checkE K r) :
    ∃ π, IsPath K π ∧ π 0 = s ∧ UltPeriodic π ∧ satAt K.lab π r 0 :=
  (checkE_sound K r s h).2

/-- `LTL.modelcheck(K, A g)` succeeds on every LTL formula and returns exactly the states all of whose paths
    satisfy `g` -/
theorem modelcheck_exact (K : Kripke σ) (hK : K.WF) (g : Fm) (hg : g.isLTLPath = true) :
    ∃ R, modelcheck K (.A g) = .ok R ∧
      ∀ s, s ∈ R ↔ (s ∈ K.states ∧ ∀ π, IsPath K π → π 0 = s → sat K g π 0) := by
  obtain ⟨r, hr⟩ := toR_restrict g.lnot (isLTLPath_lnot g hg)
  refine ⟨K.states.filter (fun s => decide (s ∉ checkE K r)), by simp only [modelcheck, hr], ?_⟩
  intro s
  simp only [List.mem_filter, decide_eq_true_eq]
  constructor
  · rintro ⟨hs, hn⟩
    refine ⟨hs, fun π hπ h0 => ?_⟩
    by_contra hcon
    apply hn
    refine (checkE_exact K hK r s).mpr ⟨hs, π, hπ, h0, ?_⟩
    rw [← sat_toR K _ r hr, sat_restrict, sat_lnot]
    exact hcon
  · rintro ⟨hs, hall⟩
    refine ⟨hs, fun hin => ?_⟩
    obtain ⟨_, π, hπ, h0, hsat⟩ := (checkE_exact K hK r s).mp hin
    rw [← sat_toR K _ r hr, sat_restrict, sat_lnot] at hsat
    exact hsat (hall π hπ h0)

/-- equivalently: a state is excluded iff some ultimately periodic path from it satisfies `¬ g` -/
theorem excluded_iff_lasso (K : Kripke σ) (hK : K.WF) (g : Fm) (hg : g.isLTLPath = true) (R : List σ)
    (hR : modelcheck K (.A g) = .ok R) (s : σ) (hs : s ∈ K.states) :
    s ∉ R ↔ ∃ π, IsPath K π ∧ π 0 = s ∧ UltPeriodic π ∧ ¬ sat K g π 0 := by
  obtain ⟨r, hr⟩ := toR_restrict g.lnot (isLTLPath_lnot g hg)
  simp only [modelcheck, hr, Except.ok.injEq] at hR
  subst hR
  simp only [List.mem_filter, decide_eq_true_eq, hs, true_and, not_not]
  constructor
  · intro hin
    obtain ⟨π, hπ, h0, hper, hsat⟩ := checkE_lasso K hK r s hin
    rw [← sat_toR K _ r hr, sat_restrict, sat_lnot] at hsat
    exact ⟨π, hπ, h0, hper, hsat⟩
  · rintro ⟨π, hπ, h0, _, hsat⟩
    refine (checkE_exact K hK r s).mpr ⟨hs, π, hπ, h0, ?_⟩
    rw [← sat_toR K _ r hr, sat_restrict, sat_lnot]
    exact hsat

#print axioms modelcheck_exact
#print axioms excluded_iff_lasso
#print axioms checkE_exact
#print axioms checkE_lasso
end PMC.LTL
