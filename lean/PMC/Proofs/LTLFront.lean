/-
  Front end of the LTL checker: `LNot` + rewriting always lands in the syntax the tableau accepts (`toR` succeeds),
  and the translation `toR` preserves meaning.
-/
import PMC.Spec.Semantics
import PMC.Model.LTL
import PMC.Proofs.LTLProof
import PMC.Proofs.Rewrite
namespace PMC.LTL
open PMC Fm

variable {σ : Type}

/-! ### `toR` succeeds on the rewriting of an LTL path formula -/

theorem toR_lnot_isSome (f : Fm) (h : (toR f).isSome = true) : (toR f.lnot).isSome = true := by
  fun_induction lnot f
  · rename_i f ih
    apply ih
    simpa [toR] using h
  · simpa [toR] using h
  · simpa [toR] using h

theorem toRList_isSome_cons (f : Fm) (fs : List Fm) :
    (toR.toRList (f :: fs)).isSome = true ↔ ((toR f).isSome = true ∧ (toR.toRList fs).isSome = true) := by
  simp only [toR.toRList]
  cases toR f <;> cases toR.toRList fs <;> simp

theorem toR_U_isSome (f g : Fm) :
    (toR (.U f g)).isSome = true ↔ ((toR f).isSome = true ∧ (toR g).isSome = true) := by
  simp only [toR]
  cases toR f <;> cases toR g <;> simp

theorem toR_not_isSome (f : Fm) : (toR (.not f)).isSome = (toR f).isSome := by
  simp [toR]

theorem toR_restrict_isSome (g : Fm) : g.isLTLPath = true → (toR g.restrict).isSome = true := by
  apply Fm.restrict.induct
    (motive_1 := fun fs => isLTLPath.isLTLPathList fs = true → (toR.toRList (restrict.restrictList fs)).isSome = true)
    (motive_3 := fun fs => isLTLPath.isLTLPathList fs = true →
      (toR.toRList (restrict.restrictNegList fs)).isSome = true)
    (motive_2 := fun f => f.isLTLPath = true → (toR f.restrict).isSome = true)
  · intro _; simp [restrict, toR]
  · intro _; simp [restrict, toR]
  · intro n _; simp [restrict, toR]
  · intro f ih h
    simp only [isLTLPath] at h
    simp only [restrict]
    exact toR_lnot_isSome _ (ih h)
  · intro fs ih h
    simp only [isLTLPath] at h
    simpa [restrict, toR] using ih h
  · intro fs ih h
    simp only [isLTLPath] at h
    simpa [restrict, toR] using ih h
  · intro f g ihf ihg h
    simp only [isLTLPath, Bool.and_eq_true] at h
    simp only [restrict, toR, Option.isSome_map, toRList_isSome_cons]
    exact ⟨toR_lnot_isSome _ (ihf h.1), ihg h.2, by simp [toR.toRList]⟩
  · intro f ih h
    simp only [isLTLPath] at h
    simpa [restrict, toR] using ih h
  · intro f ih h
    simp only [isLTLPath] at h
    simp only [restrict, toR_U_isSome]
    exact ⟨by simp [toR], ih h⟩
  · intro f ih h
    simp only [isLTLPath] at h
    simp only [restrict, toR_not_isSome, toR_U_isSome]
    exact ⟨by simp [toR], toR_lnot_isSome _ (ih h)⟩
  · intro f g ihf ihg h
    simp only [isLTLPath, Bool.and_eq_true] at h
    simp only [restrict, toR_U_isSome]
    exact ⟨ihf h.1, ihg h.2⟩
  · intro f g ihf ihg h
    simp only [isLTLPath, Bool.and_eq_true] at h
    simp only [restrict, toR_not_isSome, toR_U_isSome]
    exact ⟨toR_lnot_isSome _ (ihf h.1), toR_lnot_isSome _ (ihg h.2)⟩
  · intro f _ h; simp [isLTLPath] at h
  · intro f _ h; simp [isLTLPath] at h
  · intro _; simp [restrict.restrictList, toR.toRList]
  · intro f fs ihf ihfs h
    simp only [isLTLPath.isLTLPathList, Bool.and_eq_true] at h
    simp only [restrict.restrictList, toRList_isSome_cons]
    exact ⟨ihf h.1, ihfs h.2⟩
  · intro _; simp [restrict.restrictNegList, toR.toRList]
  · intro f fs ihf ihfs h
    simp only [isLTLPath.isLTLPathList, Bool.and_eq_true] at h
    simp only [restrict.restrictNegList, toRList_isSome_cons]
    exact ⟨toR_lnot_isSome _ (ihf h.1), ihfs h.2⟩

theorem isLTLPath_lnot' (g : Fm) (hg : g.isLTLPath = true) : g.lnot.isLTLPath = true := by
  fun_induction lnot g
  · rename_i f ih
    apply ih
    simpa [isLTLPath] using hg
  · simpa [isLTLPath] using hg
  · simpa [isLTLPath] using hg

/-! ### `toR` preserves meaning -/

theorem sat_toR' (K : Kripke σ) (f : Fm) :
    ∀ r, toR f = some r → ∀ (π : Nat → σ) (i : Nat), sat K f π i ↔ satAt K.lab π r i := by
  apply Fm.restrict.induct
    (motive_1 := fun fs => ∀ rs, toR.toRList fs = some rs → ∀ (π : Nat → σ) (i : Nat),
      sat.satAny K fs π i ↔ satAt.satAny K.lab π rs i)
    (motive_3 := fun _ => True)
    (motive_2 := fun f => ∀ r, toR f = some r → ∀ (π : Nat → σ) (i : Nat), sat K f π i ↔ satAt K.lab π r i)
  · intro r h π i; simp only [toR, Option.some.injEq] at h; subst h; simp [sat, satAt]
  · intro r h π i; simp only [toR, Option.some.injEq] at h; subst h; simp [sat, satAt]
  · intro n r h π i; simp only [toR, Option.some.injEq] at h; subst h; simp [sat, satAt]
  · intro f ih r h π i
    simp only [toR, Option.map_eq_some_iff] at h
    obtain ⟨r', hr', rfl⟩ := h
    simp only [sat, satAt, ih r' hr']
  · intro fs ih r h π i
    simp only [toR, Option.map_eq_some_iff] at h
    obtain ⟨rs, hrs, rfl⟩ := h
    simp only [sat, satAt]
    exact ih rs hrs π i
  · intro fs _ r h; simp [toR] at h
  · intro f g _ _ r h; simp [toR] at h
  · intro f ih r h π i
    simp only [toR, Option.map_eq_some_iff] at h
    obtain ⟨r', hr', rfl⟩ := h
    simp only [sat, satAt, ih r' hr']
  · intro f _ r h; simp [toR] at h
  · intro f _ r h; simp [toR] at h
  · intro f g ihf ihg r h π i
    simp only [toR] at h
    cases hf : toR f with
    | none => simp [hf] at h
    | some f' =>
      cases hg : toR g with
      | none => simp [hf, hg] at h
      | some g' =>
        simp only [hf, hg, Option.some.injEq] at h
        subst h
        simp only [sat, satAt, ihf f' hf, ihg g' hg]
  · intro f g _ _ r h; simp [toR] at h
  · intro f _ r h; simp [toR] at h
  · intro f _ r h; simp [toR] at h
  · intro rs h π i
    simp only [toR.toRList, Option.some.injEq] at h; subst h
    simp [sat.satAny, satAt.satAny]
  · intro f fs ihf ihfs rs h π i
    simp only [toR.toRList] at h
    cases hf : toR f with
    | none => simp [hf] at h
    | some f' =>
      cases hfs : toR.toRList fs with
      | none => simp [hf, hfs] at h
      | some fs' =>
        simp only [hf, hfs, Option.some.injEq] at h
        subst h
        simp only [sat.satAny, satAt.satAny, ihf f' hf, ihfs fs' hfs]
  · trivial
  · intros; trivial

end PMC.LTL
