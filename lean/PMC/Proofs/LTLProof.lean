import PMC.Model.LTL
import Mathlib.Logic.Relation
import Mathlib.Data.Fintype.Pigeonhole
import Mathlib.Tactic

namespace PMC.LTL
open Relation

/-- position-indexed LTL semantics of restricted formulas over a state sequence -/
def satAt {σ : Type} (L : σ → List String) (π : Nat → σ) : RFm → Nat → Prop
  | .tt, _ => True | .ff, _ => False
  | .ap n, i => n ∈ L (π i)
  | .not f, i => ¬ satAt L π f i
  | .or fs, i => satAny L π fs i
  | .X f, i => satAt L π f (i+1)
  | .U f g, i => ∃ j, i ≤ j ∧ satAt L π g j ∧ ∀ k, i ≤ k → k < j → satAt L π f k
where satAny {σ : Type} (L : σ → List String) (π : Nat → σ) : List RFm → Nat → Prop
  | [], _ => False
  | f :: fs, i => satAt L π f i ∨ satAny L π fs i

theorem mem_dedup {α : Type} [DecidableEq α] (l : List α) (x : α) : x ∈ dedup l ↔ x ∈ l := by
  induction l with
  | nil => simp [dedup]
  | cons a l ih =>
    simp only [dedup, List.mem_cons, List.mem_filter, ih, decide_eq_true_eq]
    by_cases h : x = a <;> simp [h]

/-- usable induction principle for the nested inductive -/
theorem RFm.induct' {P : RFm → Prop}
    (tt : P .tt) (ff : P .ff) (ap : ∀ n, P (.ap n))
    (not : ∀ f, P f → P (.not f))
    (or : ∀ fs, (∀ f ∈ fs, P f) → P (.or fs))
    (X : ∀ f, P f → P (.X f))
    (U : ∀ f g, P f → P g → P (.U f g)) : ∀ f, P f := by
  intro f
  exact go f
where
  go : ∀ f, P f
    | .tt => tt | .ff => ff | .ap n => ap n
    | .not f => not f (go f)
    | .or fs => or fs (goList fs)
    | .X f => X f (go f)
    | .U f g => U f g (go f) (go g)
  goList : ∀ fs : List RFm, ∀ f ∈ fs, P f
    | [], _, h => by cases h
    | f :: fs, f', h => by
      rcases List.mem_cons.mp h with h | h
      · exact h ▸ go f
      · exact goList fs f' h

/-! ### basic facts -/

theorem valAny_iff (lab xs) (fs : List RFm) :
    val.valAny lab xs fs = true ↔ ∃ f ∈ fs, val lab xs f = true := by
  induction fs with
  | nil => simp [val.valAny]
  | cons f fs ih => simp [val.valAny, ih]

variable {σ : Type}

theorem satAny_iff (L : σ → List String) (π : ℕ → σ) (fs : List RFm) (i : ℕ) :
    satAt.satAny L π fs i ↔ ∃ f ∈ fs, satAt L π f i := by
  induction fs with
  | nil => simp [satAt.satAny]
  | cons f fs ih => simp [satAt.satAny, ih]

theorem self_mem_subs (f : RFm) : f ∈ f.subs := by
  cases f <;> simp [RFm.subs]

theorem subsList_mem {fs : List RFm} {h : RFm} :
    h ∈ RFm.subs.subsList fs ↔ ∃ f ∈ fs, h ∈ f.subs := by
  induction fs with
  | nil => simp [RFm.subs.subsList]
  | cons f fs ih => simp [RFm.subs.subsList, ih]

/-- subformula relation is transitive -/
theorem subs_trans {g h k : RFm} (hk : k ∈ h.subs) (hg : h ∈ g.subs) : k ∈ g.subs := by
  induction g using RFm.induct' with
  | tt => simp [RFm.subs] at hg; subst hg; exact hk
  | ff => simp [RFm.subs] at hg; subst hg; exact hk
  | ap n => simp [RFm.subs] at hg; subst hg; exact hk
  | not f ih =>
    simp only [RFm.subs, List.mem_cons] at hg ⊢
    rcases hg with rfl | hg
    · simpa [RFm.subs] using hk
    · exact Or.inr (ih hg)
  | or fs ih =>
    simp only [RFm.subs, List.mem_cons, subsList_mem] at hg ⊢
    rcases hg with rfl | ⟨f, hf, hg⟩
    · simpa [RFm.subs, subsList_mem] using hk
    · exact Or.inr ⟨f, hf, ih f hf hg⟩
  | X f ih =>
    simp only [RFm.subs, List.mem_cons] at hg ⊢
    rcases hg with rfl | hg
    · simpa [RFm.subs] using hk
    · exact Or.inr (ih hg)
  | U f g ihf ihg =>
    simp only [RFm.subs, List.mem_cons, List.mem_append] at hg ⊢
    rcases hg with rfl | hg | hg
    · simpa [RFm.subs] using hk
    · exact Or.inr (Or.inl (ihf hg))
    · exact Or.inr (Or.inr (ihg hg))

theorem X_mem_elemX {g f : RFm} (h : RFm.X f ∈ g.subs) : RFm.X f ∈ elemX g := by
  simp only [elemX, mem_dedup, List.mem_filterMap]
  exact ⟨_, h, rfl⟩

theorem XU_mem_elemX {g f h : RFm} (hU : RFm.U f h ∈ g.subs) : RFm.X (.U f h) ∈ elemX g := by
  simp only [elemX, mem_dedup, List.mem_filterMap]
  exact ⟨_, hU, rfl⟩

/-! ### truth lemma -/

/-- an infinite walk of atoms over the state sequence `fun i => (w i).1` -/
structure Walk (L : σ → List String) (g : RFm) (w : ℕ → σ × List RFm) : Prop where
  edge : ∀ i f, RFm.X f ∈ elemX g →
    ((w i).2.contains (RFm.X f) = true ↔ val (L (w (i+1)).1) (w (i+1)).2 f = true)
  fulfil : ∀ i f h, RFm.U f h ∈ g.subs → val (L (w i).1) (w i).2 (.U f h) = true →
    ∃ j, i ≤ j ∧ val (L (w j).1) (w j).2 h = true

theorem truth {L : σ → List String} {g : RFm} {w : ℕ → σ × List RFm} (W : Walk L g w) :
    ∀ φ, φ ∈ g.subs → ∀ i, val (L (w i).1) (w i).2 φ = true ↔ satAt L (fun i => (w i).1) φ i := by
  intro φ
  induction φ using RFm.induct' with
  | tt => intro _ i; simp [val, satAt]
  | ff => intro _ i; simp [val, satAt]
  | ap n => intro _ i; simp [val, satAt]
  | not f ih =>
    intro hm i
    have := ih (subs_trans (by simp [RFm.subs, self_mem_subs]) hm) i
    simp [val, satAt, ← this]
  | or fs ih =>
    intro hm i
    simp only [val, satAt, valAny_iff, satAny_iff]
    constructor
    · rintro ⟨f, hf, hv⟩
      exact ⟨f, hf, (ih f hf (subs_trans (by simp [RFm.subs, subsList_mem]; exact Or.inr ⟨f, hf, self_mem_subs f⟩) hm) i).mp hv⟩
    · rintro ⟨f, hf, hv⟩
      exact ⟨f, hf, (ih f hf (subs_trans (by simp [RFm.subs, subsList_mem]; exact Or.inr ⟨f, hf, self_mem_subs f⟩) hm) i).mpr hv⟩
  | X f ih =>
    intro hm i
    have hf : f ∈ g.subs := subs_trans (by simp [RFm.subs, self_mem_subs]) hm
    simp only [val, satAt]
    rw [W.edge i f (X_mem_elemX hm)]
    exact ih hf (i+1)
  | U f h ihf ihh =>
    intro hm i
    have hf : f ∈ g.subs := subs_trans (by simp [RFm.subs, self_mem_subs]) hm
    have hh : h ∈ g.subs := subs_trans (by simp [RFm.subs, self_mem_subs]) hm
    have hXU := XU_mem_elemX hm
    -- local expansion at every position
    have step : ∀ k, val (L (w k).1) (w k).2 (.U f h) = true ↔
        (val (L (w k).1) (w k).2 h = true ∨
          (val (L (w k).1) (w k).2 f = true ∧ val (L (w (k+1)).1) (w (k+1)).2 (.U f h) = true)) := by
      intro k
      rw [← W.edge k _ hXU]
      simp [val]
    constructor
    · intro hv
      -- least fulfilment point
      obtain ⟨j, hij, hj⟩ := W.fulfil i f h hm hv
      -- strong statement: U holds at k for all i ≤ k ≤ first witness
      classical
      let j0 := Nat.find (p := fun j => i ≤ j ∧ val (L (w j).1) (w j).2 h = true) ⟨j, hij, hj⟩
      have hj0 : i ≤ j0 ∧ val (L (w j0).1) (w j0).2 h = true :=
        Nat.find_spec (p := fun j => i ≤ j ∧ val (L (w j).1) (w j).2 h = true) ⟨j, hij, hj⟩
      have hmin : ∀ k, i ≤ k → k < j0 → ¬ val (L (w k).1) (w k).2 h = true := by
        intro k hik hk hvk
        exact Nat.find_min (p := fun j => i ≤ j ∧ val (L (w j).1) (w j).2 h = true) ⟨j, hij, hj⟩ hk ⟨hik, hvk⟩
      have hU : ∀ k, i ≤ k → k ≤ j0 → val (L (w k).1) (w k).2 (.U f h) = true := by
        intro k hik
        induction k, hik using Nat.le_induction with
        | base => intro _; exact hv
        | succ k hik ih =>
          intro hk
          have := (step k).mp (ih (by omega))
          rcases this with h1 | ⟨_, h2⟩
          · exact absurd h1 (hmin k hik (by omega))
          · exact h2
      refine ⟨j0, hj0.1, (ihh hh j0).mp hj0.2, ?_⟩
      intro k hik hk
      have := (step k).mp (hU k hik (by omega))
      rcases this with h1 | ⟨h1, _⟩
      · exact absurd h1 (hmin k hik hk)
      · exact (ihf hf k).mp h1
    · rintro ⟨j, hij, hj, hbefore⟩
      -- backward induction from j down to i
      have : ∀ d, d ≤ j - i → val (L (w (j - d)).1) (w (j - d)).2 (.U f h) = true := by
        intro d
        induction d with
        | zero => intro _; exact (step j).mpr (Or.inl ((ihh hh j).mpr hj))
        | succ d ih =>
          intro hd
          have hk : j - (d+1) + 1 = j - d := by omega
          refine (step (j - (d+1))).mpr (Or.inr ⟨(ihf hf _).mpr (hbefore _ (by omega) (by omega)), ?_⟩)
          rw [hk]; exact ih (by omega)
      have := this (j - i) le_rfl
      rwa [show j - (j - i) = i by omega] at this

end PMC.LTL
