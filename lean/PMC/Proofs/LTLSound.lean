import PMC.Proofs.LTLProof

namespace PMC.LTL
open Relation

variable {σ : Type}


/-- atom `a` makes `φ` true -/
def holds (L : σ → List String) (a : Atom σ) (φ : RFm) : Prop := val (L a.1) a.2 φ = true

/-- tableau edge -/
def AEdge (R : σ → σ → Prop) (L : σ → List String) (g : RFm) (a b : Atom σ) : Prop :=
  R a.1 b.1 ∧ ∀ f, RFm.X f ∈ elemX g → (a.2.contains (RFm.X f) = true ↔ holds L b f)

/-- local expansion of U inside one atom along an edge -/
theorem holds_U_step {R : σ → σ → Prop} {L : σ → List String} {g f h : RFm} {a b : Atom σ}
    (hm : RFm.U f h ∈ g.subs) (e : AEdge R L g a b) :
    holds L a (.U f h) ↔ (holds L a h ∨ (holds L a f ∧ holds L b (.U f h))) := by
  unfold holds
  have := e.2 _ (XU_mem_elemX hm)
  unfold holds at this
  rw [← this]
  simp [val]

/-- a finite walk from `a` to `b`; `l` lists the vertices visited, excluding `b` -/
inductive FinWalk (E : α → α → Prop) : α → α → List α → Prop
  | single {a b} : E a b → FinWalk E a b [a]
  | cons {a x b l} : E a x → FinWalk E x b l → FinWalk E a b (a :: l)

theorem FinWalk.of_transGen {E : α → α → Prop} {a b : α} (h : TransGen E a b) : ∃ l, FinWalk E a b l := by
  induction h using TransGen.head_induction_on with
  | single h => exact ⟨_, .single h⟩
  | head h _ ih => obtain ⟨l, hl⟩ := ih; exact ⟨_, .cons h hl⟩

theorem FinWalk.append {E : α → α → Prop} {a b c : α} {l l' : List α}
    (h : FinWalk E a b l) (h' : FinWalk E b c l') : FinWalk E a c (l ++ l') := by
  induction h with
  | single e => exact .cons e h'
  | cons e _ ih => exact .cons e (ih h')

theorem FinWalk.ne_nil {E : α → α → Prop} {a b : α} {l : List α} (h : FinWalk E a b l) : l ≠ [] := by
  cases h <;> simp

theorem FinWalk.head {E : α → α → Prop} {a b : α} {l : List α} (h : FinWalk E a b l) :
    l.head? = some a := by
  cases h <;> simp

/-- consecutive vertices are edges, and the last vertex has an edge to the end point -/
theorem FinWalk.edges {E : α → α → Prop} {a b : α} {l : List α} (h : FinWalk E a b l) :
    (∀ i (hi : i + 1 < l.length), E (l[i]) (l[i+1])) ∧
    (∀ hl : l.length - 1 < l.length, E (l[l.length - 1]) b) := by
  induction h with
  | single e => simp; exact e
  | @cons a x b l e hw ih =>
    have hne := hw.ne_nil
    have hhd := hw.head
    constructor
    · intro i hi
      cases i with
      | zero =>
        cases l with
        | nil => exact absurd rfl hne
        | cons y l => simp at hhd; subst hhd; simpa using e
      | succ i => simpa using ih.1 i (by simpa using hi)
    · intro _
      cases l with
      | nil => exact absurd rfl hne
      | cons y l => simpa using ih.2 (by simp)

/-- unroll a closed walk into an infinite periodic walk -/
theorem FinWalk.unroll {E : α → α → Prop} {c : α} {l : List α} (h : FinWalk E c c l) :
    ∃ w : ℕ → α, w 0 = c ∧ (∀ i, E (w i) (w (i+1))) ∧ (∀ i, w i ∈ l) ∧ (∀ x ∈ l, ∀ i, ∃ j, i ≤ j ∧ w j = x) ∧
      (0 < l.length ∧ ∀ i, w (i + l.length) = w i) := by
  have hne := h.ne_nil
  have hpos : 0 < l.length := List.length_pos_iff.mpr hne
  have hhd := h.head
  obtain ⟨he, hlast⟩ := h.edges
  refine ⟨fun i => l[i % l.length]'(Nat.mod_lt _ hpos), ?_, ?_, fun i => List.getElem_mem _, ?_,
    hpos, fun i => by simp only [Nat.add_mod_right]⟩
  · cases l with
    | nil => exact absurd rfl hne
    | cons y l => simp at hhd; simp [hhd]
  · intro i
    by_cases hi : i % l.length + 1 < l.length
    · have : (i+1) % l.length = i % l.length + 1 := by
        rw [Nat.add_mod, Nat.mod_eq_of_lt (a := i % l.length + 1 % l.length)]
        · rcases Nat.lt_or_ge 1 l.length with h1 | h1
          · rw [Nat.mod_eq_of_lt h1]
          · omega
        · rcases Nat.lt_or_ge 1 l.length with h1 | h1
          · rw [Nat.mod_eq_of_lt h1]; exact hi
          · omega
      simp only [this]
      exact he _ hi
    · have h1 : i % l.length = l.length - 1 := by
        have := Nat.mod_lt i hpos; omega
      have h2 : (i+1) % l.length = 0 := by
        have : i + 1 = (i / l.length + 1) * l.length := by
          have := Nat.div_add_mod i l.length
          rw [h1] at this
          have hm : (i / l.length + 1) * l.length = l.length * (i / l.length) + l.length := by ring
          omega
        rw [this]; simp
      simp only [h1, h2]
      have := hlast (by omega)
      cases l with
      | nil => exact absurd rfl hne
      | cons y l => simp at hhd; subst hhd; simpa using this
  · intro x hx i
    obtain ⟨k, hk, rfl⟩ := List.getElem_of_mem hx
    refine ⟨i * l.length + k + l.length * 0 + (l.length * i - l.length * i), ?_, ?_⟩
    · have : i ≤ i * l.length := Nat.le_mul_of_pos_right i hpos
      omega
    · simp only [Nat.mul_zero, Nat.add_zero, Nat.sub_self]
      have : (i * l.length + k) % l.length = k := by
        rw [Nat.add_comm, Nat.add_mul_mod_self_right, Nat.mod_eq_of_lt hk]
      simp [this]

theorem FinWalk.mem_reach {E : α → α → Prop} {a b : α} {l : List α} (h : FinWalk E a b l) :
    ∀ x ∈ l, ReflTransGen E a x ∧ TransGen E x b := by
  induction h with
  | single e => intro x hx; simp at hx; subst hx; exact ⟨.refl, .single e⟩
  | @cons a y b l e hw ih =>
    intro x hx
    rcases List.mem_cons.mp hx with rfl | hx
    · obtain ⟨l', _⟩ := FinWalk.of_transGen (TransGen.single e)
      refine ⟨.refl, ?_⟩
      have := (ih y (by have := hw.head; cases l with
        | nil => exact absurd rfl hw.ne_nil
        | cons z l => simp at this; subst this; simp)).2
      exact TransGen.head e this
    · exact ⟨ReflTransGen.head e (ih x hx).1, (ih x hx).2⟩

/-- a closed walk at `c` through every listed target -/
theorem FinWalk.cover {E : α → α → Prop} {c : α} (hc : TransGen E c c) :
    ∀ ts : List α, (∀ t ∈ ts, TransGen E c t ∧ TransGen E t c) →
      ∃ l, FinWalk E c c l ∧ ∀ t ∈ ts, t ∈ l := by
  intro ts
  induction ts with
  | nil => intro _; obtain ⟨l, hl⟩ := FinWalk.of_transGen hc; exact ⟨l, hl, by simp⟩
  | cons t ts ih =>
    intro h
    obtain ⟨l, hl, hcov⟩ := ih (fun t' ht' => h t' (List.mem_cons_of_mem _ ht'))
    obtain ⟨h1, h2⟩ := h t (by simp)
    obtain ⟨l1, hl1⟩ := FinWalk.of_transGen h1
    obtain ⟨l2, hl2⟩ := FinWalk.of_transGen h2
    refine ⟨l1 ++ l2 ++ l, (hl1.append hl2).append hl, ?_⟩
    intro t' ht'
    rcases List.mem_cons.mp ht' with rfl | ht'
    · have := hl2.head
      cases l2 with
      | nil => exact absurd rfl hl2.ne_nil
      | cons z l2 => simp at this; subst this; simp
    · simp [hcov t' ht']

/-- **Soundness of the tableau** (abstract): an atom containing `g` that reaches a non-trivial,
self-fulfilling strongly connected class yields an ultimately periodic path of `R` from its state satisfying `g`.
`E` is any sub-relation of the tableau edges (the model restricts them to the enumerated atoms). -/
theorem tableau_sound {R : σ → σ → Prop} {L : σ → List String} {g : RFm}
    {E : Atom σ → Atom σ → Prop} (hE : ∀ a b, E a b → AEdge R L g a b)
    (a0 c : Atom σ) (C : List (Atom σ))
    (hg : holds L a0 g)
    (hreach : ReflTransGen E a0 c)
    (hcyc : TransGen E c c)
    (hC : ∀ b ∈ C, TransGen E c b ∧ TransGen E b c)
    (hClass : ∀ b, ReflTransGen E c b → ReflTransGen E b c → b ∈ C)
    (hsf : ∀ f h, RFm.U f h ∈ g.subs → ∀ b ∈ C, holds L b (.U f h) → ∃ b' ∈ C, holds L b' h) :
    ∃ π : ℕ → σ, (∀ i, R (π i) (π (i+1))) ∧ π 0 = a0.1 ∧ satAt L π g 0 ∧
      ∃ N p, 0 < p ∧ ∀ i, N ≤ i → π (i + p) = π i := by
  -- periodic part
  obtain ⟨l, hl, hcov⟩ := FinWalk.cover hcyc C hC
  obtain ⟨wc, hwc0, hwce, hwcl, hwcv, hppos, hper⟩ := hl.unroll
  have hwcC : ∀ i, wc i ∈ C := fun i => by
    obtain ⟨h1, h2⟩ := hl.mem_reach _ (hwcl i)
    exact hClass _ h1 h2.to_reflTransGen
  -- whole walk: prefix then periodic part
  have key : ∃ w : ℕ → Atom σ, w 0 = a0 ∧ (∀ i, E (w i) (w (i+1))) ∧
      ∃ N, (∀ i, N ≤ i → w i ∈ C) ∧ (∀ x ∈ C, ∀ i, ∃ j, i ≤ j ∧ w j = x) ∧
        (∀ i, N ≤ i → w (i + l.length) = w i) := by
    clear hg
    induction hreach using ReflTransGen.head_induction_on with
    | refl => exact ⟨wc, hwc0, hwce, 0, fun i _ => hwcC i, fun x hx i => hwcv x (hcov x hx) i, fun i _ => hper i⟩
    | @head a b hab _ ih =>
      obtain ⟨w, hw0, hwe, N, hN, hv, hp⟩ := ih
      refine ⟨fun n => Nat.casesOn n a w, rfl, ?_, N+1, ?_, ?_, ?_⟩
      · intro i; cases i with
        | zero => simpa [hw0] using hab
        | succ k => exact hwe k
      · intro i hi; cases i with
        | zero => omega
        | succ k => exact hN k (by omega)
      · intro x hx i
        obtain ⟨j, hij, hj⟩ := hv x hx i
        exact ⟨j+1, by omega, hj⟩
      · intro i hi; cases i with
        | zero => omega
        | succ k =>
          have := hp k (by omega)
          rw [show k + 1 + l.length = (k + l.length) + 1 by omega]
          exact this
  obtain ⟨w, hw0, hwe, N, hN, hv, hp⟩ := key
  have W : Walk L g w := by
    refine ⟨fun i f hf => (hE _ _ (hwe i)).2 f hf, ?_⟩
    intro i f h hm hU
    -- persistence of an unfulfilled U
    have pers : ∀ k, i ≤ k → (∃ j, i ≤ j ∧ j < k ∧ holds L (w j) h) ∨ holds L (w k) (.U f h) := by
      intro k hik
      induction k, hik using Nat.le_induction with
      | base => exact Or.inr hU
      | succ k hik ih =>
        rcases ih with ⟨j, h1, h2, h3⟩ | ih
        · exact Or.inl ⟨j, h1, by omega, h3⟩
        · rcases (holds_U_step hm (hE _ _ (hwe k))).mp ih with h1 | ⟨_, h2⟩
          · exact Or.inl ⟨k, hik, by omega, h1⟩
          · exact Or.inr h2
    rcases pers (max i N) (le_max_left _ _) with ⟨j, h1, _, h3⟩ | hk
    · exact ⟨j, h1, h3⟩
    · obtain ⟨b', hb', hh⟩ := hsf f h hm _ (hN _ (le_max_right _ _)) hk
      obtain ⟨j, hj, hwj⟩ := hv b' hb' (max i N)
      exact ⟨j, le_trans (le_max_left _ _) hj, by rw [hwj]; exact hh⟩
  refine ⟨fun i => (w i).1, fun i => (hE _ _ (hwe i)).1, by simp [hw0], ?_,
    N, l.length, hppos, fun i hi => by simp only [hp i hi]⟩
  have := (truth W g (self_mem_subs g) 0).mp (by rw [hw0]; exact hg)
  exact this

end PMC.LTL
