/-
  Plumbing between the executable tableau (`atoms`, `edgeB`, `tnext`, `tprev`, `ntsf`, `checkE`) and the abstract
  tableau theory (`AEdge`, `holds`, `tableau_sound`, `tableau_complete`).
-/
import PMC.Spec.Semantics
import PMC.Model.LTL
import PMC.Proofs.LTLComplete
import PMC.Proofs.Reach
import PMC.Proofs.SCCVisit
namespace PMC.LTL
open PMC Relation
variable {σ : Type} [DecidableEq σ]
set_option linter.unusedSectionVars false

/-- the atoms the model enumerates -/
def At (K : Kripke σ) (g : RFm) (a : Atom σ) : Prop := a.1 ∈ K.states ∧ a.2 ∈ sublists (elemX g)

/-- the transition relation of `K` -/
def KR (K : Kripke σ) : σ → σ → Prop := fun s t => t ∈ K.succ s

/-- tableau edges between enumerated atoms -/
def TE (K : Kripke σ) (g : RFm) (a b : Atom σ) : Prop := AEdge (KR K) K.lab g a b ∧ At K g a ∧ At K g b

theorem mem_atoms (K : Kripke σ) (g : RFm) (a : Atom σ) : a ∈ atoms K g ↔ At K g a := by
  obtain ⟨s, xs⟩ := a
  simp only [atoms, List.mem_flatMap, List.mem_map, Prod.mk.injEq, At]
  constructor
  · rintro ⟨s', hs', xs', hxs', rfl, rfl⟩; exact ⟨hs', hxs'⟩
  · rintro ⟨hs, hxs⟩; exact ⟨s, hs, xs, hxs, rfl, rfl⟩

theorem elemX_form {g x : RFm} (h : x ∈ elemX g) : ∃ f, x = .X f := by
  simp only [elemX, mem_dedup, List.mem_filterMap] at h
  obtain ⟨k, _, hk⟩ := h
  cases k <;> simp at hk
  · exact ⟨_, hk.symm⟩
  · exact ⟨_, hk.symm⟩

theorem mem_untils {g f h : RFm} : (f, h) ∈ untils g ↔ RFm.U f h ∈ g.subs := by
  simp only [untils, List.mem_filterMap]
  constructor
  · rintro ⟨k, hk, hk'⟩
    cases k <;> simp at hk'
    obtain ⟨rfl, rfl⟩ := hk'
    exact hk
  · intro hm; exact ⟨_, hm, rfl⟩

theorem holdsB_iff (K : Kripke σ) (a : Atom σ) (φ : RFm) : holdsB K a φ = true ↔ holds K.lab a φ := Iff.rfl

theorem edgeB_iff (K : Kripke σ) (g : RFm) (a b : Atom σ) :
    edgeB K g a b = true ↔ AEdge (KR K) K.lab g a b := by
  simp only [edgeB, Bool.and_eq_true, decide_eq_true_eq, List.all_eq_true, AEdge, KR]
  constructor
  · rintro ⟨h1, h2⟩
    refine ⟨h1, fun f hf => ?_⟩
    have := h2 _ hf
    simp only [beq_iff_eq] at this
    rw [← holdsB_iff, this]
  · rintro ⟨h1, h2⟩
    refine ⟨h1, fun x hx => ?_⟩
    obtain ⟨f, rfl⟩ := elemX_form hx
    have := h2 f hx
    simp only [beq_iff_eq]
    rw [← holdsB_iff] at this
    exact Bool.eq_iff_iff.mpr this

theorem mem_tnext (K : Kripke σ) (g : RFm) (a b : Atom σ) :
    b ∈ tnext K g a ↔ (At K g b ∧ AEdge (KR K) K.lab g a b) := by
  simp only [tnext, List.mem_filter, mem_atoms, edgeB_iff]

theorem mem_tprev (K : Kripke σ) (g : RFm) (a b : Atom σ) :
    b ∈ tprev K g a ↔ (At K g b ∧ AEdge (KR K) K.lab g b a) := by
  simp only [tprev, List.mem_filter, mem_atoms, edgeB_iff]

theorem tnext_closed (K : Kripke σ) (g : RFm) : ∀ x ∈ atoms K g, ∀ w ∈ tnext K g x, w ∈ atoms K g := by
  intro x _ w hw
  exact (mem_atoms K g w).mpr ((mem_tnext K g x w).mp hw).1

theorem tprev_closed (K : Kripke σ) (g : RFm) : ∀ x ∈ atoms K g, ∀ w ∈ tprev K g x, w ∈ atoms K g := by
  intro x _ w hw
  exact (mem_atoms K g w).mpr ((mem_tprev K g x w).mp hw).1

theorem TE.to_aedge {K : Kripke σ} {g : RFm} : ∀ a b, TE K g a b → AEdge (KR K) K.lab g a b := fun _ _ h => h.1

theorem TE_iff_tnext {K : Kripke σ} {g : RFm} {a b : Atom σ} (ha : At K g a) :
    TE K g a b ↔ Edge (tnext K g) a b := by
  simp only [TE, Edge, mem_tnext]
  tauto

theorem reach_of_TE {K : Kripke σ} {g : RFm} {a b : Atom σ} (h : ReflTransGen (TE K g) a b) :
    Reach (tnext K g) a b := by
  induction h with
  | refl => exact .refl
  | tail _ hbc ih => exact ih.tail ((TE_iff_tnext hbc.2.1).mp hbc)

theorem TE_of_reach {K : Kripke σ} {g : RFm} {a b : Atom σ} (ha : At K g a) (h : Reach (tnext K g) a b) :
    ReflTransGen (TE K g) a b ∧ At K g b := by
  induction h with
  | refl => exact ⟨.refl, ha⟩
  | tail _ hbc ih =>
    have := (TE_iff_tnext ih.2).mpr hbc
    exact ⟨ih.1.tail this, this.2.2⟩

theorem TE_of_reach_prev {K : Kripke σ} {g : RFm} {a b : Atom σ} (ha : At K g a) (h : Reach (tprev K g) a b) :
    ReflTransGen (TE K g) b a ∧ At K g b := by
  induction h with
  | refl => exact ⟨.refl, ha⟩
  | @tail b c _ hbc ih =>
    have hbc' := (mem_tprev K g b c).mp hbc
    exact ⟨ReflTransGen.head ⟨hbc'.2, hbc'.1, ih.2⟩ ih.1, hbc'.1⟩

theorem reach_prev_of_TE {K : Kripke σ} {g : RFm} {a b : Atom σ} (h : ReflTransGen (TE K g) b a) :
    Reach (tprev K g) a b := by
  induction h using ReflTransGen.head_induction_on with
  | refl => exact .refl
  | @head b c hbc _ ih => exact ih.tail ((mem_tprev K g c b).mpr ⟨hbc.2.1, hbc.1⟩)

theorem TE_transGen_At {K : Kripke σ} {g : RFm} {a b : Atom σ} (h : TransGen (TE K g) a b) :
    At K g a ∧ At K g b := by
  induction h with
  | single h => exact ⟨h.2.1, h.2.2⟩
  | tail _ h ih => exact ⟨ih.1, h.2.2⟩

/-- paths from a state of a well-formed structure stay inside the state list -/
theorem path_states {K : Kripke σ} (hK : K.WF) {π : Nat → σ} (hπ : IsPath K π) (h0 : π 0 ∈ K.states) :
    ∀ i, π i ∈ K.states := by
  intro i
  induction i with
  | zero => exact h0
  | succ i ih => exact hK.1 _ ih _ (hπ i)

/-! ### the U-test of `ntsf` -/

theorem ntsf_iff (K : Kripke σ) (g : RFm) (C : List (Atom σ)) :
    ntsf K g C = true ↔ ∃ c rest, C = c :: rest ∧ (C.length > 1 ∨ c ∈ tnext K g c) ∧
      ∀ f h, RFm.U f h ∈ g.subs → (∃ b ∈ C, holds K.lab b (.U f h)) → ∃ b' ∈ C, holds K.lab b' h := by
  cases C with
  | nil => simp [ntsf]
  | cons c rest =>
    simp only [ntsf, Bool.and_eq_true, Bool.or_eq_true, decide_eq_true_eq, List.all_eq_true, Prod.forall,
      mem_untils, Bool.not_eq_true', List.any_eq_true, holdsB_iff, List.cons.injEq,
      ← Bool.not_eq_true]
    constructor
    · rintro ⟨h1, h2⟩
      refine ⟨c, rest, ⟨rfl, rfl⟩, h1, fun f h hm hex => ?_⟩
      rcases h2 f h hm with h3 | h3
      · exact absurd hex h3
      · exact h3
    · rintro ⟨c', rest', ⟨rfl, rfl⟩, h1, h2⟩
      refine ⟨h1, fun f h hm => ?_⟩
      by_cases hex : ∃ b ∈ c :: rest, holds K.lab b (.U f h)
      · exact Or.inr (h2 f h hm hex)
      · exact Or.inl hex

end PMC.LTL
