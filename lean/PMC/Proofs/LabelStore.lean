/-
  Helpers for PMC/Properties/C07Labels.lean and C14Labels.lean (model: PMC/Model/LabelStore.lean).
-/
import PMC.Model.LabelStore
import PMC.Proofs.Safety
import PMC.Proofs.Fair
import PMC.Proofs.CTLSExact
import Mathlib.Tactic
namespace PMC

/-! ### pure facts: on a well-formed structure every set handed to `addLabel` is a set of states -/
section pure
variable {σ : Type} [DecidableEq σ]

theorem LTL.modelcheck_subset (K : Kripke σ) (f : Fm) (S : List σ) (h : LTL.modelcheck K f = .ok S) :
    ∀ s ∈ S, s ∈ K.states := by
  unfold LTL.modelcheck at h
  split at h
  · split at h
    · injection h with h; subst h; intro s hs; exact (List.mem_filter.mp hs).1
    · cases h
  · cases h

theorem CTLS.checkA_subset (K : Kripke σ) (hK : K.WF) (g : Fm) : ∀ s ∈ CTLS.checkA K g, s ∈ K.states := by
  unfold CTLS.checkA
  split
  · rename_i hc; exact CTL.check_subset K hK _ hc
  · unfold CTLS.ltlStates
    split
    · rename_i S hS; exact LTL.modelcheck_subset K _ S hS
    · intro s hs; cases hs

omit [DecidableEq σ] in
theorem Kripke.wf_addLabel [DecidableEq σ] (K : Kripke σ) (hK : K.WF) (a : String) (X : List σ) : (K.addLabel a X).WF :=
  CTLS.wf_of_frame K _ rfl rfl hK

theorem CTLS.checkQ_frame (K : Kripke σ) (b : Bool) (g : Fm) :
    (CTLS.checkQ K b g).1.states = K.states ∧ (CTLS.checkQ K b g).1.succ = K.succ := by
  unfold CTLS.checkQ
  split
  · exact ⟨rfl, rfl⟩
  · split
    · exact ⟨rfl, rfl⟩
    · exact ⟨rfl, rfl⟩

theorem CTLS.checkQ_subset (K : Kripke σ) (hK : K.WF) (b : Bool) (g : Fm) :
    ∀ s ∈ (CTLS.checkQ K b g).2, s ∈ K.states := by
  unfold CTLS.checkQ
  split
  · exact CTLS.checkA_subset K hK g
  · split
    · rename_i hc; exact CTL.check_subset K hK _ hc
    · intro s hs
      have := CTL.check_subset _ (Kripke.wf_addLabel K hK (CTLS.freshName K (.A g.lnot)) (CTLS.checkA K g.lnot))
        (.not (.ap (CTLS.freshName K (.A g.lnot)))) rfl s hs
      exact this

theorem CTL.modelcheck_subset (K : Kripke σ) (hK : K.WF) (f : Fm) (S : List σ) (h : CTL.modelcheck K f = .ok S) :
    ∀ s ∈ S, s ∈ K.states := by
  unfold CTL.modelcheck at h
  split at h
  · rename_i hc; injection h with h; subst h; exact CTL.check_subset K hK f hc
  · cases h

theorem Fm.isCTLState_lnot (f : Fm) (h : f.isCTLState = true) : f.lnot.isCTLState = true := by
  fun_induction Fm.lnot f <;> simp_all [Fm.isCTLState]

theorem Fair.nonFairCTL_isCTLState (fair : String) (f : Fm) :
    ∀ f', Fair.nonFairCTL fair f = .ok f' → f.isCTLState = true → f'.isCTLState = true := by
  apply Fair.nonFairCTL.induct fair
    (motive_1 := fun fs => ∀ fs', Fair.nonFairCTL.nonFairCTLList fair fs = .ok fs' →
      Fm.isCTLState.isCTLStateList fs = true → Fm.isCTLState.isCTLStateList fs' = true)
    (motive_2 := fun f => ∀ f', Fair.nonFairCTL fair f = .ok f' → f.isCTLState = true → f'.isCTLState = true)
  all_goals (intros; simp only [Fair.nonFairCTL, Fair.nonFairCTL.nonFairCTLList] at *)
  all_goals (try simp_all only [Except.ok.injEq, reduceCtorEq])
  all_goals (try subst_vars)
  all_goals (try simp_all [Fm.isCTLState, Fm.isCTLState.isCTLStateList, Fm.isCTLState_lnot])

theorem CTLS.checkQF_subset (fair : String) (K : Kripke σ) (hK : K.WF) (b : Bool) (g : Fm)
    (q : Kripke σ × List σ) (h : CTLS.checkQF fair K b g = .ok q) :
    q.1.states = K.states ∧ q.1.succ = K.succ ∧ ∀ s ∈ q.2, s ∈ K.states := by
  unfold CTLS.checkQF at h
  extract_lets f at h
  split at h
  · rename_i hc
    split at h
    · rename_i f' hf'
      injection h with h; subst h
      exact ⟨rfl, rfl, CTL.check_subset K hK f' (Fair.nonFairCTL_isCTLState fair f f' hf' hc)⟩
    · cases h
  · split at h
    · split at h
      · rename_i S hS
        injection h with h; subst h
        exact ⟨rfl, rfl, LTL.modelcheck_subset K _ S hS⟩
      · cases h
    · split at h
      · rename_i S hS
        injection h with h; subst h
        refine ⟨CTLS.removeState_states K _, CTLS.removeState_succ K _, fun s hs => ?_⟩
        have := CTL.modelcheck_subset _ (CTLS.removeState_wf K hK _) _ S hS s hs
        rwa [CTLS.removeState_states] at this
      · cases h

theorem Fair.fairStatesImpl_subset (K : Kripke σ) (hK : K.WF) (F : List (List σ)) :
    ∀ s ∈ Fair.fairStatesImpl K F, s ∈ K.states := by
  intro s hs
  unfold Fair.fairStatesImpl Fair.fairStatesWith at hs
  extract_lets fset rg at hs
  have hnd : K.graph.nodes.Nodup := by rw [CTL.kgraph_nodes]; exact hK.2.2
  have hcl := Fair.kgraph_closed K hK
  have wr : Graph.WFG rg := C13.reversed_wf _
  have nr : ∀ v, v ∈ rg.nodes ↔ v ∈ K.states := fun v => by
    rw [Fair.reversed_nodes' K.graph hnd hcl, CTL.kgraph_nodes]
  have hTn : ∀ c ∈ fset, c ∈ rg.nodes := by
    intro c hc
    rw [nr, ← CTL.kgraph_nodes]
    obtain ⟨C, hC, hcC⟩ := List.mem_flatten.mp hc
    exact ((SCC.sccs_correct K.graph.nodes (next := K.graph.next) hcl).2.1 c).mp
      (List.mem_flatten.mpr ⟨C, (List.mem_filter.mp hC).1, hcC⟩)
  obtain ⟨x, hx, hr⟩ := (Graph.reachFromFn_exact rg.next rg.nodes fset wr.closed hTn s).mp hs
  rw [← nr]
  have hxn := hTn x hx
  clear hs hx
  induction hr with
  | refl => exact hxn
  | tail _ hbc ih => exact wr.closed _ ih _ hbc

end pure

/-! ### the heap -/
namespace LHeap

@[simp] theorem mark_alloc (h : LHeap) (v : List String) : (h.alloc v).1.mark = h.mark + 1 := rfl
@[simp] theorem snd_alloc (h : LHeap) (v : List String) : (h.alloc v).2 = h.mark := rfl
@[simp] theorem log_alloc (h : LHeap) (v : List String) : (h.alloc v).1.log = h.log := rfl
theorem get_alloc (h : LHeap) (v : List String) (id : Nat) :
    (h.alloc v).1.get id = if id = h.mark then v else h.get id := rfl

@[simp] theorem mark_addTo (h : LHeap) (id : Nat) (a : String) : (h.addTo id a).mark = h.mark := rfl
@[simp] theorem log_addTo (h : LHeap) (id : Nat) (a : String) : (h.addTo id a).log = id :: h.log := rfl
theorem get_addTo (h : LHeap) (id : Nat) (a : String) (j : Nat) :
    (h.addTo id a).get j = if j = id then a :: h.get j else h.get j := rfl

@[simp] theorem mark_allocAll (h : LHeap) (vs : List (List String)) : (h.allocAll vs).mark = h.mark + vs.length := by
  induction vs generalizing h with
  | nil => rfl
  | cons v vs ih => simp only [allocAll, ih, mark_alloc, List.length_cons]; omega

@[simp] theorem log_allocAll (h : LHeap) (vs : List (List String)) : (h.allocAll vs).log = h.log := by
  induction vs generalizing h with
  | nil => rfl
  | cons v vs ih => simp only [allocAll, ih, log_alloc]

/-- allocation does not touch the live sets … -/
theorem get_allocAll_old (h : LHeap) (vs : List (List String)) (id : Nat) (hid : id < h.mark) :
    (h.allocAll vs).get id = h.get id := by
  induction vs generalizing h with
  | nil => rfl
  | cons v vs ih =>
    simp only [allocAll]
    rw [ih (h.alloc v).1 (by simp only [mark_alloc]; omega), get_alloc, if_neg (by omega)]

/-- … nor anything beyond the sets it creates -/
theorem get_allocAll_above (h : LHeap) (vs : List (List String)) (id : Nat) (hid : h.mark + vs.length ≤ id) :
    (h.allocAll vs).get id = h.get id := by
  induction vs generalizing h with
  | nil => rfl
  | cons v vs ih =>
    simp only [allocAll, List.length_cons] at hid ⊢
    rw [ih (h.alloc v).1 (by simp only [mark_alloc]; omega), get_alloc, if_neg (by omega)]

/-- the `i`-th new set has identity `h.mark + i` and contents `vs[i]` -/
theorem get_allocAll_new (h : LHeap) (vs : List (List String)) (i : Nat) (hi : i < vs.length) :
    (h.allocAll vs).get (h.mark + i) = vs[i] := by
  induction vs generalizing h i with
  | nil => simp at hi
  | cons v vs ih =>
    simp only [allocAll]
    cases i with
    | zero =>
      rw [get_allocAll_old _ _ _ (by simp), get_alloc]
      simp
    | succ i =>
      have := ih (h.alloc v).1 i (by simpa using hi)
      simp only [mark_alloc] at this
      rw [show h.mark + (i + 1) = h.mark + 1 + i by omega, this]
      simp

theorem wf_alloc {h : LHeap} (hw : h.WF) (v : List String) : (h.alloc v).1.WF := by
  intro id hid
  simp only [mark_alloc] at hid
  show (if id = h.mark then v else h.cells id) = []
  rw [if_neg (by omega)]; exact hw id (by omega)

theorem wf_allocAll {h : LHeap} (hw : h.WF) (vs : List (List String)) : (h.allocAll vs).WF := by
  induction vs generalizing h with
  | nil => exact hw
  | cons v vs ih => exact ih (wf_alloc hw v)

theorem wf_empty : LHeap.empty.WF := fun _ _ => rfl

end LHeap

/-- `omega` does not look through the abbreviation `LabId` -/
macro "lomega" : tactic => `(tactic| ((try simp only [LabId] at *); omega))

theorem List.nodup_eraseDups' {α : Type} [DecidableEq α] (l : List α) : l.eraseDups.Nodup := by
  induction hn : l.length using Nat.strong_induction_on generalizing l with
  | _ n ih =>
    cases l with
    | nil => simp
    | cons a as =>
      rw [List.eraseDups_cons, List.nodup_cons]
      refine ⟨?_, ih _ ?_ _ rfl⟩
      · rw [List.mem_eraseDups, List.mem_filter]; simp
      · subst hn
        exact Nat.lt_succ_of_le (List.length_filter_le _ _)

/-! ### objects: `addLabel` -/
namespace KObj
variable {σ : Type} [DecidableEq σ]

@[simp] theorem value_states (o : KObj σ) (h : LHeap) : (o.value h).states = o.states := rfl
@[simp] theorem value_succ (o : KObj σ) (h : LHeap) : (o.value h).succ = o.succ := rfl
theorem value_lab (o : KObj σ) (h : LHeap) (s : σ) :
    (o.value h).lab s = if s ∈ o.states then h.get (o.lab s) else [] := rfl

/-- the value only depends on the sets of the object -/
theorem value_congr (o : KObj σ) (h h' : LHeap) (e : ∀ s ∈ o.states, h'.get (o.lab s) = h.get (o.lab s)) :
    o.value h' = o.value h := by
  unfold value
  congr 1
  funext s
  by_cases hs : s ∈ o.states
  · simp only [hs, if_true, e s hs]
  · simp only [hs, if_false]

/-- `h'` differs from `h` at most in the sets of `o`, and only these were written -/
structure Fr (o : KObj σ) (h h' : LHeap) : Prop where
  mark : h'.mark = h.mark
  get : ∀ id : Nat, (∀ s ∈ o.states, o.lab s ≠ id) → h'.get id = h.get id
  log : ∀ id ∈ h'.log, id ∈ h.log ∨ ∃ s ∈ o.states, o.lab s = id

omit [DecidableEq σ] in
theorem Fr.refl (o : KObj σ) (h : LHeap) : Fr o h h := ⟨rfl, fun _ _ => rfl, fun _ hid => Or.inl hid⟩

omit [DecidableEq σ] in
theorem Fr.trans {o : KObj σ} {h h' h'' : LHeap} (a : Fr o h h') (b : Fr o h' h'') : Fr o h h'' :=
  ⟨b.mark.trans a.mark, fun id hid => (b.get id hid).trans (a.get id hid),
   fun id hid => (b.log id hid).elim (a.log id) Or.inr⟩

/-- one iteration of `for s in X: kripke.labels(s).add(a)` -/
def step (o : KObj σ) (a : String) (h : LHeap) (s : σ) : LHeap :=
  match o.labelsOf s with | some id => h.addTo id a | none => h

theorem addLabel_eq (o : KObj σ) (h : LHeap) (a : String) (X : List σ) :
    o.addLabel h a X = X.eraseDups.foldl (o.step a) h := rfl

theorem step_state (o : KObj σ) (a : String) (h : LHeap) (s : σ) (hs : s ∈ o.states) :
    o.step a h s = h.addTo (o.lab s) a := by
  simp [step, labelsOf, hs]

theorem step_nonstate (o : KObj σ) (a : String) (h : LHeap) (s : σ) (hs : s ∉ o.states) : o.step a h s = h := by
  simp [step, labelsOf, hs]

theorem fr_step (o : KObj σ) (a : String) (h : LHeap) (s : σ) : Fr o h (o.step a h s) := by
  by_cases hs : s ∈ o.states
  · rw [step_state o a h s hs]
    refine ⟨rfl, fun id hid => ?_, fun id hid => ?_⟩
    · rw [LHeap.get_addTo, if_neg (fun e => hid s hs e.symm)]
    · rw [LHeap.log_addTo, List.mem_cons] at hid
      rcases hid with rfl | hid
      · exact Or.inr ⟨s, hs, rfl⟩
      · exact Or.inl hid
  · rw [step_nonstate o a h s hs]; exact Fr.refl o h

theorem fr_foldl (o : KObj σ) (a : String) (Y : List σ) (h : LHeap) : Fr o h (Y.foldl (o.step a) h) := by
  induction Y generalizing h with
  | nil => exact Fr.refl o h
  | cons y Y ih => exact (fr_step o a h y).trans (ih _)

/-- `addLabel` on `o` writes to sets of `o` only -/
theorem fr_addLabel (o : KObj σ) (h : LHeap) (a : String) (X : List σ) : Fr o h (o.addLabel h a X) :=
  fr_foldl o a _ h

theorem get_foldl (o : KObj σ) (hinj : o.Inj) (a : String) (Y : List σ) (hnd : Y.Nodup)
    (hY : ∀ y ∈ Y, y ∈ o.states) (h : LHeap) (s : σ) (hs : s ∈ o.states) :
    (Y.foldl (o.step a) h).get (o.lab s) = if s ∈ Y then a :: h.get (o.lab s) else h.get (o.lab s) := by
  induction Y generalizing h with
  | nil => simp
  | cons y Y ih =>
    have hy : y ∈ o.states := hY y (List.mem_cons_self ..)
    rw [List.foldl_cons, ih (List.nodup_cons.mp hnd).2 (fun z hz => hY z (List.mem_cons_of_mem _ hz)),
      step_state o a h y hy, LHeap.get_addTo]
    by_cases e : s = y
    · subst e
      simp [(List.nodup_cons.mp hnd).1]
    · have : ¬ o.lab s = o.lab y := fun e' => e (hinj s hs y hy e')
      simp [e, this]

/-- **`addLabel` on the object is `Kripke.addLabel` on its value** — provided every state has a label set of its
    own and only states are labelled -/
theorem value_addLabel (o : KObj σ) (hinj : o.Inj) (h : LHeap) (a : String) (X : List σ)
    (hX : ∀ x ∈ X, x ∈ o.states) : o.value (o.addLabel h a X) = (o.value h).addLabel a X := by
  unfold value Kripke.addLabel
  congr 1
  funext s
  by_cases hs : s ∈ o.states
  · simp only [hs, if_true]
    rw [addLabel_eq, get_foldl o hinj a _ (List.nodup_eraseDups' X)
      (fun y hy => hX y (List.mem_eraseDups.mp hy)) h s hs]
    simp only [List.mem_eraseDups]
  · have : s ∉ X := fun h' => hs (hX s h')
    simp only [hs, if_false, this]

/-! ### the constructor -/

/-- the contents the constructor copies for state `s` -/
def srcOf (h : LHeap) (L : σ → Option LabId) (s : σ) : List String :=
  match L s with | some id => h.get id | none => []

theorem construct_fst (h : LHeap) (S : List σ) (succ : σ → List σ) (L : σ → Option LabId) :
    (construct h S succ L).1 = h.allocAll (S.map (srcOf h L)) := rfl

@[simp] theorem construct_states (h : LHeap) (S : List σ) (succ : σ → List σ) (L : σ → Option LabId) :
    (construct h S succ L).2.states = S := rfl
@[simp] theorem construct_succ (h : LHeap) (S : List σ) (succ : σ → List σ) (L : σ → Option LabId) :
    (construct h S succ L).2.succ = succ := rfl
theorem construct_lab (h : LHeap) (S : List σ) (succ : σ → List σ) (L : σ → Option LabId) (s : σ) :
    (construct h S succ L).2.lab s = h.mark + S.idxOf s := rfl

@[simp] theorem construct_mark (h : LHeap) (S : List σ) (succ : σ → List σ) (L : σ → Option LabId) :
    (construct h S succ L).1.mark = h.mark + S.length := by
  rw [construct_fst, LHeap.mark_allocAll, List.length_map]

@[simp] theorem construct_log (h : LHeap) (S : List σ) (succ : σ → List σ) (L : σ → Option LabId) :
    (construct h S succ L).1.log = h.log := by
  rw [construct_fst, LHeap.log_allocAll]

theorem construct_old (h : LHeap) (S : List σ) (succ : σ → List σ) (L : σ → Option LabId) (id : Nat)
    (hid : id < h.mark) : (construct h S succ L).1.get id = h.get id := by
  rw [construct_fst, LHeap.get_allocAll_old _ _ _ hid]

theorem construct_above (h : LHeap) (S : List σ) (succ : σ → List σ) (L : σ → Option LabId) (id : Nat)
    (hid : h.mark + S.length ≤ id) : (construct h S succ L).1.get id = h.get id := by
  rw [construct_fst, LHeap.get_allocAll_above _ _ _ (by simpa using hid)]

/-- the new object's sets are fresh … -/
theorem construct_lab_ge (h : LHeap) (S : List σ) (succ : σ → List σ) (L : σ → Option LabId) (s : σ) :
    h.mark ≤ (construct h S succ L).2.lab s := by
  rw [construct_lab]; exact Nat.le_add_right _ _

/-- … and live -/
theorem construct_live (h : LHeap) (S : List σ) (succ : σ → List σ) (L : σ → Option LabId) :
    (construct h S succ L).2.Live (construct h S succ L).1 := by
  intro s hs
  rw [construct_lab, construct_mark]
  exact Nat.add_lt_add_left (List.idxOf_lt_length_iff.mpr hs) _

/-- every state of a constructed object has a label set of its own -/
theorem construct_inj (h : LHeap) (S : List σ) (succ : σ → List σ) (L : σ → Option LabId) :
    (construct h S succ L).2.Inj := by
  intro s hs t _ e
  rw [construct_lab, construct_lab] at e
  exact (List.idxOf_inj hs).mp (Nat.add_left_cancel e)

/-- the set of state `s` holds a copy of what `L[s]` held -/
theorem construct_get (h : LHeap) (S : List σ) (succ : σ → List σ) (L : σ → Option LabId) (s : σ) (hs : s ∈ S) :
    (construct h S succ L).1.get ((construct h S succ L).2.lab s) = srcOf h L s := by
  have hi : S.idxOf s < (S.map (srcOf h L)).length := by
    rw [List.length_map]; exact List.idxOf_lt_length_iff.mpr hs
  rw [construct_lab, construct_fst, LHeap.get_allocAll_new _ _ _ hi, List.getElem_map, List.getElem_idxOf]

theorem construct_value (h : LHeap) (S : List σ) (succ : σ → List σ) (L : σ → Option LabId) :
    (construct h S succ L).2.value (construct h S succ L).1 =
      { states := S, succ := succ, lab := fun s => if s ∈ S then srcOf h L s else [] } := by
  unfold value
  congr 1
  funext s
  by_cases hs : s ∈ S
  · simp only [construct_states, hs, if_true, construct_get h S succ L s hs]
  · simp only [construct_states, hs, if_false]

theorem wf_construct {h : LHeap} (hw : h.WF) (S : List σ) (succ : σ → List σ) (L : σ → Option LabId) :
    (construct h S succ L).1.WF := by
  rw [construct_fst]; exact LHeap.wf_allocAll hw _

/-! ### `copyLabels` followed by the constructor: `clone`, `substructure` -/

theorem copyLabels_fst (h : LHeap) (o : KObj σ) (keep : σ → Bool) :
    (copyLabels h o keep).1 = h.allocAll ((o.states.filter keep).map (fun s => h.get (o.lab s))) := rfl

theorem copyLabels_snd (h : LHeap) (o : KObj σ) (keep : σ → Bool) (s : σ) :
    (copyLabels h o keep).2 s =
      if s ∈ o.states.filter keep then some (h.mark + (o.states.filter keep).idxOf s) else none := rfl

@[simp] theorem copyLabels_mark (h : LHeap) (o : KObj σ) (keep : σ → Bool) :
    (copyLabels h o keep).1.mark = h.mark + (o.states.filter keep).length := by
  rw [copyLabels_fst, LHeap.mark_allocAll, List.length_map]

@[simp] theorem copyLabels_log (h : LHeap) (o : KObj σ) (keep : σ → Bool) : (copyLabels h o keep).1.log = h.log := by
  rw [copyLabels_fst, LHeap.log_allocAll]

theorem copyLabels_old (h : LHeap) (o : KObj σ) (keep : σ → Bool) (id : Nat) (hid : id < h.mark) :
    (copyLabels h o keep).1.get id = h.get id := by
  rw [copyLabels_fst, LHeap.get_allocAll_old _ _ _ hid]

theorem copyLabels_above (h : LHeap) (o : KObj σ) (keep : σ → Bool) (id : Nat)
    (hid : h.mark + (o.states.filter keep).length ≤ id) : (copyLabels h o keep).1.get id = h.get id := by
  rw [copyLabels_fst, LHeap.get_allocAll_above _ _ _ (by simpa using hid)]

/-- the temporary dict holds, for every kept state, a copy of its label set -/
theorem copyLabels_src (h : LHeap) (o : KObj σ) (keep : σ → Bool) (s : σ) (hs : s ∈ o.states.filter keep) :
    srcOf (copyLabels h o keep).1 (copyLabels h o keep).2 s = h.get (o.lab s) := by
  have hi : (o.states.filter keep).idxOf s < ((o.states.filter keep).map (fun s => h.get (o.lab s))).length := by
    rw [List.length_map]; exact List.idxOf_lt_length_iff.mpr hs
  unfold srcOf
  rw [copyLabels_snd, if_pos hs]
  simp only
  rw [copyLabels_fst, LHeap.get_allocAll_new _ _ _ hi, List.getElem_map, List.getElem_idxOf]

/-- `copyLabels` then `construct`, as in `clone` (`keep = fun _ => true`) and `get_substructure` -/
def rebuild (h : LHeap) (o : KObj σ) (keep : σ → Bool) (succ' : σ → List σ) : LHeap × KObj σ :=
  construct (copyLabels h o keep).1 (o.states.filter keep) succ' (copyLabels h o keep).2

theorem clone_eq (h : LHeap) (o : KObj σ) : clone h o = rebuild h o (fun _ => true) o.succ := by
  simp [clone, rebuild]

theorem substructure_eq (h : LHeap) (o : KObj σ) (V : List σ) :
    substructure h o V = rebuild h o (fun s => decide (s ∈ V))
      (fun s => if s ∈ V then (o.succ s).filter (fun t => decide (t ∈ V)) else []) := rfl

theorem rebuild_mark (h : LHeap) (o : KObj σ) (keep : σ → Bool) (succ' : σ → List σ) :
    (rebuild h o keep succ').1.mark = h.mark + (o.states.filter keep).length + (o.states.filter keep).length := by
  simp [rebuild]

@[simp] theorem rebuild_log (h : LHeap) (o : KObj σ) (keep : σ → Bool) (succ' : σ → List σ) :
    (rebuild h o keep succ').1.log = h.log := by
  simp [rebuild]

@[simp] theorem rebuild_states (h : LHeap) (o : KObj σ) (keep : σ → Bool) (succ' : σ → List σ) :
    (rebuild h o keep succ').2.states = o.states.filter keep := rfl

@[simp] theorem rebuild_succ (h : LHeap) (o : KObj σ) (keep : σ → Bool) (succ' : σ → List σ) :
    (rebuild h o keep succ').2.succ = succ' := rfl

theorem rebuild_old (h : LHeap) (o : KObj σ) (keep : σ → Bool) (succ' : σ → List σ) (id : Nat) (hid : id < h.mark) :
    (rebuild h o keep succ').1.get id = h.get id := by
  unfold rebuild
  rw [construct_old _ _ _ _ _ (by rw [copyLabels_mark]; omega), copyLabels_old _ _ _ _ hid]

theorem rebuild_above (h : LHeap) (o : KObj σ) (keep : σ → Bool) (succ' : σ → List σ) (id : Nat)
    (hid : (rebuild h o keep succ').1.mark ≤ id) : (rebuild h o keep succ').1.get id = h.get id := by
  rw [rebuild_mark] at hid
  unfold rebuild
  rw [construct_above _ _ _ _ _ (by rw [copyLabels_mark]; omega), copyLabels_above _ _ _ _ (by omega)]

theorem rebuild_lab_ge (h : LHeap) (o : KObj σ) (keep : σ → Bool) (succ' : σ → List σ) (s : σ) :
    h.mark ≤ (rebuild h o keep succ').2.lab s := by
  have := construct_lab_ge (copyLabels h o keep).1 (o.states.filter keep) succ' (copyLabels h o keep).2 s
  rw [copyLabels_mark] at this
  unfold rebuild
  lomega

theorem rebuild_live (h : LHeap) (o : KObj σ) (keep : σ → Bool) (succ' : σ → List σ) :
    (rebuild h o keep succ').2.Live (rebuild h o keep succ').1 := construct_live _ _ _ _

theorem rebuild_inj (h : LHeap) (o : KObj σ) (keep : σ → Bool) (succ' : σ → List σ) :
    (rebuild h o keep succ').2.Inj := construct_inj _ _ _ _

theorem rebuild_value (h : LHeap) (o : KObj σ) (keep : σ → Bool) (succ' : σ → List σ) :
    (rebuild h o keep succ').2.value (rebuild h o keep succ').1 =
      { states := o.states.filter keep, succ := succ',
        lab := fun s => if s ∈ o.states.filter keep then h.get (o.lab s) else [] } := by
  unfold rebuild
  rw [construct_value]
  congr 1
  funext s
  by_cases hs : s ∈ o.states.filter keep
  · simp only [hs, if_true, copyLabels_src h o keep s hs]
  · simp only [hs, if_false]

theorem wf_rebuild {h : LHeap} (hw : h.WF) (o : KObj σ) (keep : σ → Bool) (succ' : σ → List σ) :
    (rebuild h o keep succ').1.WF := by
  unfold rebuild
  apply wf_construct
  rw [copyLabels_fst]; exact LHeap.wf_allocAll hw _

/-- an object whose sets were live before is not touched -/
theorem rebuild_frame (h : LHeap) (o : KObj σ) (keep : σ → Bool) (succ' : σ → List σ) (o' : KObj σ)
    (hl : o'.Live h) : o'.value (rebuild h o keep succ').1 = o'.value h :=
  value_congr o' _ _ (fun s hs => rebuild_old h o keep succ' _ (hl s hs))

/-- well-formedness of the value does not depend on the heap -/
theorem value_wf (o : KObj σ) {h : LHeap} (hw : (o.value h).WF) (h' : LHeap) : (o.value h').WF :=
  CTLS.wf_of_frame (o.value h) _ rfl rfl hw

end KObj

/-! ### the recursions, `F=None` -/
namespace CTLS
open KObj
variable {σ : Type} [DecidableEq σ]

theorem checkQL_fr (h : LHeap) (o : KObj σ) (b : Bool) (g : Fm) : o.Fr h (checkQL h o b g).1 := by
  unfold checkQL
  split
  · exact Fr.refl o h
  · split
    · exact Fr.refl o h
    · exact fr_addLabel o h _ _

theorem removeStateLList_fr (o : KObj σ) (fs : List Fm) (ih : ∀ f ∈ fs, ∀ h, o.Fr h (removeStateL h o f).1) :
    ∀ h, o.Fr h (removeStateL.removeStateLList h o fs).1 := by
  induction fs with
  | nil => intro h; exact Fr.refl o h
  | cons f fs ihs =>
    intro h
    simp only [removeStateL.removeStateLList]
    exact (ih f (List.mem_cons_self ..) h).trans (ihs (fun f' hf' => ih f' (List.mem_cons_of_mem _ hf')) _)

/-- `_remove_state_subformulas` on object `o` writes to sets of `o` only (no hypothesis on `o` or the heap) -/
theorem removeStateL_fr (o : KObj σ) (f : Fm) : ∀ h, o.Fr h (removeStateL h o f).1 := by
  induction f using Fm.induct' with
  | tt => intro h; exact Fr.refl o h
  | ff => intro h; exact Fr.refl o h
  | ap n => intro h; exact Fr.refl o h
  | not f ih => intro h; simp only [removeStateL]; exact ih h
  | X f ih => intro h; simp only [removeStateL]; exact ih h
  | F f ih => intro h; simp only [removeStateL]; exact ih h
  | G f ih => intro h; simp only [removeStateL]; exact ih h
  | or fs ih => intro h; simp only [removeStateL]; exact removeStateLList_fr o fs ih h
  | and fs ih => intro h; simp only [removeStateL]; exact removeStateLList_fr o fs ih h
  | imp f g ihf ihg => intro h; simp only [removeStateL]; exact (ihf h).trans (ihg _)
  | U f g ihf ihg => intro h; simp only [removeStateL]; exact (ihf h).trans (ihg _)
  | R f g ihf ihg => intro h; simp only [removeStateL]; exact (ihf h).trans (ihg _)
  | A g ih =>
    intro h; simp only [removeStateL]
    exact ((ih h).trans (checkQL_fr _ o true _)).trans (fr_addLabel o _ _ _)
  | E g ih =>
    intro h; simp only [removeStateL]
    exact ((ih h).trans (checkQL_fr _ o false _)).trans (fr_addLabel o _ _ _)

/-- `checkQL` on `o` is `checkQ` on the value of `o` -/
theorem checkQL_spec (o : KObj σ) (hinj : o.Inj) (hwf : ∀ h, (o.value h).WF) (h : LHeap) (b : Bool) (g : Fm) :
    (checkQL h o b g).2 = (checkQ (o.value h) b g).2 ∧ o.value (checkQL h o b g).1 = (checkQ (o.value h) b g).1 := by
  unfold checkQL checkQ
  split
  · exact ⟨rfl, rfl⟩
  · split
    · exact ⟨rfl, rfl⟩
    · have e := value_addLabel o hinj h (freshName (o.value h) (.A g.lnot)) (checkA (o.value h) g.lnot)
        (checkA_subset (o.value h) (hwf h) g.lnot)
      simp only [e, and_self]

theorem removeStateLList_spec (o : KObj σ) (fs : List Fm)
    (ih : ∀ f ∈ fs, ∀ h, (removeStateL h o f).2 = (removeState (o.value h) f).2 ∧
      o.value (removeStateL h o f).1 = (removeState (o.value h) f).1) :
    ∀ h, (removeStateL.removeStateLList h o fs).2 = (removeState.removeStateList (o.value h) fs).2 ∧
      o.value (removeStateL.removeStateLList h o fs).1 = (removeState.removeStateList (o.value h) fs).1 := by
  induction fs with
  | nil => intro h; exact ⟨rfl, rfl⟩
  | cons f fs ihs =>
    intro h
    obtain ⟨e2, e1⟩ := ih f (List.mem_cons_self ..) h
    obtain ⟨d2, d1⟩ := ihs (fun f' hf' => ih f' (List.mem_cons_of_mem _ hf')) (removeStateL h o f).1
    simp only [removeStateL.removeStateLList, removeState.removeStateList, d1, d2, e1, e2, and_self]

/-- **`_remove_state_subformulas` on object `o` is `CTLS.removeState` on the value of `o`**: same formula, and the
    object reads back as the relabelled structure -/
theorem removeStateL_spec (o : KObj σ) (hinj : o.Inj) (hwf : ∀ h, (o.value h).WF) (f : Fm) :
    ∀ h, (removeStateL h o f).2 = (removeState (o.value h) f).2 ∧
      o.value (removeStateL h o f).1 = (removeState (o.value h) f).1 := by
  induction f using Fm.induct' with
  | tt => intro h; exact ⟨rfl, rfl⟩
  | ff => intro h; exact ⟨rfl, rfl⟩
  | ap n => intro h; exact ⟨rfl, rfl⟩
  | not f ih => intro h; obtain ⟨e2, e1⟩ := ih h; simp only [removeStateL, removeState, e1, e2, and_self]
  | X f ih => intro h; obtain ⟨e2, e1⟩ := ih h; simp only [removeStateL, removeState, e1, e2, and_self]
  | F f ih => intro h; obtain ⟨e2, e1⟩ := ih h; simp only [removeStateL, removeState, e1, e2, and_self]
  | G f ih => intro h; obtain ⟨e2, e1⟩ := ih h; simp only [removeStateL, removeState, e1, e2, and_self]
  | or fs ih =>
    intro h; obtain ⟨e2, e1⟩ := removeStateLList_spec o fs ih h
    simp only [removeStateL, removeState, e1, e2, and_self]
  | and fs ih =>
    intro h; obtain ⟨e2, e1⟩ := removeStateLList_spec o fs ih h
    simp only [removeStateL, removeState, e1, e2, and_self]
  | imp f g ihf ihg =>
    intro h; obtain ⟨e2, e1⟩ := ihf h; obtain ⟨d2, d1⟩ := ihg (removeStateL h o f).1
    simp only [removeStateL, removeState, d1, d2, e1, e2, and_self]
  | U f g ihf ihg =>
    intro h; obtain ⟨e2, e1⟩ := ihf h; obtain ⟨d2, d1⟩ := ihg (removeStateL h o f).1
    simp only [removeStateL, removeState, d1, d2, e1, e2, and_self]
  | R f g ihf ihg =>
    intro h; obtain ⟨e2, e1⟩ := ihf h; obtain ⟨d2, d1⟩ := ihg (removeStateL h o f).1
    simp only [removeStateL, removeState, d1, d2, e1, e2, and_self]
  | A g ih =>
    intro h
    obtain ⟨e2, e1⟩ := ih h
    obtain ⟨q2, q1⟩ := checkQL_spec o hinj hwf (removeStateL h o g).1 true (removeStateL h o g).2
    have hX : ∀ x ∈ (checkQL (removeStateL h o g).1 o true (removeStateL h o g).2).2, x ∈ o.states := by
      rw [q2]; exact checkQ_subset _ (hwf _) true _
    simp only [removeStateL, removeState]
    refine ⟨trivial, ?_⟩
    rw [value_addLabel o hinj _ _ _ hX, q1, q2, e1, e2]
  | E g ih =>
    intro h
    obtain ⟨e2, e1⟩ := ih h
    obtain ⟨q2, q1⟩ := checkQL_spec o hinj hwf (removeStateL h o g).1 false (removeStateL h o g).2
    have hX : ∀ x ∈ (checkQL (removeStateL h o g).1 o false (removeStateL h o g).2).2, x ∈ o.states := by
      rw [q2]; exact checkQ_subset _ (hwf _) false _
    simp only [removeStateL, removeState]
    refine ⟨trivial, ?_⟩
    rw [value_addLabel o hinj _ _ _ hX, q1, q2, e1, e2]

/-! ### the recursions with a fair label -/

theorem checkQFL_fr (fair : String) (h : LHeap) (o : KObj σ) (b : Bool) (g : Fm) :
    o.Fr h (checkQFL fair h o b g).1 := by
  unfold checkQFL
  extract_lets f
  split
  · split <;> exact Fr.refl o h
  · split
    · exact Fr.refl o h
    · exact removeStateL_fr o _ h

/-- the heap-level result simulates the pure one: same exception, or same result and the object reads back as the
    relabelled structure -/
def RelF (o : KObj σ) {α : Type} (x : LHeap × Except Err α) (p : Except Err (Kripke σ × α)) : Prop :=
  match p with
  | .error e => x.2 = .error e
  | .ok r => x.2 = .ok r.2 ∧ o.value x.1 = r.1

theorem checkQFL_spec (fair : String) (o : KObj σ) (hinj : o.Inj) (hwf : ∀ h, (o.value h).WF) (h : LHeap)
    (b : Bool) (g : Fm) : RelF o (checkQFL fair h o b g) (checkQF fair (o.value h) b g) := by
  unfold checkQFL checkQF
  extract_lets f g' r r'
  by_cases hc : f.isCTLState = true
  · simp only [hc, if_true]
    cases hn : Fair.nonFairCTL fair f with
    | ok f' => exact ⟨rfl, rfl⟩
    | error e => exact rfl
  · simp only [hc, Bool.false_eq_true, if_false]
    by_cases hb : b = true
    · simp only [hb, if_true]
      cases hm : LTL.modelcheck (o.value h) (Fm.and [g'.lnot, Fm.ap fair]).lnot.A with
      | ok S => exact ⟨rfl, rfl⟩
      | error e => exact rfl
    · simp only [hb]
      obtain ⟨e2, e1⟩ := removeStateL_spec o hinj hwf (Fm.and [Fm.ap fair, g']).lnot.A.lnot h
      have e1' : o.value r.1 = r'.1 := e1
      have e2' : r.2 = r'.2 := e2
      rw [e1', e2']
      cases hm : CTL.modelcheck r'.1 r'.2 with
      | ok S => exact ⟨rfl, e1'⟩
      | error e => exact rfl
theorem removeStateFLList_fr (fair : String) (o : KObj σ) (fs : List Fm)
    (ih : ∀ f ∈ fs, ∀ h, o.Fr h (removeStateFL fair h o f).1) :
    ∀ h, o.Fr h (removeStateFL.removeStateFLList fair h o fs).1 := by
  induction fs with
  | nil => intro h; exact Fr.refl o h
  | cons f fs ihs =>
    intro h
    have i1 := ih f (List.mem_cons_self ..) h
    have i2 := ihs (fun f' hf' => ih f' (List.mem_cons_of_mem _ hf')) (removeStateFL fair h o f).1
    simp only [removeStateFL.removeStateFLList]
    split
    · exact i1
    · split
      · exact i1.trans i2
      · exact i1.trans i2

/-- `_remove_state_subformulas(kripke, formula, fair_label)` on object `o` writes to sets of `o` only -/
theorem removeStateFL_fr (fair : String) (o : KObj σ) (f : Fm) : ∀ h, o.Fr h (removeStateFL fair h o f).1 := by
  induction f using Fm.induct' with
  | tt => intro h; exact Fr.refl o h
  | ff => intro h; exact Fr.refl o h
  | ap n => intro h; exact Fr.refl o h
  | not f ih => intro h; simp only [removeStateFL]; split <;> exact ih h
  | X f ih => intro h; simp only [removeStateFL]; split <;> exact ih h
  | F f ih => intro h; simp only [removeStateFL]; split <;> exact ih h
  | G f ih => intro h; simp only [removeStateFL]; split <;> exact ih h
  | or fs ih => intro h; simp only [removeStateFL]; split <;> exact removeStateFLList_fr fair o fs ih h
  | and fs ih => intro h; simp only [removeStateFL]; split <;> exact removeStateFLList_fr fair o fs ih h
  | imp f g ihf ihg =>
    intro h; simp only [removeStateFL]
    split
    · exact ihf h
    · split <;> exact (ihf h).trans (ihg _)
  | U f g ihf ihg =>
    intro h; simp only [removeStateFL]
    split
    · exact ihf h
    · split <;> exact (ihf h).trans (ihg _)
  | R f g ihf ihg =>
    intro h; simp only [removeStateFL]
    split
    · exact ihf h
    · split <;> exact (ihf h).trans (ihg _)
  | A g ih =>
    intro h; simp only [removeStateFL]
    split
    · exact ih h
    · split
      · exact (ih h).trans (checkQFL_fr fair _ o true _)
      · exact ((ih h).trans (checkQFL_fr fair _ o true _)).trans (fr_addLabel o _ _ _)
  | E g ih =>
    intro h; simp only [removeStateFL]
    split
    · exact ih h
    · split
      · exact (ih h).trans (checkQFL_fr fair _ o false _)
      · exact ((ih h).trans (checkQFL_fr fair _ o false _)).trans (fr_addLabel o _ _ _)

theorem removeStateFLList_spec (fair : String) (o : KObj σ) (fs : List Fm)
    (ih : ∀ f ∈ fs, ∀ h, RelF o (removeStateFL fair h o f) (removeStateF fair (o.value h) f)) :
    ∀ h, RelF o (removeStateFL.removeStateFLList fair h o fs) (removeStateF.removeStateFList fair (o.value h) fs) := by
  induction fs with
  | nil => intro h; exact ⟨rfl, rfl⟩
  | cons f fs ihs =>
    intro h
    have i1 := ih f (List.mem_cons_self ..) h
    simp only [removeStateFL.removeStateFLList, removeStateF.removeStateFList]
    cases hp : removeStateF fair (o.value h) f with
    | error e =>
      rw [hp] at i1
      simp only [RelF] at i1 ⊢
      simp only [i1]
    | ok r =>
      rw [hp] at i1
      obtain ⟨e2, e1⟩ := i1
      have i2 := ihs (fun f' hf' => ih f' (List.mem_cons_of_mem _ hf')) (removeStateFL fair h o f).1
      rw [e1] at i2
      simp only [e2]
      cases hp2 : removeStateF.removeStateFList fair r.1 fs with
      | error e =>
        rw [hp2] at i2
        simp only [RelF] at i2 ⊢
        simp only [i2]
      | ok r' =>
        rw [hp2] at i2
        obtain ⟨d2, d1⟩ := i2
        simp only [RelF, d2, d1, and_self]

/-- **`_remove_state_subformulas(kripke, formula, fair_label)` on object `o` is `CTLS.removeStateF` on its value** -/
theorem removeStateFL_spec (fair : String) (o : KObj σ) (hinj : o.Inj) (hwf : ∀ h, (o.value h).WF) (f : Fm) :
    ∀ h, RelF o (removeStateFL fair h o f) (removeStateF fair (o.value h) f) := by
  induction f using Fm.induct' with
  | tt => intro h; exact ⟨rfl, rfl⟩
  | ff => intro h; exact ⟨rfl, rfl⟩
  | ap n => intro h; exact ⟨rfl, rfl⟩
  | not f ih =>
    intro h
    have ih' := ih h
    simp only [removeStateFL, removeStateF]
    cases hp : removeStateF fair (o.value h) f with
    | error e =>
      rw [hp] at ih'
      simp only [RelF] at ih' ⊢
      simp only [ih']
    | ok r =>
      rw [hp] at ih'
      obtain ⟨e2, e1⟩ := ih'
      simp only [RelF, e2, e1, and_self]
  | X f ih =>
    intro h
    have ih' := ih h
    simp only [removeStateFL, removeStateF]
    cases hp : removeStateF fair (o.value h) f with
    | error e =>
      rw [hp] at ih'
      simp only [RelF] at ih' ⊢
      simp only [ih']
    | ok r =>
      rw [hp] at ih'
      obtain ⟨e2, e1⟩ := ih'
      simp only [RelF, e2, e1, and_self]
  | F f ih =>
    intro h
    have ih' := ih h
    simp only [removeStateFL, removeStateF]
    cases hp : removeStateF fair (o.value h) f with
    | error e =>
      rw [hp] at ih'
      simp only [RelF] at ih' ⊢
      simp only [ih']
    | ok r =>
      rw [hp] at ih'
      obtain ⟨e2, e1⟩ := ih'
      simp only [RelF, e2, e1, and_self]
  | G f ih =>
    intro h
    have ih' := ih h
    simp only [removeStateFL, removeStateF]
    cases hp : removeStateF fair (o.value h) f with
    | error e =>
      rw [hp] at ih'
      simp only [RelF] at ih' ⊢
      simp only [ih']
    | ok r =>
      rw [hp] at ih'
      obtain ⟨e2, e1⟩ := ih'
      simp only [RelF, e2, e1, and_self]
  | or fs ih =>
    intro h
    have ih' := removeStateFLList_spec fair o fs ih h
    simp only [removeStateFL, removeStateF]
    cases hp : removeStateF.removeStateFList fair (o.value h) fs with
    | error e =>
      rw [hp] at ih'
      simp only [RelF] at ih' ⊢
      simp only [ih']
    | ok r =>
      rw [hp] at ih'
      obtain ⟨e2, e1⟩ := ih'
      simp only [RelF, e2, e1, and_self]
  | and fs ih =>
    intro h
    have ih' := removeStateFLList_spec fair o fs ih h
    simp only [removeStateFL, removeStateF]
    cases hp : removeStateF.removeStateFList fair (o.value h) fs with
    | error e =>
      rw [hp] at ih'
      simp only [RelF] at ih' ⊢
      simp only [ih']
    | ok r =>
      rw [hp] at ih'
      obtain ⟨e2, e1⟩ := ih'
      simp only [RelF, e2, e1, and_self]
  | imp f g ihf ihg =>
    intro h
    have i1 := ihf h
    simp only [removeStateFL, removeStateF]
    cases hp : removeStateF fair (o.value h) f with
    | error e =>
      rw [hp] at i1
      simp only [RelF] at i1 ⊢
      simp only [i1]
    | ok r =>
      rw [hp] at i1
      obtain ⟨e2, e1⟩ := i1
      have i2 := ihg (removeStateFL fair h o f).1
      rw [e1] at i2
      simp only [e2]
      cases hp2 : removeStateF fair r.1 g with
      | error e =>
        rw [hp2] at i2
        simp only [RelF] at i2 ⊢
        simp only [i2]
      | ok r' =>
        rw [hp2] at i2
        obtain ⟨d2, d1⟩ := i2
        simp only [RelF, d2, d1, and_self]
  | U f g ihf ihg =>
    intro h
    have i1 := ihf h
    simp only [removeStateFL, removeStateF]
    cases hp : removeStateF fair (o.value h) f with
    | error e =>
      rw [hp] at i1
      simp only [RelF] at i1 ⊢
      simp only [i1]
    | ok r =>
      rw [hp] at i1
      obtain ⟨e2, e1⟩ := i1
      have i2 := ihg (removeStateFL fair h o f).1
      rw [e1] at i2
      simp only [e2]
      cases hp2 : removeStateF fair r.1 g with
      | error e =>
        rw [hp2] at i2
        simp only [RelF] at i2 ⊢
        simp only [i2]
      | ok r' =>
        rw [hp2] at i2
        obtain ⟨d2, d1⟩ := i2
        simp only [RelF, d2, d1, and_self]
  | R f g ihf ihg =>
    intro h
    have i1 := ihf h
    simp only [removeStateFL, removeStateF]
    cases hp : removeStateF fair (o.value h) f with
    | error e =>
      rw [hp] at i1
      simp only [RelF] at i1 ⊢
      simp only [i1]
    | ok r =>
      rw [hp] at i1
      obtain ⟨e2, e1⟩ := i1
      have i2 := ihg (removeStateFL fair h o f).1
      rw [e1] at i2
      simp only [e2]
      cases hp2 : removeStateF fair r.1 g with
      | error e =>
        rw [hp2] at i2
        simp only [RelF] at i2 ⊢
        simp only [i2]
      | ok r' =>
        rw [hp2] at i2
        obtain ⟨d2, d1⟩ := i2
        simp only [RelF, d2, d1, and_self]
  | A g ih =>
    intro h
    have i1 := ih h
    simp only [removeStateFL, removeStateF]
    cases hp : removeStateF fair (o.value h) g with
    | error e =>
      rw [hp] at i1
      simp only [RelF] at i1 ⊢
      simp only [i1]
    | ok r =>
      rw [hp] at i1
      obtain ⟨e2, e1⟩ := i1
      have q := checkQFL_spec fair o hinj hwf (removeStateFL fair h o g).1 true r.2
      rw [e1] at q
      simp only [e2]
      cases hq : checkQF fair r.1 true r.2 with
      | error e =>
        rw [hq] at q
        simp only [RelF] at q ⊢
        simp only [q]
      | ok qq =>
        rw [hq] at q
        obtain ⟨q2, q1⟩ := q
        simp only [q2]
        have hX : ∀ x ∈ qq.2, x ∈ o.states := by
          have := (checkQF_subset fair r.1 (e1 ▸ hwf _) true r.2 qq hq).2.2
          rw [← e1] at this
          exact this
        refine ⟨rfl, ?_⟩
        rw [value_addLabel o hinj _ _ _ hX, q1]
  | E g ih =>
    intro h
    have i1 := ih h
    simp only [removeStateFL, removeStateF]
    cases hp : removeStateF fair (o.value h) g with
    | error e =>
      rw [hp] at i1
      simp only [RelF] at i1 ⊢
      simp only [i1]
    | ok r =>
      rw [hp] at i1
      obtain ⟨e2, e1⟩ := i1
      have q := checkQFL_spec fair o hinj hwf (removeStateFL fair h o g).1 false r.2
      rw [e1] at q
      simp only [e2]
      cases hq : checkQF fair r.1 false r.2 with
      | error e =>
        rw [hq] at q
        simp only [RelF] at q ⊢
        simp only [q]
      | ok qq =>
        rw [hq] at q
        obtain ⟨q2, q1⟩ := q
        simp only [q2]
        have hX : ∀ x ∈ qq.2, x ∈ o.states := by
          have := (checkQF_subset fair r.1 (e1 ▸ hwf _) false r.2 qq hq).2.2
          rw [← e1] at this
          exact this
        refine ⟨rfl, ?_⟩
        rw [value_addLabel o hinj _ _ _ hX, q1]

end CTLS

/-! ### `label_fair_states` -/
namespace KObj
variable {σ : Type} [DecidableEq σ]

theorem labelFair_fr (o : KObj σ) (h : LHeap) (F : List (List σ)) : o.Fr h (o.labelFair h F).1 :=
  fr_addLabel o h _ _

theorem labelFair_snd (o : KObj σ) (h : LHeap) (F : List (List σ)) :
    (o.labelFair h F).2 = Fair.fairLabel (o.value h) := rfl

theorem labelFair_value (o : KObj σ) (hinj : o.Inj) (h : LHeap) (hwf : (o.value h).WF) (F : List (List σ)) :
    o.value (o.labelFair h F).1 = Fair.labelFair (o.value h) F :=
  value_addLabel o hinj h _ _ (Fair.fairStatesImpl_subset (o.value h) hwf F)

end KObj
end PMC
