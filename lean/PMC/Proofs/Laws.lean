/-
  Semantic laws of the documented CTL* semantics (`sat`, PMC/Spec/Semantics.lean) and invariance of the semantics under
  presentation changes.  Everything here is about `sat` only; PMC/Properties/C04.lean and C06.lean transport these
  facts to the three checkers through the exactness theorems.
-/
import PMC.Spec.Semantics
import PMC.Proofs.RewriteCTL
namespace PMC
open Fm
variable {σ τ : Type}

/-! ### sequences: suffix and prepending -/

theorem isPath_shift {K : Kripke σ} {π : Nat → σ} (h : IsPath K π) : IsPath K (fun k => π (k+1)) :=
  fun i => h (i+1)

/-- prepend a state to a sequence -/
def consSeq (s : σ) (π : Nat → σ) : Nat → σ := fun k => Nat.casesOn k s π

theorem isPath_consSeq {K : Kripke σ} {s : σ} {π : Nat → σ} (h : IsPath K π) (hs : π 0 ∈ K.succ s) :
    IsPath K (consSeq s π) := by
  intro i
  cases i with
  | zero => exact hs
  | succ k => exact h k

/-- state formulas only look at the current state (short form of `sat_state_indep`) -/
private theorem st {K : Kripke σ} {f : Fm} (hf : f.isCTLSState = true) {π π' : Nat → σ} {i j : Nat}
    (h : π i = π' j) : sat K f π i ↔ sat K f π' j := sat_state_indep K f hf π π' i j h

/-! ### quantifier duality and the fixed-point expansion laws (f, g state formulas)

  `sat` does not assume that the structure is total: at a state without any infinite path every `A`-formula is
  vacuously true and every `E`-formula is false.  The laws `EU`, `EF` (right-to-left) and `AU`, `AG` (left-to-right)
  therefore need the hypothesis `hp` that some path starts at the current state (counterexamples at the end of
  this section); `EG` and `AF` hold unconditionally. -/

theorem sat_A_iff_not_E_not (K : Kripke σ) (g : Fm) (π : Nat → σ) (i : Nat) :
    sat K (.A g) π i ↔ sat K (.not (.E (.not g))) π i := by
  simp only [sat]
  constructor
  · rintro h ⟨π', hπ', h0, hn⟩
    exact hn (h π' hπ' h0)
  · intro h π' hπ' h0
    by_contra hn
    exact h ⟨π', hπ', h0, hn⟩

theorem sat_EU_expand (K : Kripke σ) (f g : Fm) (hf : f.isCTLSState = true) (hg : g.isCTLSState = true)
    (π : Nat → σ) (i : Nat) (hp : ∃ π', IsPath K π' ∧ π' 0 = π i) :
    sat K (.E (.U f g)) π i ↔ sat K (.or [g, .and [f, .E (.X (.E (.U f g)))]]) π i := by
  simp only [sat, sat.satAny, sat.satAll, or_false, and_true]
  constructor
  · rintro ⟨π', hπ', h0, j, -, hgj, hfj⟩
    cases j with
    | zero => exact Or.inl ((st hg h0).mp hgj)
    | succ j =>
      refine Or.inr ⟨(st hf h0).mp (hfj 0 (Nat.le_refl _) (Nat.succ_pos _)), π', hπ', h0,
        fun k => π' (k+1), isPath_shift hπ', rfl, j, Nat.zero_le _, ?_, ?_⟩
      · exact (st (π := fun k => π' (k+1)) (π' := π') (i := j) (j := j+1) hg rfl).mpr hgj
      · intro k _ hk
        exact (st (π := fun k => π' (k+1)) (π' := π') (i := k) (j := k+1) hf rfl).mpr
          (hfj (k+1) (Nat.zero_le _) (by omega))
  · rintro (hg0 | ⟨hf0, π', hπ', h0, π'', hπ'', h0', j, -, hgj, hfj⟩)
    · obtain ⟨π', hπ', h0⟩ := hp
      exact ⟨π', hπ', h0, 0, Nat.le_refl _, (st hg h0).mpr hg0, fun k _ hk => absurd hk (Nat.not_lt_zero k)⟩
    · refine ⟨consSeq (π i) π'', isPath_consSeq hπ'' (by rw [h0', ← h0]; exact hπ' 0), rfl, j+1, Nat.zero_le _, ?_, ?_⟩
      · exact (st (π := consSeq (π i) π'') (π' := π'') (i := j+1) (j := j) hg rfl).mpr hgj
      · intro k _ hk
        cases k with
        | zero => exact (st (π := consSeq (π i) π'') (π' := π) (i := 0) (j := i) hf rfl).mpr hf0
        | succ k =>
          exact (st (π := consSeq (π i) π'') (π' := π'') (i := k+1) (j := k) hf rfl).mpr
            (hfj k (Nat.zero_le _) (by omega))

theorem sat_AU_expand (K : Kripke σ) (f g : Fm) (hf : f.isCTLSState = true) (hg : g.isCTLSState = true)
    (π : Nat → σ) (i : Nat) (hp : ∃ π', IsPath K π' ∧ π' 0 = π i) :
    sat K (.A (.U f g)) π i ↔ sat K (.or [g, .and [f, .A (.X (.A (.U f g)))]]) π i := by
  simp only [sat, sat.satAny, sat.satAll, or_false, and_true]
  constructor
  · intro hA
    by_cases hg0 : sat K g π i
    · exact Or.inl hg0
    · right
      obtain ⟨π₀, hπ₀, h₀⟩ := hp
      constructor
      · obtain ⟨j, -, hgj, hfj⟩ := hA π₀ hπ₀ h₀
        cases j with
        | zero => exact absurd ((st hg h₀).mp hgj) hg0
        | succ j => exact (st hf h₀).mp (hfj 0 (Nat.le_refl _) (Nat.succ_pos _))
      · intro π' hπ' h0 π'' hπ'' h0'
        obtain ⟨j, -, hgj, hfj⟩ := hA (consSeq (π i) π'')
          (isPath_consSeq hπ'' (by rw [h0', ← h0]; exact hπ' 0)) rfl
        cases j with
        | zero =>
          exact absurd ((st (π := consSeq (π i) π'') (π' := π) (i := 0) (j := i) hg rfl).mp hgj) hg0
        | succ j =>
          refine ⟨j, Nat.zero_le _, ?_, ?_⟩
          · exact (st (π := consSeq (π i) π'') (π' := π'') (i := j+1) (j := j) hg rfl).mp hgj
          · intro k _ hk
            exact (st (π := consSeq (π i) π'') (π' := π'') (i := k+1) (j := k) hf rfl).mp
              (hfj (k+1) (Nat.zero_le _) (by omega))
  · rintro (hg0 | ⟨hf0, hAX⟩) π' hπ' h0
    · exact ⟨0, Nat.le_refl _, (st hg h0).mpr hg0, fun k _ hk => absurd hk (Nat.not_lt_zero k)⟩
    · obtain ⟨j, -, hgj, hfj⟩ := hAX π' hπ' h0 (fun k => π' (k+1)) (isPath_shift hπ') rfl
      refine ⟨j+1, Nat.zero_le _, ?_, ?_⟩
      · exact (st (π := fun k => π' (k+1)) (π' := π') (i := j) (j := j+1) hg rfl).mp hgj
      · intro k _ hk
        cases k with
        | zero => exact (st hf h0).mpr hf0
        | succ k =>
          exact (st (π := fun k => π' (k+1)) (π' := π') (i := k) (j := k+1) hf rfl).mp
            (hfj k (Nat.zero_le _) (by omega))

theorem sat_AG_expand (K : Kripke σ) (f : Fm) (hf : f.isCTLSState = true) (π : Nat → σ) (i : Nat)
    (hp : ∃ π', IsPath K π' ∧ π' 0 = π i) :
    sat K (.A (.G f)) π i ↔ sat K (.and [f, .A (.X (.A (.G f)))]) π i := by
  simp only [sat, sat.satAll, and_true]
  constructor
  · intro hA
    constructor
    · obtain ⟨π₀, hπ₀, h₀⟩ := hp
      exact (st hf h₀).mp (hA π₀ hπ₀ h₀ 0 (Nat.le_refl _))
    · intro π' hπ' h0 π'' hπ'' h0' j _
      exact (st (π := consSeq (π i) π'') (π' := π'') (i := j+1) (j := j) hf rfl).mp
        (hA (consSeq (π i) π'') (isPath_consSeq hπ'' (by rw [h0', ← h0]; exact hπ' 0)) rfl (j+1) (Nat.zero_le _))
  · rintro ⟨hf0, hAX⟩ π' hπ' h0 j _
    cases j with
    | zero => exact (st hf h0).mpr hf0
    | succ j =>
      exact (st (π := fun k => π' (k+1)) (π' := π') (i := j) (j := j+1) hf rfl).mp
        (hAX π' hπ' h0 (fun k => π' (k+1)) (isPath_shift hπ') rfl j (Nat.zero_le _))

theorem sat_EG_expand (K : Kripke σ) (f : Fm) (hf : f.isCTLSState = true) (π : Nat → σ) (i : Nat) :
    sat K (.E (.G f)) π i ↔ sat K (.and [f, .E (.X (.E (.G f)))]) π i := by
  simp only [sat, sat.satAll, and_true]
  constructor
  · rintro ⟨π', hπ', h0, hG⟩
    refine ⟨(st hf h0).mp (hG 0 (Nat.le_refl _)), π', hπ', h0, fun k => π' (k+1), isPath_shift hπ', rfl, ?_⟩
    intro j _
    exact (st (π := fun k => π' (k+1)) (π' := π') (i := j) (j := j+1) hf rfl).mpr (hG (j+1) (Nat.zero_le _))
  · rintro ⟨hf0, π', hπ', h0, π'', hπ'', h0', hG⟩
    refine ⟨consSeq (π i) π'', isPath_consSeq hπ'' (by rw [h0', ← h0]; exact hπ' 0), rfl, ?_⟩
    intro j _
    cases j with
    | zero => exact (st (π := consSeq (π i) π'') (π' := π) (i := 0) (j := i) hf rfl).mpr hf0
    | succ j =>
      exact (st (π := consSeq (π i) π'') (π' := π'') (i := j+1) (j := j) hf rfl).mpr (hG j (Nat.zero_le _))

theorem sat_AF_expand (K : Kripke σ) (f : Fm) (hf : f.isCTLSState = true) (π : Nat → σ) (i : Nat) :
    sat K (.A (.F f)) π i ↔ sat K (.or [f, .A (.X (.A (.F f)))]) π i := by
  simp only [sat, sat.satAny, or_false]
  constructor
  · intro hA
    by_cases hf0 : sat K f π i
    · exact Or.inl hf0
    · right
      intro π' hπ' h0 π'' hπ'' h0'
      obtain ⟨j, -, hfj⟩ := hA (consSeq (π i) π'')
        (isPath_consSeq hπ'' (by rw [h0', ← h0]; exact hπ' 0)) rfl
      cases j with
      | zero =>
        exact absurd ((st (π := consSeq (π i) π'') (π' := π) (i := 0) (j := i) hf rfl).mp hfj) hf0
      | succ j =>
        exact ⟨j, Nat.zero_le _, (st (π := consSeq (π i) π'') (π' := π'') (i := j+1) (j := j) hf rfl).mp hfj⟩
  · rintro (hf0 | hAX) π' hπ' h0
    · exact ⟨0, Nat.le_refl _, (st hf h0).mpr hf0⟩
    · obtain ⟨j, -, hfj⟩ := hAX π' hπ' h0 (fun k => π' (k+1)) (isPath_shift hπ') rfl
      exact ⟨j+1, Nat.zero_le _, (st (π := fun k => π' (k+1)) (π' := π') (i := j) (j := j+1) hf rfl).mp hfj⟩

theorem sat_EF_expand (K : Kripke σ) (f : Fm) (hf : f.isCTLSState = true) (π : Nat → σ) (i : Nat)
    (hp : ∃ π', IsPath K π' ∧ π' 0 = π i) :
    sat K (.E (.F f)) π i ↔ sat K (.or [f, .E (.X (.E (.F f)))]) π i := by
  simp only [sat, sat.satAny, or_false]
  constructor
  · rintro ⟨π', hπ', h0, j, -, hfj⟩
    cases j with
    | zero => exact Or.inl ((st hf h0).mp hfj)
    | succ j =>
      exact Or.inr ⟨π', hπ', h0, fun k => π' (k+1), isPath_shift hπ', rfl, j, Nat.zero_le _,
        (st (π := fun k => π' (k+1)) (π' := π') (i := j) (j := j+1) hf rfl).mpr hfj⟩
  · rintro (hf0 | ⟨π', hπ', h0, π'', hπ'', h0', j, -, hfj⟩)
    · obtain ⟨π', hπ', h0⟩ := hp
      exact ⟨π', hπ', h0, 0, Nat.le_refl _, (st hf h0).mpr hf0⟩
    · exact ⟨consSeq (π i) π'', isPath_consSeq hπ'' (by rw [h0', ← h0]; exact hπ' 0), rfl, j+1, Nat.zero_le _,
        (st (π := consSeq (π i) π'') (π' := π'') (i := j+1) (j := j) hf rfl).mpr hfj⟩

/-- release is the dual of until -/
theorem sat_R_dual (K : Kripke σ) (f g : Fm) (π : Nat → σ) (i : Nat) :
    sat K (.R f g) π i ↔ sat K (.not (.U (.not f) (.not g))) π i := by
  simp only [sat]
  constructor
  · rintro h ⟨j, hj, hn, hk⟩
    exact hn (h j hj hk)
  · intro h j hj hk
    by_contra hn
    exact h ⟨j, hj, hn, hk⟩

theorem sat_F_as_U (K : Kripke σ) (f : Fm) (π : Nat → σ) (i : Nat) :
    sat K (.F f) π i ↔ sat K (.U .tt f) π i := by
  simp only [sat]
  constructor
  · rintro ⟨j, hj, h⟩; exact ⟨j, hj, h, fun _ _ _ => trivial⟩
  · rintro ⟨j, hj, h, -⟩; exact ⟨j, hj, h⟩

theorem sat_G_dual (K : Kripke σ) (f : Fm) (π : Nat → σ) (i : Nat) :
    sat K (.G f) π i ↔ sat K (.not (.F (.not f))) π i := by
  simp only [sat]
  constructor
  · rintro h ⟨j, hj, hn⟩
    exact hn (h j hj)
  · intro h j hj
    by_contra hn
    exact h ⟨j, hj, hn⟩

/-! #### the hypothesis `hp` is needed: a structure with one deadlocked state -/

/-- one state, no transition: no infinite path at all -/
def Kdead : Kripke Nat := { states := [0], succ := fun _ => [], lab := fun _ => [] }

theorem Kdead_no_path (π : Nat → Nat) : ¬ IsPath Kdead π := fun h => by
  have := h 0
  simp [Kdead] at this

/-- without `hp`, `E(f U g) = g ∨ (f ∧ EX E(f U g))` fails (f = false, g = true) -/
theorem sat_EU_expand_needs_path :
    ¬ (sat Kdead (.E (.U .ff .tt)) (fun _ => 0) 0 ↔
       sat Kdead (.or [.tt, .and [.ff, .E (.X (.E (.U .ff .tt)))]]) (fun _ => 0) 0) := by
  simp only [sat, sat.satAny, sat.satAll]
  intro h
  obtain ⟨π', hπ', -⟩ := h.mpr (Or.inl trivial)
  exact Kdead_no_path π' hπ'

/-- without `hp`, `EF f = f ∨ EX EF f` fails (f = true) -/
theorem sat_EF_expand_needs_path :
    ¬ (sat Kdead (.E (.F .tt)) (fun _ => 0) 0 ↔
       sat Kdead (.or [.tt, .E (.X (.E (.F .tt)))]) (fun _ => 0) 0) := by
  simp only [sat, sat.satAny]
  intro h
  obtain ⟨π', hπ', -⟩ := h.mpr (Or.inl trivial)
  exact Kdead_no_path π' hπ'

/-- without `hp`, `A(f U g) = g ∨ (f ∧ AX A(f U g))` fails (f = g = false) -/
theorem sat_AU_expand_needs_path :
    ¬ (sat Kdead (.A (.U .ff .ff)) (fun _ => 0) 0 ↔
       sat Kdead (.or [.ff, .and [.ff, .A (.X (.A (.U .ff .ff)))]]) (fun _ => 0) 0) := by
  simp only [sat, sat.satAny, sat.satAll]
  intro h
  rcases h.mp (fun π' hπ' _ => absurd hπ' (Kdead_no_path π')) with h | ⟨h, -⟩ | h <;> exact h

/-- without `hp`, `AG f = f ∧ AX AG f` fails (f = false) -/
theorem sat_AG_expand_needs_path :
    ¬ (sat Kdead (.A (.G .ff)) (fun _ => 0) 0 ↔
       sat Kdead (.and [.ff, .A (.X (.A (.G .ff)))]) (fun _ => 0) 0) := by
  simp only [sat, sat.satAll]
  intro h
  exact (h.mp (fun π' hπ' _ => absurd hπ' (Kdead_no_path π'))).1

/-! ### presentation invariance -/

/-- two presentations of the same structure: same states, successors and labels as *sets* (any order, any
    repetition) — covers reordering of S, R, L and every set/dict iteration order (hash seed) -/
structure SameK (K K' : Kripke σ) : Prop where
  states : ∀ s, s ∈ K.states ↔ s ∈ K'.states
  succ : ∀ s t, t ∈ K.succ s ↔ t ∈ K'.succ s
  lab : ∀ s n, n ∈ K.lab s ↔ n ∈ K'.lab s

/-- renaming of states: ρ is injective on the states of K and K' is the image of K -/
structure Iso (ρ : σ → τ) (K : Kripke σ) (K' : Kripke τ) : Prop where
  inj : ∀ s ∈ K.states, ∀ t ∈ K.states, ρ s = ρ t → s = t
  states : ∀ t, t ∈ K'.states ↔ ∃ s ∈ K.states, ρ s = t
  succ : ∀ s ∈ K.states, ∀ t, t ∈ K'.succ (ρ s) ↔ ∃ u ∈ K.succ s, ρ u = t
  lab : ∀ s ∈ K.states, ∀ n, n ∈ K'.lab (ρ s) ↔ n ∈ K.lab s

/-- consistent renaming of atomic propositions -/
def mapAtoms (α : String → String) : Fm → Fm
  | .tt => .tt | .ff => .ff | .ap n => .ap (α n)
  | .not f => .not (mapAtoms α f)
  | .or fs => .or (mapAtomsList α fs)
  | .and fs => .and (mapAtomsList α fs)
  | .imp f g => .imp (mapAtoms α f) (mapAtoms α g)
  | .X f => .X (mapAtoms α f) | .F f => .F (mapAtoms α f) | .G f => .G (mapAtoms α f)
  | .U f g => .U (mapAtoms α f) (mapAtoms α g) | .R f g => .R (mapAtoms α f) (mapAtoms α g)
  | .A f => .A (mapAtoms α f) | .E f => .E (mapAtoms α f)
where
  mapAtomsList (α : String → String) : List Fm → List Fm
    | [] => []
    | f :: fs => mapAtoms α f :: mapAtomsList α fs

/-- K' is K with every label renamed by α, α injective on the names that matter -/
structure AtomRen (α : String → String) (K K' : Kripke σ) (f : Fm) : Prop where
  states : K'.states = K.states
  succ : K'.succ = K.succ
  lab : ∀ s, ∀ n ∈ f.atoms, α n ∈ K'.lab s ↔ n ∈ K.lab s

/-- adding states that are unreachable from the states of K: K is a successor-closed part of K' -/
structure Generated (K K' : Kripke σ) : Prop where
  states : ∀ s ∈ K.states, s ∈ K'.states
  succ : ∀ s ∈ K.states, ∀ t, t ∈ K'.succ s ↔ t ∈ K.succ s
  lab : ∀ s ∈ K.states, ∀ n, n ∈ K'.lab s ↔ n ∈ K.lab s

/-! #### syntactic facts about `mapAtoms` -/

theorem mapAtomsList_eq_map (α : String → String) (fs : List Fm) :
    mapAtoms.mapAtomsList α fs = fs.map (mapAtoms α) := by
  induction fs with
  | nil => rfl
  | cons f fs ih => simp [mapAtoms.mapAtomsList, ih]

theorem mapAtoms_id (f : Fm) : mapAtoms id f = f := by
  induction f using Fm.induct' with
  | or fs ih | and fs ih =>
    simp only [mapAtoms, mapAtomsList_eq_map]
    congr 1
    conv_rhs => rw [← List.map_id fs]
    exact List.map_congr_left fun f hf => ih f hf
  | _ => simp_all [mapAtoms]

theorem mem_atomsList {f : Fm} {fs : List Fm} (hf : f ∈ fs) {n : String} (hn : n ∈ f.atoms) :
    n ∈ atoms.atomsList fs := by
  induction fs with
  | nil => cases hf
  | cons g gs ih =>
    simp only [atoms.atomsList, List.mem_append]
    rcases List.mem_cons.mp hf with rfl | hf
    · exact Or.inl hn
    · exact Or.inr (ih hf)

/-- the syntactic classes do not look at atom names -/
theorem isCTLState_mapAtoms (α : String → String) (f : Fm) : (mapAtoms α f).isCTLState = f.isCTLState := by
  apply Fm.isCTLState.induct
    (motive_1 := fun fs => isCTLState.isCTLStateList (mapAtoms.mapAtomsList α fs) = isCTLState.isCTLStateList fs)
    (motive_2 := fun f => (mapAtoms α f).isCTLState = f.isCTLState)
  case case18 =>
    intro t; intros
    cases t with
    | A g => cases g <;> simp_all [mapAtoms, isCTLState]
    | E g => cases g <;> simp_all [mapAtoms, isCTLState]
    | _ => simp_all [mapAtoms, isCTLState]
  all_goals (intros; simp_all [mapAtoms, mapAtoms.mapAtomsList, isCTLState, isCTLState.isCTLStateList])

theorem isLTLPath_mapAtoms (α : String → String) (f : Fm) : (mapAtoms α f).isLTLPath = f.isLTLPath := by
  apply Fm.isLTLPath.induct
    (motive_1 := fun fs => isLTLPath.isLTLPathList (mapAtoms.mapAtomsList α fs) = isLTLPath.isLTLPathList fs)
    (motive_2 := fun f => (mapAtoms α f).isLTLPath = f.isLTLPath)
  case case13 =>
    intro t; intros
    cases t <;> simp_all [mapAtoms, isLTLPath]
  all_goals (intros; simp_all [mapAtoms, mapAtoms.mapAtomsList, isLTLPath, isLTLPath.isLTLPathList])

/-! #### the transfer principle

  `Rel` relates sequences of `K` with sequences of `K'` such that related sequences carry (up to `α`) the same labels
  position by position, and the paths starting at related positions correspond (back and forth).  Then related
  sequences satisfy the same formulas (up to `α`), for *every* CTL* formula. -/

theorem sat_transfer (α : String → String) (K : Kripke σ) (K' : Kripke τ) (Rel : (Nat → σ) → (Nat → τ) → Prop)
    (hfwd : ∀ π π', Rel π π' → ∀ i ρ, IsPath K ρ → ρ 0 = π i → ∃ ρ', IsPath K' ρ' ∧ ρ' 0 = π' i ∧ Rel ρ ρ')
    (hbwd : ∀ π π', Rel π π' → ∀ i ρ', IsPath K' ρ' → ρ' 0 = π' i → ∃ ρ, IsPath K ρ ∧ ρ 0 = π i ∧ Rel ρ ρ')
    (f : Fm) :
    (∀ π π', Rel π π' → ∀ i, ∀ n ∈ f.atoms, n ∈ K.lab (π i) ↔ α n ∈ K'.lab (π' i)) →
    ∀ π π', Rel π π' → ∀ i, sat K f π i ↔ sat K' (mapAtoms α f) π' i := by
  induction f using Fm.induct' with
  | tt => intro _ π π' _ i; simp only [sat, mapAtoms]
  | ff => intro _ π π' _ i; simp only [sat, mapAtoms]
  | ap n =>
    intro hl π π' hr i
    simp only [sat, mapAtoms]
    exact hl π π' hr i n (by simp [atoms])
  | not f ih =>
    intro hl π π' hr i
    simp only [sat, mapAtoms]
    exact not_congr (ih (fun π π' hr i n hn => hl π π' hr i n (by simpa [atoms] using hn)) π π' hr i)
  | or fs ih =>
    intro hl π π' hr i
    have ih' : ∀ f ∈ fs, sat K f π i ↔ sat K' (mapAtoms α f) π' i := fun f hf =>
      ih f hf (fun π π' hr i n hn => hl π π' hr i n (by simpa [atoms] using mem_atomsList hf hn)) π π' hr i
    simp only [sat, mapAtoms, satAny_iff, mapAtomsList_eq_map, List.mem_map]
    constructor
    · rintro ⟨f, hf, h⟩; exact ⟨_, ⟨f, hf, rfl⟩, (ih' f hf).mp h⟩
    · rintro ⟨_, ⟨f, hf, rfl⟩, h⟩; exact ⟨f, hf, (ih' f hf).mpr h⟩
  | and fs ih =>
    intro hl π π' hr i
    have ih' : ∀ f ∈ fs, sat K f π i ↔ sat K' (mapAtoms α f) π' i := fun f hf =>
      ih f hf (fun π π' hr i n hn => hl π π' hr i n (by simpa [atoms] using mem_atomsList hf hn)) π π' hr i
    simp only [sat, mapAtoms, satAll_iff, mapAtomsList_eq_map, List.mem_map]
    constructor
    · rintro h _ ⟨f, hf, rfl⟩; exact (ih' f hf).mp (h f hf)
    · intro h f hf; exact (ih' f hf).mpr (h _ ⟨f, hf, rfl⟩)
  | imp f g ihf ihg =>
    intro hl π π' hr i
    have hf := ihf (fun π π' hr i n hn => hl π π' hr i n (by simp [atoms, hn])) π π' hr
    have hg := ihg (fun π π' hr i n hn => hl π π' hr i n (by simp [atoms, hn])) π π' hr
    simp only [sat, mapAtoms, hf, hg]
  | X f ih =>
    intro hl π π' hr i
    have hf := ih (fun π π' hr i n hn => hl π π' hr i n (by simpa [atoms] using hn)) π π' hr
    simp only [sat, mapAtoms, hf]
  | F f ih =>
    intro hl π π' hr i
    have hf := ih (fun π π' hr i n hn => hl π π' hr i n (by simpa [atoms] using hn)) π π' hr
    simp only [sat, mapAtoms, hf]
  | G f ih =>
    intro hl π π' hr i
    have hf := ih (fun π π' hr i n hn => hl π π' hr i n (by simpa [atoms] using hn)) π π' hr
    simp only [sat, mapAtoms, hf]
  | U f g ihf ihg =>
    intro hl π π' hr i
    have hf := ihf (fun π π' hr i n hn => hl π π' hr i n (by simp [atoms, hn])) π π' hr
    have hg := ihg (fun π π' hr i n hn => hl π π' hr i n (by simp [atoms, hn])) π π' hr
    simp only [sat, mapAtoms, hf, hg]
  | R f g ihf ihg =>
    intro hl π π' hr i
    have hf := ihf (fun π π' hr i n hn => hl π π' hr i n (by simp [atoms, hn])) π π' hr
    have hg := ihg (fun π π' hr i n hn => hl π π' hr i n (by simp [atoms, hn])) π π' hr
    simp only [sat, mapAtoms, hf, hg]
  | A f ih =>
    intro hl π π' hr i
    have hf := ih (fun π π' hr i n hn => hl π π' hr i n (by simpa [atoms] using hn))
    simp only [sat, mapAtoms]
    constructor
    · intro h ρ' hρ' h0
      obtain ⟨ρ, hρ, h0ρ, hrel⟩ := hbwd π π' hr i ρ' hρ' h0
      exact (hf ρ ρ' hrel 0).mp (h ρ hρ h0ρ)
    · intro h ρ hρ h0
      obtain ⟨ρ', hρ', h0ρ, hrel⟩ := hfwd π π' hr i ρ hρ h0
      exact (hf ρ ρ' hrel 0).mpr (h ρ' hρ' h0ρ)
  | E f ih =>
    intro hl π π' hr i
    have hf := ih (fun π π' hr i n hn => hl π π' hr i n (by simpa [atoms] using hn))
    simp only [sat, mapAtoms]
    constructor
    · rintro ⟨ρ, hρ, h0, h⟩
      obtain ⟨ρ', hρ', h0ρ, hrel⟩ := hfwd π π' hr i ρ hρ h0
      exact ⟨ρ', hρ', h0ρ, (hf ρ ρ' hrel 0).mp h⟩
    · rintro ⟨ρ', hρ', h0, h⟩
      obtain ⟨ρ, hρ, h0ρ, hrel⟩ := hbwd π π' hr i ρ' hρ' h0
      exact ⟨ρ, hρ, h0ρ, (hf ρ ρ' hrel 0).mpr h⟩

/-! #### same structure, different presentation -/

theorem isPath_sameK {K K' : Kripke σ} (h : SameK K K') (π : Nat → σ) : IsPath K π ↔ IsPath K' π :=
  forall_congr' fun _ => h.succ _ _

theorem sat_sameK (K K' : Kripke σ) (h : SameK K K') (f : Fm) (π : Nat → σ) (i : Nat) :
    sat K f π i ↔ sat K' f π i := by
  have := sat_transfer id K K' (fun π π' => π' = π)
    (fun π π' _ i ρ hρ h0 => ⟨ρ, (isPath_sameK h ρ).mp hρ, by subst_vars; exact h0, rfl⟩)
    (fun π π' _ i ρ' hρ' h0 => ⟨ρ', (isPath_sameK h ρ').mpr hρ', by subst_vars; exact h0, rfl⟩)
    f (fun π π' hr i n _ => by subst hr; exact h.lab _ _) π π rfl i
  rwa [mapAtoms_id] at this

/-! #### renaming of states -/

/-- in a structure whose successors are states, a path that starts inside `K.states` stays there -/
theorem isPath_states {K : Kripke σ} (hcl : ∀ s ∈ K.states, ∀ t ∈ K.succ s, t ∈ K.states) {π : Nat → σ}
    (hπ : IsPath K π) (h0 : π 0 ∈ K.states) : ∀ k, π k ∈ K.states := by
  intro k
  induction k with
  | zero => exact h0
  | succ k ih => exact hcl _ ih _ (hπ k)

/-- every path of `K'` from the image of a state of `K` is the image of a path of `K` -/
theorem iso_path_preimage (ρ : σ → τ) (K : Kripke σ) (K' : Kripke τ) (hK : K.WF) (h : Iso ρ K K')
    (s : σ) (hs : s ∈ K.states) (π' : Nat → τ) (hπ' : IsPath K' π') (h0 : π' 0 = ρ s) :
    ∃ π, IsPath K π ∧ π 0 = s ∧ (∀ k, π k ∈ K.states) ∧ ∀ k, π' k = ρ (π k) := by
  classical
  -- every position of π' is the image of a state of K
  have himg : ∀ k, ∃ u, u ∈ K.states ∧ ρ u = π' k := by
    intro k
    induction k with
    | zero => exact ⟨s, hs, h0.symm⟩
    | succ k ih =>
      obtain ⟨u, hu, hρu⟩ := ih
      have := hπ' k
      rw [← hρu] at this
      obtain ⟨v, hv, hρv⟩ := (h.succ u hu _).mp this
      exact ⟨v, hK.1 u hu v hv, hρv⟩
  let π : Nat → σ := fun k => Classical.choose (himg k)
  have hπs : ∀ k, π k ∈ K.states := fun k => (Classical.choose_spec (himg k)).1
  have hπρ : ∀ k, ρ (π k) = π' k := fun k => (Classical.choose_spec (himg k)).2
  refine ⟨π, ?_, ?_, hπs, fun k => (hπρ k).symm⟩
  · intro k
    have := hπ' k
    rw [← hπρ k] at this
    obtain ⟨v, hv, hρv⟩ := (h.succ (π k) (hπs k) _).mp this
    have : v = π (k+1) := h.inj v (hK.1 _ (hπs k) v hv) _ (hπs (k+1)) (by rw [hρv, hπρ])
    rwa [← this]
  · exact h.inj _ (hπs 0) _ hs (by rw [hπρ, h0])

/-- the meaning of *every* CTL* formula is invariant under renaming of states, along sequences of states of `K` -/
theorem sat_iso (ρ : σ → τ) (K : Kripke σ) (K' : Kripke τ) (hK : K.WF) (h : Iso ρ K K') (f : Fm)
    (π : Nat → σ) (hπ : ∀ k, π k ∈ K.states) (i : Nat) :
    sat K' f (fun k => ρ (π k)) i ↔ sat K f π i := by
  have := sat_transfer id K K' (fun π π' => (∀ k, π k ∈ K.states) ∧ ∀ k, π' k = ρ (π k))
    (fun π π' hr i ρ₁ hρ₁ h0 => by
      have hst : ∀ k, ρ₁ k ∈ K.states := isPath_states hK.1 hρ₁ (h0 ▸ hr.1 i)
      refine ⟨fun k => ρ (ρ₁ k), fun k => ?_, by show ρ (ρ₁ 0) = π' i; rw [hr.2 i, h0], hst, fun _ => rfl⟩
      exact (h.succ _ (hst k) _).mpr ⟨_, hρ₁ k, rfl⟩)
    (fun π π' hr i ρ' hρ' h0 => by
      obtain ⟨ρ₁, hρ₁, h0', hst, himg⟩ := iso_path_preimage ρ K K' hK h (π i) (hr.1 i) ρ' hρ' (by rw [h0, hr.2 i])
      exact ⟨ρ₁, hρ₁, h0', hst, himg⟩)
    f (fun π π' hr i n _ => by rw [hr.2 i]; exact (h.lab _ (hr.1 i) n).symm) π (fun k => ρ (π k)) ⟨hπ, fun _ => rfl⟩ i
  rw [mapAtoms_id] at this
  exact this.symm

/-- the meaning of a state formula is invariant under renaming of states -/
theorem satState_iso (ρ : σ → τ) (K : Kripke σ) (K' : Kripke τ) (hK : K.WF) (h : Iso ρ K K') (f : Fm)
    (hf : f.isCTLSState = true) (s : σ) (hs : s ∈ K.states) :
    satState K' f (ρ s) ↔ satState K f s := by
  have _ := hf  -- not needed: `sat_iso` holds for every CTL* formula
  exact sat_iso ρ K K' hK h f (fun _ => s) (fun _ => hs) 0

/-! #### renaming of atoms -/

theorem sat_mapAtoms (α : String → String) (K K' : Kripke σ) (f : Fm) (h : AtomRen α K K' f)
    (π : Nat → σ) (i : Nat) : sat K' (mapAtoms α f) π i ↔ sat K f π i := by
  have hpath : ∀ ρ, IsPath K' ρ ↔ IsPath K ρ := fun ρ => by unfold IsPath; rw [h.succ]
  exact (sat_transfer α K K' (fun π π' => π' = π)
    (fun π π' _ i ρ hρ h0 => ⟨ρ, (hpath ρ).mpr hρ, by subst_vars; exact h0, rfl⟩)
    (fun π π' _ i ρ' hρ' h0 => ⟨ρ', (hpath ρ').mp hρ', by subst_vars; exact h0, rfl⟩)
    f (fun π π' hr i n hn => by subst hr; exact (h.lab _ n hn).symm) π π rfl i).symm

/-- a renamed structure is well-formed when the original is (`WF` only looks at states and successors) -/
theorem AtomRen.wf {α : String → String} {K K' : Kripke σ} {f : Fm} (h : AtomRen α K K' f) (hK : K.WF) :
    K'.WF := by
  unfold Kripke.WF at *
  rw [h.states, h.succ]
  exact hK

/-! #### unreachable states -/

/-- along sequences of states of `K`, the bigger structure `K'` gives every CTL* formula the same meaning -/
theorem sat_generated (K K' : Kripke σ) (hK : K.WF) (h : Generated K K') (f : Fm)
    (π : Nat → σ) (hπ : ∀ k, π k ∈ K.states) (i : Nat) :
    sat K' f π i ↔ sat K f π i := by
  have := sat_transfer id K K' (fun π π' => (∀ k, π k ∈ K.states) ∧ π' = π)
    (fun π π' hr i ρ₁ hρ₁ h0 => by
      have hst : ∀ k, ρ₁ k ∈ K.states := isPath_states hK.1 hρ₁ (h0 ▸ hr.1 i)
      refine ⟨ρ₁, fun k => (h.succ _ (hst k) _).mpr (hρ₁ k), by rw [hr.2, h0], hst, rfl⟩)
    (fun π π' hr i ρ' hρ' h0 => by
      have h0' : ρ' 0 = π i := by rw [h0, hr.2]
      have hst : ∀ k, ρ' k ∈ K.states := by
        intro k
        induction k with
        | zero => exact h0' ▸ hr.1 i
        | succ k ih => exact hK.1 _ ih _ ((h.succ _ ih _).mp (hρ' k))
      exact ⟨ρ', fun k => (h.succ _ (hst k) _).mp (hρ' k), h0', hst, rfl⟩)
    f (fun π π' hr i n _ => by rw [hr.2]; exact (h.lab _ (hr.1 i) n).symm) π π ⟨hπ, rfl⟩ i
  rw [mapAtoms_id] at this
  exact this.symm

theorem satState_generated (K K' : Kripke σ) (hK : K.WF) (h : Generated K K') (f : Fm)
    (hf : f.isCTLSState = true) (s : σ) (hs : s ∈ K.states) :
    satState K' f s ↔ satState K f s := by
  have _ := hf  -- not needed: `sat_generated` holds for every CTL* formula
  exact sat_generated K K' hK h f (fun _ => s) (fun _ => hs) 0

#print axioms sat_EU_expand
#print axioms satState_iso
#print axioms satState_generated
end PMC
