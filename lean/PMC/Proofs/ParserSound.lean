/-
  Helpers for C10 (the table-driven model of the Lark parsers, `PMC/Model/Parser.lean`), for an ARBITRARY table `T`:

  * §1  patterns and the lexer: a match is a prefix of the input; `nextToken` only advances; the relation `Lexes`;
  * §2  error sites: every error that `parse` returns is `UnexpectedToken p` / `UnexpectedCharacters p` with `p` a
        position of the input, or the internal `runtimeError` / `indexError`;
  * §3  derivations over the table's rules (`DerivesSeq`, `Derives`) and soundness of acceptance: whatever the
        action table says, an accepted input has a derivation by the rules of `T` from a symbol whose goto leads to
        the accept state, over a token sequence that is a lexing of the input;
  * §4  sorts: a sort assignment for the nonterminals of each logic, a typing table for the `Transformer` callbacks
        (proved sound once), a Boolean check `grammarOK M T` of the rules against them, and the theorem that a
        derivation in a checked grammar yields a value of the sort of its symbol.
-/
import PMC.Model.Parser
import Mathlib.Tactic

namespace PMC
namespace Parser

/-! ## §1 patterns and lexer -/

theorem matchLit_spec : ∀ (l s r : List Char), matchLit l s = some r → s = l ++ r
  | [], s, r, h => by simp only [matchLit, Option.some.injEq] at h; simp [h]
  | _ :: _, [], r, h => by simp [matchLit] at h
  | c :: cs, d :: s, r, h => by
    simp only [matchLit] at h
    split at h
    · next hcd => subst hcd; rw [matchLit_spec cs s r h]; rfl
    · cases h

theorem scanString_spec : ∀ (esc : Bool) (s m r : List Char), scanString esc s = some (m, r) → s = m ++ r
  | _, [], m, r, h => by simp [scanString] at h
  | esc, c :: cs, m, r, h => by
    simp only [scanString] at h
    split at h
    · cases h
    · split at h
      · cases h; rfl
      · split at h
        · next m' r' hm =>
          cases h
          rw [scanString_spec _ cs m' r hm]; rfl
        · cases h

theorem span_append {α} (p : α → Bool) (l : List α) : (l.span p).1 ++ (l.span p).2 = l := by
  rw [List.span_eq_takeWhile_dropWhile]; exact List.takeWhile_append_dropWhile

/-- a match is a prefix of the input, and the rest is what follows it -/
theorem matchAt_spec (p : Pattern) (s m r : List Char) (h : p.matchAt s = some (m, r)) : s = m ++ r := by
  cases p with
  | lit text =>
    simp only [Pattern.matchAt] at h
    split at h
    · next r' hr => cases h; exact matchLit_spec _ _ _ hr
    · cases h
  | ident =>
    simp only [Pattern.matchAt] at h
    split at h
    · next c cs =>
      split at h
      · cases h; simp
      · cases h
    · cases h
  | escapedString =>
    simp only [Pattern.matchAt] at h
    split at h
    · next cs =>
      split at h
      · next m' r' hm => cases h; rw [scanString_spec _ _ _ _ hm]; rfl
      · cases h
    · cases h
  | ws =>
    simp only [Pattern.matchAt] at h
    split at h
    · next c cs =>
      split at h
      · cases h; simp
      · cases h
    · cases h

theorem firstMatch_spec : ∀ (ts : List Terminal) (s : List Char) (t : Terminal) (m r : List Char),
    firstMatch ts s = some (t, m, r) → t ∈ ts ∧ t.pat.matchAt s = some (m, r)
  | [], _, _, _, _, h => by simp [firstMatch] at h
  | t' :: ts, s, t, m, r, h => by
    simp only [firstMatch] at h
    split at h
    · next m' r' hm => cases h; exact ⟨List.mem_cons_self, hm⟩
    · have := firstMatch_spec ts s t m r h
      exact ⟨List.mem_cons_of_mem _ this.1, this.2⟩

theorem lexAt_spec (ts : List Terminal) (s : List Char) (t : Terminal) (m r : List Char)
    (h : lexAt ts s = some (t, m, r)) : t ∈ ts ∧ t.pat.matchAt s = some (m, r) := by
  have := firstMatch_spec _ _ _ _ _ h
  exact ⟨(List.mem_filter.mp this.1).1, this.2⟩

/-- the type of a token is the name of the terminal that matched, or of a literal terminal with exactly its text -/
theorem tokenType_spec (ts : List Terminal) (t : Terminal) (m : List Char) :
    tokenType ts t m = t.name ∨ ∃ k ∈ ts, tokenType ts t m = k.name ∧ k.pat = .lit (String.ofList m) := by
  unfold tokenType
  split
  · next k hk =>
    right
    refine ⟨k, List.mem_of_find?_eq_some hk, rfl, ?_⟩
    have := List.find?_some hk
    simp only [Bool.and_eq_true, beq_iff_eq] at this
    exact this.2
  · left; rfl

theorem allowed_subset (T : Tables) (st : Nat) {t : Terminal} (h : t ∈ T.allowed st) : t ∈ T.terminals :=
  (List.mem_filter.mp h).1

/-- the names of the terminals of the table -/
def Tables.termNames (T : Tables) : List String := T.terminals.map (·.name)

theorem tokenType_mem (T : Tables) (st : Nat) {t : Terminal} (m : List Char) (ht : t ∈ T.allowed st) :
    tokenType (T.allowed st) t m ∈ T.termNames := by
  rcases tokenType_spec (T.allowed st) t m with h | ⟨k, hk, h, _⟩
  · rw [h]; exact List.mem_map_of_mem (allowed_subset T st ht)
  · rw [h]; exact List.mem_map_of_mem (allowed_subset T st hk)

/-- `Lexes T pos s toks`: the input `s`, whose first character has index `pos`, is cut into the tokens `toks`
    (in order, with their positions) and ignored text: each piece is a match, at the head of what remains, of a
    terminal of `T` — an ignored one for the skipped pieces; a token's type is the name of the terminal that matched
    or of a literal terminal with exactly the token's text (keywords re-typing an identifier). -/
inductive Lexes (T : Tables) : Nat → List Char → List Token → Prop
  | nil (pos : Nat) : Lexes T pos [] []
  | skip {pos : Nat} {s m r : List Char} {toks : List Token} (t : Terminal) :
      t ∈ T.terminals → T.ignore.contains t.name = true → t.pat.matchAt s = some (m, r) →
      Lexes T (pos + m.length) r toks → Lexes T pos s toks
  | tok {pos : Nat} {s m r : List Char} {toks : List Token} (t : Terminal) (ty : String) :
      t ∈ T.terminals → T.ignore.contains t.name = false → t.pat.matchAt s = some (m, r) →
      (ty = t.name ∨ ∃ k ∈ T.terminals, ty = k.name ∧ k.pat = .lit (String.ofList m)) →
      Lexes T (pos + m.length) r toks → Lexes T pos s (⟨ty, String.ofList m, pos⟩ :: toks)

/-- what a lexing says about the text: the input is the token texts, in order, separated by skipped text, and the
    tokens' positions are the character indices of their texts -/
inductive Cut : Nat → List Char → List Token → Prop
  | nil (pos : Nat) (skipped : List Char) : Cut pos skipped []
  | cons (pos : Nat) (skipped : List Char) (t : Token) (rest : List Char) (toks : List Token) :
      t.pos = pos + skipped.length → Cut (t.pos + t.text.length) rest toks →
      Cut pos (skipped ++ t.text.toList ++ rest) (t :: toks)

theorem Cut.skip {pos : Nat} {m r : List Char} {toks : List Token} (h : Cut (pos + m.length) r toks) :
    Cut pos (m ++ r) toks := by
  cases h with
  | nil _ sk => exact Cut.nil _ _
  | cons _ sk t rest toks hp hc =>
    have := Cut.cons pos (m ++ sk) t rest toks (by simp [hp, Nat.add_assoc]) hc
    simpa [List.append_assoc] using this

theorem Lexes.cut {T : Tables} {pos : Nat} {s : List Char} {toks : List Token} (h : Lexes T pos s toks) :
    Cut pos s toks := by
  induction h with
  | nil pos => exact Cut.nil _ _
  | skip t _ _ hm _ ih => rw [matchAt_spec _ _ _ _ hm]; exact ih.skip
  | @tok pos s m r toks t ty _ _ hm _ _ ih =>
    rw [matchAt_spec _ _ _ _ hm]
    have := Cut.cons pos [] ⟨ty, String.ofList m, pos⟩ r toks (by simp)
      (by simpa [String.length_ofList] using ih)
    simpa [String.toList_ofList] using this

/-- specification of the contextual lexer, success: it only advances, the token lies in the consumed part, its type
    is a terminal of the table, `$END` only at the end of the input, and what was consumed is a lexing -/
theorem nextToken_ok (T : Tables) (st : Nat) : ∀ (fuel : Nat) (s : List Char) (pos : Nat)
    (look : Option Token) (rest : List Char) (pos' : Nat),
    nextToken T st fuel s pos = .ok (look, rest, pos') →
      pos' + rest.length = pos + s.length ∧
      (∀ t, look = some t → pos ≤ t.pos ∧ t.pos < pos + s.length ∧ t.pos + t.text.length = pos' ∧
        t.type ∈ T.termNames) ∧
      (look = none → rest = []) ∧
      (∀ toks', Lexes T pos' rest toks' → Lexes T pos s (look.toList ++ toks'))
  | 0, _, _, _, _, _, h => by simp [nextToken] at h
  | fuel + 1, [], pos, look, rest, pos', h => by
    simp only [nextToken, Except.ok.injEq, Prod.mk.injEq] at h
    obtain ⟨rfl, rfl, rfl⟩ := h
    simp
  | fuel + 1, c :: cs, pos, look, rest, pos', h => by
    simp only [nextToken] at h
    split at h
    · next t m r hl =>
      have hs := lexAt_spec _ _ _ _ _ hl
      have hcat := matchAt_spec _ _ _ _ hs.2
      have hlen : (c :: cs).length = m.length + r.length := by rw [hcat, List.length_append]
      split at h
      · next hig =>
        have ih := nextToken_ok T st fuel r (pos + m.length) look rest pos' h
        refine ⟨by omega, fun t ht => ?_, ih.2.2.1, fun toks' hl' => ?_⟩
        · have := ih.2.1 t ht; exact ⟨by omega, by omega, this.2.2⟩
        · exact Lexes.skip t (allowed_subset T st hs.1) hig hs.2 (ih.2.2.2 toks' hl')
      · next hig =>
        simp only [Except.ok.injEq, Prod.mk.injEq] at h
        obtain ⟨rfl, rfl, rfl⟩ := h
        refine ⟨by omega, fun t ht => ?_, by simp, fun toks' hl' => ?_⟩
        · cases ht
          exact ⟨Nat.le_refl _, by simp, by simp [String.length_ofList], tokenType_mem T st m hs.1⟩
        · simp only [Option.toList_some, List.singleton_append]
          refine Lexes.tok t _ (allowed_subset T st hs.1) (by simpa using hig) hs.2 ?_ hl'
          rcases tokenType_spec (T.allowed st) t m with h1 | ⟨k, hk, h1, h2⟩
          · exact Or.inl h1
          · exact Or.inr ⟨k, allowed_subset T st hk, h1, h2⟩
    · split at h <;> cases h

/-! ## §2 errors -/

/-- the errors a parser may produce on an input of `n` characters: the two kinds the real parsers raise, at the
    index of a character of the input (`UnexpectedToken 0` also when nothing was shifted, e.g. on the empty input),
    and the two internal ones -/
def Err.okFor (n : Nat) : Err → Prop
  | .unexpectedToken p => p < n ∨ p = 0
  | .unexpectedCharacters p => p < n
  | .runtimeError => True
  | .indexError => True
  | _ => False

theorem Err.okFor_internal {n : Nat} {e : Err} (h : e = .runtimeError ∨ e = .indexError) : Err.okFor n e := by
  rcases h with rfl | rfl <;> trivial

theorem nextToken_error (T : Tables) (st : Nat) (n : Nat) : ∀ (fuel : Nat) (s : List Char) (pos : Nat) (e : Err),
    nextToken T st fuel s pos = .error e → pos + s.length ≤ n → Err.okFor n e
  | 0, _, _, e, h, _ => by simp only [nextToken, Except.error.injEq] at h; subst h; trivial
  | fuel + 1, [], pos, e, h, _ => by simp [nextToken] at h
  | fuel + 1, c :: cs, pos, e, h, hn => by
    simp only [nextToken] at h
    split at h
    · next t m r hl =>
      have hs := lexAt_spec _ _ _ _ _ hl
      have hcat := matchAt_spec _ _ _ _ hs.2
      have hlen : (c :: cs).length = m.length + r.length := by rw [hcat, List.length_append]
      split at h
      · exact nextToken_error T st n fuel r (pos + m.length) e h (by omega)
      · cases h
    · split at h
      · cases h; simp only [List.length_cons] at hn; exact Or.inl (by omega)
      · cases h; simp only [List.length_cons] at hn; show pos < n; omega

theorem unary_error {c : Fm → Fm} {kids : List Item} {e : Err} (h : unary c kids = .error e) :
    e = .runtimeError := by
  unfold unary at h; split at h <;> cases h; rfl

theorem binary_error {c : Fm → Fm → Fm} {kids : List Item} {e : Err} (h : binary c kids = .error e) :
    e = .runtimeError := by
  unfold binary at h; split at h <;> cases h; rfl

theorem nary_error {c : List Fm → Fm} {kids : List Item} {e : Err} (h : nary c kids = .error e) :
    e = .runtimeError := by
  unfold nary at h; split at h <;> cases h; rfl

/-- the callbacks fail only with the internal errors -/
theorem callback_error {name : String} {kids : List Item} {e : Err} (h : callback name kids = .error e) :
    e = .runtimeError ∨ e = .indexError := by
  unfold callback at h
  split at h
  all_goals first
    | (cases h <;> simp)
    | exact Or.inl (unary_error h)
    | exact Or.inl (binary_error h)
    | exact Or.inl (nary_error h)
    | (split at h <;> cases h <;> simp)

/-- the value that `reduce` builds for rule `rule` from the values `vals` of its right-hand side -/
def ruleValue (rule : Rule) (vals : List Val) : Except Err Val :=
  if rule.inline then .ok (.spliced (children rule.rhs vals))
  else match callback rule.callback (children rule.rhs vals) with
    | .ok i => .ok (.item i)
    | .error e => .error e

theorem ruleValue_error {rule : Rule} {vals : List Val} {e : Err} (h : ruleValue rule vals = .error e) :
    e = .runtimeError ∨ e = .indexError := by
  unfold ruleValue at h
  split at h
  · cases h
  · split at h
    · cases h
    · next e' he => cases h; exact callback_error he

theorem reduce_eq (T : Tables) (stack : List Entry) (r : Nat) :
    reduce T stack r =
      match T.rules[r]? with
      | none => .error .runtimeError
      | some rule =>
        if ((stack.take rule.rhs.length).reverse.map (·.sym) != rule.rhs.map (·.name)) = true then
          .error .runtimeError
        else
          match ruleValue rule ((stack.take rule.rhs.length).reverse.map (·.val)) with
          | .error e => .error e
          | .ok v =>
            match T.action (topState T (stack.drop rule.rhs.length)) rule.origin with
            | some (.shift st) => .ok (⟨st, rule.origin, v⟩ :: stack.drop rule.rhs.length)
            | _ => .error .runtimeError := by
  unfold reduce ruleValue
  rfl

theorem reduce_error {T : Tables} {stack : List Entry} {r : Nat} {e : Err} (h : reduce T stack r = .error e) :
    e = .runtimeError ∨ e = .indexError := by
  rw [reduce_eq] at h
  split at h
  · cases h; simp
  · split at h
    · cases h; simp
    · split at h
      · next e' he => cases h; exact ruleValue_error he
      · split at h <;> cases h; simp

/-- what a successful reduction does -/
theorem reduce_ok {T : Tables} {stack stack' : List Entry} {r : Nat} (h : reduce T stack r = .ok stack') :
    ∃ rule v st, T.rules[r]? = some rule ∧
      (stack.take rule.rhs.length).reverse.map (·.sym) = rule.rhs.map (·.name) ∧
      ruleValue rule ((stack.take rule.rhs.length).reverse.map (·.val)) = .ok v ∧
      T.action (topState T (stack.drop rule.rhs.length)) rule.origin = some (.shift st) ∧
      stack' = ⟨st, rule.origin, v⟩ :: stack.drop rule.rhs.length := by
  rw [reduce_eq] at h
  split at h
  · cases h
  · next rule hr =>
    split at h
    · cases h
    · next hne =>
      split at h
      · cases h
      · next v hv =>
        split at h
        · next st hst =>
          cases h
          refine ⟨rule, v, st, hr, ?_, hv, hst, rfl⟩
          simpa using hne
        · cases h

/-- errors of the driver: bookkeeping invariant `pos + |rest| ≤ n`, the lookahead and the last shifted token start
    inside the input -/
theorem run_error (T : Tables) (n : Nat) : ∀ (fuel : Nat) (c : Config) (e : Err),
    run T fuel c = .error e → c.pos + c.rest.length ≤ n → (c.lastPos < n ∨ c.lastPos = 0) →
    (∀ t, c.look = some t → t.pos < n) → Err.okFor n e
  | 0, _, e, h, _, _, _ => by simp only [run, Except.error.injEq] at h; subst h; trivial
  | fuel + 1, c, e, h, hpos, hlast, hlook => by
    simp only [run] at h
    split at h
    · -- no action
      split at h
      · next t ht => cases h; exact Or.inl (hlook t ht)
      · cases h; exact hlast
    · next st _ =>
      split at h
      · cases h; trivial
      · next t ht =>
        split at h
        · next e' he => cases h; exact nextToken_error T st n _ _ _ _ he hpos
        · next look rest pos hn =>
          have sp := nextToken_ok T st _ _ _ _ _ _ hn
          refine run_error T n fuel _ e h ?_ (Or.inl (hlook t ht)) ?_
          · show pos + rest.length ≤ n; omega
          · intro t' ht'
            have := (sp.2.1 t' ht').2.1
            show t'.pos < n
            omega
    · next r _ =>
      split at h
      · next e' he => cases h; exact Err.okFor_internal (reduce_error he)
      · next stack hs =>
        split at h
        · split at h
          · cases h
          · cases h; trivial
        · exact run_error T n fuel _ e h hpos hlast hlook

/-- every error of `parse` is one of the two kinds of the real parsers, at the index of a character of the input
    (or 0), or internal -/
theorem parse_error (T : Tables) (s : List Char) (e : Err) (h : parse T s = .error e) : Err.okFor s.length e := by
  unfold parse at h
  split at h
  · next e' he => cases h; exact nextToken_error T _ s.length _ _ _ _ he (by omega)
  · next look rest pos hn =>
    have sp := nextToken_ok T _ _ _ _ _ _ _ hn
    refine run_error T s.length _ _ e h ?_ (Or.inr rfl) ?_
    · show pos + rest.length ≤ s.length; omega
    · intro t ht
      have := (sp.2.1 t ht).2.1
      show t.pos < s.length
      omega

/-! ## §3 derivations over the rules of the table; soundness of acceptance -/

/-- `DerivesSeq T xs toks vs`: the sequence of grammar symbols `xs` derives the token sequence `toks`, with the
    semantic values `vs` (one per symbol).  A terminal of the table derives exactly one token of that type, whose
    value is the token itself; the origin of a rule of `T.rules` derives what the symbols of its right-hand side
    derive, with the value `ruleValue` — `children` + `callback`, or the spliced children for an inline rule —
    exactly as `reduce` computes it.  (Sequences rather than single symbols keep the relation a plain inductive.) -/
inductive DerivesSeq (T : Tables) : List String → List Token → List Val → Prop
  | nil : DerivesSeq T [] [] []
  | term (t : Token) {xs : List String} {toks : List Token} {vs : List Val} :
      t.type ∈ T.termNames → DerivesSeq T xs toks vs →
      DerivesSeq T (t.type :: xs) (t :: toks) (.item (.tok t.type t.text) :: vs)
  | rule (r : Rule) {toks₁ : List Token} {vals : List Val} {v : Val}
      {xs : List String} {toks₂ : List Token} {vs : List Val} :
      r ∈ T.rules → DerivesSeq T (r.rhs.map (·.name)) toks₁ vals → ruleValue r vals = .ok v →
      DerivesSeq T xs toks₂ vs → DerivesSeq T (r.origin :: xs) (toks₁ ++ toks₂) (v :: vs)

/-- the symbol `x` derives the tokens `toks` with value `v` -/
def Derives (T : Tables) (x : String) (toks : List Token) (v : Val) : Prop := DerivesSeq T [x] toks [v]

theorem DerivesSeq.length_eq {T : Tables} {xs : List String} {toks : List Token} {vs : List Val}
    (h : DerivesSeq T xs toks vs) : xs.length = vs.length := by
  induction h with
  | nil => rfl
  | term t _ _ ih => simp [ih]
  | rule r _ _ _ _ _ ih => simp [ih]

theorem DerivesSeq.nil_inv {T : Tables} {toks : List Token} {vs : List Val}
    (h : DerivesSeq T [] toks vs) : toks = [] ∧ vs = [] := by
  cases h; exact ⟨rfl, rfl⟩

theorem DerivesSeq.append {T : Tables} {xs ys : List String} {t₁ t₂ : List Token} {vs ws : List Val}
    (h₁ : DerivesSeq T xs t₁ vs) (h₂ : DerivesSeq T ys t₂ ws) : DerivesSeq T (xs ++ ys) (t₁ ++ t₂) (vs ++ ws) := by
  induction h₁ with
  | nil => simpa using h₂
  | term t hm _ ih => exact DerivesSeq.term t hm ih
  | rule r hr hrhs hv _ _ ih =>
    have := DerivesSeq.rule r hr hrhs hv ih
    simpa [List.append_assoc] using this

theorem DerivesSeq.cons_inv {T : Tables} {x : String} {xs : List String} {toks : List Token} {v : Val}
    {vs : List Val} (h : DerivesSeq T (x :: xs) toks (v :: vs)) :
    ∃ t₁ t₂, toks = t₁ ++ t₂ ∧ Derives T x t₁ v ∧ DerivesSeq T xs t₂ vs := by
  cases h with
  | term t hm h' => exact ⟨[t], _, rfl, DerivesSeq.term t hm .nil, h'⟩
  | rule r hr hrhs hv h' =>
    refine ⟨_, _, rfl, ?_, h'⟩
    have := DerivesSeq.rule r hr hrhs hv .nil
    simpa [Derives] using this

theorem DerivesSeq.split {T : Tables} : ∀ (xs ys : List String) (toks : List Token) (vs ws : List Val),
    xs.length = vs.length → DerivesSeq T (xs ++ ys) toks (vs ++ ws) →
    ∃ t₁ t₂, toks = t₁ ++ t₂ ∧ DerivesSeq T xs t₁ vs ∧ DerivesSeq T ys t₂ ws
  | [], ys, toks, [], ws, _, h => ⟨[], toks, rfl, .nil, h⟩
  | [], _, _, _ :: _, _, hl, _ => by simp at hl
  | _ :: _, _, _, [], _, hl, _ => by simp at hl
  | x :: xs, ys, toks, v :: vs, ws, hl, h => by
    obtain ⟨t₁, t₂, rfl, hx, hrest⟩ := DerivesSeq.cons_inv (by simpa using h)
    obtain ⟨u₁, u₂, rfl, h₁, h₂⟩ := DerivesSeq.split xs ys t₂ vs ws (by simpa using hl) hrest
    refine ⟨t₁ ++ u₁, u₂, by simp, ?_, h₂⟩
    exact DerivesSeq.append (xs := [x]) (vs := [v]) hx h₁

theorem lookup_mem {α β} [BEq α] [LawfulBEq α] : ∀ (l : List (α × β)) (a : α) (b : β),
    l.lookup a = some b → (a, b) ∈ l
  | [], _, _, h => by simp at h
  | (a', b') :: l, a, b, h => by
    simp only [List.lookup] at h
    split at h
    · next heq => cases h; simp only [beq_iff_eq] at heq; subst heq; exact List.mem_cons_self
    · exact List.mem_cons_of_mem _ (lookup_mem l a b h)

/-- the state is the target of some shift/goto entry of the table -/
def Entered (T : Tables) (st : Nat) : Prop := ∃ i x, T.action i x = some (.shift st)

/-- Invariant of `run` on acceptance.  The stack, bottom to top, is a sequence of symbols and values that derives
    the tokens consumed so far; lexing the rest continues a lexing of the whole input.  On acceptance the top entry
    was pushed by a goto into the accept state. -/
theorem run_ok (T : Tables) (s : List Char) : ∀ (fuel : Nat) (c : Config) (f : Fm), run T fuel c = .ok f →
    ∀ toks, DerivesSeq T (c.stack.reverse.map (·.sym)) toks (c.stack.reverse.map (·.val)) →
    (∀ e ∈ c.stack, Entered T e.state) →
    (∀ t, c.look = some t → t.type ∈ T.termNames) → (c.look = none → c.rest = []) →
    (∀ toks', Lexes T c.pos c.rest toks' → Lexes T 0 s (toks ++ c.look.toList ++ toks')) →
    ∃ (below : List Entry) (x : String) (t₁ t₂ : List Token),
      DerivesSeq T (below.reverse.map (·.sym)) t₁ (below.reverse.map (·.val)) ∧
      Derives T x t₂ (.item (.fm f)) ∧
      T.action (topState T below) x = some (.shift T.accept) ∧
      (∀ e ∈ below, Entered T e.state) ∧
      Lexes T 0 s (t₁ ++ t₂)
  | 0, _, _, h => by simp [run] at h
  | fuel + 1, c, f, h => by
    intro toks hd hent hlt hend hlex
    simp only [run] at h
    split at h
    · split at h <;> cases h
    · next st hact =>
      split at h
      · cases h
      · next t ht =>
        split at h
        · cases h
        · next look rest pos hn =>
          have sp := nextToken_ok T st _ _ _ _ _ _ hn
          refine run_ok T s fuel _ f h (toks ++ [t]) ?_ ?_ ?_ ?_ ?_
          · have := DerivesSeq.append hd (DerivesSeq.term t (hlt t ht) .nil)
            simpa using this
          · intro e he
            rcases List.mem_cons.mp he with rfl | he
            · exact ⟨_, _, hact⟩
            · exact hent e he
          · intro t' ht'; exact (sp.2.1 t' ht').2.2.2
          · exact sp.2.2.1
          · intro toks' hl'
            have := hlex _ (sp.2.2.2 toks' hl')
            simpa [ht, List.append_assoc] using this
    · next r hact =>
      split at h
      · cases h
      · next stack hs =>
        obtain ⟨rule, v, st, hr, hsyms, hv, hgoto, rfl⟩ := reduce_ok hs
        -- the derivation of the old stack splits at the popped part
        have hstack : c.stack.reverse = (c.stack.drop rule.rhs.length).reverse ++
            (c.stack.take rule.rhs.length).reverse := by
          rw [← List.reverse_append, List.take_append_drop]
        rw [hstack, List.map_append, List.map_append] at hd
        obtain ⟨t₁, t₂, rfl, hb, hp⟩ := DerivesSeq.split _ _ _ _ _ (by simp) hd
        rw [hsyms] at hp
        have hx : Derives T rule.origin t₂ v := by
          have := DerivesSeq.rule rule (List.mem_of_getElem? hr) hp hv .nil
          simpa [Derives] using this
        have hentb : ∀ e ∈ c.stack.drop rule.rhs.length, Entered T e.state :=
          fun e he => hent e (List.mem_of_mem_drop he)
        split at h
        · next hacc =>
          split at h
          · next st' x' f' heq =>
            cases h
            simp only [List.cons.injEq, Entry.mk.injEq] at heq
            obtain ⟨⟨rfl, rfl, rfl⟩, _⟩ := heq
            simp only [Bool.and_eq_true, Option.isNone_iff_eq_none, topState, beq_iff_eq] at hacc
            refine ⟨_, _, t₁, t₂, hb, hx, ?_, hentb, ?_⟩
            · rw [← hacc.2]; exact hgoto
            · have := hlex [] (by rw [hend hacc.1]; exact Lexes.nil _)
              simpa [hacc.1] using this
          · cases h
        · refine run_ok T s fuel _ f h (t₁ ++ t₂) ?_ ?_ hlt hend hlex
          · have := DerivesSeq.append hb hx
            simpa using this
          · intro e he
            rcases List.mem_cons.mp he with rfl | he
            · exact ⟨_, _, hgoto⟩
            · exact hentb e he

/-- Soundness of acceptance for an arbitrary table: the accepted formula is the value of a derivation, by the rules
    of `T`, of a symbol `x` with a goto into the accept state, over the last tokens of a lexing of the input. -/
theorem parse_ok_gen (T : Tables) (s : List Char) (f : Fm) (h : parse T s = .ok f) :
    ∃ (below : List Entry) (x : String) (t₁ t₂ : List Token),
      DerivesSeq T (below.reverse.map (·.sym)) t₁ (below.reverse.map (·.val)) ∧
      Derives T x t₂ (.item (.fm f)) ∧
      T.action (topState T below) x = some (.shift T.accept) ∧
      (∀ e ∈ below, Entered T e.state) ∧
      Lexes T 0 s (t₁ ++ t₂) := by
  unfold parse at h
  split at h
  · cases h
  · next look rest pos hn =>
    have sp := nextToken_ok T _ _ _ _ _ _ _ hn
    refine run_ok T s _ _ f h [] .nil (by simp) (fun t ht => (sp.2.1 t ht).2.2.2) sp.2.2.1 ?_
    intro toks' hl'
    simpa using sp.2.2.2 toks' hl'

/-- the accept state is entered only from the start state, and no entry of the table leads to the start state:
    then the stack holds exactly one entry at acceptance (true of every table that Lark builds; cheap to check) -/
def acceptOK (T : Tables) : Bool :=
  T.table.all (fun row => row.all fun xa => xa.2 != .shift T.start) &&
  T.table.zipIdx.all (fun ri => ri.1.all fun xa => xa.2 != .shift T.accept || ri.2 == T.start)

theorem action_mem {T : Tables} {i : Nat} {x : String} {a : Action} (h : T.action i x = some a) :
    ∃ row, T.table[i]? = some row ∧ (x, a) ∈ row := by
  unfold Tables.action Tables.row at h
  cases hi : T.table[i]? with
  | none => simp [List.getD, hi] at h
  | some row =>
    refine ⟨row, rfl, lookup_mem _ _ _ ?_⟩
    simpa [List.getD, hi] using h

theorem acceptOK_start {T : Tables} (hT : acceptOK T = true) {st : Nat} (h : Entered T st) : st ≠ T.start := by
  obtain ⟨i, x, hact⟩ := h
  obtain ⟨row, hrow, hmem⟩ := action_mem hact
  simp only [acceptOK, Bool.and_eq_true, List.all_eq_true] at hT
  have := hT.1 row (List.mem_of_getElem? hrow) _ hmem
  rintro rfl
  simp at this

theorem acceptOK_accept {T : Tables} (hT : acceptOK T = true) {i : Nat} {x : String}
    (h : T.action i x = some (.shift T.accept)) : i = T.start := by
  obtain ⟨row, hrow, hmem⟩ := action_mem h
  simp only [acceptOK, Bool.and_eq_true, List.all_eq_true] at hT
  have hz : (row, i) ∈ T.table.zipIdx := by
    rw [List.mem_zipIdx_iff_getElem?]; simpa using hrow
  have := hT.2 (row, i) hz _ hmem
  simpa using this

/-- Soundness of acceptance: if `parse T s` returns `f` then a symbol `x` with a goto from the start state into the
    accept state derives, by the rules of `T`, a token sequence `toks` with value `f`, and `toks` is a lexing of the
    whole input `s` (token texts and positions are those of `s`, the gaps are matches of ignored terminals). -/
theorem parse_ok (T : Tables) (hT : acceptOK T = true) (s : List Char) (f : Fm) (h : parse T s = .ok f) :
    ∃ (x : String) (toks : List Token),
      T.action T.start x = some (.shift T.accept) ∧ Derives T x toks (.item (.fm f)) ∧ Lexes T 0 s toks := by
  obtain ⟨below, x, t₁, t₂, hb, hx, hact, hent, hlex⟩ := parse_ok_gen T s f h
  have hst := acceptOK_accept hT hact
  have hbelow : below = [] := by
    cases below with
    | nil => rfl
    | cons e es => exact absurd hst (acceptOK_start hT (hent e List.mem_cons_self))
  subst hbelow
  obtain ⟨rfl, _⟩ := DerivesSeq.nil_inv (by simpa using hb)
  exact ⟨x, t₂, hact, hx, by simpa using hlex⟩

/-! ## §4 sorts -/

/-- CTL path formulas: one temporal operator applied to CTL state formulas -/
def isCTLPath : Fm → Bool
  | .X f | .F f | .G f => f.isCTLState
  | .U f g | .R f g => f.isCTLState && g.isCTLState
  | _ => false

/-- sorts of the items handed to the callbacks: kept tokens, and the syntactic classes of `PMC/Model/Syntax.lean` -/
inductive Srt where
  | tok | pl | ctlState | ctlPath | ctl | ltlPath | ltl | any
  deriving DecidableEq, Repr

def Srt.holds : Srt → Item → Bool
  | .tok, .tok _ _ => true
  | .tok, .fm _ => false
  | _, .tok _ _ => false
  | .pl, .fm f => f.isPL
  | .ctlState, .fm f => f.isCTLState
  | .ctlPath, .fm f => isCTLPath f
  | .ctl, .fm f => f.isCTL
  | .ltlPath, .fm f => f.isLTLPath
  | .ltl, .fm f => f.isLTL
  | .any, .fm _ => true

/-- subsorting: CTL state and path formulas are CTL formulas, LTL path formulas are LTL formulas, every formula is
    a CTL* formula -/
def Srt.le : Srt → Srt → Bool
  | .ctlState, .ctl | .ctlPath, .ctl | .ltlPath, .ltl => true
  | .tok, .any => false
  | _, .any => true
  | a, b => decide (a = b)

theorem isCTL_of_state {f : Fm} (h : f.isCTLState = true) : f.isCTL = true := by
  cases f <;> simp_all [Fm.isCTL, Fm.isCTLState]

theorem isCTL_of_path {f : Fm} (h : isCTLPath f = true) : f.isCTL = true := by
  cases f <;> simp_all [Fm.isCTL, isCTLPath]

theorem isLTL_of_path {f : Fm} (h : f.isLTLPath = true) : f.isLTL = true := by
  cases f <;> simp_all [Fm.isLTL, Fm.isLTLPath]

theorem Srt.le_sound {a b : Srt} {i : Item} (hle : a.le b = true) (h : a.holds i = true) : b.holds i = true := by
  cases i with
  | tok ty tx => cases a <;> cases b <;> simp_all [Srt.le, Srt.holds]
  | fm f =>
    cases a <;> cases b <;> simp_all [Srt.le, Srt.holds]
    · exact isCTL_of_state h
    · exact isCTL_of_path h
    · exact isLTL_of_path h

theorem isPLList_iff (fs : List Fm) : Fm.isPL.isPLList fs = true ↔ ∀ f ∈ fs, f.isPL = true := by
  induction fs with
  | nil => simp [Fm.isPL.isPLList]
  | cons f fs ih => simp only [Fm.isPL.isPLList, Bool.and_eq_true, ih, List.mem_cons, forall_eq_or_imp]

theorem isCTLStateList_iff (fs : List Fm) :
    Fm.isCTLState.isCTLStateList fs = true ↔ ∀ f ∈ fs, f.isCTLState = true := by
  induction fs with
  | nil => simp [Fm.isCTLState.isCTLStateList]
  | cons f fs ih =>
    simp only [Fm.isCTLState.isCTLStateList, Bool.and_eq_true, ih, List.mem_cons, forall_eq_or_imp]

theorem isLTLPathList_iff (fs : List Fm) :
    Fm.isLTLPath.isLTLPathList fs = true ↔ ∀ f ∈ fs, f.isLTLPath = true := by
  induction fs with
  | nil => simp [Fm.isLTLPath.isLTLPathList]
  | cons f fs ih =>
    simp only [Fm.isLTLPath.isLTLPathList, Bool.and_eq_true, ih, List.mem_cons, forall_eq_or_imp]

/-- the sort of the formulas of a logic, and of its atoms -/
def topSort : Logic → Srt
  | .PL => .pl | .CTL => .ctl | .LTL => .ltl | .CTLS => .any

def baseSort : Logic → Srt
  | .PL => .pl | .CTL => .ctlState | .LTL => .ltlPath | .CTLS => .any

theorem topSort_holds (M : Logic) (f : Fm) : (topSort M).holds (.fm f) = Fm.inLogic M f := by
  cases M <;> rfl

/-- SORT ASSIGNMENT: the sort of the value of each (non-inline) nonterminal, by name, in each logic.
    PL: everything is propositional.  CTL: `s_formula`, `u_formula` are state formulas, `p_formula` is a path
    formula (one temporal operator over state formulas), `formula` is either.  LTL: `u_formula`, `p_formula` are
    path formulas, `s_formula` (`A` path) and `formula` are LTL formulas.  CTL*: no constraint. -/
def ntSort (M : Logic) (x : String) : Option Srt :=
  match M with
  | .PL => if x ∈ ["s_formula", "u_formula", "b_formula", "a_prop", "formula"] then some .pl else none
  | .CTL =>
    if x ∈ ["s_formula", "u_formula", "a_prop"] then some .ctlState
    else if x = "p_formula" then some .ctlPath
    else if x = "formula" then some .ctl else none
  | .LTL =>
    if x ∈ ["u_formula", "p_formula", "a_prop"] then some .ltlPath
    else if x ∈ ["s_formula", "formula"] then some .ltl else none
  | .CTLS => if x ∈ ["s_formula", "u_formula", "p_formula", "a_prop", "formula"] then some .any else none

/-- TYPING TABLE of the `Transformer` methods in each logic: `(name, A, R)` — if every formula among the children
    has sort `A` then the result has sort `R`.  (The constants and the atoms take no formula.)  A method without an
    entry may not be used by the grammar of that logic: `exists_formula` in LTL, the temporal ones in PL. -/
def cbTable : Logic → List (String × Srt × Srt)
  | .PL => [("true", .tok, .pl), ("false", .tok, .pl), ("string", .tok, .pl), ("e_string", .tok, .pl),
      ("not_formula", .pl, .pl), ("or_formula", .pl, .pl), ("and_formula", .pl, .pl), ("imply_formula", .pl, .pl)]
  | .CTL => [("true", .tok, .ctlState), ("false", .tok, .ctlState), ("string", .tok, .ctlState),
      ("e_string", .tok, .ctlState),
      ("not_formula", .ctlState, .ctlState), ("or_formula", .ctlState, .ctlState),
      ("and_formula", .ctlState, .ctlState), ("imply_formula", .ctlState, .ctlState),
      ("forall_formula", .ctlPath, .ctlState), ("exists_formula", .ctlPath, .ctlState),
      ("next_formula", .ctlState, .ctlPath), ("eventually_formula", .ctlState, .ctlPath),
      ("globally_formula", .ctlState, .ctlPath), ("until_formula", .ctlState, .ctlPath),
      ("release_formula", .ctlState, .ctlPath)]
  | .LTL => [("true", .tok, .ltlPath), ("false", .tok, .ltlPath), ("string", .tok, .ltlPath),
      ("e_string", .tok, .ltlPath),
      ("not_formula", .ltlPath, .ltlPath), ("or_formula", .ltlPath, .ltlPath),
      ("and_formula", .ltlPath, .ltlPath), ("imply_formula", .ltlPath, .ltlPath),
      ("forall_formula", .ltlPath, .ltl),
      ("next_formula", .ltlPath, .ltlPath), ("eventually_formula", .ltlPath, .ltlPath),
      ("globally_formula", .ltlPath, .ltlPath), ("until_formula", .ltlPath, .ltlPath),
      ("release_formula", .ltlPath, .ltlPath)]
  | .CTLS => [("true", .tok, .any), ("false", .tok, .any), ("string", .tok, .any), ("e_string", .tok, .any),
      ("not_formula", .any, .any), ("or_formula", .any, .any), ("and_formula", .any, .any),
      ("imply_formula", .any, .any), ("forall_formula", .any, .any), ("exists_formula", .any, .any),
      ("next_formula", .any, .any), ("eventually_formula", .any, .any), ("globally_formula", .any, .any),
      ("until_formula", .any, .any), ("release_formula", .any, .any)]

def cbType (M : Logic) (name : String) : Option (Srt × Srt) := (cbTable M).lookup name

/-- the methods that return their first child (`return subformula[0]`) -/
def isPass (name : String) : Bool :=
  name ∈ ["a_prop", "b_formula", "s_formula", "u_formula", "p_formula", "formula"]

theorem formulas_spec : ∀ (kids : List Item) (fs : List Fm), formulas kids = some fs → kids = fs.map .fm
  | [], fs, h => by simp only [formulas, Option.some.injEq] at h; subst h; rfl
  | .fm f :: is, fs, h => by
    simp only [formulas, Option.map_eq_some_iff] at h
    obtain ⟨gs, hg, rfl⟩ := h
    rw [formulas_spec is gs hg]; rfl
  | .tok _ _ :: _, fs, h => by simp [formulas] at h

theorem unary_ok {c : Fm → Fm} {kids : List Item} {i : Item} (h : unary c kids = .ok i) :
    ∃ f, kids = [.fm f] ∧ i = .fm (c f) := by
  unfold unary at h
  split at h
  · next f hf => cases h; exact ⟨f, formulas_spec _ _ hf, rfl⟩
  · cases h

theorem binary_ok {c : Fm → Fm → Fm} {kids : List Item} {i : Item} (h : binary c kids = .ok i) :
    ∃ f g, kids = [.fm f, .fm g] ∧ i = .fm (c f g) := by
  unfold binary at h
  split at h
  · next f g hf => cases h; exact ⟨f, g, formulas_spec _ _ hf, rfl⟩
  · cases h

theorem nary_ok {c : List Fm → Fm} {kids : List Item} {i : Item} (h : nary c kids = .ok i) :
    ∃ fs, kids = fs.map .fm ∧ i = .fm (c fs) := by
  unfold nary at h
  split at h
  · next fs hf => cases h; exact ⟨fs, formulas_spec _ _ hf, rfl⟩
  · cases h

/-- hypothesis on the children of a node: each is a token or has sort `A` -/
def KidsOK (A : Srt) (kids : List Item) : Prop := ∀ k ∈ kids, A.holds k = true ∨ Srt.tok.holds k = true

theorem KidsOK.fm {A : Srt} {kids : List Item} (h : KidsOK A kids) {f : Fm} (hf : .fm f ∈ kids) :
    A.holds (.fm f) = true := by
  rcases h _ hf with h | h
  · exact h
  · simp [Srt.holds] at h

theorem sound_unary {c : Fm → Fm} {A R : Srt} (hop : ∀ f, A.holds (.fm f) = true → R.holds (.fm (c f)) = true)
    {kids : List Item} {i : Item} (hk : KidsOK A kids) (h : unary c kids = .ok i) : R.holds i = true := by
  obtain ⟨f, rfl, rfl⟩ := unary_ok h
  exact hop f (hk.fm (by simp))

theorem sound_binary {c : Fm → Fm → Fm} {A R : Srt}
    (hop : ∀ f g, A.holds (.fm f) = true → A.holds (.fm g) = true → R.holds (.fm (c f g)) = true)
    {kids : List Item} {i : Item} (hk : KidsOK A kids) (h : binary c kids = .ok i) : R.holds i = true := by
  obtain ⟨f, g, rfl, rfl⟩ := binary_ok h
  exact hop f g (hk.fm (by simp)) (hk.fm (by simp))

theorem sound_nary {c : List Fm → Fm} {A R : Srt}
    (hop : ∀ fs, (∀ f ∈ fs, A.holds (.fm f) = true) → R.holds (.fm (c fs)) = true)
    {kids : List Item} {i : Item} (hk : KidsOK A kids) (h : nary c kids = .ok i) : R.holds i = true := by
  obtain ⟨fs, rfl, rfl⟩ := nary_ok h
  exact hop fs (fun f hf => hk.fm (List.mem_map_of_mem hf))

/-- SOUNDNESS OF THE TYPING TABLE (proved once, for all four logics): if every child is a token or an item of the
    argument sort, whatever the method returns has the result sort -/
theorem cbType_sound {M : Logic} {name : String} {A R : Srt} {kids : List Item} {i : Item}
    (hc : cbType M name = some (A, R)) (hk : KidsOK A kids) (h : callback name kids = .ok i) :
    R.holds i = true := by
  unfold callback at h
  split at h
  -- constants
  · cases h; cases M <;> simp [cbType, cbTable] at hc <;> (obtain ⟨rfl, rfl⟩ := hc; rfl)
  · cases h; cases M <;> simp [cbType, cbTable, List.lookup] at hc <;> (obtain ⟨rfl, rfl⟩ := hc; rfl)
  -- atoms
  · split at h <;> cases h
    cases M <;> simp [cbType, cbTable, List.lookup] at hc <;> (obtain ⟨rfl, rfl⟩ := hc; rfl)
  · split at h <;> cases h
    cases M <;> simp [cbType, cbTable, List.lookup] at hc <;> (obtain ⟨rfl, rfl⟩ := hc; rfl)
  -- `return subformula[0]`: not in the table
  iterate 6 (exfalso; cases M <;> simp [cbType, cbTable, List.lookup] at hc)
  -- not
  · cases M <;> simp [cbType, cbTable, List.lookup] at hc <;> obtain ⟨rfl, rfl⟩ := hc <;>
      exact sound_unary (by intro f; simp [Srt.holds, Fm.isPL, Fm.isCTLState, Fm.isLTLPath]) hk h
  -- or
  · cases M <;> simp [cbType, cbTable, List.lookup] at hc <;> obtain ⟨rfl, rfl⟩ := hc <;>
      exact sound_nary (by
        intro fs
        simp [Srt.holds, Fm.isPL, Fm.isCTLState, Fm.isLTLPath, isPLList_iff, isCTLStateList_iff,
          isLTLPathList_iff]) hk h
  -- and
  · cases M <;> simp [cbType, cbTable, List.lookup] at hc <;> obtain ⟨rfl, rfl⟩ := hc <;>
      exact sound_nary (by
        intro fs
        simp [Srt.holds, Fm.isPL, Fm.isCTLState, Fm.isLTLPath, isPLList_iff, isCTLStateList_iff,
          isLTLPathList_iff]) hk h
  -- imply
  · cases M <;> simp [cbType, cbTable, List.lookup] at hc <;> obtain ⟨rfl, rfl⟩ := hc <;>
      exact sound_binary (by
        intro f g; simp +contextual [Srt.holds, Fm.isPL, Fm.isCTLState, Fm.isLTLPath]) hk h
  -- forall
  · cases M <;> simp [cbType, cbTable, List.lookup] at hc <;> obtain ⟨rfl, rfl⟩ := hc <;>
      exact sound_unary (by
        intro f hf
        first
          | (cases f <;> simp_all [Srt.holds, Fm.isCTLState, isCTLPath]; done)
          | simp_all [Srt.holds, Fm.isLTL]) hk h
  -- exists
  · cases M <;> simp [cbType, cbTable, List.lookup] at hc <;> obtain ⟨rfl, rfl⟩ := hc <;>
      exact sound_unary (by
        intro f hf
        cases f <;> simp_all [Srt.holds, Fm.isCTLState, isCTLPath]) hk h
  -- next, eventually, globally
  iterate 3
    · cases M <;> simp [cbType, cbTable, List.lookup] at hc <;> obtain ⟨rfl, rfl⟩ := hc <;>
        exact sound_unary (by intro f; simp [Srt.holds, isCTLPath, Fm.isLTLPath]) hk h
  -- until, release
  iterate 2
    · cases M <;> simp [cbType, cbTable, List.lookup] at hc <;> obtain ⟨rfl, rfl⟩ := hc <;>
        exact sound_binary (by intro f g; simp +contextual [Srt.holds, isCTLPath, Fm.isLTLPath]) hk h
  -- unknown name
  · cases h

theorem pass_sound {name : String} {kids : List Item} {i : Item} (hp : isPass name = true)
    (h : callback name kids = .ok i) : i ∈ kids := by
  simp only [isPass, List.mem_cons, List.not_mem_nil, or_false, decide_eq_true_eq] at hp
  rcases hp with rfl | rfl | rfl | rfl | rfl | rfl <;>
  · simp only [callback] at h
    split at h
    · cases h; exact List.mem_cons_self
    · cases h

/-! ### checking the rules of a table against the sort assignment and the typing table -/

/-- type of the value of a grammar symbol: one item of a sort, or (inline rules) a list of items of a sort -/
inductive VTy where
  | item (σ : Srt)
  | list (σ : Srt)
  deriving DecidableEq, Repr

def VTy.holds : VTy → Val → Bool
  | .item σ, .item i => σ.holds i
  | .list σ, .spliced is => is.all σ.holds
  | _, _ => false

/-- sort of the elements that an inline helper `x` (`__…_plus_k`) contributes to its parent, read off the table:
    the sort of the first nonterminal with an assigned sort in the right-hand side of the first rule of `x` -/
def elemSort (M : Logic) (T : Tables) (x : String) : Option Srt :=
  match T.rules.find? (fun r => r.origin == x) with
  | some r =>
    if r.inline then r.rhs.findSome? (fun s => if T.termNames.contains s.name then none else ntSort M s.name)
    else none
  | none => none

/-- type of the value of the symbol named `x`: terminals carry their token, the named nonterminals an item of
    their assigned sort, the inline helpers a list -/
def symTy (M : Logic) (T : Tables) (x : String) : Option VTy :=
  if T.termNames.contains x then some (.item .tok)
  else match ntSort M x with
    | some σ => some (.item σ)
    | none => (elemSort M T x).map .list

/-- sorts of the children of a node with right-hand side `rhs` (every child has one of these sorts): filtered-out
    tokens contribute nothing, an inline helper contributes its element sort -/
def kidSorts (M : Logic) (T : Tables) : List Sym → Option (List Srt)
  | [] => some []
  | s :: ss =>
    match symTy M T s.name, kidSorts M T ss with
    | some (.item σ), some l => some (if s.isTerm && s.filterOut then l else σ :: l)
    | some (.list σ), some l => some (σ :: l)
    | _, _ => none

/-- the callback `name`, on children of sorts `l`, yields an item of sort `σ` -/
def cbOK (M : Logic) (name : String) (l : List Srt) (σ : Srt) : Bool :=
  if isPass name then l.all (·.le σ)
  else match cbType M name with
    | some (A, R) => l.all (fun τ => τ == .tok || τ.le A) && R.le σ
    | none => false

/-- a rule is well-sorted: its origin is not a terminal; every symbol of the right-hand side has a type; an inline
    rule contributes children of the element sort of its origin; a proper rule's callback, on children of the
    sorts of the right-hand side, yields the sort assigned to the origin -/
def ruleOK (M : Logic) (T : Tables) (r : Rule) : Bool :=
  !T.termNames.contains r.origin &&
  match kidSorts M T r.rhs, symTy M T r.origin with
  | some l, some (.list σ) => r.inline && l.all (·.le σ)
  | some l, some (.item σ) => !r.inline && cbOK M r.callback l σ
  | _, _ => false

/-- the symbols with a goto into the accept state -/
def Tables.startSyms (T : Tables) : List String :=
  T.table.flatMap fun row => row.filterMap fun xa => if xa.2 = .shift T.accept then some xa.1 else none

/-- THE PER-GRAMMAR OBLIGATION: every rule is well-sorted and every symbol leading to acceptance carries a formula
    of the logic -/
def grammarOK (M : Logic) (T : Tables) : Bool :=
  T.rules.all (ruleOK M T) &&
  T.startSyms.all fun x =>
    match symTy M T x with
    | some (.item σ) => σ.le (topSort M)
    | _ => false

/-- the values of a typed sequence of symbols -/
def Typed (M : Logic) (T : Tables) : List String → List Val → Prop
  | [], [] => True
  | x :: xs, v :: vs => (∃ ty, symTy M T x = some ty ∧ ty.holds v = true) ∧ Typed M T xs vs
  | _, _ => False

theorem children_sorts (M : Logic) (T : Tables) : ∀ (rhs : List Sym) (vals : List Val) (l : List Srt),
    kidSorts M T rhs = some l → Typed M T (rhs.map (·.name)) vals →
    ∀ i ∈ children rhs vals, ∃ σ ∈ l, σ.holds i = true
  | [], _, _, _, _, i, hi => by simp [children] at hi
  | _ :: _, [], _, _, _, i, hi => by simp [children] at hi
  | s :: ss, v :: vs, l, hk, ht, i, hi => by
    simp only [List.map_cons, Typed] at ht
    obtain ⟨⟨ty, hty, hv⟩, htl⟩ := ht
    simp only [kidSorts, hty] at hk
    cases ty with
    | item σ =>
      split at hk
      · next σ' l' heq hl' =>
        cases heq; cases hk
        have ih := children_sorts M T ss vs l' hl' htl i
        cases v with
        | item j =>
          simp only [children, List.mem_append] at hi
          rcases hi with hi | hi
          · split at hi
            · simp at hi
            · next hf =>
              simp only [List.mem_singleton] at hi; subst hi
              refine ⟨σ, ?_, by simpa [VTy.holds] using hv⟩
              simp [hf]
          · obtain ⟨τ, hτ, h⟩ := ih hi
            refine ⟨τ, ?_, h⟩
            split <;> simp [hτ]
        | spliced js => simp [VTy.holds] at hv
      · next heq _ => cases heq
      · next h1 h2 =>
        cases hks : kidSorts M T ss with
        | none => simp at hk
        | some l' => exact absurd hks (h1 σ l' rfl)
    | list σ =>
      split at hk
      · next heq _ => cases heq
      · next σ' l' heq hl' =>
        cases heq; cases hk
        have ih := children_sorts M T ss vs l' hl' htl i
        cases v with
        | item j => simp [VTy.holds] at hv
        | spliced js =>
          simp only [children, List.mem_append] at hi
          rcases hi with hi | hi
          · refine ⟨σ, List.mem_cons_self, ?_⟩
            simp only [VTy.holds, List.all_eq_true] at hv
            exact hv i hi
          · obtain ⟨τ, hτ, h⟩ := ih hi
            exact ⟨τ, List.mem_cons_of_mem _ hτ, h⟩
      · next h1 h2 =>
        cases hks : kidSorts M T ss with
        | none => simp at hk
        | some l' => exact absurd hks (h2 σ l' rfl)

theorem cbOK_sound {M : Logic} {name : String} {l : List Srt} {σ : Srt} {kids : List Item} {i : Item}
    (hok : cbOK M name l σ = true) (hk : ∀ k ∈ kids, ∃ τ ∈ l, τ.holds k = true)
    (h : callback name kids = .ok i) : σ.holds i = true := by
  unfold cbOK at hok
  split at hok
  · next hp =>
    obtain ⟨τ, hτ, hh⟩ := hk i (pass_sound hp h)
    exact Srt.le_sound (List.all_eq_true.mp hok τ hτ) hh
  · split at hok
    · next A R hc =>
      simp only [Bool.and_eq_true, List.all_eq_true, Bool.or_eq_true, beq_iff_eq] at hok
      refine Srt.le_sound hok.2 (cbType_sound hc ?_ h)
      intro k hkm
      obtain ⟨τ, hτ, hh⟩ := hk k hkm
      rcases hok.1 τ hτ with rfl | hle
      · exact Or.inr hh
      · exact Or.inl (Srt.le_sound hle hh)
    · cases hok

/-- a well-sorted rule, applied to values of the types of its right-hand side, yields a value of the type of its
    origin -/
theorem ruleOK_sound {M : Logic} {T : Tables} {r : Rule} {vals : List Val} {v : Val}
    (hok : ruleOK M T r = true) (ht : Typed M T (r.rhs.map (·.name)) vals) (hv : ruleValue r vals = .ok v) :
    ∃ ty, symTy M T r.origin = some ty ∧ ty.holds v = true := by
  unfold ruleOK at hok
  simp only [Bool.and_eq_true] at hok
  obtain ⟨_, hok⟩ := hok
  split at hok
  · next l σ hl hty =>
    simp only [Bool.and_eq_true, List.all_eq_true] at hok
    refine ⟨_, hty, ?_⟩
    simp only [ruleValue, hok.1, if_true, Except.ok.injEq] at hv
    subst hv
    simp only [VTy.holds, List.all_eq_true]
    intro i hi
    obtain ⟨τ, hτ, hh⟩ := children_sorts M T _ _ _ hl ht i hi
    exact Srt.le_sound (hok.2 τ hτ) hh
  · next l σ hl hty =>
    simp only [Bool.and_eq_true, Bool.not_eq_true'] at hok
    refine ⟨_, hty, ?_⟩
    simp only [ruleValue, hok.1, Bool.false_eq_true, ↓reduceIte] at hv
    split at hv
    · next i hi =>
      cases hv
      exact cbOK_sound hok.2 (children_sorts M T _ _ _ hl ht) hi
    · cases hv
  · cases hok

/-- in a table whose rules are well-sorted, every derivation yields values of the types of its symbols -/
theorem derivesSeq_typed {M : Logic} {T : Tables} (hG : ∀ r ∈ T.rules, ruleOK M T r = true)
    {xs : List String} {toks : List Token} {vs : List Val} (h : DerivesSeq T xs toks vs) : Typed M T xs vs := by
  induction h with
  | nil => trivial
  | term t hm _ ih =>
    refine ⟨⟨.item .tok, ?_, rfl⟩, ih⟩
    simp [symTy, hm]
  | rule r hr _ hv _ ih₁ ih₂ => exact ⟨ruleOK_sound (hG r hr) ih₁ hv, ih₂⟩

theorem mem_startSyms {T : Tables} {i : Nat} {x : String} (h : T.action i x = some (.shift T.accept)) :
    x ∈ T.startSyms := by
  obtain ⟨row, hrow, hmem⟩ := action_mem h
  simp only [Tables.startSyms, List.mem_flatMap, List.mem_filterMap]
  exact ⟨row, List.mem_of_getElem? hrow, (x, .shift T.accept), hmem, by simp⟩

/-- MAIN THEOREM of §4: in a checked grammar, a formula derived from a symbol leading to acceptance is a formula of
    the logic -/
theorem derives_inLogic {M : Logic} {T : Tables} (hG : grammarOK M T = true) {x : String}
    (hx : x ∈ T.startSyms) {toks : List Token} {f : Fm} (h : Derives T x toks (.item (.fm f))) :
    Fm.inLogic M f = true := by
  simp only [grammarOK, Bool.and_eq_true, List.all_eq_true] at hG
  have ht := derivesSeq_typed (M := M) hG.1 h
  obtain ⟨⟨ty, hty, hv⟩, _⟩ := ht
  have := hG.2 x hx
  rw [hty] at this
  cases ty with
  | item σ =>
    rw [← topSort_holds]
    exact Srt.le_sound this (by simpa [VTy.holds] using hv)
  | list σ => cases this

/-- hence: the parser of a checked grammar returns only formulas of its logic -/
theorem parse_inLogic {M : Logic} {T : Tables} (hG : grammarOK M T = true) {s : List Char} {f : Fm}
    (h : parse T s = .ok f) : Fm.inLogic M f = true := by
  obtain ⟨below, x, t₁, t₂, _, hx, hact, _, _⟩ := parse_ok_gen T s f h
  exact derives_inLogic hG (mem_startSyms hact) hx

end Parser
end PMC
