/-
  C10, totality part: with a checked table the model of the parsers never produces one of its INTERNAL errors
  (`runtimeError`, `indexError`).  Everything is for an arbitrary table `T` under decidable checks:

  * `lexOK T`      no terminal pattern matches the empty string (so the lexer always advances);
  * `lrOK T`       LR consistency of the action/goto table, by a bounded backward search over the table's transitions
                   (`predTable`, built in one pass): for every `reduce r` entry in a state `q`, rule `r` exists, has a non-empty right-hand side `X1…Xk`, every path of `k`
                   transitions of the table into `q` spells `X1…Xk`, and the state at its origin has a goto on the
                   rule's origin; no entry shifts on `$END`;
  * `unitOK T`     the unit productions (`|rhs| = 1`) are acyclic: a rank function on symbols (computed from the rules)
                   strictly decreases from the right-hand side to the origin of every unit rule;
  * `callbacksOK M T`  the shapes of the children handed to each `Transformer` callback (read off the rule's
                   right-hand side with the sort assignment of `grammarOK`) are shapes on which the callback is defined.
-/
import PMC.Proofs.ParserSound

namespace PMC
namespace Parser

/-! ## §1 the checks -/

/-- a pattern that cannot match the empty string -/
def Pattern.nonEmpty : Pattern → Bool
  | .lit text => !text.toList.isEmpty
  | _ => true

/-- no terminal matches the empty string -/
def lexOK (T : Tables) : Bool := T.terminals.all fun t => t.pat.nonEmpty

/-- predecessor table: bucket `q` holds the transitions `(source state, symbol)` of the table into state `q` -/
abbrev PredTable := List (List (Nat × String))

def bucket : PredTable → Nat → List (Nat × String)
  | [], _ => []
  | l :: _, 0 => l
  | _ :: ls, s + 1 => bucket ls s

def addPred : Nat → (Nat × String) → PredTable → PredTable
  | 0, px, [] => [[px]]
  | 0, px, l :: ls => (px :: l) :: ls
  | s + 1, px, [] => [] :: addPred s px []
  | s + 1, px, l :: ls => l :: addPred s px ls

def addRow (p : Nat) : List (String × Action) → PredTable → PredTable
  | [], P => P
  | (x, .shift s) :: row, P => addRow p row (addPred s (p, x) P)
  | (_, .reduce _) :: row, P => addRow p row P

def addRows : Nat → List (List (String × Action)) → PredTable → PredTable
  | _, [], P => P
  | p, row :: rows, P => addRows (p + 1) rows (addRow p row P)

/-- the predecessor table of `T`, in one pass over the action/goto table -/
def predTable (T : Tables) : PredTable := addRows 0 T.table []

/-- every path of the table into `q` spells `xs` backwards (`xs` = the right-hand side, last symbol first), is not cut
    short by the bottom of the stack, and starts in a state with a goto on `A` -/
def backOK (T : Tables) (P : PredTable) (A : String) : List String → Nat → Bool
  | [], q =>
    match T.action q A with
    | some (.shift _) => true
    | _ => false
  | x :: xs, q => q != T.start && (bucket P q).all fun py => py.2 == x && backOK T P A xs py.1

/-- the check of a reduction by rule number `r` in state `q` -/
def reduceOK (T : Tables) (P : PredTable) (q r : Nat) : Bool :=
  match T.rules[r]? with
  | some rule => !rule.rhs.isEmpty && backOK T P rule.origin (rule.rhs.map (·.name)).reverse q
  | none => false

/-- the rules by which a row reduces, each once -/
def rowReduces (row : List (String × Action)) : List Nat :=
  (row.filterMap fun xa =>
    match xa.2 with
    | .reduce r => some r
    | .shift _ => none).eraseDups

/-- a shift is not on `$END` -/
def shiftOK (xa : String × Action) : Bool :=
  match xa.2 with
  | .shift _ => xa.1 != endSym
  | .reduce _ => true

def lrOKWith (T : Tables) (P : PredTable) : Bool :=
  T.table.zipIdx.all fun ri => ri.1.all shiftOK && (rowReduces ri.1).all (reduceOK T P ri.2)

def lrOK (T : Tables) : Bool := lrOKWith T (predTable T)

/-- length of the longest chain of unit productions upwards from `x` (cut at `fuel`) -/
def unitHeight (T : Tables) : Nat → String → Nat
  | 0, _ => 0
  | fuel + 1, x =>
    T.rules.foldl (fun m r =>
      match r.rhs with
      | [y] => if y.name = x then max m (unitHeight T fuel r.origin + 1) else m
      | _ => m) 0

/-- rank of a symbol: the number of unit reductions that can follow when it is on top of the stack -/
def urank (T : Tables) (x : String) : Nat := unitHeight T T.rules.length x

def unitOK (T : Tables) : Bool :=
  T.rules.all fun r =>
    match r.rhs with
    | [y] => urank T r.origin < urank T y.name
    | _ => true

/-- shape of the children contributed by one symbol of a right-hand side -/
inductive KShape where
  | one (σ : Srt)
  | many (σ : Srt)
  deriving DecidableEq, Repr

def KShape.isFm : KShape → Bool
  | .one σ | .many σ => σ != .tok

def KShape.isOne : KShape → Bool
  | .one _ => true
  | .many _ => false

def kidShapes (M : Logic) (T : Tables) : List Sym → Option (List KShape)
  | [] => some []
  | s :: ss =>
    match symTy M T s.name, kidShapes M T ss with
    | some (.item σ), some l => some (if s.isTerm && s.filterOut then l else .one σ :: l)
    | some (.list σ), some l => some (.many σ :: l)
    | _, _ => none

def unaryNames : List String :=
  ["not_formula", "forall_formula", "exists_formula", "next_formula", "eventually_formula", "globally_formula"]
def binaryNames : List String := ["imply_formula", "until_formula", "release_formula"]
def naryNames : List String := ["or_formula", "and_formula"]

/-- the first child is a kept token -/
def atomShape : List KShape → Bool
  | .one .tok :: _ => true
  | _ => false

/-- exactly one child, a formula -/
def unaryShape : List KShape → Bool
  | [.one σ] => σ != .tok
  | _ => false

/-- exactly two children, formulas -/
def binaryShape : List KShape → Bool
  | [.one σ, .one τ] => σ != .tok && τ != .tok
  | _ => false

/-- the callback `name` is defined on children of the shapes `l` -/
def cbTotal (name : String) (l : List KShape) : Bool :=
  if name ∈ ["true", "false"] then true
  else if name ∈ ["string", "e_string"] then atomShape l
  else if isPass name then l.any (·.isOne)
  else if name ∈ unaryNames then unaryShape l
  else if name ∈ binaryNames then binaryShape l
  else if name ∈ naryNames then l.all (·.isFm)
  else false

def ruleTotal (M : Logic) (T : Tables) (r : Rule) : Bool :=
  r.inline ||
  match kidShapes M T r.rhs with
  | some l => cbTotal r.callback l
  | none => false

def callbacksOK (M : Logic) (T : Tables) : Bool := T.rules.all (ruleTotal M T)

/-- THE PER-TABLE OBLIGATION of the totality theorem (besides `grammarOK M T`) -/
def tableOK (M : Logic) (T : Tables) : Bool := lexOK T && lrOK T && unitOK T && callbacksOK M T

/-! ## §2 the lexer always advances -/

/-- the model's internal errors -/
def _root_.PMC.Err.internal (e : Err) : Prop := e = .runtimeError ∨ e = .indexError

theorem matchAt_nonEmpty (p : Pattern) (hp : p.nonEmpty = true) (s m r : List Char)
    (h : p.matchAt s = some (m, r)) : m ≠ [] := by
  cases p with
  | lit text =>
    simp only [Pattern.matchAt] at h
    split at h
    · cases h
      simpa [Pattern.nonEmpty] using hp
    · cases h
  | ident =>
    simp only [Pattern.matchAt] at h
    split at h
    · split at h
      · cases h; simp
      · cases h
    · cases h
  | escapedString =>
    simp only [Pattern.matchAt] at h
    split at h
    · split at h
      · cases h; simp
      · cases h
    · cases h
  | ws =>
    simp only [Pattern.matchAt] at h
    split at h
    · split at h
      · cases h; simp
      · cases h
    · cases h

/-- with non-empty patterns the lexer's fuel (one more than the length of the input) is never exhausted, and a token
    consumes at least one character -/
theorem nextToken_total (T : Tables) (hL : lexOK T = true) (st : Nat) : ∀ (fuel : Nat) (s : List Char) (pos : Nat),
    s.length < fuel →
    (∀ e, nextToken T st fuel s pos = .error e → ¬ e.internal) ∧
    (∀ look rest pos', nextToken T st fuel s pos = .ok (look, rest, pos') →
      rest.length ≤ s.length ∧ (look.isSome = true → rest.length < s.length))
  | 0, _, _, hf => by omega
  | fuel + 1, [], pos, _ => by
    refine ⟨fun e h => ?_, fun look rest pos' h => ?_⟩
    · simp [nextToken] at h
    · simp only [nextToken, Except.ok.injEq, Prod.mk.injEq] at h
      obtain ⟨rfl, rfl, rfl⟩ := h
      simp
  | fuel + 1, c :: cs, pos, hf => by
    refine ⟨fun e h => ?_, fun look rest pos' h => ?_⟩
    · simp only [nextToken] at h
      split at h
      · next t m r hl =>
        have hs := lexAt_spec _ _ _ _ _ hl
        have hcat := matchAt_spec _ _ _ _ hs.2
        have hne := matchAt_nonEmpty _ (List.all_eq_true.mp hL t (allowed_subset T st hs.1)) _ _ _ hs.2
        have hlen : (c :: cs).length = m.length + r.length := by rw [hcat, List.length_append]
        have hm : 0 < m.length := List.length_pos_iff.mpr hne
        split at h
        · exact (nextToken_total T hL st fuel r (pos + m.length) (by omega)).1 e h
        · cases h
      · split at h
        · cases h; rintro (h | h) <;> cases h
        · cases h; rintro (h | h) <;> cases h
    · simp only [nextToken] at h
      split at h
      · next t m r hl =>
        have hs := lexAt_spec _ _ _ _ _ hl
        have hcat := matchAt_spec _ _ _ _ hs.2
        have hne := matchAt_nonEmpty _ (List.all_eq_true.mp hL t (allowed_subset T st hs.1)) _ _ _ hs.2
        have hlen : (c :: cs).length = m.length + r.length := by rw [hcat, List.length_append]
        have hm : 0 < m.length := List.length_pos_iff.mpr hne
        split at h
        · have ih := (nextToken_total T hL st fuel r (pos + m.length) (by omega)).2 look rest pos' h
          exact ⟨by omega, fun hl' => by have := ih.2 hl'; omega⟩
        · simp only [Except.ok.injEq, Prod.mk.injEq] at h
          obtain ⟨rfl, rfl, rfl⟩ := h
          exact ⟨by omega, fun _ => by omega⟩
      · split at h <;> cases h

/-! ## §3 the stack is a path of the automaton -/

/-- every entry of the stack was entered by the transition of the table on its symbol from the state below -/
def PathOK (T : Tables) : List Entry → Prop
  | [] => True
  | e :: es => T.action (topState T es) e.sym = some (.shift e.state) ∧ PathOK T es

theorem mem_zipIdx_of_action {T : Tables} {q : Nat} {x : String} {a : Action} (h : T.action q x = some a) :
    ∃ row, (row, q) ∈ T.table.zipIdx ∧ (x, a) ∈ row := by
  obtain ⟨row, hrow, hmem⟩ := action_mem h
  refine ⟨row, ?_, hmem⟩
  rw [List.mem_zipIdx_iff_getElem?]; simpa using hrow

theorem addPred_self : ∀ (s : Nat) (px : Nat × String) (P : PredTable), px ∈ bucket (addPred s px P) s
  | 0, px, [] => by simp [addPred, bucket]
  | 0, px, l :: ls => by simp [addPred, bucket]
  | s + 1, px, [] => by simpa [addPred, bucket] using addPred_self s px []
  | s + 1, px, l :: ls => by simpa [addPred, bucket] using addPred_self s px ls

theorem addPred_mono : ∀ (s : Nat) (px : Nat × String) (P : PredTable) (s' : Nat) (px' : Nat × String),
    px' ∈ bucket P s' → px' ∈ bucket (addPred s px P) s'
  | _, _, [], _, _, h => by simp [bucket] at h
  | 0, px, l :: ls, 0, px', h => by
    simp only [addPred, bucket] at h ⊢
    exact List.mem_cons_of_mem _ h
  | 0, px, l :: ls, s' + 1, px', h => by simpa [addPred, bucket] using h
  | s + 1, px, l :: ls, 0, px', h => by simpa [addPred, bucket] using h
  | s + 1, px, l :: ls, s' + 1, px', h => by
    simp only [addPred, bucket] at h ⊢
    exact addPred_mono s px ls s' px' h

theorem addRow_mono (p : Nat) : ∀ (row : List (String × Action)) (P : PredTable) (s' : Nat) (px' : Nat × String),
    px' ∈ bucket P s' → px' ∈ bucket (addRow p row P) s'
  | [], _, _, _, h => h
  | (_, .shift _) :: row, _, s', px', h => addRow_mono p row _ s' px' (addPred_mono _ _ _ _ _ h)
  | (_, .reduce _) :: row, P, s', px', h => addRow_mono p row P s' px' h

theorem addRow_mem (p : Nat) : ∀ (row : List (String × Action)) (P : PredTable) (x : String) (s : Nat),
    (x, Action.shift s) ∈ row → (p, x) ∈ bucket (addRow p row P) s
  | [], _, _, _, h => by simp at h
  | (x', .shift s') :: row, P, x, s, h => by
    rcases List.mem_cons.mp h with heq | h
    · cases heq
      exact addRow_mono p row _ _ _ (addPred_self _ _ _)
    · exact addRow_mem p row _ x s h
  | (x', .reduce _) :: row, P, x, s, h => by
    rcases List.mem_cons.mp h with heq | h
    · cases heq
    · exact addRow_mem p row P x s h

theorem addRows_mono : ∀ (p : Nat) (rows : List (List (String × Action))) (P : PredTable) (s' : Nat)
    (px' : Nat × String), px' ∈ bucket P s' → px' ∈ bucket (addRows p rows P) s'
  | _, [], _, _, _, h => h
  | p, row :: rows, P, s', px', h => addRows_mono (p + 1) rows _ s' px' (addRow_mono p row P s' px' h)

theorem addRows_mem : ∀ (p0 : Nat) (rows : List (List (String × Action))) (P : PredTable) (i : Nat)
    (row : List (String × Action)) (x : String) (s : Nat),
    rows[i]? = some row → (x, Action.shift s) ∈ row → (p0 + i, x) ∈ bucket (addRows p0 rows P) s
  | _, [], _, _, _, _, _, h, _ => by simp at h
  | p0, row' :: rows, P, 0, row, x, s, h, hm => by
    simp only [List.getElem?_cons_zero, Option.some.injEq] at h
    subst h
    exact addRows_mono (p0 + 1) rows _ s _ (addRow_mem p0 row' P x s hm)
  | p0, row' :: rows, P, i + 1, row, x, s, h, hm => by
    have := addRows_mem (p0 + 1) rows (addRow p0 row' P) i row x s (by simpa using h) hm
    have e : p0 + 1 + i = p0 + (i + 1) := by omega
    rw [e] at this
    exact this

/-- the predecessor table contains every transition of the table -/
theorem mem_predTable {T : Tables} {p q : Nat} {y : String} (h : T.action p y = some (.shift q)) :
    (p, y) ∈ bucket (predTable T) q := by
  obtain ⟨row, hrow, hmem⟩ := action_mem h
  have := addRows_mem 0 T.table [] p row y q hrow hmem
  simpa [predTable] using this

theorem backOK_sound (T : Tables) (P : PredTable)
    (hP : ∀ p y q, T.action p y = some (.shift q) → (p, y) ∈ bucket P q) (A : String) :
    ∀ (xs : List String) (stack : List Entry),
    PathOK T stack → backOK T P A xs (topState T stack) = true →
    xs.length ≤ stack.length ∧ (stack.take xs.length).map (·.sym) = xs ∧
      ∃ st, T.action (topState T (stack.drop xs.length)) A = some (.shift st)
  | [], stack, _, h => by
    refine ⟨by simp, by simp, ?_⟩
    simp only [backOK] at h
    split at h
    · next st hst => exact ⟨st, by simpa using hst⟩
    · cases h
  | x :: xs, [], _, h => by
    simp [backOK, topState] at h
  | x :: xs, e :: es, hp, h => by
    simp only [backOK, topState, Bool.and_eq_true, List.all_eq_true] at h
    have := h.2 _ (hP _ _ _ hp.1)
    simp only [beq_iff_eq] at this
    obtain ⟨hlen, hsyms, hgoto⟩ := backOK_sound T P hP A xs es hp.2 this.2
    refine ⟨by simpa using hlen, ?_, by simpa using hgoto⟩
    simp [this.1, hsyms]

theorem PathOK.drop (T : Tables) : ∀ (k : Nat) (stack : List Entry), PathOK T stack → PathOK T (stack.drop k)
  | 0, _, h => by simpa using h
  | _ + 1, [], _ => by simp [PathOK]
  | k + 1, _ :: es, h => by simpa using PathOK.drop T k es h.2

/-! ## §4 the callbacks are defined on the children the grammar produces -/

/-- the children `kids` have the shapes `l`, in order -/
def Matches : List KShape → List Item → Prop
  | [], kids => kids = []
  | .one σ :: l, kids => ∃ k ks, kids = k :: ks ∧ σ.holds k = true ∧ Matches l ks
  | .many σ :: l, kids => ∃ ks₁ ks₂, kids = ks₁ ++ ks₂ ∧ (∀ k ∈ ks₁, σ.holds k = true) ∧ Matches l ks₂

theorem children_matches (M : Logic) (T : Tables) : ∀ (rhs : List Sym) (vals : List Val) (l : List KShape),
    kidShapes M T rhs = some l → Typed M T (rhs.map (·.name)) vals → Matches l (children rhs vals)
  | [], [], l, hk, _ => by
    simp only [kidShapes, Option.some.injEq] at hk; subst hk; simp [Matches, children]
  | [], _ :: _, _, _, ht => by simp [Typed] at ht
  | _ :: _, [], _, _, ht => by simp [Typed] at ht
  | s :: ss, v :: vs, l, hk, ht => by
    simp only [List.map_cons, Typed] at ht
    obtain ⟨⟨ty, hty, hv⟩, htl⟩ := ht
    simp only [kidShapes, hty] at hk
    cases ty with
    | item σ =>
      split at hk
      · next σ' l' heq hl' =>
        cases heq; cases hk
        have ih := children_matches M T ss vs l' hl' htl
        cases v with
        | item j =>
          simp only [children]
          split
          · simpa using ih
          · exact ⟨j, _, rfl, by simpa [VTy.holds] using hv, ih⟩
        | spliced js => simp [VTy.holds] at hv
      · next heq _ => cases heq
      · next h1 h2 =>
        cases hks : kidShapes M T ss with
        | none => simp at hk
        | some l' => exact absurd hks (h1 σ l' rfl)
    | list σ =>
      split at hk
      · next heq _ => cases heq
      · next σ' l' heq hl' =>
        cases heq; cases hk
        have ih := children_matches M T ss vs l' hl' htl
        cases v with
        | item j => simp [VTy.holds] at hv
        | spliced js =>
          simp only [children]
          refine ⟨js, _, rfl, ?_, ih⟩
          simpa [VTy.holds] using hv
      · next h1 h2 =>
        cases hks : kidShapes M T ss with
        | none => simp at hk
        | some l' => exact absurd hks (h2 σ l' rfl)

theorem fm_of_holds {σ : Srt} {k : Item} (hσ : σ ≠ .tok) (h : σ.holds k = true) : ∃ f, k = .fm f := by
  cases k with
  | fm f => exact ⟨f, rfl⟩
  | tok ty tx => cases σ <;> simp_all [Srt.holds]

theorem formulas_of_all_fm : ∀ (kids : List Item), (∀ k ∈ kids, ∃ f, k = .fm f) → ∃ fs, formulas kids = some fs
  | [], _ => ⟨[], rfl⟩
  | k :: ks, h => by
    obtain ⟨f, rfl⟩ := h k List.mem_cons_self
    obtain ⟨fs, hfs⟩ := formulas_of_all_fm ks (fun k hk => h k (List.mem_cons_of_mem _ hk))
    exact ⟨f :: fs, by simp [formulas, hfs]⟩

theorem Matches.all_fm : ∀ (l : List KShape) (kids : List Item), Matches l kids → l.all (·.isFm) = true →
    ∀ k ∈ kids, ∃ f, k = .fm f
  | [], kids, hm, _, k, hk => by simp only [Matches] at hm; subst hm; simp at hk
  | .one σ :: l, kids, hm, hl, k, hk => by
    obtain ⟨k', ks, rfl, hh, hm'⟩ := hm
    simp only [List.all_cons, Bool.and_eq_true, KShape.isFm, bne_iff_ne, ne_eq] at hl
    rcases List.mem_cons.mp hk with rfl | hk
    · exact fm_of_holds hl.1 hh
    · exact Matches.all_fm l ks hm' hl.2 k hk
  | .many σ :: l, kids, hm, hl, k, hk => by
    obtain ⟨ks₁, ks₂, rfl, hh, hm'⟩ := hm
    simp only [List.all_cons, Bool.and_eq_true, KShape.isFm, bne_iff_ne, ne_eq] at hl
    rcases List.mem_append.mp hk with hk | hk
    · exact fm_of_holds hl.1 (hh k hk)
    · exact Matches.all_fm l ks₂ hm' hl.2 k hk

theorem Matches.ne_nil : ∀ (l : List KShape) (kids : List Item), Matches l kids → l.any (·.isOne) = true →
    kids ≠ []
  | [], _, _, hl => by simp at hl
  | .one σ :: l, kids, hm, _ => by
    obtain ⟨k', ks, rfl, _, _⟩ := hm
    simp
  | .many σ :: l, kids, hm, hl => by
    obtain ⟨ks₁, ks₂, rfl, _, hm'⟩ := hm
    simp only [List.any_cons, KShape.isOne, Bool.false_or] at hl
    have := Matches.ne_nil l ks₂ hm' hl
    simp [this]

theorem unary_total (c : Fm → Fm) {l : List KShape} {kids : List Item} (hm : Matches l kids)
    (hl : unaryShape l = true) : ∃ i, unary c kids = .ok i := by
  rcases l with _ | ⟨a, _ | ⟨b, l⟩⟩
  · simp [unaryShape] at hl
  · cases a with
    | many σ => simp [unaryShape] at hl
    | one σ =>
      obtain ⟨k, ks, rfl, hh, hm'⟩ := hm
      simp only [Matches] at hm'; subst hm'
      obtain ⟨f, rfl⟩ := fm_of_holds (by simpa [unaryShape] using hl) hh
      exact ⟨.fm (c f), by simp [unary, formulas]⟩
  · simp [unaryShape] at hl

theorem binary_total (c : Fm → Fm → Fm) {l : List KShape} {kids : List Item} (hm : Matches l kids)
    (hl : binaryShape l = true) : ∃ i, binary c kids = .ok i := by
  rcases l with _ | ⟨a, _ | ⟨b, _ | ⟨d, l⟩⟩⟩
  · simp [binaryShape] at hl
  · simp [binaryShape] at hl
  · cases a with
    | many σ => simp [binaryShape] at hl
    | one σ =>
      cases b with
      | many τ => simp [binaryShape] at hl
      | one τ =>
        obtain ⟨k, ks, rfl, hh, hm'⟩ := hm
        obtain ⟨k', ks', rfl, hh', hm''⟩ := hm'
        simp only [Matches] at hm''; subst hm''
        simp only [binaryShape, Bool.and_eq_true, bne_iff_ne, ne_eq] at hl
        obtain ⟨f, rfl⟩ := fm_of_holds hl.1 hh
        obtain ⟨g, rfl⟩ := fm_of_holds hl.2 hh'
        exact ⟨.fm (c f g), by simp [binary, formulas]⟩
  · simp [binaryShape] at hl

theorem nary_total (c : List Fm → Fm) {l : List KShape} {kids : List Item} (hm : Matches l kids)
    (hl : l.all (·.isFm) = true) : ∃ i, nary c kids = .ok i := by
  obtain ⟨fs, hfs⟩ := formulas_of_all_fm kids (Matches.all_fm l kids hm hl)
  exact ⟨.fm (c fs), by simp [nary, hfs]⟩

/-- the callback `name` succeeds on children of shapes it is declared total on -/
theorem cbTotal_sound {name : String} {l : List KShape} {kids : List Item} (hok : cbTotal name l = true)
    (hm : Matches l kids) : ∃ i, callback name kids = .ok i := by
  unfold cbTotal at hok
  split at hok
  · next hn =>
    simp only [List.mem_cons, List.not_mem_nil, or_false] at hn
    rcases hn with rfl | rfl <;> exact ⟨_, by simp only [callback]; rfl⟩
  split at hok
  · next hn =>
    simp only [List.mem_cons, List.not_mem_nil, or_false] at hn
    rcases l with _ | ⟨a, l⟩
    · simp [atomShape] at hok
    · cases a with
      | many σ => simp [atomShape] at hok
      | one σ =>
        cases σ <;> simp [atomShape] at hok
        obtain ⟨k, ks, rfl, hh, _⟩ := hm
        cases k with
        | tok ty tx => rcases hn with rfl | rfl <;> exact ⟨_, by simp only [callback]; rfl⟩
        | fm f => simp [Srt.holds] at hh
  split at hok
  · next hp =>
    have hne := Matches.ne_nil l kids hm hok
    obtain ⟨k, ks, rfl⟩ := List.exists_cons_of_ne_nil hne
    simp only [isPass, List.mem_cons, List.not_mem_nil, or_false, decide_eq_true_eq] at hp
    rcases hp with rfl | rfl | rfl | rfl | rfl | rfl <;> exact ⟨_, by simp only [callback]; rfl⟩
  split at hok
  · next hn =>
    simp only [unaryNames, List.mem_cons, List.not_mem_nil, or_false] at hn
    rcases hn with rfl | rfl | rfl | rfl | rfl | rfl <;>
    · simp only [callback]; exact unary_total _ hm hok
  split at hok
  · next hn =>
    simp only [binaryNames, List.mem_cons, List.not_mem_nil, or_false] at hn
    rcases hn with rfl | rfl | rfl <;>
    · simp only [callback]; exact binary_total _ hm hok
  split at hok
  · next hn =>
    simp only [naryNames, List.mem_cons, List.not_mem_nil, or_false] at hn
    rcases hn with rfl | rfl <;>
    · simp only [callback]; exact nary_total _ hm hok
  · cases hok

theorem ruleTotal_sound {M : Logic} {T : Tables} {r : Rule} {vals : List Val} (hok : ruleTotal M T r = true)
    (ht : Typed M T (r.rhs.map (·.name)) vals) : ∃ v, ruleValue r vals = .ok v := by
  unfold ruleValue
  cases hi : r.inline with
  | true => exact ⟨.spliced (children r.rhs vals), by simp⟩
  | false =>
    simp only [ruleTotal, hi, Bool.false_or] at hok
    split at hok
    · next l hl =>
      obtain ⟨i, hi'⟩ := cbTotal_sound hok (children_matches M T _ _ _ hl ht)
      exact ⟨.item i, by simp [hi']⟩
    · cases hok

/-! ## §5 one reduction -/

/-- the value of a stack entry has the type of its symbol -/
def EntryTyped (M : Logic) (T : Tables) (e : Entry) : Prop :=
  ∃ ty, symTy M T e.sym = some ty ∧ ty.holds e.val = true

theorem typed_of_entries {M : Logic} {T : Tables} : ∀ (l : List Entry), (∀ e ∈ l, EntryTyped M T e) →
    Typed M T (l.map (·.sym)) (l.map (·.val))
  | [], _ => by simp [Typed]
  | e :: es, h => by
    simp only [List.map_cons, Typed]
    exact ⟨h e List.mem_cons_self, typed_of_entries es (fun e' he' => h e' (List.mem_cons_of_mem _ he'))⟩

theorem tableOK_parts {M : Logic} {T : Tables} (h : tableOK M T = true) :
    lexOK T = true ∧ lrOK T = true ∧ unitOK T = true ∧ callbacksOK M T = true := by
  simpa [tableOK, and_assoc] using h

theorem shiftOK_of_action {T : Tables} (hLR : lrOK T = true) {q st : Nat} {x : String}
    (h : T.action q x = some (.shift st)) : x ≠ endSym := by
  obtain ⟨row, hrow, hmem⟩ := mem_zipIdx_of_action h
  simp only [lrOK, lrOKWith, List.all_eq_true, Bool.and_eq_true] at hLR
  have := (hLR (row, q) hrow).1 (x, .shift st) hmem
  simpa [shiftOK] using this

theorem reduceOK_of_action {T : Tables} (hLR : lrOK T = true) {q r : Nat} {x : String}
    (h : T.action q x = some (.reduce r)) : reduceOK T (predTable T) q r = true := by
  obtain ⟨row, hrow, hmem⟩ := mem_zipIdx_of_action h
  simp only [lrOK, lrOKWith, List.all_eq_true, Bool.and_eq_true] at hLR
  refine (hLR (row, q) hrow).2 r ?_
  simp only [rowReduces, List.mem_eraseDups, List.mem_filterMap]
  exact ⟨(x, .reduce r), hmem, rfl⟩

/-- in a checked table, on a stack that is a typed path of the automaton, every reduction the table asks for
    succeeds -/
theorem reduce_total {M : Logic} {T : Tables} (hG : grammarOK M T = true) (hT : tableOK M T = true)
    {stack : List Entry} {x : String} {r : Nat}
    (hact : T.action (topState T stack) x = some (.reduce r))
    (hpath : PathOK T stack) (htyped : ∀ e ∈ stack, EntryTyped M T e) :
    ∃ rule v st, T.rules[r]? = some rule ∧ rule ∈ T.rules ∧ rule.rhs ≠ [] ∧ rule.rhs.length ≤ stack.length ∧
      (stack.take rule.rhs.length).reverse.map (·.sym) = rule.rhs.map (·.name) ∧
      EntryTyped M T ⟨st, rule.origin, v⟩ ∧
      T.action (topState T (stack.drop rule.rhs.length)) rule.origin = some (.shift st) ∧
      reduce T stack r = .ok (⟨st, rule.origin, v⟩ :: stack.drop rule.rhs.length) := by
  obtain ⟨hL, hLR, hU, hC⟩ := tableOK_parts hT
  have he := reduceOK_of_action hLR hact
  simp only [reduceOK] at he
  split at he
  · next rule hr =>
    simp only [Bool.and_eq_true, Bool.not_eq_true', List.isEmpty_eq_false_iff] at he
    obtain ⟨hne, hback⟩ := he
    obtain ⟨hlen, hsyms, st, hgoto⟩ := backOK_sound T _ (fun _ _ _ => mem_predTable) rule.origin _ stack hpath hback
    simp only [List.length_reverse, List.length_map] at hlen hsyms hgoto
    have hsyms' : (stack.take rule.rhs.length).reverse.map (·.sym) = rule.rhs.map (·.name) := by
      rw [List.map_reverse, hsyms, List.reverse_reverse]
    have hmem : rule ∈ T.rules := List.mem_of_getElem? hr
    have htp : Typed M T (rule.rhs.map (·.name)) ((stack.take rule.rhs.length).reverse.map (·.val)) := by
      rw [← hsyms']
      exact typed_of_entries _ (fun e he => htyped e (List.mem_of_mem_take (List.mem_reverse.mp he)))
    obtain ⟨v, hv⟩ := ruleTotal_sound (List.all_eq_true.mp hC rule hmem) htp
    have hGr : ruleOK M T rule = true := by
      simp only [grammarOK, Bool.and_eq_true, List.all_eq_true] at hG
      exact hG.1 rule hmem
    refine ⟨rule, v, st, hr, hmem, hne, hlen, hsyms', ruleOK_sound hGr htp hv, hgoto, ?_⟩
    rw [reduce_eq]
    simp only [hr]
    rw [if_neg (by simp [hsyms'])]
    simp only [hv, hgoto]
  · cases he

/-- the value entering the accept state is a formula -/
theorem accept_value {M : Logic} {T : Tables} (hG : grammarOK M T = true) {i st : Nat} {x : String} {v : Val}
    (hact : T.action i x = some (.shift T.accept)) (hty : EntryTyped M T ⟨st, x, v⟩) : ∃ f, v = .item (.fm f) := by
  simp only [grammarOK, Bool.and_eq_true, List.all_eq_true] at hG
  have := hG.2 x (mem_startSyms hact)
  obtain ⟨ty, hsy, hv⟩ := hty
  simp only at hsy hv
  rw [hsy] at this
  cases ty with
  | list σ => simp at this
  | item σ =>
    simp only at this
    cases v with
    | spliced _ => simp [VTy.holds] at hv
    | item i =>
      simp only [VTy.holds] at hv
      have hσ : σ ≠ .tok := by rintro rfl; cases M <;> simp [Srt.le, topSort] at this
      obtain ⟨f, rfl⟩ := fm_of_holds hσ hv
      exact ⟨f, rfl⟩

/-! ## §6 the fuel of `run` suffices -/

theorem foldl_le_of {α : Type} (f : Nat → α → Nat) (B : Nat) (hf : ∀ m a, m ≤ B → f m a ≤ B) :
    ∀ (l : List α) (m : Nat), m ≤ B → l.foldl f m ≤ B
  | [], _, h => h
  | a :: l, m, h => by simpa using foldl_le_of f B hf l (f m a) (hf m a h)

theorem unitHeight_le (T : Tables) : ∀ (fuel : Nat) (x : String), unitHeight T fuel x ≤ fuel
  | 0, _ => by simp [unitHeight]
  | fuel + 1, x => by
    simp only [unitHeight]
    apply foldl_le_of _ _ _ _ _ (Nat.zero_le _)
    intro m r hm
    split
    · split
      · have := unitHeight_le T fuel r.origin; omega
      · exact hm
    · exact hm

theorem urank_le (T : Tables) (x : String) : urank T x ≤ T.rules.length := unitHeight_le T _ x

def lookLen : Option Token → Nat
  | some _ => 1
  | none => 0

def topRank (T : Tables) : List Entry → Nat
  | [] => 0
  | e :: _ => urank T e.sym

/-- the potential: every step of `run` decreases it.  A shift consumes at least one character (counted twice) and
    lengthens the stack by one; a reduction by a rule with two or more symbols shortens the stack; a unit reduction
    lowers the rank of the symbol on top. -/
def pot (T : Tables) (c : Config) : Nat :=
  (2 * (c.rest.length + lookLen c.look) + c.stack.length) * (T.rules.length + 2) + topRank T c.stack

theorem pot_lt {a a' K r r' : Nat} (ha : a' < a) (hr : r' < K) : a' * K + r' < a * K + r := by
  have : (a' + 1) * K ≤ a * K := Nat.mul_le_mul_right K ha
  rw [Nat.add_mul, Nat.one_mul] at this
  omega

theorem topRank_lt (T : Tables) (stack : List Entry) : topRank T stack < T.rules.length + 2 := by
  cases stack with
  | nil => simp [topRank]
  | cons e es => have := urank_le T e.sym; simp only [topRank]; omega

/-- MAIN LEMMA: in a checked table, from a configuration whose stack is a typed path of the automaton and whose
    potential is below the fuel, `run` does not end with an internal error -/
theorem run_total {M : Logic} {T : Tables} (hG : grammarOK M T = true) (hT : tableOK M T = true) :
    ∀ (fuel : Nat) (c : Config) (e : Err), run T fuel c = .error e →
    PathOK T c.stack → (∀ en ∈ c.stack, EntryTyped M T en) → (∀ t, c.look = some t → t.type ∈ T.termNames) →
    pot T c < fuel → ¬ e.internal
  | 0, _, _, _, _, _, _, hp => by omega
  | fuel + 1, c, e, h, hpath, htyped, hlook, hpot => by
    obtain ⟨hL, hLR, hU, hC⟩ := tableOK_parts hT
    simp only [run] at h
    split at h
    · split at h <;> (cases h; rintro (h | h) <;> cases h)
    · next st hact =>
      split at h
      · next hnone =>
        exfalso
        rw [hnone] at hact
        exact shiftOK_of_action hLR hact rfl
      · next t ht =>
        rw [ht] at hact
        split at h
        · next e' he => cases h; exact (nextToken_total T hL st _ _ _ (by omega)).1 _ he
        · next look rest pos hn =>
          have sp := nextToken_ok T st _ _ _ _ _ _ hn
          have pr := (nextToken_total T hL st _ _ _ (by omega)).2 _ _ _ hn
          refine run_total hG hT fuel _ e h ?_ ?_ ?_ (Nat.lt_of_lt_of_le ?_ (Nat.le_of_lt_succ hpot))
          · exact ⟨hact, hpath⟩
          · intro en hen
            rcases List.mem_cons.mp hen with rfl | hen
            · exact ⟨.item .tok, by simp [symTy, hlook t ht], rfl⟩
            · exact htyped en hen
          · intro t' ht'; exact (sp.2.1 t' ht').2.2.2
          · simp only [pot, topRank, List.length_cons, ht, lookLen]
            apply pot_lt
            · cases look with
              | none => simp only; omega
              | some t' => have := pr.2 rfl; simp only; omega
            · have := urank_le T t.type; omega
    · next r hact =>
      obtain ⟨rule, v, st, hr, hmem, hne, hlen, hsyms, hty, hgoto, hred⟩ := reduce_total hG hT hact hpath htyped
      rw [hred] at h
      simp only at h
      split at h
      · next hacc =>
        simp only [Bool.and_eq_true, Option.isNone_iff_eq_none, topState, beq_iff_eq] at hacc
        rw [hacc.2] at hty hgoto
        obtain ⟨f, rfl⟩ := accept_value hG hgoto hty
        simp at h
      · refine run_total hG hT fuel _ e h ⟨hgoto, ?_⟩ ?_ hlook ?_
        · exact PathOK.drop T _ _ hpath
        · intro en hen
          rcases List.mem_cons.mp hen with rfl | hen
          · exact hty
          · exact htyped en (List.mem_of_mem_drop hen)
        · refine Nat.lt_of_lt_of_le ?_ (Nat.le_of_lt_succ hpot)
          simp only [pot, topRank, List.length_cons, List.length_drop]
          rcases Nat.lt_or_ge 1 rule.rhs.length with hk | hk
          · apply pot_lt
            · omega
            · have := urank_le T rule.origin; omega
          · have hk1 : rule.rhs.length = 1 := by have := List.length_pos_iff.mpr hne; omega
            obtain ⟨y, hy⟩ := List.length_eq_one_iff.mp hk1
            have hu := List.all_eq_true.mp hU rule hmem
            rw [hy] at hu hsyms
            simp only [decide_eq_true_eq] at hu
            cases hst : c.stack with
            | nil => rw [hst] at hlen; simp [hk1] at hlen
            | cons en es =>
              rw [hst] at hsyms
              simp only [List.length_singleton, List.take_succ_cons, List.take_zero, List.reverse_singleton,
                List.map_cons, List.map_nil, List.cons.injEq, and_true] at hsyms
              rw [hk1]
              simp only [List.length_cons, hsyms]
              have : es.length + 1 - 1 + 1 = es.length + 1 := by omega
              rw [this]
              omega

/-! ## §7 `parse` -/

/-- TOTALITY: with a checked table no error of `parse` is internal -/
theorem parse_total {M : Logic} {T : Tables} (hG : grammarOK M T = true) (hT : tableOK M T = true)
    (s : List Char) (e : Err) (h : parse T s = .error e) : ¬ e.internal := by
  obtain ⟨hL, _⟩ := tableOK_parts hT
  unfold parse at h
  split at h
  · next e' he => cases h; exact (nextToken_total T hL _ _ _ _ (by omega)).1 _ he
  · next look rest pos hn =>
    have sp := nextToken_ok T _ _ _ _ _ _ _ hn
    have pr := (nextToken_total T hL _ _ _ _ (by omega)).2 _ _ _ hn
    refine run_total hG hT _ _ e h trivial (by simp) (fun t ht => (sp.2.1 t ht).2.2.2) ?_
    have hle : rest.length + lookLen look ≤ s.length := by
      cases look with
      | none => simpa [lookLen] using pr.1
      | some t => have := pr.2 rfl; simp only [lookLen]; omega
    have := pot_lt (a := 2 * s.length + 2) (a' := 2 * (rest.length + lookLen look) + 0)
      (K := T.rules.length + 2) (r := 0) (r' := 0) (by omega) (by omega)
    simpa [pot, fuelFor, topRank] using this

theorem parse_no_internal_error {M : Logic} {T : Tables} (hG : grammarOK M T = true) (hT : tableOK M T = true)
    (s : List Char) : parse T s ≠ .error .runtimeError ∧ parse T s ≠ .error .indexError :=
  ⟨fun h => parse_total hG hT s _ h (Or.inl rfl), fun h => parse_total hG hT s _ h (Or.inr rfl)⟩

/-- with a checked table `parse` returns a formula or one of the two errors of the real parsers, at a position of
    the input -/
theorem parse_only_parser_errors {M : Logic} {T : Tables} (hG : grammarOK M T = true) (hT : tableOK M T = true)
    (s : List Char) :
    (∃ f, parse T s = .ok f) ∨
    ∃ p, p ≤ s.length ∧ (parse T s = .error (.unexpectedToken p) ∨ parse T s = .error (.unexpectedCharacters p)) := by
  cases h : parse T s with
  | ok f => exact Or.inl ⟨f, rfl⟩
  | error e =>
    right
    have hk := parse_error T s e h
    have hi := parse_total hG hT s e h
    cases e with
    | unexpectedToken p =>
      have : p < s.length ∨ p = 0 := hk
      exact ⟨p, by omega, Or.inl rfl⟩
    | unexpectedCharacters p =>
      have : p < s.length := hk
      exact ⟨p, by omega, Or.inr rfl⟩
    | runtimeError => exact absurd (Or.inl rfl) hi
    | indexError => exact absurd (Or.inr rfl) hi
    | _ => exact hk.elim

end Parser
end PMC
