import Mathlib.Logic.Relation
import Mathlib.Data.Fintype.Pigeonhole
import Mathlib.Data.Set.Finite.Basic

open Relation

namespace PMC.Core
variable {σ : Type}

def IsPath (R : σ → σ → Prop) (π : ℕ → σ) : Prop := ∀ i, R (π i) (π (i+1))

/-- restrict a relation to a predicate on both ends -/
def Restr (R : σ → σ → Prop) (P : σ → Prop) : σ → σ → Prop := fun a b => P a ∧ P b ∧ R a b

theorem path_reach {R : σ → σ → Prop} {π : ℕ → σ} (h : IsPath R π) (i j : ℕ) (hij : i ≤ j) :
    ReflTransGen R (π i) (π j) := by
  induction j, hij using Nat.le_induction with
  | base => exact .refl
  | succ k _ ih => exact ih.tail (h k)

theorem path_transgen {R : σ → σ → Prop} {π : ℕ → σ} (h : IsPath R π) (i j : ℕ) (hij : i < j) :
    TransGen R (π i) (π j) := by
  have := path_reach h (i+1) j hij
  exact TransGen.head' (h i) this

/-- total relation: every state starts an infinite path -/
theorem exists_path_of_total {R : σ → σ → Prop} (htot : ∀ s, ∃ t, R s t) (s : σ) :
    ∃ π, IsPath R π ∧ π 0 = s := by
  choose f hf using htot
  refine ⟨fun n => f^[n] s, ?_, rfl⟩
  intro i
  simp only [Function.iterate_succ_apply']
  exact hf _

/-- a cycle through c gives an infinite path from c staying on the cycle -/
theorem exists_path_of_cycle {R : σ → σ → Prop} {c : σ} (hc : TransGen R c c) :
    ∃ π, IsPath R π ∧ π 0 = c := by
  -- work in the subtype of states reachable from c and reaching c; R is total there
  let S := {x : σ // ReflTransGen R c x ∧ TransGen R x c}
  let R' : S → S → Prop := fun a b => R a.1 b.1
  have htot : ∀ a : S, ∃ b : S, R' a b := by
    rintro ⟨x, hcx, hxc⟩
    rcases TransGen.head'_iff.mp hxc with ⟨y, hxy, hyc⟩
    rcases hyc.cases_head with h | ⟨z, hyz, hzc⟩
    · subst h
      exact ⟨⟨y, .refl, hc⟩, hxy⟩
    · exact ⟨⟨y, hcx.tail hxy, TransGen.head' hyz hzc⟩, hxy⟩
  obtain ⟨π, hπ, h0⟩ := exists_path_of_total htot ⟨c, .refl, hc⟩
  exact ⟨fun i => (π i).1, fun i => hπ i, by simp [h0]⟩

/-- EG core: an infinite P-path from s exists iff s reaches, inside P, a state on a P-cycle. -/
theorem eg_core [Finite σ] (R : σ → σ → Prop) (P : σ → Prop) (s : σ) :
    (∃ π, IsPath R π ∧ π 0 = s ∧ ∀ i, P (π i)) ↔
    (∃ c, ReflTransGen (Restr R P) s c ∧ TransGen (Restr R P) c c) := by
  constructor
  · rintro ⟨π, hπ, h0, hP⟩
    have hπ' : IsPath (Restr R P) π := fun i => ⟨hP i, hP (i+1), hπ i⟩
    obtain ⟨i, j, hij, heq⟩ := Finite.exists_ne_map_eq_of_infinite π
    rcases Nat.lt_or_gt_of_ne hij with h | h
    · refine ⟨π i, ?_, ?_⟩
      · rw [← h0]; exact path_reach hπ' 0 i (Nat.zero_le _)
      · have := path_transgen hπ' i j h
        rwa [← heq] at this
    · refine ⟨π j, ?_, ?_⟩
      · rw [← h0]; exact path_reach hπ' 0 j (Nat.zero_le _)
      · have := path_transgen hπ' j i h
        rwa [heq] at this
  · rintro ⟨c, hsc, hcc⟩
    obtain ⟨ρ, hρ, hρ0⟩ := exists_path_of_cycle hcc
    -- prefix from s to c: induct on the reflexive-transitive closure from the head
    induction hsc using ReflTransGen.head_induction_on with
    | refl =>
      refine ⟨ρ, fun i => (hρ i).2.2, hρ0, fun i => (hρ i).1⟩
    | @head a c' hab _ ih =>
      obtain ⟨π, hπ, h0, hP⟩ := ih
      refine ⟨fun n => Nat.casesOn n a π, ?_, rfl, ?_⟩
      · intro i
        cases i with
        | zero => simpa [h0] using hab.2.2
        | succ k => exact hπ k
      · intro i
        cases i with
        | zero => exact hab.1
        | succ k => exact hP k
end PMC.Core
