/-
  Printing (CTL* notation) is injective also over the atom names that `CTLS.removeState` generates: an atom is
  either an identifier-style non-reserved name (`Fm.wfName`) or a *bracket name* `[` b `]` with `b` balanced with
  respect to `[`/`]` (`GenName`).  The decoder of PMC/Proofs/PrintDecode.lean is extended by one clause: on `[` it
  reads up to the matching `]` (`closeBr`) and returns the atom.  All lemmas of PrintDecode that are generic in the
  recursive parser (`step_word`, `wordCase_*`, `paren_print`, `many_print`) are reused.
-/
import PMC.Model.Syntax
import PMC.Proofs.PrintDecode
import Mathlib.Tactic
set_option linter.unusedSimpArgs false
namespace PMC
namespace PrintBracket
open Fm PrintDecode

/-! ### bracket matching -/

/-- read up to the `]` that closes nesting depth `d`; returns (consumed text including that `]`, rest) -/
def closeBr : Nat → List Char → Option (List Char × List Char)
  | _, [] => none
  | d, c :: cs =>
    if c = ']' then
      (if d = 0 then some ([']'], cs) else (closeBr (d-1) cs).map (fun p => (c :: p.1, p.2)))
    else if c = '[' then (closeBr (d+1) cs).map (fun p => (c :: p.1, p.2))
    else (closeBr d cs).map (fun p => (c :: p.1, p.2))

/-- balanced text: the bracket scanner passes over it at any depth -/
def Bal (b : List Char) : Prop :=
  ∀ d rest, closeBr d (b ++ rest) = (closeBr d rest).map (fun p => (b ++ p.1, p.2))

theorem bal_nil : Bal [] := by
  intro d rest
  show closeBr d rest = Option.map _ (closeBr d rest)
  cases closeBr d rest <;> simp

theorem bal_cons {c : Char} {b : List Char} (h1 : c ≠ '[') (h2 : c ≠ ']') (hb : Bal b) : Bal (c :: b) := by
  intro d rest
  have e : (c :: b) ++ rest = c :: (b ++ rest) := rfl
  rw [e, closeBr, if_neg h2, if_neg h1, hb d rest]
  cases closeBr d rest <;> simp

theorem bal_append {a b : List Char} (ha : Bal a) (hb : Bal b) : Bal (a ++ b) := by
  intro d rest
  rw [List.append_assoc, ha d (b ++ rest), hb d rest]
  cases closeBr d rest <;> simp

theorem bal_wrap {b : List Char} (hb : Bal b) : Bal ('[' :: (b ++ [']'])) := by
  intro d rest
  have e : ('[' :: (b ++ [']'])) ++ rest = '[' :: (b ++ (']' :: rest)) := by simp
  have h1 : ('[' : Char) ≠ ']' := by decide
  rw [e, closeBr, if_neg h1, if_pos rfl, hb (d+1) (']' :: rest)]
  rw [closeBr, if_pos rfl, if_neg (Nat.succ_ne_zero d), Nat.add_sub_cancel]
  cases closeBr d rest <;> simp

theorem bal_of_noBr {l : List Char} (h : ∀ c ∈ l, c ≠ '[' ∧ c ≠ ']') : Bal l := by
  induction l with
  | nil => exact bal_nil
  | cons c l ih =>
    exact bal_cons (h c (by simp)).1 (h c (by simp)).2 (ih (fun d hd => h d (List.mem_cons_of_mem _ hd)))

theorem closeBr_bal {b : List Char} (hb : Bal b) (rest : List Char) :
    closeBr 0 (b ++ ']' :: rest) = some (b ++ [']'], rest) := by
  rw [hb 0 (']' :: rest), closeBr, if_pos rfl, if_pos rfl]
  simp

/-- a bracket name: `[` balanced `]` -/
def GenName (n : String) : Prop := ∃ b, n.toList = '[' :: (b ++ [']']) ∧ Bal b

/-- the atom names over which printing is injective -/
def GoodName (n : String) : Prop := wfName n = true ∨ GenName n

def GoodAtoms (f : Fm) : Prop := ∀ n ∈ f.atoms, GoodName n

theorem genName_bal {n : String} (h : GenName n) : Bal n.toList := by
  obtain ⟨b, hn, hb⟩ := h
  rw [hn]; exact bal_wrap hb

theorem wfName_noBr {n : String} (h : wfName n = true) : ∀ c ∈ n.toList, c ≠ '[' ∧ c ≠ ']' := by
  obtain ⟨⟨c, cs, hn, hc, hcs⟩, _⟩ := wfName_spec h
  intro d hd
  have hid : isIdentChar d = true := by
    rw [hn] at hd
    rcases List.mem_cons.mp hd with rfl | h'
    · exact identStart_identChar hc
    · exact hcs d h'
  constructor
  · rintro rfl; exact absurd hid (by decide)
  · rintro rfl; exact absurd hid (by decide)

theorem goodName_bal {n : String} (h : GoodName n) : Bal n.toList := by
  rcases h with h | h
  · exact bal_of_noBr (wfName_noBr h)
  · exact genName_bal h

theorem genName_not_wf {n : String} (h : GenName n) : wfName n = false := by
  obtain ⟨b, hn, _⟩ := h
  cases hw : wfName n with
  | false => rfl
  | true =>
    have := (wfName_noBr hw '[' (by rw [hn]; simp)).1
    exact absurd rfl this

/-! ### the extended decoder -/

def step2 (p : Parser) (k : Nat) (s : List Char) : Option (Fm × List Char) :=
  match s with
  | [] => none
  | c :: s1 =>
    if c = '[' then
      match closeBr 0 s1 with
      | some (w, r) => some (.ap (String.ofList ('[' :: w)), r)
      | none => none
    else step false p k s

def unprint2 : Nat → Parser
  | 0 => fun _ => none
  | fuel+1 => step2 (unprint2 fuel) fuel

theorem step2_word (p : Parser) (k : Nat) {w r : List Char} (hw : w ≠ [])
    (hn : ∀ d ∈ w, isIdentChar d = true) (hb : Boundary r) :
    step2 p k (w ++ r) = wordCase false p w r := by
  rw [← step_word false p k hw hn hb]
  cases w with
  | nil => exact absurd rfl hw
  | cons c cs =>
    have hc : c ≠ '[' := by
      intro h; subst h; exact absurd (hn '[' (by simp)) (by decide)
    show step2 p k (c :: (cs ++ r)) = _
    simp only [step2, if_neg hc]
    rfl

theorem step2_paren (p : Parser) (k : Nat) (r : List Char) :
    step2 p k ('(' :: r) = parenCase p k r := by
  have h : ('(' : Char) ≠ '[' := by decide
  simp only [step2, if_neg h]
  exact step_paren false p k r

theorem step2_gen (p : Parser) (k : Nat) {n : String} (h : GenName n) (rest : List Char) :
    step2 p k (n.toList ++ rest) = some (.ap n, rest) := by
  obtain ⟨b, hn, hb⟩ := h
  have e : n.toList ++ rest = '[' :: (b ++ ']' :: rest) := by rw [hn]; simp
  rw [e]
  simp only [step2, if_pos, closeBr_bal hb rest]
  rw [← hn, String.ofList_toList]

/-! ### print, then decode -/

def Dec2 (f : Fm) : Prop :=
  ∀ fuel, depth f ≤ fuel → ∀ rest, Bnd rest → unprint2 fuel (printL false f ++ rest) = some (f, rest)

theorem dec2_ap (n : String) (h : GoodName n) : Dec2 (.ap n) := by
  intro fuel hd rest hb
  obtain ⟨k, rfl⟩ : ∃ k, fuel = k + 1 := ⟨fuel - 1, by simp [depth] at hd; omega⟩
  show step2 (unprint2 k) k (n.toList ++ rest) = _
  rcases h with h | h
  · obtain ⟨⟨c, cs, hn, hc, hcs⟩, _⟩ := wfName_spec h
    have hall : ∀ d ∈ n.toList, isIdentChar d = true := by
      rw [hn]; intro d hd'
      rcases List.mem_cons.mp hd' with rfl | h'
      · exact identStart_identChar hc
      · exact hcs d h'
    rw [step2_word _ k (by rw [hn]; simp) hall hb.boundary]
    rcases classify_wf h with hk | ⟨q, t, hq, ht, hw, hk⟩
    · simp only [wordCase, hk, String.ofList_toList]
    · simp [wordCase, hk, String.ofList_toList]
  · exact step2_gen _ k h rest

theorem dec2_not (f : Fm) (ih : Dec2 f) : Dec2 (.not f) := by
  intro fuel hd rest hb
  obtain ⟨k, rfl⟩ : ∃ k, fuel = k + 1 := ⟨fuel - 1, by simp [depth] at hd; omega⟩
  have i1 := ih k (by simp [depth] at hd; omega) rest hb
  have e : printL false (.not f) ++ rest = ['n', 'o', 't'] ++ (' ' :: (printL false f ++ rest)) := by
    simp [printL]
  show step2 (unprint2 k) k _ = _
  rw [e, step2_word _ k (by simp) (by decide) (boundary_space _), wordCase_not, i1]
  rfl

theorem dec2_un (u : Un) (f : Fm) (ih : Dec2 f) : ∀ fuel, depth f + 1 ≤ fuel → ∀ rest, Bnd rest →
      unprint2 fuel (unL false u (printL false f) ++ rest) = some (u.build f, rest) := by
  intro fuel hd rest hb
  obtain ⟨k, rfl⟩ : ∃ k, fuel = k + 1 := ⟨fuel - 1, by omega⟩
  have hk : depth f ≤ k := by omega
  have hu : ∀ d ∈ [u.ch], isIdentChar d = true := by simpa using un_isIdent u
  show step2 (unprint2 k) k _ = _
  have i1 := ih k hk (')' :: rest) (Bnd.rpar rest)
  have e : unL false u (printL false f) ++ rest = [u.ch] ++ ('(' :: (printL false f ++ ')' :: rest)) := by
    simp [unL]
  rw [e, step2_word _ k (by simp) hu (boundary_lpar _), wordCase_un_star]
  simp only [closeCase, i1]

theorem dec2_bin (o : Op) (f g : Fm) (gs : List Fm) (hn : o.nary = false → gs = [])
    (ihf : Dec2 f) (ihg : Dec2 g) (ihs : ∀ h ∈ gs, Dec2 h) :
    ∀ fuel, depth.depthL (f :: g :: gs) + gs.length + 2 ≤ fuel → ∀ rest, Bnd rest →
      unprint2 fuel ('(' :: (printL false f ++ (o.str ++ (printL false g ++
        (tailL o.str (gs.map (printL false)) ++ ')' :: rest))))) = some (o.build f g gs, rest) := by
  intro fuel hd rest hb
  obtain ⟨k, rfl⟩ : ∃ k, fuel = k + 1 := ⟨fuel - 1, by omega⟩
  simp only [depth.depthL] at hd
  show step2 (unprint2 k) k _ = _
  rw [step2_paren]
  apply paren_print (unprint2 k) k o (printL false) f g gs rest
  · exact fun r hr => ihf k (by omega) r hr
  · exact fun r hr => ihg k (by omega) r hr
  · intro h hh r hr
    have := depth_le_depthL hh
    exact ihs h hh k (by omega) r hr
  · omega
  · exact hn

theorem dec2_nary (o : Op) (ho : o.nary = true) (fs : List Fm) (h2 : 2 ≤ fs.length)
    (ih : ∀ f ∈ fs, Dec2 f) :
    ∃ f g gs, fs = f :: g :: gs ∧ ∀ fuel, depth.depthL fs + fs.length + 1 ≤ fuel → ∀ rest, Bnd rest →
      unprint2 fuel (naryL o.word (printL.printLs false fs) ++ rest) = some (o.build f g gs, rest) := by
  match fs, h2, ih with
  | f :: g :: gs, _, ih =>
    refine ⟨f, g, gs, rfl, ?_⟩
    intro fuel hd rest hb
    have e : naryL o.word (printL.printLs false (f :: g :: gs)) ++ rest
        = '(' :: (printL false f ++ (o.str ++ (printL false g ++
            (tailL o.str (gs.map (printL false)) ++ ')' :: rest)))) := by
      simp [printLs_eq_map, naryL, joinL_cons, tailL, Op.str]
    rw [e]
    exact dec2_bin o f g gs (fun h => by rw [ho] at h; cases h) (ih f (by simp)) (ih g (by simp))
      (fun h hh => ih h (by simp [hh])) fuel (by simp at hd; omega) rest hb

theorem mem_atomsList {fs : List Fm} {n : String} : n ∈ Fm.atoms.atomsList fs ↔ ∃ f ∈ fs, n ∈ f.atoms := by
  induction fs with
  | nil => simp [Fm.atoms.atomsList]
  | cons f fs ih => simp [Fm.atoms.atomsList, ih]

theorem goodAtoms_list {fs : List Fm} (h : ∀ n ∈ Fm.atoms.atomsList fs, GoodName n) :
    ∀ f ∈ fs, GoodAtoms f :=
  fun f hf n hn => h n (mem_atomsList.mpr ⟨f, hf, hn⟩)

theorem unprint2_print : ∀ f : Fm, GoodAtoms f → f.arityOK = true → Dec2 f := by
  intro f
  induction f using Fm.indList with
  | tt =>
    intro _ _ fuel hd rest hb
    obtain ⟨k, rfl⟩ : ∃ k, fuel = k + 1 := ⟨fuel - 1, by simp [depth] at hd; omega⟩
    show step2 (unprint2 k) k (['t', 'r', 'u', 'e'] ++ rest) = _
    rw [step2_word _ k (by simp) (by decide) hb.boundary, wordCase_tt]
  | ff =>
    intro _ _ fuel hd rest hb
    obtain ⟨k, rfl⟩ : ∃ k, fuel = k + 1 := ⟨fuel - 1, by simp [depth] at hd; omega⟩
    show step2 (unprint2 k) k (['f', 'a', 'l', 's', 'e'] ++ rest) = _
    rw [step2_word _ k (by simp) (by decide) hb.boundary, wordCase_ff]
  | ap n =>
    intro hw _
    exact dec2_ap n (hw n (by simp [atoms]))
  | not f ih =>
    intro hw ha
    exact dec2_not f (ih (fun n hn => hw n (by simpa [atoms] using hn)) (by simpa [arityOK] using ha))
  | or fs ih =>
    intro hw ha
    simp only [arityOK, Bool.and_eq_true, decide_eq_true_eq, arityOKList_iff] at ha
    have hw' := goodAtoms_list (fs := fs) (fun n hn => hw n (by simpa [atoms] using hn))
    obtain ⟨f, g, gs, rfl, hdec⟩ := dec2_nary .or rfl fs ha.1 (fun f hf => ih f hf (hw' f hf) (ha.2 f hf))
    exact hdec
  | and fs ih =>
    intro hw ha
    simp only [arityOK, Bool.and_eq_true, decide_eq_true_eq, arityOKList_iff] at ha
    have hw' := goodAtoms_list (fs := fs) (fun n hn => hw n (by simpa [atoms] using hn))
    obtain ⟨f, g, gs, rfl, hdec⟩ := dec2_nary .and rfl fs ha.1 (fun f hf => ih f hf (hw' f hf) (ha.2 f hf))
    exact hdec
  | imp f g ihf ihg =>
    intro hw ha
    simp only [arityOK, Bool.and_eq_true] at ha
    have df := ihf (fun n hn => hw n (by simp [atoms, hn])) ha.1
    have dg := ihg (fun n hn => hw n (by simp [atoms, hn])) ha.2
    intro fuel hd rest hb
    have := dec2_bin .imp f g [] (fun _ => rfl) df dg (by simp) fuel
      (by simp only [depth, depth.depthL, List.length_nil] at hd ⊢; omega) rest hb
    simpa [printL, binL, tailL, Op.build] using this
  | U f g ihf ihg =>
    intro hw ha
    simp only [arityOK, Bool.and_eq_true] at ha
    have df := ihf (fun n hn => hw n (by simp [atoms, hn])) ha.1
    have dg := ihg (fun n hn => hw n (by simp [atoms, hn])) ha.2
    intro fuel hd rest hb
    have := dec2_bin .U f g [] (fun _ => rfl) df dg (by simp) fuel
      (by simp only [depth, depth.depthL, List.length_nil] at hd ⊢; omega) rest hb
    simpa [printL, binL, tailL, Op.build] using this
  | R f g ihf ihg =>
    intro hw ha
    simp only [arityOK, Bool.and_eq_true] at ha
    have df := ihf (fun n hn => hw n (by simp [atoms, hn])) ha.1
    have dg := ihg (fun n hn => hw n (by simp [atoms, hn])) ha.2
    intro fuel hd rest hb
    have := dec2_bin .R f g [] (fun _ => rfl) df dg (by simp) fuel
      (by simp only [depth, depth.depthL, List.length_nil] at hd ⊢; omega) rest hb
    simpa [printL, binL, tailL, Op.build] using this
  | X f ih =>
    intro hw ha
    exact dec2_un .X f (ih (fun n hn => hw n (by simpa [atoms] using hn)) (by simpa [arityOK] using ha))
  | F f ih =>
    intro hw ha
    exact dec2_un .F f (ih (fun n hn => hw n (by simpa [atoms] using hn)) (by simpa [arityOK] using ha))
  | G f ih =>
    intro hw ha
    exact dec2_un .G f (ih (fun n hn => hw n (by simpa [atoms] using hn)) (by simpa [arityOK] using ha))
  | A f ih =>
    intro hw ha
    exact dec2_un .A f (ih (fun n hn => hw n (by simpa [atoms] using hn)) (by simpa [arityOK] using ha))
  | E f ih =>
    intro hw ha
    exact dec2_un .E f (ih (fun n hn => hw n (by simpa [atoms] using hn)) (by simpa [arityOK] using ha))

/-- **printing is injective over identifier-style and bracket atom names** -/
theorem print_injective_good (f g : Fm) (hf : GoodAtoms f) (hg : GoodAtoms g)
    (af : f.arityOK = true) (ag : g.arityOK = true) (h : f.print = g.print) : f = g := by
  have hL : printL false f = printL false g := by
    rw [← print_toList, ← print_toList, h]
  have e1 := unprint2_print f hf af (max (depth f) (depth g)) (le_max_left _ _) [] Bnd.nil
  have e2 := unprint2_print g hg ag (max (depth f) (depth g)) (le_max_right _ _) [] Bnd.nil
  rw [hL, e2] at e1
  injection e1 with e1; injection e1 with e1 _; exact e1.symm

/-! ### printed text is balanced -/

theorem bal_lit {l : List Char} (h : (l.all fun c => c != '[' && c != ']') = true) : Bal l := by
  apply bal_of_noBr
  intro c hc
  have := List.all_eq_true.mp h c hc
  simpa using this

theorem bal_tailL {sep : List Char} (hs : Bal sep) {ss : List (List Char)} (h : ∀ s ∈ ss, Bal s) :
    Bal (tailL sep ss) := by
  induction ss with
  | nil => exact bal_nil
  | cons s ss ih =>
    exact bal_append hs (bal_append (h s (by simp)) (ih (fun t ht => h t (List.mem_cons_of_mem _ ht))))

theorem bal_naryL {sym : List Char} (hs : (sym.all fun c => c != '[' && c != ']') = true)
    {ss : List (List Char)} (h : ∀ s ∈ ss, Bal s) : Bal (naryL sym ss) := by
  have hsep : Bal (' ' :: (sym ++ [' '])) :=
    bal_cons (by decide) (by decide) (bal_append (bal_lit hs) (bal_lit (by decide)))
  unfold naryL
  split
  · exact bal_append (bal_lit hs) (bal_cons (by decide) (by decide) (h _ (by simp)))
  · cases ss with
    | nil => exact bal_lit (by simp [joinL])
    | cons s ss =>
      rw [joinL_cons]
      exact bal_cons (by decide) (by decide)
        (bal_append (bal_append (h s (by simp)) (bal_tailL hsep (fun t ht => h t (List.mem_cons_of_mem _ ht))))
          (bal_lit (by decide)))

theorem bal_printL : ∀ f : Fm, GoodAtoms f → Bal (printL false f) := by
  intro f
  induction f using Fm.indList with
  | tt => intro _; exact bal_lit (by decide)
  | ff => intro _; exact bal_lit (by decide)
  | ap n => intro hw; exact goodName_bal (hw n (by simp [atoms]))
  | not f ih =>
    intro hw
    exact bal_append (bal_lit (by decide)) (ih (fun n hn => hw n (by simpa [atoms] using hn)))
  | or fs ih =>
    intro hw
    have hw' := goodAtoms_list (fs := fs) (fun n hn => hw n (by simpa [atoms] using hn))
    simp only [printL, printLs_eq_map]
    exact bal_naryL (by decide) (by
      intro s hs
      obtain ⟨f, hf, rfl⟩ := List.mem_map.mp hs
      exact ih f hf (hw' f hf))
  | and fs ih =>
    intro hw
    have hw' := goodAtoms_list (fs := fs) (fun n hn => hw n (by simpa [atoms] using hn))
    simp only [printL, printLs_eq_map]
    exact bal_naryL (by decide) (by
      intro s hs
      obtain ⟨f, hf, rfl⟩ := List.mem_map.mp hs
      exact ih f hf (hw' f hf))
  | imp f g ihf ihg =>
    intro hw
    have df := ihf (fun n hn => hw n (by simp [atoms, hn]))
    have dg := ihg (fun n hn => hw n (by simp [atoms, hn]))
    exact bal_cons (by decide) (by decide)
      (bal_append df (bal_append (bal_lit (by decide)) (bal_append dg (bal_lit (by decide)))))
  | U f g ihf ihg =>
    intro hw
    have df := ihf (fun n hn => hw n (by simp [atoms, hn]))
    have dg := ihg (fun n hn => hw n (by simp [atoms, hn]))
    exact bal_cons (by decide) (by decide)
      (bal_append df (bal_append (bal_lit (by decide)) (bal_append dg (bal_lit (by decide)))))
  | R f g ihf ihg =>
    intro hw
    have df := ihf (fun n hn => hw n (by simp [atoms, hn]))
    have dg := ihg (fun n hn => hw n (by simp [atoms, hn]))
    exact bal_cons (by decide) (by decide)
      (bal_append df (bal_append (bal_lit (by decide)) (bal_append dg (bal_lit (by decide)))))
  | X f ih =>
    intro hw
    exact bal_cons (by decide) (by decide) (bal_cons (by decide) (by decide)
      (bal_append (ih (fun n hn => hw n (by simpa [atoms] using hn))) (bal_lit (by decide))))
  | F f ih =>
    intro hw
    exact bal_cons (by decide) (by decide) (bal_cons (by decide) (by decide)
      (bal_append (ih (fun n hn => hw n (by simpa [atoms] using hn))) (bal_lit (by decide))))
  | G f ih =>
    intro hw
    exact bal_cons (by decide) (by decide) (bal_cons (by decide) (by decide)
      (bal_append (ih (fun n hn => hw n (by simpa [atoms] using hn))) (bal_lit (by decide))))
  | A f ih =>
    intro hw
    exact bal_cons (by decide) (by decide) (bal_cons (by decide) (by decide)
      (bal_append (ih (fun n hn => hw n (by simpa [atoms] using hn))) (bal_lit (by decide))))
  | E f ih =>
    intro hw
    exact bal_cons (by decide) (by decide) (bal_cons (by decide) (by decide)
      (bal_append (ih (fun n hn => hw n (by simpa [atoms] using hn))) (bal_lit (by decide))))

#print axioms print_injective_good
end PrintBracket
end PMC
