/-
  A decoder of the printed language of `Fm.print` (CTL* notation, `ctl = false`) and `Fm.printCTL` (CTL notation,
  `ctl = true`), over `List Char`, and the round-trip theorem `unprint ctl fuel (printL ctl f ++ rest) = some (f, rest)`.
  Used by PMC/Proofs/PrintInj.lean to show that the two printers are injective.
-/
import PMC.Model.Syntax
import Mathlib.Tactic
set_option linter.unusedSimpArgs false
namespace PMC
namespace PrintDecode
open Fm

/-! ### induction principle for the nested inductive -/

theorem Fm.indList {P : Fm → Prop}
    (tt : P .tt) (ff : P .ff) (ap : ∀ n, P (.ap n))
    (not : ∀ f, P f → P (.not f))
    (or : ∀ fs, (∀ f ∈ fs, P f) → P (.or fs))
    (and : ∀ fs, (∀ f ∈ fs, P f) → P (.and fs))
    (imp : ∀ f g, P f → P g → P (.imp f g))
    (X : ∀ f, P f → P (.X f)) (F : ∀ f, P f → P (.F f)) (G : ∀ f, P f → P (.G f))
    (U : ∀ f g, P f → P g → P (.U f g)) (R : ∀ f g, P f → P g → P (.R f g))
    (A : ∀ f, P f → P (.A f)) (E : ∀ f, P f → P (.E f)) : ∀ f, P f := by
  intro f
  exact go f
where
  go : ∀ f, P f
    | .tt => tt | .ff => ff | .ap n => ap n
    | .not f => not f (go f)
    | .or fs => or fs (goList fs)
    | .and fs => and fs (goList fs)
    | .imp f g => imp f g (go f) (go g)
    | .X f => X f (go f)
    | .F f => F f (go f)
    | .G f => G f (go f)
    | .U f g => U f g (go f) (go g)
    | .R f g => R f g (go f) (go g)
    | .A f => A f (go f)
    | .E f => E f (go f)
  goList : ∀ fs : List Fm, ∀ f ∈ fs, P f
    | [], _, h => by cases h
    | f :: fs, f', h => by
      rcases List.mem_cons.mp h with h | h
      · exact h ▸ go f
      · exact goList fs f' h

/-! ### the printers over `List Char` -/

/-- binary / n-ary infix operators -/
inductive Op where
  | or | and | imp | U | R
  deriving DecidableEq, Repr

def Op.word : Op → List Char
  | .or => ['o', 'r']
  | .and => ['a', 'n', 'd']
  | .imp => ['-', '-', '>']
  | .U => ['U']
  | .R => ['R']

/-- the separator ` op ` -/
def Op.str (o : Op) : List Char := ' ' :: (o.word ++ [' '])

def Op.nary : Op → Bool
  | .or | .and => true
  | _ => false

def Op.build : Op → Fm → Fm → List Fm → Fm
  | .or, f, g, gs => .or (f :: g :: gs)
  | .and, f, g, gs => .and (f :: g :: gs)
  | .imp, f, g, _ => .imp f g
  | .U, f, g, _ => .U f g
  | .R, f, g, _ => .R f g

/-- prefix operators -/
inductive Un where
  | X | F | G | A | E
  deriving DecidableEq, Repr

def Un.ch : Un → Char
  | .X => 'X' | .F => 'F' | .G => 'G' | .A => 'A' | .E => 'E'

def Un.build : Un → Fm → Fm
  | .X => Fm.X | .F => Fm.F | .G => Fm.G | .A => Fm.A | .E => Fm.E

def Un.quant : Un → Bool
  | .A | .E => true
  | _ => false

/-- `sep ++ s₁ ++ sep ++ s₂ ++ …` -/
def tailL (sep : List Char) : List (List Char) → List Char
  | [] => []
  | s :: ss => sep ++ (s ++ tailL sep ss)

def joinL (sep : List Char) : List (List Char) → List Char
  | [] => []
  | [s] => s
  | s :: ss => s ++ sep ++ joinL sep ss

def naryL (sym : List Char) (ss : List (List Char)) : List Char :=
  match ss with
  | [s] => sym ++ ' ' :: s
  | _ => '(' :: joinL (' ' :: (sym ++ [' '])) ss ++ [')']

def unL (ctl : Bool) (u : Un) (s : List Char) : List Char :=
  if ctl then (if u.quant then u.ch :: s else u.ch :: ' ' :: s) else u.ch :: '(' :: (s ++ [')'])

def binL (o : Op) (s t : List Char) : List Char := '(' :: (s ++ (o.str ++ (t ++ [')'])))

def printL (ctl : Bool) : Fm → List Char
  | .tt => ['t', 'r', 'u', 'e'] | .ff => ['f', 'a', 'l', 's', 'e']
  | .ap n => n.toList
  | .not f => ['n', 'o', 't', ' '] ++ printL ctl f
  | .or fs => naryL Op.or.word (printLs fs)
  | .and fs => naryL Op.and.word (printLs fs)
  | .imp f g => binL .imp (printL ctl f) (printL ctl g)
  | .X f => unL ctl .X (printL ctl f)
  | .F f => unL ctl .F (printL ctl f)
  | .G f => unL ctl .G (printL ctl f)
  | .U f g => binL .U (printL ctl f) (printL ctl g)
  | .R f g => binL .R (printL ctl f) (printL ctl g)
  | .A f => unL ctl .A (printL ctl f)
  | .E f => unL ctl .E (printL ctl f)
where
  printLs : List Fm → List (List Char)
    | [] => []
    | f :: fs => printL ctl f :: printLs fs

/-! ### the decoder -/

abbrev Parser := List Char → Option (Fm × List Char)

/-- classification of a maximal identifier -/
inductive Kind where
  | tt | ff | not
  | un (u : Un)
  | res            -- an infix operator word
  | quant (q t : Un)  -- `AX`, `AF`, `AG`, `EX`, `EF`, `EG`: an operator pair in CTL notation, or an atom
  | empty
  | ident
  deriving DecidableEq, Repr

def classify (w : List Char) : Kind :=
  if w = [] then .empty
  else if w = ['t', 'r', 'u', 'e'] then .tt
  else if w = ['f', 'a', 'l', 's', 'e'] then .ff
  else if w = ['n', 'o', 't'] then .not
  else if w = ['o', 'r'] then .res
  else if w = ['a', 'n', 'd'] then .res
  else if w = ['U'] then .res
  else if w = ['R'] then .res
  else if w = ['X'] then .un .X
  else if w = ['F'] then .un .F
  else if w = ['G'] then .un .G
  else if w = ['A'] then .un .A
  else if w = ['E'] then .un .E
  else if w = ['A', 'X'] then .quant .A .X
  else if w = ['A', 'F'] then .quant .A .F
  else if w = ['A', 'G'] then .quant .A .G
  else if w = ['E', 'X'] then .quant .E .X
  else if w = ['E', 'F'] then .quant .E .F
  else if w = ['E', 'G'] then .quant .E .G
  else .ident

def readOp (s : List Char) : Option (Op × List Char) :=
  match s with
  | ' ' :: 'o' :: 'r' :: ' ' :: r => some (.or, r)
  | ' ' :: 'a' :: 'n' :: 'd' :: ' ' :: r => some (.and, r)
  | ' ' :: '-' :: '-' :: '>' :: ' ' :: r => some (.imp, r)
  | ' ' :: 'U' :: ' ' :: r => some (.U, r)
  | ' ' :: 'R' :: ' ' :: r => some (.R, r)
  | _ => none

/-- strip a literal prefix -/
def expect (lit : List Char) (s : List Char) : Option (List Char) :=
  if lit.isPrefixOf s then some (s.drop lit.length) else none

/-- `sep f sep f …` as long as `sep` follows -/
def many (p : Parser) (sep : List Char) : Nat → List Char → Option (List Fm × List Char)
  | 0, _ => none
  | k+1, s =>
    match expect sep s with
    | none => some ([], s)
    | some s1 =>
      match p s1 with
      | none => none
      | some (f, s2) =>
        match many p sep k s2 with
        | none => none
        | some (fs, s3) => some (f :: fs, s3)

/-- after an opening parenthesis -/
def parenCase (p : Parser) (k : Nat) (s1 : List Char) : Option (Fm × List Char) :=
  match p s1 with
  | none => none
  | some (f, s2) =>
    match readOp s2 with
    | none => none
    | some (o, s3) =>
      match p s3 with
      | none => none
      | some (g, s4) =>
        match (if o.nary then many p o.str k s4 else some ([], s4)) with
        | some (gs, ')' :: s5) => some (o.build f g gs, s5)
        | _ => none

def wrap (c : Fm → Fm) : Option (Fm × List Char) → Option (Fm × List Char)
  | some (f, r) => some (c f, r)
  | none => none

/-- `u(` f `)` -/
def closeCase (p : Parser) (u : Un) (r : List Char) : Option (Fm × List Char) :=
  match r with
  | '(' :: r1 =>
    match p r1 with
    | some (f, ')' :: r2) => some (u.build f, r2)
    | _ => none
  | _ => none

/-- after a maximal identifier `w`, with `r` the remaining input -/
def wordCase (ctl : Bool) (p : Parser) (w r : List Char) : Option (Fm × List Char) :=
  match classify w with
  | .tt => some (.tt, r)
  | .ff => some (.ff, r)
  | .not =>
    match r with
    | ' ' :: r1 => wrap Fm.not (p r1)
    | _ => none
  | .un u =>
    if ctl then
      (if u.quant then wrap u.build (p r)
       else match r with
        | ' ' :: r1 => wrap u.build (p r1)
        | _ => none)
    else closeCase p u r
  | .res => none
  | .empty => none
  | .quant q t =>
    if ctl then
      match p (t.ch :: r) with
      | some (f, r') => some (q.build f, r')
      | none => some (.ap (String.ofList w), r)
    else some (.ap (String.ofList w), r)
  | .ident => some (.ap (String.ofList w), r)

def step (ctl : Bool) (p : Parser) (k : Nat) (s : List Char) : Option (Fm × List Char) :=
  match s with
  | [] => none
  | c :: s1 =>
    if c = '(' then parenCase p k s1
    else wordCase ctl p (s.takeWhile isIdentChar) (s.dropWhile isIdentChar)

/-- deterministic decoder of the printed language (fuel bounds the recursion depth) -/
def unprint (ctl : Bool) : Nat → Parser
  | 0 => fun _ => none
  | fuel+1 => step ctl (unprint ctl fuel) fuel

/-! ### identifiers and boundaries -/

/-- what may follow an identifier: no identifier character -/
def Boundary (rest : List Char) : Prop := ∀ c cs, rest = c :: cs → isIdentChar c = false

/-- what follows a printed formula inside a printed formula -/
inductive Bnd : List Char → Prop
  | nil : Bnd []
  | rpar (r : List Char) : Bnd (')' :: r)
  | op (o : Op) (r : List Char) : Bnd (o.str ++ r)

theorem boundary_nil : Boundary [] := fun _ _ h => by cases h
theorem boundary_space (r : List Char) : Boundary (' ' :: r) := by
  intro c cs h; injection h with h1 _; subst h1; decide
theorem boundary_rpar (r : List Char) : Boundary (')' :: r) := by
  intro c cs h; injection h with h1 _; subst h1; decide
theorem boundary_lpar (r : List Char) : Boundary ('(' :: r) := by
  intro c cs h; injection h with h1 _; subst h1; decide

theorem Bnd.boundary {r : List Char} (h : Bnd r) : Boundary r := by
  cases h with
  | nil => exact boundary_nil
  | rpar r => exact boundary_rpar r
  | op o r => exact boundary_space _

theorem span_ident {n rest : List Char} (hn : ∀ d ∈ n, isIdentChar d = true) (hb : Boundary rest) :
    (n ++ rest).takeWhile isIdentChar = n ∧ (n ++ rest).dropWhile isIdentChar = rest := by
  induction n with
  | nil =>
    cases rest with
    | nil => simp
    | cons c cs => simp [List.takeWhile, List.dropWhile, hb c cs rfl]
  | cons a n ih =>
    have ha := hn a (by simp)
    obtain ⟨h1, h2⟩ := ih (fun d hd => hn d (List.mem_cons_of_mem _ hd))
    simp [List.takeWhile, List.dropWhile, ha, h1, h2]

theorem identStart_identChar {c : Char} (h : isIdentStart c = true) : isIdentChar c = true := by
  simp only [isIdentStart, isIdentChar, Bool.or_eq_true] at h ⊢
  rcases h with h | h
  · left; simp only [Char.isAlphanum, Bool.or_eq_true]; exact Or.inl h
  · exact Or.inr h

/-- on input that starts with a non-empty identifier, `step` reads it and dispatches -/
theorem step_word (ctl : Bool) (p : Parser) (k : Nat) {w r : List Char} (hw : w ≠ [])
    (hn : ∀ d ∈ w, isIdentChar d = true) (hb : Boundary r) :
    step ctl p k (w ++ r) = wordCase ctl p w r := by
  obtain ⟨tw, dw⟩ := span_ident hn hb
  cases w with
  | nil => exact absurd rfl hw
  | cons c cs =>
    have hc : c ≠ '(' := by
      intro h; subst h; exact absurd (hn '(' (by simp)) (by decide)
    have hs : (c :: cs) ++ r = c :: (cs ++ r) := rfl
    rw [hs] at tw dw ⊢
    simp only [step, hc, if_false, tw, dw]

/-- … and on input that starts with another character (not `(`) it fails -/
theorem step_noword (ctl : Bool) (p : Parser) (k : Nat) {c : Char} {r : List Char} (hc : c ≠ '(')
    (hi : isIdentChar c = false) : step ctl p k (c :: r) = none := by
  simp [step, hc, List.takeWhile, hi, wordCase, classify]

theorem step_paren (ctl : Bool) (p : Parser) (k : Nat) (r : List Char) :
    step ctl p k ('(' :: r) = parenCase p k r := by
  simp [step]

/-! ### the dispatch on concrete words -/

theorem wordCase_tt (ctl : Bool) (p : Parser) (r : List Char) :
    wordCase ctl p ['t', 'r', 'u', 'e'] r = some (.tt, r) := by
  have h : classify ['t', 'r', 'u', 'e'] = .tt := by decide
  simp only [wordCase, h]

theorem wordCase_ff (ctl : Bool) (p : Parser) (r : List Char) :
    wordCase ctl p ['f', 'a', 'l', 's', 'e'] r = some (.ff, r) := by
  have h : classify ['f', 'a', 'l', 's', 'e'] = .ff := by decide
  simp only [wordCase, h]

theorem wordCase_not (ctl : Bool) (p : Parser) (r : List Char) :
    wordCase ctl p ['n', 'o', 't'] (' ' :: r) = wrap Fm.not (p r) := by
  have h : classify ['n', 'o', 't'] = .not := by decide
  simp only [wordCase, h]

theorem classify_un (u : Un) : classify [u.ch] = .un u := by
  cases u <;> decide

theorem classify_quant (q t : Un) (hq : q.quant = true) (ht : t.quant = false) :
    classify [q.ch, t.ch] = .quant q t := by
  cases q <;> cases t <;> first | (exact absurd hq (by decide)) | (exact absurd ht (by decide)) | decide

theorem wordCase_un_star (p : Parser) (u : Un) (r : List Char) :
    wordCase false p [u.ch] r = closeCase p u r := by
  simp [wordCase, classify_un]

theorem wordCase_un_ctl_quant (p : Parser) (u : Un) (hu : u.quant = true) (r : List Char) :
    wordCase true p [u.ch] r = wrap u.build (p r) := by
  simp [wordCase, classify_un, hu]

theorem wordCase_un_ctl_temp (p : Parser) (u : Un) (hu : u.quant = false) (r : List Char) :
    wordCase true p [u.ch] (' ' :: r) = wrap u.build (p r) := by
  simp [wordCase, classify_un, hu]

theorem wordCase_quant_ctl (p : Parser) (q t : Un) (hq : q.quant = true) (ht : t.quant = false)
    (r : List Char) (f : Fm) (r' : List Char) (h : p (t.ch :: r) = some (f, r')) :
    wordCase true p [q.ch, t.ch] r = some (q.build f, r') := by
  simp [wordCase, classify_quant q t hq ht, h]

theorem wordCase_res (ctl : Bool) (p : Parser) (o : Op) (ho : o ≠ .imp) (r : List Char) :
    wordCase ctl p o.word r = none := by
  have h : classify o.word = .res := by
    cases o <;> first | (exact absurd rfl ho) | decide
  simp only [wordCase, h]

theorem un_isIdent (u : Un) : isIdentChar u.ch = true := by cases u <;> decide

/-! ### infix operators -/

theorem readOp_str (o : Op) (r : List Char) : readOp (o.str ++ r) = some (o, r) := by
  cases o <;> rfl

theorem expect_append (lit r : List Char) : expect lit (lit ++ r) = some r := by
  simp [expect]

theorem expect_rpar (o : Op) (r : List Char) : expect o.str (')' :: r) = none := by
  cases o <;> simp [expect, Op.str, Op.word, List.isPrefixOf]

theorem word_isIdent (o : Op) (ho : o ≠ .imp) : ∀ d ∈ o.word, isIdentChar d = true := by
  cases o <;> first | (exact absurd rfl ho) | decide

theorem unprint_opword_none (ctl : Bool) (fuel : Nat) (o : Op) (r : List Char) :
    unprint ctl fuel (o.word ++ ' ' :: r) = none := by
  cases fuel with
  | zero => rfl
  | succ k =>
    show step ctl (unprint ctl k) k (o.word ++ ' ' :: r) = none
    by_cases ho : o = .imp
    · subst ho
      exact step_noword ctl _ k (by decide) (by decide)
    · rw [step_word ctl _ k (by cases o <;> simp [Op.word]) (word_isIdent o ho) (boundary_space r)]
      exact wordCase_res ctl _ o ho _

theorem unprint_temp_none (fuel : Nat) (t : Un) (ht : t.quant = false) {rest : List Char} (hb : Bnd rest) :
    unprint true fuel (t.ch :: rest) = none := by
  cases fuel with
  | zero => rfl
  | succ k =>
    show step true (unprint true k) k ([t.ch] ++ rest) = none
    rw [step_word true _ k (by simp) (by simpa using un_isIdent t) hb.boundary]
    cases hb with
    | nil => simp [wordCase, classify_un, ht]
    | rpar r => simp [wordCase, classify_un, ht]
    | op o r =>
      have e : o.str ++ r = ' ' :: (o.word ++ ' ' :: r) := by simp [Op.str]
      rw [e, wordCase_un_ctl_temp _ t ht, unprint_opword_none]
      rfl

/-! ### operand lists -/

theorem bnd_tail (o : Op) (ss : List (List Char)) (rest : List Char) : Bnd (tailL o.str ss ++ ')' :: rest) := by
  cases ss with
  | nil => exact Bnd.rpar rest
  | cons s ss =>
    have e : tailL o.str (s :: ss) ++ ')' :: rest = o.str ++ (s ++ tailL o.str ss ++ ')' :: rest) := by
      simp [tailL]
    rw [e]; exact Bnd.op o _

theorem many_print (p : Parser) (o : Op) (pr : Fm → List Char) (rest : List Char) :
    ∀ (gs : List Fm) (k : Nat), gs.length < k →
      (∀ g ∈ gs, ∀ r, Bnd r → p (pr g ++ r) = some (g, r)) →
      many p o.str k (tailL o.str (gs.map pr) ++ ')' :: rest) = some (gs, ')' :: rest) := by
  intro gs
  induction gs with
  | nil =>
    intro k hk _
    obtain ⟨k, rfl⟩ : ∃ j, k = j + 1 := ⟨k - 1, by simp at hk; omega⟩
    simp [many, tailL, expect_rpar]
  | cons g gs ih =>
    intro k hk hp
    obtain ⟨k, rfl⟩ : ∃ j, k = j + 1 := ⟨k - 1, by simp at hk; omega⟩
    have e : tailL o.str ((g :: gs).map pr) ++ ')' :: rest
        = o.str ++ (pr g ++ (tailL o.str (gs.map pr) ++ ')' :: rest)) := by
      simp [tailL]
    have h1 := hp g (by simp) _ (bnd_tail o (gs.map pr) rest)
    have h2 := ih k (by simp at hk; omega) (fun g' hg' => hp g' (List.mem_cons_of_mem _ hg'))
    rw [e]
    simp only [many, expect_append, h1, h2]

theorem paren_print (p : Parser) (k : Nat) (o : Op) (pr : Fm → List Char) (f g : Fm) (gs : List Fm)
    (rest : List Char)
    (hf : ∀ r, Bnd r → p (pr f ++ r) = some (f, r)) (hg : ∀ r, Bnd r → p (pr g ++ r) = some (g, r))
    (hgs : ∀ g ∈ gs, ∀ r, Bnd r → p (pr g ++ r) = some (g, r)) (hk : gs.length < k)
    (hn : o.nary = false → gs = []) :
    parenCase p k (pr f ++ (o.str ++ (pr g ++ (tailL o.str (gs.map pr) ++ ')' :: rest))))
      = some (o.build f g gs, rest) := by
  have h1 := hf _ (Bnd.op o (pr g ++ (tailL o.str (gs.map pr) ++ ')' :: rest)))
  have h2 := hg _ (bnd_tail o (gs.map pr) rest)
  have h3 := many_print p o pr rest gs k hk hgs
  by_cases hnary : o.nary = true
  · simp only [parenCase, h1, readOp_str, h2, hnary, if_true, h3]
  · have hnil := hn (by simpa using hnary)
    subst hnil
    simp only [List.map_nil, tailL, List.nil_append] at h1 h2 ⊢
    simp [parenCase, h1, readOp_str, h2, hnary]

/-! ### fuel -/

def depth : Fm → Nat
  | .tt | .ff | .ap _ => 1
  | .not f | .X f | .F f | .G f | .A f | .E f => depth f + 1
  | .or fs | .and fs => depthL fs + fs.length + 1
  | .imp f g | .U f g | .R f g => max (depth f) (depth g) + 2
where
  depthL : List Fm → Nat
    | [] => 0
    | f :: fs => max (depth f) (depthL fs)

theorem depth_le_depthL {f : Fm} {fs : List Fm} (h : f ∈ fs) : depth f ≤ depth.depthL fs := by
  induction fs with
  | nil => cases h
  | cons g gs ih =>
    rcases List.mem_cons.mp h with h | h
    · subst h; simp [depth.depthL]
    · have := ih h; simp [depth.depthL]; omega

theorem depth_un (u : Un) (f : Fm) : depth (u.build f) = depth f + 1 := by
  cases u <;> rfl

/-! ### structure of the hypotheses -/

theorem printLs_eq_map (ctl : Bool) (fs : List Fm) : printL.printLs ctl fs = fs.map (printL ctl) := by
  induction fs with
  | nil => rfl
  | cons f fs ih => simp [printL.printLs, ih]

theorem joinL_cons (sep s : List Char) (ss : List (List Char)) : joinL sep (s :: ss) = s ++ tailL sep ss := by
  induction ss generalizing s with
  | nil => simp [joinL, tailL]
  | cons t ss ih => simp [joinL, tailL, ih]

theorem atomsList_all (q : String → Bool) (fs : List Fm) :
    (atoms.atomsList fs).all q = true ↔ ∀ f ∈ fs, (atoms f).all q = true := by
  induction fs with
  | nil => simp [atoms.atomsList]
  | cons f fs ih => simp only [atoms.atomsList, List.all_append, Bool.and_eq_true, ih, List.mem_cons,
      forall_eq_or_imp]

theorem arityOKList_iff (fs : List Fm) :
    arityOK.arityOKList fs = true ↔ ∀ f ∈ fs, arityOK f = true := by
  induction fs with
  | nil => simp [arityOK.arityOKList]
  | cons f fs ih => simp only [arityOK.arityOKList, Bool.and_eq_true, ih, List.mem_cons, forall_eq_or_imp]

theorem isCTLStateList_iff (fs : List Fm) :
    isCTLState.isCTLStateList fs = true ↔ ∀ f ∈ fs, isCTLState f = true := by
  induction fs with
  | nil => simp [isCTLState.isCTLStateList]
  | cons f fs ih => simp only [isCTLState.isCTLStateList, Bool.and_eq_true, ih, List.mem_cons, forall_eq_or_imp]

theorem isCTL_of_state {f : Fm} (h : isCTLState f = true) : isCTL f = true := by
  cases f <;> simp_all [isCTL, isCTLState]

/-- the printed form of a CTL path formula: `X `…, `F `…, `G `…, or parenthesised -/
def TempShape (f : Fm) : Prop :=
  (∃ t s, Un.quant t = false ∧ printL true f = t.ch :: ' ' :: s) ∨ (∃ s, printL true f = '(' :: s)

theorem quant_shape {q : Un} (hq : q.quant = true) {f : Fm} (h : isCTLState (q.build f) = true) :
    isCTL f = true ∧ TempShape f := by
  have key : isCTLState (.A f) = true ∨ isCTLState (.E f) = true := by
    cases q <;> first | (exact absurd hq (by decide)) | (exact Or.inl h) | (exact Or.inr h)
  cases f <;> simp_all [isCTLState, isCTL]
  · exact Or.inl ⟨.X, _, rfl, rfl⟩
  · exact Or.inl ⟨.F, _, rfl, rfl⟩
  · exact Or.inl ⟨.G, _, rfl, rfl⟩
  · exact Or.inr ⟨_, rfl⟩
  · exact Or.inr ⟨_, rfl⟩

/-! ### atoms -/

theorem wfName_spec {n : String} (h : wfName n = true) :
    (∃ c cs, n.toList = c :: cs ∧ isIdentStart c = true ∧ ∀ d ∈ cs, isIdentChar d = true) ∧
      n ∉ reserved := by
  unfold wfName at h
  split at h
  · exact absurd h (by simp)
  · rename_i c cs heq
    simp only [Bool.and_eq_true, List.all_eq_true, Bool.not_eq_true', List.contains_eq_mem,
      decide_eq_false_iff_not] at h
    exact ⟨⟨c, cs, heq, h.1.1, h.1.2⟩, h.2⟩

theorem toList_ne_of_ne {n : String} {m : String} {l : List Char} (hm : m.toList = l) (h : n ≠ m) :
    n.toList ≠ l := by
  intro e; apply h; apply String.toList_inj.mp; rw [e, hm]

theorem classify_wf {n : String} (h : wfName n = true) :
    classify n.toList = .ident ∨
      ∃ q t, Un.quant q = true ∧ Un.quant t = false ∧ n.toList = [q.ch, t.ch] ∧
        classify n.toList = .quant q t := by
  obtain ⟨⟨c, cs, hn, _, _⟩, hres⟩ := wfName_spec h
  have r (m : String) (l : List Char) (hm : m.toList = l) (hmem : m ∈ reserved) : n.toList ≠ l :=
    toList_ne_of_ne hm (fun e => hres (e ▸ hmem))
  have h0 : n.toList ≠ [] := by rw [hn]; simp
  have h1 := r "true" ['t', 'r', 'u', 'e'] rfl (by decide)
  have h2 := r "false" ['f', 'a', 'l', 's', 'e'] rfl (by decide)
  have h3 := r "not" ['n', 'o', 't'] rfl (by decide)
  have h4 := r "or" ['o', 'r'] rfl (by decide)
  have h5 := r "and" ['a', 'n', 'd'] rfl (by decide)
  have h6 := r "U" ['U'] rfl (by decide)
  have h7 := r "R" ['R'] rfl (by decide)
  have h8 := r "X" ['X'] rfl (by decide)
  have h9 := r "F" ['F'] rfl (by decide)
  have h10 := r "G" ['G'] rfl (by decide)
  have h11 := r "A" ['A'] rfl (by decide)
  have h12 := r "E" ['E'] rfl (by decide)
  unfold classify
  rw [if_neg h0, if_neg h1, if_neg h2, if_neg h3, if_neg h4, if_neg h5, if_neg h6, if_neg h7, if_neg h8,
    if_neg h9, if_neg h10, if_neg h11, if_neg h12]
  split_ifs with e1 e2 e3 e4 e5 e6
  · exact Or.inr ⟨.A, .X, rfl, rfl, e1, rfl⟩
  · exact Or.inr ⟨.A, .F, rfl, rfl, e2, rfl⟩
  · exact Or.inr ⟨.A, .G, rfl, rfl, e3, rfl⟩
  · exact Or.inr ⟨.E, .X, rfl, rfl, e4, rfl⟩
  · exact Or.inr ⟨.E, .F, rfl, rfl, e5, rfl⟩
  · exact Or.inr ⟨.E, .G, rfl, rfl, e6, rfl⟩
  · exact Or.inl rfl

/-! ### print, then decode -/

/-- decoding the printed form of `f` (followed by a boundary) gives back `f` -/
def Dec (ctl : Bool) (f : Fm) : Prop :=
  ∀ fuel, depth f ≤ fuel → ∀ rest, Bnd rest → unprint ctl fuel (printL ctl f ++ rest) = some (f, rest)

theorem dec_ap (ctl : Bool) (n : String) (h : wfName n = true) : Dec ctl (.ap n) := by
  intro fuel hd rest hb
  obtain ⟨k, rfl⟩ : ∃ k, fuel = k + 1 := ⟨fuel - 1, by simp [depth] at hd; omega⟩
  obtain ⟨⟨c, cs, hn, hc, hcs⟩, _⟩ := wfName_spec h
  have hall : ∀ d ∈ n.toList, isIdentChar d = true := by
    rw [hn]; intro d hd'
    rcases List.mem_cons.mp hd' with rfl | h'
    · exact identStart_identChar hc
    · exact hcs d h'
  show step ctl (unprint ctl k) k (n.toList ++ rest) = _
  rw [step_word ctl _ k (by rw [hn]; simp) hall hb.boundary]
  rcases classify_wf h with hk | ⟨q, t, hq, ht, hw, hk⟩
  · simp only [wordCase, hk, String.ofList_toList]
  · cases ctl with
    | false => simp [wordCase, hk, String.ofList_toList]
    | true =>
      have hnone := unprint_temp_none k t ht hb
      simp [wordCase, hk, String.ofList_toList, hnone]

theorem dec_not (ctl : Bool) (f : Fm) (ih : Dec ctl f) : Dec ctl (.not f) := by
  intro fuel hd rest hb
  obtain ⟨k, rfl⟩ : ∃ k, fuel = k + 1 := ⟨fuel - 1, by simp [depth] at hd; omega⟩
  have i1 := ih k (by simp [depth] at hd; omega) rest hb
  have e : printL ctl (.not f) ++ rest = ['n', 'o', 't'] ++ (' ' :: (printL ctl f ++ rest)) := by
    simp [printL]
  show step ctl (unprint ctl k) k _ = _
  rw [e, step_word ctl _ k (by simp) (by decide) (boundary_space _), wordCase_not, i1]
  rfl

theorem dec_un (ctl : Bool) (u : Un) (f : Fm) (hs : ctl = true → u.quant = true → TempShape f)
    (ih : Dec ctl f) : ∀ fuel, depth f + 1 ≤ fuel → ∀ rest, Bnd rest →
      unprint ctl fuel (unL ctl u (printL ctl f) ++ rest) = some (u.build f, rest) := by
  intro fuel hd rest hb
  obtain ⟨k, rfl⟩ : ∃ k, fuel = k + 1 := ⟨fuel - 1, by omega⟩
  have hk : depth f ≤ k := by omega
  have hu : ∀ d ∈ [u.ch], isIdentChar d = true := by simpa using un_isIdent u
  show step ctl (unprint ctl k) k _ = _
  cases ctl with
  | false =>
    have i1 := ih k hk (')' :: rest) (Bnd.rpar rest)
    have e : unL false u (printL false f) ++ rest = [u.ch] ++ ('(' :: (printL false f ++ ')' :: rest)) := by
      simp [unL]
    rw [e, step_word false _ k (by simp) hu (boundary_lpar _), wordCase_un_star]
    simp only [closeCase, i1]
  | true =>
    have i1 := ih k hk rest hb
    by_cases hq : u.quant = true
    · rcases hs rfl hq with ⟨t, s, ht, hp⟩ | ⟨s, hp⟩
      · have e : unL true u (printL true f) ++ rest = [u.ch, t.ch] ++ (' ' :: (s ++ rest)) := by
          simp [unL, hq, hp]
        have hut : ∀ d ∈ [u.ch, t.ch], isIdentChar d = true := by
          intro d hd'; simp at hd'; rcases hd' with rfl | rfl
          · exact un_isIdent u
          · exact un_isIdent t
        rw [hp] at i1
        rw [e, step_word true _ k (by simp) hut (boundary_space _)]
        exact wordCase_quant_ctl _ u t hq ht _ f rest i1
      · have e : unL true u (printL true f) ++ rest = [u.ch] ++ ('(' :: (s ++ rest)) := by
          simp [unL, hq, hp]
        rw [hp] at i1
        rw [e, step_word true _ k (by simp) hu (boundary_lpar _), wordCase_un_ctl_quant _ u hq]
        have i1' : unprint true k ('(' :: (s ++ rest)) = some (f, rest) := i1
        rw [i1']; rfl
    · have hq' : u.quant = false := by simpa using hq
      have e : unL true u (printL true f) ++ rest = [u.ch] ++ (' ' :: (printL true f ++ rest)) := by
        simp [unL, hq']
      rw [e, step_word true _ k (by simp) hu (boundary_space _), wordCase_un_ctl_temp _ u hq', i1]
      rfl

theorem dec_bin (ctl : Bool) (o : Op) (f g : Fm) (gs : List Fm) (hn : o.nary = false → gs = [])
    (ihf : Dec ctl f) (ihg : Dec ctl g) (ihs : ∀ h ∈ gs, Dec ctl h) :
    ∀ fuel, depth.depthL (f :: g :: gs) + gs.length + 2 ≤ fuel → ∀ rest, Bnd rest →
      unprint ctl fuel ('(' :: (printL ctl f ++ (o.str ++ (printL ctl g ++
        (tailL o.str (gs.map (printL ctl)) ++ ')' :: rest))))) = some (o.build f g gs, rest) := by
  intro fuel hd rest hb
  obtain ⟨k, rfl⟩ : ∃ k, fuel = k + 1 := ⟨fuel - 1, by omega⟩
  simp only [depth.depthL] at hd
  show step ctl (unprint ctl k) k _ = _
  rw [step_paren]
  apply paren_print (unprint ctl k) k o (printL ctl) f g gs rest
  · exact fun r hr => ihf k (by omega) r hr
  · exact fun r hr => ihg k (by omega) r hr
  · intro h hh r hr
    have := depth_le_depthL hh
    exact ihs h hh k (by omega) r hr
  · omega
  · exact hn

theorem dec_nary (ctl : Bool) (o : Op) (ho : o.nary = true) (fs : List Fm) (h2 : 2 ≤ fs.length)
    (ih : ∀ f ∈ fs, Dec ctl f) :
    ∃ f g gs, fs = f :: g :: gs ∧ ∀ fuel, depth.depthL fs + fs.length + 1 ≤ fuel → ∀ rest, Bnd rest →
      unprint ctl fuel (naryL o.word (printL.printLs ctl fs) ++ rest) = some (o.build f g gs, rest) := by
  match fs, h2, ih with
  | f :: g :: gs, _, ih =>
    refine ⟨f, g, gs, rfl, ?_⟩
    intro fuel hd rest hb
    have e : naryL o.word (printL.printLs ctl (f :: g :: gs)) ++ rest
        = '(' :: (printL ctl f ++ (o.str ++ (printL ctl g ++
            (tailL o.str (gs.map (printL ctl)) ++ ')' :: rest)))) := by
      simp [printLs_eq_map, naryL, joinL_cons, tailL, Op.str]
    rw [e]
    exact dec_bin ctl o f g gs (fun h => by rw [ho] at h; cases h) (ih f (by simp)) (ih g (by simp))
      (fun h hh => ih h (by simp [hh])) fuel (by simp at hd; omega) rest hb

/-- **print, then decode** -/
theorem unprint_print (ctl : Bool) : ∀ f : Fm, (ctl = true → f.isCTL = true) → f.wfAtoms = true →
    f.arityOK = true → Dec ctl f := by
  intro f
  induction f using Fm.indList with
  | tt =>
    intro _ _ _ fuel hd rest hb
    obtain ⟨k, rfl⟩ : ∃ k, fuel = k + 1 := ⟨fuel - 1, by simp [depth] at hd; omega⟩
    show step ctl (unprint ctl k) k (['t', 'r', 'u', 'e'] ++ rest) = _
    rw [step_word ctl _ k (by simp) (by decide) hb.boundary, wordCase_tt]
  | ff =>
    intro _ _ _ fuel hd rest hb
    obtain ⟨k, rfl⟩ : ∃ k, fuel = k + 1 := ⟨fuel - 1, by simp [depth] at hd; omega⟩
    show step ctl (unprint ctl k) k (['f', 'a', 'l', 's', 'e'] ++ rest) = _
    rw [step_word ctl _ k (by simp) (by decide) hb.boundary, wordCase_ff]
  | ap n =>
    intro _ hw _
    exact dec_ap ctl n (by simpa [wfAtoms, atoms] using hw)
  | not f ih =>
    intro hc hw ha
    exact dec_not ctl f (ih (fun h => isCTL_of_state (by simpa [isCTL, isCTLState] using hc h))
      (by simpa [wfAtoms, atoms] using hw) (by simpa [arityOK] using ha))
  | or fs ih =>
    intro hc hw ha
    simp only [arityOK, Bool.and_eq_true, decide_eq_true_eq, arityOKList_iff] at ha
    have hw' : ∀ f ∈ fs, wfAtoms f = true := (atomsList_all wfName fs).mp (by simpa [wfAtoms, atoms] using hw)
    have hc' : ctl = true → ∀ f ∈ fs, isCTL f = true := fun h f hf =>
      isCTL_of_state ((isCTLStateList_iff fs).mp (by simpa [isCTL, isCTLState] using hc h) f hf)
    obtain ⟨f, g, gs, rfl, hdec⟩ := dec_nary ctl .or rfl fs ha.1
      (fun f hf => ih f hf (fun h => hc' h f hf) (hw' f hf) (ha.2 f hf))
    exact hdec
  | and fs ih =>
    intro hc hw ha
    simp only [arityOK, Bool.and_eq_true, decide_eq_true_eq, arityOKList_iff] at ha
    have hw' : ∀ f ∈ fs, wfAtoms f = true := (atomsList_all wfName fs).mp (by simpa [wfAtoms, atoms] using hw)
    have hc' : ctl = true → ∀ f ∈ fs, isCTL f = true := fun h f hf =>
      isCTL_of_state ((isCTLStateList_iff fs).mp (by simpa [isCTL, isCTLState] using hc h) f hf)
    obtain ⟨f, g, gs, rfl, hdec⟩ := dec_nary ctl .and rfl fs ha.1
      (fun f hf => ih f hf (fun h => hc' h f hf) (hw' f hf) (ha.2 f hf))
    exact hdec
  | imp f g ihf ihg =>
    intro hc hw ha
    simp only [arityOK, Bool.and_eq_true] at ha
    have hw' : wfAtoms f = true ∧ wfAtoms g = true := by simpa [wfAtoms, atoms] using hw
    have hc' : ctl = true → isCTLState f = true ∧ isCTLState g = true := fun h => by
      simpa [isCTL, isCTLState] using hc h
    have df := ihf (fun h => isCTL_of_state (hc' h).1) hw'.1 ha.1
    have dg := ihg (fun h => isCTL_of_state (hc' h).2) hw'.2 ha.2
    intro fuel hd rest hb
    have := dec_bin ctl .imp f g [] (fun _ => rfl) df dg (by simp) fuel
      (by simp only [depth, depth.depthL, List.length_nil] at hd ⊢; omega) rest hb
    simpa [printL, binL, tailL, Op.build] using this
  | U f g ihf ihg =>
    intro hc hw ha
    simp only [arityOK, Bool.and_eq_true] at ha
    have hw' : wfAtoms f = true ∧ wfAtoms g = true := by simpa [wfAtoms, atoms] using hw
    have hc' : ctl = true → isCTLState f = true ∧ isCTLState g = true := fun h => by
      simpa [isCTL, isCTLState] using hc h
    have df := ihf (fun h => isCTL_of_state (hc' h).1) hw'.1 ha.1
    have dg := ihg (fun h => isCTL_of_state (hc' h).2) hw'.2 ha.2
    intro fuel hd rest hb
    have := dec_bin ctl .U f g [] (fun _ => rfl) df dg (by simp) fuel
      (by simp only [depth, depth.depthL, List.length_nil] at hd ⊢; omega) rest hb
    simpa [printL, binL, tailL, Op.build] using this
  | R f g ihf ihg =>
    intro hc hw ha
    simp only [arityOK, Bool.and_eq_true] at ha
    have hw' : wfAtoms f = true ∧ wfAtoms g = true := by simpa [wfAtoms, atoms] using hw
    have hc' : ctl = true → isCTLState f = true ∧ isCTLState g = true := fun h => by
      simpa [isCTL, isCTLState] using hc h
    have df := ihf (fun h => isCTL_of_state (hc' h).1) hw'.1 ha.1
    have dg := ihg (fun h => isCTL_of_state (hc' h).2) hw'.2 ha.2
    intro fuel hd rest hb
    have := dec_bin ctl .R f g [] (fun _ => rfl) df dg (by simp) fuel
      (by simp only [depth, depth.depthL, List.length_nil] at hd ⊢; omega) rest hb
    simpa [printL, binL, tailL, Op.build] using this
  | X f ih =>
    intro hc hw ha
    have d := ih (fun h => isCTL_of_state (by simpa [isCTL] using hc h))
      (by simpa [wfAtoms, atoms] using hw) (by simpa [arityOK] using ha)
    exact dec_un ctl .X f (fun _ h => by cases h) d
  | F f ih =>
    intro hc hw ha
    have d := ih (fun h => isCTL_of_state (by simpa [isCTL] using hc h))
      (by simpa [wfAtoms, atoms] using hw) (by simpa [arityOK] using ha)
    exact dec_un ctl .F f (fun _ h => by cases h) d
  | G f ih =>
    intro hc hw ha
    have d := ih (fun h => isCTL_of_state (by simpa [isCTL] using hc h))
      (by simpa [wfAtoms, atoms] using hw) (by simpa [arityOK] using ha)
    exact dec_un ctl .G f (fun _ h => by cases h) d
  | A f ih =>
    intro hc hw ha
    have hs : ctl = true → isCTL f = true ∧ TempShape f := fun h =>
      quant_shape (q := .A) rfl (by simpa [isCTL, Un.build] using hc h)
    have d := ih (fun h => (hs h).1) (by simpa [wfAtoms, atoms] using hw) (by simpa [arityOK] using ha)
    exact dec_un ctl .A f (fun h _ => (hs h).2) d
  | E f ih =>
    intro hc hw ha
    have hs : ctl = true → isCTL f = true ∧ TempShape f := fun h =>
      quant_shape (q := .E) rfl (by simpa [isCTL, Un.build] using hc h)
    have d := ih (fun h => (hs h).1) (by simpa [wfAtoms, atoms] using hw) (by simpa [arityOK] using ha)
    exact dec_un ctl .E f (fun h _ => (hs h).2) d

/-! ### the `String` printers of the model are the `List Char` printers -/

theorem joinSep_toList (sep : String) (ss : List String) :
    (joinSep sep ss).toList = joinL sep.toList (ss.map String.toList) := by
  fun_induction joinSep sep ss with
  | case1 => rfl
  | case2 s => simp [joinL]
  | case3 s ss hne ih =>
    cases ss with
    | nil => exact absurd rfl hne
    | cons t ts => simp only [String.toList_append, ih, List.map_cons, joinL]

theorem lit_space : " ".toList = [' '] := rfl
theorem lit_lpar : "(".toList = ['('] := rfl
theorem lit_rpar : ")".toList = [')'] := rfl

theorem printNary_toList (sym : String) (ss : List String) :
    (printNary sym ss).toList = naryL sym.toList (ss.map String.toList) := by
  unfold printNary
  split
  · simp [naryL, String.toList_append, lit_space]
  · rename_i hne
    have e : naryL sym.toList (ss.map String.toList)
        = '(' :: joinL (' ' :: (sym.toList ++ [' '])) (ss.map String.toList) ++ [')'] := by
      unfold naryL
      split
      · rename_i s heq
        cases ss with
        | nil => simp at heq
        | cons a as =>
          cases as with
          | nil => exact absurd rfl (hne a)
          | cons b bs => simp at heq
      · rfl
    rw [e]
    simp [String.toList_append, joinSep_toList, lit_space, lit_lpar, lit_rpar]

theorem printList_toList (c : Bool) (pr : Fm → String) (prs : List Fm → List String)
    (hnil : prs [] = []) (hcons : ∀ f fs, prs (f :: fs) = pr f :: prs fs) (fs : List Fm)
    (ih : ∀ f ∈ fs, (pr f).toList = printL c f) :
    (prs fs).map String.toList = printL.printLs c fs := by
  induction fs with
  | nil => simp [hnil, printL.printLs]
  | cons f fs ih' =>
    rw [hcons, List.map_cons, ih f (by simp), ih' (fun g hg => ih g (List.mem_cons_of_mem _ hg))]
    rfl

theorem lit_true : "true".toList = ['t', 'r', 'u', 'e'] := rfl
theorem lit_false : "false".toList = ['f', 'a', 'l', 's', 'e'] := rfl
theorem lit_not : "not ".toList = ['n', 'o', 't', ' '] := rfl
theorem lit_or : "or".toList = Op.or.word := rfl
theorem lit_and : "and".toList = Op.and.word := rfl
theorem lit_imp : " --> ".toList = Op.imp.str := rfl
theorem lit_U : " U ".toList = Op.U.str := rfl
theorem lit_R : " R ".toList = Op.R.str := rfl
theorem lit_X : "X(".toList = ['X', '('] := rfl
theorem lit_F : "F(".toList = ['F', '('] := rfl
theorem lit_G : "G(".toList = ['G', '('] := rfl
theorem lit_A : "A(".toList = ['A', '('] := rfl
theorem lit_E : "E(".toList = ['E', '('] := rfl
theorem lit_X' : "X ".toList = ['X', ' '] := rfl
theorem lit_F' : "F ".toList = ['F', ' '] := rfl
theorem lit_G' : "G ".toList = ['G', ' '] := rfl
theorem lit_A' : "A".toList = ['A'] := rfl
theorem lit_E' : "E".toList = ['E'] := rfl

theorem print_toList (f : Fm) : (print f).toList = printL false f := by
  induction f using Fm.indList with
  | tt => rfl
  | ff => rfl
  | ap n => rfl
  | or fs ih =>
    simp only [print, printL, printNary_toList, lit_or,
      printList_toList false print print.printList rfl (fun _ _ => rfl) fs ih]
  | and fs ih =>
    simp only [print, printL, printNary_toList, lit_and,
      printList_toList false print print.printList rfl (fun _ _ => rfl) fs ih]
  | _ =>
    simp_all [print, printL, String.toList_append, binL, unL, Un.ch, Un.quant, lit_not, lit_imp, lit_U, lit_R,
      lit_X, lit_F, lit_G, lit_A, lit_E, lit_lpar, lit_rpar]

theorem printCTL_toList (f : Fm) : (printCTL f).toList = printL true f := by
  induction f using Fm.indList with
  | tt => rfl
  | ff => rfl
  | ap n => rfl
  | or fs ih =>
    simp only [printCTL, printL, printNary_toList, lit_or,
      printList_toList true printCTL printCTL.printCTLList rfl (fun _ _ => rfl) fs ih]
  | and fs ih =>
    simp only [printCTL, printL, printNary_toList, lit_and,
      printList_toList true printCTL printCTL.printCTLList rfl (fun _ _ => rfl) fs ih]
  | _ =>
    simp_all [printCTL, printL, String.toList_append, binL, unL, Un.ch, Un.quant, lit_not, lit_imp, lit_U, lit_R,
      lit_X', lit_F', lit_G', lit_A', lit_E', lit_lpar, lit_rpar]

/-! ### injectivity over `List Char` -/

theorem printL_injective (ctl : Bool) (f g : Fm) (cf : ctl = true → f.isCTL = true)
    (cg : ctl = true → g.isCTL = true) (hf : f.wfAtoms = true) (hg : g.wfAtoms = true)
    (af : f.arityOK = true) (ag : g.arityOK = true) (h : printL ctl f = printL ctl g) : f = g := by
  have e1 := unprint_print ctl f cf hf af (max (depth f) (depth g)) (le_max_left _ _) [] Bnd.nil
  have e2 := unprint_print ctl g cg hg ag (max (depth f) (depth g)) (le_max_right _ _) [] Bnd.nil
  rw [h, e2] at e1
  injection e1 with e1; injection e1 with e1 _; exact e1.symm

end PrintDecode
end PMC
