/-
  Printing is injective (C09, C11): two formulas with different trees never print identically — over identifier-style,
  non-reserved atom names and n-ary and/or of arity ≥ 2.  Proved through a decoder of the printed language
  (`unprint (print f ++ rest) = some (f, rest)`): PMC/Proofs/PrintDecode.lean, one decoder with a flag for the
  two notations.  In CTL notation an atom may be called `AX`, `EG`, …: the decoder first tries the operator reading
  (`AX` + blank + formula) and falls back to the atom; the operator reading of a printed atom always fails because
  an atom is followed by the end, a `)` or a blank and an infix operator word, and no formula starts with one.

  `Fm.print` is the `__str__` of PL / LTL / CTL* objects, `Fm.printCTL` that of CTL-module objects (`AX p`,
  `A(p U q)`); both in PMC/Model/Syntax.lean together with `wfName`, `wfAtoms`, `arityOK`, `isCTL`, `reserved`.
-/
import PMC.Model.Syntax
import PMC.Proofs.PrintDecode
import Mathlib.Tactic
namespace PMC
open Fm

/-- **CTL\* notation**: different trees print differently -/
theorem print_injective (f g : Fm) (hf : f.wfAtoms = true) (hg : g.wfAtoms = true)
    (af : f.arityOK = true) (ag : g.arityOK = true) (h : f.print = g.print) : f = g := by
  have hL : PrintDecode.printL false f = PrintDecode.printL false g := by
    rw [← PrintDecode.print_toList, ← PrintDecode.print_toList, h]
  exact PrintDecode.printL_injective false f g (fun c => by cases c) (fun c => by cases c) hf hg af ag hL

/-- **CTL notation** (used by `==`, `hash` and the memo table of the CTL checker), on CTL formulas -/
theorem printCTL_injective (f g : Fm) (cf : f.isCTL = true) (cg : g.isCTL = true)
    (hf : f.wfAtoms = true) (hg : g.wfAtoms = true) (af : f.arityOK = true) (ag : g.arityOK = true)
    (h : f.printCTL = g.printCTL) : f = g := by
  have hL : PrintDecode.printL true f = PrintDecode.printL true g := by
    rw [← PrintDecode.printCTL_toList, ← PrintDecode.printCTL_toList, h]
  exact PrintDecode.printL_injective true f g (fun _ => cf) (fun _ => cg) hf hg af ag hL

/-- the hypothesis on atom names is needed: a reserved-looking atom collides with an operator -/
example : (Fm.ap "not p").print = (Fm.not (.ap "p")).print := by decide
example : (Fm.ap "true").print = Fm.tt.print := by decide
/-- … and so is the arity hypothesis: a one-operand `or` prints like a prefix operator applied to an atom list -/
example : (Fm.or [.ap "p"]).print = "or p" := by decide

#print axioms print_injective
#print axioms printCTL_injective
end PMC
