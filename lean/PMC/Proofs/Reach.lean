import PMC.Model.Graph
import PMC.Spec.Reach
import Mathlib.Logic.Relation
import Mathlib.Tactic

/- Spike: work-list reachability of graph.py get_reachable_set_from -/
namespace PMC.Graph
open Relation

variable {σ : Type} [DecidableEq σ]


/-- work-list invariant -/
structure WInv (next : σ → List σ) (X q R : List σ) : Prop where
  base : ∀ x ∈ X, x ∈ R
  sound : ∀ r ∈ R, ∃ x ∈ X, Reach next x r
  qsub : ∀ s ∈ q, s ∈ R
  done : ∀ r ∈ R, r ∉ q → ∀ d ∈ next r, d ∈ R

def unv (V R : List σ) : Nat := V.countP (fun v => decide (v ∉ R))

theorem countP_lt {α : Type} (p q : α → Bool) (l : List α) (himp : ∀ x ∈ l, p x = true → q x = true)
    (w : α) (hw : w ∈ l) (hq : q w = true) (hp : p w = false) : l.countP p < l.countP q := by
  induction l with
  | nil => cases hw
  | cons a l ih =>
    rcases List.mem_cons.mp hw with rfl | hw'
    · have hle : l.countP p ≤ l.countP q :=
        List.countP_mono_left (fun x hx => himp x (List.mem_cons_of_mem _ hx))
      rw [List.countP_cons_of_pos hq, List.countP_cons_of_neg (by simp [hp])]
      omega
    · have := ih (fun x hx => himp x (List.mem_cons_of_mem _ hx)) hw'
      rw [List.countP_cons, List.countP_cons]
      have h1 := himp a (by simp)
      by_cases hpa : p a = true
      · simp [hpa, h1 hpa]; omega
      · by_cases hqa : q a = true
        · simp [hpa, hqa]; omega
        · simp [hpa, hqa]; omega

theorem unv_cons_lt (V R : List σ) {d : σ} (hV : d ∈ V) (hR : d ∉ R) : unv V (d :: R) < unv V R := by
  unfold unv
  apply countP_lt _ _ V _ d hV
  · simpa using hR
  · simp
  · intro x _ hx
    simp only [decide_eq_true_eq, List.mem_cons, not_or] at hx ⊢
    exact hx.2

theorem scan_spec (V R q ds : List σ) (hds : ∀ d ∈ ds, d ∈ V) :
    let p := scan R q ds
    (∀ x, x ∈ p.1 ↔ x ∈ R ∨ x ∈ ds) ∧ (∀ x, x ∈ p.2 ↔ x ∈ q ∨ (x ∈ ds ∧ x ∉ R)) ∧
    2 * unv V p.1 + p.2.length ≤ 2 * unv V R + q.length := by
  induction ds generalizing R q with
  | nil => simp [scan]
  | cons d ds ih =>
    have hds' : ∀ d' ∈ ds, d' ∈ V := fun x hx => hds x (List.mem_cons_of_mem _ hx)
    simp only [scan]
    split_ifs with hd
    · obtain ⟨h1, h2, h3⟩ := ih R q hds'
      refine ⟨?_, ?_, h3⟩
      · intro x; rw [h1]; simp only [List.mem_cons]
        constructor
        · rintro (h | h); exact Or.inl h; exact Or.inr (Or.inr h)
        · rintro (h | rfl | h); exact Or.inl h; exact Or.inl hd; exact Or.inr h
      · intro x; rw [h2]; simp only [List.mem_cons]
        constructor
        · rintro (h | ⟨h, h'⟩); exact Or.inl h; exact Or.inr ⟨Or.inr h, h'⟩
        · rintro (h | ⟨rfl | h, h'⟩); exact Or.inl h; exact absurd hd h'; exact Or.inr ⟨h, h'⟩
    · obtain ⟨h1, h2, h3⟩ := ih (d :: R) (d :: q) hds'
      have hlt := unv_cons_lt V R (hds d (by simp)) hd
      simp only [List.length_cons] at h3
      refine ⟨?_, ?_, by omega⟩
      · intro x; rw [h1]; simp only [List.mem_cons]; tauto
      · intro x; rw [h2]; simp only [List.mem_cons, not_or]
        constructor
        · rintro ((rfl | h) | ⟨h, h', h''⟩)
          · exact Or.inr ⟨Or.inl rfl, hd⟩
          · exact Or.inl h
          · exact Or.inr ⟨Or.inr h, h''⟩
        · rintro (h | ⟨rfl | h, h'⟩)
          · exact Or.inl (Or.inr h)
          · exact Or.inl (Or.inl rfl)
          · by_cases hx : x = d
            · exact Or.inl (Or.inl hx)
            · exact Or.inr ⟨h, hx, h'⟩

theorem loop_spec (next : σ → List σ) (V X : List σ) (hcl : ∀ v ∈ V, ∀ d ∈ next v, d ∈ V) :
    ∀ fuel q R, WInv next X q R → (∀ r ∈ R, r ∈ V) → 2 * unv V R + q.length < fuel →
      WInv next X [] (loop next fuel q R) ∧ ∀ r ∈ loop next fuel q R, r ∈ V := by
  intro fuel
  induction fuel with
  | zero => intro q R _ _ h; omega
  | succ fuel ih =>
    intro q R hI hRV hf
    cases q with
    | nil => simpa [loop] using ⟨hI, hRV⟩
    | cons s q =>
      have hsR : s ∈ R := hI.qsub s (by simp)
      have hsV : s ∈ V := hRV s hsR
      obtain ⟨h1, h2, h3⟩ := scan_spec V R q (next s) (hcl s hsV)
      simp only [loop]
      generalize hp : scan R q (next s) = p at h1 h2 h3
      obtain ⟨R', q'⟩ := p
      simp only at h1 h2 h3 ⊢
      apply ih q' R'
      · refine ⟨?_, ?_, ?_, ?_⟩
        · intro x hx; rw [h1]; exact Or.inl (hI.base x hx)
        · intro r hr
          rcases (h1 r).mp hr with hr | hr
          · exact hI.sound r hr
          · obtain ⟨x, hx, hxs⟩ := hI.sound s hsR
            exact ⟨x, hx, hxs.tail hr⟩
        · intro t ht
          rcases (h2 t).mp ht with ht | ⟨ht, _⟩
          · rw [h1]; exact Or.inl (hI.qsub t (List.mem_cons_of_mem _ ht))
          · rw [h1]; exact Or.inr ht
        · intro r hr hrq d hd
          rw [h1]
          by_cases hrs : r = s
          · subst hrs; exact Or.inr hd
          · rcases (h1 r).mp hr with hrR | hrn
            · have : r ∉ s :: q := by
                simp only [List.mem_cons, not_or]
                exact ⟨hrs, fun hq => hrq ((h2 r).mpr (Or.inl hq))⟩
              exact Or.inl (hI.done r hrR this d hd)
            · -- r newly added: it is in q', contradiction
              by_cases hrR : r ∈ R
              · have : r ∉ s :: q := by
                  simp only [List.mem_cons, not_or]
                  exact ⟨hrs, fun hq => hrq ((h2 r).mpr (Or.inl hq))⟩
                exact Or.inl (hI.done r hrR this d hd)
              · exact absurd ((h2 r).mpr (Or.inr ⟨hrn, hrR⟩)) hrq
      · intro r hr
        rcases (h1 r).mp hr with hr | hr
        · exact hRV r hr
        · exact hcl s hsV r hr
      · simp only [List.length_cons] at hf; omega

/-- **get_reachable_set_from is exact**: for X ⊆ V, the result is X plus everything reachable from X -/
theorem reachFromFn_exact (next : σ → List σ) (V X : List σ) (hcl : ∀ v ∈ V, ∀ d ∈ next v, d ∈ V)
    (hX : ∀ x ∈ X, x ∈ V) (y : σ) :
    y ∈ reachFromFn next V X ↔ ∃ x ∈ X, Reach next x y := by
  have h0 : WInv next X X.reverse X :=
    ⟨fun x hx => hx, fun r hr => ⟨r, hr, .refl⟩, fun s hs => List.mem_reverse.mp hs,
     fun r hr hrq => absurd (List.mem_reverse.mpr hr) hrq⟩
  have hf : 2 * unv V X + X.reverse.length < 2 * V.length + X.length + 1 := by
    have : unv V X ≤ V.length := List.countP_le_length
    simp only [List.length_reverse]; omega
  obtain ⟨hI, _⟩ := loop_spec next V X hcl _ _ _ h0 hX hf
  constructor
  · intro hy; exact hI.sound y hy
  · rintro ⟨x, hx, hr⟩
    induction hr with
    | refl => exact hI.base x hx
    | tail _ hbc ih => exact hI.done _ ih (by simp) _ hbc

#print axioms reachFromFn_exact
end PMC.Graph
