/-
  Per-logic restricted alphabets for C05(a) (PMC/Properties/C05Alphabet.lean).

    * `Fm.isRestrictedLTL`: the documented restricted LTL alphabet — path formulas built from atoms (Boolean
      constants are atoms), `not`, `or`, `X`, `U`; no quantifier.  It is exactly the syntax the tableau accepts
      (`isRestrictedLTL_eq_toR`) and exactly "CTL*-restricted and quantifier-free" (`isRestrictedLTL_iff`).
    * `Fm.isRestrictedCTLPath`: what the CTL rewriting returns on a CTL formula that may be a *path* formula used on
      its own (`CTL.X('p').get_equivalent_restricted_formula()`): a restricted CTL state formula, or `X` / `U` /
      `not U` over restricted CTL state formulas.
-/
import PMC.Proofs.LTLFront
import PMC.Proofs.RewriteCTL
namespace PMC
open Fm
namespace Fm

/-- restricted LTL alphabet: not, or, X, U, atoms (Boolean constants are atoms); no quantifier -/
def isRestrictedLTL : Fm → Bool
  | .tt | .ff | .ap _ => true
  | .not f => isRestrictedLTL f
  | .or fs => isRestrictedLTLList fs
  | .X f => isRestrictedLTL f
  | .U f g => isRestrictedLTL f && isRestrictedLTL g
  | _ => false
where
  isRestrictedLTLList : List Fm → Bool
    | [] => true
    | f :: fs => isRestrictedLTL f && isRestrictedLTLList fs

/-- what the CTL rewriting returns on CTL formulas, path formulas used on their own included -/
def isRestrictedCTLPath : Fm → Bool
  | .X f => isRestrictedCTL f
  | .U f g => isRestrictedCTL f && isRestrictedCTL g
  | .not (.U f g) => isRestrictedCTL f && isRestrictedCTL g
  | f => isRestrictedCTL f

end Fm

/-- the restricted LTL alphabet is exactly the syntax accepted by the tableau (`_get_closure`) -/
theorem isRestrictedLTL_eq_toR (f : Fm) : f.isRestrictedLTL = (LTL.toR f).isSome := by
  apply Fm.isRestrictedLTL.induct
    (motive_1 := fun fs => isRestrictedLTL.isRestrictedLTLList fs = (LTL.toR.toRList fs).isSome)
    (motive_2 := fun f => f.isRestrictedLTL = (LTL.toR f).isSome)
  · simp [isRestrictedLTL, LTL.toR]
  · simp [isRestrictedLTL, LTL.toR]
  · intro n; simp [isRestrictedLTL, LTL.toR]
  · intro f ih; simp [isRestrictedLTL, LTL.toR, ih]
  · intro fs ih; simp [isRestrictedLTL, LTL.toR, ih]
  · intro f ih; simp [isRestrictedLTL, LTL.toR, ih]
  · intro f g ihf ihg
    rw [isRestrictedLTL, ihf, ihg, Bool.eq_iff_iff, Bool.and_eq_true, LTL.toR_U_isSome]
  · intro f h1 h2 h3 h4 h5 h6 h7
    cases f <;> simp_all [isRestrictedLTL, LTL.toR]
  · simp [isRestrictedLTL.isRestrictedLTLList, LTL.toR.toRList]
  · intro f fs ihf ihfs
    rw [isRestrictedLTL.isRestrictedLTLList, ihf, ihfs, Bool.eq_iff_iff, Bool.and_eq_true,
      LTL.toRList_isSome_cons]

/-- … and exactly "in the restricted CTL* alphabet and quantifier-free" -/
theorem isRestrictedLTL_iff (f : Fm) :
    f.isRestrictedLTL = true ↔ (f.isRestricted = true ∧ f.isLTLPath = true) := by
  apply Fm.isRestrictedLTL.induct
    (motive_1 := fun fs => isRestrictedLTL.isRestrictedLTLList fs = true ↔
      (isRestricted.isRestrictedList fs = true ∧ isLTLPath.isLTLPathList fs = true))
    (motive_2 := fun f => f.isRestrictedLTL = true ↔ (f.isRestricted = true ∧ f.isLTLPath = true))
  case case8 =>
    intro f h1 h2 h3 h4 h5 h6 h7
    cases f <;> simp_all [isRestrictedLTL, isRestricted, isLTLPath]
  all_goals (intros; simp_all [isRestrictedLTL, isRestrictedLTL.isRestrictedLTLList, isRestricted,
    isRestricted.isRestrictedList, isLTLPath, isLTLPath.isLTLPathList]; try tauto)

/-- the rewriting of an LTL path formula lands in the restricted LTL alphabet -/
theorem restrict_isRestrictedLTL (f : Fm) (h : f.isLTLPath = true) : f.restrict.isRestrictedLTL = true := by
  rw [isRestrictedLTL_eq_toR]; exact LTL.toR_restrict_isSome f h

/-- `LNot` stays inside the restricted LTL alphabet -/
theorem lnot_isRestrictedLTL (f : Fm) (h : f.isRestrictedLTL = true) : f.lnot.isRestrictedLTL = true := by
  rw [isRestrictedLTL_eq_toR] at h ⊢; exact LTL.toR_lnot_isSome f h

/-- restricted CTL state formulas are in `isRestrictedCTLPath` -/
theorem isRestrictedCTLPath_of_state (f : Fm) (h : f.isRestrictedCTL = true) : f.isRestrictedCTLPath = true := by
  unfold isRestrictedCTLPath
  split <;> simp_all [isRestrictedCTL]

/-- the CTL rewriting of any CTL formula — state formula or path formula used on its own — lands in the restricted
    CTL alphabet -/
theorem restrictCTL_isRestrictedCTLPath (f : Fm) (h : f.isCTL = true) : f.restrictCTL.isRestrictedCTLPath = true := by
  have hs := fun g hg => restrictCTL_restricted g hg
  have hl := fun g hg => lnot_isRestrictedCTL (restrictCTL g) (hs g hg)
  cases f with
  | X g => simp only [isCTL] at h; simp [restrictCTL, isRestrictedCTLPath, hs g h]
  | F g => simp only [isCTL] at h; simp [restrictCTL, isRestrictedCTLPath, isRestrictedCTL, hs g h]
  | G g => simp only [isCTL] at h; simp [restrictCTL, isRestrictedCTLPath, isRestrictedCTL, hl g h]
  | U g k =>
    simp only [isCTL, Bool.and_eq_true] at h
    simp [restrictCTL, isRestrictedCTLPath, hs g h.1, hs k h.2]
  | R g k =>
    simp only [isCTL, Bool.and_eq_true] at h
    simp [restrictCTL, isRestrictedCTLPath, hl g h.1, hl k h.2]
  | _ => exact isRestrictedCTLPath_of_state _ (hs _ (by simpa [isCTL] using h))

/-- … and denotes the same thing on every structure, sequence and position -/
theorem sat_restrictCTL_isCTL {σ : Type} (K : Kripke σ) (f : Fm) (h : f.isCTL = true) (π : Nat → σ) (i : Nat) :
    sat K f.restrictCTL π i ↔ sat K f π i := by
  have hs := fun g hg π i => sat_restrictCTL K g hg π i
  cases f with
  | X g => simp only [isCTL] at h; simp only [restrictCTL, sat, hs g h]
  | F g =>
    simp only [isCTL] at h; simp only [restrictCTL, sat, hs g h]
    exact ⟨fun ⟨j, hj, hc, _⟩ => ⟨j, hj, hc⟩, fun ⟨j, hj, hc⟩ => ⟨j, hj, hc, fun _ _ _ => trivial⟩⟩
  | G g =>
    simp only [isCTL] at h; simp only [restrictCTL, sat, sat_lnot, hs g h]
    constructor
    · intro hn j hj; by_contra hc; exact hn ⟨j, hj, hc, fun _ _ _ => trivial⟩
    · rintro hA ⟨j, hj, hc, _⟩; exact hc (hA j hj)
  | U g k =>
    simp only [isCTL, Bool.and_eq_true] at h
    simp only [restrictCTL, sat, hs g h.1, hs k h.2]
  | R g k =>
    simp only [isCTL, Bool.and_eq_true] at h
    simp only [restrictCTL, sat, sat_lnot, hs g h.1, hs k h.2]
    constructor
    · intro hn j hj hk; by_contra hc; exact hn ⟨j, hj, hc, hk⟩
    · rintro hA ⟨j, hj, hc, hk⟩; exact hc (hA j hj hk)
  | _ => exact hs _ (by simpa [isCTL] using h) π i

#print axioms isRestrictedLTL_eq_toR
#print axioms isRestrictedLTL_iff
#print axioms restrictCTL_isRestrictedCTLPath
#print axioms sat_restrictCTL_isCTL
end PMC
