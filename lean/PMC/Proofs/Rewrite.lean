import PMC.Spec.Semantics
import Mathlib.Tactic

/- Spike: C05 — the generic rewriting preserves meaning and lands in the restricted alphabet. -/
namespace PMC
open Fm

variable {σ : Type}

theorem satAny_iff (K : Kripke σ) (fs : List Fm) (π : Nat → σ) (i : Nat) :
    sat.satAny K fs π i ↔ ∃ f ∈ fs, sat K f π i := by
  induction fs with
  | nil => simp [sat.satAny]
  | cons f fs ih => simp [sat.satAny, ih]

theorem satAll_iff (K : Kripke σ) (fs : List Fm) (π : Nat → σ) (i : Nat) :
    sat.satAll K fs π i ↔ ∀ f ∈ fs, sat K f π i := by
  induction fs with
  | nil => simp [sat.satAll]
  | cons f fs ih => simp [sat.satAll, ih]

theorem sat_lnot (K : Kripke σ) (f : Fm) (π : Nat → σ) (i : Nat) :
    sat K (lnot f) π i ↔ ¬ sat K f π i := by
  fun_induction lnot f <;> simp_all [sat]

theorem lnot_restricted {f : Fm} (h : Restricted f) : Restricted (lnot f) := by
  fun_induction lnot f <;> simp_all [Restricted]

/-- the generic rewriting preserves the meaning of every CTL* formula, on every structure and path -/
theorem sat_restrict (K : Kripke σ) (f : Fm) : ∀ (π : Nat → σ) (i : Nat), sat K (restrict f) π i ↔ sat K f π i := by
  apply Fm.restrict.induct
    (motive_1 := fun fs => ∀ π i, (∃ f ∈ restrict.restrictList fs, sat K f π i) ↔ ∃ f ∈ fs, sat K f π i)
    (motive_3 := fun fs => ∀ π i, (∃ f ∈ restrict.restrictNegList fs, sat K f π i) ↔ ∃ f ∈ fs, ¬ sat K f π i)
    (motive_2 := fun f => ∀ π i, sat K (restrict f) π i ↔ sat K f π i)
  · intro π i; simp [restrict]
  · intro π i; simp [restrict]
  · intro n π i; simp [restrict]
  · intro a ih π i; simp [restrict, sat, sat_lnot, ih]
  · intro fs ih π i; simp only [restrict, sat, satAny_iff]; exact ih π i
  · intro fs ih π i
    simp only [restrict, sat, satAny_iff, satAll_iff, ih]
    push Not; rfl
  · intro a b iha ihb π i
    simp only [restrict, sat, satAny_iff, List.mem_cons, List.mem_nil_iff, or_false]
    constructor
    · rintro ⟨f, rfl | rfl, h⟩
      · exact Or.inl (by rwa [sat_lnot, iha] at h)
      · exact Or.inr ((ihb π i).mp h)
    · rintro (h | h)
      · exact ⟨_, Or.inl rfl, by rw [sat_lnot, iha]; exact h⟩
      · exact ⟨_, Or.inr rfl, (ihb π i).mpr h⟩
  · intro a ih π i; simp [restrict, sat, ih]
  · intro a ih π i; simp [restrict, sat, ih]
  · intro a ih π i
    simp only [restrict, sat, sat_lnot, ih]
    constructor
    · intro h j hj; by_contra hc; exact h ⟨j, hj, hc, fun _ _ _ => trivial⟩
    · rintro h ⟨j, hj, hc, _⟩; exact hc (h j hj)
  · intro a b iha ihb π i; simp [restrict, sat, iha, ihb]
  · intro a b iha ihb π i
    simp only [restrict, sat, sat_lnot, iha, ihb]
    push Not
    constructor
    · intro h j hj hk
      by_contra hc
      obtain ⟨k, h1, h2, h3⟩ := h j hj hc
      exact hk k h1 h2 h3
    · intro h j hj hc
      by_contra hall
      push Not at hall
      exact hc (h j hj (fun k h1 h2 hk => absurd hk (by
        have := hall k h1 h2; exact fun hk' => (this hk').elim)))
  · intro a ih π i
    simp only [restrict, sat, sat_lnot, ih]
    push Not; rfl
  · intro a ih π i; simp [restrict, sat, ih]
  · intro π i; simp [restrict.restrictList]
  · intro f fs ihf ihfs π i
    simp only [restrict.restrictList, List.mem_cons, exists_eq_or_imp, ihf, ihfs]
  · intro π i; simp [restrict.restrictNegList]
  · intro f fs ihf ihfs π i
    simp only [restrict.restrictNegList, List.mem_cons, exists_eq_or_imp, sat_lnot, ihf, ihfs]

theorem restrict_restricted (f : Fm) : Restricted (restrict f) := by
  apply Fm.restrict.induct
    (motive_1 := fun fs => Restricted.RestrictedList (restrict.restrictList fs))
    (motive_3 := fun fs => Restricted.RestrictedList (restrict.restrictNegList fs))
    (motive_2 := fun f => Restricted (restrict f))
  all_goals (intros; simp_all [restrict, restrict.restrictList, restrict.restrictNegList, Restricted,
    Restricted.RestrictedList, lnot_restricted])

/-- `LNot` never returns a formula that begins with two negations -/
theorem lnot_no_double (f : Fm) : ∀ g, lnot f ≠ .not (.not g) := by
  fun_induction lnot f
  · rename_i f' ih; exact ih
  · rename_i f' hne
    intro g h; exact hne (.not g) h
  · rename_i f' h1 h2
    intro g h
    injection h with h
    exact h2 g h

#print axioms lnot_no_double
#print axioms sat_restrict
#print axioms restrict_restricted
end PMC
