/-
  CTL-specific part of C05: the A/E clauses of CTL/language.py `get_equivalent_restricted_formula`
  (model: `Fm.restrictCTL`, PMC/Model/Syntax.lean) produce only {not, or, EX, EU, EG, atoms} and preserve meaning.
  Needs neither finiteness nor totality of K.
-/
import PMC.Proofs.Rewrite
namespace PMC
open Fm
variable {σ : Type}

/-- usable induction principle for the nested inductive `Fm` -/
theorem Fm.induct' {P : Fm → Prop}
    (tt : P .tt) (ff : P .ff) (ap : ∀ n, P (.ap n))
    (not : ∀ f, P f → P (.not f))
    (or : ∀ fs, (∀ f ∈ fs, P f) → P (.or fs))
    (and : ∀ fs, (∀ f ∈ fs, P f) → P (.and fs))
    (imp : ∀ f g, P f → P g → P (.imp f g))
    (X : ∀ f, P f → P (.X f)) (F : ∀ f, P f → P (.F f)) (G : ∀ f, P f → P (.G f))
    (U : ∀ f g, P f → P g → P (.U f g)) (R : ∀ f g, P f → P g → P (.R f g))
    (A : ∀ f, P f → P (.A f)) (E : ∀ f, P f → P (.E f)) : ∀ f, P f := by
  intro f
  exact go f
where
  go : ∀ f, P f
    | .tt => tt | .ff => ff | .ap n => ap n
    | .not f => not f (go f)
    | .or fs => or fs (goList fs)
    | .and fs => and fs (goList fs)
    | .imp f g => imp f g (go f) (go g)
    | .X f => X f (go f)
    | .F f => F f (go f)
    | .G f => G f (go f)
    | .U f g => U f g (go f) (go g)
    | .R f g => R f g (go f) (go g)
    | .A f => A f (go f)
    | .E f => E f (go f)
  goList : ∀ fs : List Fm, ∀ f ∈ fs, P f
    | [], _, h => by cases h
    | f :: fs, f', h => by
      rcases List.mem_cons.mp h with h | h
      · exact h ▸ go f
      · exact goList fs f' h

theorem isRestricted_iff (f : Fm) : f.isRestricted = true ↔ f.Restricted := by
  apply Fm.isRestricted.induct
    (motive_1 := fun fs => isRestricted.isRestrictedList fs = true ↔ Restricted.RestrictedList fs)
    (motive_2 := fun f => f.isRestricted = true ↔ f.Restricted)
  all_goals (intros; simp_all [isRestricted, isRestricted.isRestrictedList, Restricted, Restricted.RestrictedList])

/-- `LNot` keeps a formula inside the restricted CTL alphabet -/
theorem lnot_isRestrictedCTL (f : Fm) (h : f.isRestrictedCTL = true) : f.lnot.isRestrictedCTL = true := by
  fun_induction lnot f <;> simp_all [isRestrictedCTL]

/-- the CTL rewriting lands in the restricted CTL alphabet -/
theorem restrictCTL_restricted (f : Fm) (h : f.isCTLState = true) : f.restrictCTL.isRestrictedCTL = true := by
  revert h
  apply Fm.restrictCTL.induct
    (motive_1 := fun fs => isCTLState.isCTLStateList fs = true →
      isRestrictedCTL.isRestrictedCTLList (restrictCTL.restrictCTLList fs) = true)
    (motive_3 := fun fs => isCTLState.isCTLStateList fs = true →
      isRestrictedCTL.isRestrictedCTLList (restrictCTL.restrictCTLNegList fs) = true)
    (motive_2 := fun f => f.isCTLState = true → f.restrictCTL.isRestrictedCTL = true)
  all_goals (intros; simp_all [restrictCTL, restrictCTL.restrictCTLList, restrictCTL.restrictCTLNegList,
    isRestrictedCTL, isRestrictedCTL.isRestrictedCTLList, isCTLState, isCTLState.isCTLStateList,
    lnot_isRestrictedCTL])

/-- path-wise: ¬(p U q) ≡ (¬q U ¬(p ∨ q)) ∨ G ¬q -/
theorem not_until_iff (p q : Nat → Prop) (i : Nat) :
    (¬ ∃ j, i ≤ j ∧ q j ∧ ∀ k, i ≤ k → k < j → p k) ↔
    ((∃ j, i ≤ j ∧ ¬ (p j ∨ q j) ∧ ∀ k, i ≤ k → k < j → ¬ q k) ∨ ∀ j, i ≤ j → ¬ q j) := by
  classical
  constructor
  · intro h
    by_cases hq : ∃ j, i ≤ j ∧ q j
    · left
      have hj0 := Nat.find_spec hq
      have hmin : ∀ k, k < Nat.find hq → ¬ (i ≤ k ∧ q k) := fun k hk => Nat.find_min hq hk
      have : ¬ ∀ k, i ≤ k → k < Nat.find hq → p k := fun hall => h ⟨_, hj0.1, hj0.2, hall⟩
      push Not at this
      obtain ⟨k, hik, hk, hpk⟩ := this
      refine ⟨k, hik, ?_, ?_⟩
      · rintro (hp | hq')
        · exact hpk hp
        · exact hmin k hk ⟨hik, hq'⟩
      · intro k' hik' hk' hq'
        exact hmin k' (by omega) ⟨hik', hq'⟩
    · right
      intro j hj hqj
      exact hq ⟨j, hj, hqj⟩
  · rintro (⟨j, hj, hnpq, hnq⟩ | h) ⟨j', hj', hq', hp'⟩
    · rcases Nat.lt_trichotomy j' j with hlt | heq | hgt
      · exact hnq j' hj' hlt hq'
      · subst heq; exact hnpq (Or.inr hq')
      · exact hnpq (Or.inl (hp' j hj hgt))
    · exact h j' hj' hq'

/-- path-wise: p R q ≡ (q U (p ∧ q)) ∨ G q -/
theorem release_iff (p q : Nat → Prop) (i : Nat) :
    (∀ j, i ≤ j → (∀ k, i ≤ k → k < j → ¬ p k) → q j) ↔
    ((∃ j, i ≤ j ∧ ¬ (¬ p j ∨ ¬ q j) ∧ ∀ k, i ≤ k → k < j → q k) ∨ ∀ j, i ≤ j → q j) := by
  classical
  constructor
  · intro h
    by_cases hp : ∃ j, i ≤ j ∧ p j
    · left
      have hj0 := Nat.find_spec hp
      have hmin : ∀ k, k < Nat.find hp → ¬ (i ≤ k ∧ p k) := fun k hk => Nat.find_min hp hk
      refine ⟨Nat.find hp, hj0.1, ?_, ?_⟩
      · rintro (h1 | h1)
        · exact h1 hj0.2
        · exact h1 (h _ hj0.1 fun k hik hk hpk => hmin k hk ⟨hik, hpk⟩)
      · intro k hik hk
        exact h k hik fun k' hik' hk' hpk' => hmin k' (by omega) ⟨hik', hpk'⟩
    · right
      intro j hj
      exact h j hj fun k hik _ hpk => hp ⟨k, hik, hpk⟩
  · rintro (⟨j0, hj0, hpq, hq⟩ | h) j hj hnp
    · have hpq' : p j0 ∧ q j0 := by
        constructor
        · by_contra hc; exact hpq (Or.inl hc)
        · by_contra hc; exact hpq (Or.inr hc)
      rcases Nat.lt_trichotomy j j0 with hlt | heq | hgt
      · exact hq j hj hlt
      · subst heq; exact hpq'.2
      · exact absurd hpq'.1 (hnp j0 hj0 hgt)
    · exact h j hj

theorem sat_restrictCTL_aux (K : Kripke σ) (f : Fm) :
    f.isCTLState = true → ∀ (π : Nat → σ) (i : Nat), sat K f.restrictCTL π i ↔ sat K f π i := by
  apply Fm.restrictCTL.induct
    (motive_1 := fun fs => isCTLState.isCTLStateList fs = true → ∀ π i,
      (∃ f ∈ restrictCTL.restrictCTLList fs, sat K f π i) ↔ ∃ f ∈ fs, sat K f π i)
    (motive_3 := fun fs => isCTLState.isCTLStateList fs = true → ∀ π i,
      (∃ f ∈ restrictCTL.restrictCTLNegList fs, sat K f π i) ↔ ∃ f ∈ fs, ¬ sat K f π i)
    (motive_2 := fun f => f.isCTLState = true → ∀ π i, sat K (restrictCTL f) π i ↔ sat K f π i)
  · intro _ π i; simp [restrictCTL]
  · intro _ π i; simp [restrictCTL]
  · intro n _ π i; simp [restrictCTL]
  · -- not
    intro f ih h π i; simp only [isCTLState] at h
    simp only [restrictCTL, sat, sat_lnot, ih h]
  · -- or
    intro fs ih h π i; simp only [isCTLState] at h
    simp only [restrictCTL, sat, satAny_iff]; exact ih h π i
  · -- and
    intro fs ih h π i; simp only [isCTLState] at h
    simp only [restrictCTL, sat, satAny_iff, satAll_iff, ih h]
    push Not; rfl
  · -- imp
    intro f g ihf ihg h π i; simp only [isCTLState, Bool.and_eq_true] at h
    simp only [restrictCTL, sat, sat.satAny, sat_lnot, ihf h.1, ihg h.2, or_false]
  · -- AX
    intro f ih h π i; simp only [isCTLState] at h
    simp only [restrictCTL, sat, sat_lnot, ih h]
    push Not; rfl
  · -- AF
    intro f ih h π i; simp only [isCTLState] at h
    simp only [restrictCTL, sat, sat_lnot, ih h]
    push Not; rfl
  · -- AG
    intro f ih h π i; simp only [isCTLState] at h
    simp only [restrictCTL, sat, sat_lnot, ih h]
    constructor
    · intro hn π' hp h0 j hj
      by_contra hc
      exact hn ⟨π', hp, h0, j, hj, hc, fun _ _ _ => trivial⟩
    · rintro hA ⟨π', hp, h0, j, hj, hc, _⟩
      exact hc (hA π' hp h0 j hj)
  · -- AU
    intro f g ihg ihf h π i; simp only [isCTLState, Bool.and_eq_true] at h
    simp only [restrictCTL, sat, sat.satAny, sat_lnot, ihf h.1, ihg h.2, or_false]
    constructor
    · intro hn π' hp h0
      by_contra hc
      rw [not_until_iff (fun k => sat K f π' k) (fun k => sat K g π' k) 0] at hc
      rcases hc with hc | hc
      · exact hn (Or.inl ⟨π', hp, h0, hc⟩)
      · exact hn (Or.inr ⟨π', hp, h0, hc⟩)
    · rintro hA (⟨π', hp, h0, hc⟩ | ⟨π', hp, h0, hc⟩)
      · exact (not_until_iff (fun k => sat K f π' k) (fun k => sat K g π' k) 0).mpr (Or.inl hc) (hA π' hp h0)
      · exact (not_until_iff (fun k => sat K f π' k) (fun k => sat K g π' k) 0).mpr (Or.inr hc) (hA π' hp h0)
  · -- AR
    intro f g ihf ihg h π i; simp only [isCTLState, Bool.and_eq_true] at h
    simp only [restrictCTL, sat, sat_lnot, ihf h.1, ihg h.2]
    constructor
    · intro hn π' hp h0 j hj hk
      by_contra hc
      exact hn ⟨π', hp, h0, j, hj, hc, hk⟩
    · rintro hA ⟨π', hp, h0, j, hj, hc, hk⟩
      exact hc (hA π' hp h0 j hj hk)
  · -- EX
    intro f ih h π i; simp only [isCTLState] at h
    simp only [restrictCTL, sat, ih h]
  · -- EF
    intro f ih h π i; simp only [isCTLState] at h
    simp only [restrictCTL, sat, ih h]
    constructor
    · rintro ⟨π', hp, h0, j, hj, hc, _⟩; exact ⟨π', hp, h0, j, hj, hc⟩
    · rintro ⟨π', hp, h0, j, hj, hc⟩; exact ⟨π', hp, h0, j, hj, hc, fun _ _ _ => trivial⟩
  · -- EG
    intro f ih h π i; simp only [isCTLState] at h
    simp only [restrictCTL, sat, ih h]
  · -- EU
    intro f g ihf ihg h π i; simp only [isCTLState, Bool.and_eq_true] at h
    simp only [restrictCTL, sat, ihf h.1, ihg h.2]
  · -- ER
    intro f g ihg ihf h π i; simp only [isCTLState, Bool.and_eq_true] at h
    simp only [restrictCTL, sat, sat.satAny, sat_lnot, ihf h.1, ihg h.2, or_false]
    constructor
    · rintro (⟨π', hp, h0, hc⟩ | ⟨π', hp, h0, hc⟩)
      · exact ⟨π', hp, h0, (release_iff (fun k => sat K f π' k) (fun k => sat K g π' k) 0).mpr (Or.inl hc)⟩
      · exact ⟨π', hp, h0, (release_iff (fun k => sat K f π' k) (fun k => sat K g π' k) 0).mpr (Or.inr hc)⟩
    · rintro ⟨π', hp, h0, hc⟩
      rcases (release_iff (fun k => sat K f π' k) (fun k => sat K g π' k) 0).mp hc with hc | hc
      · exact Or.inl ⟨π', hp, h0, hc⟩
      · exact Or.inr ⟨π', hp, h0, hc⟩
  · intro f _ h; simp [isCTLState] at h
  · intro f _ h; simp [isCTLState] at h
  · intro f _ h; simp [isCTLState] at h
  · intro f g _ _ h; simp [isCTLState] at h
  · intro f g _ _ h; simp [isCTLState] at h
  · intro f _ _ _ _ _ h; simp_all [isCTLState]
  · intro f _ _ _ _ _ h; simp_all [isCTLState]
  · intro _ π i; simp [restrictCTL.restrictCTLList]
  · intro f fs ihf ihfs h π i
    simp only [isCTLState.isCTLStateList, Bool.and_eq_true] at h
    simp only [restrictCTL.restrictCTLList, List.mem_cons, exists_eq_or_imp, ihf h.1, ihfs h.2]
  · intro _ π i; simp [restrictCTL.restrictCTLNegList]
  · intro f fs ihf ihfs h π i
    simp only [isCTLState.isCTLStateList, Bool.and_eq_true] at h
    simp only [restrictCTL.restrictCTLNegList, List.mem_cons, exists_eq_or_imp, sat_lnot, ihf h.1, ihfs h.2]

/-- … and denotes the same thing on every structure, path and position -/
theorem sat_restrictCTL (K : Kripke σ) (f : Fm) (h : f.isCTLState = true) (π : Nat → σ) (i : Nat) :
    sat K f.restrictCTL π i ↔ sat K f π i := sat_restrictCTL_aux K f h π i

/-- restricted CTL formulas are CTL state formulas -/
theorem isCTLState_of_isRestrictedCTL (f : Fm) (h : f.isRestrictedCTL = true) : f.isCTLState = true := by
  revert h
  apply Fm.isRestrictedCTL.induct
    (motive_1 := fun fs => isRestrictedCTL.isRestrictedCTLList fs = true → isCTLState.isCTLStateList fs = true)
    (motive_2 := fun f => f.isRestrictedCTL = true → f.isCTLState = true)
  all_goals (intros; simp_all [isRestrictedCTL, isRestrictedCTL.isRestrictedCTLList, isCTLState, isCTLState.isCTLStateList])

/-- a state formula is evaluated at the current state only -/
theorem sat_state_indep (K : Kripke σ) (f : Fm) (h : f.isCTLSState = true) (π π' : Nat → σ) (i j : Nat)
    (hij : π i = π' j) : sat K f π i ↔ sat K f π' j := by
  revert h
  apply Fm.isCTLSState.induct
    (motive_1 := fun fs => isCTLSState.isCTLSStateList fs = true → ∀ f ∈ fs, (sat K f π i ↔ sat K f π' j))
    (motive_2 := fun f => f.isCTLSState = true → (sat K f π i ↔ sat K f π' j))
  · simp [sat]
  · simp [sat]
  · intro n _; simp [sat, hij]
  · intro f ih h; simp only [isCTLSState] at h; simp [sat, ih h]
  · intro fs ih h; simp only [isCTLSState] at h
    simp only [sat, satAny_iff]
    exact exists_congr fun f => and_congr_right fun hf => ih h f hf
  · intro fs ih h; simp only [isCTLSState] at h
    simp only [sat, satAll_iff]
    exact forall_congr' fun f => forall_congr' fun hf => ih h f hf
  · intro f g ihf ihg h; simp only [isCTLSState, Bool.and_eq_true] at h
    simp [sat, ihf h.1, ihg h.2]
  · intro f _; simp [sat, hij]
  · intro f _; simp [sat, hij]
  · intro t _ _ _ _ _ _ _ _ _ h; simp_all [isCTLSState]
  · intro _ f hf; cases hf
  · intro f fs ihf ihfs h g hg
    simp only [isCTLSState.isCTLSStateList, Bool.and_eq_true] at h
    rcases List.mem_cons.mp hg with rfl | hg
    · exact ihf h.1
    · exact ihfs h.2 g hg

theorem isCTLSState_of_isCTLState (f : Fm) (h : f.isCTLState = true) : f.isCTLSState = true := by
  revert h
  apply Fm.isCTLState.induct
    (motive_1 := fun fs => isCTLState.isCTLStateList fs = true → isCTLSState.isCTLSStateList fs = true)
    (motive_2 := fun f => f.isCTLState = true → f.isCTLSState = true)
  all_goals (intros; simp_all [isCTLSState, isCTLSState.isCTLSStateList, isCTLState, isCTLState.isCTLStateList])

#print axioms restrictCTL_restricted
#print axioms sat_restrictCTL
#print axioms sat_state_indep
end PMC
