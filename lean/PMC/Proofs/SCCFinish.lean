import PMC.Proofs.SCCProof
import Mathlib.Data.List.TakeWhile

set_option linter.unusedSectionVars false
set_option linter.unusedSimpArgs false
set_option linter.unusedVariables false

namespace PMC.SCC
open Relation

variable {σ : Type} [DecidableEq σ]

/-- facts available when `v` (gray head) has all its successors discovered -/
structure FinCtx (next : σ → List σ) (st : St σ) (v : σ) (P : List σ) : Prop where
  inv : Inv next st (v :: P)
  succ : ∀ w ∈ next v, st.disc w ≠ none

namespace FinCtx
variable {next : σ → List σ} {st : St σ} {v : σ} {P : List σ} (c : FinCtx next st v P)
include c

theorem v_notin_inscc : v ∉ st.inscc := fun h => (c.inv.dj1 v h).2 (by simp)
theorem v_notin_stk : v ∉ st.stk := fun h => c.inv.dj2 v h (by simp)
theorem v_notin_P : v ∉ P := (List.nodup_cons.mp c.inv.ndP).1
theorem lowv_init : st.low v = st.D v := c.inv.lowP v (by simp)
theorem P_lt : ∀ p ∈ P, st.D p < st.D v ∧ Reach next p v := c.inv.chain.head_gt
theorem stk_notin_inscc : ∀ x ∈ st.stk, x ∉ st.inscc := fun x hx h => (c.inv.dj1 x h).1 hx
theorem stk_ne_v : ∀ x ∈ st.stk, x ≠ v := fun x hx h => c.v_notin_stk (h ▸ hx)
theorem stk_D_ne : ∀ x ∈ st.stk, st.D x ≠ st.D v := fun x hx h =>
  c.stk_ne_v x hx (c.inv.inj x v (Or.inl hx) (Or.inr (by simp)) h)

/-- an open node is on the stack, is `v`, or is a proper gray ancestor -/
theorem open_of_visited {w : σ} (hw : st.disc w ≠ none) (hn : w ∉ st.inscc) :
    w ∈ st.stk ∨ w = v ∨ w ∈ P := by
  rcases (c.inv.part w).mp hw with h | h | h
  · exact absurd h hn
  · exact Or.inl h
  · rcases List.mem_cons.mp h with h | h
    · exact Or.inr (Or.inl h)
    · exact Or.inr (Or.inr h)

theorem low_le_D_of_open {w : σ} (hw : w ∈ st.stk ∨ w = v ∨ w ∈ P) : st.low w ≤ st.D w := by
  rcases hw with h | rfl | h
  · exact le_of_lt (c.inv.lowS w h).1
  · exact le_of_eq c.lowv_init
  · exact le_of_eq (c.inv.lowP w (List.mem_cons_of_mem _ h))

/-- every stack entry above `v` has lowlink at least the folded lowlink of `v` -/
theorem fold_le_low_top :
    ∀ x ∈ st.stk, st.D v < st.D x → lowFold st (st.D v) (next v) (st.low v) ≤ st.low x := by
  intro x hx hlt
  obtain ⟨ch, hc1, hc2, hc3, _, hc5⟩ := c.inv.owner v (by simp) x hx hlt (by
    intro q hq hvq
    rcases List.mem_cons.mp hq with rfl | hq
    · exact absurd hvq (lt_irrefl _)
    · exact absurd hvq (not_lt.mpr (le_of_lt (c.P_lt q hq).1)))
  exact le_trans ((lowFold_le st (st.D v) (next v) (st.low v) ch hc1 (c.stk_notin_inscc ch hc2)).1 hc3) hc5

end FinCtx

/-! ### case: `v` is pushed (lowlink below its number) -/

theorem finish_push {next : σ → List σ} {st : St σ} {v : σ} {P : List σ} (c : FinCtx next st v P)
    (hlt : lowFold st (st.D v) (next v) (st.low v) ≠ st.D v) :
    Inv next (finish next v st) P := by
  have h := c.inv
  have hfin : finish next v st =
      { st with low := upd st.low v (lowFold st (st.D v) (next v) (st.low v)), stk := v :: st.stk } := by
    simp only [finish]; rw [if_neg hlt]
  rw [hfin]
  generalize hlowv : lowFold st (st.D v) (next v) (st.low v) = lowv at hlt ⊢
  have hle : lowv ≤ st.D v := by
    have := lowFold_le_init st (st.D v) (next v) (st.low v)
    rw [hlowv] at this; exact le_trans this (le_of_eq c.lowv_init)
  have hlt' : lowv < st.D v := lt_of_le_of_ne hle hlt
  generalize hst' : ({ st with low := upd st.low v lowv, stk := v :: st.stk } : St σ) = st'
  have e_stk : st'.stk = v :: st.stk := by rw [← hst']
  have e_inscc : st'.inscc = st.inscc := by rw [← hst']
  have e_out : st'.out = st.out := by rw [← hst']
  have e_time : st'.time = st.time := by rw [← hst']
  have e_disc : st'.disc = st.disc := by rw [← hst']
  have e_D : ∀ x, st'.D x = st.D x := fun x => by rw [← hst']; rfl
  have e_lowv : st'.low v = lowv := by rw [← hst']; simp [upd]
  have e_low : ∀ x, x ≠ v → st'.low x = st.low x := fun x hx => by rw [← hst']; simp [upd, hx]
  refine
    { part := ?_, dj1 := ?_, dj2 := ?_, ndS := ?_, ndP := ?_, le_time := ?_, inj := ?_, chain := ?_,
      lowP := ?_, fin := ?_, closed := ?_, reachP := ?_, lowS := ?_, edgeS := ?_, split := ?_,
      owner := ?_, outMem := ?_, outSC := ?_, outND := ?_, prefClosed := ?_ }
  · intro x
    rw [e_disc, e_inscc, e_stk, h.part x]; simp only [List.mem_cons]; tauto
  · intro x hx
    rw [e_inscc] at hx; rw [e_stk]
    obtain ⟨h1, h2⟩ := h.dj1 x hx
    refine ⟨?_, fun hp => h2 (List.mem_cons_of_mem _ hp)⟩
    simp only [List.mem_cons, not_or]
    exact ⟨fun hxv => c.v_notin_inscc (hxv ▸ hx), h1⟩
  · intro x hx
    rw [e_stk] at hx
    rcases List.mem_cons.mp hx with rfl | hx
    · exact c.v_notin_P
    · exact fun hp => h.dj2 x hx (List.mem_cons_of_mem _ hp)
  · rw [e_stk]; exact List.nodup_cons.mpr ⟨c.v_notin_stk, h.ndS⟩
  · exact (List.nodup_cons.mp h.ndP).2
  · intro x hx; rw [e_disc] at hx; rw [e_D, e_time]; exact h.le_time x hx
  · intro x y hx hy hxy
    rw [e_stk] at hx hy; rw [e_D, e_D] at hxy
    apply h.inj x y ?_ ?_ hxy
    · rcases hx with hx | hx
      · rcases List.mem_cons.mp hx with rfl | hx
        · exact Or.inr (by simp)
        · exact Or.inl hx
      · exact Or.inr (List.mem_cons_of_mem _ hx)
    · rcases hy with hy | hy
      · rcases List.mem_cons.mp hy with rfl | hy
        · exact Or.inr (by simp)
        · exact Or.inl hy
      · exact Or.inr (List.mem_cons_of_mem _ hy)
  · exact h.chain.tail.congr (fun x _ => e_D x)
  · intro p hp
    rw [e_low p (fun e => c.v_notin_P (e ▸ hp)), e_D]
    exact h.lowP p (List.mem_cons_of_mem _ hp)
  · intro x hx w hw
    rw [e_stk] at hx; rw [e_disc]
    rcases List.mem_cons.mp hx with rfl | hx
    · exact c.succ w hw
    · exact h.fin x hx w hw
  · intro x hx w hw; rw [e_inscc] at hx ⊢; exact h.closed x hx w hw
  · intro x hx p hp hl
    rw [e_stk] at hx; rw [e_D, e_D] at hl
    rcases List.mem_cons.mp hx with rfl | hx
    · exact (c.P_lt p hp).2
    · exact h.reachP x hx p (List.mem_cons_of_mem _ hp) hl
  · intro x hx
    rw [e_stk] at hx
    rcases List.mem_cons.mp hx with rfl | hx
    · rw [e_lowv, e_D]
      refine ⟨hlt', ?_⟩
      rcases lowFold_eq st (st.D x) (next x) (st.low x) with he | ⟨w, hw, hns, hcase⟩
      · rw [hlowv] at he; exact absurd (he.trans c.lowv_init) hlt
      · rw [hlowv] at hcase
        have hwopen := c.open_of_visited (c.succ w hw) hns
        rcases hcase with ⟨hgt, he⟩ | ⟨hle', he⟩
        · have hws : w ∈ st.stk := by
            rcases hwopen with h1 | rfl | h1
            · exact h1
            · exact absurd hgt (lt_irrefl _)
            · exact absurd hgt (not_lt.mpr (le_of_lt (c.P_lt w h1).1))
          obtain ⟨_, y, hy, hy2, hy3⟩ := h.lowS w hws
          refine ⟨y, ?_, ?_, ReflTransGen.head hw hy3⟩
          · rw [e_stk]
            rcases hy with hy | hy
            · exact Or.inl (List.mem_cons_of_mem _ hy)
            · rcases List.mem_cons.mp hy with rfl | hy
              · exfalso; rw [← he] at hy2; omega
              · exact Or.inr hy
          · rw [e_D, hy2]; exact he.symm
        · refine ⟨w, ?_, ?_, ReflTransGen.single hw⟩
          · rw [e_stk]
            rcases hwopen with h1 | rfl | h1
            · exact Or.inl (List.mem_cons_of_mem _ h1)
            · exfalso; omega
            · exact Or.inr h1
          · rw [e_D]; exact he.symm
    · have hxv := c.stk_ne_v x hx
      rw [e_low x hxv, e_D]
      obtain ⟨h1, y, hy, hy2, hy3⟩ := h.lowS x hx
      refine ⟨h1, y, ?_, by rw [e_D]; exact hy2, hy3⟩
      rw [e_stk]
      rcases hy with hy | hy
      · exact Or.inl (List.mem_cons_of_mem _ hy)
      · rcases List.mem_cons.mp hy with rfl | hy
        · exact Or.inl (by simp)
        · exact Or.inr hy
  · intro x hx w hw
    rw [e_stk] at hx; rw [e_inscc, e_D]
    rcases List.mem_cons.mp hx with rfl | hx
    · by_cases hns : w ∈ st.inscc
      · exact Or.inl hns
      · right
        rw [e_lowv]
        have hwopen := c.open_of_visited (c.succ w hw) hns
        obtain ⟨f1, f2⟩ := lowFold_le st (st.D x) (next x) (st.low x) w hw hns
        rw [hlowv] at f1 f2
        rcases Nat.lt_or_ge (st.D x) (st.D w) with hgt | hge
        · exact le_trans (f1 hgt) (c.low_le_D_of_open hwopen)
        · exact f2 hge
    · have hxv := c.stk_ne_v x hx
      rw [e_low x hxv]; exact h.edgeS x hx w hw
  · intro p hp
    obtain ⟨top, bot, e, h1, h2⟩ := h.split p (List.mem_cons_of_mem _ hp)
    refine ⟨v :: top, bot, by rw [e_stk, e]; simp, ?_, ?_⟩
    · intro x hx
      rw [e_D, e_D]
      rcases List.mem_cons.mp hx with rfl | hx
      · exact (c.P_lt p hp).1
      · exact h1 x hx
    · intro x hx; rw [e_D, e_D]; exact h2 x hx
  · intro p hp x hx hpx hq
    rw [e_stk] at hx; rw [e_D, e_D] at hpx
    have hq' : ∀ q ∈ P, st.D p < st.D q → st.D x < st.D q := by
      intro q hqm hlt2; have := hq q hqm (by rw [e_D, e_D]; exact hlt2); rwa [e_D, e_D] at this
    have hhead : st.D v ≤ st.D x → v ∈ next p := by
      intro hvx
      cases P with
      | nil => cases hp
      | cons p' rest =>
        obtain ⟨⟨hvp', hlt1⟩, hrest⟩ := h.chain
        rcases List.mem_cons.mp hp with rfl | hp'
        · exact hvp'
        · exfalso
          have h1 := (GrayChain.head_gt hrest p hp').1
          have h2 := hq' p' (by simp) h1
          omega
    rcases List.mem_cons.mp hx with rfl | hx
    · refine ⟨x, hhead le_rfl, by rw [e_stk]; simp, by rw [e_D, e_D]; exact hpx, le_rfl, le_rfl⟩
    · have hxv := c.stk_ne_v x hx
      rcases Nat.lt_or_ge (st.D x) (st.D v) with hlow | hhigh
      · obtain ⟨ch, hc1, hc2, hc3, hc4, hc5⟩ := h.owner p (List.mem_cons_of_mem _ hp) x hx hpx (by
          intro q hqm hpq
          rcases List.mem_cons.mp hqm with rfl | hqm
          · exact hlow
          · exact hq' q hqm hpq)
        refine ⟨ch, hc1, by rw [e_stk]; exact List.mem_cons_of_mem _ hc2, by rw [e_D, e_D]; exact hc3,
          by rw [e_D, e_D]; exact hc4, ?_⟩
        rw [e_low ch (c.stk_ne_v ch hc2), e_low x hxv]; exact hc5
      · have hgt : st.D v < st.D x := lt_of_le_of_ne hhigh (fun e => c.stk_D_ne x hx e.symm)
        refine ⟨v, hhead hhigh, by rw [e_stk]; simp, by rw [e_D, e_D]; exact (c.P_lt p hp).1,
          by rw [e_D, e_D]; exact hhigh, ?_⟩
        rw [e_lowv, e_low x hxv]
        have := c.fold_le_low_top x hx hgt
        rwa [hlowv] at this
  · intro x; rw [e_inscc, e_out]; exact h.outMem x
  · rw [e_out]; exact h.outSC
  · rw [e_out]; exact h.outND
  · rw [e_out]; exact h.prefClosed

/-! ### case: `v` is the root of a component (lowlink equals its number) -/

theorem finish_root {next : σ → List σ} {st : St σ} {v : σ} {P : List σ} (c : FinCtx next st v P)
    (heq : lowFold st (st.D v) (next v) (st.low v) = st.D v) :
    Inv next (finish next v st) P := by
  have h := c.inv
  obtain ⟨top, bot, estk, htop, hbot⟩ := h.split v (by simp)
  have htw := takeWhile_dropWhile_of_split (fun k => decide (st.D k > st.D v)) top bot
    (fun x hx => by simpa using htop x hx) (fun x hx => by simpa using (le_of_lt (hbot x hx)))
  have hfin : finish next v st =
      { st with low := upd st.low v (st.D v), inscc := (v :: top) ++ st.inscc, stk := bot,
                out := st.out ++ [v :: top] } := by
    simp only [finish]; rw [if_pos heq, heq, estk, htw.1, htw.2]
  rw [hfin]
  generalize hst' : St.mk st.disc (upd st.low v (st.D v)) ((v :: top) ++ st.inscc) bot st.time (st.out ++ [v :: top]) = st'
  have e_stk : st'.stk = bot := by rw [← hst']
  have e_inscc : st'.inscc = (v :: top) ++ st.inscc := by rw [← hst']
  have e_out : st'.out = st.out ++ [v :: top] := by rw [← hst']
  have e_time : st'.time = st.time := by rw [← hst']
  have e_disc : st'.disc = st.disc := by rw [← hst']
  have e_D : ∀ x, st'.D x = st.D x := fun x => by rw [← hst']; rfl
  have e_low : ∀ x, x ≠ v → st'.low x = st.low x := fun x hx => by rw [← hst']; simp [upd, hx]
  -- membership bookkeeping
  have top_stk : ∀ x ∈ top, x ∈ st.stk := fun x hx => by rw [estk]; simp [hx]
  have bot_stk : ∀ x ∈ bot, x ∈ st.stk := fun x hx => by rw [estk]; simp [hx]
  have nd : (top ++ bot).Nodup := estk ▸ h.ndS
  have top_bot : ∀ x ∈ top, x ∉ bot := fun x hx hb => (List.nodup_append.mp nd).2.2 x hx x hb rfl
  have stk_cases : ∀ x ∈ st.stk, x ∈ top ∨ x ∈ bot := fun x hx => by rw [estk] at hx; simpa using hx
  -- an open node numbered at least `D v` is `v` or lies in `top`
  have big_open : ∀ y, (y ∈ st.stk ∨ y ∈ v :: P) → st.D v ≤ st.D y → y = v ∨ y ∈ top := by
    intro y hy hge
    rcases hy with hy | hy
    · rcases stk_cases y hy with h1 | h1
      · exact Or.inr h1
      · exact absurd (hbot y h1) (not_lt.mpr hge)
    · rcases List.mem_cons.mp hy with rfl | hy
      · exact Or.inl rfl
      · exact absurd (c.P_lt y hy).1 (not_lt.mpr hge)
  -- (A1) lowlinks of the popped entries are at least D v
  have A1 : ∀ x ∈ top, st.D v ≤ st.low x := fun x hx => by
    have := c.fold_le_low_top x (top_stk x hx) (htop x hx); rwa [heq] at this
  -- (A2) every popped entry reaches v
  have A2 : ∀ n, ∀ x ∈ top, st.D x ≤ n → Reach next x v := by
    intro n
    induction n with
    | zero =>
      intro x hx hle
      have := htop x hx; omega
    | succ n ih =>
      intro x hx hle
      obtain ⟨hl, y, hy, hy2, hy3⟩ := h.lowS x (top_stk x hx)
      have hge : st.D v ≤ st.D y := by rw [hy2]; exact A1 x hx
      rcases big_open y hy hge with rfl | hyt
      · exact hy3
      · exact hy3.trans (ih y hyt (by omega))
  have A2' : ∀ x ∈ top, Reach next x v := fun x hx => A2 (st.D x) x hx le_rfl
  have vtop_reach : ∀ x ∈ v :: top, Reach next x v ∧ Reach next v x := by
    intro x hx
    rcases List.mem_cons.mp hx with rfl | hx
    · exact ⟨.refl, .refl⟩
    · exact ⟨A2' x hx, h.reachP x (top_stk x hx) v (by simp) (htop x hx)⟩
  -- (A3) the new component together with the old ones is closed under successors
  have A3 : ∀ x ∈ v :: top, ∀ w ∈ next x, w ∈ (v :: top) ++ st.inscc := by
    intro x hx w hw
    by_cases hns : w ∈ st.inscc
    · simp [hns]
    · have hwvis : st.disc w ≠ none := by
        rcases List.mem_cons.mp hx with rfl | hx
        · exact c.succ w hw
        · exact h.fin x (top_stk x hx) w hw
      have hwopen : w ∈ st.stk ∨ w ∈ v :: P := by
        rcases c.open_of_visited hwvis hns with h1 | rfl | h1
        · exact Or.inl h1
        · exact Or.inr (by simp)
        · exact Or.inr (List.mem_cons_of_mem _ h1)
      rcases Nat.lt_or_ge (st.D w) (st.D v) with hlt | hge
      · exfalso
        rcases List.mem_cons.mp hx with rfl | hx
        · have := (lowFold_le st (st.D x) (next x) (st.low x) w hw hns).2 (le_of_lt hlt)
          rw [heq] at this; omega
        · rcases h.edgeS x (top_stk x hx) w hw with h1 | h1
          · exact hns h1
          · have := A1 x hx; omega
      · rcases big_open w hwopen hge with rfl | h1
        · simp
        · simp [h1]
  refine
    { part := ?_, dj1 := ?_, dj2 := ?_, ndS := ?_, ndP := ?_, le_time := ?_, inj := ?_, chain := ?_,
      lowP := ?_, fin := ?_, closed := ?_, reachP := ?_, lowS := ?_, edgeS := ?_, split := ?_,
      owner := ?_, outMem := ?_, outSC := ?_, outND := ?_, prefClosed := ?_ }
  · intro x
    rw [e_disc, e_inscc, e_stk, h.part x, estk]
    simp only [List.mem_cons, List.mem_append]; tauto
  · intro x hx
    rw [e_inscc] at hx; rw [e_stk]
    rcases List.mem_append.mp hx with hx | hx
    · rcases List.mem_cons.mp hx with rfl | hx
      · exact ⟨fun hb => c.v_notin_stk (bot_stk _ hb), c.v_notin_P⟩
      · exact ⟨top_bot x hx, fun hp => h.dj2 x (top_stk x hx) (List.mem_cons_of_mem _ hp)⟩
    · obtain ⟨h1, h2⟩ := h.dj1 x hx
      exact ⟨fun hb => h1 (bot_stk x hb), fun hp => h2 (List.mem_cons_of_mem _ hp)⟩
  · intro x hx
    rw [e_stk] at hx
    exact fun hp => h.dj2 x (bot_stk x hx) (List.mem_cons_of_mem _ hp)
  · rw [e_stk]; exact (List.nodup_append.mp nd).2.1
  · exact (List.nodup_cons.mp h.ndP).2
  · intro x hx; rw [e_disc] at hx; rw [e_D, e_time]; exact h.le_time x hx
  · intro x y hx hy hxy
    rw [e_stk] at hx hy; rw [e_D, e_D] at hxy
    apply h.inj x y ?_ ?_ hxy
    · rcases hx with hx | hx
      · exact Or.inl (bot_stk x hx)
      · exact Or.inr (List.mem_cons_of_mem _ hx)
    · rcases hy with hy | hy
      · exact Or.inl (bot_stk y hy)
      · exact Or.inr (List.mem_cons_of_mem _ hy)
  · exact h.chain.tail.congr (fun x _ => e_D x)
  · intro p hp
    rw [e_low p (fun e => c.v_notin_P (e ▸ hp)), e_D]
    exact h.lowP p (List.mem_cons_of_mem _ hp)
  · intro x hx w hw
    rw [e_stk] at hx; rw [e_disc]
    exact h.fin x (bot_stk x hx) w hw
  · intro x hx w hw
    rw [e_inscc] at hx ⊢
    rcases List.mem_append.mp hx with hx | hx
    · exact A3 x hx w hw
    · exact List.mem_append_right _ (h.closed x hx w hw)
  · intro x hx p hp hl
    rw [e_stk] at hx; rw [e_D, e_D] at hl
    exact h.reachP x (bot_stk x hx) p (List.mem_cons_of_mem _ hp) hl
  · intro x hx
    rw [e_stk] at hx
    have hxs := bot_stk x hx
    have hxv := c.stk_ne_v x hxs
    rw [e_low x hxv, e_D]
    obtain ⟨h1, y, hy, hy2, hy3⟩ := h.lowS x hxs
    refine ⟨h1, y, ?_, by rw [e_D]; exact hy2, hy3⟩
    rw [e_stk]
    have hyD : st.D y < st.D v := by rw [hy2]; exact lt_trans h1 (hbot x hx)
    rcases hy with hy | hy
    · rcases stk_cases y hy with h2 | h2
      · exact absurd (htop y h2) (not_lt.mpr (le_of_lt hyD))
      · exact Or.inl h2
    · rcases List.mem_cons.mp hy with rfl | hy
      · exact absurd hyD (lt_irrefl _)
      · exact Or.inr hy
  · intro x hx w hw
    rw [e_stk] at hx
    have hxs := bot_stk x hx
    rw [e_inscc, e_D, e_low x (c.stk_ne_v x hxs)]
    rcases h.edgeS x hxs w hw with h1 | h1
    · exact Or.inl (List.mem_append_right _ h1)
    · exact Or.inr h1
  · intro p hp
    obtain ⟨tp, bp, e, h1, h2⟩ := h.split p (List.mem_cons_of_mem _ hp)
    have hpv := (c.P_lt p hp).1
    -- `q x := D p < D x` holds on all of `top`
    let q : σ → Bool := fun x => decide (st.D p < st.D x)
    have hq_top : ∀ a ∈ top, q a = true := fun a ha => by
      simp only [q, decide_eq_true_eq]; exact lt_trans hpv (htop a ha)
    have e2 := takeWhile_dropWhile_of_split q tp bp (fun x hx => by simpa [q] using h1 x hx)
      (fun x hx => by simpa [q] using le_of_lt (h2 x hx))
    have hdrop : bot.dropWhile q = bp := by
      have : (top ++ bot).dropWhile q = bot.dropWhile q := List.dropWhile_append_of_pos hq_top
      rw [← this, ← estk, e]; exact e2.2
    refine ⟨bot.takeWhile q, bp, by rw [e_stk, ← hdrop]; exact List.takeWhile_append_dropWhile.symm, ?_, ?_⟩
    · intro x hx
      rw [e_D, e_D]
      have := List.mem_takeWhile_imp hx
      simpa [q] using this
    · intro x hx; rw [e_D, e_D]; exact h2 x hx
  · intro p hp x hx hpx hq
    rw [e_stk] at hx; rw [e_D, e_D] at hpx
    have hxs := bot_stk x hx
    obtain ⟨ch, hc1, hc2, hc3, hc4, hc5⟩ := h.owner p (List.mem_cons_of_mem _ hp) x hxs hpx (by
      intro q hqm hpq
      rcases List.mem_cons.mp hqm with rfl | hqm
      · exact hbot x hx
      · have := hq q hqm (by rw [e_D, e_D]; exact hpq); rwa [e_D, e_D] at this)
    have hcb : ch ∈ bot := by
      rcases stk_cases ch hc2 with h1 | h1
      · exfalso; have := htop ch h1; have := hbot x hx; omega
      · exact h1
    refine ⟨ch, hc1, by rw [e_stk]; exact hcb, by rw [e_D, e_D]; exact hc3, by rw [e_D, e_D]; exact hc4, ?_⟩
    rw [e_low ch (c.stk_ne_v ch hc2), e_low x (c.stk_ne_v x hxs)]; exact hc5
  · intro x
    rw [e_inscc, e_out]
    simp only [List.mem_append, List.mem_singleton]
    constructor
    · rintro (hx | hx)
      · exact ⟨v :: top, Or.inr rfl, hx⟩
      · obtain ⟨C, hC, hxC⟩ := (h.outMem x).mp hx
        exact ⟨C, Or.inl hC, hxC⟩
    · rintro ⟨C, hC | rfl, hxC⟩
      · exact Or.inr ((h.outMem x).mpr ⟨C, hC, hxC⟩)
      · exact Or.inl hxC
  · intro C hC x hx y hy
    rw [e_out] at hC
    rcases List.mem_append.mp hC with hC | hC
    · exact h.outSC C hC x hx y hy
    · simp only [List.mem_singleton] at hC; subst hC
      exact (vtop_reach x hx).1.trans (vtop_reach y hy).2
  · rw [e_out, List.flatten_append]
    simp only [List.flatten_cons, List.flatten_nil, List.append_nil]
    refine List.nodup_append.mpr ⟨h.outND, ?_, ?_⟩
    · exact List.nodup_cons.mpr ⟨fun hv => c.v_notin_stk (top_stk v hv), (List.nodup_append.mp nd).1⟩
    · intro a ha b hb hab
      subst hab
      have ha' : a ∈ st.inscc := by
        obtain ⟨C, hC, haC⟩ := List.mem_flatten.mp ha
        exact (h.outMem a).mpr ⟨C, hC, haC⟩
      rcases List.mem_cons.mp hb with rfl | hb
      · exact c.v_notin_inscc ha'
      · exact c.stk_notin_inscc a (top_stk a hb) ha'
  · intro k x hx w hw
    rw [e_out] at hx ⊢
    by_cases hk : k ≤ st.out.length
    · rw [List.take_append_of_le_length hk] at hx ⊢
      exact h.prefClosed k x hx w hw
    · have hk' : (st.out ++ [v :: top]).length ≤ k := by simp; omega
      rw [List.take_of_length_le hk'] at hx ⊢
      have mem_iff : ∀ z, z ∈ (st.out ++ [v :: top]).flatten ↔ z ∈ (v :: top) ++ st.inscc := by
        intro z
        rw [List.flatten_append]
        simp only [List.flatten_cons, List.flatten_nil, List.append_nil, List.mem_append]
        constructor
        · rintro (hz | hz)
          · obtain ⟨C, hC, hzC⟩ := List.mem_flatten.mp hz
            exact Or.inr ((h.outMem z).mpr ⟨C, hC, hzC⟩)
          · exact Or.inl hz
        · rintro (hz | hz)
          · exact Or.inr hz
          · obtain ⟨C, hC, hzC⟩ := (h.outMem z).mp hz
            exact Or.inl (List.mem_flatten.mpr ⟨C, hC, hzC⟩)
      rw [mem_iff] at hx ⊢
      rcases List.mem_append.mp hx with hx | hx
      · exact A3 x hx w hw
      · exact List.mem_append_right _ (h.closed x hx w hw)

/-- `finish` re-establishes the invariant with `v` removed from the gray path -/
theorem finish_inv {next : σ → List σ} {st : St σ} {v : σ} {P : List σ} (c : FinCtx next st v P) :
    Inv next (finish next v st) P := by
  by_cases heq : lowFold st (st.D v) (next v) (st.low v) = st.D v
  · exact finish_root c heq
  · exact finish_push c heq

#print axioms finish_inv
end PMC.SCC
