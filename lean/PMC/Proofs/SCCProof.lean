import PMC.Model.Graph
import PMC.Spec.Reach
import Mathlib.Logic.Relation
import Mathlib.Tactic

set_option linter.unusedSectionVars false
set_option linter.unusedSimpArgs false

namespace PMC.SCC
open Relation

variable {σ : Type} [DecidableEq σ]


/-- the gray path, deepest node first: each node is a successor of the following one, discovered later -/
def GrayChain (next : σ → List σ) (D : σ → Nat) : List σ → Prop
  | [] => True
  | [_] => True
  | c :: p :: rest => (c ∈ next p ∧ D p < D c) ∧ GrayChain next D (p :: rest)

theorem GrayChain.tail {next : σ → List σ} {D : σ → Nat} {v : σ} {P : List σ}
    (h : GrayChain next D (v :: P)) : GrayChain next D P := by
  cases P with
  | nil => trivial
  | cons p rest => exact h.2

theorem GrayChain.head_gt {next : σ → List σ} {D : σ → Nat} {v : σ} {P : List σ}
    (h : GrayChain next D (v :: P)) : ∀ p ∈ P, D p < D v ∧ Reach next p v := by
  induction P generalizing v with
  | nil => intro p hp; cases hp
  | cons q rest ih =>
    intro p hp
    obtain ⟨⟨hvq, hlt⟩, hrest⟩ := h
    rcases List.mem_cons.mp hp with rfl | hp
    · exact ⟨hlt, ReflTransGen.single hvq⟩
    · obtain ⟨h1, h2⟩ := ih hrest p hp
      exact ⟨lt_trans h1 hlt, h2.tail hvq⟩

theorem GrayChain.congr {next : σ → List σ} {D D' : σ → Nat} {P : List σ}
    (h : GrayChain next D P) (hD : ∀ x ∈ P, D' x = D x) : GrayChain next D' P := by
  induction P with
  | nil => trivial
  | cons c rest ih =>
    cases rest with
    | nil => trivial
    | cons p rest =>
      obtain ⟨⟨h1, h2⟩, h3⟩ := h
      refine ⟨⟨h1, ?_⟩, ih h3 (fun x hx => hD x (List.mem_cons_of_mem _ hx))⟩
      rw [hD c (by simp), hD p (by simp)]; exact h2

/-! ### the invariant -/

structure Inv (next : σ → List σ) (st : St σ) (P : List σ) : Prop where
  part : ∀ x, st.disc x ≠ none ↔ (x ∈ st.inscc ∨ x ∈ st.stk ∨ x ∈ P)
  dj1 : ∀ x, x ∈ st.inscc → x ∉ st.stk ∧ x ∉ P
  dj2 : ∀ x, x ∈ st.stk → x ∉ P
  ndS : st.stk.Nodup
  ndP : P.Nodup
  le_time : ∀ x, st.disc x ≠ none → st.D x ≤ st.time
  inj : ∀ x y, (x ∈ st.stk ∨ x ∈ P) → (y ∈ st.stk ∨ y ∈ P) → st.D x = st.D y → x = y
  chain : GrayChain next st.D P
  lowP : ∀ p ∈ P, st.low p = st.D p
  fin : ∀ x ∈ st.stk, ∀ w ∈ next x, st.disc w ≠ none
  closed : ∀ x ∈ st.inscc, ∀ w ∈ next x, w ∈ st.inscc
  reachP : ∀ x ∈ st.stk, ∀ p ∈ P, st.D p < st.D x → Reach next p x
  lowS : ∀ x ∈ st.stk, st.low x < st.D x ∧
    ∃ y, (y ∈ st.stk ∨ y ∈ P) ∧ st.D y = st.low x ∧ Reach next x y
  edgeS : ∀ x ∈ st.stk, ∀ w ∈ next x, w ∈ st.inscc ∨ st.low x ≤ st.D w
  split : ∀ p ∈ P, ∃ top bot, st.stk = top ++ bot ∧ (∀ x ∈ top, st.D p < st.D x) ∧
    (∀ x ∈ bot, st.D x < st.D p)
  owner : ∀ p ∈ P, ∀ x ∈ st.stk, st.D p < st.D x → (∀ q ∈ P, st.D p < st.D q → st.D x < st.D q) →
    ∃ c ∈ next p, c ∈ st.stk ∧ st.D p < st.D c ∧ st.D c ≤ st.D x ∧ st.low c ≤ st.low x
  outMem : ∀ x, x ∈ st.inscc ↔ ∃ C ∈ st.out, x ∈ C
  outSC : ∀ C ∈ st.out, ∀ x ∈ C, ∀ y ∈ C, Reach next x y
  outND : st.out.flatten.Nodup
  prefClosed : ∀ k, ∀ x ∈ (st.out.take k).flatten, ∀ w ∈ next x, w ∈ (st.out.take k).flatten

/-! ### lowFold facts -/

theorem lowFold_le_init (st : St σ) (dv : Nat) (ws : List σ) (l0 : Nat) : lowFold st dv ws l0 ≤ l0 := by
  induction ws generalizing l0 with
  | nil => simp [lowFold]
  | cons w ws ih =>
    simp only [lowFold, List.foldl_cons] at ih ⊢
    split_ifs
    · exact ih _
    · exact le_trans (ih _) (min_le_left _ _)
    · exact le_trans (ih _) (min_le_left _ _)

theorem lowFold_le (st : St σ) (dv : Nat) (ws : List σ) (l0 : Nat) :
    ∀ w ∈ ws, w ∉ st.inscc →
      (dv < st.D w → lowFold st dv ws l0 ≤ st.low w) ∧ (st.D w ≤ dv → lowFold st dv ws l0 ≤ st.D w) := by
  induction ws generalizing l0 with
  | nil => intro w hw; cases hw
  | cons a ws ih =>
    intro w hw hns
    have hstep : lowFold st dv (a :: ws) l0 = lowFold st dv ws
        (if a ∈ st.inscc then l0 else if st.D a > dv then min l0 (st.low a) else min l0 (st.D a)) := by
      simp [lowFold]
    rw [hstep]
    rcases List.mem_cons.mp hw with rfl | hw
    · constructor
      · intro h
        refine le_trans (lowFold_le_init _ _ _ _) ?_
        simp [hns, h]
      · intro h
        refine le_trans (lowFold_le_init _ _ _ _) ?_
        have : ¬ st.D w > dv := by omega
        simp [hns, this]
    · exact ih _ w hw hns

/-- the fold value is either the initial one or comes from some open successor -/
theorem lowFold_eq (st : St σ) (dv : Nat) (ws : List σ) (l0 : Nat) :
    lowFold st dv ws l0 = l0 ∨ ∃ w ∈ ws, w ∉ st.inscc ∧
      ((dv < st.D w ∧ lowFold st dv ws l0 = st.low w) ∨ (st.D w ≤ dv ∧ lowFold st dv ws l0 = st.D w)) := by
  induction ws generalizing l0 with
  | nil => left; simp [lowFold]
  | cons a ws ih =>
    have hstep : lowFold st dv (a :: ws) l0 = lowFold st dv ws
        (if a ∈ st.inscc then l0 else if st.D a > dv then min l0 (st.low a) else min l0 (st.D a)) := by
      simp [lowFold]
    rw [hstep]
    rcases ih (if a ∈ st.inscc then l0 else if st.D a > dv then min l0 (st.low a) else min l0 (st.D a))
      with h | ⟨w, hw, hns, h⟩
    · rw [h]
      by_cases ha : a ∈ st.inscc
      · left; simp [ha]
      · by_cases hd : st.D a > dv
        · simp only [ha, hd, if_true, if_false]
          rcases min_choice l0 (st.low a) with hm | hm
          · left; exact hm
          · right; exact ⟨a, by simp, ha, Or.inl ⟨hd, hm⟩⟩
        · simp only [ha, hd, if_false]
          rcases min_choice l0 (st.D a) with hm | hm
          · left; exact hm
          · right; exact ⟨a, by simp, ha, Or.inr ⟨by omega, hm⟩⟩
    · right; exact ⟨w, List.mem_cons_of_mem _ hw, hns, h⟩

/-! ### list facts -/

theorem takeWhile_dropWhile_of_split {α : Type} (p : α → Bool) (top bot : List α)
    (ht : ∀ x ∈ top, p x = true) (hb : ∀ x ∈ bot, p x = false) :
    (top ++ bot).takeWhile p = top ∧ (top ++ bot).dropWhile p = bot := by
  induction top with
  | nil =>
    cases bot with
    | nil => simp
    | cons b bot => simp [List.takeWhile, List.dropWhile, hb b (by simp)]
  | cons a top ih =>
    have ha := ht a (by simp)
    have := ih (fun x hx => ht x (List.mem_cons_of_mem _ hx))
    simp [List.takeWhile, List.dropWhile, ha, this]

/-! ### discovery -/

@[simp] theorem disc_discover_self (st : St σ) (w : σ) (t : Nat) : (st.discover w t).disc w = some t := by
  simp [St.discover, upd]
@[simp] theorem D_discover_self (st : St σ) (w : σ) (t : Nat) : (st.discover w t).D w = t := by
  simp [St.D]
@[simp] theorem low_discover_self (st : St σ) (w : σ) (t : Nat) : (st.discover w t).low w = t := by
  simp [St.discover, upd]
theorem disc_discover_ne (st : St σ) {w x : σ} (t : Nat) (h : x ≠ w) : (st.discover w t).disc x = st.disc x := by
  simp [St.discover, upd, h]
theorem D_discover_ne (st : St σ) {w x : σ} (t : Nat) (h : x ≠ w) : (st.discover w t).D x = st.D x := by
  simp [St.D, disc_discover_ne st t h]
theorem low_discover_ne (st : St σ) {w x : σ} (t : Nat) (h : x ≠ w) : (st.discover w t).low x = st.low x := by
  simp [St.discover, upd, h]
@[simp] theorem inscc_discover (st : St σ) (w : σ) (t : Nat) : (st.discover w t).inscc = st.inscc := rfl
@[simp] theorem stk_discover (st : St σ) (w : σ) (t : Nat) : (st.discover w t).stk = st.stk := rfl
@[simp] theorem out_discover (st : St σ) (w : σ) (t : Nat) : (st.discover w t).out = st.out := rfl
@[simp] theorem time_discover (st : St σ) (w : σ) (t : Nat) : (st.discover w t).time = t := rfl

/-- discovering a new node `w` (child of the gray head if there is one) with a number `t` that is
at least every number in use, and larger than every *open* node's number -/
theorem Inv.discover {next : σ → List σ} {st : St σ} {P : List σ} (h : Inv next st P)
    {w : σ} (hw : st.disc w = none) (t : Nat) (ht : st.time ≤ t)
    (hopen : ∀ x, (x ∈ st.stk ∨ x ∈ P) → st.D x < t)
    (hedge : ∀ v, P.head? = some v → w ∈ next v) :
    Inv next (st.discover w t) (w :: P) := by
  have hwn : ¬ (w ∈ st.inscc ∨ w ∈ st.stk ∨ w ∈ P) := fun hc => ((h.part w).mpr hc) hw
  have hw1 : w ∉ st.inscc := fun hc => hwn (Or.inl hc)
  have hw2 : w ∉ st.stk := fun hc => hwn (Or.inr (Or.inl hc))
  have hw3 : w ∉ P := fun hc => hwn (Or.inr (Or.inr hc))
  have neS : ∀ x ∈ st.stk, x ≠ w := fun x hx hxw => hw2 (hxw ▸ hx)
  have neP : ∀ x ∈ P, x ≠ w := fun x hx hxw => hw3 (hxw ▸ hx)
  have neI : ∀ x ∈ st.inscc, x ≠ w := fun x hx hxw => hw1 (hxw ▸ hx)
  have DS : ∀ x ∈ st.stk, (st.discover w t).D x = st.D x := fun x hx => D_discover_ne st t (neS x hx)
  have DP : ∀ x ∈ P, (st.discover w t).D x = st.D x := fun x hx => D_discover_ne st t (neP x hx)
  have LS : ∀ x ∈ st.stk, (st.discover w t).low x = st.low x := fun x hx => low_discover_ne st t (neS x hx)
  have LP : ∀ x ∈ P, (st.discover w t).low x = st.low x := fun x hx => low_discover_ne st t (neP x hx)
  have Dopen : ∀ x, (x ∈ st.stk ∨ x ∈ P) → (st.discover w t).D x = st.D x := by
    rintro x (hx | hx); exact DS x hx; exact DP x hx
  refine
    { part := ?_, dj1 := ?_, dj2 := ?_, ndS := h.ndS, ndP := ?_, le_time := ?_, inj := ?_, chain := ?_,
      lowP := ?_, fin := ?_, closed := h.closed, reachP := ?_, lowS := ?_, edgeS := ?_, split := ?_,
      owner := ?_, outMem := h.outMem, outSC := h.outSC, outND := h.outND, prefClosed := h.prefClosed }
  · intro x
    by_cases hx : x = w
    · subst hx; simp
    · rw [disc_discover_ne st t hx, h.part x]; simp [hx]
  · intro x hx
    obtain ⟨h1, h2⟩ := h.dj1 x hx
    exact ⟨h1, by simp [neI x hx, h2]⟩
  · intro x hx
    simp only [stk_discover] at hx
    simp [neS x hx, h.dj2 x hx]
  · exact List.nodup_cons.mpr ⟨hw3, h.ndP⟩
  · intro x hx
    by_cases hxw : x = w
    · subst hxw; simp
    · rw [disc_discover_ne st t hxw] at hx
      rw [D_discover_ne st t hxw]
      exact le_trans (h.le_time x hx) ht
  · intro x y hx hy hxy
    simp only [stk_discover, List.mem_cons] at hx hy
    have key : ∀ z, (z ∈ st.stk ∨ z ∈ P) → (st.discover w t).D z ≠ t := by
      intro z hz; rw [Dopen z hz]; exact ne_of_lt (hopen z hz)
    by_cases hxw : x = w <;> by_cases hyw : y = w
    · rw [hxw, hyw]
    · subst hxw
      have hy' : y ∈ st.stk ∨ y ∈ P := by rcases hy with h1 | h1 | h1; exact Or.inl h1; exact absurd h1 hyw; exact Or.inr h1
      simp at hxy; exact absurd hxy.symm (key y hy')
    · subst hyw
      have hx' : x ∈ st.stk ∨ x ∈ P := by rcases hx with h1 | h1 | h1; exact Or.inl h1; exact absurd h1 hxw; exact Or.inr h1
      simp at hxy; exact absurd hxy (key x hx')
    · have hx' : x ∈ st.stk ∨ x ∈ P := by rcases hx with h1 | h1 | h1; exact Or.inl h1; exact absurd h1 hxw; exact Or.inr h1
      have hy' : y ∈ st.stk ∨ y ∈ P := by rcases hy with h1 | h1 | h1; exact Or.inl h1; exact absurd h1 hyw; exact Or.inr h1
      rw [Dopen x hx', Dopen y hy'] at hxy
      exact h.inj x y hx' hy' hxy
  · -- chain
    have hc : GrayChain next (st.discover w t).D P := h.chain.congr DP
    cases P with
    | nil => trivial
    | cons v rest =>
      refine ⟨⟨hedge v rfl, ?_⟩, hc⟩
      rw [D_discover_self, DP v (by simp)]
      exact hopen v (Or.inr (by simp))
  · intro p hp
    rcases List.mem_cons.mp hp with rfl | hp
    · simp
    · rw [LP p hp, DP p hp]; exact h.lowP p hp
  · intro x hx y hy
    simp only [stk_discover] at hx
    by_cases hyw : y = w
    · subst hyw; simp
    · rw [disc_discover_ne st t hyw]; exact h.fin x hx y hy
  · intro x hx p hp hlt
    simp only [stk_discover] at hx
    rcases List.mem_cons.mp hp with rfl | hp
    · rw [D_discover_self, DS x hx] at hlt
      exact absurd hlt (not_lt.mpr (le_of_lt (hopen x (Or.inl hx))))
    · rw [DS x hx, DP p hp] at hlt
      exact h.reachP x hx p hp hlt
  · intro x hx
    simp only [stk_discover] at hx
    obtain ⟨h1, y, hy, hy2, hy3⟩ := h.lowS x hx
    rw [LS x hx, DS x hx]
    refine ⟨h1, y, ?_, ?_, hy3⟩
    · rcases hy with hy | hy; exact Or.inl hy; exact Or.inr (List.mem_cons_of_mem _ hy)
    · rw [Dopen y hy]; exact hy2
  · intro x hx y hy
    simp only [stk_discover] at hx
    rcases h.edgeS x hx y hy with h1 | h1
    · exact Or.inl h1
    · right
      rw [LS x hx]
      by_cases hyw : y = w
      · subst hyw; rw [D_discover_self]
        have := (h.lowS x hx).1
        exact le_of_lt (lt_trans this (hopen x (Or.inl hx)))
      · rw [D_discover_ne st t hyw]; exact h1
  · intro p hp
    rcases List.mem_cons.mp hp with rfl | hp
    · refine ⟨[], st.stk, by simp, by simp, ?_⟩
      intro x hx; rw [D_discover_self, DS x hx]; exact hopen x (Or.inl hx)
    · obtain ⟨top, bot, e, h1, h2⟩ := h.split p hp
      refine ⟨top, bot, by simpa using e, ?_, ?_⟩
      · intro x hx
        have hxs : x ∈ st.stk := by rw [e]; simp [hx]
        rw [DP p hp, DS x hxs]; exact h1 x hx
      · intro x hx
        have hxs : x ∈ st.stk := by rw [e]; simp [hx]
        rw [DP p hp, DS x hxs]; exact h2 x hx
  · intro p hp x hx hlt hq
    simp only [stk_discover] at hx
    rcases List.mem_cons.mp hp with rfl | hp
    · rw [D_discover_self, DS x hx] at hlt
      exact absurd hlt (not_lt.mpr (le_of_lt (hopen x (Or.inl hx))))
    · rw [DP p hp, DS x hx] at hlt
      obtain ⟨c, hc1, hc2, hc3, hc4, hc5⟩ := h.owner p hp x hx hlt (by
        intro q hq' hlt'
        have := hq q (List.mem_cons_of_mem _ hq') (by rw [DP p hp, DP q hq']; exact hlt')
        rwa [DS x hx, DP q hq'] at this)
      refine ⟨c, hc1, hc2, ?_, ?_, ?_⟩
      · rw [DP p hp, DS c hc2]; exact hc3
      · rw [DS c hc2, DS x hx]; exact hc4
      · rw [LS c hc2, LS x hx]; exact hc5

end PMC.SCC
