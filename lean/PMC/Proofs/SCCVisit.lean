import PMC.Proofs.SCCFinish

set_option linter.unusedSectionVars false
set_option linter.unusedSimpArgs false
set_option linter.unusedVariables false

namespace PMC.SCC
open Relation

variable {σ : Type} [DecidableEq σ]

/-- number of still undiscovered nodes -/
def unv (nodes : List σ) (st : St σ) : Nat := nodes.countP (fun x => decide (st.disc x = none))

def VisMono (st st' : St σ) : Prop := ∀ x, st.disc x ≠ none → st'.disc x ≠ none

theorem VisMono.refl (st : St σ) : VisMono st st := fun _ h => h
theorem VisMono.trans {a b c : St σ} (h1 : VisMono a b) (h2 : VisMono b c) : VisMono a c :=
  fun x h => h2 x (h1 x h)

theorem unv_mono {nodes : List σ} {st st' : St σ} (h : VisMono st st') : unv nodes st' ≤ unv nodes st := by
  apply List.countP_mono_left
  intro x _ hx
  simp only [decide_eq_true_eq] at hx ⊢
  by_contra hne
  exact h x hne hx

theorem countP_lt {α : Type} (p q : α → Bool) (l : List α) (himp : ∀ x ∈ l, p x = true → q x = true)
    (w : α) (hw : w ∈ l) (hq : q w = true) (hp : p w = false) : l.countP p < l.countP q := by
  induction l with
  | nil => cases hw
  | cons a l ih =>
    rcases List.mem_cons.mp hw with rfl | hw'
    · have hle : l.countP p ≤ l.countP q :=
        List.countP_mono_left (fun x hx => himp x (List.mem_cons_of_mem _ hx))
      rw [List.countP_cons_of_pos hq, List.countP_cons_of_neg (by simp [hp])]
      omega
    · have := ih (fun x hx => himp x (List.mem_cons_of_mem _ hx)) hw'
      rw [List.countP_cons, List.countP_cons]
      have h1 := himp a (by simp)
      by_cases hpa : p a = true
      · simp [hpa, h1 hpa]; omega
      · by_cases hqa : q a = true
        · simp [hpa, hqa]; omega
        · simp [hpa, hqa]; omega

theorem visMono_discover (st : St σ) (w : σ) (t : Nat) : VisMono st (st.discover w t) := by
  intro x hx
  by_cases hxw : x = w
  · subst hxw; simp
  · rw [disc_discover_ne st t hxw]; exact hx

theorem unv_discover_lt {nodes : List σ} {st : St σ} {w : σ} (hw : w ∈ nodes) (hun : st.disc w = none) (t : Nat) :
    unv nodes (st.discover w t) < unv nodes st := by
  apply countP_lt _ _ nodes _ w hw
  · simp [hun]
  · simp
  · intro x _ hx
    simp only [decide_eq_true_eq] at hx ⊢
    by_contra hne
    exact visMono_discover st w t x hne hx

theorem visMono_finish (next : σ → List σ) (v : σ) (st : St σ) : VisMono st (finish next v st) := by
  intro x hx
  simp only [finish]
  split_ifs <;> exact hx

def VisIn (nodes : List σ) (st : St σ) : Prop := ∀ x, st.disc x ≠ none → x ∈ nodes

theorem visIn_discover {nodes : List σ} {st : St σ} (h : VisIn nodes st) {w : σ} (hw : w ∈ nodes) (t : Nat) :
    VisIn nodes (st.discover w t) := by
  intro x hx
  by_cases hxw : x = w
  · subst hxw; exact hw
  · rw [disc_discover_ne st t hxw] at hx; exact h x hx

theorem visIn_finish {nodes : List σ} {st : St σ} (h : VisIn nodes st) (next : σ → List σ) (v : σ) :
    VisIn nodes (finish next v st) := by
  intro x hx
  apply h x
  simp only [finish] at hx
  split_ifs at hx <;> exact hx

/-- specification of `visit` -/
theorem visit_spec {next : σ → List σ} (nodes : List σ) (hcl : ∀ x ∈ nodes, ∀ w ∈ next x, w ∈ nodes) :
    ∀ fuel (v : σ) (st : St σ) (P : List σ), Inv next st (v :: P) → v ∈ nodes → unv nodes st < fuel →
      VisIn nodes st →
      Inv next (visit next fuel v st) P ∧ VisMono st (visit next fuel v st) ∧
        VisIn nodes (visit next fuel v st) := by
  intro fuel
  induction fuel with
  | zero => intro v st P _ _ h _; omega
  | succ fuel IH =>
    intro v st P hinv hv hfuel hin
    -- the exploration loop
    have loop : ∀ (ws : List σ), (∀ w ∈ ws, w ∈ next v) → ∀ st0 : St σ, Inv next st0 (v :: P) →
        unv nodes st0 ≤ fuel → VisIn nodes st0 →
        let st1 := ws.foldl (fun st w =>
          if st.disc w = none then visit next fuel w (st.discover w (st.time+1)) else st) st0
        Inv next st1 (v :: P) ∧ VisMono st0 st1 ∧ (∀ w ∈ ws, st1.disc w ≠ none) ∧ VisIn nodes st1 := by
      intro ws
      induction ws with
      | nil => intro _ st0 h0 _ hin0; exact ⟨h0, VisMono.refl _, by simp, hin0⟩
      | cons w ws ihws =>
        intro hws st0 h0 hf0 hin0
        have hwv : w ∈ next v := hws w (by simp)
        have hwn : w ∈ nodes := hcl v hv w hwv
        simp only [List.foldl_cons]
        by_cases hun : st0.disc w = none
        · simp only [hun, if_true]
          have hd : Inv next (st0.discover w (st0.time+1)) (w :: v :: P) := by
            refine h0.discover hun (st0.time+1) (Nat.le_succ _) ?_ ?_
            · intro x hx
              have : st0.disc x ≠ none := (h0.part x).mpr (by tauto)
              exact Nat.lt_succ_of_le (h0.le_time x this)
            · intro v' hv'; simp at hv'; subst hv'; exact hwv
          have hlt : unv nodes (st0.discover w (st0.time+1)) < fuel :=
            lt_of_lt_of_le (unv_discover_lt hwn hun _) hf0
          obtain ⟨hI, hM, hN⟩ := IH w _ (v :: P) hd hwn hlt (visIn_discover hin0 hwn _)
          have hM0 : VisMono st0 (visit next fuel w (st0.discover w (st0.time+1))) :=
            (visMono_discover st0 w _).trans hM
          have hf1 : unv nodes (visit next fuel w (st0.discover w (st0.time+1))) ≤ fuel :=
            le_trans (unv_mono hM0) hf0
          obtain ⟨hI2, hM2, hV2, hN2⟩ := ihws (fun x hx => hws x (List.mem_cons_of_mem _ hx)) _ hI hf1 hN
          refine ⟨hI2, hM0.trans hM2, ?_, hN2⟩
          intro x hx
          rcases List.mem_cons.mp hx with rfl | hx
          · exact hM2 x (hM x (by simp))
          · exact hV2 x hx
        · simp only [hun, if_false]
          obtain ⟨hI2, hM2, hV2, hN2⟩ := ihws (fun x hx => hws x (List.mem_cons_of_mem _ hx)) st0 h0 hf0 hin0
          refine ⟨hI2, hM2, ?_, hN2⟩
          intro x hx
          rcases List.mem_cons.mp hx with rfl | hx
          · exact hM2 x hun
          · exact hV2 x hx
    obtain ⟨hI1, hM1, hV1, hN1⟩ := loop (next v) (fun _ h => h) st hinv (by omega) hin
    simp only [visit]
    exact ⟨finish_inv ⟨hI1, hV1⟩, hM1.trans (visMono_finish next v _), visIn_finish hN1 next v⟩


/-! ### top level -/

theorem Inv.stk_nil {next : σ → List σ} {st : St σ} (h : Inv next st []) : st.stk = [] := by
  by_contra hne
  -- a stack entry with minimal number would need a strictly smaller open witness
  have : ∀ n, ∀ x ∈ st.stk, st.D x ≤ n → False := by
    intro n
    induction n with
    | zero =>
      intro x hx hle
      have := (h.lowS x hx).1; omega
    | succ n ih =>
      intro x hx hle
      obtain ⟨hl, y, hy, hy2, _⟩ := h.lowS x hx
      rcases hy with hy | hy
      · exact ih y hy (by omega)
      · cases hy
  obtain ⟨x, hx⟩ := List.exists_mem_of_ne_nil _ hne
  exact this (st.D x) x hx le_rfl

theorem inv_init (next : σ → List σ) : Inv next (init : St σ) [] := by
  refine
    { part := ?_, dj1 := ?_, dj2 := ?_, ndS := ?_, ndP := ?_, le_time := ?_, inj := ?_, chain := ?_,
      lowP := ?_, fin := ?_, closed := ?_, reachP := ?_, lowS := ?_, edgeS := ?_, split := ?_,
      owner := ?_, outMem := ?_, outSC := ?_, outND := ?_, prefClosed := ?_ } <;> simp [init, GrayChain]

theorem closed_reach {next : σ → List σ} {S : List σ} (hS : ∀ x ∈ S, ∀ w ∈ next x, w ∈ S)
    {x y : σ} (hx : x ∈ S) (hr : Reach next x y) : y ∈ S := by
  induction hr with
  | refl => exact hx
  | tail _ hbc ih => exact hS _ ih _ hbc

/-- **compute_SCCs is exact** (for the recursive model): the output lists every node exactly once, and two
nodes share a component iff they are mutually reachable. -/
theorem sccs_correct {next : σ → List σ} (nodes : List σ) (hcl : ∀ x ∈ nodes, ∀ w ∈ next x, w ∈ nodes) :
    (sccs nodes next).flatten.Nodup ∧
    (∀ x, x ∈ (sccs nodes next).flatten ↔ x ∈ nodes) ∧
    (∀ C ∈ sccs nodes next, ∀ x ∈ C, ∀ y, y ∈ C ↔ (Reach next x y ∧ Reach next y x)) := by
  -- the outer loop
  have loop : ∀ (ss : List σ), (∀ s ∈ ss, s ∈ nodes) → ∀ st0 : St σ, Inv next st0 [] → VisIn nodes st0 →
      let st1 := ss.foldl (fun st s =>
        if st.disc s = none then visit next (nodes.length+1) s (st.discover s st.time) else st) st0
      Inv next st1 [] ∧ VisMono st0 st1 ∧ (∀ s ∈ ss, st1.disc s ≠ none) ∧ VisIn nodes st1 := by
    intro ss
    induction ss with
    | nil => intro _ st0 h0 hin0; exact ⟨h0, VisMono.refl _, by simp, hin0⟩
    | cons s ss ih =>
      intro hss st0 h0 hin0
      have hsn : s ∈ nodes := hss s (by simp)
      simp only [List.foldl_cons]
      by_cases hun : st0.disc s = none
      · simp only [hun, if_true]
        have hstk := h0.stk_nil
        have hd : Inv next (st0.discover s st0.time) [s] := by
          refine h0.discover hun st0.time le_rfl ?_ ?_
          · intro x hx; rw [hstk] at hx; simp at hx
          · intro v hv; simp at hv
        have hlt : unv nodes (st0.discover s st0.time) < nodes.length + 1 := by
          have h1 := unv_discover_lt hsn hun st0.time
          have h2 : unv nodes st0 ≤ nodes.length := List.countP_le_length
          omega
        obtain ⟨hI, hM, hN⟩ := visit_spec nodes hcl _ s _ [] hd hsn hlt (visIn_discover hin0 hsn _)
        have hM0 := (visMono_discover st0 s st0.time).trans hM
        obtain ⟨hI2, hM2, hV2, hN2⟩ := ih (fun x hx => hss x (List.mem_cons_of_mem _ hx)) _ hI hN
        refine ⟨hI2, hM0.trans hM2, ?_, hN2⟩
        intro x hx
        rcases List.mem_cons.mp hx with rfl | hx
        · exact hM2 x (hM x (by simp))
        · exact hV2 x hx
      · simp only [hun, if_false]
        obtain ⟨hI2, hM2, hV2, hN2⟩ := ih (fun x hx => hss x (List.mem_cons_of_mem _ hx)) st0 h0 hin0
        refine ⟨hI2, hM2, ?_, hN2⟩
        intro x hx
        rcases List.mem_cons.mp hx with rfl | hx
        · exact hM2 x hun
        · exact hV2 x hx
  obtain ⟨hI, _, hV, hN⟩ := loop nodes (fun _ h => h) init (inv_init next) (by intro x hx; simp [init] at hx)
  simp only [sccs]
  generalize (nodes.foldl (fun st s =>
        if st.disc s = none then visit next (nodes.length+1) s (st.discover s st.time) else st) init) = stF
    at hI hV hN
  have hstk := hI.stk_nil
  have mem_out : ∀ x, x ∈ stF.out.flatten ↔ x ∈ stF.inscc := by
    intro x
    rw [hI.outMem x, List.mem_flatten]
  have inscc_iff : ∀ x, x ∈ stF.inscc ↔ stF.disc x ≠ none := by
    intro x; rw [hI.part x, hstk]; simp
  refine ⟨hI.outND, ?_, ?_⟩
  · intro x
    rw [mem_out, inscc_iff]
    exact ⟨hN x, hV x⟩
  · intro C hC x hx y
    constructor
    · intro hy; exact ⟨hI.outSC C hC x hx y hy, hI.outSC C hC y hy x hx⟩
    · rintro ⟨hxy, hyx⟩
      obtain ⟨l1, l2, hout⟩ := List.append_of_mem hC
      have hxn : x ∈ nodes := by
        have : x ∈ stF.out.flatten := List.mem_flatten.mpr ⟨C, hC, hx⟩
        rw [mem_out, inscc_iff] at this; exact hN x this
      have hyn : y ∈ nodes := closed_reach hcl hxn hxy
      have hyo : y ∈ stF.out.flatten := by rw [mem_out, inscc_iff]; exact hV y hyn
      obtain ⟨C2, hC2, hyC2⟩ := List.mem_flatten.mp hyo
      have hnd := hI.outND
      rw [hout] at hC2 hnd
      simp only [List.mem_append, List.mem_cons] at hC2
      rcases hC2 with hC2 | rfl | hC2
      · -- `y` sits in an earlier component: the earlier prefix is closed, so it would contain `x` too
        exfalso
        have hpre := hI.prefClosed l1.length
        rw [hout, List.take_left' rfl] at hpre
        have hy1 : y ∈ l1.flatten := List.mem_flatten.mpr ⟨C2, hC2, hyC2⟩
        have hx1 : x ∈ l1.flatten := closed_reach hpre hy1 hyx
        rw [List.flatten_append, List.flatten_cons] at hnd
        have := (List.nodup_append.mp hnd).2.2 x hx1 x (List.mem_append_left _ hx) rfl
        exact this
      · exact hyC2
      · -- `y` sits in a later component: the prefix up to `C` is closed and contains `x`
        exfalso
        have hpre := hI.prefClosed (l1.length + 1)
        have htake : (l1 ++ C :: l2).take (l1.length + 1) = l1 ++ [C] := by
          rw [show l1 ++ C :: l2 = (l1 ++ [C]) ++ l2 by simp]
          exact List.take_left' (by simp)
        rw [hout, htake] at hpre
        have hx1 : x ∈ (l1 ++ [C]).flatten := by
          rw [List.flatten_append]; simp [hx]
        have hy1 : y ∈ (l1 ++ [C]).flatten := closed_reach hpre hx1 hxy
        have hy2 : y ∈ l2.flatten := List.mem_flatten.mpr ⟨C2, hC2, hyC2⟩
        rw [show l1 ++ C :: l2 = (l1 ++ [C]) ++ l2 by simp, List.flatten_append] at hnd
        exact (List.nodup_append.mp hnd).2.2 y hy1 y hy2 rfl

#print axioms sccs_correct
end PMC.SCC
