/-
  Helpers for C19 (PMC/Properties/C19.lean): the partial operations used inside the checkers cannot fail.

    * every component emitted by `SCC.sccs` is non-empty (`next(iter(scc))` never raises `StopIteration`);
    * the start nodes handed to `get_reachable_set_from` by `_checkEU` / `_checkEG` are nodes of the graph it is
      called on (so `Graph.reachFrom` returns `.ok`);
    * every state carries at least one tableau atom (`state_dict[s]` never raises `KeyError`);
    * `CTLS.removeState` only relabels: it preserves `states`, `succ`, hence `WF`.
-/
import PMC.Model.Safety
import PMC.Proofs.CTLExact
import PMC.Proofs.CTLSAux
import PMC.Proofs.CTLSExact
import PMC.Properties.C01
import PMC.Properties.C02
import PMC.Properties.C13
namespace PMC

/-! ### components are never empty -/
namespace SCC
variable {σ : Type} [DecidableEq σ]

/-- every emitted component is non-empty -/
def OutNE (st : St σ) : Prop := ∀ C ∈ st.out, C ≠ []

omit [DecidableEq σ] in
theorem outNE_init : OutNE (init : St σ) := by
  intro C hC; simp [init] at hC

theorem outNE_discover {st : St σ} (h : OutNE st) (w : σ) (t : Nat) : OutNE (st.discover w t) := h

theorem outNE_finish {st : St σ} (h : OutNE st) (next : σ → List σ) (v : σ) : OutNE (finish next v st) := by
  unfold finish
  extract_lets dv lowv
  split
  · intro C hC
    simp only [List.mem_append, List.mem_singleton] at hC
    rcases hC with hC | rfl
    · exact h C hC
    · exact List.cons_ne_nil _ _
  · exact h

omit [DecidableEq σ] in
theorem outNE_foldl {α : Type} (F : St σ → α → St σ) (hF : ∀ st a, OutNE st → OutNE (F st a)) (l : List α)
    (st : St σ) (h : OutNE st) : OutNE (l.foldl F st) := by
  induction l generalizing st with
  | nil => exact h
  | cons a l ih => exact ih _ (hF st a h)

theorem outNE_visit (next : σ → List σ) (fuel : Nat) (v : σ) (st : St σ) (h : OutNE st) :
    OutNE (visit next fuel v st) := by
  induction fuel generalizing v st with
  | zero => exact h
  | succ fuel ih =>
    unfold visit
    apply outNE_finish
    apply outNE_foldl _ _ _ _ h
    intro st w hst
    split
    · exact ih _ _ (outNE_discover hst _ _)
    · exact hst

/-- `next(iter(scc))` is defined on every component `compute_SCCs` yields -/
theorem sccs_nonempty (nodes : List σ) (next : σ → List σ) : ∀ C ∈ sccs nodes next, C ≠ [] := by
  unfold sccs
  apply outNE_foldl _ _ _ _ outNE_init
  intro st s hst
  split
  · exact outNE_visit _ _ _ _ (outNE_discover hst _ _)
  · exact hst

end SCC

/-! ### the reachability calls of `_checkEU` / `_checkEG` -/
namespace CTL
open PMC.Graph
variable {σ : Type} [DecidableEq σ]

theorem checkEU_eq (K : Kripke σ) (L0 L1 : List σ) :
    checkEU K L0 L1 = Graph.reachFromFn (euGraph K L0 L1).next (euGraph K L0 L1).nodes L1 := rfl

theorem checkEG_eq (K : Kripke σ) (L : List σ) :
    checkEG K L = Graph.reachFromFn (egGraph K L).next (egGraph K L).nodes (egSeeds K L) := rfl

/-- the graph `_checkEU` builds is a well-formed `DiGraph`, and every element of `L1` is one of its nodes
    (this is what the "add missing nodes" loop is for) -/
theorem euGraph_spec (K : Kripke σ) (L0 L1 : List σ) :
    WFG (euGraph K L0 L1) ∧ ∀ x ∈ L1, x ∈ (euGraph K L0 L1).nodes := by
  unfold euGraph
  extract_lets sub0 sub1
  have w0 : WFG sub0 := C13.reversed_wf _
  have w1 : WFG sub1 :=
    (foldl_foldl_addEdgeIgnore (fun v => (K.succ v).filter (fun w => decide (w ∈ L1))) L0 sub0 w0).1
  obtain ⟨w2, n2, _⟩ := foldl_addNodeRaw (L1.filter (fun v => !sub1.hasNode v)) sub1 w1
  refine ⟨w2, fun x hx => ?_⟩
  rw [n2]
  by_cases hn : x ∈ sub1.nodes
  · exact Or.inl hn
  · refine Or.inr (List.mem_filter.mpr ⟨hx, ?_⟩)
    rw [← C13.hasNode_iff] at hn
    simpa using hn

theorem egGraph_wf (K : Kripke σ) (L : List σ) : WFG (egGraph K L) := C13.reversed_wf _

/-- the seeds of `_checkEG` are nodes of the graph: they are taken from its components -/
theorem egSeeds_nodes (K : Kripke σ) (L : List σ) : ∀ x ∈ egSeeds K L, x ∈ (egGraph K L).nodes := by
  intro x hx
  obtain ⟨_, hmem, _⟩ := SCC.sccs_correct (egGraph K L).nodes (next := (egGraph K L).next) (egGraph_wf K L).closed
  refine (hmem x).mp ?_
  unfold egSeeds at hx
  obtain ⟨C, hCf, hxC⟩ := List.mem_flatten.mp hx
  exact List.mem_flatten.mpr ⟨C, (List.mem_filter.mp hCf).1, hxC⟩

theorem reachFrom_ok (g : Graph σ) (X : List σ) (hX : ∀ x ∈ X, x ∈ g.nodes) :
    g.reachFrom X = .ok (Graph.reachFromFn g.next g.nodes X) := by
  unfold Graph.reachFrom
  rw [if_pos ((Graph.all_hasNode_iff g X).mpr hX)]

/-- `CTL.check` only returns states (a by-product of exactness) -/
theorem check_subset (K : Kripke σ) (hK : K.WF) (f : Fm) (hf : f.isCTLState = true) :
    ∀ s ∈ check K f, s ∈ K.states :=
  fun s hs => ((check_exact K hK f hf s).mp hs).1

end CTL

/-! ### the tableau -/
namespace LTL
variable {σ : Type} [DecidableEq σ]

theorem nil_mem_sublists {α : Type} (l : List α) : [] ∈ sublists l := by
  induction l with
  | nil => simp [sublists]
  | cons a l ih => simp only [sublists, List.mem_append]; exact Or.inl ih

omit [DecidableEq σ] in
/-- every state of `K` carries at least one atom -/
theorem atoms_cover (K : Kripke σ) (g : RFm) : ∀ s ∈ K.states, ∃ a ∈ atoms K g, a.1 = s := by
  intro s hs
  refine ⟨(s, []), ?_, rfl⟩
  unfold atoms
  exact List.mem_flatMap.mpr ⟨s, hs, List.mem_map.mpr ⟨[], nil_mem_sublists _, rfl⟩⟩

end LTL

/-! ### `_remove_state_subformulas` only relabels -/
namespace CTLS
variable {σ : Type} [DecidableEq σ]

theorem removeState_states (K : Kripke σ) (f : Fm) : (removeState K f).1.states = K.states := by
  rw [← (removeStateT_eq K f).1, removeStateT_struct, addTrace_states]

theorem removeState_succ (K : Kripke σ) (f : Fm) : (removeState K f).1.succ = K.succ := by
  rw [← (removeStateT_eq K f).1, removeStateT_struct, addTrace_succ]

theorem removeState_wf (K : Kripke σ) (hK : K.WF) (f : Fm) : (removeState K f).1.WF :=
  wf_of_frame K _ (removeState_states K f) (removeState_succ K f) hK

theorem removeState_isCTLState (K : Kripke σ) (f : Fm) : (removeState K f).2.isCTLState = f.isCTLSState := by
  rw [← (removeStateT_eq K f).2, removeStateT_isCTLState]

end CTLS
end PMC
