/-
  C01 — CTL model checking returns exactly the satisfying states.

  For every finite total Kripke structure K and every CTL state formula f, CTL.modelcheck(K, f) returns exactly the
  set of states s with K,s |= f under the documented CTL semantics.

  Model: `CTL.check` (PMC/Model/CTL.lean) follows `_checkStateFormula` case by case.  Spec: `satState`
  (PMC/Spec/Semantics.lean).  `Kripke.WF` is what the Kripke constructor enforces (C14).
-/
import PMC.Spec.Semantics
import PMC.Proofs.CTLExact
namespace PMC.C01
open PMC
variable {σ : Type} [DecidableEq σ]

/-- **exactness**: no satisfying state is missing and no non-satisfying state is included -/
theorem ctl_exact (K : Kripke σ) (hK : K.WF) (f : Fm) (hf : f.isCTLState = true) (s : σ) :
    s ∈ CTL.check K f ↔ (s ∈ K.states ∧ satState K f s) :=
  CTL.check_exact K hK f hf s

/-- the entry point: a CTL state formula is never rejected, anything else is a `TypeError` -/
theorem modelcheck_ok (K : Kripke σ) (f : Fm) (hf : f.isCTLState = true) :
    CTL.modelcheck K f = .ok (CTL.check K f) := by
  simp [CTL.modelcheck, hf]

theorem modelcheck_reject (K : Kripke σ) (f : Fm) (hf : f.isCTLState = false) :
    CTL.modelcheck K f = .error .typeError := by
  simp [CTL.modelcheck, hf]

/-- the answer contains only states of K -/
theorem ctl_subset (K : Kripke σ) (hK : K.WF) (f : Fm) (hf : f.isCTLState = true) (s : σ)
    (h : s ∈ CTL.check K f) : s ∈ K.states :=
  ((ctl_exact K hK f hf s).mp h).1

/-! non-vacuity: a concrete total structure (0 ⇄ 1, p at 0) meets `WF`, and the model answers `AF ¬p` with {0,1}
    minus nothing … (computed by the kernel) -/
def K₀ : Kripke Nat :=
  { states := [0, 1], succ := fun s => if s = 0 then [0, 1] else [0], lab := fun s => if s = 0 then ["p"] else [] }

example : K₀.WF := by
  refine ⟨?_, ?_, ?_⟩ <;> simp [K₀]

example : CTL.check K₀ (.E (.G (.ap "p"))) = [0] := by decide
example : CTL.check K₀ (.A (.F (.not (.ap "p")))) = [1] := by decide

#print axioms ctl_exact
end PMC.C01
