/-
  C01, memo table — the table `L` that `_checkStateFormula` threads through the recursion (a dict keyed by formula
  objects, hashed and compared through their printed form) does not change the answer.

  Model: `CTL.checkM` / `CTL.modelcheckM` (PMC/Model/CTLMemo.lean) follow CTL/model_checking.py line by line
  including `if formula not in L: … L[formula] = …; return L[formula]`, the `Bool` branch that overwrites without
  consulting, and the fall-through that stores the result under the original formula as well.  `CTL.check`
  (PMC/Model/CTL.lean) is the same recursion without the table, proved exact in C01.

  The two agree on `Good` formulas: CTL state formulas with identifier-style non-reserved atoms and n-ary and/or of
  arity ≥ 2 — what the parser builds — because printing is injective there (C09/C11, `printCTL_injective`).
  Outside, they do not: see the example at the end.
-/
import PMC.Properties.C01
import PMC.Proofs.PrintInj
import PMC.Proofs.CTLMemo
namespace PMC.C01
open PMC CTL
variable {σ : Type} [DecidableEq σ]

/-- the formulas on which printing is injective: CTL state formulas, parser-style atoms, and/or of arity ≥ 2 -/
def Good (f : Fm) : Prop := f.isCTLState = true ∧ f.wfAtoms = true ∧ f.arityOK = true

/-- table invariant: an entry is the table-free answer for every Good formula that prints to its key -/
def MemoOK (K : Kripke σ) (L : Memo σ) : Prop :=
  ∀ k S, L.get? k = some S → ∀ g, Good g → g.printCTL = k → S = CTL.check K g

/-- the empty table (`L=dict()`) meets the invariant -/
theorem memoOK_empty (K : Kripke σ) : MemoOK K [] := CTL.memoOK_nil K

/-- **transparency of the memo table**: from any table meeting the invariant, `_checkStateFormula` with the table
    returns what the table-free recursion returns, and leaves a table meeting the invariant -/
theorem checkM_eq (K : Kripke σ) (f : Fm) (L : Memo σ) (hf : Good f) (hL : MemoOK K L) :
    (CTL.checkM K f L).1 = CTL.check K f ∧ MemoOK K (CTL.checkM K f L).2 :=
  CTL.checkM_sound K f hf L hL

/-- the entry point, started on the empty table -/
theorem modelcheckM_eq (K : Kripke σ) (f : Fm) (hf : Good f) : CTL.modelcheckM K f = CTL.check K f :=
  CTL.modelcheckM_eq_check K f hf

/-- **exactness with the memo table** -/
theorem ctl_exact_memo (K : Kripke σ) (hK : K.WF) (f : Fm) (hf : Good f) (s : σ) :
    s ∈ CTL.modelcheckM K f ↔ (s ∈ K.states ∧ satState K f s) := by
  rw [modelcheckM_eq K f hf]
  exact ctl_exact K hK f hf.1 s

/-- formulas in the restricted alphabet never reach the fall-through: the two dispatchers coincide on them … -/
theorem checkRM_eq (K : Kripke σ) (f : Fm) (L : Memo σ) (hr : f.isRestrictedCTL = true) (hf : Good f)
    (hL : MemoOK K L) : (CTL.checkRM K f L).1 = CTL.checkR K f ∧ MemoOK K (CTL.checkRM K f L).2 := by
  rw [← CTL.check_eq_checkR K f hr]
  exact CTL.checkRM_sound K f hr hf L hL

/-- … and the rewriting keeps a formula Good, so the recursive call of the fall-through is covered -/
theorem good_restrictCTL (f : Fm) (hf : Good f) : Good f.restrictCTL ∧ f.restrictCTL.isRestrictedCTL = true :=
  ⟨CTL.good_restrictCTL hf, restrictCTL_restricted f hf.1⟩

/-! The hypothesis on atom names is needed.  `K₁`: two states, state 0 labelled `p` and `not p` (an atom whose name
    is not an identifier).  In `not p ∨ ¬p` the atom is labelled first, {0}, and stored under the key `"not p"`;
    the negation `¬p` has the same printed form, finds the entry and returns {0} instead of {1}. -/
def K₁ : Kripke Nat :=
  { states := [0, 1], succ := fun s => [s], lab := fun s => if s = 0 then ["p", "not p"] else [] }

def f₁ : Fm := .or [.ap "not p", .not (.ap "p")]

example : K₁.WF := by
  refine ⟨?_, ?_, ?_⟩ <;> simp [K₁]

example : f₁.isCTLState = true ∧ f₁.arityOK = true ∧ f₁.wfAtoms = false := by decide +kernel
example : CTL.check K₁ f₁ = [0, 1] := by decide +kernel
example : CTL.modelcheckM K₁ f₁ = [0, 0] := by decide +kernel
/-- state 1 satisfies `¬p` but is missing from the memoised answer -/
example : 1 ∈ CTL.check K₁ f₁ ∧ 1 ∉ CTL.modelcheckM K₁ f₁ := by decide +kernel

#print axioms checkM_eq
#print axioms modelcheckM_eq
#print axioms ctl_exact_memo
end PMC.C01
