/-
  C02 — LTL model checking returns exactly the states whose every path satisfies g.

  For every finite total Kripke structure K and every LTL formula A g, LTL.modelcheck(K, A g) returns exactly the
  states s such that every infinite path of K starting at s satisfies g; equivalently a state is excluded iff some
  ultimately periodic path from it satisfies not g.

  Model: `LTL.modelcheck` (PMC/Model/LTL.lean): `LNot` + rewriting to {not, or, X, U}, declarative-atom tableau,
  edges = `_does_respect_Xs`, SCCs, `_is_non_trivial_self_fulfilling`, backward reachability, projection, complement.
  The atom set of this model is the textbook one (state × choice of elementary formulas).  That the incremental
  procedure `_build_atoms` of the code yields the same answers is PROVED in PMC/Properties/C02Atoms.lean
  (`checkEBuilt_iff_checkE`, `modelcheckBuilt_exact`: PMC/Model/LTLAtoms.lean follows `_get_closure` / `_build_atoms`
  statement by statement, for every admissible processing order of the closure), and additionally validated by the
  correspondence check.
-/
import PMC.Proofs.LTLExact
namespace PMC.C02
open PMC
variable {σ : Type} [DecidableEq σ]

theorem ltl_exact (K : Kripke σ) (hK : K.WF) (g : Fm) (hg : g.isLTLPath = true) :
    ∃ R, LTL.modelcheck K (.A g) = .ok R ∧
      ∀ s, s ∈ R ↔ (s ∈ K.states ∧ ∀ π, IsPath K π → π 0 = s → sat K g π 0) :=
  LTL.modelcheck_exact K hK g hg

theorem ltl_excluded_iff_lasso (K : Kripke σ) (hK : K.WF) (g : Fm) (hg : g.isLTLPath = true) (R : List σ)
    (hR : LTL.modelcheck K (.A g) = .ok R) (s : σ) (hs : s ∈ K.states) :
    s ∉ R ↔ ∃ π, IsPath K π ∧ π 0 = s ∧ UltPeriodic π ∧ ¬ sat K g π 0 :=
  LTL.excluded_iff_lasso K hK g hg R hR s hs

/-- anything that is not `A` applied to a quantifier-free formula is rejected with `TypeError` -/
theorem ltl_reject (K : Kripke σ) (f : Fm) (h : ∀ g, f ≠ .A g) : LTL.modelcheck K f = .error .typeError := by
  unfold LTL.modelcheck
  split
  · rename_i g; exact absurd rfl (h g)
  · rfl

/-! non-vacuity -/
def K₀ : Kripke Nat :=
  { states := [0, 1], succ := fun s => if s = 0 then [0, 1] else [0], lab := fun s => if s = 0 then ["p"] else [] }

example : K₀.WF := by
  refine ⟨?_, ?_, ?_⟩ <;> simp [K₀]

example : LTL.modelcheck K₀ (.A (.F (.not (.ap "p")))) = .ok [1] := by decide +kernel
example : LTL.modelcheck K₀ (.A (.G (.F (.ap "p")))) = .ok [0, 1] := by decide +kernel

#print axioms ltl_exact
#print axioms ltl_excluded_iff_lasso
end PMC.C02
