/-
  C02 (atoms) — the tableau atoms `_build_atoms` constructs are as good as the textbook ones.

  `PMC/Model/LTL.lean` (and the exactness theorem `PMC.C02.ltl_exact` about it) enumerates the tableau atoms
  declaratively: a state and a subset of the elementary formulas.  The code does something else: it builds atoms as
  sets of closure formulas, by an incremental splitting procedure over the closure sorted by formula height
  (`_get_closure`, `_build_atoms`, `_Tableu`, `_does_respect_Xs`, `_is_non_trivial_self_fulfilling`,
  `_checkE_path_formula`).  `PMC/Model/LTLAtoms.lean` follows that code statement by statement (`closure`,
  `buildAtoms`, `edgeBuilt`, `ntsfBuilt`, `checkEBuilt`, `modelcheckBuilt`), for an ARBITRARY processing order `cl` of
  the closure, because Python's `sorted` breaks the ties of the height key in set-iteration (hash) order.

  Proved here, for every structure `K` (no well-formedness needed), every restricted formula `g` WITHOUT DOUBLE
  NEGATION (`g.noNN`; `get_equivalent_restricted_formula` only produces such formulas: `restricted_has_no_double_negation`)
  and every admissible order `cl` (`LTL.Adm g cl`: an enumeration without repetition of the closure `LTL.InCl g`,
  sorted by `LTL.sortKey`):

  * `checkEBuilt_iff_checkE`   `checkEBuilt K g cl` and the declarative `LTL.checkE K g` have the same members;
  * `checkEBuilt_exact`        hence `_checkE_path_formula` returns exactly the states with a path satisfying `g`;
  * `modelcheckBuilt_exact`    and `LTL.modelcheck` with the code's own atoms is exact (same statement as `ltl_exact`);
  * `closure_is_least_closed_set`, `closure_has_no_repetition`   the work-list `closure` computes `InCl g`;
  * `admissible_of_check`      the Boolean `admissibleB g cl` that `harness/validate_ltlatoms.py` evaluates on the
                               implementation's own `cl_list` implies `Adm g cl`; `default_order_admissible`;
  * the invariant of `_build_atoms` in the form the proof uses: `built_atoms_decide_every_closure_formula`,
    `built_atoms_truth`, `built_atoms_cover`, `dead_atoms_have_no_successor`.

  Everything asked for is proved; there is no "NOT PROVED" remainder for formulas without double negation.
-/

/- NOT PROVED (because it is FALSE): the same statements for restricted formulas WITH a double negation.
     `_build_atoms` handles `not not f` by the generic split, which manufactures atoms containing both `f` and
     `not f`; e.g. on the one-state structure labelled `p` with a self-loop, `_checkE_path_formula` answers {0} for
     `not p or not X not not p`, which no path satisfies (`double_negation_counterexample` below, and the same answer
     from the implementation: harness/validate_ltlatoms.py, category "nn").  This is not reachable through
     `LTL.modelcheck` / `CTLS.modelcheck`, which always rewrite with `get_equivalent_restricted_formula` first.
     Executable evidence: harness/validate_ltlatoms.py — implementation atoms = `buildAtoms` on the implementation's
     own order, `atomsInvariantB`, and `checkEBuilt = checkE` for the implementation's order and for a random
     admissible order, on every (structure, formula, hash seed) case without double negation: 0 mismatches
     (thorough tier: 36 201 (structure, formula) cases x 8 hash seeds = 289 608 observed atom lists, 2 406 264
     implementation atoms of which 1 088 888 dead, all of the single kind "contains X c and X LNot(c)";
     274 464 x 2 invariant / built = declarative checks; 15 144 double-negation observations, kept apart). -/
import PMC.Proofs.LTLAtomsGraph
import PMC.Proofs.LTLAtomsClosure
import PMC.Proofs.LTLAtomsFront
namespace PMC.C02
open PMC PMC.LTL
variable {σ : Type} [DecidableEq σ]

/-- the code's tableau (atoms built by `_build_atoms` in the order `cl`) and the declarative tableau return the
    same states -/
theorem checkEBuilt_iff_checkE (K : Kripke σ) (g : RFm) (cl : List RFm) (hg : g.noNN = true) (hadm : Adm g cl) :
    ∀ s, s ∈ checkEBuilt K g cl ↔ s ∈ LTL.checkE K g :=
  LTL.checkEBuilt_iff_checkE K g cl hg hadm

/-- `_checkE_path_formula` is exact -/
theorem checkEBuilt_exact (K : Kripke σ) (hK : K.WF) (g : RFm) (cl : List RFm) (hg : g.noNN = true)
    (hadm : Adm g cl) (s : σ) :
    s ∈ checkEBuilt K g cl ↔ (s ∈ K.states ∧ ∃ π, IsPath K π ∧ π 0 = s ∧ satAt K.lab π g 0) :=
  (LTL.checkEBuilt_iff_checkE K g cl hg hadm s).trans (LTL.checkE_exact K hK g s)

/-- what `modelcheck` hands to `_checkE_path_formula` never contains a double negation -/
theorem restricted_has_no_double_negation (f : Fm) (r : RFm) (h : toR f.restrict = some r) : r.noNN = true :=
  LTL.restrict_noNN f r h

/-- `LTL.modelcheck` with the code's own atom construction, for any way `ord` of breaking the ties of the sort, has
    the same members as the declarative model … -/
theorem modelcheckBuilt_agrees (ord : RFm → List RFm) (hord : ∀ r, r.noNN = true → Adm r (ord r))
    (K : Kripke σ) (f : Fm) :
    (∃ e, modelcheckBuilt ord K f = .error e ∧ LTL.modelcheck K f = .error e) ∨
    (∃ R R', modelcheckBuilt ord K f = .ok R ∧ LTL.modelcheck K f = .ok R' ∧ ∀ s, s ∈ R ↔ s ∈ R') := by
  cases f with
  | A g =>
    simp only [modelcheckBuilt, LTL.modelcheck]
    cases hr : toR g.lnot.restrict with
    | none => exact Or.inl ⟨_, rfl, rfl⟩
    | some r =>
      refine Or.inr ⟨_, _, rfl, rfl, fun s => ?_⟩
      have := LTL.checkEBuilt_iff_checkE K r (ord r) (LTL.restrict_noNN _ r hr) (hord r (LTL.restrict_noNN _ r hr)) s
      simp only [List.mem_filter, decide_eq_true_eq, this]
  | _ => exact Or.inl ⟨_, rfl, rfl⟩

/-- … hence it is exact -/
theorem modelcheckBuilt_exact (ord : RFm → List RFm) (hord : ∀ r, r.noNN = true → Adm r (ord r))
    (K : Kripke σ) (hK : K.WF) (g : Fm) (hg : g.isLTLPath = true) :
    ∃ R, modelcheckBuilt ord K (.A g) = .ok R ∧
      ∀ s, s ∈ R ↔ (s ∈ K.states ∧ ∀ π, IsPath K π → π 0 = s → sat K g π 0) := by
  obtain ⟨R', hR', hex⟩ := LTL.modelcheck_exact K hK g hg
  rcases modelcheckBuilt_agrees ord hord K (.A g) with ⟨e, _, h2⟩ | ⟨R, R'', h1, h2, h3⟩
  · rw [hR'] at h2; cases h2
  · rw [hR'] at h2; cases h2
    exact ⟨R, h1, fun s => (h3 s).trans (hex s)⟩

/-- the work-list `_get_closure` computes the least set containing `g` and closed under the closure rules … -/
theorem closure_is_least_closed_set (g : RFm) (hg : g.noNN = true) : ∀ φ, φ ∈ closure g ↔ InCl g φ :=
  LTL.closure_spec hg

/-- … without repetition -/
theorem closure_has_no_repetition (g : RFm) (hg : g.noNN = true) : (closure g).Nodup := LTL.closure_nodup hg

/-- the check the harness runs on the implementation's `cl_list` is the hypothesis of the theorems above -/
theorem admissible_of_check (g : RFm) (cl : List RFm) (hg : g.noNN = true) (h : admissibleB g cl = true) : Adm g cl :=
  LTL.adm_of_admissibleB hg h

theorem default_order_admissible (g : RFm) (hg : g.noNN = true) : Adm g (defaultOrder g) := LTL.adm_default hg

theorem modelcheckBuilt_default_exact (K : Kripke σ) (hK : K.WF) (g : Fm) (hg : g.isLTLPath = true) :
    ∃ R, modelcheckBuilt defaultOrder K (.A g) = .ok R ∧
      ∀ s, s ∈ R ↔ (s ∈ K.states ∧ ∀ π, IsPath K π → π 0 = s → sat K g π 0) :=
  modelcheckBuilt_exact defaultOrder (fun _ hr => LTL.adm_default hr) K hK g hg

/-! ### the invariant of `_build_atoms` (what `PMC/Proofs/LTLAtomsInv.lean` proves by induction over the processed
    prefix of `cl`), in its final form -/

/-- every atom contains exactly one of `φ`, `LNot φ`, for every closure formula `φ` -/
theorem built_atoms_decide_every_closure_formula (K : Kripke σ) (g : RFm) (cl : List RFm) (hg : g.noNN = true)
    (hadm : Adm g cl) (a : BAtom σ) (ha : a ∈ buildAtoms K cl) (φ : RFm) (hφ : InCl g φ) :
    lnotR φ ∈ a.2 ↔ φ ∉ a.2 :=
  LTL.built_lnot hg hadm ha hφ

/-- truth lemma: a subformula of `g` belongs to a built atom iff it is true in the declarative atom made of the
    atom's state and the elementary formulas it contains (good and dead atoms alike) -/
theorem built_atoms_truth (K : Kripke σ) (g : RFm) (cl : List RFm) (hg : g.noNN = true) (hadm : Adm g cl)
    (a : BAtom σ) (ha : a ∈ buildAtoms K cl) (φ : RFm) (hφ : φ ∈ g.subs) :
    φ ∈ a.2 ↔ val (K.lab a.1) ((elemX g).filter (fun x => decide (x ∈ a.2))) φ = true :=
  LTL.built_truth hg hadm ha φ hφ

/-- the good atoms are all there: for every state and every choice `xs` of X-formulas that contains exactly one of
    `X c`, `X (LNot c)` there is an atom whose closure formulas are exactly those true under `xs` -/
theorem built_atoms_cover (K : Kripke σ) (g : RFm) (cl : List RFm) (hg : g.noNN = true) (hadm : Adm g cl)
    (s : σ) (hs : s ∈ K.states) (xs : List RFm) (hd : DualCons g xs) :
    ∃ a ∈ buildAtoms K cl, a.1 = s ∧ ∀ φ, InCl g φ → (φ ∈ a.2 ↔ val (K.lab s) xs φ = true) :=
  LTL.built_exists hg hadm hs hd

/-- every other atom is dead: a node that is not dual-consistent (it contains both `X c` and `X (LNot c)` for some
    `c`) has no successor in the tableau, so it lies on no cycle and reaches no accepting component -/
theorem dead_atoms_have_no_successor (K : Kripke σ) (g : RFm) (cl : List RFm) (hg : g.noNN = true) (hadm : Adm g cl)
    (n : BNode σ) (hdead : ¬ DualOK g n.2) : bnext K cl n = [] := by
  apply List.eq_nil_iff_forall_not_mem.mpr
  intro m hm
  exact hdead (LTL.edge_dualOK hg hadm hm)

/-! ### non-vacuity, and the double-negation counterexample -/

def K₁ : Kripke Nat := { states := [0], succ := fun _ => [0], lab := fun _ => ["p"] }

/-- `X p`: three atoms per state, one of them dead -/
example : (buildAtoms K₁ (defaultOrder (.X (.ap "p")))).length = 3 := by decide +kernel
example : checkEBuilt K₁ (.X (.ap "p")) (defaultOrder (.X (.ap "p"))) = [0] := by decide +kernel
example : admissibleB (.X (.ap "p")) (defaultOrder (.X (.ap "p"))) = true := by decide +kernel

/-- with a double negation the code's tableau is wrong: `not p or not X not not p` holds on no path of `K₁` -/
def gNN : RFm := .or [.not (.ap "p"), .not (.X (.not (.not (.ap "p"))))]

theorem double_negation_counterexample :
    0 ∈ checkEBuilt K₁ gNN (defaultOrder gNN) ∧ LTL.checkE K₁ gNN = [] ∧ admissibleB gNN (defaultOrder gNN) = true := by
  decide +kernel

#print axioms checkEBuilt_iff_checkE
#print axioms checkEBuilt_exact
#print axioms modelcheckBuilt_exact
#print axioms closure_is_least_closed_set
#print axioms admissible_of_check
#print axioms built_atoms_cover
#print axioms double_negation_counterexample
end PMC.C02
