/-
  C03 — CTL* model checking is exact for arbitrary quantifier/path-operator nesting.

  For every finite total Kripke structure K and every CTL* state formula f, CTLS.modelcheck(K, f) returns exactly the
  states satisfying f under the documented CTL* semantics.

  Model: `CTLS.modelcheck` (PMC/Model/CTLS.lean): `_remove_state_subformulas` / `_checkQuantifiedFormula` — innermost
  quantified subformulas are checked first (CTL when castable, otherwise LTL; `E g` as `not A not g`) and replaced by
  a fresh atom `[<printed formula>]` labelling exactly their satisfying states on a clone of K.

  `ctls_exact_partial` is the full exactness statement under one extra, *decidable* hypothesis `CTLS.namesOK K f`:
  on this run no generated atom name coincided with an atom of f or a label of K, and a name generated twice was
  generated for the same set of states.  The driver evaluates `namesOK` on every correspondence case (it has never
  been false).  The hypothesis is DISCHARGED from "atoms and labels are identifier-style names, n-ary and/or have at
  least two operands" in PMC/Properties/C03Full.lean (`namesOK_of_wf`, `ctls_exact`; via print injectivity,
  PMC/Proofs/PrintBracket.lean, CTLSNames.lean); `ctls_exact_partial` remains the form to use for other names, with
  `namesOK` checked at run time.
-/
import PMC.Proofs.CTLSExact
namespace PMC.C03
open PMC
variable {σ : Type} [DecidableEq σ]

theorem ctls_exact_partial (K : Kripke σ) (hK : K.WF) (f : Fm) (hf : f.isCTLSState = true)
    (hn : CTLS.namesOK K f = true) :
    ∃ R, CTLS.modelcheck K f = .ok R ∧ ∀ s, s ∈ R ↔ (s ∈ K.states ∧ satState K f s) :=
  CTLS.modelcheck_exact_of_namesOK K hK f hf hn

theorem ctls_reject (K : Kripke σ) (f : Fm) (hf : f.isCTLSState = false) :
    CTLS.modelcheck K f = .error .typeError :=
  CTLS.modelcheck_reject K f hf

/-! non-vacuity: nested quantifiers, an LTL-only path formula, and the `E`-through-`not A not` branch -/
def K₀ : Kripke Nat :=
  { states := [0, 1], succ := fun s => if s = 0 then [0, 1] else [0], lab := fun s => if s = 0 then ["p"] else [] }

example : K₀.WF := by
  refine ⟨?_, ?_, ?_⟩ <;> simp [K₀]

example : CTLS.namesOK K₀ (.A (.G (.E (.F (.X (.ap "p")))))) = true := by decide +kernel
example : CTLS.modelcheck K₀ (.A (.G (.E (.F (.X (.ap "p")))))) = .ok [0, 1] := by decide +kernel
example : CTLS.modelcheck K₀ (.E (.and [.G (.F (.ap "p")), .G (.F (.not (.ap "p")))])) = .ok [0, 1] := by
  decide +kernel

#print axioms ctls_exact_partial
end PMC.C03
