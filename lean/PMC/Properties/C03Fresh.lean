/-
  C03 — the generated atom names are fresh (companion of C15Label.lean).

  `Fair.fairLabel K` (`label_fair_states`: 'fair', 'fair0', 'fair1', …) and `CTLS.freshName K f`
  (`_get_a_new_atomic_proposition_for`: '[f]', '[[f](0)]', '[[f](1)]', …) both return "the first candidate that is not
  among the labels of the structure"; the model has a fall-through branch for "all `labs.length + 1` candidates are
  taken".  That branch is unreachable (pigeonhole + injectivity of `i ↦ toString i`), so the returned name is never a
  label of `K`; moreover the returned name is the *least* free candidate.
-/
import PMC.Model.Fair
import PMC.Model.CTLS
import PMC.Proofs.FreshLabel
namespace PMC.C03
open PMC PMC.CTLS PMC.FreshLabel
variable {σ : Type}

/-- the atom generated for a quantified subformula is not a label of the structure -/
theorem freshName_fresh (K : Kripke σ) (f : Fm) : freshName K f ∉ K.allLabels :=
  pick_fresh K.allLabels ("[" ++ f.print ++ "]")
    (fun i => "[" ++ ("[" ++ f.print ++ "]") ++ "(" ++ toString i ++ ")]") (bracket_candidates_injective _)

/-- `'[f]'` itself is chosen exactly when it is free -/
theorem freshName_eq_base_iff (K : Kripke σ) (f : Fm) :
    freshName K f = "[" ++ f.print ++ "]" ↔ "[" ++ f.print ++ "]" ∉ K.allLabels := by
  constructor
  · intro h; rw [← h]; exact freshName_fresh K f
  · intro h; unfold freshName; exact if_pos h

/-- otherwise the name is `'[[f](i)]'` for the least free `i` -/
theorem freshName_minimal (K : Kripke σ) (f : Fm) (h : "[" ++ f.print ++ "]" ∈ K.allLabels) :
    ∃ i, freshName K f = "[" ++ ("[" ++ f.print ++ "]") ++ "(" ++ toString i ++ ")]" ∧ i ≤ K.allLabels.length ∧
      "[" ++ ("[" ++ f.print ++ "]") ++ "(" ++ toString i ++ ")]" ∉ K.allLabels ∧
      ∀ j, j < i → "[" ++ ("[" ++ f.print ++ "]") ++ "(" ++ toString j ++ ")]" ∈ K.allLabels :=
  pick_minimal K.allLabels ("[" ++ f.print ++ "]")
    (fun i => "[" ++ ("[" ++ f.print ++ "]") ++ "(" ++ toString i ++ ")]") (bracket_candidates_injective _) h

theorem freshName_not_mem_lab (K : Kripke σ) (f : Fm) (s : σ) (hs : s ∈ K.states) : freshName K f ∉ K.lab s :=
  fun h => freshName_fresh K f (List.mem_flatMap.mpr ⟨s, hs, h⟩)

#print axioms freshName_fresh
#print axioms freshName_eq_base_iff
#print axioms freshName_minimal
end PMC.C03
