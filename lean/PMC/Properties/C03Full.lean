/-
  C03 at full strength — CTL* model checking is exact for arbitrary quantifier/path-operator nesting, for
  identifier-style names.

  `ctls_exact_partial` (PMC/Properties/C03.lean) needs the run-time hypothesis `CTLS.namesOK K f`.  Here it is
  discharged from a *static* hypothesis: the atoms of `f` and the labels of `K` are identifier-style, non-reserved
  names (`Fm.wfAtoms`, `Fm.wfName`: what the parser accepts) and every n-ary `and`/`or` has at least two operands
  (`Fm.arityOK`: what the parser builds).  Proof: PMC/Proofs/CTLSNames.lean (invariant along the run) on top of
  PMC/Proofs/PrintBracket.lean (printing is injective over identifier-style names and generated bracket names).

  The arity hypothesis cannot be dropped: `Or()` and `And()` with no operand both print as `()`, so `A X Or()` and
  `A X And()` get the same generated name although they hold on different sets of states (example below).
-/
import PMC.Properties.C03
import PMC.Proofs.CTLSNames
namespace PMC.C03
open PMC
variable {σ : Type} [DecidableEq σ]

/-- the naming discipline always works when the formula's atoms and the structure's labels are identifier-style
    (`hK`, `_hf` are not needed for this part; kept so that the hypotheses are those of `ctls_exact`) -/
theorem namesOK_of_wf (K : Kripke σ) (hK : K.WF) (f : Fm) (_hf : f.isCTLSState = true)
    (ha : f.wfAtoms = true) (hr : f.arityOK = true) (hl : ∀ l ∈ K.allLabels, Fm.wfName l = true) :
    CTLS.namesOK K f = true :=
  CTLS.namesOK_of_wf K hK f ha hr hl

/-- C03 at full strength for identifier-style names -/
theorem ctls_exact (K : Kripke σ) (hK : K.WF) (f : Fm) (hf : f.isCTLSState = true)
    (ha : f.wfAtoms = true) (hr : f.arityOK = true) (hl : ∀ l ∈ K.allLabels, Fm.wfName l = true) :
    ∃ R, CTLS.modelcheck K f = .ok R ∧ ∀ s, s ∈ R ↔ (s ∈ K.states ∧ satState K f s) :=
  ctls_exact_partial K hK f hf (namesOK_of_wf K hK f hf ha hr hl)

/-! non-vacuity on the structure `K₀` of C03.lean: the `E`-through-`not A not` branch with a generated atom printed
    inside another generated name, a repeated quantified subformula (indexed names `[[A(X(p))](0)]`, `[[A(X(p))](1)]`),
    and a name generated twice (`[E(F(G(A(X(p)))))]`, both times for the empty set, so never a label) -/
theorem k0_wf : K₀.WF := by
  refine ⟨?_, ?_, ?_⟩ <;> simp [K₀]

theorem k0_labels : ∀ l ∈ K₀.allLabels, Fm.wfName l = true := by decide

def f₁ : Fm := .and [.E (.F (.G (.A (.X (.ap "p"))))), .A (.X (.ap "p")), .not (.E (.F (.G (.A (.X (.ap "p"))))))]

example : (CTLS.removeStateT K₀ f₁).2.2.map (·.1) =
    ["[A(X(p))]", "[A(not F(G([A(X(p))])))]", "[E(F(G(A(X(p)))))]", "[[A(X(p))](0)]",
     "[[A(X(p))](1)]", "[A(not F(G([[A(X(p))](1)])))]", "[E(F(G(A(X(p)))))]"] := by decide +kernel

example : ∃ R, CTLS.modelcheck K₀ f₁ = .ok R ∧ ∀ s, s ∈ R ↔ (s ∈ K₀.states ∧ satState K₀ f₁ s) :=
  ctls_exact K₀ k0_wf f₁ (by decide) (by decide) (by decide) k0_labels

example : CTLS.namesOK K₀ f₁ = true := namesOK_of_wf K₀ k0_wf f₁ (by decide) (by decide) (by decide) k0_labels

/-- the arity hypothesis is needed: operand-free `Or()` / `And()` print identically (`()`), the two quantified
    subformulas get the same name for different sets (∅ and all states), and the answer is wrong: no state
    satisfies `A X false`, yet both states are returned -/
def fBad : Fm := .and [.A (.X (.or [])), .A (.X (.and []))]
example : fBad.isCTLSState = true ∧ fBad.wfAtoms = true ∧ fBad.arityOK = false := by decide
example : CTLS.namesOK K₀ fBad = false := by decide +kernel
example : CTLS.modelcheck K₀ fBad = .ok [0, 1] := by decide +kernel
example : ¬ satState K₀ fBad 0 := by
  simp only [satState, fBad, sat, sat.satAll, sat.satAny]
  intro h
  exact h.1 (fun _ => 0) (fun _ => by simp [K₀]) rfl

#print axioms namesOK_of_wf
#print axioms ctls_exact
end PMC.C03
