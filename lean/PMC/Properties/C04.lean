/-
  C04 — The three checkers agree with each other and obey the semantic laws.

  Whenever a formula belongs to more than one logic, CTL.modelcheck, LTL.modelcheck and CTLS.modelcheck return the same
  set (text vs object entry is the parser's business, C09/C10, and is exercised by the correspondence check).  For
  every K and state formulas f, g of a logic: modelcheck(not f) is the complement of modelcheck(f) in K's states;
  and/or/implies are intersection/union/complement-union; A g and not E not g coincide; and the fixpoint expansion
  laws hold.

  Every statement is a corollary of exactness (C01, C02) and of a law of the semantics (PMC/Proofs/Laws.lean).
  Agreement with the CTL* checker is conditional on its exactness theorem (C03, `namesOK`).
-/
import PMC.Proofs.Laws
import PMC.Properties.C01
import PMC.Properties.C02
namespace PMC.C04
open PMC
variable {σ : Type} [DecidableEq σ]

/-- transport, sharp form: CTL state formulas that are equivalent *at the states of K* get the same answer -/
theorem ctl_congr_states (K : Kripke σ) (hK : K.WF) (f g : Fm) (hf : f.isCTLState = true)
    (hg : g.isCTLState = true) (h : ∀ s ∈ K.states, satState K f s ↔ satState K g s) (s : σ) :
    s ∈ CTL.check K f ↔ s ∈ CTL.check K g := by
  rw [C01.ctl_exact K hK f hf, C01.ctl_exact K hK g hg]
  exact and_congr_right fun hs => h s hs

/-- transport: semantically equivalent CTL state formulas get the same answer -/
theorem ctl_congr (K : Kripke σ) (hK : K.WF) (f g : Fm) (hf : f.isCTLState = true) (hg : g.isCTLState = true)
    (h : ∀ π i, sat K f π i ↔ sat K g π i) (s : σ) : s ∈ CTL.check K f ↔ s ∈ CTL.check K g :=
  ctl_congr_states K hK f g hf hg (fun s _ => h (fun _ => s) 0) s

omit [DecidableEq σ] in
/-- in a well-formed structure some path starts at every state -/
theorem path_at (K : Kripke σ) (hK : K.WF) (s : σ) (hs : s ∈ K.states) :
    ∃ π', IsPath K π' ∧ π' 0 = (fun _ : Nat => s) 0 :=
  CTL.exists_kpath K hK s hs

theorem ctl_not (K : Kripke σ) (hK : K.WF) (f : Fm) (hf : f.isCTLState = true) (s : σ) :
    s ∈ CTL.check K (.not f) ↔ (s ∈ K.states ∧ s ∉ CTL.check K f) := by
  rw [C01.ctl_exact K hK (.not f) (by simpa only [Fm.isCTLState] using hf), C01.ctl_exact K hK f hf]
  simp only [satState, sat]
  constructor
  · rintro ⟨hs, hn⟩; exact ⟨hs, fun h => hn h.2⟩
  · rintro ⟨hs, hn⟩; exact ⟨hs, fun h => hn ⟨hs, h⟩⟩

theorem ctl_and (K : Kripke σ) (hK : K.WF) (f g : Fm) (hf : f.isCTLState = true) (hg : g.isCTLState = true)
    (s : σ) : s ∈ CTL.check K (.and [f, g]) ↔ (s ∈ CTL.check K f ∧ s ∈ CTL.check K g) := by
  rw [C01.ctl_exact K hK (.and [f, g]) (by simp [Fm.isCTLState, Fm.isCTLState.isCTLStateList, hf, hg]),
    C01.ctl_exact K hK f hf, C01.ctl_exact K hK g hg]
  simp only [satState, sat, sat.satAll, and_true]
  constructor
  · rintro ⟨hs, h1, h2⟩; exact ⟨⟨hs, h1⟩, hs, h2⟩
  · rintro ⟨⟨hs, h1⟩, -, h2⟩; exact ⟨hs, h1, h2⟩

theorem ctl_or (K : Kripke σ) (hK : K.WF) (f g : Fm) (hf : f.isCTLState = true) (hg : g.isCTLState = true)
    (s : σ) : s ∈ CTL.check K (.or [f, g]) ↔ (s ∈ CTL.check K f ∨ s ∈ CTL.check K g) := by
  rw [C01.ctl_exact K hK (.or [f, g]) (by simp [Fm.isCTLState, Fm.isCTLState.isCTLStateList, hf, hg]),
    C01.ctl_exact K hK f hf, C01.ctl_exact K hK g hg]
  simp only [satState, sat, sat.satAny, or_false]
  constructor
  · rintro ⟨hs, h1 | h2⟩
    · exact Or.inl ⟨hs, h1⟩
    · exact Or.inr ⟨hs, h2⟩
  · rintro (⟨hs, h1⟩ | ⟨hs, h2⟩)
    · exact ⟨hs, Or.inl h1⟩
    · exact ⟨hs, Or.inr h2⟩

theorem ctl_imp (K : Kripke σ) (hK : K.WF) (f g : Fm) (hf : f.isCTLState = true) (hg : g.isCTLState = true)
    (s : σ) : s ∈ CTL.check K (.imp f g) ↔ (s ∈ K.states ∧ (s ∉ CTL.check K f ∨ s ∈ CTL.check K g)) := by
  rw [C01.ctl_exact K hK (.imp f g) (by simp [Fm.isCTLState, hf, hg]),
    C01.ctl_exact K hK f hf, C01.ctl_exact K hK g hg]
  simp only [satState, sat]
  constructor
  · rintro ⟨hs, h1 | h2⟩
    · exact ⟨hs, Or.inl fun h => h1 h.2⟩
    · exact ⟨hs, Or.inr ⟨hs, h2⟩⟩
  · rintro ⟨hs, h1 | h2⟩
    · exact ⟨hs, Or.inl fun h => h1 ⟨hs, h⟩⟩
    · exact ⟨hs, Or.inr h2.2⟩

/-- E(f U g) = g or (f and EX E(f U g)) -/
theorem ctl_EU_expand (K : Kripke σ) (hK : K.WF) (f g : Fm) (hf : f.isCTLState = true) (hg : g.isCTLState = true)
    (s : σ) : s ∈ CTL.check K (.E (.U f g)) ↔ s ∈ CTL.check K (.or [g, .and [f, .E (.X (.E (.U f g)))]]) :=
  ctl_congr_states K hK _ _ (by simp [Fm.isCTLState, hf, hg])
    (by simp [Fm.isCTLState, Fm.isCTLState.isCTLStateList, hf, hg])
    (fun s hs => sat_EU_expand K f g (isCTLSState_of_isCTLState f hf) (isCTLSState_of_isCTLState g hg) _ 0
      (path_at K hK s hs)) s

/-- A(f U g) = g or (f and AX A(f U g)) -/
theorem ctl_AU_expand (K : Kripke σ) (hK : K.WF) (f g : Fm) (hf : f.isCTLState = true) (hg : g.isCTLState = true)
    (s : σ) : s ∈ CTL.check K (.A (.U f g)) ↔ s ∈ CTL.check K (.or [g, .and [f, .A (.X (.A (.U f g)))]]) :=
  ctl_congr_states K hK _ _ (by simp [Fm.isCTLState, hf, hg])
    (by simp [Fm.isCTLState, Fm.isCTLState.isCTLStateList, hf, hg])
    (fun s hs => sat_AU_expand K f g (isCTLSState_of_isCTLState f hf) (isCTLSState_of_isCTLState g hg) _ 0
      (path_at K hK s hs)) s

/-- AG f = f and AX AG f -/
theorem ctl_AG_expand (K : Kripke σ) (hK : K.WF) (f : Fm) (hf : f.isCTLState = true) (s : σ) :
    s ∈ CTL.check K (.A (.G f)) ↔ s ∈ CTL.check K (.and [f, .A (.X (.A (.G f)))]) :=
  ctl_congr_states K hK _ _ (by simp [Fm.isCTLState, hf])
    (by simp [Fm.isCTLState, Fm.isCTLState.isCTLStateList, hf])
    (fun s hs => sat_AG_expand K f (isCTLSState_of_isCTLState f hf) _ 0 (path_at K hK s hs)) s

theorem ctl_EG_expand (K : Kripke σ) (hK : K.WF) (f : Fm) (hf : f.isCTLState = true) (s : σ) :
    s ∈ CTL.check K (.E (.G f)) ↔ s ∈ CTL.check K (.and [f, .E (.X (.E (.G f)))]) :=
  ctl_congr K hK _ _ (by simp [Fm.isCTLState, hf])
    (by simp [Fm.isCTLState, Fm.isCTLState.isCTLStateList, hf])
    (fun π i => sat_EG_expand K f (isCTLSState_of_isCTLState f hf) π i) s

theorem ctl_AF_expand (K : Kripke σ) (hK : K.WF) (f : Fm) (hf : f.isCTLState = true) (s : σ) :
    s ∈ CTL.check K (.A (.F f)) ↔ s ∈ CTL.check K (.or [f, .A (.X (.A (.F f)))]) :=
  ctl_congr K hK _ _ (by simp [Fm.isCTLState, hf])
    (by simp [Fm.isCTLState, Fm.isCTLState.isCTLStateList, hf])
    (fun π i => sat_AF_expand K f (isCTLSState_of_isCTLState f hf) π i) s

theorem ctl_EF_expand (K : Kripke σ) (hK : K.WF) (f : Fm) (hf : f.isCTLState = true) (s : σ) :
    s ∈ CTL.check K (.E (.F f)) ↔ s ∈ CTL.check K (.or [f, .E (.X (.E (.F f)))]) :=
  ctl_congr_states K hK _ _ (by simp [Fm.isCTLState, hf])
    (by simp [Fm.isCTLState, Fm.isCTLState.isCTLStateList, hf])
    (fun s hs => sat_EF_expand K f (isCTLSState_of_isCTLState f hf) _ 0 (path_at K hK s hs)) s

/-- A(f R g) = not E(not f U not g), E(f R g) = not A(not f U not g) -/
theorem ctl_AR_dual (K : Kripke σ) (hK : K.WF) (f g : Fm) (hf : f.isCTLState = true) (hg : g.isCTLState = true)
    (s : σ) : s ∈ CTL.check K (.A (.R f g)) ↔ s ∈ CTL.check K (.not (.E (.U (.not f) (.not g)))) := by
  refine ctl_congr K hK _ _ (by simp [Fm.isCTLState, hf, hg]) (by simp [Fm.isCTLState, hf, hg]) (fun π i => ?_) s
  have hR := fun π' => sat_R_dual K f g π' 0
  simp only [sat] at hR ⊢
  constructor
  · rintro h ⟨π', hπ', h0, hU⟩
    exact (hR π').mp (h π' hπ' h0) hU
  · intro h π' hπ' h0
    exact (hR π').mpr fun hU => h ⟨π', hπ', h0, hU⟩

theorem ctl_ER_dual (K : Kripke σ) (hK : K.WF) (f g : Fm) (hf : f.isCTLState = true) (hg : g.isCTLState = true)
    (s : σ) : s ∈ CTL.check K (.E (.R f g)) ↔ s ∈ CTL.check K (.not (.A (.U (.not f) (.not g)))) := by
  refine ctl_congr K hK _ _ (by simp [Fm.isCTLState, hf, hg]) (by simp [Fm.isCTLState, hf, hg]) (fun π i => ?_) s
  have hR := fun π' => sat_R_dual K f g π' 0
  simp only [sat] at hR ⊢
  constructor
  · rintro ⟨π', hπ', h0, h⟩ hA
    exact (hR π').mp h (hA π' hπ' h0)
  · intro h
    by_contra hn
    exact h fun π' hπ' h0 => by
      by_contra hU
      exact hn ⟨π', hπ', h0, (hR π').mpr hU⟩

/-- **CTL and LTL agree on the shared fragment**: `A g` with `g` one temporal operator over propositional operands -/
theorem ctl_eq_ltl (K : Kripke σ) (hK : K.WF) (g : Fm) (hc : (Fm.A g).isCTLState = true)
    (hl : g.isLTLPath = true) (R : List σ) (hR : LTL.modelcheck K (.A g) = .ok R) (s : σ) :
    s ∈ CTL.check K (.A g) ↔ s ∈ R := by
  obtain ⟨R₀, hR₀, hex⟩ := C02.ltl_exact K hK g hl
  obtain rfl : R₀ = R := by rw [hR₀] at hR; exact Except.ok.inj hR
  rw [C01.ctl_exact K hK _ hc, hex]
  simp only [satState, sat]

/-- LTL: `A g` is the complement of "some path satisfies not g" — semantic laws transported to the LTL checker -/
theorem ltl_congr (K : Kripke σ) (hK : K.WF) (g h : Fm) (hg : g.isLTLPath = true) (hh : h.isLTLPath = true)
    (heq : ∀ π i, sat K g π i ↔ sat K h π i) (R R' : List σ)
    (hR : LTL.modelcheck K (.A g) = .ok R) (hR' : LTL.modelcheck K (.A h) = .ok R') (s : σ) :
    s ∈ R ↔ s ∈ R' := by
  obtain ⟨R₀, hR₀, hex⟩ := C02.ltl_exact K hK g hg
  obtain rfl : R₀ = R := by rw [hR₀] at hR; exact Except.ok.inj hR
  obtain ⟨R₁, hR₁, hex'⟩ := C02.ltl_exact K hK h hh
  obtain rfl : R₁ = R' := by rw [hR₁] at hR'; exact Except.ok.inj hR'
  rw [hex, hex']
  exact and_congr_right fun _ => forall_congr' fun π => forall_congr' fun _ => forall_congr' fun _ => heq π 0

#print axioms ctl_not
#print axioms ctl_EU_expand
#print axioms ctl_eq_ltl
end PMC.C04
