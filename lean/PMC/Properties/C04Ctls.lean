/-
  C04 for the CTL* checker — `CTLS.modelcheck` agrees with the CTL checker on CTL state formulas and with the LTL
  checker on `A g`, and obeys the semantic laws (`A g` = complement of `E ¬g`, ¬/∧/∨/→ as set operations, the
  fixpoint expansion laws).

  Hypotheses: those of `C03.ctls_exact` (PMC/Properties/C03Full.lean) — `K.WF`, the atoms of the formulas and the
  labels of K are identifier-style names (`Fm.wfAtoms`, `Fm.wfName`), n-ary ∧/∨ have at least two operands
  (`Fm.arityOK`).  They cannot be dropped (`C03.fBad`).  "The same set" is stated as "the same members": the model
  returns lists whose order/repetitions stand for Python's set iteration order.

  The answers `R`, `R'` are introduced by hypotheses `CTLS.modelcheck K f = .ok R` as in `C04.ctl_eq_ltl`; these
  hypotheses are always satisfiable: `ctls_ok` (from `C03.ctls_exact`) gives the `R`.

  Every statement is a corollary of exactness (C01, C02, C03) and of a law of the semantics (PMC/Proofs/Laws.lean).
-/
import PMC.Proofs.CTLSLaws
import PMC.Properties.C04
namespace PMC.C04
open PMC
variable {σ : Type} [DecidableEq σ]

/-- under the hypotheses of `ctls_exact` the CTL* checker returns an answer -/
theorem ctls_ok (K : Kripke σ) (hK : K.WF) (hl : ∀ l ∈ K.allLabels, Fm.wfName l = true) (f : Fm)
    (hf : f.isCTLSState = true) (ha : f.wfAtoms = true) (hr : f.arityOK = true) :
    ∃ R, CTLS.modelcheck K f = .ok R :=
  (C03.ctls_exact K hK f hf ha hr hl).imp fun _ h => h.1

/-- membership form of `C03.ctls_exact` -/
theorem ctls_mem (K : Kripke σ) (hK : K.WF) (hl : ∀ l ∈ K.allLabels, Fm.wfName l = true) (f : Fm)
    (hf : f.isCTLSState = true) (ha : f.wfAtoms = true) (hr : f.arityOK = true)
    (R : List σ) (hR : CTLS.modelcheck K f = .ok R) (s : σ) :
    s ∈ R ↔ (s ∈ K.states ∧ satState K f s) := by
  obtain ⟨R₀, hR₀, hex⟩ := C03.ctls_exact K hK f hf ha hr hl
  obtain rfl : R₀ = R := by rw [hR₀] at hR; exact Except.ok.inj hR
  exact hex s

/-! ### agreement of the three checkers -/

/-- **CTL* = CTL** on CTL state formulas -/
theorem ctls_eq_ctl (K : Kripke σ) (hK : K.WF) (hl : ∀ l ∈ K.allLabels, Fm.wfName l = true) (f : Fm)
    (hf : f.isCTLState = true) (ha : f.wfAtoms = true) (hr : f.arityOK = true)
    (R : List σ) (hR : CTLS.modelcheck K f = .ok R) (s : σ) :
    s ∈ R ↔ s ∈ CTL.check K f := by
  rw [ctls_mem K hK hl f (isCTLSState_of_isCTLState f hf) ha hr R hR, C01.ctl_exact K hK f hf]

/-- the same at the level of the two entry points -/
theorem ctls_eq_ctl_modelcheck (K : Kripke σ) (hK : K.WF) (hl : ∀ l ∈ K.allLabels, Fm.wfName l = true) (f : Fm)
    (hf : f.isCTLState = true) (ha : f.wfAtoms = true) (hr : f.arityOK = true) :
    ∃ R R', CTLS.modelcheck K f = .ok R ∧ CTL.modelcheck K f = .ok R' ∧ ∀ s, s ∈ R ↔ s ∈ R' := by
  obtain ⟨R, hR⟩ := ctls_ok K hK hl f (isCTLSState_of_isCTLState f hf) ha hr
  exact ⟨R, _, hR, C01.modelcheck_ok K f hf, ctls_eq_ctl K hK hl f hf ha hr R hR⟩

/-- **CTL* = LTL** on `A g`, `g` an LTL path formula -/
theorem ctls_eq_ltl (K : Kripke σ) (hK : K.WF) (hl : ∀ l ∈ K.allLabels, Fm.wfName l = true) (g : Fm)
    (hg : g.isLTLPath = true) (ha : g.wfAtoms = true) (hr : g.arityOK = true)
    (R R' : List σ) (hR : CTLS.modelcheck K (.A g) = .ok R) (hR' : LTL.modelcheck K (.A g) = .ok R') (s : σ) :
    s ∈ R ↔ s ∈ R' := by
  obtain ⟨R₀, hR₀, hex⟩ := C02.ltl_exact K hK g hg
  obtain rfl : R₀ = R' := by rw [hR₀] at hR'; exact Except.ok.inj hR'
  rw [ctls_mem K hK hl (.A g) rfl ha hr R hR, hex]
  simp only [satState, sat]

/-- the same with the two answers produced, not assumed -/
theorem ctls_eq_ltl_modelcheck (K : Kripke σ) (hK : K.WF) (hl : ∀ l ∈ K.allLabels, Fm.wfName l = true) (g : Fm)
    (hg : g.isLTLPath = true) (ha : g.wfAtoms = true) (hr : g.arityOK = true) :
    ∃ R R', CTLS.modelcheck K (.A g) = .ok R ∧ LTL.modelcheck K (.A g) = .ok R' ∧ ∀ s, s ∈ R ↔ s ∈ R' := by
  obtain ⟨R, hR⟩ := ctls_ok K hK hl (.A g) rfl ha hr
  obtain ⟨R', hR', _⟩ := C02.ltl_exact K hK g hg
  exact ⟨R, R', hR, hR', ctls_eq_ltl K hK hl g hg ha hr R R' hR hR'⟩

/-- **all three checkers agree** on the common fragment (`A g` in CTL and in LTL) -/
theorem three_checkers_agree (K : Kripke σ) (hK : K.WF) (hl : ∀ l ∈ K.allLabels, Fm.wfName l = true) (g : Fm)
    (hc : (Fm.A g).isCTLState = true) (hg : g.isLTLPath = true) (ha : g.wfAtoms = true) (hr : g.arityOK = true) :
    ∃ R₁ R₂ R₃, CTL.modelcheck K (.A g) = .ok R₁ ∧ LTL.modelcheck K (.A g) = .ok R₂ ∧
      CTLS.modelcheck K (.A g) = .ok R₃ ∧ ∀ s, (s ∈ R₁ ↔ s ∈ R₂) ∧ (s ∈ R₂ ↔ s ∈ R₃) := by
  obtain ⟨R₃, R₂, h₃, h₂, h⟩ := ctls_eq_ltl_modelcheck K hK hl g hg ha hr
  exact ⟨_, R₂, R₃, C01.modelcheck_ok K _ hc, h₂, h₃, fun s =>
    ⟨ctl_eq_ltl K hK g hc hg R₂ h₂ s, (h s).symm⟩⟩

/-! ### transport of semantic equivalences -/

/-- CTL* state formulas that are equivalent at the states of K get the same answer -/
theorem ctls_congr_states (K : Kripke σ) (hK : K.WF) (hl : ∀ l ∈ K.allLabels, Fm.wfName l = true) (f g : Fm)
    (hf : f.isCTLSState = true) (haf : f.wfAtoms = true) (hrf : f.arityOK = true)
    (hg : g.isCTLSState = true) (hag : g.wfAtoms = true) (hrg : g.arityOK = true)
    (h : ∀ s ∈ K.states, satState K f s ↔ satState K g s)
    (R R' : List σ) (hR : CTLS.modelcheck K f = .ok R) (hR' : CTLS.modelcheck K g = .ok R') (s : σ) :
    s ∈ R ↔ s ∈ R' := by
  rw [ctls_mem K hK hl f hf haf hrf R hR, ctls_mem K hK hl g hg hag hrg R' hR']
  exact and_congr_right fun hs => h s hs

theorem ctls_congr (K : Kripke σ) (hK : K.WF) (hl : ∀ l ∈ K.allLabels, Fm.wfName l = true) (f g : Fm)
    (hf : f.isCTLSState = true) (haf : f.wfAtoms = true) (hrf : f.arityOK = true)
    (hg : g.isCTLSState = true) (hag : g.wfAtoms = true) (hrg : g.arityOK = true)
    (h : ∀ π i, sat K f π i ↔ sat K g π i)
    (R R' : List σ) (hR : CTLS.modelcheck K f = .ok R) (hR' : CTLS.modelcheck K g = .ok R') (s : σ) :
    s ∈ R ↔ s ∈ R' :=
  ctls_congr_states K hK hl f g hf haf hrf hg hag hrg (fun s _ => h (fun _ => s) 0) R R' hR hR' s

/-! ### `A g` and `E ¬g`  (g any CTL* path formula) -/

/-- `A g` and `¬E¬g` get the same answer from the CTL* checker -/
theorem ctls_A_dual (K : Kripke σ) (hK : K.WF) (hl : ∀ l ∈ K.allLabels, Fm.wfName l = true) (g : Fm)
    (ha : g.wfAtoms = true) (hr : g.arityOK = true)
    (R R' : List σ) (hR : CTLS.modelcheck K (.A g) = .ok R)
    (hR' : CTLS.modelcheck K (.not (.E (.not g))) = .ok R') (s : σ) :
    s ∈ R ↔ s ∈ R' :=
  ctls_congr K hK hl (.A g) (.not (.E (.not g))) rfl ha hr rfl ha hr
    (fun π i => sat_A_iff_not_E_not K g π i) R R' hR hR' s

/-- the answer for `A g` is the complement, in K's states, of the answer for `E ¬g` -/
theorem ctls_A_compl (K : Kripke σ) (hK : K.WF) (hl : ∀ l ∈ K.allLabels, Fm.wfName l = true) (g : Fm)
    (ha : g.wfAtoms = true) (hr : g.arityOK = true)
    (R R' : List σ) (hR : CTLS.modelcheck K (.A g) = .ok R)
    (hR' : CTLS.modelcheck K (.E (.not g)) = .ok R') (s : σ) :
    s ∈ R ↔ (s ∈ K.states ∧ s ∉ R') := by
  rw [ctls_mem K hK hl (.A g) rfl ha hr R hR, ctls_mem K hK hl (.E (.not g)) rfl ha hr R' hR']
  have := sat_A_iff_not_E_not K g (fun _ => s) 0
  simp only [satState]
  rw [this]
  simp only [sat]
  constructor
  · rintro ⟨hs, hn⟩; exact ⟨hs, fun h => hn h.2⟩
  · rintro ⟨hs, hn⟩; exact ⟨hs, fun h => hn ⟨hs, h⟩⟩

/-- dually, the answer for `E g` is the complement of the answer for `A ¬g` -/
theorem ctls_E_compl (K : Kripke σ) (hK : K.WF) (hl : ∀ l ∈ K.allLabels, Fm.wfName l = true) (g : Fm)
    (ha : g.wfAtoms = true) (hr : g.arityOK = true)
    (R R' : List σ) (hR : CTLS.modelcheck K (.E g) = .ok R)
    (hR' : CTLS.modelcheck K (.A (.not g)) = .ok R') (s : σ) :
    s ∈ R ↔ (s ∈ K.states ∧ s ∉ R') := by
  rw [ctls_mem K hK hl (.E g) rfl ha hr R hR, ctls_mem K hK hl (.A (.not g)) rfl ha hr R' hR']
  simp only [satState, sat]
  constructor
  · rintro ⟨hs, π', hπ', h0, hg⟩; exact ⟨hs, fun h => h.2 π' hπ' h0 hg⟩
  · rintro ⟨hs, hn⟩
    refine ⟨hs, ?_⟩
    by_contra hne
    exact hn ⟨hs, fun π' hπ' h0 hg => hne ⟨π', hπ', h0, hg⟩⟩

/-! ### Boolean connectives as set operations -/

theorem ctls_not (K : Kripke σ) (hK : K.WF) (hl : ∀ l ∈ K.allLabels, Fm.wfName l = true) (f : Fm)
    (hf : f.isCTLSState = true) (ha : f.wfAtoms = true) (hr : f.arityOK = true)
    (R R' : List σ) (hR : CTLS.modelcheck K f = .ok R) (hR' : CTLS.modelcheck K (.not f) = .ok R') (s : σ) :
    s ∈ R' ↔ (s ∈ K.states ∧ s ∉ R) := by
  rw [ctls_mem K hK hl f hf ha hr R hR, ctls_mem K hK hl (.not f) hf ha hr R' hR']
  simp only [satState, sat]
  constructor
  · rintro ⟨hs, hn⟩; exact ⟨hs, fun h => hn h.2⟩
  · rintro ⟨hs, hn⟩; exact ⟨hs, fun h => hn ⟨hs, h⟩⟩

private theorem st2 {f g : Fm} (hf : f.isCTLSState = true) (hg : g.isCTLSState = true) :
    Fm.isCTLSState.isCTLSStateList [f, g] = true := by
  simp [Fm.isCTLSState.isCTLSStateList, hf, hg]

private theorem wa2 {f g : Fm} (hf : f.wfAtoms = true) (hg : g.wfAtoms = true) :
    (Fm.atoms.atomsList [f, g]).all Fm.wfName = true := by
  simp only [Fm.wfAtoms] at hf hg
  simp [Fm.atoms.atomsList, List.all_append, hf, hg]

private theorem ar2 {f g : Fm} (hf : f.arityOK = true) (hg : g.arityOK = true) :
    (decide (2 ≤ [f, g].length) && Fm.arityOK.arityOKList [f, g]) = true := by
  simp [Fm.arityOK.arityOKList, hf, hg]

theorem ctls_and (K : Kripke σ) (hK : K.WF) (hl : ∀ l ∈ K.allLabels, Fm.wfName l = true) (f g : Fm)
    (hf : f.isCTLSState = true) (haf : f.wfAtoms = true) (hrf : f.arityOK = true)
    (hg : g.isCTLSState = true) (hag : g.wfAtoms = true) (hrg : g.arityOK = true)
    (R₁ R₂ R : List σ) (h₁ : CTLS.modelcheck K f = .ok R₁) (h₂ : CTLS.modelcheck K g = .ok R₂)
    (h : CTLS.modelcheck K (.and [f, g]) = .ok R) (s : σ) :
    s ∈ R ↔ (s ∈ R₁ ∧ s ∈ R₂) := by
  rw [ctls_mem K hK hl f hf haf hrf R₁ h₁, ctls_mem K hK hl g hg hag hrg R₂ h₂,
    ctls_mem K hK hl (.and [f, g]) (st2 hf hg) (wa2 haf hag) (ar2 hrf hrg) R h]
  simp only [satState, sat, sat.satAll, and_true]
  constructor
  · rintro ⟨hs, h1, h2⟩; exact ⟨⟨hs, h1⟩, hs, h2⟩
  · rintro ⟨⟨hs, h1⟩, -, h2⟩; exact ⟨hs, h1, h2⟩

theorem ctls_or (K : Kripke σ) (hK : K.WF) (hl : ∀ l ∈ K.allLabels, Fm.wfName l = true) (f g : Fm)
    (hf : f.isCTLSState = true) (haf : f.wfAtoms = true) (hrf : f.arityOK = true)
    (hg : g.isCTLSState = true) (hag : g.wfAtoms = true) (hrg : g.arityOK = true)
    (R₁ R₂ R : List σ) (h₁ : CTLS.modelcheck K f = .ok R₁) (h₂ : CTLS.modelcheck K g = .ok R₂)
    (h : CTLS.modelcheck K (.or [f, g]) = .ok R) (s : σ) :
    s ∈ R ↔ (s ∈ R₁ ∨ s ∈ R₂) := by
  rw [ctls_mem K hK hl f hf haf hrf R₁ h₁, ctls_mem K hK hl g hg hag hrg R₂ h₂,
    ctls_mem K hK hl (.or [f, g]) (st2 hf hg) (wa2 haf hag) (ar2 hrf hrg) R h]
  simp only [satState, sat, sat.satAny, or_false]
  constructor
  · rintro ⟨hs, h1 | h2⟩
    · exact Or.inl ⟨hs, h1⟩
    · exact Or.inr ⟨hs, h2⟩
  · rintro (⟨hs, h1⟩ | ⟨hs, h2⟩)
    · exact ⟨hs, Or.inl h1⟩
    · exact ⟨hs, Or.inr h2⟩

theorem ctls_imp (K : Kripke σ) (hK : K.WF) (hl : ∀ l ∈ K.allLabels, Fm.wfName l = true) (f g : Fm)
    (hf : f.isCTLSState = true) (haf : f.wfAtoms = true) (hrf : f.arityOK = true)
    (hg : g.isCTLSState = true) (hag : g.wfAtoms = true) (hrg : g.arityOK = true)
    (R₁ R₂ R : List σ) (h₁ : CTLS.modelcheck K f = .ok R₁) (h₂ : CTLS.modelcheck K g = .ok R₂)
    (h : CTLS.modelcheck K (.imp f g) = .ok R) (s : σ) :
    s ∈ R ↔ (s ∈ K.states ∧ (s ∉ R₁ ∨ s ∈ R₂)) := by
  have ha : (Fm.imp f g).wfAtoms = true := by
    simp only [Fm.wfAtoms] at haf hag
    simp [Fm.wfAtoms, Fm.atoms, List.all_append, haf, hag]
  rw [ctls_mem K hK hl f hf haf hrf R₁ h₁, ctls_mem K hK hl g hg hag hrg R₂ h₂,
    ctls_mem K hK hl (.imp f g) (by simp [Fm.isCTLSState, hf, hg]) ha (by simp [Fm.arityOK, hrf, hrg]) R h]
  simp only [satState, sat]
  constructor
  · rintro ⟨hs, h1 | h2⟩
    · exact ⟨hs, Or.inl fun h => h1 h.2⟩
    · exact ⟨hs, Or.inr ⟨hs, h2⟩⟩
  · rintro ⟨hs, h1 | h2⟩
    · exact ⟨hs, Or.inl fun h => h1 ⟨hs, h⟩⟩
    · exact ⟨hs, Or.inr h2.2⟩

/-! ### fixpoint expansion laws at the CTL* checker (f, g CTL* state formulas) -/

/-- E(f U g) = g or (f and EX E(f U g)) -/
theorem ctls_EU_expand (K : Kripke σ) (hK : K.WF) (hl : ∀ l ∈ K.allLabels, Fm.wfName l = true) (f g : Fm)
    (hf : f.isCTLSState = true) (haf : f.wfAtoms = true) (hrf : f.arityOK = true)
    (hg : g.isCTLSState = true) (hag : g.wfAtoms = true) (hrg : g.arityOK = true)
    (R R' : List σ) (hR : CTLS.modelcheck K (.E (.U f g)) = .ok R)
    (hR' : CTLS.modelcheck K (.or [g, .and [f, .E (.X (.E (.U f g)))]]) = .ok R') (s : σ) :
    s ∈ R ↔ s ∈ R' := by
  simp only [Fm.wfAtoms] at haf hag
  exact ctls_congr_states K hK hl _ _ rfl
    (by simp [Fm.wfAtoms, Fm.atoms, List.all_append, haf, hag]) (by simp [Fm.arityOK, hrf, hrg])
    (by simp [Fm.isCTLSState, Fm.isCTLSState.isCTLSStateList, hf, hg])
    (by simp [Fm.wfAtoms, Fm.atoms, Fm.atoms.atomsList, List.all_append, haf, hag])
    (by simp [Fm.arityOK, Fm.arityOK.arityOKList, hrf, hrg])
    (fun s hs => sat_EU_expand K f g hf hg _ 0 (path_at K hK s hs)) R R' hR hR' s

/-- A(f U g) = g or (f and AX A(f U g)) -/
theorem ctls_AU_expand (K : Kripke σ) (hK : K.WF) (hl : ∀ l ∈ K.allLabels, Fm.wfName l = true) (f g : Fm)
    (hf : f.isCTLSState = true) (haf : f.wfAtoms = true) (hrf : f.arityOK = true)
    (hg : g.isCTLSState = true) (hag : g.wfAtoms = true) (hrg : g.arityOK = true)
    (R R' : List σ) (hR : CTLS.modelcheck K (.A (.U f g)) = .ok R)
    (hR' : CTLS.modelcheck K (.or [g, .and [f, .A (.X (.A (.U f g)))]]) = .ok R') (s : σ) :
    s ∈ R ↔ s ∈ R' := by
  simp only [Fm.wfAtoms] at haf hag
  exact ctls_congr_states K hK hl _ _ rfl
    (by simp [Fm.wfAtoms, Fm.atoms, List.all_append, haf, hag]) (by simp [Fm.arityOK, hrf, hrg])
    (by simp [Fm.isCTLSState, Fm.isCTLSState.isCTLSStateList, hf, hg])
    (by simp [Fm.wfAtoms, Fm.atoms, Fm.atoms.atomsList, List.all_append, haf, hag])
    (by simp [Fm.arityOK, Fm.arityOK.arityOKList, hrf, hrg])
    (fun s hs => sat_AU_expand K f g hf hg _ 0 (path_at K hK s hs)) R R' hR hR' s

/-- AG f = f and AX AG f -/
theorem ctls_AG_expand (K : Kripke σ) (hK : K.WF) (hl : ∀ l ∈ K.allLabels, Fm.wfName l = true) (f : Fm)
    (hf : f.isCTLSState = true) (haf : f.wfAtoms = true) (hrf : f.arityOK = true)
    (R R' : List σ) (hR : CTLS.modelcheck K (.A (.G f)) = .ok R)
    (hR' : CTLS.modelcheck K (.and [f, .A (.X (.A (.G f)))]) = .ok R') (s : σ) :
    s ∈ R ↔ s ∈ R' := by
  simp only [Fm.wfAtoms] at haf
  exact ctls_congr_states K hK hl _ _ rfl
    (by simp [Fm.wfAtoms, Fm.atoms, haf]) (by simp [Fm.arityOK, hrf])
    (by simp [Fm.isCTLSState, Fm.isCTLSState.isCTLSStateList, hf])
    (by simp [Fm.wfAtoms, Fm.atoms, Fm.atoms.atomsList, List.all_append, haf])
    (by simp [Fm.arityOK, Fm.arityOK.arityOKList, hrf])
    (fun s hs => sat_AG_expand K f hf _ 0 (path_at K hK s hs)) R R' hR hR' s

/-- EG f = f and EX EG f -/
theorem ctls_EG_expand (K : Kripke σ) (hK : K.WF) (hl : ∀ l ∈ K.allLabels, Fm.wfName l = true) (f : Fm)
    (hf : f.isCTLSState = true) (haf : f.wfAtoms = true) (hrf : f.arityOK = true)
    (R R' : List σ) (hR : CTLS.modelcheck K (.E (.G f)) = .ok R)
    (hR' : CTLS.modelcheck K (.and [f, .E (.X (.E (.G f)))]) = .ok R') (s : σ) :
    s ∈ R ↔ s ∈ R' := by
  simp only [Fm.wfAtoms] at haf
  exact ctls_congr K hK hl _ _ rfl
    (by simp [Fm.wfAtoms, Fm.atoms, haf]) (by simp [Fm.arityOK, hrf])
    (by simp [Fm.isCTLSState, Fm.isCTLSState.isCTLSStateList, hf])
    (by simp [Fm.wfAtoms, Fm.atoms, Fm.atoms.atomsList, List.all_append, haf])
    (by simp [Fm.arityOK, Fm.arityOK.arityOKList, hrf])
    (fun π i => sat_EG_expand K f hf π i) R R' hR hR' s

/-- AF f = f or AX AF f -/
theorem ctls_AF_expand (K : Kripke σ) (hK : K.WF) (hl : ∀ l ∈ K.allLabels, Fm.wfName l = true) (f : Fm)
    (hf : f.isCTLSState = true) (haf : f.wfAtoms = true) (hrf : f.arityOK = true)
    (R R' : List σ) (hR : CTLS.modelcheck K (.A (.F f)) = .ok R)
    (hR' : CTLS.modelcheck K (.or [f, .A (.X (.A (.F f)))]) = .ok R') (s : σ) :
    s ∈ R ↔ s ∈ R' := by
  simp only [Fm.wfAtoms] at haf
  exact ctls_congr K hK hl _ _ rfl
    (by simp [Fm.wfAtoms, Fm.atoms, haf]) (by simp [Fm.arityOK, hrf])
    (by simp [Fm.isCTLSState, Fm.isCTLSState.isCTLSStateList, hf])
    (by simp [Fm.wfAtoms, Fm.atoms, Fm.atoms.atomsList, List.all_append, haf])
    (by simp [Fm.arityOK, Fm.arityOK.arityOKList, hrf])
    (fun π i => sat_AF_expand K f hf π i) R R' hR hR' s

/-- EF f = f or EX EF f -/
theorem ctls_EF_expand (K : Kripke σ) (hK : K.WF) (hl : ∀ l ∈ K.allLabels, Fm.wfName l = true) (f : Fm)
    (hf : f.isCTLSState = true) (haf : f.wfAtoms = true) (hrf : f.arityOK = true)
    (R R' : List σ) (hR : CTLS.modelcheck K (.E (.F f)) = .ok R)
    (hR' : CTLS.modelcheck K (.or [f, .E (.X (.E (.F f)))]) = .ok R') (s : σ) :
    s ∈ R ↔ s ∈ R' := by
  simp only [Fm.wfAtoms] at haf
  exact ctls_congr_states K hK hl _ _ rfl
    (by simp [Fm.wfAtoms, Fm.atoms, haf]) (by simp [Fm.arityOK, hrf])
    (by simp [Fm.isCTLSState, Fm.isCTLSState.isCTLSStateList, hf])
    (by simp [Fm.wfAtoms, Fm.atoms, Fm.atoms.atomsList, List.all_append, haf])
    (by simp [Fm.arityOK, Fm.arityOK.arityOKList, hrf])
    (fun s hs => sat_EF_expand K f hf _ 0 (path_at K hK s hs)) R R' hR hR' s

/-- A(f R g) = not E(not f U not g) — here f, g are arbitrary CTL* path formulas -/
theorem ctls_AR_dual (K : Kripke σ) (hK : K.WF) (hl : ∀ l ∈ K.allLabels, Fm.wfName l = true) (f g : Fm)
    (haf : f.wfAtoms = true) (hrf : f.arityOK = true) (hag : g.wfAtoms = true) (hrg : g.arityOK = true)
    (R R' : List σ) (hR : CTLS.modelcheck K (.A (.R f g)) = .ok R)
    (hR' : CTLS.modelcheck K (.not (.E (.U (.not f) (.not g)))) = .ok R') (s : σ) :
    s ∈ R ↔ s ∈ R' := by
  simp only [Fm.wfAtoms] at haf hag
  refine ctls_congr K hK hl _ _ rfl
    (by simp [Fm.wfAtoms, Fm.atoms, List.all_append, haf, hag]) (by simp [Fm.arityOK, hrf, hrg]) rfl
    (by simp [Fm.wfAtoms, Fm.atoms, List.all_append, haf, hag]) (by simp [Fm.arityOK, hrf, hrg])
    (fun π i => ?_) R R' hR hR' s
  have hRd := fun π' => sat_R_dual K f g π' 0
  simp only [sat] at hRd ⊢
  constructor
  · rintro h ⟨π', hπ', h0, hU⟩
    exact (hRd π').mp (h π' hπ' h0) hU
  · intro h π' hπ' h0
    exact (hRd π').mpr fun hU => h ⟨π', hπ', h0, hU⟩

/-! ### non-vacuity: the hypotheses are met and the checker answers, on `C03.K₀` (0 ⇄ 1, 0 → 0, p at 0) -/

example : ∃ R R', CTLS.modelcheck C03.K₀ (.A (.G (.E (.F (.ap "p"))))) = .ok R ∧
    CTL.modelcheck C03.K₀ (.A (.G (.E (.F (.ap "p"))))) = .ok R' ∧ ∀ s, s ∈ R ↔ s ∈ R' :=
  ctls_eq_ctl_modelcheck C03.K₀ C03.k0_wf C03.k0_labels _ (by decide) (by decide) (by decide)

example : ∃ R R', CTLS.modelcheck C03.K₀ (.A (.G (.F (.ap "p")))) = .ok R ∧
    LTL.modelcheck C03.K₀ (.A (.G (.F (.ap "p")))) = .ok R' ∧ ∀ s, s ∈ R ↔ s ∈ R' :=
  ctls_eq_ltl_modelcheck C03.K₀ C03.k0_wf C03.k0_labels _ (by decide) (by decide) (by decide)

example : CTLS.modelcheck C03.K₀ (.A (.G (.F (.ap "p")))) = .ok [0, 1] ∧
    CTLS.modelcheck C03.K₀ (.E (.not (.G (.F (.ap "p"))))) = .ok [] ∧
    CTLS.modelcheck C03.K₀ (.A (.G (.ap "p"))) = .ok [] ∧
    CTLS.modelcheck C03.K₀ (.E (.not (.G (.ap "p")))) = .ok [0, 1] := by decide +kernel

#print axioms ctls_eq_ctl
#print axioms ctls_eq_ltl
#print axioms three_checkers_agree
#print axioms ctls_A_dual
#print axioms ctls_A_compl
#print axioms ctls_E_compl
#print axioms ctls_not
#print axioms ctls_and
#print axioms ctls_or
#print axioms ctls_imp
#print axioms ctls_EU_expand
#print axioms ctls_AR_dual
end PMC.C04
