/-
  C05 — Rewriting to the restricted syntax and LNot preserve meaning.

  For every CTL, LTL or CTL* formula f, get_equivalent_restricted_formula() returns a formula that (a) uses only the
  restricted alphabet documented for that logic (not, or, X, U, E, true, atoms; plus EG for CTL) and (b) is satisfied
  by exactly the same states/paths of every Kripke structure as f.  LNot(f) is equivalent to not f and never begins
  with two negations.

  Model: `Fm.restrict` (the CTL*/LTL clauses of CTLS/language.py), `Fm.restrictCTL` (the A/E clauses of
  CTL/language.py), `Fm.lnot` (language.py) — PMC/Model/Syntax.lean.  The Boolean constant `false` is an atom of the
  documented alphabet ("Boolean constants are atomic propositions") and is kept by the rewriting.
  Needs neither finiteness nor totality of the structure.
-/
import PMC.Proofs.RewriteCTL
namespace PMC.C05
open PMC
variable {σ : Type}

/-- (a) CTL* / LTL: only not, or, X, U, E and atoms remain -/
theorem restrict_alphabet (f : Fm) : f.restrict.isRestricted = true :=
  (isRestricted_iff _).mpr (restrict_restricted f)

/-- (b) CTL* / LTL: same meaning on every structure, path and position -/
theorem restrict_equiv (K : Kripke σ) (f : Fm) (π : Nat → σ) (i : Nat) :
    sat K f.restrict π i ↔ sat K f π i :=
  sat_restrict K f π i

/-- (a) CTL: only not, or, EX, EU, EG and atoms remain -/
theorem restrictCTL_alphabet (f : Fm) (h : f.isCTLState = true) : f.restrictCTL.isRestrictedCTL = true :=
  restrictCTL_restricted f h

/-- (b) CTL: same meaning on every structure -/
theorem restrictCTL_equiv (K : Kripke σ) (f : Fm) (h : f.isCTLState = true) (π : Nat → σ) (i : Nat) :
    sat K f.restrictCTL π i ↔ sat K f π i :=
  sat_restrictCTL K f h π i

/-- `LNot f` is equivalent to `not f` … -/
theorem lnot_equiv (K : Kripke σ) (f : Fm) (π : Nat → σ) (i : Nat) :
    sat K f.lnot π i ↔ ¬ sat K f π i :=
  sat_lnot K f π i

/-- … and never begins with two negations -/
theorem lnot_no_double_negation (f g : Fm) : f.lnot ≠ .not (.not g) :=
  lnot_no_double f g

/-- `LNot` stays inside the restricted alphabets -/
theorem lnot_restricted (f : Fm) (h : f.isRestricted = true) : f.lnot.isRestricted = true :=
  (isRestricted_iff _).mpr (PMC.lnot_restricted ((isRestricted_iff _).mp h))

/-! non-vacuity -/
example : (Fm.A (.U (.ap "p") (.and [.ap "q", .tt]))).isCTLState = true := by decide
example : (Fm.A (.U (.ap "p") (.ap "q"))).restrictCTL =
    .not (.or [.E (.U (.not (.ap "q")) (.not (.or [.ap "p", .ap "q"]))), .E (.G (.not (.ap "q")))]) := by
  simp [Fm.restrictCTL, Fm.lnot]
example : (Fm.not (.not (.not (.ap "p")))).lnot = .ap "p" := by simp [Fm.lnot]

#print axioms restrict_equiv
#print axioms restrictCTL_equiv
end PMC.C05
