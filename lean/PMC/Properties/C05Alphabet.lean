/-
  C05(a), per logic — "get_equivalent_restricted_formula() returns a formula that uses only the restricted alphabet
  documented FOR THAT LOGIC".

  `C05.restrict_alphabet` states the CTL* alphabet (not, or, X, U, E, atoms) for every formula; `C05.restrictCTL_alphabet`
  the CTL alphabet (not, or, EX, EU, EG, atoms) for CTL *state* formulas.  Added here:

    * LTL (`restrict_alphabet_ltl`): the rewriting of an LTL path formula lands in `Fm.isRestrictedLTL` — not, or, X,
      U, atoms, and **no quantifier** (logics.rst: "the LTL restricted language that allows exclusively the path
      formulas whose operators are ¬, ∨, X, or U").  `isRestrictedLTL` is a decidable predicate
      (PMC/Proofs/RestrictAlphabet.lean); it is the CTL* alphabet minus `E` (`isRestrictedLTL_iff`) and exactly the
      syntax `_get_closure` accepts (`isRestrictedLTL_eq_toR`).  `LNot` stays inside (`lnot_restricted_ltl`).
    * CTL, path formulas used on their own (`restrictCTL_alphabet_path`, `restrictCTL_equiv_path`): for every formula
      of the CTL module (`Fm.isCTL`: a state formula, or one temporal operator over state formulas, e.g.
      `CTL.X('p')`), the rewriting is a restricted CTL state formula or `X` / `U` / `not U` over such
      (`Fm.isRestrictedCTLPath`), and it is equivalent to the original.

  As in C05.lean the Boolean constant `false` counts as an atom ("Boolean constants are atomic propositions") and is
  kept by the rewriting.
-/
import PMC.Properties.C05
import PMC.Proofs.RestrictAlphabet
namespace PMC.C05
open PMC
variable {σ : Type}

/-! ### LTL -/

/-- (a) LTL: only not, or, X, U and atoms remain — in particular no quantifier -/
theorem restrict_alphabet_ltl (f : Fm) (h : f.isLTLPath = true) : f.restrict.isRestrictedLTL = true :=
  restrict_isRestrictedLTL f h

/-- the LTL alphabet is the CTL* alphabet without `E` … -/
theorem restrictedLTL_iff (f : Fm) : f.isRestrictedLTL = true ↔ (f.isRestricted = true ∧ f.isLTLPath = true) :=
  isRestrictedLTL_iff f

/-- … and exactly what the LTL tableau accepts (`toR` is the recogniser in front of `_get_closure`) -/
theorem restrictedLTL_eq_toR (f : Fm) : f.isRestrictedLTL = (LTL.toR f).isSome :=
  isRestrictedLTL_eq_toR f

/-- the rewriting of an LTL path formula is again an LTL path formula -/
theorem restrict_isLTLPath (f : Fm) (h : f.isLTLPath = true) : f.restrict.isLTLPath = true :=
  ((isRestrictedLTL_iff _).mp (restrict_isRestrictedLTL f h)).2

/-- `LNot` stays inside the restricted LTL alphabet -/
theorem lnot_restricted_ltl (f : Fm) (h : f.isRestrictedLTL = true) : f.lnot.isRestrictedLTL = true :=
  lnot_isRestrictedLTL f h

/-- (b) for LTL is the instance of `restrict_equiv`; stated for completeness -/
theorem restrict_equiv_ltl (K : Kripke σ) (f : Fm) (_h : f.isLTLPath = true) (π : Nat → σ) (i : Nat) :
    sat K f.restrict π i ↔ sat K f π i :=
  restrict_equiv K f π i

/-! ### CTL, path formulas included -/

/-- (a) CTL, any formula of the CTL module: a restricted CTL state formula, or X / U / not U over such -/
theorem restrictCTL_alphabet_path (f : Fm) (h : f.isCTL = true) : f.restrictCTL.isRestrictedCTLPath = true :=
  restrictCTL_isRestrictedCTLPath f h

/-- on state formulas `isRestrictedCTLPath` adds nothing to `restrictCTL_alphabet` -/
theorem restrictedCTLPath_of_state (f : Fm) (h : f.isRestrictedCTL = true) : f.isRestrictedCTLPath = true :=
  isRestrictedCTLPath_of_state f h

/-- (b) CTL, any formula of the CTL module: same meaning on every structure, sequence and position -/
theorem restrictCTL_equiv_path (K : Kripke σ) (f : Fm) (h : f.isCTL = true) (π : Nat → σ) (i : Nat) :
    sat K f.restrictCTL π i ↔ sat K f π i :=
  sat_restrictCTL_isCTL K f h π i

/-! ### non-vacuity and sharpness of the predicates -/

example : (Fm.R (.G (.ap "p")) (.imp (.F (.ap "q")) (.and [.ap "r", .ff]))).isLTLPath = true := by decide
example : (Fm.R (.G (.ap "p")) (.imp (.F (.ap "q")) (.and [.ap "r", .ff]))).restrict =
    .not (.U (.U .tt (.not (.ap "p")))
      (.not (.or [.not (.U .tt (.ap "q")), .not (.or [.not (.ap "r"), .not .ff])]))) := by
  simp [Fm.restrict, Fm.restrict.restrictNegList, Fm.lnot]
example : (Fm.R (.G (.ap "p")) (.imp (.F (.ap "q")) (.and [.ap "r", .ff]))).restrict.isRestrictedLTL = true := by
  decide
/-- the predicate does exclude things: a quantifier, and the operators the rewriting removes -/
example : (Fm.E (.X (.ap "p"))).isRestrictedLTL = false ∧ (Fm.E (.X (.ap "p"))).isRestricted = true ∧
    (Fm.G (.ap "p")).isRestrictedLTL = false ∧ (Fm.and [.ap "p", .ap "q"]).isRestrictedLTL = false := by decide
/-- outside LTL the CTL* rewriting does use `E` -/
example : (Fm.A (.X (.ap "p"))).restrict.isRestrictedLTL = false := by decide

example : (Fm.G (.A (.F (.ap "p")))).isCTL = true ∧ (Fm.G (.A (.F (.ap "p")))).isCTLState = false := by decide
example : (Fm.G (.A (.F (.ap "p")))).restrictCTL = .not (.U .tt (.E (.G (.not (.ap "p"))))) := by
  simp [Fm.restrictCTL, Fm.lnot]
example : (Fm.G (.A (.F (.ap "p")))).restrictCTL.isRestrictedCTLPath = true ∧
    (Fm.G (.A (.F (.ap "p")))).restrictCTL.isRestrictedCTL = false := by decide
example : (Fm.X (.X (.ap "p"))).isRestrictedCTLPath = false ∧ (Fm.F (.ap "p")).isRestrictedCTLPath = false ∧
    (Fm.not (.X (.ap "p"))).isRestrictedCTLPath = false := by decide

#print axioms restrict_alphabet_ltl
#print axioms restrictedLTL_iff
#print axioms restrictedLTL_eq_toR
#print axioms restrictCTL_alphabet_path
#print axioms restrictCTL_equiv_path
end PMC.C05
