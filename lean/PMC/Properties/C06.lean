/-
  C06 — Answers are independent of presentation order, naming and hash seed.

  The set returned by each modelcheck is invariant, up to the obvious correspondence, under: renaming states by any
  bijection, reordering the state, transition and label collections passed to Kripke, consistently renaming atomic
  propositions, adding states unreachable from the queried ones, and running under any PYTHONHASHSEED.

  In the model every Python set/dict iteration order is the order of a list (`Kripke.states`, `succ s`, `lab s`), so
  "any hash seed / any presentation order" is `SameK`: the same structure as sets, in any order.  Every theorem is a
  corollary of exactness plus an invariance property of the semantics (PMC/Proofs/Laws.lean).
-/
import PMC.Proofs.Laws
import PMC.Properties.C01
import PMC.Properties.C02
namespace PMC.C06
open PMC
variable {σ τ : Type} [DecidableEq σ] [DecidableEq τ]

/-- the LTL answer is the exact set: states of K all of whose paths satisfy g, i.e. where `A g` holds -/
theorem ltl_mem (K : Kripke σ) (hK : K.WF) (g : Fm) (hg : g.isLTLPath = true) (R : List σ)
    (hR : LTL.modelcheck K (.A g) = .ok R) (s : σ) : s ∈ R ↔ (s ∈ K.states ∧ satState K (.A g) s) := by
  obtain ⟨R₀, hR₀, hex⟩ := C02.ltl_exact K hK g hg
  obtain rfl : R₀ = R := by rw [hR₀] at hR; exact Except.ok.inj hR
  rw [hex]
  simp only [satState, sat]

/-- reordering / hash seed: two presentations of one structure get the same CTL answer -/
theorem ctl_presentation (K K' : Kripke σ) (hK : K.WF) (hK' : K'.WF) (h : SameK K K') (f : Fm)
    (hf : f.isCTLState = true) (s : σ) : s ∈ CTL.check K f ↔ s ∈ CTL.check K' f := by
  rw [C01.ctl_exact K hK f hf, C01.ctl_exact K' hK' f hf]
  exact and_congr (h.states s) (sat_sameK K K' h f _ 0)

theorem ltl_presentation (K K' : Kripke σ) (hK : K.WF) (hK' : K'.WF) (h : SameK K K') (g : Fm)
    (hg : g.isLTLPath = true) (R R' : List σ) (hR : LTL.modelcheck K (.A g) = .ok R)
    (hR' : LTL.modelcheck K' (.A g) = .ok R') (s : σ) : s ∈ R ↔ s ∈ R' := by
  rw [ltl_mem K hK g hg R hR, ltl_mem K' hK' g hg R' hR']
  exact and_congr (h.states s) (sat_sameK K K' h (.A g) _ 0)

/-- renaming of states -/
theorem ctl_rename_states (ρ : σ → τ) (K : Kripke σ) (K' : Kripke τ) (hK : K.WF) (hK' : K'.WF) (h : Iso ρ K K')
    (f : Fm) (hf : f.isCTLState = true) (s : σ) (hs : s ∈ K.states) :
    ρ s ∈ CTL.check K' f ↔ s ∈ CTL.check K f := by
  rw [C01.ctl_exact K hK f hf, C01.ctl_exact K' hK' f hf]
  exact and_congr ⟨fun _ => hs, fun _ => (h.states _).mpr ⟨s, hs, rfl⟩⟩
    (satState_iso ρ K K' hK h f (isCTLSState_of_isCTLState f hf) s hs)

theorem ltl_rename_states (ρ : σ → τ) (K : Kripke σ) (K' : Kripke τ) (hK : K.WF) (hK' : K'.WF) (h : Iso ρ K K')
    (g : Fm) (hg : g.isLTLPath = true) (R : List σ) (R' : List τ) (hR : LTL.modelcheck K (.A g) = .ok R)
    (hR' : LTL.modelcheck K' (.A g) = .ok R') (s : σ) (hs : s ∈ K.states) : ρ s ∈ R' ↔ s ∈ R := by
  rw [ltl_mem K hK g hg R hR, ltl_mem K' hK' g hg R' hR']
  exact and_congr ⟨fun _ => hs, fun _ => (h.states _).mpr ⟨s, hs, rfl⟩⟩
    (satState_iso ρ K K' hK h (.A g) rfl s hs)

/-- consistent renaming of atomic propositions -/
theorem ctl_rename_atoms (α : String → String) (K K' : Kripke σ) (hK : K.WF) (f : Fm) (h : AtomRen α K K' f)
    (hf : f.isCTLState = true) (s : σ) : s ∈ CTL.check K' (mapAtoms α f) ↔ s ∈ CTL.check K f := by
  rw [C01.ctl_exact K hK f hf,
    C01.ctl_exact K' (h.wf hK) (mapAtoms α f) (by rw [isCTLState_mapAtoms]; exact hf), h.states]
  exact and_congr_right fun _ => sat_mapAtoms α K K' f h _ 0

/-- the same for the LTL checker (`AtomRen` for `g` is `AtomRen` for `A g`: same atoms) -/
theorem ltl_rename_atoms (α : String → String) (K K' : Kripke σ) (hK : K.WF) (g : Fm) (h : AtomRen α K K' g)
    (hg : g.isLTLPath = true) (R R' : List σ) (hR : LTL.modelcheck K (.A g) = .ok R)
    (hR' : LTL.modelcheck K' (.A (mapAtoms α g)) = .ok R') (s : σ) : s ∈ R' ↔ s ∈ R := by
  rw [ltl_mem K hK g hg R hR,
    ltl_mem K' (h.wf hK) (mapAtoms α g) (by rw [isLTLPath_mapAtoms]; exact hg) R' hR', h.states]
  exact and_congr_right fun _ => sat_mapAtoms α K K' (.A g) ⟨h.states, h.succ, h.lab⟩ _ 0

/-- states unreachable from K's states do not change the answer on K's states -/
theorem ctl_unreachable (K K' : Kripke σ) (hK : K.WF) (hK' : K'.WF) (h : Generated K K') (f : Fm)
    (hf : f.isCTLState = true) (s : σ) (hs : s ∈ K.states) : s ∈ CTL.check K' f ↔ s ∈ CTL.check K f := by
  rw [C01.ctl_exact K hK f hf, C01.ctl_exact K' hK' f hf]
  exact and_congr ⟨fun _ => hs, fun _ => h.states s hs⟩
    (satState_generated K K' hK h f (isCTLSState_of_isCTLState f hf) s hs)

theorem ltl_unreachable (K K' : Kripke σ) (hK : K.WF) (hK' : K'.WF) (h : Generated K K') (g : Fm)
    (hg : g.isLTLPath = true) (R R' : List σ) (hR : LTL.modelcheck K (.A g) = .ok R)
    (hR' : LTL.modelcheck K' (.A g) = .ok R') (s : σ) (hs : s ∈ K.states) : s ∈ R' ↔ s ∈ R := by
  rw [ltl_mem K hK g hg R hR, ltl_mem K' hK' g hg R' hR']
  exact and_congr ⟨fun _ => hs, fun _ => h.states s hs⟩
    (satState_generated K K' hK h (.A g) rfl s hs)

#print axioms ctl_presentation
#print axioms ctl_rename_states
#print axioms ltl_unreachable
end PMC.C06
