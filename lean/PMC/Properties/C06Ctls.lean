/-
  C06 for the CTL* checker — the answer of `CTLS.modelcheck` is independent of presentation order, naming of states,
  naming of atoms, unreachable states and hash seed.

  Same family as PMC/Properties/C06.lean (`SameK`: the same structure as sets, in any order / with any repetition —
  covers reordering of the state, transition and label collections and every set/dict iteration order; `Iso`:
  renaming of states by a map injective on the states; `AtomRen`: consistent renaming of atoms; `Generated`: extra
  states unreachable from K's states), now for `CTLS.modelcheck`, under the hypotheses of `C03.ctls_exact`
  (identifier-style atoms and labels, n-ary ∧/∨ with at least two operands).

  The hypothesis "every label of K is identifier-style" is transported along `SameK`, `Iso` (K ↦ K') and `Generated`
  (K' ↦ K), so it is asked of one side only.  It is NOT stable under an arbitrary renaming of atoms (`α` may map a
  name to `"A"` or `"true"`), so `ctls_rename_atoms` asks it of both structures and asks `wfAtoms` of both formulas.

  The generated atom names (`[<printed subformula>]`) do depend on the names of the atoms and — through
  `freshName`'s scan of `K.allLabels` — on the labels; the *answers* do not: each theorem is a corollary of
  exactness (C03) plus an invariance property of the semantics (PMC/Proofs/Laws.lean).
-/
import PMC.Proofs.CTLSLaws
import PMC.Properties.C04Ctls
import PMC.Properties.C06
namespace PMC.C06
open PMC
variable {σ τ : Type} [DecidableEq σ] [DecidableEq τ]

/-- reordering / hash seed: two presentations of one structure get the same CTL* answer -/
theorem ctls_presentation (K K' : Kripke σ) (hK : K.WF) (hK' : K'.WF) (h : SameK K K')
    (hl : ∀ l ∈ K.allLabels, Fm.wfName l = true) (f : Fm)
    (hf : f.isCTLSState = true) (ha : f.wfAtoms = true) (hr : f.arityOK = true)
    (R R' : List σ) (hR : CTLS.modelcheck K f = .ok R) (hR' : CTLS.modelcheck K' f = .ok R') (s : σ) :
    s ∈ R ↔ s ∈ R' := by
  rw [C04.ctls_mem K hK hl f hf ha hr R hR, C04.ctls_mem K' hK' (labelsWf_sameK h hl) f hf ha hr R' hR']
  exact and_congr (h.states s) (sat_sameK K K' h f _ 0)

/-- the same with the two answers produced, not assumed -/
theorem ctls_presentation_ok (K K' : Kripke σ) (hK : K.WF) (hK' : K'.WF) (h : SameK K K')
    (hl : ∀ l ∈ K.allLabels, Fm.wfName l = true) (f : Fm)
    (hf : f.isCTLSState = true) (ha : f.wfAtoms = true) (hr : f.arityOK = true) :
    ∃ R R', CTLS.modelcheck K f = .ok R ∧ CTLS.modelcheck K' f = .ok R' ∧ ∀ s, s ∈ R ↔ s ∈ R' := by
  obtain ⟨R, hR⟩ := C04.ctls_ok K hK hl f hf ha hr
  obtain ⟨R', hR'⟩ := C04.ctls_ok K' hK' (labelsWf_sameK h hl) f hf ha hr
  exact ⟨R, R', hR, hR', ctls_presentation K K' hK hK' h hl f hf ha hr R R' hR hR'⟩

/-- renaming of states -/
theorem ctls_rename_states (ρ : σ → τ) (K : Kripke σ) (K' : Kripke τ) (hK : K.WF) (hK' : K'.WF) (h : Iso ρ K K')
    (hl : ∀ l ∈ K.allLabels, Fm.wfName l = true) (f : Fm)
    (hf : f.isCTLSState = true) (ha : f.wfAtoms = true) (hr : f.arityOK = true)
    (R : List σ) (R' : List τ) (hR : CTLS.modelcheck K f = .ok R) (hR' : CTLS.modelcheck K' f = .ok R')
    (s : σ) (hs : s ∈ K.states) : ρ s ∈ R' ↔ s ∈ R := by
  rw [C04.ctls_mem K hK hl f hf ha hr R hR, C04.ctls_mem K' hK' (labelsWf_iso h hl) f hf ha hr R' hR']
  exact and_congr ⟨fun _ => hs, fun _ => (h.states _).mpr ⟨s, hs, rfl⟩⟩ (satState_iso ρ K K' hK h f hf s hs)

/-- the renamed answer is exactly the image of the original answer -/
theorem ctls_rename_states_image (ρ : σ → τ) (K : Kripke σ) (K' : Kripke τ) (hK : K.WF) (hK' : K'.WF)
    (h : Iso ρ K K') (hl : ∀ l ∈ K.allLabels, Fm.wfName l = true) (f : Fm)
    (hf : f.isCTLSState = true) (ha : f.wfAtoms = true) (hr : f.arityOK = true)
    (R : List σ) (R' : List τ) (hR : CTLS.modelcheck K f = .ok R) (hR' : CTLS.modelcheck K' f = .ok R')
    (t : τ) : t ∈ R' ↔ ∃ s ∈ R, ρ s = t := by
  constructor
  · intro ht
    have ht' := ((C04.ctls_mem K' hK' (labelsWf_iso h hl) f hf ha hr R' hR' t).mp ht).1
    obtain ⟨s, hs, rfl⟩ := (h.states t).mp ht'
    exact ⟨s, (ctls_rename_states ρ K K' hK hK' h hl f hf ha hr R R' hR hR' s hs).mp ht, rfl⟩
  · rintro ⟨s, hsR, rfl⟩
    have hs := ((C04.ctls_mem K hK hl f hf ha hr R hR s).mp hsR).1
    exact (ctls_rename_states ρ K K' hK hK' h hl f hf ha hr R R' hR hR' s hs).mpr hsR

/-- consistent renaming of atomic propositions (names on both sides identifier-style) -/
theorem ctls_rename_atoms (α : String → String) (K K' : Kripke σ) (hK : K.WF) (f : Fm) (h : AtomRen α K K' f)
    (hl : ∀ l ∈ K.allLabels, Fm.wfName l = true) (hl' : ∀ l ∈ K'.allLabels, Fm.wfName l = true)
    (hf : f.isCTLSState = true) (ha : f.wfAtoms = true) (ha' : (mapAtoms α f).wfAtoms = true)
    (hr : f.arityOK = true)
    (R R' : List σ) (hR : CTLS.modelcheck K f = .ok R) (hR' : CTLS.modelcheck K' (mapAtoms α f) = .ok R')
    (s : σ) : s ∈ R' ↔ s ∈ R := by
  rw [C04.ctls_mem K hK hl f hf ha hr R hR,
    C04.ctls_mem K' (h.wf hK) hl' (mapAtoms α f) (by rw [isCTLSState_mapAtoms]; exact hf) ha'
      (by rw [arityOK_mapAtoms]; exact hr) R' hR', h.states]
  exact and_congr_right fun _ => sat_mapAtoms α K K' f h _ 0

/-- states unreachable from K's states do not change the answer on K's states -/
theorem ctls_unreachable (K K' : Kripke σ) (hK : K.WF) (hK' : K'.WF) (h : Generated K K')
    (hl' : ∀ l ∈ K'.allLabels, Fm.wfName l = true) (f : Fm)
    (hf : f.isCTLSState = true) (ha : f.wfAtoms = true) (hr : f.arityOK = true)
    (R R' : List σ) (hR : CTLS.modelcheck K f = .ok R) (hR' : CTLS.modelcheck K' f = .ok R')
    (s : σ) (hs : s ∈ K.states) : s ∈ R' ↔ s ∈ R := by
  rw [C04.ctls_mem K hK (labelsWf_generated h hl') f hf ha hr R hR, C04.ctls_mem K' hK' hl' f hf ha hr R' hR']
  exact and_congr ⟨fun _ => hs, fun _ => h.states s hs⟩ (satState_generated K K' hK h f hf s hs)

/-! ### non-vacuity: the relations are inhabited on `C03.K₀` (0 ⇄ 1, 0 → 0, p at 0) and the checker answers on
    both sides -/

/-- `K₀` with every list presented in another order and with repetitions -/
def K₀perm : Kripke Nat :=
  { states := [1, 0], succ := fun s => if s = 0 then [1, 0, 1] else [0], lab := fun s => if s = 0 then ["p", "p"] else [] }

theorem k0perm_same : SameK C03.K₀ K₀perm := by
  refine ⟨fun s => ?_, fun s t => ?_, fun s n => ?_⟩ <;> simp only [C03.K₀, K₀perm] <;> (try split) <;> simp <;>
    tauto

theorem k0perm_wf : K₀perm.WF := by
  refine ⟨?_, ?_, ?_⟩ <;> simp [K₀perm]

example : ∃ R R', CTLS.modelcheck C03.K₀ C03.f₁ = .ok R ∧ CTLS.modelcheck K₀perm C03.f₁ = .ok R' ∧
    ∀ s, s ∈ R ↔ s ∈ R' :=
  ctls_presentation_ok _ _ C03.k0_wf k0perm_wf k0perm_same C03.k0_labels _ (by decide) (by decide) (by decide)

/-- `K₀` with the states renamed by `n ↦ n + 5` -/
def K₀shift : Kripke Nat :=
  { states := [5, 6], succ := fun s => if s = 5 then [5, 6] else [5], lab := fun s => if s = 5 then ["p"] else [] }

example : Iso (· + 5) C03.K₀ K₀shift := by
  refine ⟨?_, ?_, ?_, ?_⟩ <;> simp [C03.K₀, K₀shift]
  · intro t; constructor <;> rintro (rfl | rfl) <;> simp
  · exact ⟨fun t => by omega, fun t => by omega⟩

/-- `K₀` with the atom `p` renamed to `q` -/
def K₀q : Kripke Nat :=
  { states := [0, 1], succ := fun s => if s = 0 then [0, 1] else [0], lab := fun s => if s = 0 then ["q"] else [] }

example : AtomRen (fun _ => "q") C03.K₀ K₀q C03.f₁ := by
  refine ⟨rfl, rfl, fun s n hn => ?_⟩
  have : n = "p" := by
    have h : ∀ m ∈ C03.f₁.atoms, m = "p" := by decide
    exact h n hn
  subst this
  simp only [C03.K₀, K₀q]; split <;> simp

/-- `K₀` plus a state 2 that no state of `K₀` reaches -/
def K₀plus : Kripke Nat :=
  { states := [0, 1, 2], succ := fun s => if s = 0 then [0, 1] else if s = 1 then [0] else [2, 0],
    lab := fun s => if s = 0 then ["p"] else if s = 1 then [] else ["p", "r"] }

example : Generated C03.K₀ K₀plus := by
  refine ⟨?_, ?_, ?_⟩ <;> simp [C03.K₀, K₀plus]

example : CTLS.modelcheck K₀plus (.A (.G (.E (.X (.ap "r"))))) = .ok [] ∧
    CTLS.modelcheck K₀plus (.E (.G (.F (.ap "r")))) = .ok [2] := by decide +kernel

#print axioms ctls_presentation
#print axioms ctls_rename_states
#print axioms ctls_rename_states_image
#print axioms ctls_rename_atoms
#print axioms ctls_unreachable
end PMC.C06
