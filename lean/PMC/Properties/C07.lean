/-
  C07 — model checking is a pure function of its arguments: the caller's structure is never modified.

  The Python code mutates label sets in exactly two places: `CTLS.modelcheck` labels the states satisfying each
  quantified subformula with a fresh atom (`kripke.labels(s).add(f_atom)` inside `_remove_state_subformulas`) and the
  fairness branch calls `label_fair_states`; both are applied to `kripke.clone()`, never to the caller's object.

  Model: PMC/Model/Effects.lean — an explicit object store `Store σ` (identity ↦ current value), `Store.clone`,
  `Store.addLabel`, the store-passing `CTLS.removeStateS` / `CTLS.checkQS` (same recursion as `CTLS.removeState` /
  `CTLS.checkQ`, but the structure is named by an identity and every `addLabel` is a write to that object of the store)
  and the entry points `CTL.modelcheckS`, `LTL.modelcheckS`, `CTLS.modelcheckS` (final store, answer).

  Theorems:
    * `removeStateS_spec` — on object `k` the store-passing recursion behaves as the functional model and touches
      nothing else;
    * `ctl_frame`, `ltl_frame`, `ctls_frame` — every object that existed before the call (in particular the caller's
      `k`) has the same value after the call; `ctls_store` — the only change is the one new object allocated by `clone`;
    * `ctl_result_eq`, `ltl_result_eq`, `ctls_result_eq` — the answer is the pure `modelcheck` of the value of `k`;
    * `history` — for any sequence of calls the n-th answer is the pure `modelcheck` of the ORIGINAL value of its
      argument (so answers do not depend on what was called before), and every original object is unchanged at the
      end; `answers_indep` — the same call gets the same answer in any two histories from the same store.

  Hypothesis `h.WF` (`Store.WF`: every live identity is below the allocator's `next`) is the invariant of the
  allocator: it holds for the empty store and is preserved by every operation (`Store.wf_empty`, `Store.wf_alloc`,
  `Store.wf_set`, `call_wf`).  Without it `next` could name an existing object and `clone` would alias it.
-/
import PMC.Proofs.Effects
namespace PMC.C07
open PMC PMC.Store
variable {σ : Type} [DecidableEq σ]

/-! ### the recursion -/

theorem removeStateS_spec (h : Store σ) (k : Nat) (f : Fm) (hk : k ∈ h.ids) :
    CTLS.removeStateS h k f =
      (h.set k (CTLS.removeState (h.get k) f).1, (CTLS.removeState (h.get k) f).2) :=
  CTLS.removeStateS_spec h k f hk

/-- `removeStateS` on `k` leaves every other object alone -/
theorem removeStateS_frame (h : Store σ) (k : Nat) (f : Fm) (hk : k ∈ h.ids) (i : Nat) (hi : i ≠ k) :
    (CTLS.removeStateS h k f).1.get? i = h.get? i := by
  rw [removeStateS_spec h k f hk]; exact get?_set_ne h k i _ hi

/-! ### the entry points: final store -/

/-- the final store of `CTLS.modelcheck`: the initial one plus ONE new object (the relabelled clone) -/
theorem ctls_store (h : Store σ) (hw : h.WF) (k : Nat) (f : Fm) :
    (CTLS.modelcheckS h k f).1 = (h.alloc (h.get k)).1.set h.next (CTLS.removeState (h.get k) f).1 := by
  have hc : h.next ∈ (h.alloc (h.get k)).1.ids := by simp
  simp only [CTLS.modelcheckS, Store.clone, alloc_snd]
  rw [CTLS.removeStateS_spec _ _ f hc, get_alloc_new hw]

theorem ctl_frame (h : Store σ) (k : Nat) (f : Fm) (i : Nat) : (CTL.modelcheckS h k f).1.get? i = h.get? i := rfl

theorem ltl_frame (h : Store σ) (k : Nat) (f : Fm) (i : Nat) : (LTL.modelcheckS h k f).1.get? i = h.get? i := rfl

/-- every pre-existing object — in particular the caller's `k` — is unchanged by `CTLS.modelcheck` -/
theorem ctls_frame (h : Store σ) (hw : h.WF) (k : Nat) (f : Fm) (i : Nat) (hi : i ∈ h.ids) :
    (CTLS.modelcheckS h k f).1.get? i = h.get? i := by
  rw [ctls_store h hw k f, get?_set_ne _ _ _ _ (fun e => next_not_mem hw (by rw [← e]; exact hi)), get?_alloc_old h _ i hi]

theorem ctls_ids (h : Store σ) (hw : h.WF) (k : Nat) (f : Fm) :
    (CTLS.modelcheckS h k f).1.ids = h.ids ++ [h.next] := by
  rw [ctls_store h hw k f]; simp

/-! ### the entry points: answer -/

theorem ctl_result_eq (h : Store σ) (k : Nat) (f : Fm) : (CTL.modelcheckS h k f).2 = CTL.modelcheck (h.get k) f := rfl

theorem ltl_result_eq (h : Store σ) (k : Nat) (f : Fm) : (LTL.modelcheckS h k f).2 = LTL.modelcheck (h.get k) f := rfl

/-- the answer of the effectful `CTLS.modelcheck` is the pure function of the VALUE of its argument -/
theorem ctls_result_eq (h : Store σ) (hw : h.WF) (k : Nat) (f : Fm) :
    (CTLS.modelcheckS h k f).2 = CTLS.modelcheck (h.get k) f := by
  have hc : h.next ∈ (h.alloc (h.get k)).1.ids := by simp
  simp only [CTLS.modelcheckS, Store.clone, alloc_snd, CTLS.modelcheck]
  rw [CTLS.removeStateS_spec _ _ f hc, get_alloc_new hw, get_set_self _ _ _ hc]

/-! ### one call, any checker -/

theorem call_result_eq (h : Store σ) (hw : h.WF) (c : Call) : (h.call c).2 = h.pureAnswer c := by
  obtain ⟨L, k, f⟩ := c
  cases L
  · exact ctl_result_eq h k f
  · exact ltl_result_eq h k f
  · exact ctls_result_eq h hw k f

theorem call_frame (h : Store σ) (hw : h.WF) (c : Call) (i : Nat) (hi : i ∈ h.ids) :
    (h.call c).1.get? i = h.get? i := by
  obtain ⟨L, k, f⟩ := c
  cases L
  · exact ctl_frame h k f i
  · exact ltl_frame h k f i
  · exact ctls_frame h hw k f i hi

theorem call_wf (h : Store σ) (hw : h.WF) (c : Call) : (h.call c).1.WF := by
  obtain ⟨L, k, f⟩ := c
  cases L
  · exact hw
  · exact hw
  · show (CTLS.modelcheckS h k f).1.WF
    rw [ctls_store h hw k f]
    exact wf_set (wf_alloc hw _) _ _

theorem call_ids (h : Store σ) (hw : h.WF) (c : Call) (i : Nat) (hi : i ∈ h.ids) : i ∈ (h.call c).1.ids := by
  rw [mem_ids_iff, call_frame h hw c i hi, ← mem_ids_iff]; exact hi

/-- the pure answer depends on the store only through the value of the argument -/
theorem pureAnswer_congr (h h' : Store σ) (c : Call) (e : h'.get? c.2.1 = h.get? c.2.1) :
    h'.pureAnswer c = h.pureAnswer c := by
  simp only [Store.pureAnswer, get_eq_of_get? e]

/-! ### histories -/

/-- **purity over histories.**  Execute any finite sequence of calls (any checkers, any live objects, any formulas)
    from a store `h`.  Then the list of answers is, call by call, the pure `modelcheck` of the value the argument had
    in the ORIGINAL store `h`, and every object of `h` has its original value at the end. -/
theorem history (h : Store σ) (hw : h.WF) (calls : List Call) (hk : ∀ c ∈ calls, c.2.1 ∈ h.ids) :
    (h.run calls).2 = calls.map h.pureAnswer ∧
    (∀ i ∈ h.ids, (h.run calls).1.get? i = h.get? i) ∧
    (h.run calls).1.WF := by
  induction calls generalizing h with
  | nil => exact ⟨rfl, fun _ _ => rfl, hw⟩
  | cons c cs ih =>
    have hk' : ∀ c' ∈ cs, c'.2.1 ∈ (h.call c).1.ids :=
      fun c' hc' => call_ids h hw c _ (hk c' (List.mem_cons_of_mem _ hc'))
    obtain ⟨ih1, ih2, ih3⟩ := ih (h.call c).1 (call_wf h hw c) hk'
    refine ⟨?_, ?_, ih3⟩
    · simp only [Store.run, List.map_cons, ih1, call_result_eq h hw c]
      congr 1
      apply List.map_congr_left
      intro c' hc'
      exact pureAnswer_congr h _ c' (call_frame h hw c _ (hk c' (List.mem_cons_of_mem _ hc')))
    · intro i hi
      simp only [Store.run]
      rw [ih2 i (call_ids h hw c i hi), call_frame h hw c i hi]

/-- the `n`-th answer of a history is the pure `modelcheck` of the original value of the `n`-th argument -/
theorem history_nth (h : Store σ) (hw : h.WF) (calls : List Call) (hk : ∀ c ∈ calls, c.2.1 ∈ h.ids)
    (n : Nat) (hn : n < calls.length) :
    (h.run calls).2[n]? = some (h.pureAnswer calls[n]) := by
  rw [(history h hw calls hk).1]; simp [hn]

/-- every original object (in particular every structure passed as an argument) is unchanged at the end -/
theorem history_frame (h : Store σ) (hw : h.WF) (calls : List Call) (hk : ∀ c ∈ calls, c.2.1 ∈ h.ids)
    (i : Nat) (hi : i ∈ h.ids) : (h.run calls).1.get i = h.get i :=
  get_eq_of_get? ((history h hw calls hk).2.1 i hi)

/-- answers are independent of the interleaving: the same call gets the same answer wherever it occurs in whichever
    history started from the same store -/
theorem answers_indep (h : Store σ) (hw : h.WF) (calls₁ calls₂ : List Call)
    (hk₁ : ∀ c ∈ calls₁, c.2.1 ∈ h.ids) (hk₂ : ∀ c ∈ calls₂, c.2.1 ∈ h.ids)
    (n m : Nat) (c : Call) (h₁ : calls₁[n]? = some c) (h₂ : calls₂[m]? = some c) :
    (h.run calls₁).2[n]? = (h.run calls₂).2[m]? := by
  rw [(history h hw calls₁ hk₁).1, (history h hw calls₂ hk₂).1]
  simp [h₁, h₂]

/-! ### non-vacuity: a store with two structures and a history of three calls -/

def K₀ : Kripke Nat :=
  { states := [0, 1], succ := fun s => if s = 0 then [0, 1] else [0], lab := fun s => if s = 0 then ["p"] else [] }

def K₁ : Kripke Nat :=
  { states := [0, 1, 2], succ := fun s => if s = 2 then [2] else [s + 1], lab := fun s => if s = 2 then ["q"] else [] }

/-- objects 0 ↦ K₀ and 1 ↦ K₁ -/
def h₀ : Store Nat := ((Store.empty.alloc K₀).1.alloc K₁).1

def calls₀ : List Call :=
  [(.ctls, 0, .A (.G (.E (.F (.X (.ap "p")))))),     -- CTL*: relabels (its clone of) object 0
   (.ctls, 0, .E (.and [.G (.F (.ap "p")), .G (.F (.not (.ap "p")))])),
   (.ltl, 1, .A (.F (.ap "q")))]

example : h₀.WF := (wf_iff _).mp (by decide)
example : h₀.ids = [0, 1] := by decide
example : ∀ c ∈ calls₀, c.2.1 ∈ h₀.ids := by decide

-- the answers
example : (h₀.run calls₀).2 = [.ok [0, 1], .ok [0, 1], .ok [0, 1, 2]] := by decide +kernel
-- two objects were allocated (one clone per CTL* call) …
example : (h₀.run calls₀).1.ids = [0, 1, 2, 3] := by decide +kernel
-- … the clones were relabelled …
example : ((h₀.run calls₀).1.get 2).lab 0 = ["[A(G(E(F(X(p)))))]", "[E(F(X(p)))]", "p"] := by decide +kernel
example : ((h₀.run calls₀).1.get 3).lab 0 = ["[E((G(F(p)) and G(F(not p))))]", "p"] := by decide +kernel
-- … and the caller's objects were not
example : ((h₀.run calls₀).1.get 0).lab 0 = ["p"] := by decide +kernel
example : ((h₀.run calls₀).1.get 1).lab 2 = ["q"] := by decide +kernel
-- a write through `addLabel` on the caller's object WOULD be visible: the frame theorems are not vacuous
example : ((h₀.addLabel 0 "x" [0]).get 0).lab 0 = ["x", "p"] := by decide +kernel

#print axioms removeStateS_spec
#print axioms ctls_frame
#print axioms ctls_result_eq
#print axioms history
#print axioms history_nth
#print axioms answers_indep
end PMC.C07
