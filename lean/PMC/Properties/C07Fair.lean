/-
  C07 with fairness constraints — "… for every K, formula and fairness constraint F, no modelcheck call changes K …;
  the result depends only on the arguments".

  PMC/Properties/C07.lean covers `F=None`.  With `F` given, every checker runs `kripke.clone()` and then
  `label_fair_states(F)`, which ADDS A LABEL to label sets, and the CTL* checker goes on adding labels
  (`_remove_state_subformulas(kripkeC, formula, fair_label)`), possibly until a `TypeError` is raised half-way
  (KF-C15-d).  Model: PMC/Model/EffectsFair.lean — `CTL.modelcheckFS`, `LTL.modelcheckFS`, `CTLS.modelcheckFS` on the
  object store of PMC/Model/Effects.lean: the clone is ALLOCATED in the store, `label_fair_states` and every
  `kripke.labels(s).add(…)` are WRITES to the identity the code writes to, and the final store is returned also when
  the call raises.  These functions do not ignore the store: `*_clone_labelled` show the new object and its labels,
  and the last `example`s show that the same writes through the caller's identity would be visible.

  Theorems (hypothesis `h.WF`: the allocator invariant, see C07.lean):
    * `ctlF_frame`, `ltlF_frame`, `ctlsF_frame` — every object that existed before the call, in particular the
      caller's `k`, has the same value after the call — whether the call returns or raises;
    * `ctlF_result_eq`, `ltlF_result_eq`, `ctlsF_result_eq` — the outcome (answer or exception) is the pure
      `modelcheckF` (PMC/Model/Fair.lean) of the VALUE of `k`;
    * `*_ids` — at most one identity, `h.next`, is allocated; `*_wf` — the allocator invariant is kept;
    * `removeStateFS_frame` — the store-passing `_remove_state_subformulas(k, f, fair_label)` touches only object `k`;
    * `historyF`, `historyF_frame`, `answersF_indep` — C07's history theorems for calls with optional `F`.

  As in C07.lean, `Store.clone` copies the VALUE of the structure: sharing of label sets between an object and its
  clone is not expressible in this store (SPEC_REVIEW issue 2); the frame theorems are about the writes the checkers
  perform, not about the depth of `Kripke.clone`.
-/
import PMC.Proofs.EffectsFair
import PMC.Properties.C07
namespace PMC.C07
open PMC PMC.Store
variable {σ : Type} [DecidableEq σ]

/-! ### the recursion -/

/-- `_remove_state_subformulas(k, f, fair_label)` leaves every other object alone and allocates nothing — whether it
    returns or raises -/
theorem removeStateFS_frame (fair : String) (h : Store σ) (k : Nat) (f : Fm) (hk : k ∈ h.ids) :
    (∀ i, i ≠ k → (CTLS.removeStateFS fair h k f).1.get? i = h.get? i) ∧
    (CTLS.removeStateFS fair h k f).1.ids = h.ids := by
  obtain ⟨K', e1, _, _⟩ := CTLS.removeStateFS_sim fair k f h hk
  rw [e1]
  exact ⟨fun i hi => get?_set_ne h k i _ hi, ids_set _ _ _⟩

/-- its outcome is that of the functional `removeStateF` on the value of `k`, and on success object `k` holds the
    relabelled structure -/
theorem removeStateFS_result (fair : String) (h : Store σ) (k : Nat) (f : Fm) (hk : k ∈ h.ids) :
    (CTLS.removeStateFS fair h k f).2 = (CTLS.removeStateF fair (h.get k) f).map Prod.snd ∧
    ∀ r, CTLS.removeStateF fair (h.get k) f = .ok r → (CTLS.removeStateFS fair h k f).1.get k = r.1 := by
  obtain ⟨K', e1, e2, e3⟩ := CTLS.removeStateFS_sim fair k f h hk
  refine ⟨e2, fun r hr => ?_⟩
  rw [e1, get_set_self h k _ hk, e3 r hr]

/-! ### the entry points: final store -/

theorem ctlF_frame (h : Store σ) (hw : h.WF) (k : Nat) (F : Option (List (List σ))) (f : Fm) (i : Nat)
    (hi : i ∈ h.ids) : (CTL.modelcheckFS h k F f).1.get? i = h.get? i :=
  (ctlFS_spec h hw k F f).1.2.1 i hi

theorem ltlF_frame (h : Store σ) (hw : h.WF) (k : Nat) (F : Option (List (List σ))) (f : Fm) (i : Nat)
    (hi : i ∈ h.ids) : (LTL.modelcheckFS h k F f).1.get? i = h.get? i :=
  (ltlFS_spec h hw k F f).1.2.1 i hi

/-- every pre-existing object — in particular the caller's `k` — is unchanged by `CTLS.modelcheck(k, f, F=F)`,
    also when the call raises after having labelled (its clone of) the structure -/
theorem ctlsF_frame (h : Store σ) (hw : h.WF) (k : Nat) (F : Option (List (List σ))) (f : Fm) (i : Nat)
    (hi : i ∈ h.ids) : (CTLS.modelcheckFS h k F f).1.get? i = h.get? i :=
  (ctlsFS_spec h hw k F f).1.2.1 i hi

theorem ctlF_ids (h : Store σ) (hw : h.WF) (k : Nat) (F : Option (List (List σ))) (f : Fm) (i : Nat)
    (hi : i ∈ (CTL.modelcheckFS h k F f).1.ids) : i ∈ h.ids ∨ i = h.next :=
  (ctlFS_spec h hw k F f).1.2.2 i hi

theorem ltlF_ids (h : Store σ) (hw : h.WF) (k : Nat) (F : Option (List (List σ))) (f : Fm) (i : Nat)
    (hi : i ∈ (LTL.modelcheckFS h k F f).1.ids) : i ∈ h.ids ∨ i = h.next :=
  (ltlFS_spec h hw k F f).1.2.2 i hi

theorem ctlsF_ids (h : Store σ) (hw : h.WF) (k : Nat) (F : Option (List (List σ))) (f : Fm) (i : Nat)
    (hi : i ∈ (CTLS.modelcheckFS h k F f).1.ids) : i ∈ h.ids ∨ i = h.next :=
  (ctlsFS_spec h hw k F f).1.2.2 i hi

theorem ctlF_wf (h : Store σ) (hw : h.WF) (k : Nat) (F : Option (List (List σ))) (f : Fm) :
    (CTL.modelcheckFS h k F f).1.WF := (ctlFS_spec h hw k F f).1.1

theorem ltlF_wf (h : Store σ) (hw : h.WF) (k : Nat) (F : Option (List (List σ))) (f : Fm) :
    (LTL.modelcheckFS h k F f).1.WF := (ltlFS_spec h hw k F f).1.1

theorem ctlsF_wf (h : Store σ) (hw : h.WF) (k : Nat) (F : Option (List (List σ))) (f : Fm) :
    (CTLS.modelcheckFS h k F f).1.WF := (ctlsFS_spec h hw k F f).1.1

/-! ### the writes do happen: the clone is allocated and labelled -/

/-- CTL with constraints on a CTL state formula: the final store is the initial one plus ONE new object, the clone
    carrying the fair label on the (as-implemented) fair states -/
theorem ctlF_clone_labelled (h : Store σ) (hw : h.WF) (k : Nat) (F : List (List σ)) (f : Fm)
    (hf : f.isCTLState = true) :
    (CTL.modelcheckFS h k (some F) f).1 = (h.alloc (h.get k)).1.set h.next (Fair.labelFair (h.get k) F) := by
  simp only [CTL.modelcheckFS, hf, if_true, Store.clone, alloc_snd, labelFairS_clone hw]
  split <;> rfl

theorem ltlF_clone_labelled (h : Store σ) (hw : h.WF) (k : Nat) (F : List (List σ)) (g : Fm) :
    (LTL.modelcheckFS h k (some F) (.A g)).1 = (h.alloc (h.get k)).1.set h.next (Fair.labelFair (h.get k) F) := by
  simp only [LTL.modelcheckFS, Store.clone, alloc_snd, labelFairS_clone hw]
  split <;> rfl

/-- CTL* with constraints: one new object; when `_remove_state_subformulas` succeeds it is the structure the
    functional model computes (fair label plus one fresh atom per quantified subformula) -/
theorem ctlsF_clone_labelled (h : Store σ) (hw : h.WF) (k : Nat) (F : List (List σ)) (f : Fm)
    (r : Kripke σ × Fm)
    (hr : CTLS.removeStateF (Fair.fairLabel (h.get k)) (Fair.labelFair (h.get k) F) f = .ok r) :
    (CTLS.modelcheckFS h k (some F) f).1 = (h.alloc (h.get k)).1.set h.next r.1 := by
  have hc : h.next ∈ (h.alloc (h.get k)).1.ids := by simp
  have hc' : h.next ∈ ((h.alloc (h.get k)).1.set h.next (Fair.labelFair (h.get k) F)).ids := by
    rw [ids_set]; exact hc
  simp only [CTLS.modelcheckFS, Store.clone, alloc_snd, labelFairS_clone hw]
  obtain ⟨K', e1, e2, e3⟩ := CTLS.removeStateFS_sim (Fair.fairLabel (h.get k)) h.next f _ hc'
  rw [set_set] at e1
  rw [get_set_self _ _ _ hc] at e2 e3
  rw [hr] at e2
  obtain rfl := e3 r hr
  simp only [bindS]; rw [e2]; simp only [Except.map]; rw [e1]

/-! ### the entry points: outcome -/

theorem ctlF_result_eq (h : Store σ) (hw : h.WF) (k : Nat) (F : Option (List (List σ))) (f : Fm) :
    (CTL.modelcheckFS h k F f).2 = CTL.modelcheckF (h.get k) F f := (ctlFS_spec h hw k F f).2

theorem ltlF_result_eq (h : Store σ) (hw : h.WF) (k : Nat) (F : Option (List (List σ))) (f : Fm) :
    (LTL.modelcheckFS h k F f).2 = LTL.modelcheckF (h.get k) F f := (ltlFS_spec h hw k F f).2

/-- the outcome of the effectful `CTLS.modelcheck(k, f, F=F)` is the pure function of the VALUE of its argument -/
theorem ctlsF_result_eq (h : Store σ) (hw : h.WF) (k : Nat) (F : Option (List (List σ))) (f : Fm) :
    (CTLS.modelcheckFS h k F f).2 = CTLS.modelcheckF (h.get k) F f := (ctlsFS_spec h hw k F f).2

/-- `F=None` is the call of C07.lean -/
theorem ctlF_none (h : Store σ) (k : Nat) (f : Fm) : CTL.modelcheckFS h k none f = CTL.modelcheckS h k f := rfl
theorem ltlF_none (h : Store σ) (k : Nat) (f : Fm) : LTL.modelcheckFS h k none f = LTL.modelcheckS h k f := rfl
theorem ctlsF_none (h : Store σ) (k : Nat) (f : Fm) : CTLS.modelcheckFS h k none f = CTLS.modelcheckS h k f := rfl

/-! ### one call, any checker, with or without constraints -/

theorem callF_spec (h : Store σ) (hw : h.WF) (c : CallF σ) :
    FrameOK h (h.callF c).1 ∧ (h.callF c).2 = h.pureAnswerF c := by
  obtain ⟨L, k, F, f⟩ := c
  cases L
  · exact ctlFS_spec h hw k F f
  · exact ltlFS_spec h hw k F f
  · exact ctlsFS_spec h hw k F f

theorem callF_result_eq (h : Store σ) (hw : h.WF) (c : CallF σ) : (h.callF c).2 = h.pureAnswerF c :=
  (callF_spec h hw c).2

theorem callF_frame (h : Store σ) (hw : h.WF) (c : CallF σ) (i : Nat) (hi : i ∈ h.ids) :
    (h.callF c).1.get? i = h.get? i := (callF_spec h hw c).1.2.1 i hi

theorem callF_wf (h : Store σ) (hw : h.WF) (c : CallF σ) : (h.callF c).1.WF := (callF_spec h hw c).1.1

theorem callF_ids (h : Store σ) (hw : h.WF) (c : CallF σ) (i : Nat) (hi : i ∈ h.ids) : i ∈ (h.callF c).1.ids := by
  rw [mem_ids_iff, callF_frame h hw c i hi, ← mem_ids_iff]; exact hi

theorem pureAnswerF_congr (h h' : Store σ) (c : CallF σ) (e : h'.get? c.2.1 = h.get? c.2.1) :
    h'.pureAnswerF c = h.pureAnswerF c := by
  simp only [Store.pureAnswerF, get_eq_of_get? e]

/-! ### histories -/

/-- **purity over histories, with fairness.**  Execute any finite sequence of calls (any checkers, any live objects,
    any formulas, with or without constraints, returning or raising) from a store `h`.  Then the list of outcomes is,
    call by call, the pure `modelcheckF` of the value the argument had in the ORIGINAL store `h`, and every object
    of `h` has its original value at the end. -/
theorem historyF (h : Store σ) (hw : h.WF) (calls : List (CallF σ)) (hk : ∀ c ∈ calls, c.2.1 ∈ h.ids) :
    (h.runF calls).2 = calls.map h.pureAnswerF ∧
    (∀ i ∈ h.ids, (h.runF calls).1.get? i = h.get? i) ∧
    (h.runF calls).1.WF := by
  induction calls generalizing h with
  | nil => exact ⟨rfl, fun _ _ => rfl, hw⟩
  | cons c cs ih =>
    have hk' : ∀ c' ∈ cs, c'.2.1 ∈ (h.callF c).1.ids :=
      fun c' hc' => callF_ids h hw c _ (hk c' (List.mem_cons_of_mem _ hc'))
    obtain ⟨ih1, ih2, ih3⟩ := ih (h.callF c).1 (callF_wf h hw c) hk'
    refine ⟨?_, ?_, ih3⟩
    · simp only [Store.runF, List.map_cons, ih1, callF_result_eq h hw c]
      congr 1
      apply List.map_congr_left
      intro c' hc'
      exact pureAnswerF_congr h _ c' (callF_frame h hw c _ (hk c' (List.mem_cons_of_mem _ hc')))
    · intro i hi
      simp only [Store.runF]
      rw [ih2 i (callF_ids h hw c i hi), callF_frame h hw c i hi]

/-- every original object (in particular every structure passed as an argument) is unchanged at the end -/
theorem historyF_frame (h : Store σ) (hw : h.WF) (calls : List (CallF σ)) (hk : ∀ c ∈ calls, c.2.1 ∈ h.ids)
    (i : Nat) (hi : i ∈ h.ids) : (h.runF calls).1.get i = h.get i :=
  get_eq_of_get? ((historyF h hw calls hk).2.1 i hi)

/-- the same call gets the same outcome wherever it occurs in whichever history started from the same store -/
theorem answersF_indep (h : Store σ) (hw : h.WF) (calls₁ calls₂ : List (CallF σ))
    (hk₁ : ∀ c ∈ calls₁, c.2.1 ∈ h.ids) (hk₂ : ∀ c ∈ calls₂, c.2.1 ∈ h.ids)
    (n m : Nat) (c : CallF σ) (h₁ : calls₁[n]? = some c) (h₂ : calls₂[m]? = some c) :
    (h.runF calls₁).2[n]? = (h.runF calls₂).2[m]? := by
  rw [(historyF h hw calls₁ hk₁).1, (historyF h hw calls₂ hk₂).1]
  simp [h₁, h₂]

/-! ### non-vacuity: the store `h₀` of C07.lean (0 ↦ K₀, 1 ↦ K₁), calls with constraints -/

def callsF₀ : List (CallF Nat) :=
  [(.ctl, 0, some [[1]], .E (.G (.ap "p"))),                   -- CTL with F: clone 2, labelled `fair`
   (.ctls, 0, some [[1]], .A (.G (.F (.ap "p")))),             -- CTL* with F: clone 3, `fair` + a generated atom
   (.ctls, 0, some [[1]], .and [.A (.X (.ap "p")), .E (.R (.ap "p") (.ap "p"))]),  -- raises half-way (KF-C15-d): clone 4
   (.ltl, 0, some [[1]], .A (.F (.ap "p"))),                   -- LTL with F: raises (KF-C15-c) after labelling clone 5
   (.ltl, 1, some [[2]], .ap "q"),                             -- rejected before anything is allocated
   (.ctls, 0, none, .A (.G (.F (.ap "p"))))]                   -- F=None: clone 6

example : ∀ c ∈ callsF₀, c.2.1 ∈ h₀.ids := by decide

-- the outcomes
example : (h₀.runF callsF₀).2 =
    [.ok [0], .ok [0, 1], .error .typeError, .error .typeError, .error .typeError, .ok [0, 1]] := by
  decide +kernel
-- five objects were allocated …
example : (h₀.runF callsF₀).1.ids = [0, 1, 2, 3, 4, 5, 6] := by decide +kernel
-- … the clones were labelled: by `label_fair_states` …
example : ((h₀.runF callsF₀).1.get 2).lab 0 = ["fair", "p"] := by decide +kernel
example : ((h₀.runF callsF₀).1.get 5).lab 1 = ["fair"] := by decide +kernel
-- … and by `_remove_state_subformulas`, also in the call that raised afterwards …
example : ((h₀.runF callsF₀).1.get 3).lab 0 = ["[A(G(F(p)))]", "fair", "p"] := by decide +kernel
example : ((h₀.runF callsF₀).1.get 4).lab 1 = ["[A(X(p))]", "fair"] := by decide +kernel
-- … and the caller's objects were not
example : ((h₀.runF callsF₀).1.get 0).lab 0 = ["p"] := by decide +kernel
example : ((h₀.runF callsF₀).1.get 1).lab 2 = ["q"] := by decide +kernel
-- the same writes through the caller's identity WOULD be visible: the frame theorems are not vacuous
example : ((h₀.labelFairS 0 [[1]]).1.get 0).lab 0 = ["fair", "p"] := by decide +kernel
example : ((CTLS.removeStateFS "fair" h₀ 0 (.A (.X (.ap "p")))).1.get 0).lab 0 = ["[A(X(p))]", "p"] := by
  decide +kernel

#print axioms removeStateFS_frame
#print axioms ctlF_frame
#print axioms ltlF_frame
#print axioms ctlsF_frame
#print axioms ctlF_result_eq
#print axioms ltlF_result_eq
#print axioms ctlsF_result_eq
#print axioms ctlsF_clone_labelled
#print axioms historyF
#print axioms answersF_indep
end PMC.C07
