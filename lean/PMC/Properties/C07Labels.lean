/-
  C07 at label-set granularity — model checking never writes to a label set the caller can see.

  PMC/Properties/C07.lean states the frame property over a store of whole `Kripke` VALUES: there `clone` yields a new
  value by construction and sharing of label sets between two `Kripke` objects cannot be expressed, so the frame
  theorem would also hold for a model of a shallow `clone()`.  Here the model is PMC/Model/LabelStore.lean: label sets
  are heap objects (`LHeap`), a `Kripke` object (`KObj`) points to them, `.add` is a write to ONE set
  (`LHeap.addTo`, recorded in the ghost `log`), and the checkers are parametrised by the clone operation.

  What is proved, for `CTLS.modelcheckL` (F=None) and `CTL/LTL/CTLS.modelcheckFL` (F given):
    * `…_writes_only_fresh` — every identity written by the call was allocated by the call
      (`h.mark ≤ id < h'.mark`): NO hypothesis on the heap or the object;
    * `…_old_sets_unchanged` — hence every set that existed before the call has its old contents;
    * `…_frame_labels` — hence every object whose sets were live before the call (the caller's object, and any other
      object of the heap) reads back the same value;
    * `…_answer_is_pure` — the answer is the pure `modelcheck` / `modelcheckF` of the value of the argument
      (hypothesis: that value is a well-formed Kripke structure, which the constructor guarantees);
    * `history_labels` — any sequence of calls: every answer is the pure answer on the ORIGINAL values, every original
      object is unchanged at the end.
  All of them are instances of theorems about `…With cl` for ANY clone operation `cl` satisfying `DeepClone`
  (fresh, pairwise distinct label sets; nothing live touched; same value).  `KObj.clone` satisfies it
  (`clone_deep`); `KObj.cloneShallow` does not (`cloneShallow_not_deep`), and with it the frame property FAILS:
  `shallow_clone_leaks`, `shallow_clone_leaks_fair` exhibit a structure and a formula for which the caller's object
  is relabelled by the call.

  `CTL.modelcheckL` / `LTL.modelcheckL` (F=None) return the heap they were given: that no write happens there is
  read off the Python code (a modelling decision, validated by the harness snapshots), not a theorem.
-/
import PMC.Proofs.LabelStore
namespace PMC.C07
open PMC PMC.KObj
variable {σ : Type} [DecidableEq σ]

/-! ### the frame condition of one call -/

/-- `h'` is `h` after a call that wrote only to sets it allocated itself -/
structure Framed (h h' : LHeap) : Prop where
  /-- the allocator only moves forward -/
  mark_le : h.mark ≤ h'.mark
  /-- every identity written since `h` was allocated since `h` -/
  log : ∀ id ∈ h'.log, id ∈ h.log ∨ (h.mark ≤ id ∧ id < h'.mark)
  /-- every set that existed in `h` has its old contents -/
  old : ∀ id : Nat, id < h.mark → h'.get id = h.get id
  /-- nothing is stored beyond the new mark -/
  above : ∀ id : Nat, h'.mark ≤ id → h'.get id = h.get id

theorem Framed.refl (h : LHeap) : Framed h h :=
  ⟨Nat.le_refl _, fun _ hid => Or.inl hid, fun _ _ => rfl, fun _ _ => rfl⟩

theorem Framed.trans {h h' h'' : LHeap} (a : Framed h h') (b : Framed h' h'') : Framed h h'' := by
  refine ⟨Nat.le_trans a.mark_le b.mark_le, fun id hid => ?_, fun id hid => ?_, fun id hid => ?_⟩
  · rcases b.log id hid with h1 | ⟨h1, h2⟩
    · rcases a.log id h1 with h3 | ⟨h3, h4⟩
      · exact Or.inl h3
      · exact Or.inr ⟨h3, Nat.lt_of_lt_of_le h4 b.mark_le⟩
    · exact Or.inr ⟨Nat.le_trans a.mark_le h1, h2⟩
  · rw [b.old id (Nat.lt_of_lt_of_le hid a.mark_le), a.old id hid]
  · rw [b.above id hid, a.above id (Nat.le_trans b.mark_le hid)]

/-- the allocator discipline (nothing stored at or above the mark) is preserved -/
theorem Framed.wf {h h' : LHeap} (fr : Framed h h') (hw : h.WF) : h'.WF := fun id hid => by
  have := fr.above id hid
  unfold LHeap.get at this
  rw [this]; exact hw id (Nat.le_trans fr.mark_le hid)

/-- an object whose sets were live before the call reads back the same value after it -/
theorem Framed.value {h h' : LHeap} (fr : Framed h h') (o : KObj σ) (hl : o.Live h) : o.value h' = o.value h :=
  value_congr o h h' (fun s hs => fr.old _ (hl s hs))

omit [DecidableEq σ] in
theorem Framed.live {h h' : LHeap} (fr : Framed h h') (o : KObj σ) (hl : o.Live h) : o.Live h' :=
  fun s hs => Nat.lt_of_lt_of_le (hl s hs) fr.mark_le

/-! ### what the checkers need of `clone` -/

/-- a clone operation that really copies: the new object's label sets are allocated by the call and pairwise
    distinct, no live set is touched, nothing is logged as written, and the new object has the value of the old -/
structure DeepClone (cl : LHeap → KObj σ → LHeap × KObj σ) : Prop where
  mark_le : ∀ h o, h.mark ≤ (cl h o).1.mark
  log : ∀ h o, (cl h o).1.log = h.log
  old : ∀ h o (id : Nat), id < h.mark → (cl h o).1.get id = h.get id
  above : ∀ h o (id : Nat), (cl h o).1.mark ≤ id → (cl h o).1.get id = h.get id
  fresh : ∀ h o, ∀ s ∈ (cl h o).2.states, h.mark ≤ (cl h o).2.lab s ∧ (cl h o).2.lab s < (cl h o).1.mark
  inj : ∀ h o, (cl h o).2.Inj
  value : ∀ h o, (cl h o).2.value (cl h o).1 = o.value h

/-- `Kripke.clone()` as modelled (copy every label set, twice) is a deep clone -/
theorem clone_deep : DeepClone (KObj.clone (σ := σ)) where
  mark_le h o := by rw [clone_eq, rebuild_mark]; omega
  log h o := by rw [clone_eq, rebuild_log]
  old h o id hid := by rw [clone_eq, rebuild_old _ _ _ _ _ hid]
  above h o id hid := by rw [clone_eq] at hid ⊢; exact rebuild_above _ _ _ _ _ hid
  fresh h o s hs := by
    rw [clone_eq] at hs ⊢
    exact ⟨rebuild_lab_ge _ _ _ _ _, rebuild_live _ _ _ _ s hs⟩
  inj h o := by rw [clone_eq]; exact rebuild_inj _ _ _ _
  value h o := by
    rw [clone_eq, rebuild_value]
    simp only [List.filter_true]
    rfl

/-- writes to the clone's sets only, after a deep clone, are writes to sets allocated by the call -/
theorem framed_of_fr {cl : LHeap → KObj σ → LHeap × KObj σ} (dc : DeepClone cl) (h : LHeap) (o : KObj σ)
    (h2 : LHeap) (fr : (cl h o).2.Fr (cl h o).1 h2) : Framed h h2 := by
  refine ⟨?_, fun id hid => ?_, fun id hid => ?_, fun id hid => ?_⟩
  · rw [fr.mark]; exact dc.mark_le h o
  · rcases fr.log id hid with h1 | ⟨s, hs, rfl⟩
    · rw [dc.log] at h1; exact Or.inl h1
    · rw [fr.mark]; exact Or.inr (dc.fresh h o s hs)
  · rw [fr.get id (fun s hs e => ?_), dc.old h o id hid]
    have := (dc.fresh h o s hs).1
    rw [e] at this
    omega
  · rw [fr.mark] at hid
    rw [fr.get id (fun s hs e => ?_), dc.above h o id hid]
    have := (dc.fresh h o s hs).2
    rw [e] at this
    lomega

/-! ### `CTLS.modelcheck`, F=None -/

theorem ctlsWith_framed {cl : LHeap → KObj σ → LHeap × KObj σ} (dc : DeepClone cl) (h : LHeap) (o : KObj σ) (f : Fm) :
    Framed h (CTLS.modelcheckLWith cl h o f).1 :=
  framed_of_fr dc h o _ (CTLS.removeStateL_fr _ f _)

theorem ctlsWith_answer {cl : LHeap → KObj σ → LHeap × KObj σ} (dc : DeepClone cl) (h : LHeap) (o : KObj σ) (f : Fm)
    (hwf : (o.value h).WF) : (CTLS.modelcheckLWith cl h o f).2 = CTLS.modelcheck (o.value h) f := by
  have hw : ∀ h', ((cl h o).2.value h').WF := fun h' => value_wf _ (h := (cl h o).1) (by rw [dc.value]; exact hwf) h'
  obtain ⟨e2, e1⟩ := CTLS.removeStateL_spec (cl h o).2 (dc.inj h o) hw f (cl h o).1
  simp only [CTLS.modelcheckLWith, CTLS.modelcheck, e1, e2, dc.value]

/-- the call only moves the allocator forward, writes only to sets it allocated, and leaves the old sets alone -/
theorem ctls_framed (h : LHeap) (o : KObj σ) (f : Fm) : Framed h (CTLS.modelcheckL h o f).1 :=
  ctlsWith_framed clone_deep h o f

/-- **every label set written by `CTLS.modelcheck` was allocated by that very call** -/
theorem ctls_writes_only_fresh (h : LHeap) (o : KObj σ) (f : Fm) :
    ∀ id ∈ (CTLS.modelcheckL h o f).1.log, id ∈ h.log ∨ (h.mark ≤ id ∧ id < (CTLS.modelcheckL h o f).1.mark) :=
  (ctls_framed h o f).log

/-- every label set that existed before the call has its old contents after it -/
theorem ctls_old_sets_unchanged (h : LHeap) (o : KObj σ) (f : Fm) (id : Nat) (hid : id < h.mark) :
    (CTLS.modelcheckL h o f).1.get id = h.get id :=
  (ctls_framed h o f).old id hid

/-- **the frame theorem**: any object whose label sets were live before the call — the caller's `o`, or any other
    object `o'` of the heap — has the same value after it -/
theorem ctls_frame_labels (h : LHeap) (o : KObj σ) (f : Fm) (o' : KObj σ) (hl : o'.Live h) :
    o'.value (CTLS.modelcheckL h o f).1 = o'.value h :=
  (ctls_framed h o f).value o' hl

/-- **the answer is the pure function of the value of the argument** -/
theorem ctls_answer_is_pure (h : LHeap) (o : KObj σ) (f : Fm) (hwf : (o.value h).WF) :
    (CTLS.modelcheckL h o f).2 = CTLS.modelcheck (o.value h) f :=
  ctlsWith_answer clone_deep h o f hwf

/-! ### `CTL.modelcheck`, with or without `F` -/

theorem ctlFWith_framed {cl : LHeap → KObj σ → LHeap × KObj σ} (dc : DeepClone cl) (h : LHeap) (o : KObj σ)
    (F : Option (List (List σ))) (f : Fm) : Framed h (CTL.modelcheckFLWith cl h o F f).1 := by
  unfold CTL.modelcheckFLWith
  cases F with
  | none => exact Framed.refl h
  | some F =>
    simp only
    have fr := framed_of_fr dc h o _ (labelFair_fr (cl h o).2 (cl h o).1 F)
    split
    · split <;> exact fr
    · exact Framed.refl h

theorem ctlFWith_answer {cl : LHeap → KObj σ → LHeap × KObj σ} (dc : DeepClone cl) (h : LHeap) (o : KObj σ)
    (F : Option (List (List σ))) (f : Fm) (hwf : (o.value h).WF) :
    (CTL.modelcheckFLWith cl h o F f).2 = CTL.modelcheckF (o.value h) F f := by
  cases F with
  | none => rfl
  | some F =>
    have hw : ((cl h o).2.value (cl h o).1).WF := by rw [dc.value]; exact hwf
    have e1 := labelFair_value (cl h o).2 (dc.inj h o) (cl h o).1 hw F
    have e2 := labelFair_snd (cl h o).2 (cl h o).1 F
    rw [dc.value] at e1 e2
    simp only [CTL.modelcheckFLWith, CTL.modelcheckF]
    split
    · simp only [e1, e2]
      cases Fair.nonFairCTL (Fair.fairLabel (o.value h)) f <;> rfl
    · rfl

theorem ctlF_framed (h : LHeap) (o : KObj σ) (F : Option (List (List σ))) (f : Fm) :
    Framed h (CTL.modelcheckFL h o F f).1 := ctlFWith_framed clone_deep h o F f

/-- every label set written by `CTL.modelcheck(…, F=F)` was allocated by that very call -/
theorem ctlF_writes_only_fresh (h : LHeap) (o : KObj σ) (F : Option (List (List σ))) (f : Fm) :
    ∀ id ∈ (CTL.modelcheckFL h o F f).1.log,
      id ∈ h.log ∨ (h.mark ≤ id ∧ id < (CTL.modelcheckFL h o F f).1.mark) := (ctlF_framed h o F f).log

theorem ctlF_old_sets_unchanged (h : LHeap) (o : KObj σ) (F : Option (List (List σ))) (f : Fm) (id : Nat)
    (hid : id < h.mark) : (CTL.modelcheckFL h o F f).1.get id = h.get id := (ctlF_framed h o F f).old id hid

theorem ctlF_frame_labels (h : LHeap) (o : KObj σ) (F : Option (List (List σ))) (f : Fm) (o' : KObj σ) (hl : o'.Live h) :
    o'.value (CTL.modelcheckFL h o F f).1 = o'.value h := (ctlF_framed h o F f).value o' hl

theorem ctlF_answer_is_pure (h : LHeap) (o : KObj σ) (F : Option (List (List σ))) (f : Fm) (hwf : (o.value h).WF) :
    (CTL.modelcheckFL h o F f).2 = CTL.modelcheckF (o.value h) F f := ctlFWith_answer clone_deep h o F f hwf

/-! ### `LTL.modelcheck`, with or without `F` -/

theorem ltlFWith_framed {cl : LHeap → KObj σ → LHeap × KObj σ} (dc : DeepClone cl) (h : LHeap) (o : KObj σ)
    (F : Option (List (List σ))) (f : Fm) : Framed h (LTL.modelcheckFLWith cl h o F f).1 := by
  unfold LTL.modelcheckFLWith
  cases F with
  | none => exact Framed.refl h
  | some F =>
    simp only
    have fr := framed_of_fr dc h o _ (labelFair_fr (cl h o).2 (cl h o).1 F)
    split
    · split <;> exact fr
    · exact Framed.refl h

theorem ltlFWith_answer {cl : LHeap → KObj σ → LHeap × KObj σ} (dc : DeepClone cl) (h : LHeap) (o : KObj σ)
    (F : Option (List (List σ))) (f : Fm) (hwf : (o.value h).WF) :
    (LTL.modelcheckFLWith cl h o F f).2 = LTL.modelcheckF (o.value h) F f := by
  cases F with
  | none => rfl
  | some F =>
    have hw : ((cl h o).2.value (cl h o).1).WF := by rw [dc.value]; exact hwf
    have e1 := labelFair_value (cl h o).2 (dc.inj h o) (cl h o).1 hw F
    have e2 := labelFair_snd (cl h o).2 (cl h o).1 F
    rw [dc.value] at e1 e2
    cases f with
    | A g =>
      simp only [LTL.modelcheckFLWith, LTL.modelcheckF, e1, e2]
      generalize LTL.toR _ = t
      cases t <;> rfl
    | _ => rfl

theorem ltlF_framed (h : LHeap) (o : KObj σ) (F : Option (List (List σ))) (f : Fm) :
    Framed h (LTL.modelcheckFL h o F f).1 := ltlFWith_framed clone_deep h o F f

/-- every label set written by `LTL.modelcheck(…, F=F)` was allocated by that very call -/
theorem ltlF_writes_only_fresh (h : LHeap) (o : KObj σ) (F : Option (List (List σ))) (f : Fm) :
    ∀ id ∈ (LTL.modelcheckFL h o F f).1.log,
      id ∈ h.log ∨ (h.mark ≤ id ∧ id < (LTL.modelcheckFL h o F f).1.mark) := (ltlF_framed h o F f).log

theorem ltlF_old_sets_unchanged (h : LHeap) (o : KObj σ) (F : Option (List (List σ))) (f : Fm) (id : Nat)
    (hid : id < h.mark) : (LTL.modelcheckFL h o F f).1.get id = h.get id := (ltlF_framed h o F f).old id hid

theorem ltlF_frame_labels (h : LHeap) (o : KObj σ) (F : Option (List (List σ))) (f : Fm) (o' : KObj σ) (hl : o'.Live h) :
    o'.value (LTL.modelcheckFL h o F f).1 = o'.value h := (ltlF_framed h o F f).value o' hl

theorem ltlF_answer_is_pure (h : LHeap) (o : KObj σ) (F : Option (List (List σ))) (f : Fm) (hwf : (o.value h).WF) :
    (LTL.modelcheckFL h o F f).2 = LTL.modelcheckF (o.value h) F f := ltlFWith_answer clone_deep h o F f hwf

/-! ### `CTLS.modelcheck`, with or without `F` -/

theorem ctlsFWith_framed {cl : LHeap → KObj σ → LHeap × KObj σ} (dc : DeepClone cl) (h : LHeap) (o : KObj σ)
    (F : Option (List (List σ))) (f : Fm) : Framed h (CTLS.modelcheckFLWith cl h o F f).1 := by
  unfold CTLS.modelcheckFLWith
  cases F with
  | none => exact ctlsWith_framed dc h o f
  | some F =>
    simp only
    have fr := framed_of_fr dc h o _
      ((labelFair_fr (cl h o).2 (cl h o).1 F).trans
        (CTLS.removeStateFL_fr ((cl h o).2.labelFair (cl h o).1 F).2 (cl h o).2 f _))
    split <;> exact fr

theorem ctlsFWith_answer {cl : LHeap → KObj σ → LHeap × KObj σ} (dc : DeepClone cl) (h : LHeap) (o : KObj σ)
    (F : Option (List (List σ))) (f : Fm) (hwf : (o.value h).WF) :
    (CTLS.modelcheckFLWith cl h o F f).2 = CTLS.modelcheckF (o.value h) F f := by
  cases F with
  | none => exact ctlsWith_answer dc h o f hwf
  | some F =>
    have hw : ((cl h o).2.value (cl h o).1).WF := by rw [dc.value]; exact hwf
    have e1 := labelFair_value (cl h o).2 (dc.inj h o) (cl h o).1 hw F
    have e2 := labelFair_snd (cl h o).2 (cl h o).1 F
    have sp := CTLS.removeStateFL_spec ((cl h o).2.labelFair (cl h o).1 F).2 (cl h o).2 (dc.inj h o)
      (fun h' => value_wf _ hw h') f ((cl h o).2.labelFair (cl h o).1 F).1
    rw [e1] at sp
    rw [dc.value] at e1 e2 sp
    simp only [CTLS.modelcheckFLWith, CTLS.modelcheckF]
    rw [e2] at sp ⊢
    cases hp : CTLS.removeStateF (Fair.fairLabel (o.value h)) (Fair.labelFair (o.value h) F) f with
    | error e =>
      rw [hp] at sp
      simp only [CTLS.RelF] at sp
      simp only [sp]
    | ok r =>
      rw [hp] at sp
      obtain ⟨s2, s1⟩ := sp
      simp only [s2, s1]

theorem ctlsF_framed (h : LHeap) (o : KObj σ) (F : Option (List (List σ))) (f : Fm) :
    Framed h (CTLS.modelcheckFL h o F f).1 := ctlsFWith_framed clone_deep h o F f

/-- every label set written by `CTLS.modelcheck(…, F=F)` was allocated by that very call -/
theorem ctlsF_writes_only_fresh (h : LHeap) (o : KObj σ) (F : Option (List (List σ))) (f : Fm) :
    ∀ id ∈ (CTLS.modelcheckFL h o F f).1.log,
      id ∈ h.log ∨ (h.mark ≤ id ∧ id < (CTLS.modelcheckFL h o F f).1.mark) := (ctlsF_framed h o F f).log

theorem ctlsF_old_sets_unchanged (h : LHeap) (o : KObj σ) (F : Option (List (List σ))) (f : Fm) (id : Nat)
    (hid : id < h.mark) : (CTLS.modelcheckFL h o F f).1.get id = h.get id := (ctlsF_framed h o F f).old id hid

theorem ctlsF_frame_labels (h : LHeap) (o : KObj σ) (F : Option (List (List σ))) (f : Fm) (o' : KObj σ) (hl : o'.Live h) :
    o'.value (CTLS.modelcheckFL h o F f).1 = o'.value h := (ctlsF_framed h o F f).value o' hl

theorem ctlsF_answer_is_pure (h : LHeap) (o : KObj σ) (F : Option (List (List σ))) (f : Fm) (hwf : (o.value h).WF) :
    (CTLS.modelcheckFL h o F f).2 = CTLS.modelcheckF (o.value h) F f := ctlsFWith_answer clone_deep h o F f hwf

/-! ### histories -/

theorem call_framed (h : LHeap) (c : LCall σ) : Framed h (h.call c).1 := by
  obtain ⟨L, o, F, f⟩ := c
  cases L
  · exact ctlF_framed h o F f
  · exact ltlF_framed h o F f
  · exact ctlsF_framed h o F f

theorem call_answer (h : LHeap) (c : LCall σ) (hwf : (c.2.1.value h).WF) : (h.call c).2 = h.pureAnswer c := by
  obtain ⟨L, o, F, f⟩ := c
  cases L
  · exact ctlF_answer_is_pure h o F f hwf
  · exact ltlF_answer_is_pure h o F f hwf
  · exact ctlsF_answer_is_pure h o F f hwf

/-- the pure answer depends on the heap only through the value of the argument -/
theorem pureAnswerL_congr (h h' : LHeap) (c : LCall σ) (e : c.2.1.value h' = c.2.1.value h) :
    h'.pureAnswer c = h.pureAnswer c := by
  simp only [LHeap.pureAnswer, e]

/-- **purity over histories, at label-set granularity.**  Execute any finite sequence of calls (any checker, with or
    without `F`, any formula) on objects whose label sets are live in `h` and whose values are well-formed.  Then the
    answers are, call by call, the pure answers computed from the ORIGINAL heap, every write of the whole history went
    to a set allocated during the history, and every set of `h` has its original contents. -/
theorem history_labels (h : LHeap) (calls : List (LCall σ)) (hk : ∀ c ∈ calls, c.2.1.Live h ∧ (c.2.1.value h).WF) :
    (h.run calls).2 = calls.map h.pureAnswer ∧ Framed h (h.run calls).1 := by
  induction calls generalizing h with
  | nil => exact ⟨rfl, Framed.refl h⟩
  | cons c cs ih =>
    have fr := call_framed h c
    have hk' : ∀ c' ∈ cs, c'.2.1.Live (h.call c).1 ∧ (c'.2.1.value (h.call c).1).WF := by
      intro c' hc'
      obtain ⟨hl, hw⟩ := hk c' (List.mem_cons_of_mem _ hc')
      exact ⟨fr.live _ hl, by rw [fr.value _ hl]; exact hw⟩
    obtain ⟨ih1, ih2⟩ := ih (h.call c).1 hk'
    refine ⟨?_, fr.trans ih2⟩
    simp only [LHeap.run, List.map_cons, ih1, call_answer h c (hk c (List.mem_cons_self ..)).2]
    congr 1
    apply List.map_congr_left
    intro c' hc'
    exact pureAnswerL_congr h _ c' (fr.value _ (hk c' (List.mem_cons_of_mem _ hc')).1)

/-- every object that was live at the beginning — every structure passed as an argument, and any other — is
    unchanged at the end -/
theorem history_frame_labels (h : LHeap) (calls : List (LCall σ)) (hk : ∀ c ∈ calls, c.2.1.Live h ∧ (c.2.1.value h).WF)
    (o' : KObj σ) (hl : o'.Live h) : o'.value (h.run calls).1 = o'.value h :=
  (history_labels h calls hk).2.value o' hl

/-! ### the contrast: with a SHALLOW clone the frame property fails -/

/-- a heap with two label sets, `0 ↦ {p}` and `1 ↦ {}` … -/
def hL0 : LHeap := ⟨2, fun id => if id = 0 then ["p"] else [], []⟩

/-- … and the structure `0 → 0, 0 → 1, 1 → 0` whose state `s` points to set `s` -/
def oL0 : KObj Nat := ⟨[0, 1], fun s => if s = 0 then [0, 1] else [0], fun s => s⟩

def fL0 : Fm := .E (.X (.ap "p"))

theorem oL0_live : oL0.Live hL0 := by unfold KObj.Live; decide
theorem oL0_wf : (oL0.value hL0).WF := by unfold Kripke.WF; decide
theorem hL0_wf : hL0.WF := by
  intro id hid
  show (if id = 0 then ["p"] else []) = []
  rw [if_neg]; intro e; subst e; exact absurd hid (by decide)

/-- the shallow clone is not a deep clone: its label sets are the caller's -/
theorem cloneShallow_not_deep : ¬ DeepClone (KObj.cloneShallow (σ := Nat)) := fun dc =>
  absurd (dc.fresh hL0 oL0 0 (by decide)).1 (by decide)

/-- **with `cloneShallow` in place of `clone`, `CTLS.modelcheck` relabels the caller's structure** … -/
theorem shallow_clone_leaks :
    (oL0.value (CTLS.modelcheckLWith KObj.cloneShallow hL0 oL0 fL0).1).lab 0 = ["[E(X(p))]", "p"] ∧
    (oL0.value hL0).lab 0 = ["p"] := by decide +kernel

/-- … so the frame theorem is false for it … -/
theorem shallow_clone_breaks_frame :
    ¬ (∀ (h : LHeap) (o : KObj Nat) (f : Fm) (o' : KObj Nat), o'.Live h →
        o'.value (CTLS.modelcheckLWith KObj.cloneShallow h o f).1 = o'.value h) := fun hall => by
  have e := congrArg (fun K => K.lab 0) (hall hL0 oL0 fL0 oL0 oL0_live)
  simp only [shallow_clone_leaks.1, shallow_clone_leaks.2] at e
  exact absurd e (by decide)

/-- … and a live set (identity `0 < hL0.mark`) is in the write log -/
theorem shallow_clone_writes_live :
    (CTLS.modelcheckLWith KObj.cloneShallow hL0 oL0 fL0).1.log = [1, 0] ∧ hL0.log = [] ∧ hL0.mark = 2 := by
  decide +kernel

/-- the same with a fairness constraint: `label_fair_states` on a shallow clone labels the caller's states -/
theorem shallow_clone_leaks_fair :
    (oL0.value (CTL.modelcheckFLWith KObj.cloneShallow hL0 oL0 (some [[0]]) (.ap "p")).1).lab 1 = ["fair"] ∧
    (oL0.value hL0).lab 1 = [] := by decide +kernel

/-- the answers are the same: the bug is invisible in the result of the call, it corrupts the argument -/
theorem shallow_clone_same_answer :
    (CTLS.modelcheckLWith KObj.cloneShallow hL0 oL0 fL0).2 = (CTLS.modelcheckL hL0 oL0 fL0).2 := by decide +kernel

/-! ### non-vacuity: the real `clone` on the same input -/

-- the call DOES write (to the sets 4, 5 of the clone; 2, 3 are the temporary copies made by `clone()`) …
example : (CTLS.modelcheckL hL0 oL0 fL0).1.log = [5, 4] ∧ (CTLS.modelcheckL hL0 oL0 fL0).1.mark = 6 := by decide +kernel
example : (CTLS.modelcheckL hL0 oL0 fL0).1.get 4 = ["[E(X(p))]", "p"] := by decide +kernel
-- … the caller's sets are untouched …
example : (oL0.value (CTLS.modelcheckL hL0 oL0 fL0).1).lab 0 = ["p"] := by decide +kernel
example : oL0.value (CTLS.modelcheckL hL0 oL0 fL0).1 = oL0.value hL0 := ctls_frame_labels hL0 oL0 fL0 oL0 oL0_live
-- … and the answer is the pure one
example : (CTLS.modelcheckL hL0 oL0 fL0).2 = .ok [0, 1] := by decide +kernel
example : (CTLS.modelcheckL hL0 oL0 fL0).2 = CTLS.modelcheck (oL0.value hL0) fL0 := ctls_answer_is_pure hL0 oL0 fL0 oL0_wf
-- with `F`: the fair label goes to the clone
example : (CTLS.modelcheckFL hL0 oL0 (some [[0]]) fL0).1.get 5 ≠ [] ∧
    (oL0.value (CTLS.modelcheckFL hL0 oL0 (some [[0]]) fL0).1).lab 1 = [] := by decide +kernel
-- a write through the alias `kripke.labels(s)` IS visible in the value: the frame theorems are not vacuous
example : oL0.labelsOf 0 = some 0 ∧ (oL0.value (hL0.addTo 0 "x")).lab 0 = ["x", "p"] := by decide +kernel
-- a history of three calls on the same object
def callsL0 : List (LCall Nat) :=
  [(.ctls, oL0, none, .A (.G (.E (.F (.X (.ap "p")))))),
   (.ctl, oL0, some [[0]], .E (.G (.ap "p"))),
   (.ctls, oL0, some [[1]], .E (.and [.G (.F (.ap "p")), .G (.F (.not (.ap "p")))]))]
-- twelve sets allocated (three clones), ten writes, none below the original mark 2
example : (hL0.run callsL0).1.mark = 14 ∧ (hL0.run callsL0).1.log = [13, 12, 13, 12, 9, 8, 5, 4, 5, 4] := by
  decide +kernel
example : (hL0.run callsL0).2 = [.ok [0, 1], .ok [0], .ok [0, 1]] := by decide +kernel
example : oL0.value (hL0.run callsL0).1 = oL0.value hL0 :=
  history_frame_labels hL0 callsL0 (by
    intro c hc
    simp only [callsL0, List.mem_cons, List.not_mem_nil, or_false] at hc
    rcases hc with rfl | rfl | rfl <;> exact ⟨oL0_live, oL0_wf⟩) oL0 oL0_live

#print axioms clone_deep
#print axioms ctls_writes_only_fresh
#print axioms ctls_old_sets_unchanged
#print axioms ctls_frame_labels
#print axioms ctls_answer_is_pure
#print axioms ctlF_writes_only_fresh
#print axioms ctlF_frame_labels
#print axioms ctlF_answer_is_pure
#print axioms ltlF_writes_only_fresh
#print axioms ltlF_frame_labels
#print axioms ltlF_answer_is_pure
#print axioms ctlsF_writes_only_fresh
#print axioms ctlsF_frame_labels
#print axioms ctlsF_answer_is_pure
#print axioms history_labels
#print axioms history_frame_labels
#print axioms cloneShallow_not_deep
#print axioms shallow_clone_leaks
#print axioms shallow_clone_breaks_frame
#print axioms shallow_clone_leaks_fair
end PMC.C07
