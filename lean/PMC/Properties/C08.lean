/-
  C08 — Constructors, casts and the `modelcheck` guards enforce the documented syntax.

  Every object that can be constructed or cast into CTL (resp. LTL, CTL*, PL) is syntactically a formula of that logic
  as documented; an attempt to build or cast one that is not raises TypeError.  cast_to either returns a formula with
  the same structure in the target logic or raises TypeError.  A modelcheck function given a formula outside its
  logic, a path formula where a state formula is required, or a non-Kripke raises TypeError rather than returning a
  set.

  Model (PMC/Model/Classes.lean): the class lattice is data (`ClassTable`: alphabets, the operand class every
  constructor hands to `wrap_subformulas`, the `issubclass` facts); `construct`, `castTo`, `constructMixed` and the
  three guards run the constructors / `cast_to` / the `isinstance` tests of `modelcheck` over that data.
  `refTable` is the lattice as it is supposed to be; the theorems below are about `refTable`, for all trees of any
  depth (ranked operators: `Fm`); `table_ok` is the generated obligation, re-checked on every run, that the table
  extracted from the live code (harness/extract/classes.py → PMC/Generated/ClassTable.lean) *is* `refTable`.
  "Syntactically a formula of M as documented" is `Fm.inLogic M` (PMC/Model/Syntax.lean).

  Exact characterisations (correspondence check harness/validate_classes.py, 0 mismatches):
  * `CTL.modelcheck` casts an object that is not a `CTL.Formula` to CTL; passes iff the tree is a CTL state formula;
  * `LTL.modelcheck` casts CTL- and CTL*-module objects to LTL first (so `CTL.A(CTL.X(p))`, whose tree `A X p` is an
    LTL formula, is accepted); LTL-, CTL- and CTL*-module objects pass iff `A` over an LTL path formula; a PL-module
    object is rejected (it is not a `CTLS.Formula`, hence not cast, and not a `CTLS.A`; no PL tree has the form `A g`);
  * `CTLS.modelcheck` casts an object that is not a `CTLS.Formula` (every PL-module object: `PL.Formula` is a base
    class of `CTLS.Formula`, not a subclass) to CTL*; passes iff the tree is a CTL* state formula.
  Outside the ranked trees (not expressible in `Fm`, reported by the validation script): no constructor except
  CTL/CTL* `A`/`E` checks the number of operands (`PL.Not('p','q')`, `CTLS.X()` build without error).
-/
import PMC.Proofs.Classes
import PMC.Generated.ClassTable
namespace PMC.C08
open PMC Fm Classes

/-! ### the generated obligation -/

/-- the class lattice of the live code is the reference lattice -/
theorem table_ok : generatedTable = refTable := by decide

/-! ### construction -/

theorem construct_sound (M : Logic) (f : Fm) (h : construct refTable M f = .ok ()) : inLogic M f = true :=
  (build_ok_iff M _ f).mp h

theorem construct_complete (M : Logic) (f : Fm) (h : inLogic M f = true) : construct refTable M f = .ok () :=
  (build_ok_iff M _ f).mpr h

theorem construct_rejects (M : Logic) (f : Fm) (h : inLogic M f = false) :
    construct refTable M f = .error .typeError ∨ construct refTable M f = .error .attributeError := by
  obtain ⟨x, hx⟩ := build_not_ok M .attributeError f h
  rcases build_error M _ f x hx with rfl | rfl
  · exact Or.inl hx
  · exact Or.inr hx

/-- `AttributeError` only when the tree uses an operator the module does not have (`getattr(M, name)` fails) -/
theorem construct_rejects_typeError (M : Logic) (f : Fm) (hops : opsIn M f = true) (h : inLogic M f = false) :
    construct refTable M f = .error .typeError := by
  obtain ⟨x, hx⟩ := build_not_ok M .attributeError f h
  rw [show construct refTable M f = build refTable M .attributeError f from rfl, hx,
    build_error_opsIn M _ f x hops hx]

/-- the same statements for the table extracted from the code -/
theorem construct_generated_iff (M : Logic) (f : Fm) :
    construct generatedTable M f = .ok () ↔ inLogic M f = true := by
  rw [table_ok]; exact build_ok_iff M _ f

/-! ### `cast_to` (the structure of the result is the structure of the source by construction of the model; that the
    real `cast_to` returns the same tree is observed by the correspondence check) -/

theorem castTo_sound (Mfrom Mto : Logic) (f : Fm) (h : castTo refTable Mfrom Mto f = .ok ()) :
    inLogic Mto f = true :=
  (build_ok_iff Mto _ f).mp h

theorem castTo_complete (Mfrom Mto : Logic) (f : Fm) (h : inLogic Mto f = true) :
    castTo refTable Mfrom Mto f = .ok () :=
  (build_ok_iff Mto _ f).mpr h

theorem castTo_rejects (Mfrom Mto : Logic) (f : Fm) (h : inLogic Mto f = false) :
    castTo refTable Mfrom Mto f = .error .typeError := by
  obtain ⟨x, hx⟩ := build_not_ok Mto .typeError f h
  rw [show castTo refTable Mfrom Mto f = build refTable Mto .typeError f from rfl, hx]
  rcases build_error Mto _ f x hx with rfl | rfl <;> rfl

/-- an object of `Mfrom` casts into `Mto` exactly when its tree is a formula of `Mto` -/
theorem castTo_iff (Mfrom Mto : Logic) (f : Fm) :
    castTo refTable Mfrom Mto f = .ok () ↔ inLogic Mto f = true :=
  build_ok_iff Mto _ f

/-! ### the `modelcheck` guards, for an object with tree `f` built in module `Mobj` -/

/-- `A` applied to an LTL path formula -/
def isAofLTLPath : Fm → Bool
  | .A g => g.isLTLPath
  | _ => false

theorem guardCTL_eq (Mobj : Logic) (f : Fm) (k : Bool) (hb : construct refTable Mobj f = .ok ()) :
    guardCTL refTable Mobj f k = if k && f.isCTLState then .ok () else .error .typeError :=
  Classes.guardCTL_eq Mobj f k (fun h => by subst h; exact construct_sound _ f hb)

theorem guardCTL_passes_iff (Mobj : Logic) (f : Fm) (k : Bool) (hb : construct refTable Mobj f = .ok ()) :
    guardCTL refTable Mobj f k = .ok () ↔ k = true ∧ f.isCTLState = true := by
  rw [guardCTL_eq Mobj f k hb]
  cases k <;> cases f.isCTLState <;> simp

theorem guardCTL_rejects (Mobj : Logic) (f : Fm) (k : Bool) (hb : construct refTable Mobj f = .ok ())
    (h : ¬ (k = true ∧ f.isCTLState = true)) : guardCTL refTable Mobj f k = .error .typeError := by
  rw [guardCTL_eq Mobj f k hb]
  cases k <;> cases hs : f.isCTLState <;> simp_all

theorem guardLTL_eq (Mobj : Logic) (f : Fm) (k : Bool) (hb : construct refTable Mobj f = .ok ()) :
    guardLTL refTable Mobj f k =
      if k && (Mobj != .PL) && isAofLTLPath f then .ok () else .error .typeError := by
  rw [Classes.guardLTL_eq Mobj f k (construct_sound _ f hb)]
  cases f <;> rfl

theorem guardLTL_passes_iff (Mobj : Logic) (f : Fm) (k : Bool) (hb : construct refTable Mobj f = .ok ()) :
    guardLTL refTable Mobj f k = .ok () ↔ k = true ∧ Mobj ≠ .PL ∧ ∃ g, f = .A g ∧ g.isLTLPath = true := by
  rw [guardLTL_eq Mobj f k hb]
  cases k <;> cases Mobj <;> cases f <;> simp [isAofLTLPath]

theorem guardLTL_rejects (Mobj : Logic) (f : Fm) (k : Bool) (hb : construct refTable Mobj f = .ok ())
    (h : ¬ (k = true ∧ Mobj ≠ .PL ∧ ∃ g, f = .A g ∧ g.isLTLPath = true)) :
    guardLTL refTable Mobj f k = .error .typeError := by
  have h' := mt (guardLTL_passes_iff Mobj f k hb).mp h
  rw [guardLTL_eq Mobj f k hb] at h' ⊢
  split
  · rename_i hc; rw [if_pos hc] at h'; exact absurd rfl h'
  · rfl

theorem guardCTLS_eq (Mobj : Logic) (f : Fm) (k : Bool) (hb : construct refTable Mobj f = .ok ()) :
    guardCTLS refTable Mobj f k = if k && f.isCTLSState then .ok () else .error .typeError :=
  Classes.guardCTLS_eq Mobj f k (construct_sound _ f hb)

theorem guardCTLS_passes_iff (Mobj : Logic) (f : Fm) (k : Bool) (hb : construct refTable Mobj f = .ok ()) :
    guardCTLS refTable Mobj f k = .ok () ↔ k = true ∧ f.isCTLSState = true := by
  rw [guardCTLS_eq Mobj f k hb]
  cases k <;> cases f.isCTLSState <;> simp

theorem guardCTLS_rejects (Mobj : Logic) (f : Fm) (k : Bool) (hb : construct refTable Mobj f = .ok ())
    (h : ¬ (k = true ∧ f.isCTLSState = true)) : guardCTLS refTable Mobj f k = .error .typeError := by
  have h' := mt (guardCTLS_passes_iff Mobj f k hb).mp h
  rw [guardCTLS_eq Mobj f k hb] at h' ⊢
  split
  · rename_i hc; rw [if_pos hc] at h'; exact absurd rfl h'
  · rfl

/-- a first argument that is not a Kripke structure is a `TypeError` in all three checkers -/
theorem guards_nonKripke (Mobj : Logic) (f : Fm) (hb : construct refTable Mobj f = .ok ()) :
    guardCTL refTable Mobj f false = .error .typeError ∧ guardLTL refTable Mobj f false = .error .typeError ∧
      guardCTLS refTable Mobj f false = .error .typeError := by
  rw [guardCTL_eq _ _ _ hb, guardLTL_eq _ _ _ hb, guardCTLS_eq _ _ _ hb]
  simp

/-- the property as stated: whatever passes the guards of `CTL.modelcheck` (`LTL`, `CTLS`) is, as a tree, a CTL state
    formula (`A` over an LTL path formula, a CTL* state formula) and the first argument is a Kripke structure;
    everything else is a `TypeError` -/
theorem guards_sound (Mobj : Logic) (f : Fm) (k : Bool) (hb : construct refTable Mobj f = .ok ()) :
    (guardCTL refTable Mobj f k = .ok () ∨ guardCTL refTable Mobj f k = .error .typeError) ∧
    (guardLTL refTable Mobj f k = .ok () ∨ guardLTL refTable Mobj f k = .error .typeError) ∧
    (guardCTLS refTable Mobj f k = .ok () ∨ guardCTLS refTable Mobj f k = .error .typeError) ∧
    (guardCTL refTable Mobj f k = .ok () → k = true ∧ f.isCTLState = true) ∧
    (guardLTL refTable Mobj f k = .ok () → k = true ∧ isAofLTLPath f = true) ∧
    (guardCTLS refTable Mobj f k = .ok () → k = true ∧ f.isCTLSState = true) := by
  rw [guardCTL_eq _ _ _ hb, guardLTL_eq _ _ _ hb, guardCTLS_eq _ _ _ hb]
  refine ⟨?_, ?_, ?_, ?_, ?_, ?_⟩
  · split <;> simp
  · split <;> simp
  · split <;> simp
  · cases k <;> cases f.isCTLState <;> simp
  · cases k <;> cases (Mobj != Logic.PL) <;> cases isAofLTLPath f <;> simp
  · cases k <;> cases f.isCTLSState <;> simp

/-! ### non-vacuity -/

example : construct refTable .LTL (.X (.A (.ap "p"))) = .error .typeError := by decide
example : construct refTable .LTL (.A (.X (.ap "p"))) = .ok () := by decide
example : construct refTable .LTL (.E (.X (.ap "p"))) = .error .attributeError := by decide
example : construct refTable .CTL (.A (.X (.ap "p"))) = .ok () := by decide
example : construct refTable .CTL (.A (.ap "p")) = .error .typeError := by decide
example : construct refTable .CTL (.not (.X (.ap "p"))) = .error .typeError := by decide
example : construct refTable .CTL (.X (.X (.ap "p"))) = .error .typeError := by decide
example : construct refTable .CTLS (.X (.A (.X (.X (.ap "p"))))) = .ok () := by decide
example : construct refTable .PL (.imp (.ap "p") (.or [.tt, .ap "q"])) = .ok () := by decide
example : construct refTable .PL (.X (.ap "p")) = .error .attributeError := by decide
example : castTo refTable .CTLS .PL (.X (.ap "p")) = .error .typeError := by decide
example : castTo refTable .CTLS .CTL (.A (.U (.ap "p") (.E (.G (.ap "q"))))) = .ok () := by decide
example : castTo refTable .CTLS .LTL (.A (.U (.ap "p") (.E (.G (.ap "q"))))) = .error .typeError := by decide
example : constructMixed refTable .CTL "A" [(.LTL, .X (.ap "p"))] = .ok () := by decide
example : constructMixed refTable .CTL "And" [(.LTL, .X (.ap "p")), (.CTL, .tt)] = .error .typeError := by decide
example : constructMixed refTable .LTL "E" [(.LTL, .ap "p")] = .error .attributeError := by decide
example : guardCTL refTable .LTL (.A (.X (.ap "p"))) true = .ok () := by decide
example : guardCTL refTable .CTL (.X (.ap "p")) true = .error .typeError := by decide
example : guardCTL refTable .PL (.ap "p") true = .ok () := by decide
example : guardCTLS refTable .PL (.ap "p") true = .ok () := by decide
example : guardCTLS refTable .PL (.imp (.ap "p") (.or [.tt, .ap "q"])) false = .error .typeError := by decide
example : guardCTLS refTable .CTLS (.and [.A (.X (.ap "p")), .ap "q"]) true = .ok () := by decide
example : guardCTLS refTable .CTLS (.X (.ap "p")) true = .error .typeError := by decide
example : guardCTL refTable .CTL (.A (.X (.ap "p"))) false = .error .typeError := by decide
/-- the same tree `A X p`: accepted from the LTL, CTL* and CTL modules -/
example : guardLTL refTable .LTL (.A (.X (.ap "p"))) true = .ok () ∧
    guardLTL refTable .CTLS (.A (.X (.ap "p"))) true = .ok () ∧
    guardLTL refTable .CTL (.A (.X (.ap "p"))) true = .ok () := by
  refine ⟨?_, ?_, ?_⟩
  · rw [guardLTL_eq _ _ _ (by decide)]; rfl
  · rw [guardLTL_eq _ _ _ (by decide)]; rfl
  · rw [guardLTL_eq _ _ _ (by decide)]; rfl

/-- a PL-module object, a CTL* state formula that is not an LTL formula, a CTL formula that is not `A` over an LTL path
    formula: rejected by `LTL.modelcheck` -/
example : guardLTL refTable .PL (.ap "p") true = .error .typeError ∧
    guardLTL refTable .CTLS (.A (.X (.E (.X (.ap "p"))))) true = .error .typeError ∧
    guardLTL refTable .CTL (.A (.X (.A (.X (.ap "p"))))) true = .error .typeError := by
  refine ⟨?_, ?_, ?_⟩
  · rw [guardLTL_eq _ _ _ (by decide)]; rfl
  · rw [guardLTL_eq _ _ _ (by decide)]; rfl
  · rw [guardLTL_eq _ _ _ (by decide)]; rfl

#print axioms table_ok
#print axioms construct_sound
#print axioms construct_complete
#print axioms construct_rejects
#print axioms construct_rejects_typeError
#print axioms castTo_sound
#print axioms castTo_complete
#print axioms castTo_rejects
#print axioms guardCTL_eq
#print axioms guardLTL_eq
#print axioms guardCTLS_eq
#print axioms guards_nonKripke
#print axioms guards_sound
end PMC.C08
