/-
  C08 (continued) — the rest of the public formula API builds nothing the constructors would not build.

  Model: PMC/Model/FormulaApi.lean.  `f & g`, `g & f`, `f | g`, `g | f`, `~f` call `And` / `Or` / `Not` of the language
  module of the formula whose method runs; the CTL shortcuts `AX … ER` are two nested constructor calls in the CTL
  module; every constructor call is `wrap_subformulas` over the class table (`wrap1`: one step of
  `Classes.mixedOperands` for a formula object; a `str` / `bool` shorthand is turned into a leaf of the constructor's
  module and tested like an object; any other value is an exception).  For the reference lattice `refTable`, with
  operands that are genuine objects (`Operand.wellBuilt`: the tree of a formula object is a formula of the module it was
  built in):

  * `new1_ok_iff`, `new2_ok_iff` — a constructor call on ANY mixture of operands (objects of the four modules, `str`,
    `bool`, other values) succeeds exactly when the tree it would build is a formula of the constructor's module, and
    that tree is the result; `new1_in_logic`, `new2_in_logic`: never a formula outside the logic; `new1_error`,
    `new2_error`: otherwise `TypeError` — `AttributeError` exactly when the module has no such class or an operand has no
    `__desc__` (`f & 3`);
  * `shorthand_as_object` — `'p'` / `True` behave like `M.AtomicProposition('p')` / `M.Bool(True)`;
    `quantifier_rejects_shorthand`: `CTL.A('p')`, `CTL.E(True)` are `TypeError`s.  (Before the `fix:` of
    PL/language.py they were accepted and built the non-formulas `A p`, `E true`; the first version of this file proved
    that of the first version of the model, and the harness stream FAPI `new` showed it on the code.)
  * `and_ok_iff`, `rand_ok_iff`, `or_ok_iff`, `ror_ok_iff`, `invert_ok_iff` — the operators, as instances; `*_in_logic`,
    `binop_error`, `invert_error`;
  * `shortcut1_ok_iff`, `shortcut2_ok_iff` (all ten shortcuts: `AX_def` … `ER_def`) — `Q(T(psi))` is built exactly when
    the operands are CTL state formulas (objects of any module that cast, or `str`/`bool` shorthands), the result is the
    nested tree and a CTL state formula (`shortcut1_state`, `shortcut2_state`);
  * `clone_eq`, `cloneIn_ok_iff` — `clone()` rebuilds the same tree and succeeds exactly on formulas of the module;
  * `subformula_*` — `subformula(i)` is Python list indexing into the operands: `-n ≤ i < n`, else `IndexError`;
    `TypeError` on atoms and constants; the result is an operand, hence a formula of the same module.
-/
import PMC.Proofs.FormulaApi
import PMC.Properties.C08Mixed
namespace PMC.C08
open PMC Fm Classes FormulaApi

/-! ### constructor calls on arbitrary operands -/

/-- `M.<Class>(a)` succeeds iff the tree it would build is a formula of `M`; that tree is the result -/
theorem new1_ok_iff (M : Logic) (u : Un) (a : Operand) (ha : a.wellBuilt) (t : Fm) :
    new1 refTable M u a = .ok t ↔ ∃ x, a.tree? = some x ∧ t = u.mk x ∧ inLogic M (u.mk x) = true := by
  unfold new1
  rw [← Un.className_mk u .tt, build1_ref M _ (Un.isLeaf_mk u .tt)]
  constructor
  · rintro ⟨ho, x, hx, hacc, rfl⟩
    refine ⟨x, hx, rfl, ?_⟩
    rw [accepts_wellBuilt M _ a x ha hx] at hacc
    rw [inLogic_step M _ (Un.isLeaf_mk u x), Un.children_mk, Un.opIn_mk M u x .tt, ho]
    simp only [List.all_cons, List.all_nil, Bool.and_true, Bool.true_and, Un.childOK_mk M u x .tt]
    exact hacc
  · rintro ⟨x, hx, rfl, hin⟩
    rw [inLogic_step M _ (Un.isLeaf_mk u x), Un.children_mk, Un.opIn_mk M u x .tt] at hin
    simp only [List.all_cons, List.all_nil, Bool.and_true, Bool.and_eq_true, Un.childOK_mk M u x .tt] at hin
    refine ⟨hin.1, x, hx, ?_, rfl⟩
    rw [accepts_wellBuilt M _ a x ha hx, Bool.and_eq_true]
    exact hin.2

/-- `M.<Class>(a, b)` -/
theorem new2_ok_iff (M : Logic) (c : Bin) (a b : Operand) (ha : a.wellBuilt) (hb : b.wellBuilt) (t : Fm) :
    new2 refTable M c a b = .ok t ↔
      ∃ x y, a.tree? = some x ∧ b.tree? = some y ∧ t = c.mk x y ∧ inLogic M (c.mk x y) = true := by
  unfold new2
  rw [← Bin.className_mk c .tt .tt, build2_ref M _ (Bin.isLeaf_mk c .tt .tt)]
  constructor
  · rintro ⟨ho, x, y, hx, hy, h1, h2, rfl⟩
    refine ⟨x, y, hx, hy, rfl, ?_⟩
    rw [accepts_wellBuilt M _ a x ha hx] at h1
    rw [accepts_wellBuilt M _ b y hb hy] at h2
    rw [inLogic_step M _ (Bin.isLeaf_mk c x y), Bin.children_mk, Bin.opIn_mk M c x y .tt .tt, ho]
    simp only [List.all_cons, List.all_nil, Bin.childOK_mk M c x y .tt .tt, h1, h2, Bool.and_self]
  · rintro ⟨x, y, hx, hy, rfl, hin⟩
    rw [inLogic_step M _ (Bin.isLeaf_mk c x y), Bin.children_mk, Bin.opIn_mk M c x y .tt .tt] at hin
    simp only [List.all_cons, List.all_nil, Bool.and_true, Bool.and_eq_true, Bin.childOK_mk M c x y .tt .tt] at hin
    refine ⟨hin.1, x, y, hx, hy, ?_, ?_, rfl⟩
    · rw [accepts_wellBuilt M _ a x ha hx, Bool.and_eq_true]; exact hin.2.1
    · rw [accepts_wellBuilt M _ b y hb hy, Bool.and_eq_true]; exact hin.2.2

/-- the property, for the whole constructor API: whatever a constructor call returns is a formula of its module -/
theorem new1_in_logic (M : Logic) (u : Un) (a : Operand) (ha : a.wellBuilt) (t : Fm)
    (h : new1 refTable M u a = .ok t) : inLogic M t = true := by
  obtain ⟨x, _, rfl, h'⟩ := (new1_ok_iff M u a ha t).mp h; exact h'

theorem new2_in_logic (M : Logic) (c : Bin) (a b : Operand) (ha : a.wellBuilt) (hb : b.wellBuilt) (t : Fm)
    (h : new2 refTable M c a b = .ok t) : inLogic M t = true := by
  obtain ⟨x, y, _, _, rfl, h'⟩ := (new2_ok_iff M c a b ha hb t).mp h; exact h'

/-- exceptions: `AttributeError` when the module has no such class or the operand has no `__desc__`, else `TypeError` -/
theorem new1_error (M : Logic) (u : Un) (a : Operand) (e : Err) (h : new1 refTable M u a = .error e) :
    (opIn M (u.mk .tt) = false ∧ e = .attributeError) ∨ e = .typeError ∨ (e = .attributeError ∧ a = .other) := by
  unfold new1 at h
  rw [← Un.className_mk u .tt] at h
  exact build1_error M _ (Un.isLeaf_mk u .tt) _ _ _ h

theorem new2_error (M : Logic) (c : Bin) (a b : Operand) (e : Err) (h : new2 refTable M c a b = .error e) :
    (opIn M (c.mk .tt .tt) = false ∧ e = .attributeError) ∨ e = .typeError ∨
      (e = .attributeError ∧ (a = .other ∨ b = .other)) := by
  unfold new2 at h
  rw [← Bin.className_mk c .tt .tt] at h
  exact build2_error M _ (Bin.isLeaf_mk c .tt .tt) _ _ _ _ h

/-! ### `str` / `bool` shorthand operands -/

/-- `'p'` is `M.AtomicProposition('p')`, `True` is `M.Bool(True)`: same result, same exception, in every constructor -/
theorem shorthand_as_object (M : Logic) (u : Un) (n : String) (b : Bool) :
    new1 refTable M u (.str n) = new1 refTable M u (.obj M (.ap n)) ∧
    new1 refTable M u (.bool b) = new1 refTable M u (.obj M (boolFm b)) := by
  unfold new1 build1
  constructor
  · cases header refTable M u.name with
    | error e => rfl
    | ok k => simp only [wrap1_str_as_object]
  · cases header refTable M u.name with
    | error e => rfl
    | ok k => simp only [wrap1_bool_as_object]

/-- the CTL quantifiers reject a shorthand (their operand has to be a path formula): `CTL.A('p')`, `CTL.E(True)` -/
theorem quantifier_rejects_shorthand (q : Quant) (a : Operand) (ha : a.isShorthand = true) :
    build1 refTable .CTL q.name q.mk a = .error .typeError := by
  cases q <;> cases a <;> first | rfl | (simp [Operand.isShorthand] at ha)

/-! ### `&`, `|`, `~` -/

theorem andOp_eq_new2 (T : ClassTable) (M : Logic) (f : Fm) (g : Operand) :
    andOp T M f g = new2 T M .and (.obj M f) g ∧ randOp T M f g = new2 T M .and g (.obj M f) ∧
    orOp T M f g = new2 T M .or (.obj M f) g ∧ rorOp T M f g = new2 T M .or g (.obj M f) ∧
    invert T M f = new1 T M .not (.obj M f) := ⟨rfl, rfl, rfl, rfl, rfl⟩

theorem and_call_ok_iff (M : Logic) (a b : Operand) (ha : a.wellBuilt) (hb : b.wellBuilt) (t : Fm) :
    build2 refTable M "And" mkAnd a b = .ok t ↔
      ∃ x y, a.tree? = some x ∧ b.tree? = some y ∧ t = .and [x, y] ∧ inLogic M (.and [x, y]) = true :=
  new2_ok_iff M .and a b ha hb t

theorem or_call_ok_iff (M : Logic) (a b : Operand) (ha : a.wellBuilt) (hb : b.wellBuilt) (t : Fm) :
    build2 refTable M "Or" mkOr a b = .ok t ↔
      ∃ x y, a.tree? = some x ∧ b.tree? = some y ∧ t = .or [x, y] ∧ inLogic M (.or [x, y]) = true :=
  new2_ok_iff M .or a b ha hb t

/-- `f & g` (the method of `f`, an object of `M`) = `M.And(f, g)`: succeeds iff `and [f, g]` is a formula of `M` -/
theorem and_ok_iff (M : Logic) (f : Fm) (g : Operand) (hf : inLogic M f = true) (hg : g.wellBuilt) (t : Fm) :
    andOp refTable M f g = .ok t ↔ ∃ y, g.tree? = some y ∧ t = .and [f, y] ∧ inLogic M (.and [f, y]) = true := by
  unfold andOp
  rw [and_call_ok_iff M (.obj M f) g hf hg]
  simp [Operand.tree?]

/-- `g & f` for a `g` that is no formula (`f.__rand__(g)`) = `M.And(g, f)` -/
theorem rand_ok_iff (M : Logic) (f : Fm) (g : Operand) (hf : inLogic M f = true) (hg : g.wellBuilt) (t : Fm) :
    randOp refTable M f g = .ok t ↔ ∃ y, g.tree? = some y ∧ t = .and [y, f] ∧ inLogic M (.and [y, f]) = true := by
  unfold randOp
  rw [and_call_ok_iff M g (.obj M f) hg hf]
  simp [Operand.tree?]

theorem or_ok_iff (M : Logic) (f : Fm) (g : Operand) (hf : inLogic M f = true) (hg : g.wellBuilt) (t : Fm) :
    orOp refTable M f g = .ok t ↔ ∃ y, g.tree? = some y ∧ t = .or [f, y] ∧ inLogic M (.or [f, y]) = true := by
  unfold orOp
  rw [or_call_ok_iff M (.obj M f) g hf hg]
  simp [Operand.tree?]

theorem ror_ok_iff (M : Logic) (f : Fm) (g : Operand) (hf : inLogic M f = true) (hg : g.wellBuilt) (t : Fm) :
    rorOp refTable M f g = .ok t ↔ ∃ y, g.tree? = some y ∧ t = .or [y, f] ∧ inLogic M (.or [y, f]) = true := by
  unfold rorOp
  rw [or_call_ok_iff M g (.obj M f) hg hf]
  simp [Operand.tree?]

/-- `~f` = `M.Not(f)`: succeeds iff `not f` is a formula of `M` (fails for a CTL path formula: `~CTL.X('p')`) -/
theorem invert_ok_iff (M : Logic) (f : Fm) (hf : inLogic M f = true) (t : Fm) :
    invert refTable M f = .ok t ↔ t = .not f ∧ inLogic M (.not f) = true := by
  have h := new1_ok_iff M .not (.obj M f) hf t
  simp only [Operand.tree?, Option.some.injEq, exists_eq_left'] at h
  exact h

/-- the operators never yield a formula outside the logic of the receiver -/
theorem and_in_logic (M : Logic) (f : Fm) (g : Operand) (hf : inLogic M f = true) (hg : g.wellBuilt) (t : Fm)
    (h : andOp refTable M f g = .ok t) : inLogic M t = true := by
  obtain ⟨y, _, rfl, h'⟩ := (and_ok_iff M f g hf hg t).mp h; exact h'

theorem rand_in_logic (M : Logic) (f : Fm) (g : Operand) (hf : inLogic M f = true) (hg : g.wellBuilt) (t : Fm)
    (h : randOp refTable M f g = .ok t) : inLogic M t = true := by
  obtain ⟨y, _, rfl, h'⟩ := (rand_ok_iff M f g hf hg t).mp h; exact h'

theorem or_in_logic (M : Logic) (f : Fm) (g : Operand) (hf : inLogic M f = true) (hg : g.wellBuilt) (t : Fm)
    (h : orOp refTable M f g = .ok t) : inLogic M t = true := by
  obtain ⟨y, _, rfl, h'⟩ := (or_ok_iff M f g hf hg t).mp h; exact h'

theorem ror_in_logic (M : Logic) (f : Fm) (g : Operand) (hf : inLogic M f = true) (hg : g.wellBuilt) (t : Fm)
    (h : rorOp refTable M f g = .ok t) : inLogic M t = true := by
  obtain ⟨y, _, rfl, h'⟩ := (ror_ok_iff M f g hf hg t).mp h; exact h'

theorem invert_in_logic (M : Logic) (f : Fm) (hf : inLogic M f = true) (t : Fm)
    (h : invert refTable M f = .ok t) : inLogic M t = true := by
  obtain ⟨rfl, h'⟩ := (invert_ok_iff M f hf t).mp h; exact h'

/-- the exceptions of `&` / `|` (either side): `TypeError`, or `AttributeError` exactly for an operand that has no
    `__desc__` (the `TypeError` message cannot be built: `f & 3`, `None | f`) -/
theorem binop_error (M : Logic) (f : Fm) (g : Operand) (e : Err)
    (h : andOp refTable M f g = .error e ∨ randOp refTable M f g = .error e ∨
      orOp refTable M f g = .error e ∨ rorOp refTable M f g = .error e) :
    e = .typeError ∨ (e = .attributeError ∧ g = .other) := by
  have hand : opIn M (.and []) = true := by cases M <;> rfl
  have hor : opIn M (.or []) = true := by cases M <;> rfl
  rcases h with h | h | h | h
  · rcases build2_error M (.and []) rfl mkAnd _ _ e h with ⟨h1, _⟩ | h1 | ⟨h1, h2 | h2⟩
    · rw [hand] at h1; cases h1
    · exact Or.inl h1
    · cases h2
    · exact Or.inr ⟨h1, h2⟩
  · rcases build2_error M (.and []) rfl mkAnd _ _ e h with ⟨h1, _⟩ | h1 | ⟨h1, h2 | h2⟩
    · rw [hand] at h1; cases h1
    · exact Or.inl h1
    · exact Or.inr ⟨h1, h2⟩
    · cases h2
  · rcases build2_error M (.or []) rfl mkOr _ _ e h with ⟨h1, _⟩ | h1 | ⟨h1, h2 | h2⟩
    · rw [hor] at h1; cases h1
    · exact Or.inl h1
    · cases h2
    · exact Or.inr ⟨h1, h2⟩
  · rcases build2_error M (.or []) rfl mkOr _ _ e h with ⟨h1, _⟩ | h1 | ⟨h1, h2 | h2⟩
    · rw [hor] at h1; cases h1
    · exact Or.inl h1
    · exact Or.inr ⟨h1, h2⟩
    · cases h2

/-- `~f` raises nothing but `TypeError` -/
theorem invert_error (M : Logic) (f : Fm) (e : Err) (h : invert refTable M f = .error e) : e = .typeError := by
  have ho : opIn M (.not .tt) = true := by cases M <;> rfl
  rcases build1_error M (.not .tt) rfl .not _ e h with ⟨h1, _⟩ | h1 | ⟨_, h2⟩
  · rw [ho] at h1; cases h1
  · exact h1
  · cases h2

/-! ### the CTL shortcuts -/

theorem AX_def : AX = fun T => shortcut1 T .A .X := rfl
theorem EX_def : EX = fun T => shortcut1 T .E .X := rfl
theorem AF_def : AF = fun T => shortcut1 T .A .F := rfl
theorem EF_def : EF = fun T => shortcut1 T .E .F := rfl
theorem AG_def : AG = fun T => shortcut1 T .A .G := rfl
theorem EG_def : EG = fun T => shortcut1 T .E .G := rfl
theorem AU_def : AU = fun T => shortcut2 T .A .U := rfl
theorem EU_def : EU = fun T => shortcut2 T .E .U := rfl
theorem AR_def : AR = fun T => shortcut2 T .A .R := rfl
theorem ER_def : ER = fun T => shortcut2 T .E .R := rfl

/-- an operand is a CTL state formula: an object (of any module) whose tree is one, or a `str` / `bool` shorthand -/
def ctlStateOperand (a : Operand) (x : Fm) : Prop := a.tree? = some x ∧ isCTLState x = true

/-- the operand test of a CTL temporal operator on a genuine operand -/
theorem accepts_ctl_state (g : Fm) (hq : quantRoot g = false) (a : Operand) (x : Fm) (hw : a.wellBuilt)
    (hx : a.tree? = some x) : accepts .CTL g a = isCTLState x := by
  rw [accepts_wellBuilt .CTL g a x hw hx, isCTLState_eq x]
  simp [childOK, hq, inLogic]

/-- `AX`, `EX`, `AF`, `EF`, `AG`, `EG`: `Q(T(psi))` is built iff `psi` is a CTL state formula; it is the nested tree -/
theorem shortcut1_ok_iff (q : Quant) (t : Temp1) (psi : Operand) (hw : psi.wellBuilt) (r : Fm) :
    shortcut1 refTable q t psi = .ok r ↔ ∃ x, ctlStateOperand psi x ∧ r = q.mk (t.mk x) := by
  have hg : Classes.isLeaf (t.mk .tt) = false := by cases t <;> rfl
  have hn : className (t.mk .tt) = t.name := by cases t <;> rfl
  have hq : quantRoot (t.mk .tt) = false := by cases t <;> rfl
  have hgq : Classes.isLeaf (q.mk .tt) = false := by cases q <;> rfl
  have hnq : className (q.mk .tt) = q.name := by cases q <;> rfl
  have inner : ∀ y, build1 refTable .CTL t.name t.mk psi = .ok y ↔ ∃ x, ctlStateOperand psi x ∧ y = t.mk x := by
    intro y
    rw [← hn, build1_ref .CTL _ hg]
    simp only [opIn, true_and, ctlStateOperand]
    constructor
    · rintro ⟨x, hx, ha, rfl⟩
      exact ⟨x, ⟨hx, by rw [← accepts_ctl_state _ hq psi x hw hx]; exact ha⟩, rfl⟩
    · rintro ⟨x, ⟨hx, hs⟩, rfl⟩
      exact ⟨x, hx, by rw [accepts_ctl_state _ hq psi x hw hx]; exact hs, rfl⟩
  have outer : ∀ x, build1 refTable .CTL q.name q.mk (.obj .CTL (t.mk x)) = .ok r ↔ r = q.mk (t.mk x) := by
    intro x
    rw [← hnq, build1_ref .CTL _ hgq]
    have : accepts .CTL (q.mk .tt) (.obj .CTL (t.mk x)) = true := by cases q <;> cases t <;> rfl
    simp [opIn, Operand.tree?, this]
  unfold shortcut1
  cases hb : build1 refTable .CTL t.name t.mk psi with
  | error e =>
    have : ∀ x, ¬ ctlStateOperand psi x := fun x hx => by
      have := (inner (t.mk x)).mpr ⟨x, hx, rfl⟩
      rw [this] at hb; cases hb
    simp only [reduceCtorEq, false_iff, not_exists, not_and]
    exact fun x hx _ => this x hx
  | ok y =>
    obtain ⟨x, hx, rfl⟩ := (inner y).mp hb
    simp only [outer]
    constructor
    · rintro rfl; exact ⟨x, hx, rfl⟩
    · rintro ⟨x', hx', rfl⟩
      have : x' = x := by
        have h1 := hx'.1; rw [hx.1] at h1; injection h1 with h1; exact h1.symm
      rw [this]

/-- `AU`, `EU`, `AR`, `ER` -/
theorem shortcut2_ok_iff (q : Quant) (t : Temp2) (psi phi : Operand) (hw : psi.wellBuilt) (hw' : phi.wellBuilt) (r : Fm) :
    shortcut2 refTable q t psi phi = .ok r ↔
      ∃ x y, ctlStateOperand psi x ∧ ctlStateOperand phi y ∧ r = q.mk (t.mk x y) := by
  have hg : Classes.isLeaf (t.mk .tt .tt) = false := by cases t <;> rfl
  have hn : className (t.mk .tt .tt) = t.name := by cases t <;> rfl
  have hq : quantRoot (t.mk .tt .tt) = false := by cases t <;> rfl
  have hgq : Classes.isLeaf (q.mk .tt) = false := by cases q <;> rfl
  have hnq : className (q.mk .tt) = q.name := by cases q <;> rfl
  have inner : ∀ z, build2 refTable .CTL t.name t.mk psi phi = .ok z ↔
      ∃ x y, ctlStateOperand psi x ∧ ctlStateOperand phi y ∧ z = t.mk x y := by
    intro z
    rw [← hn, build2_ref .CTL _ hg]
    simp only [opIn, true_and, ctlStateOperand]
    constructor
    · rintro ⟨x, y, hx, hy, ha, hb, rfl⟩
      exact ⟨x, y, ⟨hx, by rw [← accepts_ctl_state _ hq psi x hw hx]; exact ha⟩,
        ⟨hy, by rw [← accepts_ctl_state _ hq phi y hw' hy]; exact hb⟩, rfl⟩
    · rintro ⟨x, y, ⟨hx, hs⟩, ⟨hy, hs'⟩, rfl⟩
      exact ⟨x, y, hx, hy, by rw [accepts_ctl_state _ hq psi x hw hx]; exact hs,
        by rw [accepts_ctl_state _ hq phi y hw' hy]; exact hs', rfl⟩
  have outer : ∀ x y, build1 refTable .CTL q.name q.mk (.obj .CTL (t.mk x y)) = .ok r ↔ r = q.mk (t.mk x y) := by
    intro x y
    rw [← hnq, build1_ref .CTL _ hgq]
    have : accepts .CTL (q.mk .tt) (.obj .CTL (t.mk x y)) = true := by cases q <;> cases t <;> rfl
    simp [opIn, Operand.tree?, this]
  unfold shortcut2
  cases hb : build2 refTable .CTL t.name t.mk psi phi with
  | error e =>
    have : ∀ x y, ¬ (ctlStateOperand psi x ∧ ctlStateOperand phi y) := fun x y hxy => by
      have := (inner (t.mk x y)).mpr ⟨x, y, hxy.1, hxy.2, rfl⟩
      rw [this] at hb; cases hb
    simp only [reduceCtorEq, false_iff, not_exists, not_and]
    exact fun x y hx hy _ => this x y ⟨hx, hy⟩
  | ok z =>
    obtain ⟨x, y, hx, hy, rfl⟩ := (inner z).mp hb
    simp only [outer]
    constructor
    · rintro rfl; exact ⟨x, y, hx, hy, rfl⟩
    · rintro ⟨x', y', hx', hy', rfl⟩
      have e1 : x' = x := by
        have h1 := hx'.1; rw [hx.1] at h1; injection h1 with h1; exact h1.symm
      have e2 : y' = y := by
        have h1 := hy'.1; rw [hy.1] at h1; injection h1 with h1; exact h1.symm
      rw [e1, e2]

/-- what a shortcut returns is a CTL state formula -/
theorem shortcut1_state (q : Quant) (t : Temp1) (psi : Operand) (hw : psi.wellBuilt) (r : Fm)
    (h : shortcut1 refTable q t psi = .ok r) : isCTLState r = true ∧ inLogic .CTL r = true := by
  obtain ⟨x, ⟨_, hx⟩, rfl⟩ := (shortcut1_ok_iff q t psi hw r).mp h
  have : isCTLState (q.mk (t.mk x)) = isCTLState x := by cases q <;> cases t <;> rfl
  exact ⟨this ▸ hx, isCTL_of_isCTLState _ (this ▸ hx)⟩

theorem shortcut2_state (q : Quant) (t : Temp2) (psi phi : Operand) (hw : psi.wellBuilt) (hw' : phi.wellBuilt) (r : Fm)
    (h : shortcut2 refTable q t psi phi = .ok r) : isCTLState r = true ∧ inLogic .CTL r = true := by
  obtain ⟨x, y, ⟨_, hx⟩, ⟨_, hy⟩, rfl⟩ := (shortcut2_ok_iff q t psi phi hw hw' r).mp h
  have : isCTLState (q.mk (t.mk x y)) = (isCTLState x && isCTLState y) := by cases q <;> cases t <;> rfl
  have h2 : isCTLState (q.mk (t.mk x y)) = true := by rw [this, hx, hy]; rfl
  exact ⟨h2, isCTL_of_isCTLState _ h2⟩

/-- the exceptions of the shortcuts: `TypeError`, or `AttributeError` exactly for an operand without `__desc__` -/
theorem shortcut1_error (q : Quant) (t : Temp1) (psi : Operand) (e : Err) (h : shortcut1 refTable q t psi = .error e) :
    e = .typeError ∨ (e = .attributeError ∧ psi = .other) := by
  have hg : Classes.isLeaf (t.mk .tt) = false := by cases t <;> rfl
  have hn : className (t.mk .tt) = t.name := by cases t <;> rfl
  have hgq : Classes.isLeaf (q.mk .tt) = false := by cases q <;> rfl
  have hnq : className (q.mk .tt) = q.name := by cases q <;> rfl
  unfold shortcut1 at h
  cases hb : build1 refTable .CTL t.name t.mk psi with
  | error x =>
    rw [hb] at h
    injection h with h
    subst h
    rw [← hn] at hb
    rcases build1_error .CTL _ hg _ _ _ hb with ⟨h1, _⟩ | h1 | h1
    · cases h1
    · exact Or.inl h1
    · exact Or.inr h1
  | ok y =>
    rw [hb] at h
    simp only at h
    rw [← hnq] at h
    rcases build1_error .CTL _ hgq _ _ _ h with ⟨h1, _⟩ | h1 | ⟨_, h2⟩
    · cases h1
    · exact Or.inl h1
    · cases h2

theorem shortcut2_error (q : Quant) (t : Temp2) (psi phi : Operand) (e : Err)
    (h : shortcut2 refTable q t psi phi = .error e) :
    e = .typeError ∨ (e = .attributeError ∧ (psi = .other ∨ phi = .other)) := by
  have hg : Classes.isLeaf (t.mk .tt .tt) = false := by cases t <;> rfl
  have hn : className (t.mk .tt .tt) = t.name := by cases t <;> rfl
  have hgq : Classes.isLeaf (q.mk .tt) = false := by cases q <;> rfl
  have hnq : className (q.mk .tt) = q.name := by cases q <;> rfl
  unfold shortcut2 at h
  cases hb : build2 refTable .CTL t.name t.mk psi phi with
  | error x =>
    rw [hb] at h
    injection h with h
    subst h
    rw [← hn] at hb
    rcases build2_error .CTL _ hg _ _ _ _ hb with ⟨h1, _⟩ | h1 | h1
    · cases h1
    · exact Or.inl h1
    · exact Or.inr h1
  | ok y =>
    rw [hb] at h
    simp only at h
    rw [← hnq] at h
    rcases build1_error .CTL _ hgq _ _ _ h with ⟨h1, _⟩ | h1 | ⟨_, h2⟩
    · cases h1
    · exact Or.inl h1
    · cases h2

/-! ### `clone()` -/

theorem cloneList_eq_map (fs : List Fm) : clone.cloneList fs = fs.map clone := by
  induction fs with
  | nil => rfl
  | cons f fs ih => simp [clone.cloneList, ih]

/-- `clone()` rebuilds the same tree -/
theorem clone_eq (f : Fm) : clone f = f := by
  induction f using Fm.induct' with
  | tt => rfl
  | ff => rfl
  | ap n => rfl
  | not f ih => simp [clone, ih]
  | or fs ih =>
    simp only [clone, cloneList_eq_map]
    congr 1
    exact (List.map_congr_left ih).trans (List.map_id _)
  | and fs ih =>
    simp only [clone, cloneList_eq_map]
    congr 1
    exact (List.map_congr_left ih).trans (List.map_id _)
  | imp f g ihf ihg => simp [clone, ihf, ihg]
  | X f ih => simp [clone, ih]
  | F f ih => simp [clone, ih]
  | G f ih => simp [clone, ih]
  | U f g ihf ihg => simp [clone, ihf, ihg]
  | R f g ihf ihg => simp [clone, ihf, ihg]
  | A f ih => simp [clone, ih]
  | E f ih => simp [clone, ih]

/-- `obj.clone()` succeeds exactly on formulas of the object's module, and returns the same tree -/
theorem cloneIn_ok_iff (M : Logic) (f t : Fm) : cloneIn refTable M f = .ok t ↔ t = f ∧ inLogic M f = true := by
  unfold cloneIn
  cases hc : construct refTable M f with
  | ok u =>
    cases u
    have := construct_sound M f hc
    simp only [Except.ok.injEq, clone_eq, this, and_true]
    exact eq_comm
  | error e =>
    have : ¬ inLogic M f = true := fun h => by rw [construct_complete M f h] at hc; cases hc
    simp [this]

theorem cloneIn_ok (M : Logic) (f : Fm) (h : inLogic M f = true) : cloneIn refTable M f = .ok f :=
  (cloneIn_ok_iff M f f).mpr ⟨rfl, h⟩

/-- an object whose tree is not a formula of its module could not be cloned (`TypeError`; `AttributeError` cannot occur
    for an object whose classes exist) — by `new1_in_logic` / `new2_in_logic` no such object can be built -/
theorem cloneIn_error (M : Logic) (f : Fm) (hops : opsIn M f = true) (h : inLogic M f = false) :
    cloneIn refTable M f = .error .typeError := by
  unfold cloneIn
  rw [construct_rejects_typeError M f hops h]

/-! ### `subformula(i)`, `subformulas()` -/

theorem subformulas_eq_children (f : Fm) : subformulas f = Classes.children f := kids_eq_children f

/-- atoms and Boolean constants: `TypeError`, whatever the index -/
theorem subformula_leaf (f : Fm) (i : Int) (h : FormulaApi.isLeaf f = true) : subformula f i = .error .typeError := by
  unfold subformula; rw [h]; rfl

/-- `0 ≤ i < n`: the `i`-th operand -/
theorem subformula_nat (f : Fm) (n : Nat) (hl : FormulaApi.isLeaf f = false) (h : n < (subformulas f).length) :
    subformula f (n : Int) = .ok (subformulas f)[n] := by
  unfold subformula
  rw [hl]
  exact pyIndex_nat (kids f) n h

/-- `-n ≤ i < 0`: counted from the end, `subformula(-1)` is the last operand -/
theorem subformula_neg (f : Fm) (k : Nat) (hl : FormulaApi.isLeaf f = false) (h : k < (subformulas f).length) :
    subformula f (-((k + 1 : Nat) : Int)) = .ok ((subformulas f)[(subformulas f).length - 1 - k]'(by omega)) := by
  unfold subformula
  rw [hl]
  exact pyIndex_neg (kids f) k h

/-- outside `-n ≤ i < n`: `IndexError` -/
theorem subformula_indexError_iff (f : Fm) (i : Int) (hl : FormulaApi.isLeaf f = false) :
    subformula f i = .error .indexError ↔ i < -((subformulas f).length : Int) ∨ ((subformulas f).length : Int) ≤ i := by
  constructor
  · intro h
    rcases index_cases (subformulas f).length i with ⟨n, hn, rfl⟩ | ⟨k, hk, rfl⟩ | h'
    · rw [subformula_nat f n hl hn] at h; cases h
    · rw [subformula_neg f k hl hk] at h; cases h
    · exact h'
  · intro h
    unfold subformula
    rw [hl]
    exact pyIndex_out (kids f) i h

/-- the only exceptions are `TypeError` (a leaf) and `IndexError` -/
theorem subformula_error_classes (f : Fm) (i : Int) (e : Err) (h : subformula f i = .error e) :
    (e = .typeError ∧ FormulaApi.isLeaf f = true) ∨ (e = .indexError ∧ FormulaApi.isLeaf f = false) := by
  cases hl : FormulaApi.isLeaf f
  · right
    refine ⟨?_, rfl⟩
    rcases index_cases (subformulas f).length i with ⟨n, hn, rfl⟩ | ⟨k, hk, rfl⟩ | h'
    · rw [subformula_nat f n hl hn] at h; cases h
    · rw [subformula_neg f k hl hk] at h; cases h
    · rw [(subformula_indexError_iff f i hl).mpr h'] at h
      injection h with h; exact h.symm
  · rw [subformula_leaf f i hl] at h
    injection h with h
    exact Or.inl ⟨h.symm, rfl⟩

/-- what `subformula(i)` returns is one of the operands … -/
theorem subformula_mem (f : Fm) (i : Int) (g : Fm) (h : subformula f i = .ok g) : g ∈ subformulas f := by
  cases hl : FormulaApi.isLeaf f
  · rcases index_cases (subformulas f).length i with ⟨n, hn, rfl⟩ | ⟨k, hk, rfl⟩ | h'
    · rw [subformula_nat f n hl hn] at h
      injection h with h
      subst h
      exact List.getElem_mem hn
    · rw [subformula_neg f k hl hk] at h
      injection h with h
      subst h
      exact List.getElem_mem _
    · rw [(subformula_indexError_iff f i hl).mpr h'] at h; cases h
  · rw [subformula_leaf f i hl] at h; cases h

/-- … hence a formula of the same logic -/
theorem subformula_in_logic (M : Logic) (f : Fm) (i : Int) (g : Fm) (hf : inLogic M f = true)
    (h : subformula f i = .ok g) : inLogic M g = true := by
  have hm := subformula_mem f i g h
  rw [subformulas_eq_children] at hm
  have hl : Classes.isLeaf f = false := by
    rw [← isLeaf_eq]
    cases hl : FormulaApi.isLeaf f
    · rfl
    · rw [subformula_leaf f i hl] at h; cases h
  rw [inLogic_step M f hl, Bool.and_eq_true, List.all_eq_true] at hf
  have := hf.2 g hm
  simp only [Bool.and_eq_true] at this
  exact this.1

/-! ### non-vacuity -/

/-- `PL.p & CTL.X(p)` is a `TypeError` (the cast to PL fails), `CTL.X(p) & PL.p` too (a CTL path formula under `And`) -/
example : andOp refTable .PL (.ap "p") (.obj .CTL (.X (.ap "p"))) = .error .typeError ∧
    andOp refTable .CTL (.X (.ap "p")) (.obj .PL (.ap "p")) = .error .typeError := by
  refine ⟨?_, ?_⟩ <;> rfl
/-- `LTL.X(p) & PL.p` is built in LTL, `PL.p & LTL.p` in PL: the receiver's module -/
example : andOp refTable .LTL (.X (.ap "p")) (.obj .PL (.ap "p")) = .ok (.and [.X (.ap "p"), .ap "p"]) ∧
    andOp refTable .PL (.ap "p") (.obj .LTL (.ap "p")) = .ok (.and [.ap "p", .ap "p"]) := by
  refine ⟨?_, ?_⟩ <;> rfl
/-- `True & f`, `f | 'q'`, `f & 3` -/
example : randOp refTable .CTL (.ap "p") (.bool true) = .ok (.and [.tt, .ap "p"]) ∧
    orOp refTable .CTL (.ap "p") (.str "q") = .ok (.or [.ap "p", .ap "q"]) ∧
    andOp refTable .CTL (.ap "p") .other = .error .attributeError := by
  refine ⟨?_, ?_, ?_⟩ <;> rfl
/-- `~CTL.X(p)` is rejected, `~LTL.X(p)` is not -/
example : invert refTable .CTL (.X (.ap "p")) = .error .typeError ∧
    invert refTable .LTL (.X (.ap "p")) = .ok (.not (.X (.ap "p"))) := by
  refine ⟨?_, ?_⟩ <;> rfl
/-- `AX('q')`, `AU(PL.p, CTLS.A(CTLS.X(p)))`, `AX(LTL.X(p))` -/
example : AX refTable (.str "q") = .ok (.A (.X (.ap "q"))) ∧
    AU refTable (.obj .PL (.ap "p")) (.obj .CTLS (.A (.X (.ap "p")))) = .ok (.A (.U (.ap "p") (.A (.X (.ap "p"))))) ∧
    AX refTable (.obj .LTL (.X (.ap "p"))) = .error .typeError := by
  refine ⟨?_, ?_, ?_⟩ <;> rfl
/-- `CTL.A('p')` is rejected like `CTL.A(CTL.AtomicProposition('p'))`; `LTL.A('p')`, `CTLS.E(True)` are fine; PL has no `X` -/
example : new1 refTable .CTL .A (.str "p") = .error .typeError ∧
    new1 refTable .CTL .A (.obj .CTL (.ap "p")) = .error .typeError ∧
    new1 refTable .LTL .A (.str "p") = .ok (.A (.ap "p")) ∧ new1 refTable .CTLS .E (.bool true) = .ok (.E .tt) ∧
    new1 refTable .PL .X (.str "p") = .error .attributeError := by
  refine ⟨?_, ?_, ?_, ?_, ?_⟩ <;> rfl
/-- `And(p, q, r)`: `subformula(-3) = subformula(0) = p`, `subformula(3)` and `subformula(-4)` raise `IndexError` -/
example : subformula (.and [.ap "p", .ap "q", .ap "r"]) (-3) = .ok (.ap "p") ∧
    subformula (.and [.ap "p", .ap "q", .ap "r"]) 0 = .ok (.ap "p") ∧
    subformula (.and [.ap "p", .ap "q", .ap "r"]) 3 = .error .indexError ∧
    subformula (.and [.ap "p", .ap "q", .ap "r"]) (-4) = .error .indexError ∧
    subformula (.ap "p") 0 = .error .typeError := by
  refine ⟨?_, ?_, ?_, ?_, ?_⟩ <;> rfl

#print axioms and_ok_iff
#print axioms rand_ok_iff
#print axioms or_ok_iff
#print axioms ror_ok_iff
#print axioms invert_ok_iff
#print axioms binop_error
#print axioms shortcut1_ok_iff
#print axioms shortcut2_ok_iff
#print axioms shortcut1_state
#print axioms shortcut2_error
#print axioms new1_ok_iff
#print axioms new2_ok_iff
#print axioms new2_error
#print axioms shorthand_as_object
#print axioms quantifier_rejects_shorthand
#print axioms clone_eq
#print axioms cloneIn_ok_iff
#print axioms subformula_indexError_iff
#print axioms subformula_in_logic
end PMC.C08
