/-
  C08 (continued) — constructor calls whose operands are objects of *other* language modules.

  `Classes.constructMixed T M op children` models `getattr(M, op)(*children)` where child `i` is a formula OBJECT with
  tree `fᵢ` built in module `Mᵢ`: `wrap_subformulas` first casts an operand of a foreign module to `M`
  (`cast_to(M)`, any failure is a `TypeError`) and then applies the `isinstance(operand, FormulaClass)` test.
  For the reference lattice `refTable`:

  * `constructMixed_ok_iff` — success iff `op` is a (non-leaf) class of `M` and every operand casts (when foreign) and
    has the operand class; `constructMixed_ok_iff_ref` is the same statement with the look-ups evaluated
    (`op ∈ refAlphabet M`, operand class `refOperand M op`, cast ⇔ "the tree is a formula of `M`");
  * `constructMixed_ok_iff_tree` — for operands that are objects of their modules, `M.op(children)` is accepted iff
    the *resulting tree* is a formula of `M` (`Fm.inLogic M`): mixed calls build nothing the single-module
    constructors would not build (D11: `PL.Not(CTLS.X(p))` has to be rejected);
  * `constructMixed_error_classes` / `constructMixed_attributeError_iff` — the only exceptions are `TypeError` and
    `AttributeError`, the latter exactly when `M` has no class `op` (a failing cast is a `TypeError` even when it fails
    on an operator that `M` lacks);
  * `constructMixed_same_module` — on operands of `M` itself the call is the root step of `construct`.
-/
import PMC.Proofs.ClassesMixed
import PMC.Properties.C08
namespace PMC.C08
open PMC Fm Classes

/-! ### success -/

/-- `M.op(children)` succeeds iff `op` is in `M`'s alphabet with an operand class `k`, every operand of a foreign module
    casts to `M`, and every operand has class `k` in `M` -/
theorem constructMixed_ok_iff (M : Logic) (op : String) (children : List (Logic × Fm)) :
    constructMixed refTable M op children = .ok () ↔
      refTable.inAlphabet M op = true ∧ ∃ k, refTable.operandKind M op = some k ∧
        ∀ c ∈ children, (c.1 ≠ M → castTo refTable c.1 M c.2 = .ok ()) ∧
          refTable.isSub (M, className c.2) k = true :=
  Classes.constructMixed_ok_iff_gen refTable M op children

/-- the same with the look-ups of the reference table evaluated: `op` is a non-leaf class name of `M`, the operand
    class is `refOperand M op`, and a foreign operand casts iff its tree is a formula of `M` -/
theorem constructMixed_ok_iff_ref (M : Logic) (op : String) (children : List (Logic × Fm)) :
    constructMixed refTable M op children = .ok () ↔
      op ∈ refAlphabet M ∧ isLeafName op = false ∧
        ∀ c ∈ children, (c.1 ≠ M → inLogic M c.2 = true) ∧
          refTable.isSub (M, className c.2) (refOperand M op) = true := by
  rw [constructMixed_ok_iff, inAlphabet_ref_name, operandKind_ref_name]
  simp only [castTo_iff, List.contains_iff_mem]
  constructor
  · rintro ⟨hin, k, hk, hall⟩
    have hc : (refAlphabet M).contains op = true := by simpa using hin
    rw [hc] at hk
    cases hl : isLeafName op
    · rw [hl] at hk
      simp only [Bool.not_false, Bool.and_self, if_true, Option.some.injEq] at hk
      subst hk
      exact ⟨hin, rfl, hall⟩
    · rw [hl] at hk
      simp at hk
  · rintro ⟨hin, hl, hall⟩
    have hc : (refAlphabet M).contains op = true := by simpa using hin
    exact ⟨hin, refOperand M op, by simp [hin, hl], hall⟩

/-- success implies that every operand tree is a formula of `M`, provided every operand is an object of its own module
    (the trees of operands that are `M`-objects already are never re-examined) -/
theorem constructMixed_ok_in_logic (M : Logic) (op : String) (children : List (Logic × Fm))
    (hobj : ∀ c ∈ children, inLogic c.1 c.2 = true)
    (h : constructMixed refTable M op children = .ok ()) : ∀ c ∈ children, inLogic M c.2 = true := by
  intro c hc
  obtain ⟨_, _, _, hall⟩ := (constructMixed_ok_iff M op children).mp h
  by_cases hM : c.1 = M
  · rw [← hM]; exact hobj c hc
  · exact (castTo_iff c.1 M c.2).mp ((hall c hc).1 hM)

/-- foreign operands alone: each of them is a formula of `M` (no hypothesis on the operands) -/
theorem constructMixed_ok_foreign_in_logic (M : Logic) (op : String) (children : List (Logic × Fm))
    (h : constructMixed refTable M op children = .ok ()) : ∀ c ∈ children, c.1 ≠ M → inLogic M c.2 = true := by
  intro c hc hM
  obtain ⟨_, _, _, hall⟩ := (constructMixed_ok_iff M op children).mp h
  exact (castTo_iff c.1 M c.2).mp ((hall c hc).1 hM)

/-- the property as stated for mixed calls: when the operands are objects of their modules, the call that would
    produce the tree `g` — operator `className g`, operand trees `children g`, from any modules — is accepted exactly
    when `g` is a formula of `M` -/
theorem constructMixed_ok_iff_tree (M : Logic) (g : Fm) (hg : isLeaf g = false) (cs : List (Logic × Fm))
    (htree : cs.map Prod.snd = Classes.children g) (hobj : ∀ c ∈ cs, inLogic c.1 c.2 = true) :
    constructMixed refTable M (className g) cs = .ok () ↔ inLogic M g = true := by
  rw [constructMixed_ok_iff, inAlphabet_ref, operandKind_ref M g hg, inLogic_step M g hg, ← htree]
  simp only [castTo_iff, Bool.and_eq_true, List.all_eq_true, List.mem_map, forall_exists_index, and_imp,
    forall_apply_eq_imp_iff₂]
  constructor
  · rintro ⟨ho, k, hk, hall⟩
    rw [ho] at hk
    simp only [if_true, Option.some.injEq] at hk
    subst hk
    refine ⟨ho, fun c hc => ⟨?_, ?_⟩⟩
    · by_cases hM : c.1 = M
      · rw [← hM]; exact hobj c hc
      · exact (hall c hc).1 hM
    · rw [← isSub_ref]; exact (hall c hc).2
  · rintro ⟨ho, hall⟩
    refine ⟨ho, refOperand M (className g), by simp [ho], fun c hc => ⟨fun _ => (hall c hc).1, ?_⟩⟩
    rw [isSub_ref]; exact (hall c hc).2

/-! ### exceptions -/

/-- no class `op` in `M`: `getattr(M, op)` raises `AttributeError` (any class table) -/
theorem constructMixed_not_in_alphabet (T : ClassTable) (M : Logic) (op : String) (children : List (Logic × Fm))
    (h : T.inAlphabet M op = false) : constructMixed T M op children = .error .attributeError := by
  unfold constructMixed; rw [h]; rfl

/-- the class exists: every failure is a `TypeError` (a failing `cast_to` included) -/
theorem constructMixed_typeError (M : Logic) (op : String) (children : List (Logic × Fm)) (e : Err)
    (hin : refTable.inAlphabet M op = true) (h : constructMixed refTable M op children = .error e) :
    e = .typeError := by
  unfold constructMixed at h
  rw [hin] at h
  simp only [if_true] at h
  cases hk : refTable.operandKind M op with
  | none => rw [hk] at h; injection h with h; exact h.symm
  | some k =>
    rw [hk] at h
    rcases mixedOperands_error _ _ _ _ _ h with h | ⟨c, _, _, hc⟩
    · exact h
    · rcases build_error M .typeError c.2 e hc with h | h <;> exact h

/-- the only exceptions are `TypeError` and `AttributeError`; `AttributeError` goes with "no class `op` in `M`" and
    `TypeError` with "the class exists" -/
theorem constructMixed_error_classes (M : Logic) (op : String) (children : List (Logic × Fm)) (e : Err)
    (h : constructMixed refTable M op children = .error e) :
    (e = .typeError ∧ refTable.inAlphabet M op = true) ∨ (e = .attributeError ∧ refTable.inAlphabet M op = false) := by
  cases hin : refTable.inAlphabet M op
  · rw [constructMixed_not_in_alphabet _ M op children hin] at h
    injection h with h
    exact Or.inr ⟨h.symm, rfl⟩
  · exact Or.inl ⟨constructMixed_typeError M op children e hin h, rfl⟩

theorem constructMixed_attributeError_iff (M : Logic) (op : String) (children : List (Logic × Fm)) :
    constructMixed refTable M op children = .error .attributeError ↔ refTable.inAlphabet M op = false := by
  constructor
  · intro h
    rcases constructMixed_error_classes M op children _ h with ⟨h, _⟩ | ⟨_, h⟩
    · cases h
    · exact h
  · exact constructMixed_not_in_alphabet _ M op children

/-- everything that is not accepted although the class exists is a `TypeError` -/
theorem constructMixed_rejects (M : Logic) (op : String) (children : List (Logic × Fm))
    (hin : refTable.inAlphabet M op = true) (h : constructMixed refTable M op children ≠ .ok ()) :
    constructMixed refTable M op children = .error .typeError := by
  cases hc : constructMixed refTable M op children with
  | ok u => cases u; exact absurd hc h
  | error e => rw [constructMixed_typeError M op children e hin hc]

/-! ### operands of the module itself -/

/-- operands that are all `M`-objects: success iff `op` is in the alphabet and every operand has the operand class
    (any class table) -/
theorem constructMixed_same_module_ok_iff (T : ClassTable) (M : Logic) (op : String) (children : List (Logic × Fm))
    (hM : ∀ c ∈ children, c.1 = M) :
    constructMixed T M op children = .ok () ↔
      T.inAlphabet M op = true ∧ ∃ k, T.operandKind M op = some k ∧
        ∀ c ∈ children, T.isSub (M, className c.2) k = true := by
  rw [Classes.constructMixed_ok_iff_gen]
  constructor
  · rintro ⟨h1, k, hk, hall⟩
    exact ⟨h1, k, hk, fun c hc => (hall c hc).2⟩
  · rintro ⟨h1, k, hk, hall⟩
    exact ⟨h1, k, hk, fun c hc => ⟨fun hne => absurd (hM c hc) hne, hall c hc⟩⟩

/-- operands that are all `M`-objects: the call is the alphabet look-up followed by the `isinstance` tests of the
    single-module constructor (`Classes.node`) (any class table) -/
theorem constructMixed_same_module_node (T : ClassTable) (M : Logic) (op : String) (children : List (Logic × Fm))
    (hM : ∀ c ∈ children, c.1 = M) :
    constructMixed T M op children =
      if T.inAlphabet M op then node T M op (children.map (fun c => className c.2)) else .error .attributeError :=
  constructMixed_same T M op children hM

/-- `M.op(children)` on `M`-objects that were themselves built without error is exactly what `construct` does with the
    tree `g = op(children)` (any class table) -/
theorem constructMixed_same_module (T : ClassTable) (M : Logic) (g : Fm) (hg : isLeaf g = false)
    (hk : ∀ f ∈ Classes.children g, construct T M f = .ok ()) :
    constructMixed T M (className g) ((Classes.children g).map (fun f => (M, f))) = construct T M g :=
  constructMixed_eq_construct T M g hg hk

/-! ### non-vacuity -/

/-- D11: `PL.Not(CTLS.X(p))` is rejected with `TypeError` -/
example : constructMixed refTable .PL "Not" [(.CTLS, .X (.ap "p"))] = .error .typeError := by decide
/-- `CTL.Not(PL.p)`: the PL atom is cast to CTL -/
example : constructMixed refTable .CTL "Not" [(.PL, .ap "p")] = .ok () := by decide
/-- no class `X` in PL -/
example : constructMixed refTable .PL "X" [(.PL, .ap "p")] = .error .attributeError := by decide
/-- `LTL.X(CTLS.E(…))`: the cast fails on an operator LTL lacks — still a `TypeError` -/
example : constructMixed refTable .LTL "X" [(.CTLS, .E (.X (.ap "p")))] = .error .typeError := by decide
/-- `CTL.A(LTL.X(p))` accepted, `CTL.A(LTL.p)` rejected (state formula under a quantifier) -/
example : constructMixed refTable .CTL "A" [(.LTL, .X (.ap "p"))] = .ok () ∧
    constructMixed refTable .CTL "A" [(.LTL, .ap "p")] = .error .typeError := by decide
/-- leaf classes are in the alphabet but take no formula operands -/
example : constructMixed refTable .CTL "Bool" [(.CTL, .tt)] = .error .typeError := by decide
/-- D11 through the tree characterisation: the tree `not (X p)` is not a PL formula -/
example : ¬ constructMixed refTable .PL "Not" [(.CTLS, .X (.ap "p"))] = .ok () := fun h =>
  absurd ((constructMixed_ok_iff_tree .PL (.not (.X (.ap "p"))) rfl [(.CTLS, .X (.ap "p"))] rfl (by decide)).mp h)
    (by decide)

#print axioms constructMixed_ok_iff
#print axioms constructMixed_ok_iff_ref
#print axioms constructMixed_ok_in_logic
#print axioms constructMixed_ok_iff_tree
#print axioms constructMixed_typeError
#print axioms constructMixed_error_classes
#print axioms constructMixed_attributeError_iff
#print axioms constructMixed_rejects
#print axioms constructMixed_same_module_ok_iff
#print axioms constructMixed_same_module_node
#print axioms constructMixed_same_module
end PMC.C08
