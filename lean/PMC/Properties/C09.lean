/-
  C09 — Printing then parsing a formula gives back the same formula.

  For every LTL, CTL* and propositional formula f over identifier-style atom names, Parser()(str(f)) is a formula of
  the same logic with exactly the same tree as f; the same holds for every CTL formula when printed in CTL* notation.
  Consequently two formulas with different trees never print identically, which the checkers rely on because they
  memoise and compare formulas by printed form.

  Proved here: the printed language is uniquely decodable — a deterministic decoder `unprint` recovers the tree from
  the printed text (`unprint_print`), hence printing is injective, in the CTL* notation (PL, LTL, CTL*, and CTL printed
  through CTL*) and in CTL's own notation (`AX p`, `A(p U q)`; used by ==, hash and the CTL memo table).
  Not proved: that Lark's LALR(1) parser computes the same decoding; that is tied by the correspondence check
  (real parser and the table-driven Lean parser of C10 on `str(f)` for every formula of the small scope).
-/
import PMC.Proofs.PrintInj
namespace PMC.C09
open PMC PMC.PrintDecode

/-- the printed text determines the tree: decoding the print of `f` (followed by nothing) returns `f` -/
theorem decode_print (f : Fm) (hf : f.wfAtoms = true) (af : f.arityOK = true) :
    ∃ fuel, unprint false fuel f.print.toList = some (f, []) := by
  refine ⟨depth f, ?_⟩
  have h := unprint_print false f (fun c => by cases c) hf af (depth f) (Nat.le_refl _) [] Bnd.nil
  rwa [List.append_nil, ← print_toList] at h

/-- the same for CTL's own notation, on CTL formulas -/
theorem decodeCTL_print (f : Fm) (cf : f.isCTL = true) (hf : f.wfAtoms = true) (af : f.arityOK = true) :
    ∃ fuel, unprint true fuel f.printCTL.toList = some (f, []) := by
  refine ⟨depth f, ?_⟩
  have h := unprint_print true f (fun _ => cf) hf af (depth f) (Nat.le_refl _) [] Bnd.nil
  rwa [List.append_nil, ← printCTL_toList] at h

/-- two formulas with different trees never print identically (CTL* notation) -/
theorem print_injective (f g : Fm) (hf : f.wfAtoms = true) (hg : g.wfAtoms = true)
    (af : f.arityOK = true) (ag : g.arityOK = true) (h : f.print = g.print) : f = g :=
  PMC.print_injective f g hf hg af ag h

/-- … nor in CTL's own notation -/
theorem printCTL_injective (f g : Fm) (cf : f.isCTL = true) (cg : g.isCTL = true)
    (hf : f.wfAtoms = true) (hg : g.wfAtoms = true) (af : f.arityOK = true) (ag : g.arityOK = true)
    (h : f.printCTL = g.printCTL) : f = g :=
  PMC.printCTL_injective f g cf cg hf hg af ag h

/-- the hypotheses are needed -/
example : (Fm.ap "not p").print = (Fm.not (.ap "p")).print := by decide
example : (Fm.A (.ap "Xy")).printCTL = (Fm.ap "AXy").printCTL := by decide

#print axioms decode_print
#print axioms decodeCTL_print
#print axioms print_injective
#print axioms printCTL_injective
end PMC.C09
