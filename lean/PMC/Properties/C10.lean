/-
  C10 — For every input string, a logic's Parser either returns a formula of exactly that logic or raises
  UnexpectedToken / UnexpectedCharacters whose position lies within the input; it never raises another exception
  type, never returns a formula of a different logic, and never accepts a string that the documented grammar of that
  logic excludes (e.g. `A F G q` for CTL, `E …` for LTL).

  Object: `Parser.parse T s` (PMC/Model/Parser.lean), the table-driven model of Lark's LALR(1) parser with the
  contextual lexer and the `Transformer` callbacks; `T` ranges over ALL tables unless a theorem names one of the four
  generated ones (`tablesPL`, `tablesCTL`, `tablesLTL`, `tablesCTLS`, PMC/Generated/Grammar.lean, regenerated from
  the live Lark objects on every run).  Helpers and definitions: PMC/Proofs/ParserSound.lean.

  Proved here
  * (1)(2) `error_kinds_and_positions`, `unexpectedToken_pos`, `unexpectedCharacters_pos`, `error_kinds`: every error
    of `parse T s` is `unexpectedToken p` or `unexpectedCharacters p` with `p ≤ s.length` — sharper
    (`error_pos_strict`): `p < s.length`, the index of a character of `s`, except `p = 0` on the empty input —, or one
    of the model's internal errors `runtimeError` / `indexError`; no other constructor of `Err`.
  * (3) `accept_sound`: whatever the action table says, `parse T s = .ok f` implies that a symbol `x` with a goto from
    the start state into the accept state derives — by the RULES of `T` (`Derives`: terminals derive one token of
    their type, a rule derives the concatenation of what its right-hand side derives, value by `children` + `callback`
    or spliced, as `reduce` computes it) — a token sequence `toks` with value `f`, and `toks` is a lexing of the whole
    input (`Lexes T 0 s toks`: every piece of `s` is, at the head of what remains, a match of a terminal of `T` — an
    ignored one for the gaps; a token's type is that terminal's name or the name of a literal terminal with exactly the
    token's text; positions are character indices; `lexes_text` spells out the consequence for the text).
    Needs the cheap table check `acceptOK T` (accept is entered only from the start state, nothing leads back to the
    start state) — `accept_ok_*` for the generated tables; `accept_sound_gen` is the version without it.
  * (4) `typing_table_sound` (once, for all logics), the per-grammar obligations `grammar_ok_PL/CTL/LTL/CTLS` (Boolean
    checks of the generated rules against the sort assignment `ntSort` and the typing table `cbTable`; re-checked
    by the kernel whenever the grammars change), `derives_in_logic`, and `parse_in_logic_PL/CTL/LTL/CTLS`.
    Consequences: `ctl_A_over_path`, `ctl_rejects_AFGq`, `ctl_A_F_G`, `ltl_never_E`, `ltl_rejects_E_p`.
  * (5) non-vacuity examples at the end.

  Not proved (not part of this file's claims): that `Lexes` is the *unique* tokenisation Lark's contextual lexer
  produces (the relation allows any terminal of the table at each piece, not only the first one in the lexer's order
  among those acceptable in the current LALR state) and completeness of the parser w.r.t. the grammar.
  That the internal errors never occur with the generated tables is proved in PMC/Properties/C10Total.lean.
-/
import PMC.Proofs.ParserSound
import PMC.Generated.Grammar
namespace PMC.C10
open PMC PMC.Parser

/-! ### (1), (2) errors -/

/-- every error of every table-driven parser is of an allowed kind, at a position of the input -/
theorem error_kinds_and_positions (T : Tables) (s : List Char) (e : Err) (h : parse T s = .error e) :
    Err.okFor s.length e :=
  parse_error T s e h

theorem unexpectedToken_pos (T : Tables) (s : List Char) (p : Nat) (h : parse T s = .error (.unexpectedToken p)) :
    p ≤ s.length := by
  have : p < s.length ∨ p = 0 := parse_error T s _ h
  omega

theorem unexpectedCharacters_pos (T : Tables) (s : List Char) (p : Nat)
    (h : parse T s = .error (.unexpectedCharacters p)) : p ≤ s.length :=
  Nat.le_of_lt (parse_error T s _ h : p < s.length)

/-- sharper: the position is the index of a character of the input, except on the empty input (position 0) -/
theorem error_pos_strict (T : Tables) (s : List Char) (p : Nat)
    (h : parse T s = .error (.unexpectedToken p) ∨ parse T s = .error (.unexpectedCharacters p)) :
    p < s.length ∨ (s = [] ∧ p = 0) := by
  rcases h with h | h
  · have : p < s.length ∨ p = 0 := parse_error T s _ h
    cases s with
    | nil => exact Or.inr ⟨rfl, by simpa using this⟩
    | cons c cs => left; simp only [List.length_cons] at this ⊢; omega
  · exact Or.inl (parse_error T s _ h)

/-- no other exception type -/
theorem error_kinds (T : Tables) (s : List Char) (e : Err) (h : parse T s = .error e) :
    (∃ p, e = .unexpectedToken p) ∨ (∃ p, e = .unexpectedCharacters p) ∨ e = .runtimeError ∨ e = .indexError := by
  have := parse_error T s e h
  cases e <;> simp_all [Err.okFor]

/-! ### (3) acceptance is sound w.r.t. the rules of the table -/

/-- without any assumption on the table: the accepted formula is derived from a symbol with a goto into the accept
    state, over the last tokens `t₂` of a lexing `t₁ ++ t₂` of the input (`t₁`: what the entries below derive) -/
theorem accept_sound_gen (T : Tables) (s : List Char) (f : Fm) (h : parse T s = .ok f) :
    ∃ (below : List Entry) (x : String) (t₁ t₂ : List Token),
      DerivesSeq T (below.reverse.map (·.sym)) t₁ (below.reverse.map (·.val)) ∧
      Derives T x t₂ (.item (.fm f)) ∧ x ∈ T.startSyms ∧ Lexes T 0 s (t₁ ++ t₂) := by
  obtain ⟨below, x, t₁, t₂, hb, hx, hact, _, hl⟩ := parse_ok_gen T s f h
  exact ⟨below, x, t₁, t₂, hb, hx, mem_startSyms hact, hl⟩

theorem accept_sound (T : Tables) (hT : acceptOK T = true) (s : List Char) (f : Fm) (h : parse T s = .ok f) :
    ∃ (x : String) (toks : List Token),
      T.action T.start x = some (.shift T.accept) ∧ Derives T x toks (.item (.fm f)) ∧ Lexes T 0 s toks :=
  parse_ok T hT s f h

/-- a lexing cuts the text: `s` is the token texts in order, separated by skipped text, at the tokens' positions -/
theorem lexes_text (T : Tables) (s : List Char) (toks : List Token) (h : Lexes T 0 s toks) : Cut 0 s toks :=
  h.cut

theorem accept_ok_PL : acceptOK tablesPL = true := by decide +kernel
theorem accept_ok_CTL : acceptOK tablesCTL = true := by decide +kernel
theorem accept_ok_LTL : acceptOK tablesLTL = true := by decide +kernel
theorem accept_ok_CTLS : acceptOK tablesCTLS = true := by decide +kernel

/-- in the four generated tables the only symbol leading to acceptance is `formula` -/
theorem start_syms :
    tablesPL.startSyms = ["formula"] ∧ tablesCTL.startSyms = ["formula"] ∧
    tablesLTL.startSyms = ["formula"] ∧ tablesCTLS.startSyms = ["formula"] := by decide +kernel

/-! ### (4) well-sorted grammars return formulas of their logic -/

/-- soundness of the typing table of the callbacks, all logics at once -/
theorem typing_table_sound (M : Logic) (name : String) (A R : Srt) (kids : List Item) (i : Item)
    (hc : cbType M name = some (A, R)) (hk : ∀ k ∈ kids, A.holds k = true ∨ Srt.tok.holds k = true)
    (h : callback name kids = .ok i) : R.holds i = true :=
  cbType_sound hc hk h

/-- THE OBLIGATIONS RE-CHECKED WHEN THE GRAMMARS CHANGE -/
theorem grammar_ok_PL : grammarOK .PL tablesPL = true := by decide +kernel
theorem grammar_ok_CTL : grammarOK .CTL tablesCTL = true := by decide +kernel
theorem grammar_ok_LTL : grammarOK .LTL tablesLTL = true := by decide +kernel
theorem grammar_ok_CTLS : grammarOK .CTLS tablesCTLS = true := by decide +kernel

/-- the checks discriminate: the CTL* grammar is not a CTL or LTL grammar, the LTL grammar is not a CTL grammar -/
example : grammarOK .CTL tablesCTLS = false ∧ grammarOK .LTL tablesCTLS = false ∧
    grammarOK .CTL tablesLTL = false ∧ grammarOK .PL tablesCTL = false := by decide +kernel

theorem derives_in_logic (M : Logic) (T : Tables) (hG : grammarOK M T = true) (x : String) (hx : x ∈ T.startSyms)
    (toks : List Token) (f : Fm) (h : Derives T x toks (.item (.fm f))) : Fm.inLogic M f = true :=
  derives_inLogic hG hx h

theorem parse_in_logic (M : Logic) (T : Tables) (hG : grammarOK M T = true) (s : List Char) (f : Fm)
    (h : parse T s = .ok f) : Fm.inLogic M f = true :=
  parse_inLogic hG h

theorem parse_in_logic_PL (s : List Char) (f : Fm) (h : parse tablesPL s = .ok f) : Fm.inLogic .PL f = true :=
  parse_inLogic grammar_ok_PL h

theorem parse_in_logic_CTL (s : List Char) (f : Fm) (h : parse tablesCTL s = .ok f) : Fm.inLogic .CTL f = true :=
  parse_inLogic grammar_ok_CTL h

theorem parse_in_logic_LTL (s : List Char) (f : Fm) (h : parse tablesLTL s = .ok f) : Fm.inLogic .LTL f = true :=
  parse_inLogic grammar_ok_LTL h

theorem parse_in_logic_CTLS (s : List Char) (f : Fm) (h : parse tablesCTLS s = .ok f) :
    Fm.inLogic .CTLS f = true :=
  parse_inLogic grammar_ok_CTLS h

/-- CTL: a quantifier returned by the parser stands directly over exactly one temporal operator whose operands are
    state formulas — never over a non-temporal operand, never over nested temporal operators -/
theorem ctl_A_over_path (s : List Char) (g : Fm)
    (h : parse tablesCTL s = .ok (.A g) ∨ parse tablesCTL s = .ok (.E g)) : isCTLPath g = true := by
  rcases h with h | h <;>
  · have := parse_in_logic_CTL s _ h
    cases g <;> simp_all [Fm.inLogic, Fm.isCTL, Fm.isCTLState, isCTLPath]

/-- … in particular no input at all is parsed by the CTL parser as the CTL* formula `A F G q` -/
theorem ctl_rejects_AFGq (s : List Char) : parse tablesCTL s ≠ .ok (.A (.F (.G (.ap "q")))) := by
  intro h
  have := parse_in_logic_CTL s _ h
  simp [Fm.inLogic, Fm.isCTL, Fm.isCTLState] at this

set_option maxRecDepth 100000 in
/-- the string `A F G q` itself is a syntax error at the `q` … -/
theorem ctl_A_F_G_q : parse tablesCTL "A F G q".toList = .error (.unexpectedToken 6) := by rfl

set_option maxRecDepth 100000 in
/-- … because `A F G` is `AF` of the ATOM named `G` -/
theorem ctl_A_F_G : parse tablesCTL "A F G".toList = .ok (.A (.F (.ap "G"))) := by rfl

set_option maxRecDepth 100000 in
/-- whereas the CTL* parser reads the nesting -/
example : parse tablesCTLS "A F G q".toList = .ok (.A (.F (.G (.ap "q")))) := by rfl

/-- LTL: the parser never returns an `E` formula, nor an `A` anywhere but at the root -/
theorem ltl_never_E (s : List Char) (g : Fm) : parse tablesLTL s ≠ .ok (.E g) := by
  intro h
  have := parse_in_logic_LTL s _ h
  simp [Fm.inLogic, Fm.isLTL, Fm.isLTLPath] at this

theorem ltl_A_only_at_root (s : List Char) (f : Fm) (h : parse tablesLTL s = .ok f) :
    f.isLTLPath = true ∨ ∃ g, f = .A g ∧ g.isLTLPath = true := by
  have := parse_in_logic_LTL s _ h
  cases f <;> simp_all [Fm.inLogic, Fm.isLTL]

set_option maxRecDepth 100000 in
/-- `E p`: `E` is not a keyword of the LTL grammar, it is read as an atom, and the `p` (position 2) is unexpected -/
theorem ltl_rejects_E_p : parse tablesLTL "E p".toList = .error (.unexpectedToken 2) := by rfl

/-! ### (5) non-vacuity -/

section examples
set_option maxRecDepth 100000

example : parse tablesPL "p & (q --> ~r)".toList =
    .ok (.and [.ap "p", .imp (.ap "q") (.not (.ap "r"))]) := by rfl
example : parse tablesPL "\"a b\" or true".toList = .ok (.or [.ap "a b", .tt]) := by rfl
example : parse tablesCTL "A(p U E X q)".toList = .ok (.A (.U (.ap "p") (.E (.X (.ap "q"))))) := by rfl
example : parse tablesCTL "X p".toList = .ok (.X (.ap "p")) := by rfl
example : parse tablesLTL "A G(p --> F q)".toList = .ok (.A (.G (.imp (.ap "p") (.F (.ap "q"))))) := by rfl
example : parse tablesLTL "p U X q".toList = .ok (.U (.ap "p") (.X (.ap "q"))) := by rfl
example : parse tablesCTLS "E(p U A X q)".toList = .ok (.E (.U (.ap "p") (.A (.X (.ap "q"))))) := by rfl

/-- UnexpectedToken at a token, at `$END` (position of the last token shifted), and on the empty input -/
example : parse tablesPL "p q".toList = .error (.unexpectedToken 2) := by rfl
example : parse tablesPL "p and".toList = .error (.unexpectedToken 2) := by rfl
example : parse tablesPL "".toList = .error (.unexpectedToken 0) := by rfl
example : parse tablesCTL "A p".toList = .error (.unexpectedToken 2) := by rfl
example : parse tablesLTL "A A p".toList = .error (.unexpectedToken 4) := by rfl
/-- UnexpectedCharacters -/
example : parse tablesPL "p $".toList = .error (.unexpectedCharacters 2) := by rfl
example : parse tablesCTLS "p #".toList = .error (.unexpectedCharacters 2) := by rfl
/-- only ignored text: `$END` is unexpected, reported at 0 since nothing was shifted -/
example : parse tablesPL " ".toList = .error (.unexpectedToken 0) := by rfl

end examples

#print axioms error_kinds_and_positions
#print axioms error_kinds
#print axioms unexpectedToken_pos
#print axioms unexpectedCharacters_pos
#print axioms error_pos_strict
#print axioms accept_sound
#print axioms accept_sound_gen
#print axioms lexes_text
#print axioms typing_table_sound
#print axioms grammar_ok_PL
#print axioms grammar_ok_CTL
#print axioms grammar_ok_LTL
#print axioms grammar_ok_CTLS
#print axioms derives_in_logic
#print axioms parse_in_logic_PL
#print axioms parse_in_logic_CTL
#print axioms parse_in_logic_LTL
#print axioms parse_in_logic_CTLS
#print axioms ctl_A_over_path
#print axioms ctl_rejects_AFGq
#print axioms ctl_A_F_G
#print axioms ltl_never_E
#print axioms ltl_rejects_E_p
end PMC.C10
