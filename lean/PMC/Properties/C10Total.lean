/-
  C10, "… it never raises another exception type" — for the model: with the generated tables `Parser.parse` never
  returns one of its INTERNAL errors (`Err.runtimeError`: inconsistent table, callback applied to children it is not
  defined on, fuel exhausted; `Err.indexError`: `subformula[0]` on an empty child list).

  Object: `Parser.parse T s` (PMC/Model/Parser.lean).  Helpers and definitions: PMC/Proofs/ParserTotal.lean
  (on top of PMC/Proofs/ParserSound.lean).

  General theorem (`no_internal_error`, for ANY table `T` and logic `M`):
      grammarOK M T = true → tableOK M T = true → parse T s ≠ .error .runtimeError ∧ parse T s ≠ .error .indexError
  where `grammarOK` is the sort check of C10.lean and `tableOK M T = lexOK T && lrOK T && unitOK T && callbacksOK M T`
  is a Boolean check of the table alone:
  * `lexOK T`   no terminal pattern matches the empty string: the lexer's fuel (|input| + 1) is never exhausted, and
                every token consumes at least one character;
  * `lrOK T`    LR consistency, by a bounded backward search over the transitions of the table (`predTable`): for every
                entry `reduce r` of a state `q`: rule `r` exists, its right-hand side `X1…Xk` is not empty, every path
                of `k` transitions into `q` spells `X1…Xk` and cannot be cut short by the bottom of the stack, and
                the state at the origin of the path has a goto on the rule's origin; and no entry shifts on `$END`.
                Invariant of `run`: the stack is a path of the automaton from `T.start` (`PathOK`);
  * `unitOK T`  the unit productions are acyclic: the rank `urank T x` (height of `x` in the graph of unit rules, read
                off `T.rules`, at most `|rules|`) decreases strictly from the right-hand side to the origin of every
                rule with one symbol.  Potential of `run`:
                `(2·(|rest| + [lookahead present]) + |stack|)·(|rules| + 2) + urank (top symbol)` decreases at every
                step and is below `fuelFor T |s|` initially: the fuel of `run` is never exhausted;
  * `callbacksOK M T`  for every non-inline rule, the shapes of the children handed to its `Transformer` callback —
                read off the right-hand side with the sort assignment `symTy M T` of `grammarOK` (one item per kept
                symbol, a list per inline helper, nothing for filtered-out tokens) — are shapes on which the callback
                is defined: a leading kept token for `string` / `e_string`, at least one child for the pass-through
                methods, exactly one / two formulas for the unary / binary operators, only formulas for `or` / `and`.
                Invariant of `run`: every stack value has the type of its symbol (`EntryTyped`); at acceptance the
                value is a formula because `grammarOK` gives the start symbols a formula sort.
  The four obligations `table_ok_*` are discharged by `decide +kernel` (a few seconds each) and are re-checked
  whenever the grammars change; nothing about today's grammars is used beyond `ntSort` / `cbTable` of `grammarOK`.

  Consequences: `parse_no_internal_error_PL/CTL/LTL/CTLS`, `parse_only_parser_errors_PL/CTL/LTL/CTLS`,
  `parse_result_PL/CTL/LTL/CTLS` (a formula of the logic, or one of the two parser errors at a position of the input).
  The checks are not vacuous: tables failing each of them, three of which do produce the internal error, at the end.
-/
import PMC.Proofs.ParserTotal
import PMC.Properties.C10
namespace PMC.C10
open PMC PMC.Parser

/-! ### the general theorems -/

/-- no error of a checked table-driven parser is internal -/
theorem no_internal_error (M : Logic) (T : Tables) (hG : grammarOK M T = true) (hT : tableOK M T = true)
    (s : List Char) : parse T s ≠ .error .runtimeError ∧ parse T s ≠ .error .indexError :=
  parse_no_internal_error hG hT s

/-- the driver never runs out of fuel, more generally: from any configuration whose stack is a typed path of the
    automaton, `run` with more fuel than the potential `pot` does not end with an internal error -/
theorem run_no_internal_error (M : Logic) (T : Tables) (hG : grammarOK M T = true) (hT : tableOK M T = true)
    (fuel : Nat) (c : Config) (e : Err) (h : run T fuel c = .error e) (hpath : PathOK T c.stack)
    (htyped : ∀ en ∈ c.stack, EntryTyped M T en) (hlook : ∀ t, c.look = some t → t.type ∈ T.termNames)
    (hfuel : pot T c < fuel) : e ≠ .runtimeError ∧ e ≠ .indexError := by
  have := run_total hG hT fuel c e h hpath htyped hlook hfuel
  exact ⟨fun h => this (Or.inl h), fun h => this (Or.inr h)⟩

/-- a checked parser returns a formula or raises `UnexpectedToken` / `UnexpectedCharacters` within the input -/
theorem only_parser_errors (M : Logic) (T : Tables) (hG : grammarOK M T = true) (hT : tableOK M T = true)
    (s : List Char) :
    (∃ f, parse T s = .ok f) ∨
    ∃ p, p ≤ s.length ∧ (parse T s = .error (.unexpectedToken p) ∨ parse T s = .error (.unexpectedCharacters p)) :=
  parse_only_parser_errors hG hT s

/-! ### THE OBLIGATIONS RE-CHECKED WHEN THE GRAMMARS CHANGE -/

theorem table_ok_PL : tableOK .PL tablesPL = true := by decide +kernel
theorem table_ok_CTL : tableOK .CTL tablesCTL = true := by decide +kernel
theorem table_ok_LTL : tableOK .LTL tablesLTL = true := by decide +kernel
theorem table_ok_CTLS : tableOK .CTLS tablesCTLS = true := by decide +kernel

/-! ### the four parsers -/

theorem parse_no_internal_error_PL (s : List Char) :
    parse tablesPL s ≠ .error .runtimeError ∧ parse tablesPL s ≠ .error .indexError :=
  parse_no_internal_error grammar_ok_PL table_ok_PL s

theorem parse_no_internal_error_CTL (s : List Char) :
    parse tablesCTL s ≠ .error .runtimeError ∧ parse tablesCTL s ≠ .error .indexError :=
  parse_no_internal_error grammar_ok_CTL table_ok_CTL s

theorem parse_no_internal_error_LTL (s : List Char) :
    parse tablesLTL s ≠ .error .runtimeError ∧ parse tablesLTL s ≠ .error .indexError :=
  parse_no_internal_error grammar_ok_LTL table_ok_LTL s

theorem parse_no_internal_error_CTLS (s : List Char) :
    parse tablesCTLS s ≠ .error .runtimeError ∧ parse tablesCTLS s ≠ .error .indexError :=
  parse_no_internal_error grammar_ok_CTLS table_ok_CTLS s

theorem parse_only_parser_errors_PL (s : List Char) :
    (∃ f, parse tablesPL s = .ok f) ∨
    ∃ p, p ≤ s.length ∧
      (parse tablesPL s = .error (.unexpectedToken p) ∨ parse tablesPL s = .error (.unexpectedCharacters p)) :=
  parse_only_parser_errors grammar_ok_PL table_ok_PL s

theorem parse_only_parser_errors_CTL (s : List Char) :
    (∃ f, parse tablesCTL s = .ok f) ∨
    ∃ p, p ≤ s.length ∧
      (parse tablesCTL s = .error (.unexpectedToken p) ∨ parse tablesCTL s = .error (.unexpectedCharacters p)) :=
  parse_only_parser_errors grammar_ok_CTL table_ok_CTL s

theorem parse_only_parser_errors_LTL (s : List Char) :
    (∃ f, parse tablesLTL s = .ok f) ∨
    ∃ p, p ≤ s.length ∧
      (parse tablesLTL s = .error (.unexpectedToken p) ∨ parse tablesLTL s = .error (.unexpectedCharacters p)) :=
  parse_only_parser_errors grammar_ok_LTL table_ok_LTL s

theorem parse_only_parser_errors_CTLS (s : List Char) :
    (∃ f, parse tablesCTLS s = .ok f) ∨
    ∃ p, p ≤ s.length ∧
      (parse tablesCTLS s = .error (.unexpectedToken p) ∨ parse tablesCTLS s = .error (.unexpectedCharacters p)) :=
  parse_only_parser_errors grammar_ok_CTLS table_ok_CTLS s

/-- C10 in one statement, for a checked table: a formula of the logic, or one of the two parser errors at a position
    of the input — nothing else -/
theorem parse_result (M : Logic) (T : Tables) (hG : grammarOK M T = true) (hT : tableOK M T = true) (s : List Char) :
    (∃ f, parse T s = .ok f ∧ Fm.inLogic M f = true) ∨
    ∃ p, p ≤ s.length ∧ (parse T s = .error (.unexpectedToken p) ∨ parse T s = .error (.unexpectedCharacters p)) := by
  rcases parse_only_parser_errors hG hT s with ⟨f, hf⟩ | h
  · exact Or.inl ⟨f, hf, parse_inLogic hG hf⟩
  · exact Or.inr h

theorem parse_result_PL (s : List Char) :
    (∃ f, parse tablesPL s = .ok f ∧ Fm.inLogic .PL f = true) ∨
    ∃ p, p ≤ s.length ∧
      (parse tablesPL s = .error (.unexpectedToken p) ∨ parse tablesPL s = .error (.unexpectedCharacters p)) :=
  parse_result .PL tablesPL grammar_ok_PL table_ok_PL s

theorem parse_result_CTL (s : List Char) :
    (∃ f, parse tablesCTL s = .ok f ∧ Fm.inLogic .CTL f = true) ∨
    ∃ p, p ≤ s.length ∧
      (parse tablesCTL s = .error (.unexpectedToken p) ∨ parse tablesCTL s = .error (.unexpectedCharacters p)) :=
  parse_result .CTL tablesCTL grammar_ok_CTL table_ok_CTL s

theorem parse_result_LTL (s : List Char) :
    (∃ f, parse tablesLTL s = .ok f ∧ Fm.inLogic .LTL f = true) ∨
    ∃ p, p ≤ s.length ∧
      (parse tablesLTL s = .error (.unexpectedToken p) ∨ parse tablesLTL s = .error (.unexpectedCharacters p)) :=
  parse_result .LTL tablesLTL grammar_ok_LTL table_ok_LTL s

theorem parse_result_CTLS (s : List Char) :
    (∃ f, parse tablesCTLS s = .ok f ∧ Fm.inLogic .CTLS f = true) ∨
    ∃ p, p ≤ s.length ∧
      (parse tablesCTLS s = .error (.unexpectedToken p) ∨ parse tablesCTLS s = .error (.unexpectedCharacters p)) :=
  parse_result .CTLS tablesCTLS grammar_ok_CTLS table_ok_CTLS s

/-! ### the checks discriminate, and the internal errors are real for unchecked tables -/

section examples
set_option maxRecDepth 100000

/-- rule numbers off by one: the reductions pop the wrong symbols -/
def badRules : Tables := { tablesPL with rules := tablesPL.rules.drop 1 }
/-- a terminal that matches the empty string, ignored: the lexer does not advance -/
def badLex : Tables :=
  { tablesPL with terminals := tablesPL.terminals ++ [⟨"EMPTY", .lit ""⟩], ignore := ["WS", "EMPTY"] }
/-- `true` handled by the method of `not`: well-sorted (`grammarOK` holds) but `not_formula` needs an operand -/
def badCallback : Tables :=
  { tablesPL with rules := tablesPL.rules.map fun r =>
      if r.callback = "true" then { r with callback := "not_formula" } else r }
/-- a cycle of unit productions `a_prop → s_formula → a_prop` -/
def badUnit : Tables :=
  { tablesPL with rules := ⟨"a_prop", [⟨"s_formula", false, false⟩], "a_prop", false⟩ :: tablesPL.rules }

example : lrOK badRules = false ∧ lexOK badLex = false ∧ unitOK badUnit = false ∧
    callbacksOK .PL badCallback = false ∧ grammarOK .PL badCallback = true := by decide +kernel

example : parse badRules "p".toList = .error .runtimeError := by rfl
example : parse badLex "p $".toList = .error .runtimeError := by rfl
example : parse badCallback "true".toList = .error .runtimeError := by rfl

end examples

#print axioms no_internal_error
#print axioms run_no_internal_error
#print axioms only_parser_errors
#print axioms table_ok_PL
#print axioms table_ok_CTL
#print axioms table_ok_LTL
#print axioms table_ok_CTLS
#print axioms parse_no_internal_error_PL
#print axioms parse_no_internal_error_CTL
#print axioms parse_no_internal_error_LTL
#print axioms parse_no_internal_error_CTLS
#print axioms parse_only_parser_errors_PL
#print axioms parse_only_parser_errors_CTL
#print axioms parse_only_parser_errors_LTL
#print axioms parse_only_parser_errors_CTLS
#print axioms parse_result_PL
#print axioms parse_result_CTL
#print axioms parse_result_LTL
#print axioms parse_result_CTLS
end PMC.C10
