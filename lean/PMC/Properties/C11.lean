/-
  C11 — Formula equality, hashing and cloning are coherent.

  Within one logic and over atom names that are not reserved words, f == g holds for two formulas exactly when they
  have the same tree; equal formulas have equal hashes and behave as one key in sets and dicts; == is reflexive,
  symmetric and transitive, and Bool(b) == b holds in both directions for Python booleans; clone() returns an equal
  formula sharing no mutable node with the original.

  Model (PMC/Model/Syntax.lean): `Fm.pyEq M` is `Formula.__eq__` (equality of printed forms, with `Bool.__eq__`
  deciding the comparisons in which the left operand is a Boolean constant); the hash is the hash of the printed form
  (`pyHashKey`); `clone()` rebuilds the same tree.  That Python's reflected-operand dispatch makes `b == Bool(b)` call
  `Bool.__eq__`, and that `clone()` allocates fresh nodes, are run-time facts observed by the correspondence check.
-/
import PMC.Proofs.PrintInj
namespace PMC.C11
open PMC
open Fm

/-- structural equality test is equality -/
theorem beq_iff (f g : Fm) : f.beq g = true ↔ f = g := by
  apply Fm.beq.induct
    (motive_1 := fun fs gs => Fm.beq.beqList fs gs = true ↔ fs = gs)
    (motive_2 := fun f g => Fm.beq f g = true ↔ f = g) <;>
  intros <;> simp_all [Fm.beq, Fm.beq.beqList]
  · rename_i t x h1 h2 h3 h4 h5 h6 h7 h8 h9 h10 h11 h12 h13 h14
    intro h; subst h
    cases t <;> simp_all
    · exact h7 _ _ _ _ rfl rfl rfl rfl
    · exact h11 _ _ _ _ rfl rfl rfl rfl
    · exact h12 _ _ _ _ rfl rfl rfl rfl
  · rename_i t x h1 h2
    intro h; subst h
    cases t <;> simp_all
    exact h2 _ _ _ _ rfl rfl rfl rfl

/-- what `hash` hashes: the printed form -/
def pyHashKey (M : Logic) (f : Fm) : String := printIn M f

/-- the formulas of logic `M` the property quantifies over -/
def Good (M : Logic) (f : Fm) : Prop :=
  f.wfAtoms = true ∧ f.arityOK = true ∧ (M = .CTL → f.isCTL = true)

/-- `f == g` exactly when the trees are the same -/
theorem printIn_inj (M : Logic) (f g : Fm) (hf : Good M f) (hg : Good M g)
    (h : printIn M f = printIn M g) : f = g := by
  obtain ⟨wf, af, cf⟩ := hf
  obtain ⟨wg, ag, cg⟩ := hg
  cases M with
  | CTL => exact PMC.printCTL_injective f g (cf rfl) (cg rfl) wf wg af ag h
  | PL => exact PMC.print_injective f g wf wg af ag h
  | LTL => exact PMC.print_injective f g wf wg af ag h
  | CTLS => exact PMC.print_injective f g wf wg af ag h

theorem eq_iff_same_tree (M : Logic) (f g : Fm) (hf : Good M f) (hg : Good M g) :
    pyEq M f g = true ↔ f = g := by
  have key : printIn M f = printIn M g ↔ f = g :=
    ⟨printIn_inj M f g hf hg, fun h => by rw [h]⟩
  cases f with
  | tt => simp only [pyEq]; rw [beq_iff]; exact eq_comm
  | ff => simp only [pyEq]; rw [beq_iff]; exact eq_comm
  | _ => simpa only [pyEq, _root_.beq_iff_eq] using key

/-- equal formulas have equal hashes -/
theorem eq_hash (M : Logic) (f g : Fm) (hf : Good M f) (hg : Good M g) (h : pyEq M f g = true) :
    pyHashKey M f = pyHashKey M g := by
  rw [(eq_iff_same_tree M f g hf hg).mp h]

/-- … and (for the formulas of the property) equal hash keys only for equal formulas: one key in sets and dicts -/
theorem hashKey_injective (M : Logic) (f g : Fm) (hf : Good M f) (hg : Good M g)
    (h : pyHashKey M f = pyHashKey M g) : f = g :=
  printIn_inj M f g hf hg h

theorem eq_refl (M : Logic) (f : Fm) : pyEq M f f = true := by
  cases f <;> simp [pyEq, Fm.beq]

theorem eq_symm (M : Logic) (f g : Fm) (hf : Good M f) (hg : Good M g) (h : pyEq M f g = true) :
    pyEq M g f = true := by
  rw [(eq_iff_same_tree M f g hf hg).mp h]; exact eq_refl M g

theorem eq_trans (M : Logic) (f g k : Fm) (hf : Good M f) (hg : Good M g) (hk : Good M k)
    (h1 : pyEq M f g = true) (h2 : pyEq M g k = true) : pyEq M f k = true := by
  have _ := hk
  rw [(eq_iff_same_tree M f g hf hg).mp h1]; exact h2

/-- the atom-name hypothesis is needed: without it `==` relates different trees … -/
example : pyEq .CTLS (.ap "not p") (.not (.ap "p")) = true := by decide
/-- … and is not even symmetric -/
example : pyEq .CTLS (.ap "true") .tt = true ∧ pyEq .CTLS .tt (.ap "true") = false := by decide

#print axioms beq_iff
#print axioms eq_iff_same_tree
#print axioms eq_hash
#print axioms hashKey_injective
#print axioms eq_refl
#print axioms eq_symm
#print axioms eq_trans
end PMC.C11
