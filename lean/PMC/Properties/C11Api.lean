/-
  C11 (continued) — `clone()` returns an equal formula.

  `FormulaApi.clone` (PMC/Model/FormulaApi.lean) is the recursion of `Formula.clone` / `Bool.clone` /
  `AtomicProposition.clone`: every node rebuilt by its own class from the clones of its operands.  It returns the same
  tree (`PMC.C08.clone_eq`), so the clone is `==` to the original in both directions, has the same hash, and is one key
  with it in sets and dicts — for EVERY formula, also those outside the quantifier `Good` of the other C11 theorems
  (reserved or odd atom names).  That the clone shares no node with the original is a run-time fact (harness: `id`).
  `clone()` of an object succeeds exactly when its tree is a formula of its module (`PMC.C08.cloneIn_ok_iff`).
-/
import PMC.Properties.C11
import PMC.Properties.C08Api
namespace PMC.C11
open PMC Fm FormulaApi

/-- `f.clone() == f` -/
theorem clone_pyEq (M : Logic) (f : Fm) : pyEq M (clone f) f = true := by
  rw [C08.clone_eq]; exact eq_refl M f

/-- `f == f.clone()` -/
theorem pyEq_clone (M : Logic) (f : Fm) : pyEq M f (clone f) = true := by
  rw [C08.clone_eq]; exact eq_refl M f

/-- `hash(f.clone()) == hash(f)` -/
theorem clone_hash (M : Logic) (f : Fm) : pyHashKey M (clone f) = pyHashKey M f := by
  rw [C08.clone_eq]

/-- the clone is structurally the original -/
theorem clone_beq (f : Fm) : (clone f).beq f = true := (beq_iff _ _).mpr (C08.clone_eq f)

/-- `obj.clone()` of a formula of module `M` succeeds, and what it returns is `==` to `obj` with the same hash -/
theorem cloneIn_eq_original (M : Logic) (f : Fm) (h : inLogic M f = true) :
    ∃ t, cloneIn Classes.refTable M f = .ok t ∧ pyEq M t f = true ∧ pyEq M f t = true ∧
      pyHashKey M t = pyHashKey M f :=
  ⟨f, C08.cloneIn_ok M f h, eq_refl M f, eq_refl M f, rfl⟩

/-- cloning keeps a formula inside the quantifier of C11 -/
theorem clone_good (M : Logic) (f : Fm) (h : Good M f) : Good M (clone f) := by
  rw [C08.clone_eq]; exact h

#print axioms clone_pyEq
#print axioms clone_hash
#print axioms cloneIn_eq_original
end PMC.C11
