/-
  C12 — Strongly connected components are computed exactly.

  For every directed graph G, compute_SCCs(G) yields each node in exactly one component, and two nodes are in the
  same component exactly when each is reachable from the other in G.

  Model: `Graph.sccs` (PMC/Model/Graph.lean, section SCC) — the recursive form of the iterative Nuutila variant in
  graph.py.  `Graph.Closed g` (every successor is itself a key of the dict) is what every `DiGraph` satisfies: the
  constructor, `add_edge` and `add_node` all insert missing endpoints (proved for the constructor: `Graph.mk_closed`,
  PMC/Properties/C13.lean).
-/
import PMC.Spec.GraphSpec
import PMC.Proofs.SCCVisit
namespace PMC.C12
open PMC
variable {σ : Type} [DecidableEq σ]



/-- each node occurs exactly once in the output: no node twice … -/
theorem scc_partition (g : Graph σ) (h : g.Closed) : (g.sccs).flatten.Nodup :=
  (SCC.sccs_correct g.nodes h).1

/-- … and the components cover exactly the nodes of the graph -/
theorem scc_nodes (g : Graph σ) (h : g.Closed) (x : σ) : x ∈ (g.sccs).flatten ↔ x ∈ g.nodes :=
  (SCC.sccs_correct g.nodes h).2.1 x

/-- two nodes share a component exactly when they are mutually reachable -/
theorem scc_exact (g : Graph σ) (h : g.Closed) (C : List σ) (hC : C ∈ g.sccs) (x : σ) (hx : x ∈ C) (y : σ) :
    y ∈ C ↔ (Reach g.next x y ∧ Reach g.next y x) :=
  (SCC.sccs_correct g.nodes h).2.2 C hC x hx y

/-- non-vacuity: a concrete graph with a 3-cycle, a tail and a self-loop meets the hypothesis, and the model
    computes its three components -/
example : Graph.Closed ([(0,[1]), (1,[2,3]), (2,[0]), (3,[4]), (4,[4])] : Graph Nat) := by
  unfold Graph.Closed; decide
example : Graph.sccs ([(0,[1]), (1,[2,3]), (2,[0]), (3,[4]), (4,[4])] : Graph Nat) = [[4], [3], [0, 1, 2]] := by decide

end PMC.C12
