/-
  C13 — Reachability, reversal and subgraph extraction are exact and non-destructive.

  For every directed graph G and node set X: get_reachable_set_from(X) is exactly X plus every node reachable from X;
  get_reversed_graph() has the same nodes and exactly the flipped edges (and reversing twice gives back G);
  get_subgraph(X) has nodes X ∩ V and exactly the edges of G with both ends in X; clone() is equal and independent.
  None of these change G.

  Model: PMC/Model/Graph.lean.  Graph values are immutable in the model, so "none of these change G" holds by
  construction on the model side; on the implementation side it is what the correspondence check observes (snapshot of
  G before and after each call, identity of the returned containers).
-/
import PMC.Spec.GraphSpec
import PMC.Proofs.Reach
import PMC.Proofs.GraphOps
namespace PMC.C13
open PMC PMC.Graph
variable {σ : Type} [DecidableEq σ]

/-! ### the constructor `DiGraph(V, E)` -/

theorem mk_wf (V : List σ) (E : List (σ × σ)) : WFG (Graph.mk V E) :=
  Graph.mk_wf V E

theorem mk_nodes (V : List σ) (E : List (σ × σ)) (v : σ) :
    v ∈ (Graph.mk V E).nodes ↔ v ∈ V ∨ ∃ e ∈ E, v = e.1 ∨ v = e.2 :=
  Graph.mk_nodes V E v

theorem mk_edges (V : List σ) (E : List (σ × σ)) (a b : σ) :
    (a, b) ∈ (Graph.mk V E).edges ↔ (a, b) ∈ E :=
  Graph.mk_edges V E a b

/-- in a well-formed graph `next` and `edges` say the same thing -/
theorem mem_next_iff_edge (g : Graph σ) (h : WFG g) (a b : σ) : b ∈ g.next a ↔ (a, b) ∈ g.edges :=
  Graph.mem_next_iff_edge' g h.nodup a b

theorem edge_nodes (g : Graph σ) (h : WFG g) (a b : σ) (he : (a, b) ∈ g.edges) : a ∈ g.nodes ∧ b ∈ g.nodes :=
  ⟨Graph.edge_src he, Graph.eclosed_of_closed h.nodup h.closed a b he⟩

theorem hasNode_iff (g : Graph σ) (v : σ) : g.hasNode v = true ↔ v ∈ g.nodes :=
  Graph.hasNode_iff g v

/-! ### `add_node`, `add_edge` -/

theorem addNodeRaw_wf (g : Graph σ) (h : WFG g) (v : σ) : WFG (g.addNodeRaw v) :=
  Graph.addNodeRaw_wf h v

theorem addNodeRaw_nodes (g : Graph σ) (v w : σ) : w ∈ (g.addNodeRaw v).nodes ↔ w ∈ g.nodes ∨ w = v :=
  Graph.addNodeRaw_nodes g v w

theorem addNodeRaw_edges (g : Graph σ) (v : σ) (a b : σ) : (a, b) ∈ (g.addNodeRaw v).edges ↔ (a, b) ∈ g.edges :=
  Graph.addNodeRaw_edges g v a b

theorem addEdgeIgnore_wf (g : Graph σ) (h : WFG g) (s d : σ) : WFG (g.addEdgeIgnore s d) :=
  Graph.addEdgeIgnore_wf h s d

/-- NOTE: the hypothesis `h : WFG g` was ADDED (only `h.closed` is used): without it the statement is false.
    Counterexample: `g = [(0, [1])]`, `s = 0`, `d = 1`: `add_edge` raises (the edge is there), so the graph is
    unchanged and `1 ∉ nodes`, although `w = d`. -/
theorem addEdgeIgnore_nodes (g : Graph σ) (h : WFG g) (s d w : σ) :
    w ∈ (g.addEdgeIgnore s d).nodes ↔ w ∈ g.nodes ∨ w = s ∨ w = d :=
  Graph.addEdgeIgnore_nodes g h.closed s d w

set_option linter.unusedVariables false in -- `h` is not needed for this one; kept so the statement is as specified
theorem addEdgeIgnore_edges (g : Graph σ) (h : WFG g) (s d a b : σ) :
    (a, b) ∈ (g.addEdgeIgnore s d).edges ↔ (a, b) ∈ g.edges ∨ (a = s ∧ b = d) :=
  Graph.addEdgeIgnore_edges g s d a b

/-- `add_edge` raises exactly when the edge is already present -/
theorem addEdge_error_iff (g : Graph σ) (h : WFG g) (s d : σ) :
    g.addEdge s d = .error .runtimeError ↔ (s, d) ∈ g.edges :=
  Graph.addEdge_error_iff' g h.nodup s d

/-- `add_node` raises exactly when the node is already present -/
theorem addNode_error_iff (g : Graph σ) (v : σ) : g.addNode v = .error .runtimeError ↔ v ∈ g.nodes :=
  Graph.addNode_error_iff g v

/-! ### `get_subgraph` -/

theorem subgraph_wf (g : Graph σ) (X : List σ) : WFG (g.subgraph X) :=
  Graph.mk_wf _ _

theorem subgraph_nodes (g : Graph σ) (h : WFG g) (X : List σ) (v : σ) :
    v ∈ (g.subgraph X).nodes ↔ v ∈ g.nodes ∧ v ∈ X :=
  Graph.subgraph_nodes g h X v

theorem subgraph_edges (g : Graph σ) (X : List σ) (a b : σ) :
    (a, b) ∈ (g.subgraph X).edges ↔ (a, b) ∈ g.edges ∧ a ∈ X ∧ b ∈ X :=
  Graph.subgraph_edges g X a b

/-! ### `get_reversed_graph` -/

theorem reversed_wf (g : Graph σ) : WFG g.reversed :=
  Graph.mk_wf _ _

theorem reversed_nodes (g : Graph σ) (h : WFG g) (v : σ) : v ∈ g.reversed.nodes ↔ v ∈ g.nodes :=
  Graph.reversed_nodes g h v

theorem reversed_edges (g : Graph σ) (a b : σ) : (a, b) ∈ g.reversed.edges ↔ (b, a) ∈ g.edges :=
  Graph.reversed_edges g a b

/-- reversing twice gives back G (same node set, same edge set) -/
theorem reversed_reversed (g : Graph σ) (h : WFG g) :
    (∀ v, v ∈ g.reversed.reversed.nodes ↔ v ∈ g.nodes) ∧
    (∀ a b, (a, b) ∈ g.reversed.reversed.edges ↔ (a, b) ∈ g.edges) :=
  ⟨fun v => (Graph.reversed_nodes g.reversed (reversed_wf g) v).trans (Graph.reversed_nodes g h v),
   fun a b => (Graph.reversed_edges g.reversed a b).trans (Graph.reversed_edges g b a)⟩

/-! ### `clone` -/

theorem clone_eq (g : Graph σ) : g.clone = g :=
  Graph.clone_eq g

/-! ### `get_reachable_set_from` -/

/-- for X ⊆ V the call succeeds and returns exactly X plus everything reachable from X -/
theorem reach_exact (g : Graph σ) (h : WFG g) (X : List σ) (hX : ∀ x ∈ X, x ∈ g.nodes) :
    ∃ R, g.reachFrom X = .ok R ∧ ∀ v, v ∈ R ↔ ∃ x ∈ X, Reach g.next x v :=
  Graph.reach_exact g h X hX

/-- a start node outside the graph is reported, not ignored -/
theorem reach_error (g : Graph σ) (X : List σ) (hX : ∃ x ∈ X, x ∉ g.nodes) :
    g.reachFrom X = .error .runtimeError :=
  Graph.reach_error g X hX

/-! ### non-vacuity -/

example : WFG (Graph.mk [0, 1, 2, 3] [(0, 1), (1, 2), (2, 0), (2, 3), (3, 3)] : Graph Nat) := mk_wf _ _
example : (Graph.mk [0, 1, 2, 3] [(0, 1), (1, 2), (2, 0), (2, 3), (3, 3)] : Graph Nat).reachFrom [3] = .ok [3] := by
  decide
example : ((Graph.mk [0, 1, 2, 3] [(0, 1), (1, 2), (2, 0), (2, 3), (3, 3)] : Graph Nat).subgraph [0, 1, 3]).edges
    = [(0, 1), (3, 3)] := by decide

#print axioms mk_wf
#print axioms mk_nodes
#print axioms mk_edges
#print axioms mem_next_iff_edge
#print axioms addEdgeIgnore_wf
#print axioms addEdgeIgnore_nodes
#print axioms addEdgeIgnore_edges
#print axioms addEdge_error_iff
#print axioms subgraph_nodes
#print axioms subgraph_edges
#print axioms reversed_nodes
#print axioms reversed_edges
#print axioms reversed_reversed
#print axioms clone_eq
#print axioms reach_exact
#print axioms reach_error

end PMC.C13
