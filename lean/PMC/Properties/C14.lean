/-
  C14 — Kripke structures are always total, fully labelled, and copy faithfully.

  Kripke(S,S0,R,L) succeeds exactly when every state has at least one outgoing transition and otherwise raises
  RuntimeError; in a constructed structure every state has a label set (empty if unspecified), initial states are a
  subset of the states, and labels(s)/next(s) of a non-state raise RuntimeError.  clone(), and get_substructure(V)
  whenever the transitions induced on V are total (otherwise it raises RuntimeError), return structures with the same
  labels on the retained states, exactly the induced transitions, and no label set shared with the original.

  Model: `KripkeD.make`, `clone`, `substructure`, `labelsAt`, `nextAt` (PMC/Model/Kripke.lean).  Label sets are
  immutable values in the model, so "no label set shared" is by construction there; on the implementation it is observed
  by the correspondence check (`id` of every label set of the copy differs from every label set of the original).
-/
import PMC.Properties.C13
import PMC.Model.Kripke
import PMC.Proofs.KripkeOps
namespace PMC.C14
open PMC PMC.Graph PMC.KripkeD
variable {σ : Type} [DecidableEq σ]

/-- what every constructed structure satisfies -/
structure Inv (K : KripkeD σ) : Prop where
  wfg : WFG K.g
  total : ∀ v ∈ K.g.nodes, K.g.next v ≠ []
  labelled : K.labels.map Prod.fst = K.g.nodes
  init : ∀ v ∈ K.s0, v ∈ K.g.nodes

theorem made_inv (S S0 : List σ) (R : List (σ × σ)) (L : List (σ × List String)) (ht : KripkeD.Total S R) :
    Inv (KripkeD.made S S0 R L) where
  wfg := Graph.mk_wf S R
  total := ht
  labelled := by
    unfold KripkeD.made
    simp only [List.map_map]
    exact List.map_id' _
  init := fun v hv => (List.mem_filter.mp hv).1

theorem made_spec (S S0 : List σ) (R : List (σ × σ)) (L : List (σ × List String)) :
    (∀ v, v ∈ (KripkeD.made S S0 R L).g.nodes ↔ v ∈ S ∨ ∃ e ∈ R, v = e.1 ∨ v = e.2) ∧
    (∀ a b, (a, b) ∈ (KripkeD.made S S0 R L).g.edges ↔ (a, b) ∈ R) ∧
    (∀ v, v ∈ (KripkeD.made S S0 R L).s0 ↔ v ∈ (KripkeD.made S S0 R L).g.nodes ∧ v ∈ S0) ∧
    (∀ v ∈ (KripkeD.made S S0 R L).g.nodes, ∀ l,
      l ∈ KripkeD.labelOf (KripkeD.made S S0 R L).labels v ↔ l ∈ KripkeD.labelOf L v) := by
  refine ⟨fun v => Graph.mk_nodes S R v, fun a b => Graph.mk_edges S R a b, ?_, ?_⟩
  · intro v
    show v ∈ List.filter _ _ ↔ _
    rw [List.mem_filter, decide_eq_true_eq]
    exact Iff.rfl
  · intro v hv l
    have hv' : v ∈ (Graph.mk S R).nodes := hv
    show l ∈ KripkeD.labelOf (List.map _ _) v ↔ _
    rw [KripkeD.labelOf_map, if_pos hv', List.mem_eraseDups]

theorem make_cases (S S0 : List σ) (R : List (σ × σ)) (L : List (σ × List String)) (K : KripkeD σ)
    (h : KripkeD.make S S0 R L = .ok K) : KripkeD.Total S R ∧ K = KripkeD.made S S0 R L := by
  by_cases ht : KripkeD.Total S R
  · rw [KripkeD.make_total S S0 R L ht] at h
    injection h with h
    exact ⟨ht, h.symm⟩
  · rw [KripkeD.make_not_total S S0 R L true (fun _ => false) ht] at h
    cases h

/-- the constructor succeeds exactly when every state (listed in S or an endpoint of R) has a successor … -/
theorem make_ok_iff (S S0 : List σ) (R : List (σ × σ)) (L : List (σ × List String)) :
    (∃ K, KripkeD.make S S0 R L = .ok K) ↔ ∀ v ∈ (Graph.mk S R).nodes, (Graph.mk S R).next v ≠ [] := by
  constructor
  · rintro ⟨K, hK⟩
    exact (make_cases S S0 R L K hK).1
  · intro ht
    exact ⟨_, KripkeD.make_total S S0 R L ht⟩

/-- … and otherwise raises RuntimeError (whatever the flags) -/
theorem make_error (S S0 : List σ) (R : List (σ × σ)) (L : List (σ × List String)) (d : Bool) (bad : σ → Bool)
    (e : Err) (h : KripkeD.make S S0 R L d bad = .error e) : e = .runtimeError :=
  KripkeD.make_error_eq S S0 R L d bad e h

/-- a label dictionary that is not a dict, or a non-iterable label value of a state, is a RuntimeError -/
theorem make_bad_labels (S S0 : List σ) (R : List (σ × σ)) (L : List (σ × List String)) (bad : σ → Bool) :
    KripkeD.make S S0 R L false bad = .error .runtimeError :=
  KripkeD.make_not_dict S S0 R L bad

theorem make_spec (S S0 : List σ) (R : List (σ × σ)) (L : List (σ × List String)) (K : KripkeD σ)
    (h : KripkeD.make S S0 R L = .ok K) :
    Inv K ∧
    (∀ v, v ∈ K.g.nodes ↔ v ∈ S ∨ ∃ e ∈ R, v = e.1 ∨ v = e.2) ∧
    (∀ a b, (a, b) ∈ K.g.edges ↔ (a, b) ∈ R) ∧
    (∀ v, v ∈ K.s0 ↔ v ∈ K.g.nodes ∧ v ∈ S0) ∧
    (∀ v ∈ K.g.nodes, ∀ l, l ∈ KripkeD.labelOf K.labels v ↔ l ∈ KripkeD.labelOf L v) := by
  obtain ⟨ht, rfl⟩ := make_cases S S0 R L K h
  exact ⟨made_inv S S0 R L ht, made_spec S S0 R L⟩

/-- the structure handed to the checkers is well-formed in the sense the exactness theorems assume -/
theorem inv_wf (K : KripkeD σ) (h : Inv K) : K.toKripke.WF :=
  ⟨h.wfg.closed, h.total, h.wfg.nodup⟩

theorem labelsAt_nonstate (K : KripkeD σ) (s : σ) (h : s ∉ K.g.nodes) : K.labelsAt s = .error .runtimeError := by
  unfold KripkeD.labelsAt
  rw [if_neg]
  rwa [Graph.hasNode_iff]

theorem labelsAt_state (K : KripkeD σ) (s : σ) (h : s ∈ K.g.nodes) :
    K.labelsAt s = .ok (KripkeD.labelOf K.labels s) := by
  unfold KripkeD.labelsAt
  rw [if_pos]
  rwa [Graph.hasNode_iff]

theorem nextAt_nonstate (K : KripkeD σ) (s : σ) (h : s ∉ K.g.nodes) : K.nextAt s = .error .runtimeError := by
  unfold KripkeD.nextAt Graph.next?
  rw [if_neg]
  rwa [Graph.hasNode_iff]

/-- `clone()` of a constructed structure succeeds and is the same structure -/
theorem clone_spec (K : KripkeD σ) (h : Inv K) :
    ∃ K', K.clone = .ok K' ∧ Inv K' ∧
      (∀ v, v ∈ K'.g.nodes ↔ v ∈ K.g.nodes) ∧
      (∀ a b, (a, b) ∈ K'.g.edges ↔ (a, b) ∈ K.g.edges) ∧
      (∀ v, v ∈ K'.s0 ↔ v ∈ K.s0) ∧
      (∀ v ∈ K.g.nodes, ∀ l, l ∈ KripkeD.labelOf K'.labels v ↔ l ∈ KripkeD.labelOf K.labels v) := by
  have hn : ∀ v, v ∈ (Graph.mk K.g.nodes K.g.edges).nodes ↔ v ∈ K.g.nodes := by
    intro v
    rw [Graph.mk_nodes]
    constructor
    · rintro (hv | ⟨⟨a, b⟩, he, rfl | rfl⟩)
      · exact hv
      · exact (C13.edge_nodes K.g h.wfg _ _ he).1
      · exact (C13.edge_nodes K.g h.wfg _ _ he).2
    · exact Or.inl
  have ht : KripkeD.Total K.g.nodes K.g.edges := by
    intro v hv
    obtain ⟨w, hw⟩ := (Graph.next_ne_nil_iff K.g v).mp (h.total v ((hn v).mp hv))
    rw [Graph.next_ne_nil_iff]
    refine ⟨w, ?_⟩
    rw [C13.mem_next_iff_edge _ (Graph.mk_wf _ _), Graph.mk_edges]
    exact Graph.edge_of_mem_next K.g v w hw
  have hm : K.clone = .ok (KripkeD.made K.g.nodes K.s0 K.g.edges K.labels) :=
    KripkeD.make_total _ _ _ _ ht
  obtain ⟨h1, h2, h3, h4⟩ := made_spec K.g.nodes K.s0 K.g.edges K.labels
  refine ⟨_, hm, made_inv _ _ _ _ ht, hn, h2, ?_, ?_⟩
  · intro v
    rw [h3]
    constructor
    · exact fun hv => hv.2
    · exact fun hv => ⟨(hn v).mpr (h.init v hv), hv⟩
  · intro v hv l
    exact h4 v ((hn v).mpr hv) l

/-- the graph of a substructure is the induced subgraph -/
theorem sub_total_iff (K : KripkeD σ) (h : Inv K) (V : List σ) :
    KripkeD.Total (K.g.nodes.filter (fun v => decide (v ∈ V)))
      (K.g.edges.filter (fun e => decide (e.1 ∈ V) && decide (e.2 ∈ V))) ↔
    ∀ v ∈ K.g.nodes, v ∈ V → ∃ w ∈ K.g.next v, w ∈ V := by
  have hn := Graph.subgraph_nodes K.g h.wfg V
  have he := Graph.subgraph_edges K.g V
  have hw : WFG (K.g.subgraph V) := Graph.mk_wf _ _
  show (∀ v ∈ (K.g.subgraph V).nodes, (K.g.subgraph V).next v ≠ []) ↔ _
  constructor
  · intro ht v hv hV
    obtain ⟨w, hw'⟩ := (Graph.next_ne_nil_iff _ v).mp (ht v ((hn v).mpr ⟨hv, hV⟩))
    rw [C13.mem_next_iff_edge _ hw, he] at hw'
    exact ⟨w, (C13.mem_next_iff_edge K.g h.wfg v w).mpr hw'.1, hw'.2.2⟩
  · intro ht v hv
    obtain ⟨hv, hV⟩ := (hn v).mp hv
    obtain ⟨w, hw1, hw2⟩ := ht v hv hV
    rw [Graph.next_ne_nil_iff]
    refine ⟨w, ?_⟩
    rw [C13.mem_next_iff_edge _ hw, he]
    exact ⟨Graph.edge_of_mem_next K.g v w hw1, hV, hw2⟩

/-- `get_substructure(V)` succeeds exactly when the transitions induced on V are total … -/
theorem substructure_ok_iff (K : KripkeD σ) (h : Inv K) (V : List σ) :
    (∃ K', K.substructure V = .ok K') ↔ ∀ v ∈ K.g.nodes, v ∈ V → ∃ w ∈ K.g.next v, w ∈ V := by
  rw [← sub_total_iff K h V]
  exact make_ok_iff _ _ _ _

theorem substructure_error (K : KripkeD σ) (V : List σ) (e : Err) (h : K.substructure V = .error e) :
    e = .runtimeError :=
  KripkeD.make_error_eq _ _ _ _ _ _ e h

/-- … and then has the retained states, exactly the induced transitions, the same labels and initial states -/
theorem substructure_spec (K : KripkeD σ) (h : Inv K) (V : List σ) (K' : KripkeD σ)
    (hs : K.substructure V = .ok K') :
    Inv K' ∧
    (∀ v, v ∈ K'.g.nodes ↔ v ∈ K.g.nodes ∧ v ∈ V) ∧
    (∀ a b, (a, b) ∈ K'.g.edges ↔ (a, b) ∈ K.g.edges ∧ a ∈ V ∧ b ∈ V) ∧
    (∀ v, v ∈ K'.s0 ↔ v ∈ K.s0 ∧ v ∈ V) ∧
    (∀ v ∈ K'.g.nodes, ∀ l, l ∈ KripkeD.labelOf K'.labels v ↔ l ∈ KripkeD.labelOf K.labels v) := by
  obtain ⟨hinv, h1, h2, h3, h4⟩ := make_spec _ _ _ _ K' hs
  have hn : ∀ v, v ∈ K'.g.nodes ↔ v ∈ K.g.nodes ∧ v ∈ V := by
    intro v
    rw [h1]
    simp only [List.mem_filter, decide_eq_true_eq, Bool.and_eq_true]
    constructor
    · rintro (hv | ⟨⟨a, b⟩, ⟨he, ha, hb⟩, rfl | rfl⟩)
      · exact hv
      · exact ⟨(C13.edge_nodes K.g h.wfg _ _ he).1, ha⟩
      · exact ⟨(C13.edge_nodes K.g h.wfg _ _ he).2, hb⟩
    · exact Or.inl
  refine ⟨hinv, hn, ?_, ?_, ?_⟩
  · intro a b
    rw [h2]
    simp only [List.mem_filter, decide_eq_true_eq, Bool.and_eq_true]
  · intro v
    rw [h3, hn]
    simp only [List.mem_filter, decide_eq_true_eq]
    constructor
    · exact fun hv => hv.2
    · exact fun hv => ⟨⟨h.init v hv.1, hv.2⟩, hv⟩
  · intro v hv l
    rw [h4 v hv l, KripkeD.labelOf_filter K.labels V v ((hn v).mp hv).2]

/-! non-vacuity -/
example : ∃ K, KripkeD.make [0, 1] [0] [(0, 1), (1, 0), (1, 1)] [(0, ["p", "q"]), (7, ["r"])] = .ok K ∧
    KripkeD.labelOf K.labels 1 = [] ∧ K.s0 = [0] := by
  refine ⟨_, rfl, ?_, ?_⟩ <;> decide
example : KripkeD.make [0, 1] [0] [(0, 1)] ([] : List (Nat × List String)) = .error .runtimeError := by rfl

#print axioms make_ok_iff
#print axioms make_spec
#print axioms clone_spec
#print axioms substructure_ok_iff
#print axioms substructure_spec
end PMC.C14
