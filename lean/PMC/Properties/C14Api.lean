/-
  C14 (continued) — `labelling_function()` / `replace_labelling_function(L)`.

  Model: PMC/Model/KripkeApi.lean.  `replace_labelling_function(L)` adopts the caller's dict and writes `s ↦ set()` into
  it for every state it lacks; the graph and the initial states are untouched.  Afterwards:

  * `replace_labelsAt_state` — `labels(s)` of a state is `L[s]` (the empty set when `L` had no `s`:
    `replace_labelsAt_missing`; no `KeyError` can arise: `replace_fully_labelled`); a non-state is a `RuntimeError`
    even when it is a key of `L` (`replace_labelsAt_nonstate`);
  * `replace_total` — an `L` with an entry for every state is adopted unchanged, keys that are not states included
    (`replace_keeps_entries`);
  * `replace_toKripke`, `replace_wf` — what the checkers see is the same graph with labelling `L` (extra keys are
    invisible to them), still well-formed in the sense of the exactness theorems;
  * `replace_clone`, `replace_clone_spec`, `replace_substructure` — `clone()` / `get_substructure(V)` are the constructor
    applied to `L`: label sets copied, keys that are not states dropped;
  * `allLabels_replace`, `allLabels_extra_key`, `allLabels_constructed` — `labels()` without argument is the union over
    ALL values of the dict: after a replacement with a key that is not a state it contains atoms that label no state
    (for a constructed structure it is exactly the atoms labelling some state);
  * `replace_restore` — putting the former dict (the return value) back restores the structure.

  The adoption BY REFERENCE (caller's dict = internal dict = what `labelling_function()` returns) is outside a functional
  model; checks/c14.py observes it on the implementation.
-/
import PMC.Properties.C14
import PMC.Model.KripkeApi
namespace PMC.C14
open PMC PMC.Graph PMC.KripkeD
set_option linter.unusedSectionVars false
variable {σ : Type} [DecidableEq σ]

/-! ### look-ups in the completed dict -/

theorem labelOf_not_key (L : List (σ × List String)) (s : σ) (h : hasKey L s = false) : labelOf L s = [] := by
  induction L with
  | nil => rfl
  | cons p L ih =>
    simp only [hasKey, List.any_cons, Bool.or_eq_false_iff, decide_eq_false_iff_not] at h
    rw [labelOf_cons, if_neg h.1]
    exact ih h.2

/-- entries with empty label sets appended to a dict do not change any look-up -/
theorem labelOf_append_empty (A B : List (σ × List String)) (hB : ∀ p ∈ B, p.2 = []) (s : σ) :
    labelOf (A ++ B) s = labelOf A s := by
  induction A with
  | nil =>
    induction B with
    | nil => rfl
    | cons p B ih =>
      rw [List.nil_append, labelOf_cons]
      split
      · exact hB p List.mem_cons_self
      · exact ih (fun q hq => hB q (List.mem_cons_of_mem _ hq))
  | cons p A ih => rw [List.cons_append, labelOf_cons, labelOf_cons, ih]

theorem labelOf_completed (K : KripkeD σ) (L : List (σ × List String)) (s : σ) :
    labelOf (completed K L) s = labelOf L s := by
  unfold completed
  apply labelOf_append_empty
  intro p hp
  obtain ⟨a, _, rfl⟩ := List.mem_map.mp hp
  rfl

/-- the constructor reads `L` only through the look-ups -/
theorem make_congr (S S0 : List σ) (R : List (σ × σ)) (L L' : List (σ × List String))
    (h : ∀ s, labelOf L s = labelOf L' s) : make S S0 R L = make S S0 R L' := by
  unfold make
  simp only [Bool.and_false, h]

/-! ### the structure after the call -/

/-- the graph and the initial states are untouched -/
theorem replace_frame (K : KripkeD σ) (L : List (σ × List String)) :
    (replaceLabelling K L).g = K.g ∧ (replaceLabelling K L).s0 = K.s0 := ⟨rfl, rfl⟩

/-- the call returns the former dict — the very object `labelling_function()` handed out before -/
theorem replace_returns_former (K : KripkeD σ) (L : List (σ × List String)) :
    replaceLabellingResult K L = K.labellingFunction := rfl

/-- afterwards `labelling_function()` is the completed dict -/
theorem replace_labellingFunction (K : KripkeD σ) (L : List (σ × List String)) :
    (replaceLabelling K L).labellingFunction = completed K L := rfl

/-- `labels(s)` of a state is `L[s]` (the empty set if `L` has no `s`) -/
theorem replace_labelsAt_state (K : KripkeD σ) (L : List (σ × List String)) (s : σ) (h : s ∈ K.g.nodes) :
    (replaceLabelling K L).labelsAt s = .ok (labelOf L s) := by
  rw [labelsAt_state (replaceLabelling K L) s h]
  exact congrArg _ (labelOf_completed K L s)

/-- a state `L` has no entry for: the empty set, not a `KeyError` -/
theorem replace_labelsAt_missing (K : KripkeD σ) (L : List (σ × List String)) (s : σ) (h : s ∈ K.g.nodes)
    (hk : hasKey L s = false) : (replaceLabelling K L).labelsAt s = .ok [] := by
  rw [replace_labelsAt_state K L s h, labelOf_not_key L s hk]

/-- a key of `L` that is not a state is still not a state: `RuntimeError` -/
theorem replace_labelsAt_nonstate (K : KripkeD σ) (L : List (σ × List String)) (s : σ) (h : s ∉ K.g.nodes) :
    (replaceLabelling K L).labelsAt s = .error .runtimeError :=
  labelsAt_nonstate _ s h

/-- every state has an entry afterwards -/
theorem replace_fully_labelled (K : KripkeD σ) (L : List (σ × List String)) (s : σ) (h : s ∈ K.g.nodes) :
    hasKey (replaceLabelling K L).labels s = true := by
  show hasKey (completed K L) s = true
  unfold completed hasKey
  rw [List.any_append, Bool.or_eq_true]
  cases hk : L.any (fun p => decide (p.1 = s))
  · right
    rw [List.any_eq_true]
    refine ⟨(s, []), List.mem_map.mpr ⟨s, List.mem_filter.mpr ⟨h, ?_⟩, rfl⟩, by simp⟩
    simp only [hk, Bool.not_false]
  · exact Or.inl rfl

/-- the caller's entries all stay, also those for keys that are not states -/
theorem replace_keeps_entries (K : KripkeD σ) (L : List (σ × List String)) (p : σ × List String) (h : p ∈ L) :
    p ∈ (replaceLabelling K L).labels :=
  List.mem_append_left _ h

/-- an `L` that has an entry for every state is adopted as it is -/
theorem replace_total (K : KripkeD σ) (L : List (σ × List String)) (h : ∀ s ∈ K.g.nodes, hasKey L s = true) :
    (replaceLabelling K L).labels = L := by
  show completed K L = L
  unfold completed
  have : K.g.nodes.filter (fun s => !hasKey L s) = [] := by
    rw [List.filter_eq_nil_iff]
    intro s hs
    simp [h s hs]
  rw [this, List.map_nil, List.append_nil]

/-- what the checkers see: the same graph, labelling `L` -/
theorem replace_toKripke (K : KripkeD σ) (L : List (σ × List String)) :
    (replaceLabelling K L).toKripke = { K.toKripke with lab := labelOf L } := by
  unfold toKripke replaceLabelling
  simp only [Kripke.mk.injEq, true_and]
  funext s
  exact labelOf_completed K L s

/-- … still well-formed in the sense the exactness theorems assume -/
theorem replace_wf (K : KripkeD σ) (h : Inv K) (L : List (σ × List String)) : (replaceLabelling K L).toKripke.WF :=
  ⟨h.wfg.closed, h.total, h.wfg.nodup⟩

/-! ### `clone()` and `get_substructure(V)` afterwards -/

/-- `clone()` is the constructor applied to the caller's `L` -/
theorem replace_clone (K : KripkeD σ) (L : List (σ × List String)) :
    (replaceLabelling K L).clone = make K.g.nodes K.s0 K.g.edges L :=
  make_congr _ _ _ _ _ (labelOf_completed K L)

/-- for a constructed structure: the clone exists, is a constructed structure again (keys that are not states are gone:
    `Inv.labelled`), has the same graph and initial states, and labels every state with `L[s]` -/
theorem replace_clone_spec (K : KripkeD σ) (h : Inv K) (L : List (σ × List String)) :
    ∃ K', (replaceLabelling K L).clone = .ok K' ∧ Inv K' ∧
      (∀ v, v ∈ K'.g.nodes ↔ v ∈ K.g.nodes) ∧
      (∀ a b, (a, b) ∈ K'.g.edges ↔ (a, b) ∈ K.g.edges) ∧
      (∀ v, v ∈ K'.s0 ↔ v ∈ K.s0) ∧
      (∀ v ∈ K.g.nodes, ∀ l, l ∈ labelOf K'.labels v ↔ l ∈ labelOf L v) := by
  obtain ⟨K0, hK0, _, hn, he, h0, _⟩ := clone_spec K h
  obtain ⟨ht, rfl⟩ := make_cases _ _ _ _ K0 hK0
  refine ⟨KripkeD.made K.g.nodes K.s0 K.g.edges L, ?_, made_inv _ _ _ _ ht, hn, he, h0, ?_⟩
  · rw [replace_clone]; exact KripkeD.make_total _ _ _ _ ht
  · intro v hv l
    exact (made_spec K.g.nodes K.s0 K.g.edges L).2.2.2 v ((hn v).mpr hv) l

/-- `get_substructure(V)` is the constructor applied to the entries of `L` for keys in `V` -/
theorem replace_substructure (K : KripkeD σ) (L : List (σ × List String)) (V : List σ) :
    (replaceLabelling K L).substructure V =
      make (K.g.nodes.filter (fun v => decide (v ∈ V))) (K.s0.filter (fun v => decide (v ∈ V)))
        (K.g.edges.filter (fun e => decide (e.1 ∈ V) && decide (e.2 ∈ V)))
        (L.filter (fun p => decide (p.1 ∈ V))) := by
  unfold substructure
  apply make_congr
  intro s
  show labelOf ((completed K L).filter _) s = _
  unfold completed
  rw [List.filter_append]
  apply labelOf_append_empty
  intro p hp
  obtain ⟨a, _, rfl⟩ := List.mem_map.mp (List.mem_filter.mp hp).1
  rfl

/-! ### `labels()` without argument -/

/-- after the call `labels()` is the union of all label sets of `L` — whatever the keys are -/
theorem allLabels_replace (K : KripkeD σ) (L : List (σ × List String)) (a : String) :
    a ∈ allLabelsD (replaceLabelling K L) ↔ ∃ p ∈ L, a ∈ p.2 := by
  show a ∈ (completed K L).flatMap Prod.snd ↔ _
  unfold completed
  simp only [List.flatMap_append, List.mem_append, List.mem_flatMap, List.mem_map, List.mem_filter]
  constructor
  · rintro (h | ⟨p, ⟨s, _, rfl⟩, h⟩)
    · exact h
    · cases h
  · exact Or.inl

/-- an atom attached to a key that is not a state is reported by `labels()` although it labels no state -/
theorem allLabels_extra_key (K : KripkeD σ) (L : List (σ × List String)) (x : σ) (ls : List String) (a : String)
    (hx : (x, ls) ∈ L) (ha : a ∈ ls) (hstates : ∀ s ∈ K.g.nodes, a ∉ labelOf L s) :
    a ∈ allLabelsD (replaceLabelling K L) ∧ a ∉ (replaceLabelling K L).toKripke.allLabels := by
  refine ⟨(allLabels_replace K L a).mpr ⟨(x, ls), hx, ha⟩, ?_⟩
  rw [replace_toKripke]
  simp only [Kripke.allLabels, toKripke, List.mem_flatMap, not_exists, not_and]
  exact hstates

/-- for a constructed structure `labels()` is exactly the atoms that label some state -/
theorem allLabels_constructed (K : KripkeD σ) (h : Inv K) (a : String) :
    a ∈ allLabelsD K ↔ a ∈ K.toKripke.allLabels := by
  have hnd : (K.labels.map Prod.fst).Nodup := h.labelled ▸ h.wfg.nodup
  have key : ∀ (L : List (σ × List String)), (L.map Prod.fst).Nodup → ∀ p ∈ L, labelOf L p.1 = p.2 := by
    intro L
    induction L with
    | nil => intro _ p hp; cases hp
    | cons q L ih =>
      intro hnd p hp
      rw [List.map_cons, List.nodup_cons] at hnd
      rw [labelOf_cons]
      rcases List.mem_cons.mp hp with rfl | hp
      · rw [if_pos rfl]
      · have : ¬ q.1 = p.1 := fun e => hnd.1 (e ▸ List.mem_map.mpr ⟨p, hp, rfl⟩)
        rw [if_neg this]
        exact ih hnd.2 p hp
  simp only [allLabelsD, Kripke.allLabels, toKripke, List.mem_flatMap]
  constructor
  · rintro ⟨p, hp, ha⟩
    refine ⟨p.1, ?_, ?_⟩
    · rw [← h.labelled]; exact List.mem_map.mpr ⟨p, hp, rfl⟩
    · rw [key K.labels hnd p hp]; exact ha
  · rintro ⟨s, hs, ha⟩
    rw [← h.labelled] at hs
    obtain ⟨p, hp, rfl⟩ := List.mem_map.mp hs
    exact ⟨p, hp, by rw [← key K.labels hnd p hp]; exact ha⟩

/-! ### undoing the replacement -/

/-- handing the returned former dict back restores a constructed structure -/
theorem replace_restore (K : KripkeD σ) (h : Inv K) (L : List (σ × List String)) :
    replaceLabelling (replaceLabelling K L) (replaceLabellingResult K L) = K := by
  have : (replaceLabelling (replaceLabelling K L) K.labels).labels = K.labels := by
    apply replace_total
    intro s hs
    have hs' : s ∈ K.labels.map Prod.fst := h.labelled ▸ hs
    obtain ⟨p, hp, rfl⟩ := List.mem_map.mp hs'
    exact List.any_eq_true.mpr ⟨p, hp, by simp⟩
  cases K
  simp only [replaceLabelling, replaceLabellingResult] at this ⊢
  rw [this]

/-! ### non-vacuity -/

/-- states 0, 1; `L = {0: {a}, 7: {zz}}`: state 1 gets the empty set, key 7 stays, `labels(7)` is a RuntimeError,
    `labels()` contains `zz`, the clone has exactly the states as keys -/
example : ∃ K, KripkeD.make [0, 1] [0] [(0, 1), (1, 0)] [(0, ["p"])] = .ok K ∧
    (replaceLabelling K [(0, ["a"]), (7, ["zz"])]).labels = [(0, ["a"]), (7, ["zz"]), (1, [])] ∧
    (replaceLabelling K [(0, ["a"]), (7, ["zz"])]).labelsAt 1 = .ok [] ∧
    (replaceLabelling K [(0, ["a"]), (7, ["zz"])]).labelsAt 7 = .error .runtimeError ∧
    allLabelsD (replaceLabelling K [(0, ["a"]), (7, ["zz"])]) = ["a", "zz"] ∧
    (replaceLabelling K [(0, ["a"]), (7, ["zz"])]).toKripke.allLabels = ["a"] ∧
    ((replaceLabelling K [(0, ["a"]), (7, ["zz"])]).clone.toOption.map (·.labels)) = some [(0, ["a"]), (1, [])] := by
  refine ⟨_, rfl, ?_, ?_, ?_, ?_, ?_, ?_⟩ <;> decide

#print axioms replace_labelsAt_state
#print axioms replace_fully_labelled
#print axioms replace_total
#print axioms replace_toKripke
#print axioms replace_clone
#print axioms replace_clone_spec
#print axioms replace_substructure
#print axioms allLabels_replace
#print axioms allLabels_extra_key
#print axioms allLabels_constructed
#print axioms replace_restore
end PMC.C14
