/-
  C14 at label-set granularity — a constructed / cloned / sub- structure shares no label set with anything that
  existed before, and every state has a label set of its own.

  In PMC/Properties/C14.lean a `KripkeD` holds its label VALUES, so "the clone shares no label set with the original"
  is true by construction and says nothing about the code.  Here (model: PMC/Model/LabelStore.lean) the label sets
  are heap objects and a `Kripke` object points to them; sharing is expressible (`KObj.cloneShallow` does it) and its
  absence is a theorem about `KObj.construct` / `KObj.clone` / `KObj.substructure`:

    * `construct_fresh`, `clone_shares_no_label_set`, `substructure_shares_no_label_set` — the new object points to no
      label set that was live before (in particular to none of the original, and to none of the collections of the
      dict passed to the constructor);
    * `construct_distinct`, `clone_distinct`, `substructure_distinct` — distinct states point to distinct sets;
    * `construct_value`, `clone_value`, `substructure_value` — the contents were copied;
    * `clone_frame`, … — no live set is modified by the operation;
    * `clone_independent`, `original_independent` — an `.add` through `clone.labels(s)` does not change the original
      and vice versa;
    * `cloneShallow` has the right VALUE (`cloneShallow_value`) but violates all of the above
      (`cloneShallow_shares`, `cloneShallow_dependent`): the theorems distinguish a deep from a shallow copy.
-/
import PMC.Proofs.LabelStore
namespace PMC.C14
open PMC PMC.KObj
variable {σ : Type} [DecidableEq σ]

/-! ### the constructor -/

/-- the constructor allocates: the new object points to no set that existed before … -/
theorem construct_fresh (h : LHeap) (S : List σ) (succ : σ → List σ) (L : σ → Option LabId) (s : σ) (id : Nat)
    (hid : id < h.mark) : (construct h S succ L).2.lab s ≠ id := by
  have := construct_lab_ge h S succ L s
  intro e; rw [e] at this; omega

/-- … in particular to none of the collections of the caller's dict `L` (they are copied, not adopted) -/
theorem construct_copies_L (h : LHeap) (S : List σ) (succ : σ → List σ) (L : σ → Option LabId)
    (hL : ∀ t id, L t = some id → id < h.mark) (s t : σ) (id : LabId) (ht : L t = some id) :
    (construct h S succ L).2.lab s ≠ id :=
  construct_fresh h S succ L s id (hL t id ht)

/-- every state of a constructed object has a label set of its own -/
theorem construct_distinct (h : LHeap) (S : List σ) (succ : σ → List σ) (L : σ → Option LabId) (s t : σ)
    (hs : s ∈ S) (ht : t ∈ S) (hne : s ≠ t) : (construct h S succ L).2.lab s ≠ (construct h S succ L).2.lab t :=
  fun e => hne (construct_inj h S succ L s hs t ht e)

/-- the new sets are live in the new heap -/
theorem construct_live (h : LHeap) (S : List σ) (succ : σ → List σ) (L : σ → Option LabId) :
    (construct h S succ L).2.Live (construct h S succ L).1 := KObj.construct_live h S succ L

/-- the label set of state `s` holds what `L[s]` held (nothing for a state missing from `L`) -/
theorem construct_value (h : LHeap) (S : List σ) (succ : σ → List σ) (L : σ → Option LabId) :
    (construct h S succ L).2.value (construct h S succ L).1 =
      { states := S, succ := succ,
        lab := fun s => if s ∈ S then (match L s with | some id => h.get id | none => []) else [] } :=
  KObj.construct_value h S succ L

/-- the constructor modifies no live set: every live object keeps its value -/
theorem construct_frame (h : LHeap) (S : List σ) (succ : σ → List σ) (L : σ → Option LabId) (o' : KObj σ)
    (hl : o'.Live h) : o'.value (construct h S succ L).1 = o'.value h :=
  value_congr o' _ _ (fun s hs => construct_old h S succ L _ (hl s hs))

/-! ### `clone()` -/

/-- every label set of the clone was allocated by `clone()` -/
theorem clone_fresh (h : LHeap) (o : KObj σ) (s : σ) : h.mark ≤ (clone h o).2.lab s := by
  rw [clone_eq]; exact rebuild_lab_ge _ _ _ _ _

/-- **the clone shares no label set with the original** … -/
theorem clone_shares_no_label_set (h : LHeap) (o : KObj σ) (hl : o.Live h) (s t : σ) (ht : t ∈ o.states) :
    (clone h o).2.lab s ≠ o.lab t := by
  have h1 := clone_fresh h o s
  have h2 := hl t ht
  intro e; rw [e] at h1; lomega

/-- … nor with any other live object -/
theorem clone_shares_no_label_set_with (h : LHeap) (o o' : KObj σ) (hl : o'.Live h) (s t : σ) (ht : t ∈ o'.states) :
    (clone h o).2.lab s ≠ o'.lab t := by
  have h1 := clone_fresh h o s
  have h2 := hl t ht
  intro e; rw [e] at h1; lomega

/-- the same through the public accessor: `clone.labels(s)` and `original.labels(t)` are never the same object -/
theorem clone_labels_not_aliased (h : LHeap) (o : KObj σ) (hl : o.Live h) (s t : σ) (id : LabId)
    (hs : (clone h o).2.labelsOf s = some id) : o.labelsOf t ≠ some id := by
  unfold labelsOf at hs ⊢
  split at hs
  · injection hs with hs
    split
    · rename_i ht
      intro e; injection e with e
      exact clone_shares_no_label_set h o hl s t ht (hs.trans e.symm)
    · intro e; cases e
  · cases hs

theorem clone_distinct (h : LHeap) (o : KObj σ) (s t : σ) (hs : s ∈ o.states) (ht : t ∈ o.states) (hne : s ≠ t) :
    (clone h o).2.lab s ≠ (clone h o).2.lab t := by
  have hi := rebuild_inj h o (fun _ => true) o.succ
  rw [← clone_eq] at hi
  have hst : (clone h o).2.states = o.states := by rw [clone_eq]; simp
  exact fun e => hne (hi s (hst ▸ hs) t (hst ▸ ht) e)

theorem clone_states (h : LHeap) (o : KObj σ) : (clone h o).2.states = o.states := by rw [clone_eq]; simp

theorem clone_live (h : LHeap) (o : KObj σ) : (clone h o).2.Live (clone h o).1 := by
  rw [clone_eq]; exact rebuild_live _ _ _ _

/-- the clone has the value of the original -/
theorem clone_value (h : LHeap) (o : KObj σ) : (clone h o).2.value (clone h o).1 = o.value h := by
  rw [clone_eq, rebuild_value]
  simp only [List.filter_true]
  rfl

/-- `clone()` modifies no live set: every live object, the original included, keeps its value -/
theorem clone_frame (h : LHeap) (o : KObj σ) (o' : KObj σ) (hl : o'.Live h) : o'.value (clone h o).1 = o'.value h := by
  rw [clone_eq]; exact rebuild_frame h o _ _ o' hl

/-- an `.add` through `clone.labels(s)` is invisible in the original … -/
theorem clone_independent (h : LHeap) (o : KObj σ) (hl : o.Live h) (s : σ) (id : LabId)
    (hs : (clone h o).2.labelsOf s = some id) (a : String) :
    o.value ((clone h o).1.addTo id a) = o.value h := by
  rw [← clone_frame h o o hl]
  apply value_congr
  intro t ht
  rw [LHeap.get_addTo, if_neg]
  intro e
  exact clone_labels_not_aliased h o hl s t id hs (by simp [labelsOf, ht, e])

/-- … and an `.add` through `original.labels(t)` is invisible in the clone -/
theorem original_independent (h : LHeap) (o : KObj σ) (hl : o.Live h) (t : σ) (id : LabId)
    (ht : o.labelsOf t = some id) (a : String) :
    (clone h o).2.value ((clone h o).1.addTo id a) = o.value h := by
  rw [← clone_value h o]
  apply value_congr
  intro s hs
  rw [LHeap.get_addTo, if_neg]
  intro e
  exact clone_labels_not_aliased h o hl s t id (by simp [labelsOf, hs, e]) ht

/-! ### `get_substructure(V)` -/

theorem substructure_fresh (h : LHeap) (o : KObj σ) (V : List σ) (s : σ) : h.mark ≤ (substructure h o V).2.lab s := by
  rw [substructure_eq]; exact rebuild_lab_ge _ _ _ _ _

/-- **the sub-structure shares no label set with the original** (nor with any other live object) -/
theorem substructure_shares_no_label_set (h : LHeap) (o : KObj σ) (V : List σ) (o' : KObj σ) (hl : o'.Live h)
    (s t : σ) (ht : t ∈ o'.states) : (substructure h o V).2.lab s ≠ o'.lab t := by
  have h1 := substructure_fresh h o V s
  have h2 := hl t ht
  intro e; rw [e] at h1; lomega

theorem substructure_states (h : LHeap) (o : KObj σ) (V : List σ) :
    (substructure h o V).2.states = o.states.filter (fun s => decide (s ∈ V)) := rfl

theorem substructure_distinct (h : LHeap) (o : KObj σ) (V : List σ) (s t : σ)
    (hs : s ∈ (substructure h o V).2.states) (ht : t ∈ (substructure h o V).2.states) (hne : s ≠ t) :
    (substructure h o V).2.lab s ≠ (substructure h o V).2.lab t := by
  have hi := rebuild_inj h o (fun s => decide (s ∈ V))
    (fun s => if s ∈ V then (o.succ s).filter (fun t => decide (t ∈ V)) else [])
  rw [← substructure_eq] at hi
  exact fun e => hne (hi s hs t ht e)

/-- the kept states keep their labels (copied), the transitions are those inside `V` -/
theorem substructure_value (h : LHeap) (o : KObj σ) (V : List σ) :
    (substructure h o V).2.value (substructure h o V).1 =
      { states := o.states.filter (fun s => decide (s ∈ V)),
        succ := fun s => if s ∈ V then (o.succ s).filter (fun t => decide (t ∈ V)) else [],
        lab := fun s => if s ∈ o.states.filter (fun s => decide (s ∈ V)) then h.get (o.lab s) else [] } := by
  rw [substructure_eq, rebuild_value]

theorem substructure_frame (h : LHeap) (o : KObj σ) (V : List σ) (o' : KObj σ) (hl : o'.Live h) :
    o'.value (substructure h o V).1 = o'.value h := by
  rw [substructure_eq]; exact rebuild_frame h o _ _ o' hl

/-! ### the contrast: a shallow clone -/

/-- a shallow clone has the right VALUE: equality of values cannot tell it from a deep one -/
theorem cloneShallow_value (h : LHeap) (o : KObj σ) : (cloneShallow h o).2.value (cloneShallow h o).1 = o.value h := rfl

omit [DecidableEq σ] in
/-- … but it shares every label set with the original -/
theorem cloneShallow_shares (h : LHeap) (o : KObj σ) (s : σ) : (cloneShallow h o).2.lab s = o.lab s := rfl

def hL1 : LHeap := ⟨2, fun id => if id = 0 then ["p"] else [], []⟩
def oL1 : KObj Nat := ⟨[0, 1], fun s => if s = 0 then [0, 1] else [0], fun s => s⟩

theorem oL1_live : oL1.Live hL1 := by unfold KObj.Live; decide

/-- `cloneShallow` violates `clone_shares_no_label_set` … -/
example : ¬ (∀ (h : LHeap) (o : KObj Nat), o.Live h → ∀ s t, t ∈ o.states → (cloneShallow h o).2.lab s ≠ o.lab t) :=
  fun hall => hall hL1 oL1 oL1_live 0 0 (by decide) rfl

/-- … and `clone_independent`: an `.add` through `cloneShallow.labels(0)` shows in the original -/
theorem cloneShallow_dependent :
    (cloneShallow hL1 oL1).2.labelsOf 0 = some 0 ∧ (oL1.value hL1).lab 0 = ["p"] ∧
    (oL1.value ((cloneShallow hL1 oL1).1.addTo 0 "x")).lab 0 = ["x", "p"] := by decide

-- whereas for the real clone: fresh identities, same contents, and the `.add` does not show
example : (clone hL1 oL1).2.labelsOf 0 = some 4 ∧ (clone hL1 oL1).2.labelsOf 1 = some 5 ∧ (clone hL1 oL1).1.mark = 6 := by
  decide
example : ((clone hL1 oL1).2.value (clone hL1 oL1).1).lab 0 = ["p"] := by decide
example : (oL1.value ((clone hL1 oL1).1.addTo 4 "x")).lab 0 = ["p"] ∧
    ((clone hL1 oL1).2.value ((clone hL1 oL1).1.addTo 4 "x")).lab 0 = ["x", "p"] := by decide
example : (substructure hL1 oL1 [0]).2.states = [0] ∧ (substructure hL1 oL1 [0]).2.labelsOf 0 = some 3 ∧
    ((substructure hL1 oL1 [0]).2.value (substructure hL1 oL1 [0]).1).lab 0 = ["p"] ∧
    (substructure hL1 oL1 [0]).2.succ 0 = [0] := by decide

#print axioms construct_fresh
#print axioms construct_distinct
#print axioms construct_value
#print axioms clone_shares_no_label_set
#print axioms clone_labels_not_aliased
#print axioms clone_distinct
#print axioms clone_value
#print axioms clone_frame
#print axioms clone_independent
#print axioms original_independent
#print axioms substructure_shares_no_label_set
#print axioms substructure_distinct
#print axioms substructure_value
#print axioms cloneShallow_dependent
end PMC.C14
