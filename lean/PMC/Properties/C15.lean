/-
  C15 — Fairness constraints.

  "get_fair_states(F) returns exactly the states from which some infinite path visits every set in F infinitely
   often.  With F given, each modelcheck interprets A/E over fair paths only and an atom p as 'p holds and a fair
   path starts here' (Clarke–Grumberg–Peled); with F=None or an F that every path satisfies, the answer equals the
   unconstrained one; and for every F no call raises an internal error or modifies K."

  THIS PROPERTY DOES NOT HOLD on pyModelChecking as it is: four recorded defects (known_findings.json KF-C15-a..d,
  DESIGN.md §1.1 rows D7–D10).  They are recorded, not repaired.  What this file establishes:

    * the *corrected* computation of the fair states (`fairStatesSpec`: the `or` of `is_a_fair_SCC` turned into the
      intended `and`) meets the specification — `fairStatesSpec_exact`;
    * the AS-IMPLEMENTED model (PMC/Model/Fair.lean, tied to the code by harness/validate_fair.py: 0 mismatches)
      deviates from the specification (PMC/Spec/Fair.lean) on concrete witnesses — `KF_a`, `KF_a_fair_state_missed`,
      `KF_a_trivial_F` (whereas the specification itself meets that clause: `spec_trivial_F`), `KF_b` — and raises TypeError on whole classes of inputs — `KF_c` (every LTL call with F),
      `KF_d` (every CTL formula `E(f R g)` with F);
    * the parts of the property that DO hold: `F=None` is the unconstrained checker (`*_none`, by definition), and
      the caller's structure is never modified — in the functional model this is true by construction (every entry
      point returns a result computed from `K`; there is nothing to mutate), on the implementation side it is what
      harness/validate_fair.py observes on every call (snapshot before/after).
-/
import PMC.Spec.Fair
import PMC.Model.Fair
import PMC.Proofs.Fair
namespace PMC.C15
open PMC PMC.Fair
variable {σ : Type} [DecidableEq σ]

/-! ### the corrected computation meets the specification -/

/-- **`get_fair_states`, corrected, is exact**: for every well-formed (total, finite) structure and every list of
    constraints, the result is exactly the set of states of `K` from which a fair path starts -/
theorem fairStatesSpec_exact (K : Kripke σ) (hK : K.WF) (F : List (List σ)) (s : σ) :
    s ∈ fairStatesSpec K F ↔ s ∈ K.states ∧ FairState K F s :=
  fairStatesSpec_exact' K hK F s

omit [DecidableEq σ] in
/-- with no constraint, every state of a total structure is a fair state (sanity of the specification) -/
theorem fairState_nil (K : Kripke σ) (hK : K.WF) (s : σ) (hs : s ∈ K.states) : FairState K [] s := by
  obtain ⟨π, hπ, h0⟩ := CTL.exists_kpath K hK s hs
  exact ⟨π, ⟨hπ, by simp⟩, h0⟩

omit [DecidableEq σ] in
/-- the specification itself meets the "F that every path satisfies" clause: with no constraint the fair semantics
    is the ordinary one at every state of a total structure (so a deviation there is the implementation's) -/
theorem spec_trivial_F (K : Kripke σ) (hK : K.WF) (f : Fm) (s : σ) (hs : s ∈ K.states) :
    satStateF K [] f s ↔ satState K f s :=
  satF_nil K hK f (fun _ => s) 0 (fun _ => hs)

/-! ### KF-C15-a: `len(scc) == 1 or v not in self.next(v)` -/

/-- one state with a self-loop -/
def K₀ : Kripke Nat := { states := [0], succ := fun _ => [0], lab := fun _ => [] }
def F₀ : List (List Nat) := [[0]]

theorem wf_K0 : K₀.WF := by
  refine ⟨?_, ?_, ?_⟩ <;> simp [K₀]

theorem KF_a_values : fairStatesImpl K₀ F₀ = [] ∧ fairStatesSpec K₀ F₀ = [0] := by decide

/-- the as-implemented `get_fair_states` differs from the corrected one -/
theorem KF_a : fairStatesImpl K₀ F₀ ≠ fairStatesSpec K₀ F₀ := by decide

/-- … and the difference is a violation of the specification: 0 is a fair state that the implementation misses -/
theorem KF_a_fair_state_missed : 0 ∈ K₀.states ∧ FairState K₀ F₀ 0 ∧ 0 ∉ fairStatesImpl K₀ F₀ := by
  have h := (fairStatesSpec_exact K₀ wf_K0 F₀ 0).mp (by decide)
  exact ⟨h.1, h.2, by decide⟩

/-- "an F that every path satisfies gives the unconstrained answer" fails too: with the empty list of constraints
    (every path is fair, `fairState_nil`) the as-implemented CTL checker answers `true` with the empty set, the
    unconstrained one with {0}, and the specification says `true` holds at 0 -/
theorem KF_a_trivial_F :
    CTL.modelcheckF K₀ (some []) .tt = .ok [] ∧ CTL.modelcheckF K₀ none .tt = .ok [0] ∧ satStateF K₀ [] .tt 0 := by
  refine ⟨by decide +kernel, by decide +kernel, ?_⟩
  exact (spec_trivial_F K₀ wf_K0 .tt 0 (by simp [K₀])).mpr (by simp [satState, sat])

/-! ### KF-C15-b: "fair path" encoded as "path through fair states" -/

/-- 0 → 0, 0 → 1, 1 → 0; p at 0 -/
def K₁ : Kripke Nat :=
  { states := [0, 1], succ := fun s => if s = 0 then [0, 1] else [0], lab := fun s => if s = 0 then ["p"] else [] }
def F₁ : List (List Nat) := [[1]]

theorem wf_K1 : K₁.WF := by
  refine ⟨?_, ?_, ?_⟩ <;> simp [K₁]

/-- here the as-implemented fair states are the right ones (the root 0 of the component has a self-loop) … -/
theorem KF_b_fair_states : fairStatesImpl K₁ F₁ = fairStatesSpec K₁ F₁ := by decide

/-- … every state is a fair state … -/
theorem KF_b_all_fair (s : Nat) (hs : s ∈ K₁.states) : FairState K₁ F₁ s :=
  ((fairStatesSpec_exact K₁ wf_K1 F₁ s).mp (by
    have : s = 0 ∨ s = 1 := by simpa [K₁] using hs
    rcases this with rfl | rfl <;> decide)).2

/-- … but no fair path satisfies `G p`: a fair path visits state 1, where p does not hold -/
theorem KF_b_spec : ¬ satStateF K₁ F₁ (.E (.G (.ap "p"))) 0 := by
  simp only [satStateF, satF]
  rintro ⟨π, ⟨_, hfair⟩, _, hG⟩
  obtain ⟨m, _, hm⟩ := hfair [1] (by simp [F₁]) 0
  have h1 : π m = 1 := by simpa using hm
  have := (hG m (Nat.zero_le _)).1
  rw [h1] at this
  simp [K₁] at this

/-- the as-implemented answer for `E G p` under F₁ contains 0, the specification excludes it -/
theorem KF_b :
    CTL.modelcheckF K₁ (some F₁) (.E (.G (.ap "p"))) = .ok [0] ∧ ¬ satStateF K₁ F₁ (.E (.G (.ap "p"))) 0 :=
  ⟨by decide +kernel, KF_b_spec⟩

/-! ### KF-C15-c: `LTL.modelcheck(K, f, F=F)` always raises TypeError -/

/-- for EVERY structure, EVERY list of constraints and EVERY formula `A g` (the only formulas the entry point accepts
    at all): the conjunction `And(fair_label, …)` is outside the alphabet of `_get_closure` -/
theorem KF_c (K : Kripke σ) (F : List (List σ)) (g : Fm) :
    LTL.modelcheckF K (some F) (.A g) = .error .typeError := by
  simp [LTL.modelcheckF, LTL.toR]

/-- hence for every formula whatsoever -/
theorem KF_c_all (K : Kripke σ) (F : List (List σ)) (f : Fm) :
    LTL.modelcheckF K (some F) f = .error .typeError := by
  cases f <;> simp [LTL.modelcheckF, LTL.toR]

/-! ### KF-C15-d: the `E R` clause of the CTL rewriting calls `EU` with three arguments -/

/-- the rewriting itself: TypeError on `E(f1 R f2)`, whatever `f1`, `f2` -/
theorem KF_d_rewrite (fair : String) (f1 f2 : Fm) : nonFairCTL fair (.E (.R f1 f2)) = .error .typeError := by
  cases h : nonFairCTL fair (.E (.R f1 f2)) with
  | error e => rw [nonFairCTL_error fair _ e h]
  | ok f' =>
    exfalso
    simp only [nonFairCTL] at h
    split at h
    · cases h
    · split at h <;> cases h

/-- `CTL.modelcheck(K, E(f1 R f2), F=F)` raises TypeError for every structure, every list of constraints and all
    operands (if the operands are not CTL state formulas the entry point has already rejected the formula — with the
    same TypeError) -/
theorem KF_d (K : Kripke σ) (F : List (List σ)) (f1 f2 : Fm) :
    CTL.modelcheckF K (some F) (.E (.R f1 f2)) = .error .typeError := by
  simp only [CTL.modelcheckF, KF_d_rewrite]
  split <;> rfl

/-- more generally: TypeError as soon as `E(f1 R f2)` occurs anywhere in the formula (`hasER`) -/
theorem KF_d_anywhere (K : Kripke σ) (F : List (List σ)) (f : Fm) (h : hasER f = true) :
    CTL.modelcheckF K (some F) f = .error .typeError := by
  simp only [CTL.modelcheckF, nonFairCTL_hasER _ f h]
  split <;> rfl

/-- the same through the CTL* entry point: `_checkQuantifiedFormula` casts `E(p R q)` to CTL, the rewriting raises,
    and the handler raises again -/
theorem KF_d_ctls (K : Kripke σ) (F : List (List σ)) (a b : String) :
    CTLS.modelcheckF K (some F) (.E (.R (.ap a) (.ap b))) = .error .typeError := by
  simp [CTLS.modelcheckF, CTLS.removeStateF, CTLS.checkQF, Fm.isCTLState, KF_d_rewrite]

/-! ### the parts that do hold -/

/-- `F=None` is the unconstrained checker — by definition of the model, which follows the `if F is not None` of the
    three entry points -/
theorem ctl_none (K : Kripke σ) (f : Fm) : CTL.modelcheckF K none f = CTL.modelcheck K f := rfl
theorem ltl_none (K : Kripke σ) (f : Fm) : LTL.modelcheckF K none f = LTL.modelcheck K f := rfl
theorem ctls_none (K : Kripke σ) (f : Fm) : CTLS.modelcheckF K none f = CTLS.modelcheck K f := rfl

-- "no call modifies K": nothing to prove in the functional model (see the header).

/-! ### non-vacuity -/

/-- 0 ⇄ 1 is a fair component for F = [[1]], 2 → 2 is a cycle that never visits 1, 3 → 0 leads into the fair
    component, 4 → 2 only into the unfair one -/
def K₂ : Kripke Nat :=
  { states := [0, 1, 2, 3, 4],
    succ := fun s => if s = 0 then [1] else if s = 1 then [0] else if s = 2 then [2] else if s = 3 then [0] else [2],
    lab := fun _ => [] }

example : K₂.WF := by
  refine ⟨?_, ?_, ?_⟩ <;> simp [K₂]

example : fairStatesSpec K₂ [[1]] = [3, 0, 1] := by decide
example : fairStatesSpec K₂ [] = [3, 4, 0, 1, 2] := by decide
example : fairStatesSpec K₂ [[1], [2]] = [] := by decide
/-- the as-implemented version loses even the two-node component (its root 0 has no self-loop) -/
example : fairStatesImpl K₂ [[1]] = [] := by decide

/-- the hypotheses of `fairStatesSpec_exact` are met and both outcomes occur -/
example : FairState K₂ [[1]] 3 ∧ ¬ FairState K₂ [[1]] 4 := by
  have hwf : K₂.WF := by refine ⟨?_, ?_, ?_⟩ <;> simp [K₂]
  refine ⟨((fairStatesSpec_exact K₂ hwf [[1]] 3).mp (by decide)).2, fun h => ?_⟩
  have := (fairStatesSpec_exact K₂ hwf [[1]] 4).mpr ⟨by decide, h⟩
  revert this; decide

/-- the as-implemented checkers do compute something (no vacuous agreement): CTL and CTL* with constraints -/
example : CTL.modelcheckF K₁ (some F₁) (.A (.F (.not (.ap "p")))) = .ok [1] := by decide +kernel
example : CTLS.modelcheckF K₁ (some F₁) (.A (.G (.F (.ap "p")))) = .ok [0, 1] := by decide +kernel
example : fairLabel K₁ = "fair" := by decide +kernel

#print axioms fairStatesSpec_exact
#print axioms spec_trivial_F
#print axioms KF_a
#print axioms KF_a_fair_state_missed
#print axioms KF_a_trivial_F
#print axioms KF_b
#print axioms KF_c
#print axioms KF_c_all
#print axioms KF_d
#print axioms KF_d_anywhere
#print axioms KF_d_ctls
end PMC.C15
