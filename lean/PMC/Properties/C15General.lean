/-
  C15, the clause "with F=None or an F that every path satisfies, the answer equals the unconstrained one" — at the
  level of the SPECIFICATION (PMC/Spec/Fair.lean), for a general `F`.

  `C15.spec_trivial_F` states it for `F = []` only.  Here: if every path of K is fair for `F`, the fair semantics
  `satF K F` coincides with the ordinary semantics `sat K`

    * along every path of K, at every position, for every CTL* formula (`spec_all_paths_fair_path`; no
      well-formedness needed), and
    * at every state of a well-formed (total) structure (`spec_all_paths_fair`, `satStateF`/`satState`); there it is
      enough that the paths *starting at a state of K* are fair.

  Totality matters only for the state-level form: `⊤` (and an atom) under fairness means "a fair path starts here",
  which at a state without any infinite path is false whereas `sat K ⊤` is true (`needs_total`).

  `spec_constraints_contain_states`: a sufficient condition that is easy to check — every constraint set contains
  every state (e.g. `F = [K.states]`, or `F = [K.states, K.states]`); `all_paths_fair_K1`: an F that does *not*
  contain every state and that every path satisfies nevertheless.

  As for `spec_trivial_F`, this is a statement about the specification; the as-implemented checkers violate the
  clause (`C15.KF_a_trivial_F`).
-/
import PMC.Properties.C15
import PMC.Proofs.FairTrivial
import PMC.Proofs.Laws
namespace PMC.C15
open PMC PMC.Fair
variable {σ : Type}

/-- if every path of K is fair, "fair path" and "path" are the same notion -/
theorem fairPath_iff_isPath (K : Kripke σ) (F : List (List σ)) (hF : ∀ π, IsPath K π → FairPath K F π)
    (π : Nat → σ) : FairPath K F π ↔ IsPath K π :=
  ⟨fun h => h.1, hF π⟩

/-- **an F that every path satisfies gives the unconstrained semantics**, path level: for every CTL* formula, along
    every path of K, at every position -/
theorem spec_all_paths_fair_path (K : Kripke σ) (F : List (List σ)) (hF : ∀ π, IsPath K π → FairPath K F π)
    (f : Fm) (π : Nat → σ) (hπ : IsPath K π) (i : Nat) :
    satF K F f π i ↔ sat K f π i :=
  satF_of_all_fair K F (fun _ => True) (fun _ _ _ _ => trivial) (fun π hπ _ => hF π hπ) f π i
    (fun j => ⟨trivial, fun k => π (j + k), fun k => hπ (j + k), rfl⟩)

/-- **the same at the states of a well-formed structure** (the form of `spec_trivial_F`); only the paths that start
    at a state of K need to be fair -/
theorem spec_all_paths_fair (K : Kripke σ) (hK : K.WF) (F : List (List σ))
    (hF : ∀ π, IsPath K π → π 0 ∈ K.states → FairPath K F π) (f : Fm) (s : σ) (hs : s ∈ K.states) :
    satStateF K F f s ↔ satState K f s :=
  satF_of_all_fair K F (· ∈ K.states) (fun π hπ h0 => CTL.path_states K hK π hπ h0) hF f (fun _ => s) 0
    (fun _ => ⟨hs, CTL.exists_kpath K hK s hs⟩)

/-- … and along every sequence of states of a well-formed structure (the form of `satF_nil`) -/
theorem spec_all_paths_fair_seq (K : Kripke σ) (hK : K.WF) (F : List (List σ))
    (hF : ∀ π, IsPath K π → π 0 ∈ K.states → FairPath K F π) (f : Fm) (π : Nat → σ)
    (hπ : ∀ j, π j ∈ K.states) (i : Nat) :
    satF K F f π i ↔ sat K f π i :=
  satF_of_all_fair K F (· ∈ K.states) (fun π hπ h0 => CTL.path_states K hK π hπ h0) hF f π i
    (fun j => ⟨hπ j, CTL.exists_kpath K hK _ (hπ j)⟩)

/-- then every state of the structure is a fair state -/
theorem fairState_of_all_paths_fair (K : Kripke σ) (hK : K.WF) (F : List (List σ))
    (hF : ∀ π, IsPath K π → π 0 ∈ K.states → FairPath K F π) (s : σ) (hs : s ∈ K.states) : FairState K F s := by
  obtain ⟨π, hπ, h0⟩ := CTL.exists_kpath K hK s hs
  exact ⟨π, hF π hπ (by rw [h0]; exact hs), h0⟩

/-- a checkable sufficient condition: every constraint set contains every state of K (`F = [K.states]`, …) -/
theorem all_paths_fair_of_constraints_contain_states (K : Kripke σ) (hK : K.WF) (F : List (List σ))
    (hFs : ∀ P ∈ F, ∀ s ∈ K.states, s ∈ P) (π : Nat → σ) (hπ : IsPath K π) (h0 : π 0 ∈ K.states) :
    FairPath K F π :=
  ⟨hπ, fun P hP n => ⟨n, Nat.le_refl n, hFs P hP _ (CTL.path_states K hK π hπ h0 n)⟩⟩

theorem spec_constraints_contain_states (K : Kripke σ) (hK : K.WF) (F : List (List σ))
    (hFs : ∀ P ∈ F, ∀ s ∈ K.states, s ∈ P) (f : Fm) (s : σ) (hs : s ∈ K.states) :
    satStateF K F f s ↔ satState K f s :=
  spec_all_paths_fair K hK F (all_paths_fair_of_constraints_contain_states K hK F hFs) f s hs

/-- the instance named in the review: `F = [K.states]` -/
theorem spec_F_states (K : Kripke σ) (hK : K.WF) (f : Fm) (s : σ) (hs : s ∈ K.states) :
    satStateF K [K.states] f s ↔ satState K f s :=
  spec_constraints_contain_states K hK [K.states] (by simp) f s hs

/-- `spec_trivial_F` is the instance `F = []` -/
example (K : Kripke σ) (hK : K.WF) (f : Fm) (s : σ) (hs : s ∈ K.states) :
    satStateF K [] f s ↔ satState K f s :=
  spec_constraints_contain_states K hK [] (by simp) f s hs

/-! ### non-vacuity -/

/-- in `K₁` (0 → 0, 0 → 1, 1 → 0) every path visits 0 infinitely often, although the constraint `[0]` does not
    contain the state 1: an F that every path satisfies without being trivial -/
theorem all_paths_fair_K1 (π : Nat → Nat) (hπ : IsPath K₁ π) : FairPath K₁ [[0]] π := by
  refine ⟨hπ, fun P hP n => ?_⟩
  obtain rfl : P = [0] := by simpa using hP
  by_cases h : π n = 0
  · exact ⟨n, Nat.le_refl n, by simp [h]⟩
  · refine ⟨n + 1, Nat.le_succ n, ?_⟩
    have := hπ n
    simpa [K₁, h] using this

example (f : Fm) (s : Nat) (hs : s ∈ K₁.states) : satStateF K₁ [[0]] f s ↔ satState K₁ f s :=
  spec_all_paths_fair K₁ wf_K1 [[0]] (fun π hπ _ => all_paths_fair_K1 π hπ) f s hs

/-- the hypothesis is a real restriction: for `F₁ = [[1]]` the path 0 0 0 … of `K₁` is not fair, and the fair and
    the ordinary semantics differ (`E G p` holds at 0, not under `F₁`: `KF_b_spec`) -/
example : ¬ ∀ π, IsPath K₁ π → FairPath K₁ F₁ π := by
  intro h
  have := (h (fun _ => 0) (fun _ => by simp [K₁])).2 [1] (by simp [F₁]) 0
  simp at this

example : satState K₁ (.E (.G (.ap "p"))) 0 ∧ ¬ satStateF K₁ F₁ (.E (.G (.ap "p"))) 0 :=
  ⟨⟨fun _ => 0, fun _ => by simp [K₁], rfl, fun _ _ => by simp [sat, K₁]⟩, KF_b_spec⟩

/-- totality is needed for the state-level form: one state without successor, `F = []` (every path is fair,
    vacuously); `⊤` holds at 0, `⊤` under fairness ("a fair path starts here") does not -/
theorem needs_total :
    (∀ π, IsPath Kdead π → FairPath Kdead [] π) ∧ satState Kdead .tt 0 ∧ ¬ satStateF Kdead [] .tt 0 := by
  refine ⟨fun π hπ => absurd hπ (Kdead_no_path π), trivial, ?_⟩
  rintro ⟨π, hπ, _⟩
  exact Kdead_no_path π hπ.1

#print axioms spec_all_paths_fair_path
#print axioms spec_all_paths_fair
#print axioms spec_all_paths_fair_seq
#print axioms spec_constraints_contain_states
#print axioms spec_F_states
#print axioms all_paths_fair_K1
end PMC.C15
