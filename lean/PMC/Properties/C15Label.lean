/-
  C15 / C03 — the generated label names are fresh.

  `Fair.fairLabel K` (`label_fair_states`: 'fair', 'fair0', 'fair1', …) and `CTLS.freshName K f`
  (`_get_a_new_atomic_proposition_for`: '[f]', '[[f](0)]', '[[f](1)]', …) both return "the first candidate that is not
  among the labels of the structure"; the model has a fall-through branch for "all `labs.length + 1` candidates are
  taken".  That branch is unreachable (pigeonhole + injectivity of `i ↦ toString i`), so the returned name is never a
  label of `K`; moreover the returned name is the *least* free candidate.
-/
import PMC.Model.Fair
import PMC.Model.CTLS
import PMC.Proofs.FreshLabel
namespace PMC.C15
open PMC PMC.Fair PMC.FreshLabel
variable {σ : Type}

/-- the label chosen by `label_fair_states` is not a label of the structure (the fall-through branch is dead) -/
theorem fairLabel_fresh (K : Kripke σ) : fairLabel K ∉ K.allLabels :=
  pick_fresh K.allLabels "fair" (fun i => "fair" ++ toString i) fair_candidates_injective

/-- `'fair'` itself is chosen exactly when it is free -/
theorem fairLabel_eq_fair_iff (K : Kripke σ) : fairLabel K = "fair" ↔ "fair" ∉ K.allLabels := by
  constructor
  · intro h; rw [← h]; exact fairLabel_fresh K
  · intro h; unfold fairLabel; exact if_pos h

/-- otherwise the label is `'fair' ++ i` for the least `i` that is free (and `i ≤` the number of labels) -/
theorem fairLabel_minimal (K : Kripke σ) (h : "fair" ∈ K.allLabels) :
    ∃ i, fairLabel K = "fair" ++ toString i ∧ i ≤ K.allLabels.length ∧
      "fair" ++ toString i ∉ K.allLabels ∧ ∀ j, j < i → "fair" ++ toString j ∈ K.allLabels :=
  pick_minimal K.allLabels "fair" (fun i => "fair" ++ toString i) fair_candidates_injective h

/-- adding the fair label to a structure does not touch any label that was there -/
theorem fairLabel_not_mem_lab (K : Kripke σ) (s : σ) (hs : s ∈ K.states) : fairLabel K ∉ K.lab s :=
  fun h => fairLabel_fresh K (List.mem_flatMap.mpr ⟨s, hs, h⟩)

/-! non-vacuity: a structure on which `'fair'`, `'fair0'` are taken -/
def Ktaken : Kripke Nat := { states := [0, 1], succ := fun _ => [0], lab := fun s => if s = 0 then ["fair", "p"] else ["fair0"] }
example : fairLabel Ktaken = "fair1" := by decide +kernel
example : fairLabel Ktaken ∉ Ktaken.allLabels := fairLabel_fresh _

#print axioms fairLabel_fresh
#print axioms fairLabel_eq_fair_iff
#print axioms fairLabel_minimal
end PMC.C15
