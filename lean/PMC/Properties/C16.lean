/-
  C16 — Equal Boolean functions share one OBDD under every creation/GC history.

  For a fixed variable ordering, two OBDDs obtained by any sequence of parsing, &, |, ^, ~ and restrict compare equal
  (and have the identical root node) exactly when they denote the same Boolean function.  This holds for every
  interleaving of node creation, dropping of references and garbage collection, and no two live non-terminal nodes
  ever share the same (variable, low, high).

  Model (PMC/Model/BDD.lean): the unique table `Store` with `mkNode` (= `BDDNonTerminalNode.__new__`: `low is high`
  shortcut, `find_isomorph` through the smaller parent set, else allocate) and `gc` (removal of any set of nodes whose
  complement is closed under children — CPython's weak sets + reference counting are modelled as "a node may
  disappear only if no live node points to it"); a root is a `Ref`; `treeOf` unfolds a reference.
-/
import PMC.Proofs.BDDOps
namespace PMC.C16
open PMC.BDD

/-- every store reachable by any admissible history of node creations and garbage collections satisfies the
    unique-table invariant -/
theorem history_inv (ops : List Op) (h : HistOk emptyStore ops) : (ops.foldl stepOp emptyStore).Inv :=
  PMC.BDD.history_inv ops h

/-- no two live non-terminal nodes share (variable, low, high) -/
theorem no_duplicate_triple (s : Store) (hs : s.Inv) (p q : Nat × Nd) (hp : p ∈ s.live) (hq : q ∈ s.live)
    (h : p.2 = q.2) : p = q :=
  PMC.BDD.no_duplicate_triple s hs p q hp hq h

/-- two live roots are the identical node exactly when they unfold to the same tree -/
theorem id_eq_iff_tree_eq (s : Store) (hs : s.Inv) (r1 r2 : Ref) (h1 : RefIn s.live r1) (h2 : RefIn s.live r2) :
    r1 = r2 ↔ treeOf s.live r1 = treeOf s.live r2 :=
  ⟨fun h => h ▸ rfl, treeOf_inj s.live hs.wf r1 r2 h1 h2⟩

/-- reduced ordered trees are equal exactly when they denote the same function -/
theorem tree_eq_iff_same_function (s t : BDD) (l1 l2 : Nat) (hs : PMC.BDD.Ord l1 s) (ht : PMC.BDD.Ord l2 t)
    (rs : Reduced s) (rt : Reduced t) : s = t ↔ ∀ ρ, denote s ρ = denote t ρ :=
  ⟨fun h => h ▸ fun _ => rfl, canonical _ s t l1 l2 (Nat.le_refl _) hs ht rs rt⟩

/-- hence: two live roots whose trees are reduced and ordered are the identical node exactly when they denote the
    same Boolean function -/
theorem obdd_eq_iff_same_function (s : Store) (hs : s.Inv) (r1 r2 : Ref)
    (h1 : RefIn s.live r1) (h2 : RefIn s.live r2) (l1 l2 : Nat)
    (o1 : PMC.BDD.Ord l1 (treeOf s.live r1)) (o2 : PMC.BDD.Ord l2 (treeOf s.live r2))
    (d1 : Reduced (treeOf s.live r1)) (d2 : Reduced (treeOf s.live r2)) :
    r1 = r2 ↔ ∀ ρ, denote (treeOf s.live r1) ρ = denote (treeOf s.live r2) ρ := by
  rw [id_eq_iff_tree_eq s hs r1 r2 h1 h2]
  exact tree_eq_iff_same_function _ _ l1 l2 o1 o2 d1 d2

/-- garbage collection never changes what a surviving root denotes -/
theorem gc_preserves (s : Store) (hs : s.Inv) (keep : Nat → Bool) (hc : Closed s.live keep) (r : Ref)
    (hr : RefIn s.live r) (hk : RefKept keep r) :
    RefIn (gc s keep).live r ∧ treeOf (gc s keep).live r = treeOf s.live r :=
  (gc_spec s.live keep hs.wf hc).2 r hr hk

/-! non-vacuity: a concrete history (two creations, a collection that drops the first node, a re-creation) -/
example : HistOk emptyStore
    [.mk 1 (.term false) (.term true), .mk 0 (.term false) (.id 0), .gc [0], .mk 0 (.term false) (.id 0)] := by
  simp [HistOk, OpOk, stepOp, mkNode, findIso, fLow, fHigh, gc, emptyStore, RefIn, Closed]

#print axioms history_inv
#print axioms obdd_eq_iff_same_function
end PMC.C16
