/-
  C16 (API part) — `descendents()`, `ancestors()`, `BDDNode.nodes()` on the unique table.

  Property C16 says "… no two live non-terminal nodes ever share the same (variable, low, high)"; its check scans
  `BDDNode.nodes()`.  This file proves, for the model of PMC/Model/BDDApi.lean (the stack loops of BDD.py over the
  parent sets `f_low` / `f_high`, validated against the library by harness/checks/bdd_api.py), that under the
  unique-table invariant — hence after every admissible creation / collection history — `nodes()` is the set of ALL
  live nodes, so the scan misses nothing; `descendents()` / `ancestors()` are exactly the reachability sets.
-/
import PMC.Proofs.BDDApiStore
import PMC.Proofs.BDDOps
namespace PMC.C16
open PMC.BDD

/-- `r.descendents()` = the nodes reachable from `r` along low / high edges (`r` and the terminals included) -/
theorem descendants_iff (s : Store) (hs : s.Inv) (r z : Ref) : z ∈ descendants s r ↔ Desc s.live r z :=
  mem_descendants_iff s hs r z

/-- `descendents()` is closed under children -/
theorem descendants_closed (s : Store) (hs : s.Inv) (r : Ref) (n : Nat) (nd : Nd)
    (hn : .id n ∈ descendants s r) (hmem : (n, nd) ∈ s.live) :
    nd.lo ∈ descendants s r ∧ nd.hi ∈ descendants s r :=
  PMC.BDD.descendants_closed s hs r n nd hn hmem

/-- `r.ancestors()` = the nodes from which `r` is reachable -/
theorem ancestors_iff (s : Store) (r z : Ref) : z ∈ ancestors s r ↔ Desc s.live z r := mem_ancestors_iff s r z

theorem descendants_ancestors (s : Store) (hs : s.Inv) (x y : Ref) : x ∈ descendants s y ↔ y ∈ ancestors s x :=
  PMC.BDD.descendants_ancestors s hs x y

/-- every live node reaches a terminal -/
theorem live_reaches_terminal (s : Store) (hs : s.Inv) (r : Ref) (hr : RefIn s.live r) :
    ∃ b, Desc s.live r (.term b) := PMC.BDD.live_reaches_terminal hs.wf r hr

/-- **`BDDNode.nodes()` is the two terminals and ALL the live non-terminal nodes** -/
theorem nodes_iff (s : Store) (hs : s.Inv) (x : Ref) :
    x ∈ nodes s ↔ x = .term false ∨ x = .term true ∨ ∃ n ∈ s.ids, x = .id n := mem_nodes_iff s hs x

/-- … after every admissible history of node creations and garbage collections -/
theorem history_nodes (ops : List Op) (h : HistOk emptyStore ops) (n : Nat) :
    .id n ∈ nodes (ops.foldl stepOp emptyStore) ↔ n ∈ (ops.foldl stepOp emptyStore).ids :=
  id_mem_nodes_iff _ (PMC.BDD.history_inv ops h) n

/-- so two entries of `nodes()` with the same (variable, low, high) are the same node: the duplicate scan over
    `nodes()` is a scan over the whole table -/
theorem nodes_no_duplicate_triple (s : Store) (hs : s.Inv) (p q : Nat × Nd) (hp : p ∈ s.live) (hq : q ∈ s.live)
    (h : p.2 = q.2) : .id p.1 ∈ nodes s ∧ .id q.1 ∈ nodes s ∧ p = q :=
  ⟨(id_mem_nodes_iff s hs p.1).mpr (List.mem_map.mpr ⟨p, hp, rfl⟩),
   (id_mem_nodes_iff s hs q.1).mpr (List.mem_map.mpr ⟨q, hq, rfl⟩),
   PMC.BDD.no_duplicate_triple s hs p q hp hq h⟩

/-! non-vacuity: the history of C16.lean (two creations, a collection, a re-creation) -/
example : let s := ([.mk 1 (.term false) (.term true), .mk 0 (.term false) (.id 0), .gc [0],
      .mk 0 (.term false) (.id 0)] : List Op).foldl stepOp emptyStore
    Ref.id 0 ∈ nodes s ∧ Ref.id 2 ∈ nodes s ∧ Ref.id 1 ∉ nodes s := by
  intro s
  have hh : HistOk emptyStore [.mk 1 (.term false) (.term true), .mk 0 (.term false) (.id 0), .gc [0],
      .mk 0 (.term false) (.id 0)] := by
    simp [HistOk, OpOk, stepOp, mkNode, findIso, fLow, fHigh, gc, emptyStore, RefIn, Closed]
  have key := fun n => history_nodes _ hh n
  have hids : s.ids = [2, 0] := by
    simp [s, stepOp, mkNode, findIso, fLow, fHigh, gc, emptyStore, Store.ids]
  refine ⟨(key 0).mpr ?_, (key 2).mpr ?_, fun h => ?_⟩
  · show 0 ∈ s.ids; rw [hids]; simp
  · show 2 ∈ s.ids; rw [hids]; simp
  · have : 1 ∈ s.ids := (key 1).mp h
    rw [hids] at this; simp at this

#print axioms descendants_iff
#print axioms ancestors_iff
#print axioms nodes_iff
#print axioms history_nodes
end PMC.C16
