/-
  C16, composition — "… This holds for every interleaving of node creation, dropping of references and garbage
  collection, and no two live non-terminal nodes ever share the same (variable, low, high)."

  `C16.session_canonical` covers sessions that only accumulate roots; `C16.history_inv` + `C16.gc_preserves` cover
  collections at raw node level (arbitrary `mkNode`s, no ordering).  Here the two are composed at the level of OBDD
  operations on a pool of live roots.  Commands (`HCmd`, PMC/Proofs/BDDHistory.lean — built only from the model's
  store-level functions `build`/`intern`, `mkNode`, `applyRoot`, `restrictRoot`, `invertRoot`, `gc`):

      new e | const b | var v | apply op i j | restrict x b i | invert i | drop i | gc keep

  `drop i` removes a reference from the pool; `gc keep` is ANY admissible collection: the kept part is closed under
  children and contains every live root, i.e. only nodes unreachable from the live roots disappear (`HCmdOk`; the
  side condition is that of `C16.gc_preserves`, with "the surviving roots" now being the session's pool).  Admissible
  collections exist in every reachable state: `full_sweep_admissible`.

  `history_canonical`: after ANY history of these commands whose collections are admissible,
    (1) the store satisfies the unique-table invariant,
    (2) no two live nodes share (variable, low, high),
    (3) every live root is usable, ordered (variables are positions in the session's ordering) and reduced,
    (4) two live roots are the identical reference exactly when they denote the same Boolean function.
  `step_keeps_functions`: no command changes the tree (hence the function) of a root that stays in the pool;
  `new_denotes`, `op_denotes`: what each new root denotes.
-/
import PMC.Proofs.BDDHistory
import PMC.Properties.C16Ops
namespace PMC.C16
open PMC.BDD

/-- **headline**: any interleaving of creation (`new`, `const`, `var`), `apply`, `restrict`, `~`, dropping of
    references and admissible garbage collections -/
theorem history_canonical (σ0 : Session) (h0 : SessOK σ0) (cs : List HCmd) (hok : HistHOk σ0 cs) :
    (runH σ0 cs).store.Inv ∧
    (∀ p ∈ (runH σ0 cs).store.live, ∀ q ∈ (runH σ0 cs).store.live, p.2 = q.2 → p = q) ∧
    (∀ r ∈ (runH σ0 cs).roots, RefIn (runH σ0 cs).store.live r ∧
      PMC.BDD.Ord 0 (treeOf (runH σ0 cs).store.live r) ∧ Reduced (treeOf (runH σ0 cs).store.live r)) ∧
    ∀ r1 ∈ (runH σ0 cs).roots, ∀ r2 ∈ (runH σ0 cs).roots,
      (r1 = r2 ↔ ∀ ρ, denote (treeOf (runH σ0 cs).store.live r1) ρ
        = denote (treeOf (runH σ0 cs).store.live r2) ρ) := by
  obtain ⟨hinv, hroots⟩ := runH_ok cs σ0 h0 hok
  refine ⟨hinv, fun p hp q hq h => no_duplicate_triple _ hinv p q hp hq h,
    fun r hr => ⟨(hroots r hr).1, (hroots r hr).2, live_tree_reduced _ hinv r (hroots r hr).1⟩, ?_⟩
  intro r1 h1 r2 h2
  obtain ⟨a1, o1⟩ := hroots r1 h1
  obtain ⟨a2, o2⟩ := hroots r2 h2
  exact obdd_eq_iff_same_function _ hinv r1 r2 a1 a2 0 0 o1 o2
    (live_tree_reduced _ hinv _ a1) (live_tree_reduced _ hinv _ a2)

/-- … in particular from the empty store with no root -/
theorem history_canonical_empty (cs : List HCmd) (hok : HistHOk ⟨emptyStore, []⟩ cs) :
    (runH ⟨emptyStore, []⟩ cs).store.Inv ∧
    (∀ p ∈ (runH ⟨emptyStore, []⟩ cs).store.live, ∀ q ∈ (runH ⟨emptyStore, []⟩ cs).store.live, p.2 = q.2 → p = q) ∧
    (∀ r ∈ (runH ⟨emptyStore, []⟩ cs).roots, RefIn (runH ⟨emptyStore, []⟩ cs).store.live r ∧
      PMC.BDD.Ord 0 (treeOf (runH ⟨emptyStore, []⟩ cs).store.live r) ∧
      Reduced (treeOf (runH ⟨emptyStore, []⟩ cs).store.live r)) ∧
    ∀ r1 ∈ (runH ⟨emptyStore, []⟩ cs).roots, ∀ r2 ∈ (runH ⟨emptyStore, []⟩ cs).roots,
      (r1 = r2 ↔ ∀ ρ, denote (treeOf (runH ⟨emptyStore, []⟩ cs).store.live r1) ρ
        = denote (treeOf (runH ⟨emptyStore, []⟩ cs).store.live r2) ρ) :=
  history_canonical _ sessOK_empty cs hok

/-- a history without any collection needs no side condition at all -/
theorem histHOk_of_no_gc : ∀ (cs : List HCmd) (σ : Session), (∀ c ∈ cs, ∀ keep, c ≠ .gc keep) → HistHOk σ cs
  | [], _, _ => trivial
  | c :: cs, σ, h => by
    refine ⟨?_, histHOk_of_no_gc cs _ fun c' hc' => h c' (List.mem_cons_of_mem _ hc')⟩
    cases c with
    | gc keep => exact absurd rfl (h _ List.mem_cons_self keep)
    | _ => trivial

/-- admissible collections exist in every well-formed state: removing EVERY node unreachable from the live roots
    (what reference counting does at once) is admissible -/
theorem full_sweep_admissible (σ : Session) (h : SessOK σ) : HCmdOk σ (sweepAll σ) :=
  sweepAll_ok σ h

/-- no command changes the tree — hence the Boolean function — of a root that stays in the pool -/
theorem step_keeps_functions (σ : Session) (h : SessOK σ) (c : HCmd) (hc : HCmdOk σ c) :
    SessOK (stepH σ c) ∧
    ∀ r ∈ σ.roots, r ∈ (stepH σ c).roots → treeOf (stepH σ c).store.live r = treeOf σ.store.live r :=
  stepH_spec σ h c hc

/-- the root created by `new e` denotes `e` (when `e` parses; otherwise the session is unchanged) -/
theorem new_denotes (σ : Session) (h : SessOK σ) (e : BExp) (t : BDD) (hb : build e = .ok t) :
    ∃ r, (stepH σ (.new e)).roots = r :: σ.roots ∧ treeOf (stepH σ (.new e)).store.live r = t ∧
      ∀ ρ, denote (treeOf (stepH σ (.new e)).store.live r) ρ = evalB ρ e :=
  stepH_new_spec σ h e t hb

theorem new_error (σ : Session) (e : BExp) (err : BErr) (hb : build e = .error err) : stepH σ (.new e) = σ := by
  simp only [stepH, hb]

/-- the root created by `const`/`var`/`apply`/`restrict`/`~` denotes the intended function (`cmdSem`) -/
theorem op_denotes (σ : Session) (h : SessOK σ) (c : HCmd) (c' : Cmd) (hc : c.toCmd = some c') :
    ∃ r, (stepH σ c).roots = r :: σ.roots ∧ ∀ ρ, denote (treeOf (stepH σ c).store.live r) ρ = cmdSem σ c' ρ :=
  stepH_cmd_spec σ h c c' hc

/-! ### non-vacuity: create `a ∧ b` and `a`, drop `a ∧ b`, collect its nodes, re-create `b` and `a ∧ b` by `apply`,
    and build `¬(¬a ∨ ¬b)` from an expression: the last two roots are the same reference, with fresh node ids -/

def exHist : List HCmd :=
  [.new (.band (.var (some 0)) (.var (some 1))), .var 0, .drop 1, .gc [2], .var 1, .apply (· && ·) 1 0,
   .new (.not (.bor (.not (.var (some 0))) (.not (.var (some 1)))))]

example : HistHOk ⟨emptyStore, []⟩ exHist := by
  refine ⟨trivial, trivial, trivial, ?_, trivial, trivial, trivial, trivial⟩
  have hroots : (stepH (stepH (stepH ⟨emptyStore, []⟩ (.new (.band (.var (some 0)) (.var (some 1))))) (.var 0))
      (.drop 1)).roots = [.id 2] := by decide
  refine ⟨?_, ?_⟩
  swap
  · intro r hr
    rw [hroots] at hr
    obtain rfl : r = .id 2 := by simpa using hr
    simp [RefKept]
  intro p hp
  have : p = (2, ⟨0, .term false, .term true⟩) ∨ p = (1, ⟨0, .term false, .id 0⟩) ∨
      p = (0, ⟨1, .term false, .term true⟩) := by
    revert hp; decide +revert
  rcases this with rfl | rfl | rfl <;> simp

example :
    let σ := runH ⟨emptyStore, []⟩ exHist
    σ.roots = [.id 4, .id 4, .id 3, .id 2] ∧ σ.store.ids = [4, 3, 2] ∧ σ.store.nextId = 5 := by
  decide

/-- the full sweep at the same point of the history is the collection `gc [2]` -/
example :
    let σ := runH ⟨emptyStore, []⟩ (exHist.take 3)
    sweepAll σ = .gc (mark σ.store.live (σ.roots.flatMap refIds)) ∧ mark σ.store.live (σ.roots.flatMap refIds) = [2] :=
  ⟨rfl, by decide⟩

#print axioms history_canonical
#print axioms history_canonical_empty
#print axioms full_sweep_admissible
#print axioms step_keeps_functions
#print axioms new_denotes
#print axioms op_denotes
end PMC.C16
