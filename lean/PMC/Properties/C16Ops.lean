/-
  C16 (continued) — the real algorithms on the shared unique table.

  PMC/Model/BDDStoreOps.lean models `apply`/`compute`, `cache_restrict`/`compute_restrict` and `__invert__` of BDD.py
  as they run: on the shared node store through `BDDNonTerminalNode(...)` (= `mkNode`) and with the per-call memo
  cache `r_cache`.  This file links them to the tree-level algorithms (`applyOp`, `restrict`, `invert`):

  * `applyS_spec`, `restrictS_spec`, `invertS_spec`: from a store satisfying the unique-table invariant, usable
    argument references, enough fuel and a cache that is correct for the current store, the call returns a store that
    again satisfies the invariant, in which every previously usable reference is still usable and unfolds to the same
    tree, a usable result reference that unfolds to the tree-level result, and a cache that is correct for the new
    store.
    Route: the tree-level `apply` is fuel-independent above the size bound (`PMC.BDD.apply_fuel`), so the result is
    characterised structurally (`= applyOp op ta tb`, and `= apply op fuel ta tb` for the same fuel); no `Ord`,
    `Reduced` or `canonical` is needed for these three theorems.
  * `cache_transparent`, `recompute_same_ref`: the cache does not influence what is computed.
  * `session_canonical`: in a session made of any sequence of constants, variables, `apply`, `restrict`, `~` over one
    store, two held roots are the identical node exactly when they denote the same Boolean function
    (`stepCmd_spec` says which function each new root denotes).
-/
import PMC.Proofs.BDDStoreOps
import PMC.Properties.C16
namespace PMC.C16
open PMC.BDD

/-- `apply` on the store with a memo cache -/
theorem applyS_spec (op : Bool → Bool → Bool) (fuel : Nat) (s : Store) (c : Cache2) (a b : Ref) (hs : s.Inv)
    (hc : CacheOK2 op s c) (ha : RefIn s.live a) (hb : RefIn s.live b)
    (hf : size (treeOf s.live a) + size (treeOf s.live b) ≤ fuel + 1) :
    (applyS op fuel s c a b).2.1.Inv ∧
    (∀ r0, RefIn s.live r0 → RefIn (applyS op fuel s c a b).2.1.live r0 ∧
      treeOf (applyS op fuel s c a b).2.1.live r0 = treeOf s.live r0) ∧
    RefIn (applyS op fuel s c a b).2.1.live (applyS op fuel s c a b).1 ∧
    treeOf (applyS op fuel s c a b).2.1.live (applyS op fuel s c a b).1
      = applyOp op (treeOf s.live a) (treeOf s.live b) ∧
    treeOf (applyS op fuel s c a b).2.1.live (applyS op fuel s c a b).1
      = PMC.BDD.apply op fuel (treeOf s.live a) (treeOf s.live b) ∧
    CacheOK2 op (applyS op fuel s c a b).2.1 (applyS op fuel s c a b).2.2 :=
  PMC.BDD.applyS_spec op fuel s c a b hs hc ha hb hf

/-- `restrict` on the store with a memo cache -/
theorem restrictS_spec (x : Nat) (val : Bool) (fuel : Nat) (s : Store) (c : Cache1) (a : Ref) (hs : s.Inv)
    (hc : CacheOK1 (restrict x val) s c) (ha : RefIn s.live a) (hf : size (treeOf s.live a) ≤ fuel) :
    (restrictS x val fuel s c a).2.1.Inv ∧
    (∀ r0, RefIn s.live r0 → RefIn (restrictS x val fuel s c a).2.1.live r0 ∧
      treeOf (restrictS x val fuel s c a).2.1.live r0 = treeOf s.live r0) ∧
    RefIn (restrictS x val fuel s c a).2.1.live (restrictS x val fuel s c a).1 ∧
    treeOf (restrictS x val fuel s c a).2.1.live (restrictS x val fuel s c a).1
      = restrict x val (treeOf s.live a) ∧
    CacheOK1 (restrict x val) (restrictS x val fuel s c a).2.1 (restrictS x val fuel s c a).2.2 :=
  PMC.BDD.restrictS_spec x val fuel s c a hs hc ha hf

/-- `~` on the store with a memo cache -/
theorem invertS_spec (fuel : Nat) (s : Store) (c : Cache1) (a : Ref) (hs : s.Inv)
    (hc : CacheOK1 invert s c) (ha : RefIn s.live a) (hf : size (treeOf s.live a) ≤ fuel) :
    (invertS fuel s c a).2.1.Inv ∧
    (∀ r0, RefIn s.live r0 → RefIn (invertS fuel s c a).2.1.live r0 ∧
      treeOf (invertS fuel s c a).2.1.live r0 = treeOf s.live r0) ∧
    RefIn (invertS fuel s c a).2.1.live (invertS fuel s c a).1 ∧
    treeOf (invertS fuel s c a).2.1.live (invertS fuel s c a).1 = invert (treeOf s.live a) ∧
    CacheOK1 invert (invertS fuel s c a).2.1 (invertS fuel s c a).2.2 :=
  PMC.BDD.invertS_spec fuel s c a hs hc ha hf

/-- the empty cache is correct for every store -/
theorem cacheOK2_nil (op : Bool → Bool → Bool) (s : Store) : CacheOK2 op s [] := fun _ _ _ h => by cases h
theorem cacheOK1_nil (f : BDD → BDD) (s : Store) : CacheOK1 f s [] := fun _ _ h => by cases h

/-- **the cache is transparent**: whatever correct cache the call starts from, the result unfolds to the same tree as
    with the empty cache, namely the tree-level result; and interning that tree in the resulting store finds exactly
    the returned reference and allocates nothing. -/
theorem cache_transparent (op : Bool → Bool → Bool) (fuel : Nat) (s : Store) (c : Cache2) (a b : Ref) (hs : s.Inv)
    (hc : CacheOK2 op s c) (ha : RefIn s.live a) (hb : RefIn s.live b)
    (hf : size (treeOf s.live a) + size (treeOf s.live b) ≤ fuel + 1) :
    treeOf (applyS op fuel s c a b).2.1.live (applyS op fuel s c a b).1
      = treeOf (applyS op fuel s [] a b).2.1.live (applyS op fuel s [] a b).1 ∧
    treeOf (applyS op fuel s [] a b).2.1.live (applyS op fuel s [] a b).1
      = applyOp op (treeOf s.live a) (treeOf s.live b) ∧
    intern (applyS op fuel s c a b).2.1 (applyOp op (treeOf s.live a) (treeOf s.live b))
      = ((applyS op fuel s c a b).1, (applyS op fuel s c a b).2.1) ∧
    intern (applyS op fuel s [] a b).2.1 (applyOp op (treeOf s.live a) (treeOf s.live b))
      = ((applyS op fuel s [] a b).1, (applyS op fuel s [] a b).2.1) := by
  obtain ⟨i1, _, i3, i4, _, _⟩ := applyS_spec op fuel s c a b hs hc ha hb hf
  obtain ⟨j1, _, j3, j4, _, _⟩ := applyS_spec op fuel s [] a b hs (cacheOK2_nil op s) ha hb hf
  exact ⟨i4.trans j4.symm, j4, intern_existing _ i1 _ _ i3 i4, intern_existing _ j1 _ _ j3 j4⟩

/-- recomputing with a fresh cache in the store left by an earlier call (started from any correct cache) returns the
    very same reference -/
theorem recompute_same_ref (op : Bool → Bool → Bool) (fuel : Nat) (s : Store) (c : Cache2) (a b : Ref) (hs : s.Inv)
    (hc : CacheOK2 op s c) (ha : RefIn s.live a) (hb : RefIn s.live b)
    (hf : size (treeOf s.live a) + size (treeOf s.live b) ≤ fuel + 1) :
    (applyS op fuel (applyS op fuel s c a b).2.1 [] a b).1 = (applyS op fuel s c a b).1 := by
  obtain ⟨i1, i2, i3, i4, _, _⟩ := applyS_spec op fuel s c a b hs hc ha hb hf
  obtain ⟨a1, a2⟩ := i2 a ha
  obtain ⟨b1, b2⟩ := i2 b hb
  obtain ⟨j1, j2, j3, j4, _, _⟩ := applyS_spec op fuel (applyS op fuel s c a b).2.1 [] a b i1
    (cacheOK2_nil op _) a1 b1 (by rw [a2, b2]; exact hf)
  obtain ⟨k1, k2⟩ := j2 _ i3
  apply treeOf_inj _ j1.wf _ _ j3 k1
  rw [j4, k2, i4, a2, b2]

/-- same transparency statements for `restrict` and `~` -/
theorem cache_transparent_restrict (x : Nat) (val : Bool) (fuel : Nat) (s : Store) (c : Cache1) (a : Ref)
    (hs : s.Inv) (hc : CacheOK1 (restrict x val) s c) (ha : RefIn s.live a) (hf : size (treeOf s.live a) ≤ fuel) :
    treeOf (restrictS x val fuel s c a).2.1.live (restrictS x val fuel s c a).1
      = treeOf (restrictS x val fuel s [] a).2.1.live (restrictS x val fuel s [] a).1 ∧
    intern (restrictS x val fuel s c a).2.1 (restrict x val (treeOf s.live a))
      = ((restrictS x val fuel s c a).1, (restrictS x val fuel s c a).2.1) := by
  obtain ⟨i1, _, i3, i4, _⟩ := restrictS_spec x val fuel s c a hs hc ha hf
  obtain ⟨_, _, _, j4, _⟩ := restrictS_spec x val fuel s [] a hs (cacheOK1_nil _ s) ha hf
  exact ⟨i4.trans j4.symm, intern_existing _ i1 _ _ i3 i4⟩

theorem cache_transparent_invert (fuel : Nat) (s : Store) (c : Cache1) (a : Ref)
    (hs : s.Inv) (hc : CacheOK1 invert s c) (ha : RefIn s.live a) (hf : size (treeOf s.live a) ≤ fuel) :
    treeOf (invertS fuel s c a).2.1.live (invertS fuel s c a).1
      = treeOf (invertS fuel s [] a).2.1.live (invertS fuel s [] a).1 ∧
    intern (invertS fuel s c a).2.1 (invert (treeOf s.live a))
      = ((invertS fuel s c a).1, (invertS fuel s c a).2.1) := by
  obtain ⟨i1, _, i3, i4, _⟩ := invertS_spec fuel s c a hs hc ha hf
  obtain ⟨_, _, _, j4, _⟩ := invertS_spec fuel s [] a hs (cacheOK1_nil _ s) ha hf
  exact ⟨i4.trans j4.symm, intern_existing _ i1 _ _ i3 i4⟩

/-- every live tree is reduced (so `Reduced` never has to be assumed for roots of a store) -/
theorem live_tree_reduced (s : Store) (hs : s.Inv) (r : Ref) (hr : RefIn s.live r) : Reduced (treeOf s.live r) :=
  treeOf_reduced hs.wf r hr

/-- one top-level `apply` from ordered roots: the result root is ordered, denotes `op` of the arguments' functions, and
    is the identical node as any other usable ordered root of the resulting store exactly when the two denote the same
    function -/
theorem applyRoot_eq_iff (op : Bool → Bool → Bool) (s : Store) (hs : s.Inv) (a b : Ref)
    (ha : RefIn s.live a) (hb : RefIn s.live b) (lb : Nat)
    (oa : PMC.BDD.Ord lb (treeOf s.live a)) (ob : PMC.BDD.Ord lb (treeOf s.live b)) :
    (applyRoot op s a b).2.Inv ∧ RefIn (applyRoot op s a b).2.live (applyRoot op s a b).1 ∧
    PMC.BDD.Ord lb (treeOf (applyRoot op s a b).2.live (applyRoot op s a b).1) ∧
    (∀ ρ, denote (treeOf (applyRoot op s a b).2.live (applyRoot op s a b).1) ρ
      = op (denote (treeOf s.live a) ρ) (denote (treeOf s.live b) ρ)) ∧
    ∀ r2 l2, RefIn (applyRoot op s a b).2.live r2 → PMC.BDD.Ord l2 (treeOf (applyRoot op s a b).2.live r2) →
      ((applyRoot op s a b).1 = r2 ↔
        ∀ ρ, op (denote (treeOf s.live a) ρ) (denote (treeOf s.live b) ρ)
          = denote (treeOf (applyRoot op s a b).2.live r2) ρ) := by
  obtain ⟨i1, _, i3, i4, _, _⟩ := applyS_spec op _ s [] a b hs (cacheOK2_nil op s) ha hb (Nat.le_succ _)
  obtain ⟨d, o, _⟩ := applyOp_spec op _ _ lb oa ob (live_tree_reduced s hs a ha) (live_tree_reduced s hs b hb)
  have i4' : treeOf (applyRoot op s a b).2.live (applyRoot op s a b).1
      = applyOp op (treeOf s.live a) (treeOf s.live b) := i4
  have i1' : (applyRoot op s a b).2.Inv := i1
  have i3' : RefIn (applyRoot op s a b).2.live (applyRoot op s a b).1 := i3
  refine ⟨i1', i3', by rw [i4']; exact o, fun ρ => by rw [i4', d], ?_⟩
  intro r2 l2 h2 o2
  rw [obdd_eq_iff_same_function _ i1' _ r2 i3' h2 lb l2 (by rw [i4']; exact o) o2
    (live_tree_reduced _ i1' _ i3') (live_tree_reduced _ i1' _ h2)]
  simp only [i4', d]

/-- one command of a session: the session stays well-formed, the store only grows (old roots keep their trees), and
    the new root denotes the intended function (`cmdSem`) -/
theorem stepCmd_spec (σ : Session) (h : SessOK σ) (cmd : Cmd) :
    SessOK (stepCmd σ cmd) ∧
    (∀ r0, RefIn σ.store.live r0 →
      RefIn (stepCmd σ cmd).store.live r0 ∧ treeOf (stepCmd σ cmd).store.live r0 = treeOf σ.store.live r0) ∧
    ∃ r, (stepCmd σ cmd).roots = r :: σ.roots ∧
      ∀ ρ, denote (treeOf (stepCmd σ cmd).store.live r) ρ = cmdSem σ cmd ρ :=
  PMC.BDD.stepCmd_spec σ h cmd

/-- **headline**: after any sequence of constants, variables, `apply`, `restrict` and `~` executed in one store
    (each with its own fresh memo cache), the unique-table invariant holds and two held roots are the identical node
    exactly when they denote the same Boolean function -/
theorem session_canonical (σ0 : Session) (h0 : SessOK σ0) (cs : List Cmd) :
    (runCmds σ0 cs).store.Inv ∧
    ∀ r1 ∈ (runCmds σ0 cs).roots, ∀ r2 ∈ (runCmds σ0 cs).roots,
      (r1 = r2 ↔ ∀ ρ, denote (treeOf (runCmds σ0 cs).store.live r1) ρ
        = denote (treeOf (runCmds σ0 cs).store.live r2) ρ) := by
  obtain ⟨⟨hinv, hroots⟩, _, _⟩ := runCmds_ok cs σ0 h0
  refine ⟨hinv, ?_⟩
  intro r1 h1 r2 h2
  obtain ⟨a1, o1⟩ := hroots r1 h1
  obtain ⟨a2, o2⟩ := hroots r2 h2
  exact obdd_eq_iff_same_function _ hinv r1 r2 a1 a2 0 0 o1 o2
    (live_tree_reduced _ hinv _ a1) (live_tree_reduced _ hinv _ a2)

/-- … in particular from the empty store -/
theorem session_canonical_empty (cs : List Cmd) :
    ∀ r1 ∈ (runCmds ⟨emptyStore, []⟩ cs).roots, ∀ r2 ∈ (runCmds ⟨emptyStore, []⟩ cs).roots,
      (r1 = r2 ↔ ∀ ρ, denote (treeOf (runCmds ⟨emptyStore, []⟩ cs).store.live r1) ρ
        = denote (treeOf (runCmds ⟨emptyStore, []⟩ cs).store.live r2) ρ) :=
  (session_canonical _ sessOK_empty cs).2

/-! ### non-vacuity -/

/-- variables `a` (position 0, node 0) and `b` (position 1, node 1) -/
def exStore : Store :=
  (mkNode (mkNode emptyStore 0 (.term false) (.term true)).2 1 (.term false) (.term true)).2

/-- `a ∧ b` twice in the same store, each time with a fresh cache: the first call allocates node 2, the second call
    allocates nothing and returns the same reference -/
example :
    let r1 := applyS (· && ·) 6 exStore [] (.id 0) (.id 1)
    let r2 := applyS (· && ·) 6 r1.2.1 [] (.id 0) (.id 1)
    r1.1 = .id 2 ∧ r1.2.1.nextId = 3 ∧
    r2.1 = r1.1 ∧ r2.2.1.live = r1.2.1.live ∧ r2.2.1.nextId = r1.2.1.nextId := by
  decide

/-- … and with the cache left by the first call the answer is an immediate cache hit -/
example :
    let r1 := applyS (· && ·) 6 exStore [] (.id 0) (.id 1)
    let r2 := applyS (· && ·) 6 r1.2.1 r1.2.2 (.id 0) (.id 1)
    r2.1 = r1.1 ∧ r2.2.1.live = r1.2.1.live ∧ r2.2.2 = r1.2.2 := by
  decide

/-- a session: `a`, `b`, `a ∧ b`, `¬a`, `¬b`, `¬a ∨ ¬b`, `¬(¬a ∨ ¬b)`: the last root is the node of `a ∧ b`
    (De Morgan), and restricting `a ∧ b` by `a := 1` gives the node of `b` -/
example :
    let σ := runCmds ⟨emptyStore, []⟩
      [.var 0, .var 1, .apply (· && ·) 1 0, .invert 2, .invert 2, .apply (· || ·) 1 0, .invert 0, .restrict 0 true 4]
    σ.roots.getD 1 (.term false) = σ.roots.getD 5 (.term true) ∧
    σ.roots.getD 0 (.term false) = σ.roots.getD 6 (.term true) := by
  decide

#print axioms applyS_spec
#print axioms restrictS_spec
#print axioms invertS_spec
#print axioms cache_transparent
#print axioms recompute_same_ref
#print axioms applyRoot_eq_iff
#print axioms session_canonical
end PMC.C16
