/-
  C17 — OBDD operations compute the right function, reduced and ordered.

  For every pair of OBDDs f, g over the same ordering and every variable v and value b: f&g, f|g, f^g, ~f and
  f.restrict(v,b) denote respectively the conjunction, disjunction, exclusive-or, negation and cofactor of the denoted
  functions on every assignment; every node reachable from a result tests a variable strictly earlier in the ordering
  than its children and has distinct children; variables() is exactly the support reachable in the diagram; combining
  OBDDs with different orderings or a variable outside the ordering raises RuntimeError.

  Model: PMC/Model/BDD.lean, tree level; variables are positions in the ordering, so `Ord lb t` ("every variable is
  ≥ lb and variables strictly increase along every branch") is "respects the ordering".  The ordering guards
  (`RuntimeError`) are decided before the tree level is reached and are exercised by the correspondence check.
-/
import PMC.Proofs.BDDOps
namespace PMC.C17
open PMC.BDD PMC.BDD.BDD

theorem and_spec (a b : BDD) (lb : Nat) (ha : PMC.BDD.Ord lb a) (hb : PMC.BDD.Ord lb b) (ra : Reduced a) (rb : Reduced b) :
    (∀ ρ, denote (band a b) ρ = (denote a ρ && denote b ρ)) ∧ PMC.BDD.Ord lb (band a b) ∧ Reduced (band a b) :=
  applyOp_spec _ a b lb ha hb ra rb

theorem or_spec (a b : BDD) (lb : Nat) (ha : PMC.BDD.Ord lb a) (hb : PMC.BDD.Ord lb b) (ra : Reduced a) (rb : Reduced b) :
    (∀ ρ, denote (bor a b) ρ = (denote a ρ || denote b ρ)) ∧ PMC.BDD.Ord lb (bor a b) ∧ Reduced (bor a b) :=
  applyOp_spec _ a b lb ha hb ra rb

theorem xor_spec (a b : BDD) (lb : Nat) (ha : PMC.BDD.Ord lb a) (hb : PMC.BDD.Ord lb b) (ra : Reduced a) (rb : Reduced b) :
    (∀ ρ, denote (bxor a b) ρ = (denote a ρ != denote b ρ)) ∧ PMC.BDD.Ord lb (bxor a b) ∧ Reduced (bxor a b) :=
  applyOp_spec _ a b lb ha hb ra rb

theorem invert_spec (a : BDD) (lb : Nat) (ha : PMC.BDD.Ord lb a) (ra : Reduced a) :
    (∀ ρ, denote (invert a) ρ = !(denote a ρ)) ∧ PMC.BDD.Ord lb (invert a) ∧ Reduced (invert a) :=
  PMC.BDD.invert_spec a lb ha ra

/-- `restrict(v, b)` is the cofactor -/
theorem restrict_spec (x : Nat) (val : Bool) (a : BDD) (lb : Nat) (ha : PMC.BDD.Ord lb a) (ra : Reduced a) :
    (∀ ρ, denote (restrict x val a) ρ = denote a (fun y => if y = x then val else ρ y)) ∧
    Ord lb (restrict x val a) ∧ Reduced (restrict x val a) :=
  PMC.BDD.restrict_spec x val a lb ha ra

/-- `variables()` lists exactly the variables the function depends on -/
theorem variables_eq_support (a : BDD) (lb : Nat) (ha : PMC.BDD.Ord lb a) (ra : Reduced a) (x : Nat) :
    x ∈ support a ↔ DependsOn (denote a) x :=
  support_iff_dependsOn a lb ha ra x

/-! non-vacuity -/
example : PMC.BDD.Ord 0 (node 0 (leaf false) (node 1 (leaf false) (leaf true))) ∧
    Reduced (node 0 (leaf false) (node 1 (leaf false) (leaf true))) := by
  simp [PMC.BDD.Ord, Reduced]
example : bxor (node 0 (leaf false) (leaf true)) (node 1 (leaf false) (leaf true))
    = node 0 (node 1 (leaf false) (leaf true)) (node 1 (leaf true) (leaf false)) := by decide

#print axioms and_spec
#print axioms restrict_spec
#print axioms variables_eq_support
end PMC.C17
